import ast, sys, os
SRC=sys.argv[1] if len(sys.argv)>1 else '/repo/src/spectrum'
CLASSES={'periodogram.py':['Periodogram'],'correlog.py':['pcorrelogram'],'burg.py':['pburg'],'yulewalker.py':['pyule'],
 'covar.py':['pcovar'],'modcovar.py':['pmodcovar'],'arma.py':['parma','pma'],'minvar.py':['pminvar'],'eigenfre.py':['pmusic','pev'],'mtm.py':['MultiTapering']}
class Fail(Exception): pass
def U(n): return ast.unparse(n)
def slice_pat(node):
    # psd[0:int(self.NFFT/2+1)] * 2  -> ('half_even',2) ; psd[0:int((self.NFFT+1)/2)] * 2 -> ('half_odd',2)
    if isinstance(node,ast.BinOp) and isinstance(node.op,ast.Mult) and isinstance(node.right,ast.Constant):
        f=node.right.value; sub=node.left
        if isinstance(sub,ast.Subscript) and isinstance(sub.slice,ast.Slice):
            lo=U(sub.slice.lower) if sub.slice.lower else '0'; hi=U(sub.slice.upper).replace(' ','')
            if lo=='0' and hi in ('int(self.NFFT/2+1)',): return ('[0:NFFT/2+1]',f,U(sub.value))
            if lo=='0' and hi in ('int((self.NFFT+1)/2)',): return ('[0:(NFFT+1)/2]',f,U(sub.value))
    raise Fail("slice "+U(node))
def analyse(cls):
    call=[n for n in cls.body if isinstance(n,ast.FunctionDef) and n.name=='__call__']
    if len(call)!=1: raise Fail("no __call__")
    body=call[0].body
    info={'estimator':[], 'stores':[], 'real':None, 'complex':None, 'scale':'never', 'returns':'None','post':[]}
    def store_psd(value, branch):
        info[branch]=value
    for st in body:
        if isinstance(st,(ast.Import,ast.ImportFrom)): continue
        if isinstance(st,ast.Expr) and isinstance(st.value,ast.Constant): continue
        if isinstance(st,ast.Assign) and len(st.targets)==1:
            t=st.targets[0]; v=st.value
            if isinstance(t,ast.Attribute) and U(t.value)=='self':
                if t.attr=='psd': info['real']=info['complex']=('store',U(v))
                elif t.attr=='modified': info['post'].append('modified='+U(v))
                else: info['stores'].append(t.attr+'='+U(v))
                continue
            if isinstance(v,ast.Call) or isinstance(v,ast.Subscript) or isinstance(v,ast.BinOp) or isinstance(v,ast.Call):
                info['estimator'].append(U(t)+' = '+U(v).replace('\n',' ')); continue
            if isinstance(t,ast.Tuple): info['estimator'].append(U(t)+' = '+U(v)); continue
            raise Fail("assign "+U(st))
        if isinstance(st,ast.If):
            test=U(st.test)
            if test in ("self.datatype == 'real'",'self.datatype == "real"'):
                # real branch
                real=None
                for s2 in st.body:
                    if isinstance(s2,ast.If) and U(s2.test).replace(' ','')=='self.NFFT%2==0':
                        a=s2.body[0]; b=s2.orelse[0]
                        real=(slice_pat(a.value),slice_pat(b.value)); tgt=U(a.targets[0])
                    elif isinstance(s2,ast.Assign) and U(s2.targets[0])=='self.psd':
                        real=('store',U(s2.value),real)
                    elif isinstance(s2,ast.Expr) and isinstance(s2.value,ast.Constant): pass
                    else: raise Fail("real branch "+U(s2))
                info['real']=real
                if len(st.orelse)!=1 or U(st.orelse[0].targets[0])!='self.psd': raise Fail("complex branch")
                info['complex']=('store',U(st.orelse[0].value))
                continue
            if test.replace(' ','') in ('self.scale_by_freqisTrue',) and len(st.body)==1 and U(st.body[0])=='self.scale()':
                info['scale']='if_flag'; continue
            if test in ("self.method == 'adapt'",'self.method == "adapt"'):
                info['estimator'].append('if adapt: '+'; '.join(U(x) for x in st.body)+' else: '+'; '.join(U(x) for x in st.orelse)); continue
            raise Fail("if "+test)
        if isinstance(st,ast.Expr) and U(st)=='self.scale()': info['scale']='always(call tests flag)'; continue
        if isinstance(st,ast.Return): info['returns']=U(st.value); continue
        raise Fail("stmt "+U(st))
    return info
for fn,names in CLASSES.items():
    t=ast.parse(open(os.path.join(SRC,fn)).read())
    for c in [n for n in t.body if isinstance(n,ast.ClassDef) and n.name in names]:
        try:
            i=analyse(c)
            print(f"{c.name}: scale={i['scale']} returns={i['returns']} post={i['post']}")
            print("   est:", " | ".join(i['estimator'])[:230])
            print("   stores:", i['stores'])
            print("   real:", i['real']); print("   complex:", i['complex'])
        except Fail as e: print(c.name,"FAIL-CLOSED:",e)
