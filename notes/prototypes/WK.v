From Coq Require Import List Arith ZArith Field Ring Lia Bool.
Section WK.
Variable F : Type.
Variables (f0 f1 : F) (fadd fmul fsub : F -> F -> F) (fopp : F -> F) (fdiv : F -> F -> F) (finv : F -> F) (cj : F -> F).
Hypothesis Fth : field_theory f0 f1 fadd fmul fsub fopp fdiv finv eq.
Hypothesis cj_add : forall a b, cj (fadd a b) = fadd (cj a) (cj b).
Hypothesis cj_mul : forall a b, cj (fmul a b) = fmul (cj a) (cj b).
Hypothesis cj_cj : forall a, cj (cj a) = a.
Hypothesis cj_0 : cj f0 = f0.
Add Field FF : Fth.
Declare Scope fs. Delimit Scope fs with fs.
Notation "a + b" := (fadd a b) : fs. Notation "a * b" := (fmul a b) : fs.
Notation "0" := f0 : fs. Notation "1" := f1 : fs.
Local Open Scope fs.
Fixpoint sumf (n:nat) (f:nat->F) : F := match n with O => 0 | S k => sumf k f + f k end.
Lemma sumf_S n f : sumf (S n) f = sumf n f + f n. Proof. reflexivity. Qed.
Lemma sumf_ext n f g : (forall i, (i < n)%nat -> f i = g i) -> sumf n f = sumf n g.
Proof. induction n; cbn; intros H; [reflexivity|]. rewrite IHn, H; auto. Qed.
Lemma sumf_add n f g : sumf n (fun i => f i + g i) = sumf n f + sumf n g.
Proof. induction n; cbn; [ring|]. rewrite IHn; ring. Qed.
Lemma sumf_scale n c f : sumf n (fun i => c * f i) = c * sumf n f.
Proof. induction n; cbn; [ring|]. rewrite IHn; ring. Qed.
Lemma sumf_scale_r n c f : sumf n (fun i => f i * c) = sumf n f * c.
Proof. induction n; cbn; [ring|]. rewrite IHn; ring. Qed.
Lemma sumf_cj n f : cj (sumf n f) = sumf n (fun i => cj (f i)).
Proof. induction n; cbn; [apply cj_0|]. rewrite cj_add, IHn; reflexivity. Qed.
Lemma sumf_zero n : sumf n (fun _ => 0) = 0. Proof. induction n; cbn; [reflexivity|]. rewrite IHn; ring. Qed.
Lemma sumf_shift n f : sumf (S n) f = f O + sumf n (fun i => f (S i)).
Proof. induction n; [cbn; ring|]. rewrite sumf_S, IHn. cbn. ring. Qed.
Lemma sumf_rev n f : sumf n f = sumf n (fun i => f (n - 1 - i)%nat).
Proof.
  revert f; induction n; intros f; [reflexivity|].
  rewrite sumf_shift. cbn [sumf]. replace (S n - 1 - n)%nat with O by lia.
  rewrite (IHn (fun i => f (S i))).
  rewrite (Radd_comm (F_R Fth)). f_equal. apply sumf_ext; intros i Hi; f_equal; lia.
Qed.

(* --- the three combinatorial lemmas --- *)
(* 1. a square is its lower triangle (by rows, diagonal included) plus its strict upper triangle (by columns) *)
Lemma square_split N (g:nat->nat->F) :
  sumf N (fun m => sumf N (fun m' => g m m'))
  = sumf N (fun m => sumf (S m) (fun m' => g m m')) + sumf N (fun m' => sumf m' (fun m => g m m')).
Proof.
  induction N; [cbn; ring|].
  rewrite (sumf_S N (fun m => sumf (S N) (fun m' => g m m'))).
  rewrite (sumf_ext N (fun m => sumf (S N) (fun m' => g m m')) (fun m => sumf N (fun m' => g m m') + g m N)) by (intros; apply sumf_S).
  rewrite sumf_add, IHN.
  rewrite (sumf_S N (fun m => sumf (S m) (fun m' => g m m'))).
  rewrite (sumf_S N (fun m' => sumf m' (fun m => g m m'))).
  ring.
Qed.
(* 2. triangular exchange: rows m with d <= m  <->  diagonals d with j = m - d *)
Lemma tri_exch N (g:nat->nat->F) :
  sumf N (fun m => sumf (S m) (fun d => g m d)) = sumf N (fun d => sumf (N - d) (fun j => g (j + d)%nat d)).
Proof.
  induction N; [reflexivity|].
  rewrite (sumf_S N (fun m => sumf (S m) (fun d => g m d))), IHN.
  rewrite (sumf_S N (fun d => sumf (S N - d) (fun j => g (j + d)%nat d))).
  replace (S N - N)%nat with 1%nat by lia.
  rewrite (sumf_ext N (fun d => sumf (S N - d) (fun j => g (j + d)%nat d)) (fun d => sumf (N - d) (fun j => g (j + d)%nat d) + g N d)).
  2:{ intros d Hd. replace (S N - d)%nat with (S (N - d)) by lia. rewrite sumf_S. f_equal. f_equal. lia. }
  rewrite sumf_add. rewrite (sumf_S N (fun d => g N d)). cbn [sumf Nat.add].
  change (sumf N (fun d : nat => g N d)) with (sumf N (g N)). ring.
Qed.
(* 3. strict upper triangle by columns -> by diagonals d+1 *)
Lemma upper_diag N (g:nat->nat->F) :
  sumf N (fun m' => sumf m' (fun m => g m m')) = sumf (N - 1) (fun d => sumf (N - 1 - d) (fun j => g j (j + d + 1)%nat)).
Proof.
  destruct N as [|N]; [reflexivity|]. replace (S N - 1)%nat with N by lia.
  rewrite (sumf_shift N (fun m' => sumf m' (fun m => g m m'))). cbv beta.
  change (sumf 0 (fun m => g m 0%nat)) with 0.
  transitivity (sumf N (fun i => sumf (S i) (fun d => g (i - d)%nat (S i)))).
  { transitivity (sumf N (fun i => sumf (S i) (fun m => g m (S i)))); [ring|].
    apply sumf_ext; intros i Hi. rewrite (sumf_rev (S i)). apply sumf_ext; intros d Hd. f_equal. lia. }
  rewrite (tri_exch N (fun m d => g (m - d)%nat (S m))).
  apply sumf_ext; intros d Hd. apply sumf_ext; intros j Hj. f_equal; lia.
Qed.

(* --- Wiener-Khinchin core --- *)
Variable tw : Z -> F.
Hypothesis tw_add : forall a b, tw (a + b)%Z = tw a * tw b.
Hypothesis tw_cj : forall a, cj (tw a) = tw (- a)%Z.
Variable N : nat.
Variable x : nat -> F.
Variable k : Z.
Definition X : F := sumf N (fun m => x m * tw (Z.of_nat m * k)%Z).
Definition r (d:nat) : F := sumf (N - d) (fun j => x (j + d)%nat * cj (x j)).

Theorem wk_core :
  X * cj X = sumf N (fun d => tw (Z.of_nat d * k)%Z * r d)
           + sumf (N - 1) (fun d => tw (- (Z.of_nat (d + 1) * k))%Z * cj (r (d + 1)%nat)).
Proof.
  set (g := fun m m' => x m * cj (x m') * tw ((Z.of_nat m - Z.of_nat m') * k)%Z).
  assert (E: X * cj X = sumf N (fun m => sumf N (fun m' => g m m'))).
  { unfold X. rewrite sumf_cj, <- sumf_scale_r. apply sumf_ext; intros m _.
    rewrite <- sumf_scale. apply sumf_ext; intros m' _. unfold g.
    rewrite cj_mul, tw_cj. replace ((Z.of_nat m - Z.of_nat m') * k)%Z with (Z.of_nat m * k + - (Z.of_nat m' * k))%Z by lia.
    rewrite tw_add. ring. }
  rewrite E, square_split. f_equal.
  - (* lower triangle -> diagonals d >= 0 *)
    rewrite (sumf_ext N (fun m => sumf (S m) (fun m' => g m m')) (fun m => sumf (S m) (fun d => g m (m - d)%nat))).
    2:{ intros m _. rewrite (sumf_rev (S m)). apply sumf_ext; intros d Hd. f_equal. lia. }
    rewrite (tri_exch N (fun m d => g m (m - d)%nat)).
    apply sumf_ext; intros d Hd. unfold r. rewrite <- sumf_scale. apply sumf_ext; intros j Hj.
    unfold g. replace (j + d - d)%nat with j by lia.
    replace ((Z.of_nat (j + d) - Z.of_nat j) * k)%Z with (Z.of_nat d * k)%Z by lia. ring.
  - (* strict upper triangle -> diagonals -(d+1) *)
    rewrite upper_diag. apply sumf_ext; intros d Hd. unfold r. rewrite sumf_cj, <- sumf_scale.
    replace (N - (d + 1))%nat with (N - 1 - d)%nat by lia.
    apply sumf_ext; intros j Hj. unfold g. rewrite cj_mul, cj_cj.
    replace ((Z.of_nat j - Z.of_nat (j + d + 1)) * k)%Z with (- (Z.of_nat (d + 1) * k))%Z by lia.
    replace (j + (d + 1))%nat with (j + d + 1)%nat by lia. ring.
Qed.
End WK.
Print Assumptions wk_core.
