From Coq Require Import List Arith ZArith Field Ring Lia Bool.
Import ListNotations.
Section C.
Variable F : Type.
Variables (f0 f1 : F) (fadd fmul fsub : F -> F -> F) (fopp : F -> F) (fdiv : F -> F -> F) (finv : F -> F).
Hypothesis Fth : field_theory f0 f1 fadd fmul fsub fopp fdiv finv eq.
Hypothesis two_neq_0 : fadd f1 f1 <> f0.
Add Field FF : Fth.
Declare Scope fs. Delimit Scope fs with fs.
Notation "a + b" := (fadd a b) : fs. Notation "a * b" := (fmul a b) : fs. Notation "a / b" := (fdiv a b) : fs.
Notation "0" := f0 : fs. Notation "1" := f1 : fs. Notation "2" := (fadd f1 f1) : fs.
Local Open Scope fs.
Definition nthF (l:list F) i := nth i l 0.
Definition mk (n:nat) (f:nat->F) : list F := map f (seq 0 n).
Lemma mk_length n f : length (mk n f) = n. Proof. unfold mk. rewrite map_length, seq_length. reflexivity. Qed.
Lemma nth_mk n f j : (j < n)%nat -> nthF (mk n f) j = f j.
Proof. intros H. unfold nthF, mk. rewrite (nth_indep _ 0 (f O)) by (rewrite map_length, seq_length; exact H).
  rewrite map_nth, seq_nth by exact H. reflexivity. Qed.
Lemma mk_ext n f g : (forall j, (j < n)%nat -> f j = g j) -> mk n f = mk n g.
Proof. intros H. unfold mk. apply map_ext_in. intros a Ha. apply in_seq in Ha. apply H. lia. Qed.
Lemma list_eq_mk (l:list F) : l = mk (length l) (nthF l).
Proof. unfold mk, nthF. induction l as [|x l IH]; [reflexivity|]. cbn [length seq map nth]. f_equal.
  rewrite <- seq_shift, map_map. exact IH. Qed.

(* repaired conversions, index form, no variable modulus *)
Definition two2center (t:list F) : list F := let n := length t in
  mk n (fun j => if (j <? n/2)%nat then nthF t (j + (n - n/2))%nat else nthF t (j - n/2)%nat).
Definition center2two (c:list F) : list F := let n := length c in
  mk n (fun j => if (j <? n - n/2)%nat then nthF c (j + n/2)%nat else nthF c (j - (n - n/2))%nat).
Definition one2two (odd:bool) (p:list F) : list F := let L := length p in
  if odd then mk (2*L-1) (fun j => if (j =? 0)%nat then nthF p 0 else if (j <? L)%nat then nthF p j / 2 else nthF p (2*L-1-j)%nat / 2)
  else mk (2*L-2) (fun j => if (j =? 0)%nat then nthF p 0 else if (j <? L-1)%nat then nthF p j / 2
                           else if (j =? L-1)%nat then nthF p (L-1)%nat else nthF p (2*L-2-j)%nat / 2).
Definition two2one (t:list F) : list F := let n := length t in
  mk (n/2+1) (fun j => if (j =? 0)%nat then nthF t 0 else if (Nat.even n && (j =? n/2)%nat)%bool then nthF t (n/2)%nat else 2 * nthF t j).

Theorem center_two_center t : center2two (two2center t) = t.
Proof.
  rewrite (list_eq_mk t) at 2. unfold center2two, two2center. rewrite mk_length.
  apply mk_ext; intros j Hj.
  destruct (Nat.ltb_spec j (length t - length t / 2)).
  - rewrite nth_mk by lia. destruct (Nat.ltb_spec (j + length t / 2) (length t / 2)); [lia|]. f_equal. lia.
  - rewrite nth_mk by lia. destruct (Nat.ltb_spec (j - (length t - length t / 2)) (length t / 2)); [|pose proof (Nat.div_lt_upper_bound (length t) 2 (length t)); lia].
    f_equal. lia.
Qed.
Theorem two_center_two c : two2center (center2two c) = c.
Proof.
  rewrite (list_eq_mk c) at 2. unfold center2two, two2center. rewrite mk_length.
  apply mk_ext; intros j Hj.
  destruct (Nat.ltb_spec j (length c / 2)).
  - rewrite nth_mk by lia. destruct (Nat.ltb_spec (j + (length c - length c / 2)) (length c - length c / 2)); [lia|]. f_equal. lia.
  - rewrite nth_mk by lia. destruct (Nat.ltb_spec (j - length c / 2) (length c - length c / 2)); [f_equal; lia|lia].
Qed.
Lemma half_half x : x / 2 * 2 = x. Proof. field. exact two_neq_0. Qed.

(* even NFFT: a one-sided vector of length L >= 2 <-> two-sided of length 2L-2 *)
Theorem two_one_two_even p : (2 <= length p)%nat -> two2one (one2two false p) = p.
Proof.
  intros HL. rewrite (list_eq_mk p) at 2. unfold two2one, one2two. rewrite mk_length.
  replace ((2 * length p - 2) / 2 + 1)%nat with (length p) by (replace (2 * length p - 2)%nat with ((length p - 1) * 2)%nat by lia; rewrite Nat.div_mul by lia; lia).
  apply mk_ext; intros j Hj.
  assert (E: ((2 * length p - 2) / 2 = length p - 1)%nat) by (replace (2 * length p - 2)%nat with ((length p - 1) * 2)%nat by lia; rewrite Nat.div_mul by lia; lia).
  assert (Ev: Nat.even (2 * length p - 2) = true) by (replace (2 * length p - 2)%nat with (2 * (length p - 1))%nat by lia; apply Nat.even_mul).
  rewrite E, Ev. cbn [andb].
  destruct (Nat.eqb_spec j 0) as [->|J0].
  - rewrite nth_mk by lia. reflexivity.
  - destruct (Nat.eqb_spec j (length p - 1)) as [->|J1].
    + rewrite nth_mk by lia. destruct (Nat.eqb_spec (length p - 1) 0); [lia|].
      destruct (Nat.ltb_spec (length p - 1) (length p - 1)); [lia|]. rewrite Nat.eqb_refl. reflexivity.
    + rewrite nth_mk by lia. destruct (Nat.eqb_spec j 0); [lia|]. destruct (Nat.ltb_spec j (length p - 1)); [|lia].
      rewrite (Rmul_comm (F_R Fth)). apply half_half.
Qed.
End C.
Print Assumptions two_one_two_even.
