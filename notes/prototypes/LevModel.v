From Coq Require Import List ZArith QArith Qcanon Bool.
Import ListNotations.
Require Import Proto.   (* Ops record *)
Section M.
Context {F:Type} (O:Ops F).
Notation "a + b" := (oadd O a b). Notation "a * b" := (omul O a b). Notation "a - b" := (osub O a b).
Notation "a / b" := (odiv O a b).
Definition nthF (l:list F) i := nth i l (o0 O).
Fixpoint sumL (l:list F) : F := match l with [] => o0 O | x::t => x + sumL t end.
(* one Levinson step: A current coefficients (length m), T = r[1:], P *)
Definition lev_delta (T A:list F) (m:nat) : F :=
  nthF T m + sumL (map (fun j => nthF A j * nthF T (m - j - 1)) (seq 0 m)).
Definition lev_step (T:list F) (st : list F * F * list F) (m:nat) : list F * F * list F :=
  let '(A,P,ks) := st in
  let k := oopp O (lev_delta T A m) / P in
  let A' := map (fun j => nthF A j + k * oconj O (nthF A (m - 1 - j))) (seq 0 m) ++ [k] in
  (A', P * (o1 O - k * oconj O k), ks ++ [k]).
Definition levinson (r:list F) (order:nat) : list F * F * list F :=
  fold_left (lev_step (tl r)) (seq 0 order) ([], nthF r 0, []).
End M.
(* exact compare helper *)
Definition q_of (num:Z) (e:Z) : Qc := Q2Qc (if (0 <=? e)%Z then inject_Z (num * 2^e) else (num # (Z.to_pos (2^(-e))))).
Definition qc (a:Z*Z) (b:Z*Z) : QC := (q_of (fst a) (snd a), q_of (fst b) (snd b)).
Definition Qcabs (x:Qc) : Qc := if Qle_bool x 0 then (- x)%Qc else x.
Definition close (tol:Qc) (a b:QC) : bool :=
  Qle_bool (Qcabs (fst a - fst b)) tol && Qle_bool (Qcabs (snd a - snd b)) tol.
Definition close_list tol (l1 l2:list QC) := (Nat.eqb (length l1) (length l2)) && forallb (fun p => close tol (fst p) (snd p)) (combine l1 l2).
Definition check_case (tol:Qc) (r:list QC) (order:nat) (ia:list QC) (ip:QC) (ik:list QC) : bool :=
  let '(a,p,k) := levinson qc_ops r order in close_list tol a ia && close tol p ip && close_list tol k ik.
