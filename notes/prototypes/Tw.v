From Coq Require Import Reals Lra Lia Arith.
From Coquelicot Require Import Complex.
Open Scope R_scope.
Section TW.
Variable n : nat.
Hypothesis n_pos : (0 < n)%nat.
Definition ang (a:nat) : R := 2 * PI * INR a / INR n.
Definition tw (a:nat) : C := (cos (ang a), - sin (ang a)).
Lemma INRn_pos : 0 < INR n. Proof. apply lt_0_INR; exact n_pos. Qed.
Lemma tw_0 : tw 0 = RtoC 1.
Proof. unfold tw, ang. simpl INR. replace (2*PI*0/INR n) with 0 by (field; apply Rgt_not_eq, INRn_pos).
  rewrite cos_0, sin_0, Ropp_0. reflexivity. Qed.
Lemma tw_add a b : Cmult (tw a) (tw b) = tw (a + b).
Proof. unfold tw, Cmult; simpl fst; simpl snd.
  replace (ang (a+b)) with (ang a + ang b) by (unfold ang; rewrite plus_INR; field; apply Rgt_not_eq, INRn_pos).
  rewrite cos_plus, sin_plus. unfold fst, snd. f_equal; ring. Qed.
Lemma tw_period a : tw (a + n) = tw a.
Proof. unfold tw. replace (ang (a+n)) with (ang a + 2*PI) by (unfold ang; rewrite plus_INR; field; apply Rgt_not_eq, INRn_pos).
  rewrite <- (cos_period (ang a) 1), <- (sin_period (ang a) 1). simpl INR. do 2 f_equal; try ring. f_equal. f_equal. ring. Qed.
Lemma tw_conj a : Cconj (tw a) = (cos (ang a), sin (ang a)).
Proof. unfold tw, Cconj; simpl. f_equal. ring. Qed.
Lemma tw_neq_1 j : (0 < j < n)%nat -> tw j <> RtoC 1.
Proof.
  intros [Hj1 Hj2] H. unfold tw, RtoC in H. injection H as Hc Hs.
  assert (A: 0 < ang j < 2*PI).
  { unfold ang. pose proof INRn_pos. pose proof PI_RGT_0. assert (0 < INR j) by (apply lt_0_INR; lia). assert (INR j < INR n) by (apply lt_INR; lia).
    split. { apply Rdiv_lt_0_compat; nra. } apply Rmult_lt_reg_r with (INR n); [lra|]. unfold Rdiv. rewrite Rmult_assoc, Rinv_l by lra. nra. }
  assert (S0: sin (ang j) = 0) by lra.
  destruct (sin_eq_O_2PI_0 (ang j)) as [E|[E|E]]; try lra.
  rewrite E, cos_PI in Hc. lra.
Qed.
End TW.
Check tw_neq_1. Print Assumptions tw_neq_1.
