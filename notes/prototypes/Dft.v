From Coq Require Import List Arith ZArith Field Ring Lia Bool.
Section DFT.
Variable F : Type.
Variables (f0 f1 : F) (fadd fmul fsub : F -> F -> F) (fopp : F -> F) (fdiv : F -> F -> F) (finv : F -> F) (cj : F -> F).
Hypothesis Fth : field_theory f0 f1 fadd fmul fsub fopp fdiv finv eq.
Hypothesis cj_add : forall a b, cj (fadd a b) = fadd (cj a) (cj b).
Hypothesis cj_mul : forall a b, cj (fmul a b) = fmul (cj a) (cj b).
Hypothesis cj_0 : cj f0 = f0.
Add Field FF : Fth.
Declare Scope fs. Delimit Scope fs with fs.
Notation "a + b" := (fadd a b) : fs. Notation "a * b" := (fmul a b) : fs. Notation "a - b" := (fsub a b) : fs.
Notation "0" := f0 : fs. Notation "1" := f1 : fs.
Local Open Scope fs.
Fixpoint sumf (n:nat) (f:nat->F) : F := match n with O => 0 | S k => sumf k f + f k end.
Lemma sumf_ext n f g : (forall i, (i < n)%nat -> f i = g i) -> sumf n f = sumf n g.
Proof. induction n; cbn; intros H; [reflexivity|]. rewrite IHn, H; auto. Qed.
Lemma sumf_add n f g : sumf n (fun i => f i + g i) = sumf n f + sumf n g.
Proof. induction n; cbn; [ring|]. rewrite IHn; ring. Qed.
Lemma sumf_sub n f g : sumf n (fun i => f i - g i) = sumf n f - sumf n g.
Proof. induction n; cbn; [ring|]. rewrite IHn; ring. Qed.
Lemma sumf_scale n c f : sumf n (fun i => c * f i) = c * sumf n f.
Proof. induction n; cbn; [ring|]. rewrite IHn; ring. Qed.
Lemma sumf_cj n f : cj (sumf n f) = sumf n (fun i => cj (f i)).
Proof. induction n; cbn; [apply cj_0|]. rewrite cj_add, IHn; reflexivity. Qed.
Lemma sumf_zero n : sumf n (fun _ => 0) = 0. Proof. induction n; cbn; [reflexivity|]. rewrite IHn; ring. Qed.
Lemma sumf_exch n m (f:nat->nat->F) : sumf n (fun i => sumf m (fun j => f i j)) = sumf m (fun j => sumf n (fun i => f i j)).
Proof. induction n; cbn. { symmetry; apply sumf_zero. } rewrite IHn, <- sumf_add. reflexivity. Qed.
Lemma sumf_delta n (m:nat) (c:F) : (m < n)%nat -> sumf n (fun i => if (i =? m)%nat then c else 0) = c.
Proof. induction n; intros H; [lia|]. cbn. destruct (Nat.eqb_spec n m) as [->|Hn].
  - rewrite (sumf_ext m _ (fun _ => 0)). { rewrite sumf_zero; ring. } intros i Hi. destruct (Nat.eqb_spec i m); [lia|reflexivity].
  - rewrite IHn by lia. ring. Qed.
Lemma sumf_telescope n (g:nat->F) : sumf n (fun k => g k - g (S k)) = g O - g n.
Proof. induction n; cbn; [ring|]. rewrite IHn; ring. Qed.
Lemma mul_cancel a b : a * b = 0 -> a <> 0 -> b = 0.
Proof. intros H Ha. transitivity (finv a * (a * b)). { field. exact Ha. } rewrite H; ring. Qed.

(* twiddles: a character of (Z,+) of exact period n *)
Variable n : nat. Hypothesis n_pos : (0 < n)%nat.
Variable tw : Z -> F.
Hypothesis tw_add : forall a b, tw (a + b)%Z = tw a * tw b.
Hypothesis tw_0 : tw 0%Z = 1.
Hypothesis tw_n : tw (Z.of_nat n) = 1.
Hypothesis tw_cj : forall a, cj (tw a) = tw (- a)%Z.
Hypothesis tw_prim : forall j, (0 < j < Z.of_nat n)%Z -> tw j <> 1.
Variable nF : F. Hypothesis nF_def : sumf n (fun _ => 1) = nF.

Lemma tw_mul_n j : tw (j * Z.of_nat n)%Z = 1.
Proof. 
  assert (P: forall k:nat, tw (Z.of_nat k * Z.of_nat n)%Z = 1).
  { induction k. { cbn. exact tw_0. } replace (Z.of_nat (S k) * Z.of_nat n)%Z with (Z.of_nat k * Z.of_nat n + Z.of_nat n)%Z by lia. rewrite tw_add, IHk, tw_n. ring. }
  destruct (Z_le_gt_dec 0 j).
  - rewrite <- (Z2Nat.id j) by lia. apply P.
  - assert (E: tw (j * Z.of_nat n) * tw (Z.of_nat (Z.to_nat (- j)) * Z.of_nat n) = 1).
    { rewrite <- tw_add. replace (j * Z.of_nat n + Z.of_nat (Z.to_nat (- j)) * Z.of_nat n)%Z with 0%Z by lia. exact tw_0. }
    rewrite P in E. rewrite <- E. ring.
Qed.
Lemma geom j : tw j <> 1 -> sumf n (fun k => tw (j * Z.of_nat k)%Z) = 0.
Proof.
  intros Hj. apply (mul_cancel (1 - tw j)).
  - rewrite <- sumf_scale.
    rewrite (sumf_ext n _ (fun k => tw (j * Z.of_nat k)%Z - tw (j * Z.of_nat (S k))%Z)).
    2:{ intros k _. replace (j * Z.of_nat (S k))%Z with (j + j * Z.of_nat k)%Z by lia. rewrite tw_add. ring. }
    rewrite (sumf_telescope n (fun k => tw (j * Z.of_nat k)%Z)). rewrite Z.mul_0_r, tw_0, tw_mul_n. ring.
  - intro H. apply Hj. transitivity (1 - (1 - tw j)); [ring|]. rewrite H; ring.
Qed.
Lemma tw_period a j : tw (a + j * Z.of_nat n)%Z = tw a.
Proof. rewrite tw_add, tw_mul_n; ring. Qed.
Lemma orth (d:Z) : (- Z.of_nat n < d < Z.of_nat n)%Z -> sumf n (fun k => tw (d * Z.of_nat k)%Z) = if (d =? 0)%Z then nF else 0.
Proof.
  intros Hd. destruct (Z.eqb_spec d 0) as [->|Hne].
  - rewrite <- nF_def. apply sumf_ext; intros k _. cbn. exact tw_0.
  - apply geom. destruct (Z_lt_le_dec 0 d).
    + apply tw_prim; lia.
    + rewrite <- (tw_period d 1). apply tw_prim; lia.
Qed.

Definition dft (x:nat->F) (k:nat) : F := sumf n (fun m => x m * tw (- (Z.of_nat m * Z.of_nat k))%Z).
Definition nrm2 (z:F) := z * cj z.

Theorem parseval (x:nat->F) : sumf n (fun k => nrm2 (dft x k)) = nF * sumf n (fun m => nrm2 (x m)).
Proof.
  unfold nrm2, dft.
  transitivity (sumf n (fun k => sumf n (fun m => sumf n (fun m' => (x m * cj (x m')) * tw ((Z.of_nat m' - Z.of_nat m) * Z.of_nat k)%Z)))).
  { apply sumf_ext; intros k _. rewrite sumf_cj, <- sumf_scale.
    rewrite (sumf_ext n _ (fun m' => sumf n (fun m => x m * cj (x m') * tw ((Z.of_nat m' - Z.of_nat m) * Z.of_nat k)%Z))).
    - apply sumf_exch.
    - intros m' _. rewrite (Rmul_comm (F_R Fth)), <- sumf_scale. apply sumf_ext; intros m _.
      rewrite cj_mul, tw_cj. replace ((Z.of_nat m' - Z.of_nat m) * Z.of_nat k)%Z with (- (Z.of_nat m * Z.of_nat k) + - - (Z.of_nat m' * Z.of_nat k))%Z by lia.
      rewrite tw_add. ring. }
  rewrite sumf_exch. rewrite <- sumf_scale. apply sumf_ext; intros m Hm.
  rewrite sumf_exch.
  rewrite (sumf_ext n _ (fun m' => if (m' =? m)%nat then nF * (x m * cj (x m)) else 0)).
  { apply sumf_delta; exact Hm. }
  intros m' Hm'. rewrite sumf_scale, orth by lia.
  destruct (Nat.eqb_spec m' m) as [->|Hne].
  - rewrite Z.sub_diag. cbn. ring.
  - destruct (Z.eqb_spec (Z.of_nat m' - Z.of_nat m) 0); [lia|ring].
Qed.
End DFT.
Print Assumptions parseval.
