From Coq Require Import List ZArith Bool Lia.
Import ListNotations.
(* --- fixed prelude (hand-written) --- *)
Inductive sides := One | Two | Center.
Record snap := { s_data : nat; s_nfft : nat; s_samp : Z; s_order : nat; s_sbf : bool }.
Record St := { data : nat; isreal : bool; nfft : nat; samp : Z; order : nat; sbf : bool; sd : sides;
               rangeN : nat; rangeS : Z; modified : bool; cache : option (snap * sides) }.
Definition snapshot (s:St) : snap := {| s_data := data s; s_nfft := nfft s; s_samp := samp s; s_order := order s; s_sbf := sbf s |}.
Definition dflt (s:St) := if isreal s then One else Two.
Definition upd_modified b s := {| data:=data s; isreal:=isreal s; nfft:=nfft s; samp:=samp s; order:=order s; sbf:=sbf s; sd:=sd s; rangeN:=rangeN s; rangeS:=rangeS s; modified:=b; cache:=cache s|}.
Definition upd_samp v s := {| data:=data s; isreal:=isreal s; nfft:=nfft s; samp:=v; order:=order s; sbf:=sbf s; sd:=sd s; rangeN:=rangeN s; rangeS:=rangeS s; modified:=modified s; cache:=cache s|}.
Definition upd_rangeS v s := {| data:=data s; isreal:=isreal s; nfft:=nfft s; samp:=samp s; order:=order s; sbf:=sbf s; sd:=sd s; rangeN:=rangeN s; rangeS:=v; modified:=modified s; cache:=cache s|}.
Definition upd_order v s := {| data:=data s; isreal:=isreal s; nfft:=nfft s; samp:=samp s; order:=v; sbf:=sbf s; sd:=sd s; rangeN:=rangeN s; rangeS:=rangeS s; modified:=modified s; cache:=cache s|}.
Definition upd_sd v s := {| data:=data s; isreal:=isreal s; nfft:=nfft s; samp:=samp s; order:=order s; sbf:=sbf s; sd:=v; rangeN:=rangeN s; rangeS:=rangeS s; modified:=modified s; cache:=cache s|}.
Definition upd_cache v s := {| data:=data s; isreal:=isreal s; nfft:=nfft s; samp:=samp s; order:=order s; sbf:=sbf s; sd:=sd s; rangeN:=rangeN s; rangeS:=rangeS s; modified:=modified s; cache:=v|}.
Definition convert_cache (t:sides) s := match cache s with Some (sn,_) => upd_cache (Some (sn,t)) s | None => s end.
Definition recompute s := upd_sd (dflt s) (upd_cache (Some (snapshot s, dflt s)) s).
Definition read_psd s := match cache s, modified s with Some _, false => s | _, _ => upd_modified false (recompute s) end.
(* --- "generated" from psd.py : two variants of each setter --- *)
Definition set_sampling_cur (v:Z) s := if Z.eqb v (samp s) then s else upd_modified true (upd_samp v s).
Definition set_sampling_fix (v:Z) s := if Z.eqb v (samp s) then s else upd_modified true (upd_rangeS v (upd_samp v s)).
Definition set_order_cur (v:nat) s := upd_order v s.
Definition set_order_fix (v:nat) s := if Nat.eqb v (order s) then s else upd_modified true (upd_order v s).
Definition set_sides_cur (t:sides) s := upd_modified false (upd_sd t (convert_cache t s)).
Definition set_sides_fix (t:sides) s := if modified s then upd_sd t s else upd_sd t (convert_cache t s).
Inductive op := SetSamp (v:Z) | SetOrder (v:nat) | SetSides (t:sides) | Read.
Definition step_fix s o := match o with SetSamp v => set_sampling_fix v s | SetOrder v => set_order_fix v s | SetSides t => set_sides_fix t s | Read => read_psd s end.
Definition step_cur s o := match o with SetSamp v => set_sampling_cur v s | SetOrder v => set_order_cur v s | SetSides t => set_sides_cur t s | Read => read_psd s end.
(* --- invariant and theorems (hand-written, over generated defs) --- *)
Definition Inv s := (forall sn t, cache s = Some (sn,t) -> modified s = false -> sn = snapshot s /\ t = sd s) /\ rangeS s = samp s.
Ltac crush := unfold Inv, set_sampling_fix, set_order_fix, set_sides_fix, read_psd, recompute, convert_cache, snapshot,
   upd_modified, upd_samp, upd_rangeS, upd_order, upd_sd, upd_cache in *; cbn in *.
Ltac split_ifs := repeat match goal with
  | |- context[if ?c then _ else _] => let E := fresh "E" in destruct c eqn:E; cbn in *
  | |- context[match cache ?s with _ => _ end] => let C := fresh "C" in destruct (cache s) as [[? ?]|] eqn:C; cbn in * end.
Lemma inv_step s o : Inv s -> Inv (step_fix s o).
Proof.
  intros [H1 H2]. destruct o; cbn [step_fix]; crush; split_ifs;
  (split; [intros sn t' EQ MOD; try discriminate; try (injection EQ as <- <-);
           try (match goal with C : cache s = Some _ |- _ => destruct (H1 _ _ C eq_refl) as [? ?]; subst end);
           try (split; reflexivity); try (split; congruence); eauto | auto]).
  all: try (destruct (H1 _ _ eq_refl eq_refl) as [? ?]; subst; split; congruence).
  all: try (destruct (H1 _ _ EQ eq_refl) as [? ?]; split; congruence).
  all: try (rewrite C in EQ; injection EQ as <- <-; destruct (H1 _ _ eq_refl eq_refl) as [? ?]; split; congruence).
  all: try (rewrite E in EQ; exact (H1 _ _ EQ eq_refl)).
Qed.
Theorem inv_reachable ops s : Inv s -> Inv (fold_left step_fix ops s).
Proof. revert s; induction ops as [|o ops IH]; cbn; intros s H; [exact H|]. apply IH, inv_step, H. Qed.
(* refutation for the current code: a 3-op history *)
Definition s0 := {| data:=1; isreal:=true; nfft:=64; samp:=1; order:=4; sbf:=false; sd:=One; rangeN:=64; rangeS:=1; modified:=true; cache:=None |}.
Theorem stale_order_refuted : exists ops, let s := fold_left step_cur ops s0 in
   exists sn t, cache s = Some (sn,t) /\ modified s = false /\ sn <> snapshot s.
Proof. exists [Read; SetOrder 3; Read]. vm_compute. eexists; eexists; repeat split. intro H; discriminate H. Qed.
Print Assumptions inv_reachable.
