From Coq Require Import List Arith ZArith Field Ring Lia Bool.
Section B.
Variable F : Type.
Variables (f0 f1 : F) (fadd fmul fsub : F -> F -> F) (fopp : F -> F) (fdiv : F -> F -> F) (finv : F -> F) (cj : F -> F).
Hypothesis Fth : field_theory f0 f1 fadd fmul fsub fopp fdiv finv eq.
Hypothesis cj_add : forall a b, cj (fadd a b) = fadd (cj a) (cj b).
Hypothesis cj_mul : forall a b, cj (fmul a b) = fmul (cj a) (cj b).
Hypothesis cj_cj : forall a, cj (cj a) = a.
Hypothesis cj_0 : cj f0 = f0.
Hypothesis cj_1 : cj f1 = f1.
Add Field FF : Fth.
Declare Scope fs. Delimit Scope fs with fs.
Notation "a + b" := (fadd a b) : fs. Notation "a * b" := (fmul a b) : fs. Notation "a - b" := (fsub a b) : fs.
Notation "- a" := (fopp a) : fs. Notation "a / b" := (fdiv a b) : fs. Notation "0" := f0 : fs. Notation "1" := f1 : fs.
Notation "2" := (fadd f1 f1) : fs.
Local Open Scope fs.
Fixpoint sumf (n:nat) (f:nat->F) : F := match n with O => 0 | S k => sumf k f + f k end.
Lemma sumf_ext n f g : (forall i, (i < n)%nat -> f i = g i) -> sumf n f = sumf n g.
Proof. induction n; cbn; intros H; [reflexivity|]. rewrite IHn, H; auto. Qed.
Lemma sumf_add n f g : sumf n (fun i => f i + g i) = sumf n f + sumf n g.
Proof. induction n; cbn; [ring|]. rewrite IHn; ring. Qed.
Lemma sumf_scale n c f : sumf n (fun i => c * f i) = c * sumf n f.
Proof. induction n; cbn; [ring|]. rewrite IHn; ring. Qed.
Lemma sumf_cj n f : cj (sumf n f) = sumf n (fun i => cj (f i)).
Proof. induction n; cbn; [apply cj_0|]. rewrite cj_add, IHn; reflexivity. Qed.
Lemma sumf_S n f : sumf (S n) f = sumf n f + f n. Proof. reflexivity. Qed.
Lemma sumf_shift n f : sumf (S n) f = f O + sumf n (fun i => f (S i)).
Proof. induction n; [cbn; ring|]. rewrite sumf_S, IHn. cbn. ring. Qed.
Definition nrm2 (z:F) := z * cj z.

(* One Burg stage on aligned error sequences.
   f j, b j (j < n) are the forward error ef[j+m+1] and the delayed backward error eb[j+m]
   that enter stage m (n = N - m - 1 terms).  *)
Variables (n:nat) (f b : nat -> F).
Definition D : F := sumf n (fun j => nrm2 (f j) + nrm2 (b j)).        (* the "den" of the stage *)
Definition c : F := sumf n (fun j => f j * cj (b j)).                 (* the "num" of the stage *)
Variable k : F.
Hypothesis k_def : k * D = - (2 * c).                                 (* kp = -2 num / den *)
Definition f' j := f j + k * b j.                                     (* new ef[j+m+1] *)
Definition b' j := b j + cj k * f j.                                  (* new eb[j+m+1] *)
Hypothesis D_real : cj D = D.

Lemma energy_pointwise j :
  nrm2 (f' j) + nrm2 (b' j) = (1 + k * cj k) * (nrm2 (f j) + nrm2 (b j)) + 2 * (k * cj (f j * cj (b j)) + cj k * (f j * cj (b j))).
Proof. unfold nrm2, f', b'. rewrite !cj_add, !cj_mul, !cj_cj. ring. Qed.

(* the energy identity behind  den <- (1 - |k|^2) * den  *)
Lemma cj_opp x : cj (- x) = - cj x.
Proof. transitivity ((cj (- x) + cj x) - cj x); [ring|]. rewrite <- cj_add. replace (- x + x) with 0 by ring. rewrite cj_0. ring. Qed.
Lemma cj_2 : cj 2 = 2. Proof. rewrite cj_add, cj_1. reflexivity. Qed.

Theorem burg_energy : sumf n (fun j => nrm2 (f' j) + nrm2 (b' j)) = (1 - k * cj k) * D.
Proof.
  rewrite (sumf_ext n _ _ (fun j _ => energy_pointwise j)).
  rewrite (sumf_add n (fun j => (1 + k * cj k) * (nrm2 (f j) + nrm2 (b j)))
                      (fun j => 2 * (k * cj (f j * cj (b j)) + cj k * (f j * cj (b j))))).
  rewrite (sumf_scale n (1 + k * cj k) (fun j => nrm2 (f j) + nrm2 (b j))). fold D.
  rewrite (sumf_scale n 2 (fun j => k * cj (f j * cj (b j)) + cj k * (f j * cj (b j)))).
  rewrite (sumf_add n (fun j => k * cj (f j * cj (b j))) (fun j => cj k * (f j * cj (b j)))).
  rewrite (sumf_scale n k (fun j => cj (f j * cj (b j)))), (sumf_scale n (cj k) (fun j => f j * cj (b j))).
  fold c. rewrite <- (sumf_cj n (fun j => f j * cj (b j))). fold c.
  assert (K2: cj k * D = - (2 * cj c)).
  { rewrite <- D_real at 1. rewrite <- cj_mul, k_def, cj_opp, cj_mul, cj_2. reflexivity. }
  transitivity ((1 + k * cj k) * D + (k * (2 * cj c) + cj k * (2 * c))); [ring|].
  replace (2 * cj c) with (- (cj k * D)) by (rewrite K2; ring).
  replace (2 * c) with (- (k * D)) by (rewrite k_def; ring).
  ring.
Qed.

(* the recursive denominator of the next stage: drop the two edge terms.
   next stage uses f'' j = f' (j+1) (j < n-1) and b'' j = b' j (j < n-1):
   D_next = sum_{j<n-1} nrm2 (f' (j+1)) + nrm2 (b' j) = (1-|k|^2) D - nrm2 (f' 0) - nrm2 (b' (n-1)) *)
Theorem burg_den_next : (1 <= n)%nat ->
  sumf (n - 1) (fun j => nrm2 (f' (S j)) + nrm2 (b' j)) = (1 - k * cj k) * D - nrm2 (f' O) - nrm2 (b' (n - 1)%nat).
Proof.
  intros Hn. rewrite <- burg_energy.
  destruct n as [|m]; [lia|]. replace (S m - 1)%nat with m by lia.
  rewrite (sumf_add (S m) (fun j => nrm2 (f' j)) (fun j => nrm2 (b' j))).
  rewrite (sumf_shift m (fun j => nrm2 (f' j))), (sumf_S m (fun j => nrm2 (b' j))).
  rewrite (sumf_add m (fun j => nrm2 (f' (S j))) (fun j => nrm2 (b' j))). ring.
Qed.

(* optimality of the reflection coefficient: E(k') - E(k) = D |k' - k|^2 *)
Definition E (q:F) : F := sumf n (fun j => nrm2 (f j + q * b j) + nrm2 (b j + cj q * f j)).
Theorem burg_k_optimal q : E q - E k = D * nrm2 (q - k).
Proof.
  assert (G: forall q0, E q0 = (1 + q0 * cj q0) * D + (q0 * (2 * cj c) + cj q0 * (2 * c))).
  { intros q0. unfold E.
    rewrite (sumf_ext n _ (fun j => (1 + q0 * cj q0) * (nrm2 (f j) + nrm2 (b j)) + 2 * (q0 * cj (f j * cj (b j)) + cj q0 * (f j * cj (b j))))).
    2:{ intros j _. unfold nrm2. rewrite !cj_add, !cj_mul, !cj_cj. ring. }
    rewrite (sumf_add n (fun j => (1 + q0 * cj q0) * (nrm2 (f j) + nrm2 (b j)))
                        (fun j => 2 * (q0 * cj (f j * cj (b j)) + cj q0 * (f j * cj (b j))))).
    rewrite (sumf_scale n (1 + q0 * cj q0) (fun j => nrm2 (f j) + nrm2 (b j))). fold D.
    rewrite (sumf_scale n 2 (fun j => q0 * cj (f j * cj (b j)) + cj q0 * (f j * cj (b j)))).
    rewrite (sumf_add n (fun j => q0 * cj (f j * cj (b j))) (fun j => cj q0 * (f j * cj (b j)))).
    rewrite (sumf_scale n q0 (fun j => cj (f j * cj (b j)))), (sumf_scale n (cj q0) (fun j => f j * cj (b j))).
    fold c. rewrite <- (sumf_cj n (fun j => f j * cj (b j))). fold c. ring. }
  rewrite !G.
  assert (K2: cj k * D = - (2 * cj c)).
  { rewrite <- D_real at 1. rewrite <- cj_mul, k_def, cj_opp, cj_mul, cj_2. reflexivity. }
  replace (2 * cj c) with (- (cj k * D)) by (rewrite K2; ring).
  replace (2 * c) with (- (k * D)) by (rewrite k_def; ring).
  unfold nrm2. replace (q - k) with (q + - k) by ring. rewrite cj_add, cj_opp. ring.
Qed.
End B.
Print Assumptions burg_energy. Print Assumptions burg_den_next. Print Assumptions burg_k_optimal.
