import warnings; warnings.filterwarnings("ignore")
import numpy as np, sys, math
from spectrum import LEVINSON, CORRELATION
rng=np.random.default_rng(int(sys.argv[1])); ncases=int(sys.argv[2])
def dy(x):
    # exact dyadic (num, exp) of a float
    if x==0: return (0,0)
    m,e=math.frexp(x); num=int(m*(1<<53)); e-=53
    while num%2==0: num//=2; e+=1
    return (num,e)
def cq(z): z=complex(z); a=dy(z.real); b=dy(z.imag); return "(qc (%d,%d) (%d,%d))"%(a[0],a[1],b[0],b[1])
def lst(v): return "["+"; ".join(cq(z) for z in v)+"]"
out=["Require Import Proto LevModel.","From Coq Require Import List ZArith QArith Qcanon. Import ListNotations.","Local Open Scope Z_scope.",
     "Definition tol : Qc := q_of 1 (-30).","Definition cases : list bool := ["]
rows=[]
for c in range(ncases):
    cplx=c%2; p=int(rng.integers(1,9)); N=p+int(rng.integers(2,12))
    x=rng.integers(-8,9,size=N)/4.0 + (1j*rng.integers(-8,9,size=N)/4.0 if cplx else 0)
    if not np.any(x): x[0]=1
    r=CORRELATION((4*x).round(),maxlags=p,norm=None)
    # make r exactly representable: r values are float results; take them as the exact inputs (dyadic)
    a,P,k=LEVINSON(r)
    rows.append("  check_case tol %s %d%%nat %s %s %s"%(lst(r),p,lst(a),cq(P),lst(k)))
out.append(";\n".join(rows)); out.append("].")
out.append("Definition bad := filter (fun p => negb (snd p)) (combine (seq 0 (length cases)) cases).")
out.append("Time Eval vm_compute in (length cases, map fst bad).")
open(sys.argv[3],'w').write("\n".join(out)+"\n")
