From Coq Require Import List Arith ZArith Field Ring Lia Bool.
Import ListNotations.

Section B.
Variable F : Type.
Variables (f0 f1 : F) (fadd fmul fsub : F -> F -> F) (fopp : F -> F) (fdiv : F -> F -> F) (finv : F -> F) (cj : F -> F).
Hypothesis Fth : field_theory f0 f1 fadd fmul fsub fopp fdiv finv eq.
Hypothesis cj_add : forall a b, cj (fadd a b) = fadd (cj a) (cj b).
Hypothesis cj_mul : forall a b, cj (fmul a b) = fmul (cj a) (cj b).
Hypothesis cj_cj : forall a, cj (cj a) = a.
Hypothesis cj_0 : cj f0 = f0.
Hypothesis cj_1 : cj f1 = f1.
Add Field FF : Fth.
Declare Scope fs. Delimit Scope fs with fs.
Notation "a + b" := (fadd a b) : fs. Notation "a * b" := (fmul a b) : fs. Notation "a - b" := (fsub a b) : fs.
Notation "- a" := (fopp a) : fs. Notation "a / b" := (fdiv a b) : fs. Notation "0" := f0 : fs. Notation "1" := f1 : fs.
Local Open Scope fs.

(* ---------- executable list model (same shape as Model/Levinson.v will have) ---------- *)
Definition nthF (l:list F) i := nth i l 0.
Fixpoint sumL (l:list F) : F := match l with [] => 0 | x::t => x + sumL t end.
Definition mk (n:nat) (f:nat->F) : list F := map f (seq 0 n).
Definition lev_delta (T A:list F) (m:nat) : F := nthF T m + sumL (mk m (fun j => nthF A j * nthF T (m - j - 1))).
Definition lev_step (T:list F) (st : list F * F * list F) (m:nat) : list F * F * list F :=
  let '(A,P,ks) := st in
  let k := (- lev_delta T A m) / P in
  (mk m (fun j => nthF A j + k * cj (nthF A (m - 1 - j))) ++ [k], P * (1 - k * cj k), ks ++ [k]).
Definition levinson (r:list F) (order:nat) : list F * F * list F :=
  fold_left (lev_step (tl r)) (seq 0 order) ([], nthF r 0, []).

(* ---------- function-level theory (from Lev.v) ---------- *)
Fixpoint sumf (n:nat) (f:nat->F) : F := match n with O => 0 | S k => sumf k f + f k end.
Lemma sumf_ext n f g : (forall i, (i < n)%nat -> f i = g i) -> sumf n f = sumf n g.
Proof. induction n; cbn; intros H; [reflexivity|]. rewrite IHn, H; auto. Qed.
Lemma sumf_shift n f : sumf (S n) f = f O + sumf n (fun i => f (S i)).
Proof. induction n; [cbn; ring|]. change (sumf (S (S n)) f) with (sumf (S n) f + f (S n)). rewrite IHn. cbn. ring. Qed.

(* generic list <-> function lemmas *)
Lemma mk_length n f : length (mk n f) = n. Proof. unfold mk. rewrite map_length, seq_length. reflexivity. Qed.
Lemma nth_mk n f j : (j < n)%nat -> nthF (mk n f) j = f j.
Proof. intros H. unfold nthF, mk. rewrite (nth_indep _ 0 (f O)) by (rewrite map_length, seq_length; exact H).
  rewrite map_nth, seq_nth by exact H. reflexivity. Qed.
Lemma sumL_mk n f : sumL (mk n f) = sumf n f.
Proof. unfold mk. revert f. induction n; intros f; [reflexivity|].
  rewrite sumf_shift. cbn [seq map sumL]. f_equal. rewrite <- seq_shift, map_map. apply IHn. Qed.
Lemma nthF_app_l (l1 l2:list F) j : (j < length l1)%nat -> nthF (l1 ++ l2) j = nthF l1 j.
Proof. intros; unfold nthF; apply app_nth1; assumption. Qed.
Lemma nthF_app_last (l1:list F) x : nthF (l1 ++ [x]) (length l1) = x.
Proof. unfold nthF. rewrite app_nth2, Nat.sub_diag by lia. reflexivity. Qed.
Lemma nthF_overflow (l:list F) j : (length l <= j)%nat -> nthF l j = 0.
Proof. intros; unfold nthF; apply nth_overflow; assumption. Qed.

(* Hermitian extension and invariant, exactly as in Lev.v but with r a list *)
Variable r : list F.
Hypothesis r0_real : cj (nthF r O) = nthF r O.
Definition rz (d : Z) : F := if (0 <=? d)%Z then nthF r (Z.to_nat d) else cj (nthF r (Z.to_nat (- d))).
Definition rr (i j : nat) : F := rz (Z.of_nat i - Z.of_nat j).
Definition afun (A:list F) : nat -> F := fun j => match j with O => 1 | S j' => nthF A j' end.
Definition row (m:nat) (a:nat->F) (i:nat) : F := sumf (S m) (fun j => a j * rr i j).
Definition InvL (m:nat) (A:list F) (P:F) : Prop :=
  length A = m /\ cj P = P /\ row m (afun A) O = P /\ forall i, (1 <= i <= m)%nat -> row m (afun A) i = 0.

(* the list-level delta is the function-level row (m+1) *)
Lemma nth_tl (l:list F) j : nthF (tl l) j = nthF l (S j).
Proof. destruct l; unfold nthF; cbn; [destruct j; reflexivity|reflexivity]. Qed.
Lemma delta_is_row m A : length A = m -> lev_delta (tl r) A m = row m (afun A) (S m).
Proof.
  intros HA. unfold lev_delta, row. rewrite sumL_mk, sumf_shift. cbn [afun].
  rewrite nth_tl. unfold rr at 1. replace (Z.of_nat (S m) - Z.of_nat 0)%Z with (Z.of_nat (S m)) by lia.
  unfold rz at 1. destruct (Z.leb_spec 0 (Z.of_nat (S m))); [|lia]. rewrite Nat2Z.id.
  transitivity (1 * nthF r (S m) + sumf m (fun j => nthF A j * nthF (tl r) (m - j - 1))); [ring|].
  f_equal. apply sumf_ext; intros j Hj. f_equal. rewrite nth_tl. unfold rr, rz.
  destruct (Z.leb_spec 0 (Z.of_nat (S m) - Z.of_nat (S j))); [|lia]. f_equal. lia.
Qed.
End B.
