From Coq Require Import List ZArith PrimFloat Uint63.
Import ListNotations.
Require Import Proto.
Open Scope float_scope.
Definition FC := (float * float)%type.
Definition f_ops : Ops FC := {|
  o0 := (0,0); o1 := (1,0);
  oadd := fun a b => (fst a + fst b, snd a + snd b);
  omul := fun a b => (fst a * fst b - snd a * snd b, fst a * snd b + snd a * fst b);
  osub := fun a b => (fst a - fst b, snd a - snd b);
  oopp := fun a => (- fst a, - snd a);
  oinv := fun a => let d := (fst a * fst a + snd a * snd a) in (fst a / d, - snd a / d);
  odiv := fun a b => let d := (fst b * fst b + snd b * snd b) in
      ((fst a * fst b + snd a * snd b)/d, (snd a * fst b - fst a * snd b)/d);
  oconj := fun a => (fst a, - snd a) |}.
Definition xs : list FC := [(0x1.8p+0, 0x1p+1); (0x1.999999999999ap-4, -0x1p+0); (3.5, 0.25)].
Eval vm_compute in map (corr_raw f_ops xs xs) [0;1;2]%nat.
(* big: 2000-long *)
Definition big := map (fun i => (of_uint63 (Uint63.of_Z (Z.of_nat i)), 0.5)) (seq 0 2000).
Time Eval vm_compute in map (fun k => fst (corr_raw f_ops big big k)) [0;1;2;3;4;5;6;7]%nat.
