import ast, sys
SRC=sys.argv[1] if len(sys.argv)>1 else '/repo/src/spectrum/psd.py'
t=ast.parse(open(SRC).read())
class Fail(Exception): pass
def U(n): return ast.unparse(n)
ATTR={ # python attribute (as written) -> state field
 'self.__data':'data','self.__data_y':'data_y','self.__sampling':'sampling','self.__detrend':'detrend','self.__scale_by_freq':'sbf',
 'self.__sides':'sides','self.__N':'N','self.__NFFT':'NFFT','self.__df':'df_priv','self.__datatype':'datatype','self.__psd':'cache',
 'self.__method':'method','self.modified':'modified','self._range.N':'rangeN','self._range.sampling':'rangeS','self.__window':'window','self.__lag':'lag',
 'self.__ar_order':'ar_order','self.__ma_order':'ma_order','self.__ar':'ar','self.__ma':'ma','self.__reflection':'reflection','self.__rho':'rho'}
PROPS={'self.data':'data','self.N':'N','self.NFFT':'NFFT','self.sides':'sides','self.datatype':'datatype','self.psd':'READPSD','self.scale_by_freq':'sbf','self.df':'range_df','self.sampling':'sampling'}
def expr(e):
    s=U(e)
    if s in ATTR: return f"({ATTR[s]} s)"
    if s in PROPS and PROPS[s]!='READPSD': return f"({PROPS[s]} s)"
    if isinstance(e,ast.Name): return f"{e.id}"
    if isinstance(e,ast.Constant):
        v=e.value
        if v is None: return "VNone"
        if v is True: return "(VBool true)"
        if v is False: return "(VBool false)"
        if isinstance(v,str): return f'(VStr "{v}")'
        if isinstance(v,int): return f"(VNat {v})"
        if isinstance(v,float): return f"(VQ ({v}))"
    if isinstance(e,ast.Call):
        f=U(e.func)
        if f=='self._default_sides': return "(default_sides s)"
        if f=='self.get_converted_psd': return f"(convert_cache {expr(e.args[0])} s)"
        if f in('numpy.array','array') : return expr(e.args[0])
        if f.endswith('.copy') : return expr(e.func.value)
        if f=='float': return expr(e.args[0])
        if f=='len': return f"(vlen {expr(e.args[0])})"
        if f=='int' and U(e.args[0])=='pow(2, n)': return "(vpow2 n)"
        if f=='nextpow2': return f"(vnextpow2 {expr(e.args[0])})"
        if f=='numpy.isrealobj': return f"(visreal {expr(e.args[0])})"
        if f=='isinstance' and U(e.args[1])=='int': return f"(vis_int {expr(e.args[0])})"
        if f=='type' : return f"(vtype {expr(e.args[0])})"
    if isinstance(e,ast.Attribute) and e.attr=='size': return f"(vlen {expr(e.value)})"
    if isinstance(e,ast.Name) and e.id=='list': return "TList"
    if isinstance(e,ast.BinOp) and isinstance(e.op,ast.Div): return f"(vdiv {expr(e.left)} {expr(e.right)})"
    if isinstance(e,ast.List): return "["+"; ".join(expr(x) for x in e.elts)+"]"
    if s=='self._detrend_choices': return '[VNone; VStr "mean"]'
    if s=='self._sides_choices': return '[VStr "onesided"; VStr "twosided"; VStr "centerdc"; VStr "default"]'
    if s=='self._window': return 'window_names'
    raise Fail("expr "+s)
def cond(c):
    if isinstance(c,ast.BoolOp):
        op=' && ' if isinstance(c.op,ast.And) else ' || '
        return "("+op.join(cond(v) for v in c.values)+")"
    if isinstance(c,ast.Compare) and len(c.ops)==1:
        l,r=c.left,c.comparators[0]; o=c.ops[0]
        if isinstance(o,(ast.Eq,ast.Is)): return f"(veqb {expr(l)} {expr(r)})"
        if isinstance(o,(ast.NotEq,ast.IsNot)): return f"(negb (veqb {expr(l)} {expr(r)}))"
        if isinstance(o,ast.In): return f"(vin {expr(l)} {expr(r)})"
        if isinstance(o,ast.NotIn): return f"(negb (vin {expr(l)} {expr(r)}))"
        if isinstance(o,ast.Gt): return f"(vltb {expr(r)} {expr(l)})"
        if isinstance(o,ast.Lt): return f"(vltb {expr(l)} {expr(r)})"
    if isinstance(c,ast.Call): return f"(vtrue {expr(c)})"
    raise Fail("cond "+U(c))
def stmts(body, ind):
    pad="  "*ind
    if not body: return pad+"ret s"
    st,rest=body[0],body[1:]
    if isinstance(st,ast.Expr):
        s=U(st)
        if isinstance(st.value,ast.Constant) or s.startswith('logging.'): return stmts(rest,ind)
        if s=='self()': return pad+"let s := recompute s in\n"+stmts(rest,ind)
        raise Fail("expr-stmt "+s)
    if isinstance(st,(ast.ImportFrom,ast.Import)): return stmts(rest,ind)
    if isinstance(st,ast.Return):
        if st.value is None: return pad+"ret s"
        return pad+f"retv {expr(st.value)} s"
    if isinstance(st,ast.Raise): return pad+f'err "{U(st.exc).split("(")[0]}"'
    if isinstance(st,ast.Assert): return pad+f'if negb {cond(st.test)} then err "AssertionError" else\n'+stmts(rest,ind)
    if isinstance(st,ast.Assign) and len(st.targets)==1:
        tg=U(st.targets[0])
        if tg in ATTR: return pad+f"let s := upd_{ATTR[tg]} {expr(st.value)} s in\n"+stmts(rest,ind)
        if isinstance(st.targets[0],ast.Name): return pad+f"let {tg} := {expr(st.value)} in\n"+stmts(rest,ind)
        raise Fail("assign target "+tg)
    if isinstance(st,ast.If):
        return (pad+f"if {cond(st.test)} then\n"+stmts(st.body+rest,ind+1)+"\n"+pad+"else\n"+stmts(st.orelse+rest,ind+1))
    raise Fail("stmt "+type(st).__name__+": "+U(st)[:60])
want={'Spectrum':['_setDetrend','_setScale','_setNFFT','_default_sides','_setSides','_set_data_y','_setData','_getPSD','_setPSD','_setSampling'],
      'FourierSpectrum':['_set_window','_set_lag'],'ParametricSpectrum':['_set_ar_order','_set_ma_order'],'Range':['_setN','_setsampling']}
ok=0;bad=0
for cls in [n for n in t.body if isinstance(n,ast.ClassDef) and n.name in want]:
    for fn in [n for n in cls.body if isinstance(n,ast.FunctionDef) and n.name in want[cls.name]]:
        args=[a.arg for a in fn.args.args[1:]]
        try:
            body=stmts(fn.body,1); ok+=1
            print(f"Definition {cls.name}_{fn.name} {' '.join('('+a+':val)' for a in args)} (s:St) : Res :=\n{body}.\n")
        except Fail as e:
            bad+=1; print(f"(* {cls.name}.{fn.name}: FAIL-CLOSED: {e} *)\n")
print(f"(* translated {ok}, failed {bad} *)")
