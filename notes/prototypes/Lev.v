From Coq Require Import List Arith ZArith Field Ring Lia Bool.
Import ListNotations.

Section Lev.
Variable F : Type.
Variables (f0 f1 : F) (fadd fmul fsub : F -> F -> F) (fopp : F -> F) (fdiv : F -> F -> F) (finv : F -> F) (cj : F -> F).
Hypothesis Fth : field_theory f0 f1 fadd fmul fsub fopp fdiv finv eq.
Hypothesis cj_add : forall a b, cj (fadd a b) = fadd (cj a) (cj b).
Hypothesis cj_mul : forall a b, cj (fmul a b) = fmul (cj a) (cj b).
Hypothesis cj_cj : forall a, cj (cj a) = a.
Hypothesis cj_0 : cj f0 = f0.
Hypothesis cj_1 : cj f1 = f1.
Add Field FF : Fth.
Declare Scope fs. Delimit Scope fs with fs.
Notation "a + b" := (fadd a b) : fs. Notation "a * b" := (fmul a b) : fs. Notation "a - b" := (fsub a b) : fs.
Notation "- a" := (fopp a) : fs. Notation "a / b" := (fdiv a b) : fs. Notation "0" := f0 : fs. Notation "1" := f1 : fs.
Local Open Scope fs.

Fixpoint sumf (n:nat) (f:nat->F) : F := match n with O => 0 | S k => sumf k f + f k end.
Lemma sumf_S n f : sumf (S n) f = sumf n f + f n. Proof. reflexivity. Qed.
Lemma sumf_ext n f g : (forall i, (i < n)%nat -> f i = g i) -> sumf n f = sumf n g.
Proof. induction n; cbn; intros H; [reflexivity|]. rewrite IHn, H; auto. Qed.
Lemma sumf_add n f g : sumf n (fun i => f i + g i) = sumf n f + sumf n g.
Proof. induction n; cbn; [ring|]. rewrite IHn; ring. Qed.
Lemma sumf_scale n c f : sumf n (fun i => c * f i) = c * sumf n f.
Proof. induction n; cbn; [ring|]. rewrite IHn; ring. Qed.
Lemma sumf_cj n f : cj (sumf n f) = sumf n (fun i => cj (f i)).
Proof. induction n; cbn; [apply cj_0|]. rewrite cj_add, IHn; reflexivity. Qed.
Lemma sumf_shift n f : sumf (S n) f = f O + sumf n (fun i => f (S i)).
Proof. induction n; [cbn; ring|]. change (sumf (S (S n)) f) with (sumf (S n) f + f (S n)). rewrite IHn. cbn. ring. Qed.
Lemma sumf_rev n f : sumf n f = sumf n (fun i => f (n - 1 - i)%nat).
Proof.
  revert f; induction n; intros f; [reflexivity|].
  rewrite sumf_shift. cbn [sumf]. replace (S n - 1 - n)%nat with O by lia.
  rewrite (IHn (fun i => f (S i))).
  rewrite (Radd_comm (F_R Fth)). f_equal. apply sumf_ext; intros i Hi; f_equal; lia.
Qed.

(* Hermitian extension of the autocorrelation to Z *)
Variable r : nat -> F.
Hypothesis r0_real : cj (r O) = r O.
Definition rz (d : Z) : F := if (0 <=? d)%Z then r (Z.to_nat d) else cj (r (Z.to_nat (- d))).
Lemma rz_cj d : cj (rz d) = rz (- d).
Proof. unfold rz. destruct (Z.leb_spec 0 d), (Z.leb_spec 0 (- d)); try lia.
  - replace d with 0%Z by lia. exact r0_real.
  - do 2 f_equal. lia.
  - rewrite cj_cj. f_equal.
Qed.
Definition rr (i j : nat) : F := rz (Z.of_nat i - Z.of_nat j).

Definition row (m:nat) (a:nat->F) (i:nat) : F := sumf (S m) (fun j => a j * rr i j).
Definition Inv (m:nat) (a:nat->F) (P:F) : Prop :=
  a O = 1 /\ cj P = P /\ row m a O = P /\ forall i, (1 <= i <= m)%nat -> row m a i = 0.

Definition step_a (m:nat) (a:nat->F) (k:F) : nat -> F :=
  fun j => if (j =? O)%nat then a O else if (j <=? m)%nat then a j + k * cj (a (S m - j)%nat) else if (j =? S m)%nat then k else 0.

Lemma row_step m a k i (Ha0 : a O = 1) : (i <= S m)%nat ->
  row (S m) (step_a m a k) i = row m a i + k * cj (row m a (S m - i)%nat).
Proof.
  intros Hi. unfold row.
  transitivity (sumf (S (S m)) (fun j => (if (j <=? m)%nat then a j else 0) * rr i j
                                       + k * ((if (j =? O)%nat then 0 else cj (a (S m - j)%nat)) * rr i j))).
  { apply sumf_ext; intros j Hj. unfold step_a.
    destruct (Nat.eqb_spec j O) as [->|J0]. { cbn. ring. }
    destruct (Nat.leb_spec j m) as [Jm|Jm]. { ring. }
    destruct (Nat.eqb_spec j (S m)) as [->|JS]; [|lia].
    rewrite Nat.sub_diag, Ha0, cj_1. ring. }
  rewrite sumf_add, sumf_scale. f_equal.
  - rewrite (sumf_S (S m)). destruct (Nat.leb_spec (S m) m); [lia|].
    transitivity (sumf (S m) (fun j => a j * rr i j) + 0 * rr i (S m)); [|ring].
    f_equal. apply sumf_ext; intros j Hj. destruct (Nat.leb_spec j m); [reflexivity|lia].
  - f_equal. rewrite sumf_shift. cbn [Nat.eqb].
    transitivity (sumf (S m) (fun i0 => cj (a (S m - S i0)%nat) * rr i (S i0))); [ring|].
    rewrite (sumf_rev (S m)), sumf_cj. apply sumf_ext; intros l Hl.
    rewrite cj_mul. f_equal. { do 2 f_equal. lia. }
    unfold rr. rewrite rz_cj. f_equal. lia.
Qed.

Theorem levinson_step m a P k :
  Inv m a P -> k * P = - (row m a (S m)) ->
  Inv (S m) (step_a m a k) (P * (1 - k * cj k)).
Proof.
  intros (Ha0 & HP & H0 & Hi) Hk. unfold Inv. repeat split.
  - unfold step_a; cbn. exact Ha0.
  - rewrite cj_mul, HP. f_equal. 
    assert (cj (1 - k * cj k) = cj 1 - cj k * cj (cj k)).
    { replace (1 - k * cj k) with (1 + (- (1)) * (k * cj k)) by ring. rewrite cj_add, !cj_mul.
      assert (cj (- (1)) = - (1)). { assert (E: cj (1 + - (1)) = 0) by (replace (1 + - (1)) with 0 by ring; apply cj_0). rewrite cj_add, cj_1 in E.
        transitivity (0 + cj (-(1))); [ring|]. rewrite <- E at 1. ring_simplify. 
        replace (cj (-(1))) with ((1 + cj (-(1))) - 1) by ring. rewrite E. ring. }
      rewrite H. ring. }
    rewrite H, cj_1, cj_cj. ring.
  - rewrite row_step by (auto; lia). rewrite Nat.sub_0_r, H0.
    assert (E: row m a (S m) = - (k * P)) by (rewrite Hk; ring). rewrite E.
    replace (cj (- (k * P))) with (- (cj k * P)).
    2:{ replace (- (k*P)) with ((0 - 1) * (k * P)) by ring. rewrite !cj_mul, HP.
        assert (cj (0 - 1) = 0 - 1). { transitivity ((cj (0-1) + cj 1) - 1); [rewrite cj_1; ring|]. rewrite <- cj_add. replace (0 - 1 + 1) with 0 by ring. rewrite cj_0. ring. }
        rewrite H. ring. }
    ring.
  - intros i [Hi1 Hi2]. rewrite row_step by (auto; lia).
    destruct (Nat.eq_dec i (S m)) as [->|Hne].
    + rewrite Nat.sub_diag, H0, HP. 
      assert (E: row m a (S m) = - (k * P)) by (rewrite Hk; ring). rewrite E. ring.
    + rewrite (Hi i) by lia. rewrite (Hi (S m - i)%nat) by lia. rewrite cj_0. ring.
Qed.
End Lev.
Check levinson_step.
Print Assumptions levinson_step.
