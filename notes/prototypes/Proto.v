From Coq Require Import List ZArith QArith Qcanon Field Ring Lia Bool.
Import ListNotations.

(* ops record: executable at any carrier *)
Record Ops (F:Type) := { o0:F; o1:F; oadd:F->F->F; omul:F->F->F; osub:F->F->F; oopp:F->F; odiv:F->F->F; oinv:F->F; oconj:F->F }.
Arguments o0 {F}. Arguments o1 {F}. Arguments oadd {F}. Arguments omul {F}. Arguments osub {F}.
Arguments oopp {F}. Arguments odiv {F}. Arguments oinv {F}. Arguments oconj {F}.

Section Model.
Context {F:Type} (O:Ops F).
Definition sumf (n:nat) (f:nat->F) : F := fold_right (fun i acc => oadd O (f i) acc) (o0 O) (seq 0 n).
Definition nthF (l:list F) i := nth i l (o0 O).
(* correlation raw lag k: sum_{n<N-k} x[n+k]*conj(y[n]) *)
Definition corr_raw (x y:list F) (k:nat) : F :=
  sumf (length x - k) (fun n => omul O (nthF x (n+k)) (oconj O (nthF y n))).
End Model.

Section Laws.
Context {F:Type} (O:Ops F).
Hypothesis Fth : field_theory (o0 O) (o1 O) (oadd O) (omul O) (osub O) (oopp O) (odiv O) (oinv O) eq.
Hypothesis conj_add : forall a b, oconj O (oadd O a b) = oadd O (oconj O a) (oconj O b).
Hypothesis conj_mul : forall a b, oconj O (omul O a b) = omul O (oconj O a) (oconj O b).
Hypothesis conj_inv : forall a, oconj O (oconj O a) = a.
Add Field Ffield : Fth.
Lemma test_ring a b : omul O (oadd O a b) (oadd O a b) = oadd O (oadd O (omul O a a) (omul O b b)) (omul O (oadd O (o1 O) (o1 O)) (omul O a b)).
Proof. ring. Qed.
Lemma sumf_S n f : sumf O (S n) f = oadd O (sumf O n f) (f n).
Proof.
  unfold sumf. rewrite seq_S, fold_right_app. cbn [fold_right plus].
  generalize (seq 0 n). induction l as [|i l IH]; cbn [fold_right]; [ring|]. rewrite IH. ring.
Qed.
End Laws.

(* Exact instance: Gaussian rationals over Qc *)
Definition QC := (Qc * Qc)%type.
Definition qc_ops : Ops QC := {|
  o0 := (0%Qc, 0%Qc); o1 := (1%Qc,0%Qc);
  oadd := fun a b => (fst a + fst b, snd a + snd b)%Qc;
  omul := fun a b => (fst a * fst b - snd a * snd b, fst a * snd b + snd a * fst b)%Qc;
  osub := fun a b => (fst a - fst b, snd a - snd b)%Qc;
  oopp := fun a => (- fst a, - snd a)%Qc;
  oinv := fun a => let d := (fst a * fst a + snd a * snd a)%Qc in (fst a / d, - snd a / d)%Qc;
  odiv := fun a b => let d := (fst b * fst b + snd b * snd b)%Qc in
      ((fst a * fst b + snd a * snd b)/d, (snd a * fst b - fst a * snd b)/d)%Qc;
  oconj := fun a => (fst a, - snd a)%Qc |}.
Definition qz (a b:Z) : QC := (Q2Qc (inject_Z a), Q2Qc (inject_Z b)).
Definition xs := [qz 1 2; qz 3 (-1); qz 0 5; qz 2 2; qz (-1) 4].
Time Eval vm_compute in map (fun k => let r := corr_raw qc_ops xs xs k in (this (fst r), this (snd r))) [0;1;2;3]%nat.
