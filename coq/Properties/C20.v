(* C20 — first version: ENBW. (extended below) *)
Require Import Spectrum.Theory.Ops Spectrum.Theory.Sum Spectrum.Theory.Vec Spectrum.Theory.Order Spectrum.Model.Window
               Spectrum.Proofs.WindowEnbw.

Section C20_ordered_field.
Context {F : Type} {OF : Ops F} {L : Laws OF} {OL : OrdLaws OF}.
Local Open Scope F_scope.
Theorem enbw_ge_1 (w : list F) : (forall i, (i < length w)%nat -> isreal (nthF w i)) ->
  sumL w <> 0 -> le 1 (enbw w).
Proof. exact (enbw_ge_1_thm w). Qed.
End C20_ordered_field.
Print Assumptions enbw_ge_1.
