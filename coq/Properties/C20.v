(* C20 — every named window is a well-formed taper of the requested length.
   Nothing but statements; each is closed by [exact] of a lemma proved in Proofs/Window*.v.

   The model (Model/Window.v) is polymorphic; the theorems below are about its instance at the real
   numbers (stdlib Reals), with numpy.i0 and scipy's chebwin as PARAMETERS I0, cheb of the section
   (universally quantified; what is assumed of them is stated in each theorem: I0_ok, cheb_*_ok).
   [gen_window I0 cheb g N] ranges over the 24 generator functions (g : wgen carries the shape
   parameters); [factory_generator_cases] says whatever the factory's dispatcher returns is one of them.

   PROVED (every length N, every sample index, every shape parameter in the stated domain):
     window_length            length = N                      (tukey under its assert 0<=r<=1)
     window_symmetric         w[n] = w[N-1-n]                 all generators (chebwin: oracle hypothesis),
                                                              periodic flat-top excluded, see next
     flattop_periodic_symmetric  w[n] = w[N-n], 1<=n<N        the form DESIGN C20 gives for that mode
     window_max_le_1          w[n] <= 1                       all but taylor and flat-top; kaiser over any I0
                                                              positive and non-decreasing on [0,oo), beta>=0;
                                                              blackman/poisson/poisson_hanning alpha>=0
     flattop_le_1_4e9         flat-top (both modes) <= 1+4e-9 exact bound 1.000000003 = sum of coefficients
     flattop_centre_refuted   flat-top centre (odd N>=3) = 1.000000003 > 1  : D16, KNOWN FINDING
     flattop_periodic_peak    periodic flat-top, even N, sample N/2 = 1.000000003 > 1 (same finding)
     window_centre_is_1       w[(N-1)/2] = 1 for odd N>=3     all but flat-top; kaiser needs I0 beta <> 0,
                                                              taylor needs its normalising sample <> 0
     enbw_ge_1                N sum w^2 / (sum w)^2 >= 1 for EVERY real vector with non-zero sum, in every
                              ordered *-field (Cauchy-Schwarz; axiom-free); enbw_ge_1_real its instance at R
     hann/hamming/bartlett_closed_form   numpy 2.x's formulas = the textbook closed forms
     parzen_closed_form       the where()/concatenate construction = the pointwise piecewise cubic
     cosine_sum_coefficients  the model's a0..a4 are the table the translator compares with the source
     factory_generator_cases  run_gen returns one of the 24 generators, with tukey's guard
     factory_returns_generator / factory_window_length   for ANY tables: whatever create_window returns is one
                              of the 24 generators (so the clauses above apply to it) and has exactly N samples
   In the GENERATED file (re-proved on every run over the tables read from the source):
     table_checks, coefficients_checks, aliases_identical, factory_routes_documented_params,
     factory_rejects_unknown, factory_rejects_unknown_name, window_object_reports.
   NOT PROVED: max<=1 for taylor (sign pattern of the F_m) — search only; that the sum of each named
   window is non-zero for N>=3 (hypothesis of enbw_ge_1) — search only; anything about chebwin beyond
   the oracle hypotheses; finiteness in binary64 (not an exact-arithmetic notion). *)
From Coq Require Import Reals Lra Lia String QArith Qcanon.
Require Import Spectrum.Theory.Ops Spectrum.Theory.Sum Spectrum.Theory.Vec Spectrum.Theory.Order Spectrum.Model.Window
               Spectrum.Instances.RWin Spectrum.Instances.QcC
               Spectrum.Proofs.WindowEnbw Spectrum.Proofs.WindowBridge Spectrum.Proofs.WindowReal Spectrum.Proofs.WindowGen
               Spectrum.Proofs.WindowSym Spectrum.Proofs.WindowPiecewise Spectrum.Proofs.WindowShape
               Spectrum.Proofs.WindowMax Spectrum.Proofs.WindowCentre Spectrum.Proofs.WindowClosed Spectrum.Proofs.WindowFinal.
Notation length := List.length.

Section C20_ordered_field.
Context {F : Type} {OF : Ops F} {L : Laws OF} {OL : OrdLaws OF}.
Local Open Scope F_scope.
Theorem enbw_ge_1 (w : list F) : (forall i, (i < length w)%nat -> isreal (nthF w i)) ->
  sumL w <> 0 -> le 1 (enbw w).
Proof. exact (enbw_ge_1_thm w). Qed.
Theorem enbw_cauchy_schwarz (w : list F) : (forall i, (i < length w)%nat -> isreal (nthF w i)) ->
  le (sq (sumL w)) (ofn (length w) * sumL (map sq w)).
Proof. exact (enbw_cs_thm w). Qed.
End C20_ordered_field.

Section C20_real.
Local Open Scope R_scope.
Variables (I0 : R -> R) (cheb : nat -> R -> list R).
Let W := gen_window I0 cheb.

Theorem enbw_ge_1_real (w : list R) : @sumL R r_ops w <> 0 -> 1 <= @enbw R r_ops w.
Proof. exact (enbw_ge_1_real_thm w). Qed.

Theorem window_length (g : wgen) (N : nat) :
  cheb_length_ok cheb -> gen_guard g -> length (W g N) = N.
Proof. exact (gen_length_thm I0 cheb g N). Qed.

Theorem window_symmetric (g : wgen) (N n : nat) :
  cheb_length_ok cheb -> cheb_sym_ok cheb -> gen_guard g -> g <> GFlattop true -> (n < N)%nat ->
  nthF (W g N) n = nthF (W g N) (N - 1 - n).
Proof. exact (gen_symmetric_nth_thm I0 cheb g N n). Qed.

Theorem flattop_periodic_symmetric (N n : nat) : (1 <= n < N)%nat ->
  nthF (W (GFlattop true) N) n = nthF (W (GFlattop true) N) (N - n).
Proof. exact (flattop_periodic_sym I0 cheb N n). Qed.

Theorem window_max_le_1 (g : wgen) (N n : nat) :
  I0_ok I0 -> cheb_le1_ok cheb -> cheb_length_ok cheb -> gen_guard g -> max_dom g -> (n < N)%nat ->
  nthF (W g N) n <= 1.
Proof. exact (window_max_le_1_thm I0 cheb g N n). Qed.

Theorem flattop_le_1_4e9 (N : nat) (periodic : bool) (n : nat) : (n < N)%nat ->
  nthF (W (GFlattop periodic) N) n <= 1 + 4 / 1000000000.
Proof. exact (flattop_le I0 cheb N periodic n). Qed.

Theorem flattop_centre_refuted (m : nat) : (1 <= m)%nat ->
  nthF (W (GFlattop false) (2 * m + 1)) m = 1000000003 / 1000000000 /\ ~ nthF (W (GFlattop false) (2 * m + 1)) m <= 1.
Proof. exact (flattop_centre_refuted_thm I0 cheb m). Qed.

Theorem flattop_periodic_peak (m : nat) : (1 <= m)%nat ->
  nthF (W (GFlattop true) (2 * m)) m = 1000000003 / 1000000000 /\ ~ nthF (W (GFlattop true) (2 * m)) m <= 1.
Proof. exact (flattop_periodic_peak_thm I0 cheb m). Qed.

Theorem window_centre_is_1 (g : wgen) (m : nat) :
  cheb_centre_ok cheb -> (1 <= m)%nat -> centre_dom I0 cheb g m -> nthF (W g (2 * m + 1)) m = 1.
Proof. exact (gen_centre_is_1_thm I0 cheb g m). Qed.

Theorem window_enbw_ge_1 (g : wgen) (N : nat) :
  @sumL R r_ops (W g N) <> 0 -> 1 <= @enbw R r_ops (W g N).
Proof. exact (enbw_ge_1_real_thm (W g N)). Qed.

Theorem hann_closed_form (N n : nat) : (2 <= N)%nat -> (n < N)%nat ->
  nthF (W GHann N) n = 1 / 2 - 1 / 2 * cos (2 * PI * INR n / (INR N - 1)).
Proof. exact (hann_closed_form_thm I0 cheb N n). Qed.
Theorem hamming_closed_form (N n : nat) : (2 <= N)%nat -> (n < N)%nat ->
  nthF (W GHamming N) n = 54 / 100 - 46 / 100 * cos (2 * PI * INR n / (INR N - 1)).
Proof. exact (hamming_closed_form_thm I0 cheb N n). Qed.
Theorem bartlett_closed_form (N n : nat) : (2 <= N)%nat -> (n < N)%nat ->
  nthF (W GBartlett N) n = 2 / (INR N - 1) * ((INR N - 1) / 2 - Rabs (INR n - (INR N - 1) / 2)).
Proof. exact (bartlett_closed_form_thm I0 cheb N n). Qed.
Theorem parzen_closed_form (N : nat) : W GParzen N = mkz N (parzen_pw I0 cheb N).
Proof. exact (parzen_pointwise I0 cheb N). Qed.

Theorem factory_generator_cases (g : string) (env : list (string * pval)) (N : nat) (w : list R) :
  @run_gen R r_ops (rT I0 cheb) g env N = WOk w -> exists wg, w = W wg N /\ gen_guard wg.
Proof. exact (run_gen_cases I0 cheb g env N w). Qed.
Theorem factory_returns_generator names routes sigs (N : nat) (name : option string) (kw : list (string * pval)) (w : list R) :
  @create_window R r_ops (rT I0 cheb) names routes sigs N name kw = WOk w -> exists wg, w = W wg N /\ gen_guard wg.
Proof. exact (factory_returns_generator_thm I0 cheb names routes sigs N name kw w). Qed.
Theorem factory_window_length names routes sigs (N : nat) (name : option string) (kw : list (string * pval)) (w : list R) :
  cheb_length_ok cheb -> @create_window R r_ops (rT I0 cheb) names routes sigs N name kw = WOk w -> length w = N.
Proof. exact (factory_window_length_thm I0 cheb names routes sigs N name kw w). Qed.
End C20_real.

Section C20_coefficients.
Context {F : Type} {OF : Ops F} {TF : TOps F}.
Local Open Scope string_scope.
Theorem cosine_sum_coefficients (N : nat) :
  window_nuttall N = coeff4 N (mcoef "window_nuttall" "a0") (mcoef "window_nuttall" "a1")
                              (mcoef "window_nuttall" "a2") (mcoef "window_nuttall" "a3")
  /\ window_blackman_nuttall N = coeff4 N (mcoef "window_blackman_nuttall" "a0") (mcoef "window_blackman_nuttall" "a1")
                                          (mcoef "window_blackman_nuttall" "a2") (mcoef "window_blackman_nuttall" "a3")
  /\ window_blackman_harris N = coeff4 N (mcoef "window_blackman_harris" "a0") (mcoef "window_blackman_harris" "a1")
                                         (mcoef "window_blackman_harris" "a2") (mcoef "window_blackman_harris" "a3")
  /\ (ft_a0, ft_a1, ft_a2, ft_a3, ft_a4) =
     (mcoef "window_flattop" "a0", mcoef "window_flattop" "a1", mcoef "window_flattop" "a2",
      mcoef "window_flattop" "a3", mcoef "window_flattop" "a4")
  /\ (bh_a0, bh_a1, bh_a2) =
     (mcoef "window_bartlett_hann" "a0", mcoef "window_bartlett_hann" "a1", mcoef "window_bartlett_hann" "a2").
Proof.
  exact (Logic.conj (nuttall_coeffs N) (Logic.conj (blackman_nuttall_coeffs N) (Logic.conj (blackman_harris_coeffs N)
        (Logic.conj flattop_coeffs bartlett_hann_coeffs)))).
Qed.
End C20_coefficients.

(* ---- non-vacuity: the algebraic generators run exactly over Qc (transcendental functions unused) *)
Definition qc_abs (x : Qc) : Qc := if Qle_bool x 0 then (- x)%Qc else x.
Definition qc_tops : TOps Qc := {|
  tcos := fun _ => 0%Qc; tsin := fun _ => 0%Qc; texp := fun _ => 0%Qc; tln := fun _ => 0%Qc; tsqrt := fun _ => 0%Qc;
  tabs := qc_abs; tpi := 0%Qc; tI0 := fun _ => 1%Qc;
  tltb := fun a b => negb (Qle_bool b a); tleb := fun a b => Qle_bool a b; teqb := fun a b => Qle_bool a b && Qle_bool b a;
  tcheb := fun _ _ => [] |}.
Definition qc_sym (l : list Qc) : bool := forallb (fun p : Qc * Qc => Qc_eq_bool (fst p) (snd p)) (combine l (rev l)).
Definition qc_le1 (l : list Qc) : bool := forallb (fun x : Qc => Qle_bool x 1) l.
Definition qc_q (n : Z) (d : positive) : Qc := Q2Qc (n # d).
Example riesz_5 : forallb (fun p : Qc * Qc => Qc_eq_bool (fst p) (snd p))
  (combine (@window_riesz Qc qc_ops qc_tops 5) [qc_q 0 1; qc_q 3 4; qc_q 1 1; qc_q 3 4; qc_q 0 1]) = true.
Proof. vm_compute. reflexivity. Qed.
Example algebraic_windows_wellformed :
  forallb (fun w => (length w =? 7)%nat && qc_sym w && qc_le1 w && Qc_eq_bool (nth 3 w 0%Qc) 1%Qc
                    && Qle_bool 1 (@enbw Qc qc_ops w))
    [@window_riesz Qc qc_ops qc_tops 7; @window_parzen Qc qc_ops qc_tops 7; @window_bartlett Qc qc_ops qc_tops 7;
     @window_cauchy Qc qc_ops 7 (qc_q 3 1); @window_rectangle Qc qc_ops 7] = true.
Proof. vm_compute. reflexivity. Qed.
Example enbw_example : Qc_eq_bool (@enbw Qc qc_ops [qc_q 1 1; qc_q 2 1; qc_q 3 1]) (qc_q 7 6) = true.
Proof. vm_compute. reflexivity. Qed.

Print Assumptions enbw_ge_1.
Print Assumptions enbw_cauchy_schwarz.
Print Assumptions enbw_ge_1_real.
Print Assumptions window_length.
Print Assumptions window_symmetric.
Print Assumptions flattop_periodic_symmetric.
Print Assumptions window_max_le_1.
Print Assumptions flattop_le_1_4e9.
Print Assumptions flattop_centre_refuted.
Print Assumptions flattop_periodic_peak.
Print Assumptions window_centre_is_1.
Print Assumptions window_enbw_ge_1.
Print Assumptions hann_closed_form.
Print Assumptions hamming_closed_form.
Print Assumptions bartlett_closed_form.
Print Assumptions parzen_closed_form.
Print Assumptions factory_generator_cases.
Print Assumptions factory_returns_generator.
Print Assumptions factory_window_length.
Print Assumptions cosine_sum_coefficients.
