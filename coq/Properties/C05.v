(* C05 — NFFT only chooses the sampling grid of one underlying spectrum.  Statements only.

   Setting of every theorem: abstract *-field; fine grid c*n with DFT character tw', coarse grid n with the character
   [coarsen c tw'] (tw' restricted to multiples of c); every refinement factor c >= 1, every data length N <= n, every
   returned coarse entry k; "agree at common frequencies" = entry k of the coarse result equals entry c*k of the fine one
   (and c*k IS an entry of the fine result: the one-sided index bounds are part of the statements, both parities of n and c*n).

   PROVED
     character_of_coarse_grid   the character of the grid c*n restricted to multiples of c is a character of exact period n
     dft_common_frequencies     DFT of the same N samples: fine grid at bin c*k = coarse grid at bin k (k in Z)
     fft_common_frequencies     list level: fft(x, c*n)[c*k] = fft(x, n)[k] whenever len(x) <= n
     periodogram_grid           speriodogram, real (rfft bins) and complex data, every window, EVERY detrend value (the mean is
                                taken over the data, not over the padding), scale_by_freq not True
     periodogram_class_grid     the Periodogram object built with NFFT = n resp. c*n, after any common history of calls, reads
                                of .psd and window changes: NFFT stays n resp. c*n and the stored PSDs agree at common frequencies
     correlogram_grid           CORRELOGRAMPSD under NFFT >= 2*lag+1 (auto and cross, every norm, both back ends, every lag window):
                                same exception behaviour on both grids, same values at common frequencies
     arma2psd_grid              arma2psd (default sides, norm False) under NFFT > max(len A, len B) [admissible]: both calls return,
                                same values at common frequencies, whatever rho and T
     minvar_grid                minvar under NFFT >= 2*order-1: same exception behaviour; the returned AR vector and reflection
                                coefficients are identical; same PSD at common frequencies
     pmtm_grid                  pmtm under NFFT >= N: same ValueError behaviour; eigenvalues identical, weights identical
                                (unity/eigen), tapers = dpss(N, NW, k) on both grids, complex eigenspectra agree at common frequencies
     mtm_grid                   MultiTapering (unity / eigen), real (one-sided, doubled) and complex data, scale_by_freq off
     mtm_adapt_pointwise        adaptive weighting, what is EXACT: after the same number t of passes (every t) the estimate and
                                the weights on the two grids agree at common frequencies — one pass at a frequency reads only the
                                eigenspectra at that frequency, the eigenvalues and sigma^2
     mtm_adapt_grid             MultiTapering (adapt): if the two runs made the same number of passes, the stored PSDs agree at
                                common frequencies (NFFT enters only through the stopping test tol = 0.0005 sig2/NFFT vs the grid mean)
     eigen_grid                 eigen()/music/ev under NFFT >= P (centred vector; coarse entry j sits at fine entry c*j + centre_off):
                                same errors, same singular values, same pseudo-spectrum at common frequencies
     music_grid                 pmusic / pev, real (one-sided, doubled, flipped) and complex (centerdc_2_twosided) data, scale off
     store_grid                 every store form of the class pipelines (as is, psd[0:hi]*2 for both parities, the same flipped,
                                twosided_2_onesided, centerdc_2_twosided) commutes with the sub-sampling k |-> c*k
     stored_grid                class level over the pipeline interpreter (estimator -> store -> scale() calls), for a row whose
                                coefficient does not see NFFT
     *_grid_rel                 the per-estimator theorems deliver the hypothesis [grid_rel] of stored_grid / class_grid
   PROVED over the GENERATED pipeline table, recompiled on every run by tools/props/C05.py (tools/props/_c05_theorems.v.in):
     params_independent_of_nfft no class passes anything computed from NFFT to arburg/aryule/arcovar/modcovar/arma_estimate/ma,
                                no stored attribute (ar, ma, rho, reflection, eigenvalues, weights, Sk) is computed from NFFT,
                                NFFT reaches the functional estimator only as its NFFT argument
     class_grid                 for every class except pdaniell, real and complex data, scale_by_freq off: stored psd entry k
                                (NFFT = n) = entry c*k (NFFT = c*n) for every stored coarse entry, given grid_rel for the estimator
     class_grid_periodogram, class_grid_correlogram, class_grid_arma2psd, class_grid_minvar, class_grid_mtm (unity/eigen),
     class_grid_eigen           end to end: the estimator MODEL on the two grids followed by the class' store agrees at common
                                frequencies (no grid_rel hypothesis left; same exceptions; stored ar/reflection/eigenvalues/weights equal)
     class_grid_covers          every row of the table uses one of these six estimators, or is pdaniell
   NOT PROVED
     * adaptive multitaper without the equal-passes hypothesis: FALSE in general (the stopping test is grid-wide; the two runs may
       stop after different numbers of passes and then differ within the code's own tolerance) — search at rtol 1e-3;
     * pdaniell: the Daniell smoother averages neighbouring bins of the NFFT grid, a different estimator per grid — outside the property;
     * the parameter estimators themselves are not re-proved here (C09-C14 own them): NFFT-independence of ar/ma/rho/reflection is
       "not passed NFFT" (table theorem) + the search comparing the attributes. *)
Require Import Spectrum.Theory.Ops Spectrum.Theory.Sum Spectrum.Theory.Vec Spectrum.Theory.Dft Spectrum.Proofs.GridTheory
               Spectrum.Model.Corr Spectrum.Model.Periodogram Spectrum.Model.Arma2psd Spectrum.Model.Minvar Spectrum.Model.Mtm
               Spectrum.Model.Eigen Spectrum.Model.PipelineLib
               Spectrum.Proofs.Arma2psdTheory Spectrum.Proofs.MtmTheory Spectrum.Proofs.PipelineTheory
               Spectrum.Proofs.GridFourier_C05 Spectrum.Proofs.GridParam_C05 Spectrum.Proofs.GridMtm_C05
               Spectrum.Proofs.GridEigen_C05 Spectrum.Proofs.GridClass_C05 Spectrum.Proofs.GridLink_C05
               Spectrum.Instances.QcC Spectrum.Instances.QcCTw.

Section C05.
Context {F : Type} {OF : Ops F} {L : Laws OF}.
Local Open Scope F_scope.

Theorem character_of_coarse_grid (n c : nat) (tw' : Z -> F) : (0 < c)%nat -> (0 < n)%nat ->
  Twiddle (c * n) tw' -> Twiddle n (coarsen c tw').
Proof. exact (twiddle_coarsen n c tw'). Qed.

Theorem dft_common_frequencies (c : nat) (tw' : Z -> F) (N : nat) (x : nat -> F) (k : Z) :
  dftN tw' N x (Z.of_nat c * k)%Z = dftN (coarsen c tw') N x k.
Proof. exact (dft_grid_thm c tw' N x k). Qed.

Theorem fft_common_frequencies (n c : nat) (tw' : Z -> F) (x : list F) (k : nat) :
  (0 < c)%nat -> (k < n)%nat -> (length x <= n)%nat ->
  nthF (dft tw' (c * n) x) (c * k) = nthF (dft (coarsen c tw') n x) k.
Proof. exact (fft_grid_thm n c tw' x k). Qed.

Theorem periodogram_grid (n c : nat) (tw' : Z -> F) twopi (x w : list F) isreal dt sbf fs (k : nat) :
  (0 < c)%nat -> (1 <= n)%nat -> (length x <= n)%nat -> py_is_true sbf = false -> (k < nbins isreal n)%nat ->
  (c * k < nbins isreal (c * n))%nat /\
  nthF (speriodogram tw' twopi x w (Some (c * n)%nat) isreal dt sbf fs) (c * k)%nat
  = nthF (speriodogram (coarsen c tw') twopi x w (Some n) isreal dt sbf fs) k.
Proof. exact (periodogram_grid_thm n c tw' twopi x w isreal dt sbf fs k). Qed.

Theorem periodogram_class_grid (n c : nat) (tw' : Z -> F) twopi (data : list F) isreal wn (w : list F) fs dt sbf (ops : list pop) :
  (0 < c)%nat -> (1 <= n)%nat -> (length data <= n)%nat -> py_is_true sbf = false ->
  let sc := p_read (coarsen c tw') twopi (fold_left (p_step (coarsen c tw') twopi) ops (p_init data isreal wn w fs (NfInt n) dt sbf)) in
  let sf := p_read tw' twopi (fold_left (p_step tw' twopi) ops (p_init data isreal wn w fs (NfInt (c * n)%nat) dt sbf)) in
  p_NFFT sc = n /\ p_NFFT sf = (c * n)%nat /\
  exists pc pf, p_psd sc = Some pc /\ p_psd sf = Some pf /\ length pc = nbins isreal n /\ length pf = nbins isreal (c * n) /\
    forall k, (k < nbins isreal n)%nat -> (c * k < nbins isreal (c * n))%nat /\ nthF pf (c * k)%nat = nthF pc k.
Proof. exact (periodogram_class_grid_thm n c tw' twopi data isreal wn w fs dt sbf ops). Qed.

Theorem correlogram_grid (n c : nat) (tw' : Z -> F) (T' : Twiddle (c * n) tw') rp (x : list F) y lag wfull nm be :
  (0 < c)%nat -> (2 * lag + 1 <= n)%nat ->
  match correlogram (coarsen c tw') rp x y lag wfull (Some n) nm be, correlogram tw' rp x y lag wfull (Some (c * n)%nat) nm be with
  | Some lc, Some lf => length lc = n /\ length lf = (c * n)%nat /\ forall k, (k < n)%nat -> nthF lf (c * k)%nat = nthF lc k
  | None, None => True
  | _, _ => False
  end.
Proof. exact (correlogram_grid_thm n c tw' rp x y lag wfull nm be). Qed.

Theorem arma2psd_grid (n c : nat) (tw' : Z -> F) (T' : Twiddle (c * n) tw') (A B : option (list F)) (rho T : F) :
  (0 < c)%nat -> admissible A B n ->
  exists pc pf, arma2psd (coarsen c tw') A B rho T n SidesDefault false = Some pc
             /\ arma2psd tw' A B rho T (c * n) SidesDefault false = Some pf
             /\ length pc = n /\ length pf = (c * n)%nat
             /\ forall k, (k < n)%nat -> nthF pf (c * k)%nat = nthF pc k.
Proof. exact (arma2psd_grid_thm n c tw' A B rho T). Qed.

Theorem minvar_grid (n c : nat) (tw' : Z -> F) (T' : Twiddle (c * n) tw') (x : list F) (m : nat) (s : F) :
  (0 < c)%nat -> (2 * m - 1 <= n)%nat ->
  match minvar (coarsen c tw') x m s n, minvar tw' x m s (c * n) with
  | Some (pc, Ac, kc), Some (pf, Af, kf) =>
      Ac = Af /\ kc = kf /\ length pc = n /\ length pf = (c * n)%nat /\ forall k, (k < n)%nat -> nthF pf (c * k)%nat = nthF pc k
  | None, None => True
  | _, _ => False
  end.
Proof. exact (minvar_grid_thm n c tw' x m s). Qed.

Theorem pmtm_grid {NWT : Type} (dpss : nat -> NWT -> option nat -> list (list F) * list F)
  fuel (n c : nat) (tw' : Z -> F) (x : list F) NW k e v m :
  (0 < c)%nat -> (length x <= n)%nat ->
  match pmtm dpss fuel (coarsen c tw') x NW k (Some n) e v m, pmtm dpss fuel tw' x NW k (Some (c * n)%nat) e v m with
  | Some (SC, wC, evC), Some (SF, wF, evF) =>
      evC = evF /\ (m <> Adapt -> wC = wF) /\ length SC = length SF /\ col_rel n c SC SF /\
      exists tv, pmtm_inputs dpss (length x) NW k e v = Some tv /\ evC = snd tv /\ length SC = length (fst tv)
  | None, None => True
  | _, _ => False
  end.
Proof. exact (pmtm_grid_thm dpss fuel n c tw' x NW k e v m). Qed.

Theorem mtm_grid {NWT : Type} (dpss : nat -> NWT -> option nat -> list (list F) * list F)
  fuel (n c : nat) (tw' : Z -> F) isr (x : list F) NW k e v m (scale : F) :
  (0 < c)%nat -> (1 <= n)%nat -> (length x <= n)%nat -> m <> Adapt ->
  match mt_call dpss fuel (coarsen c tw') isr x NW k (Some n) e v m false scale,
        mt_call dpss fuel tw' isr x NW k (Some (c * n)%nat) e v m false scale with
  | Some pc, Some pf =>
      length pc = (if isr then Nat.min (mt_keep n) n else n) /\
      length pf = (if isr then Nat.min (mt_keep (c * n)) (c * n) else (c * n)%nat) /\
      forall b, (b < length pc)%nat -> (c * b < length pf)%nat /\ nthF pf (c * b)%nat = nthF pc b
  | None, None => True
  | _, _ => False
  end.
Proof. exact (mtm_grid_thm dpss fuel n c tw' isr x NW k e v m scale). Qed.

Theorem mtm_adapt_pointwise (n c : nat) (tw' : Z -> F) tapers (ev x : list F) (t : nat) :
  (0 < c)%nat -> (length x <= n)%nat ->
  let SC := powspec (eigenspectra (coarsen c tw') tapers x n) in
  let SF := powspec (eigenspectra tw' tapers x (c * n)) in
  let stC := ad_iter t SC ev (sig2 x) n in
  let stF := ad_iter t SF ev (sig2 x) (c * n) in
  forall k, (k < n)%nat ->
    nthF (ad_S stF) (c * k) = nthF (ad_S stC) k /\
    forall j, (j < length ev)%nat -> at2 (ad_wk stF) (c * k) j = at2 (ad_wk stC) k j.
Proof. exact (mtm_adapt_pointwise_thm n c tw' tapers ev x t). Qed.

Theorem mtm_adapt_grid {NWT : Type} (dpss : nat -> NWT -> option nat -> list (list F) * list F)
  fuel (n c : nat) (tw' : Z -> F) isr (x : list F) NW k e v (scale : F) :
  (0 < c)%nat -> (1 <= n)%nat -> (length x <= n)%nat ->
  (forall tv, pmtm_inputs dpss (length x) NW k e v = Some tv ->
     ad_i (adapt_run fuel (eigenspectra (coarsen c tw') (fst tv) x n) (snd tv) x n)
     = ad_i (adapt_run fuel (eigenspectra tw' (fst tv) x (c * n)) (snd tv) x (c * n))) ->
  match mt_call dpss fuel (coarsen c tw') isr x NW k (Some n) e v Adapt false scale,
        mt_call dpss fuel tw' isr x NW k (Some (c * n)%nat) e v Adapt false scale with
  | Some pc, Some pf =>
      length pc = (if isr then Nat.min (mt_keep n) n else n) /\
      length pf = (if isr then Nat.min (mt_keep (c * n)) (c * n) else (c * n)%nat) /\
      forall b, (b < length pc)%nat -> (c * b < length pf)%nat /\ nthF pf (c * b)%nat = nthF pc b
  | None, None => True
  | _, _ => False
  end.
Proof. exact (mtm_adapt_grid_thm dpss fuel n c tw' isr x NW k e v scale). Qed.

Theorem eigen_grid (n c : nat) (tw' : Z -> F) (T' : Twiddle (c * n) tw') (Hc : (0 < c)%nat) (Hn : (0 < n)%nat)
  meth eps nsig thr crit amin (x : list F) P S Vh :
  (forall I, (I < P)%nat -> length (mrow Vh I) = P) -> (P <= n)%nat ->
  match eigen meth eps nsig thr crit amin (coarsen c tw') n x P S Vh, eigen meth eps nsig thr crit amin tw' (c * n) x P S Vh with
  | inr (pc, evc), inr (pf, evf) =>
      evc = evf /\ evc = S /\ length pc = n /\ length pf = (c * n)%nat /\
      forall j, (j < n)%nat -> (c * j + centre_off n c < c * n)%nat /\ nthF pf (c * j + centre_off n c) = nthF pc j
  | inl e1, inl e2 => e1 = e2
  | _, _ => False
  end.
Proof. exact (eigen_grid_thm n c tw' Hc Hn meth eps nsig thr crit amin x P S Vh). Qed.

Theorem music_grid (n c : nat) (tw' : Z -> F) (T' : Twiddle (c * n) tw') (Hc : (0 < c)%nat) (Hn : (0 < n)%nat)
  meth eps nsig thr crit amin (x : list F) P S Vh :
  (forall I, (I < P)%nat -> length (mrow Vh I) = P) -> (P <= n)%nat -> forall isr : bool,
  match pclass meth eps isr None nsig thr crit amin (coarsen c tw') n x P S Vh,
        pclass meth eps isr None nsig thr crit amin tw' (c * n) x P S Vh with
  | inr (pc, evc), inr (pf, evf) =>
      evc = evf /\ evc = S /\
      length pc = (if isr then n / 2 + 1 else n)%nat /\ length pf = (if isr then (c * n) / 2 + 1 else c * n)%nat /\
      forall j, (j < length pc)%nat -> (c * j < length pf)%nat /\ nthF pf (c * j) = nthF pc j
  | inl e1, inl e2 => e1 = e2
  | _, _ => False
  end.
Proof. exact (music_grid_thm n c tw' Hc Hn meth eps nsig thr crit amin x P S Vh). Qed.

(* ---------------- class level ---------------- *)
Theorem store_grid (st : store) (lay : flayout) (n c : nat) (S1 S2 : list F) :
  store_ok st lay = true -> (0 < c)%nat -> (0 < n)%nat -> grid_rel lay n c S1 S2 ->
  forall k, (k < length (do_store st n S1))%nat ->
    (c * k < length (do_store st (c * n) S2))%nat /\ nthF (do_store st (c * n) S2) (c * k) = nthF (do_store st n S1) k.
Proof. exact (do_store_grid st lay n c S1 S2). Qed.

Theorem stored_grid (twopi : F) (m : psdmodel) (p : pipeline) (real : bool) (s1 s2 : sstate) (n c : nat) (S1 S2 : list F) :
  (0 < c)%nat -> (0 < n)%nat -> st_NFFT s1 = n -> st_NFFT s2 = (c * n)%nat ->
  store_ok (if real then p_real p else p_cplx p) (lay_of (p_est p) real) = true ->
  (forall l1 l2, coef twopi m p real false s2 l2 = coef twopi m p real false s1 l1) ->
  grid_rel (lay_of (p_est p) real) n c S1 S2 ->
  forall k, (k < length (stored twopi m p real false s1 S1))%nat ->
    (c * k < length (stored twopi m p real false s2 S2))%nat
    /\ nthF (stored twopi m p real false s2 S2) (c * k) = nthF (stored twopi m p real false s1 S1) k.
Proof. exact (GridClass_C05.stored_grid twopi m p real s1 s2 n c S1 S2). Qed.

Theorem periodogram_grid_rel (n c : nat) (tw' : Z -> F) (Hc : (0 < c)%nat) twopi (x w : list F) isreal dt sbf fs :
  (1 <= n)%nat -> (length x <= n)%nat -> py_is_true sbf = false ->
  grid_rel (lay_of FSperiodogram isreal) n c
    (speriodogram (coarsen c tw') twopi x w (Some n) isreal dt sbf fs)
    (speriodogram tw' twopi x w (Some (c * n)%nat) isreal dt sbf fs).
Proof. exact (GridLink_C05.periodogram_grid_rel n c tw' Hc twopi x w isreal dt sbf fs). Qed.

Theorem correlogram_grid_rel (n c : nat) (tw' : Z -> F) (Hc : (0 < c)%nat) (T' : Twiddle (c * n) tw')
  rp (x : list F) y lag wfull nm be lc lf : (2 * lag + 1 <= n)%nat ->
  correlogram (coarsen c tw') rp x y lag wfull (Some n) nm be = Some lc ->
  correlogram tw' rp x y lag wfull (Some (c * n)%nat) nm be = Some lf ->
  grid_rel (lay_of FCorrelogrampsd true) n c lc lf /\ grid_rel (lay_of FCorrelogrampsd false) n c lc lf.
Proof. exact (GridLink_C05.correlogram_grid_rel n c tw' Hc rp x y lag wfull nm be lc lf). Qed.

Theorem arma2psd_grid_rel (n c : nat) (tw' : Z -> F) (Hc : (0 < c)%nat) (T' : Twiddle (c * n) tw')
  (A B : option (list F)) (rho T : F) real : admissible A B n ->
  exists pc pf, arma2psd (coarsen c tw') A B rho T n SidesDefault false = Some pc
             /\ arma2psd tw' A B rho T (c * n) SidesDefault false = Some pf
             /\ grid_rel (lay_of FArma2psd real) n c pc pf.
Proof. exact (GridLink_C05.arma2psd_grid_rel n c tw' Hc A B rho T real). Qed.

Theorem minvar_grid_rel (n c : nat) (tw' : Z -> F) (Hc : (0 < c)%nat) (T' : Twiddle (c * n) tw')
  (x : list F) m s real pc Ac kc pf Af kf : (2 * m - 1 <= n)%nat ->
  minvar (coarsen c tw') x m s n = Some (pc, Ac, kc) -> minvar tw' x m s (c * n) = Some (pf, Af, kf) ->
  grid_rel (lay_of FMinvar real) n c pc pf.
Proof. exact (GridLink_C05.minvar_grid_rel n c tw' Hc x m s real pc Ac kc pf Af kf). Qed.

Theorem mtm_grid_rel (n c : nat) (tw' : Z -> F) (Hc : (0 < c)%nat)
  {NWT : Type} (dpss : nat -> NWT -> option nat -> list (list F) * list F) fuel (x : list F) NW k e v m real
  SC wC evC SF wF evF : (length x <= n)%nat -> m <> Adapt ->
  pmtm dpss fuel (coarsen c tw') x NW k (Some n) e v m = Some (SC, wC, evC) ->
  pmtm dpss fuel tw' x NW k (Some (c * n)%nat) e v m = Some (SF, wF, evF) ->
  grid_rel (lay_of FPmtm real) n c (mt_mean m SC wC (length evC) n) (mt_mean m SF wF (length evF) (c * n)).
Proof. exact (GridLink_C05.mtm_grid_rel n c tw' Hc dpss fuel x NW k e v m real SC wC evC SF wF evF). Qed.

Theorem eigen_grid_rel (n c : nat) (tw' : Z -> F) (Hc : (0 < c)%nat) (T' : Twiddle (c * n) tw')
  meth eps nsig thr crit amin (x : list F) P S Vh real pc evc pf evf :
  (0 < n)%nat -> (forall I, (I < P)%nat -> length (mrow Vh I) = P) -> (P <= n)%nat ->
  eigen meth eps nsig thr crit amin (coarsen c tw') n x P S Vh = inr (pc, evc) ->
  eigen meth eps nsig thr crit amin tw' (c * n) x P S Vh = inr (pf, evf) ->
  grid_rel (lay_of FEigen real) n c pc pf.
Proof. exact (GridLink_C05.eigen_grid_rel n c tw' Hc meth eps nsig thr crit amin x P S Vh real pc evc pf evf). Qed.
End C05.

(* ---------------- non-vacuity: exact runs on Gaussian rationals, grids 2 and 4 (c = 2) ---------------- *)
Local Open Scope Z_scope.
Definition q1 : QcC := cz (1,0) (0,0).
Definition ex_x : list QcC := [cz (1,0) (2,0); cz (3,0) (-1,0)].
(* the period-4 character coarsens to a period-2 character *)
Example coarse_example : @Twiddle _ qcc_ops 2 (coarsen 2 tw4).
Proof. apply (@character_of_coarse_grid _ qcc_ops 2 2 tw4); [lia|lia|exact tw4_twiddle]. Qed.
(* speriodogram with mean removal (detrend=True), complex data: bins 0, 2 of NFFT = 4 are bins 0, 1 of NFFT = 2; not all zero *)
Example periodogram_grid_example :
  let fine := @speriodogram _ qcc_ops tw4 q1 ex_x [q1; cz (1,-1) (0,0)] (Some 4%nat) false PyTrue PyFalse q1 in
  let coarse := @speriodogram _ qcc_ops (coarsen 2 tw4) q1 ex_x [q1; cz (1,-1) (0,0)] (Some 2%nat) false PyTrue PyFalse q1 in
  qcc_close_list (dy 0 0) [nthF (OF:=qcc_ops) fine 0; nthF (OF:=qcc_ops) fine 2] coarse
  && negb (qcc_close_list (dy 0 0) coarse [cz (0,0) (0,0); cz (0,0) (0,0)]) = true.
Proof. vm_compute. reflexivity. Qed.
(* arma2psd, AR(1) with a complex coefficient *)
Example arma2psd_grid_example :
  match @arma2psd _ qcc_ops tw4 (Some [cz (1,-1) (1,-2)]) None q1 q1 4 SidesDefault false,
        @arma2psd _ qcc_ops (coarsen 2 tw4) (Some [cz (1,-1) (1,-2)]) None q1 q1 2 SidesDefault false with
  | Some fine, Some coarse =>
      qcc_close_list (dy 0 0) [nthF (OF:=qcc_ops) fine 0; nthF (OF:=qcc_ops) fine 2] coarse
      && negb (qcc_close_list (dy 0 0) [nthF (OF:=qcc_ops) coarse 0] [nthF (OF:=qcc_ops) coarse 1])
  | _, _ => false
  end = true.
Proof. vm_compute. reflexivity. Qed.
(* pmusic on complex data, P = 2 <= NFFT = 2, one noise vector (1, 1/2) *)
Example music_grid_example :
  let Vh := [[q1; cz (0,0) (0,0)]; [q1; cz (1,-1) (0,0)]] in
  let S := [cz (2,0) (0,0); q1] in
  let x3 := [q1; cz (0,0) (1,0); cz (-1,0) (0,0)] in
  match @pclass _ qcc_ops MMusic (cz (1,-52) (0,0)) false None (Some (NInt 1)) None CAic 0 tw4 4 x3 2 S Vh,
        @pclass _ qcc_ops MMusic (cz (1,-52) (0,0)) false None (Some (NInt 1)) None CAic 0 (coarsen 2 tw4) 2 x3 2 S Vh with
  | inr (fine, _), inr (coarse, _) =>
      qcc_close_list (dy 0 0) [nthF (OF:=qcc_ops) fine 0; nthF (OF:=qcc_ops) fine 2] coarse
      && negb (qcc_close_list (dy 0 0) [nthF (OF:=qcc_ops) coarse 0] [nthF (OF:=qcc_ops) coarse 1])
  | _, _ => false
  end = true.
Proof. vm_compute. reflexivity. Qed.
(* MultiTapering (eigen weights), supplied tapers and eigenvalues, real-data fold: entries 0, 1 of NFFT = 2 are entries 0, 2 of NFFT = 4 *)
Example mtm_grid_example :
  let tapers := [[q1; q1]; [q1; cz (-1,0) (0,0)]] in
  let ev := [q1; cz (1,-1) (0,0)] in
  let xr := [cz (3,0) (0,0); cz (1,0) (0,0)] in
  let dpss0 := fun (_ : nat) (_ : unit) (_ : option nat) => (@nil (list QcC), @nil QcC) in
  match @mt_call _ qcc_ops unit dpss0 100 tw4 true xr None None (Some 4%nat) (Some ev) (Some tapers) Eigen false q1,
        @mt_call _ qcc_ops unit dpss0 100 (coarsen 2 tw4) true xr None None (Some 2%nat) (Some ev) (Some tapers) Eigen false q1 with
  | Some fine, Some coarse =>
      (length fine =? 3)%nat && (length coarse =? 2)%nat
      && qcc_close_list (dy 0 0) [nthF (OF:=qcc_ops) fine 0; nthF (OF:=qcc_ops) fine 2] coarse
      && negb (qcc_close_list (dy 0 0) [nthF (OF:=qcc_ops) coarse 0] [nthF (OF:=qcc_ops) coarse 1])
  | _, _ => false
  end = true.
Proof. vm_compute. reflexivity. Qed.

Print Assumptions character_of_coarse_grid.
Print Assumptions dft_common_frequencies.
Print Assumptions fft_common_frequencies.
Print Assumptions periodogram_grid.
Print Assumptions periodogram_class_grid.
Print Assumptions correlogram_grid.
Print Assumptions arma2psd_grid.
Print Assumptions minvar_grid.
Print Assumptions pmtm_grid.
Print Assumptions mtm_grid.
Print Assumptions mtm_adapt_pointwise.
Print Assumptions mtm_adapt_grid.
Print Assumptions eigen_grid.
Print Assumptions music_grid.
Print Assumptions store_grid.
Print Assumptions stored_grid.
Print Assumptions periodogram_grid_rel.
Print Assumptions correlogram_grid_rel.
Print Assumptions arma2psd_grid_rel.
Print Assumptions minvar_grid_rel.
Print Assumptions mtm_grid_rel.
Print Assumptions eigen_grid_rel.
