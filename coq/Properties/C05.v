(* C05 — NFFT only chooses the sampling grid of one underlying spectrum.  Statements only.

   PROVED (abstract *-field; every length N, every refinement factor c >= 1, every bin):
     character_of_coarse_grid   the character of the grid c*n restricted to multiples of c is a character of
                                exact period n (so the two grids share their common frequencies)
     dft_common_frequencies     the DFT of the same N samples evaluated on the fine grid at bin c*k equals the
                                DFT on the coarse grid at bin k (k in Z)
     fft_common_frequencies     list level: fft(x, c*n)[c*k] = fft(x, n)[k] whenever len(x) <= n
   NOT PROVED at this commit (search on the implementation only): the per-class statements (periodogram, correlogram
   under NFFT >= 2 lag + 1, arma2psd under NFFT > order, minimum variance, multitaper) and "the model parameters
   do not depend on NFFT" (true by construction of every pipeline: the functional estimator is not passed NFFT). *)
Require Import Spectrum.Theory.Ops Spectrum.Theory.Sum Spectrum.Theory.Vec Spectrum.Theory.Dft Spectrum.Proofs.GridTheory
               Spectrum.Instances.QcC Spectrum.Instances.QcCTw.

Section C05.
Context {F : Type} {OF : Ops F} {L : Laws OF}.
Local Open Scope F_scope.

Theorem character_of_coarse_grid (n c : nat) (tw' : Z -> F) : (0 < c)%nat -> (0 < n)%nat ->
  Twiddle (c * n) tw' -> Twiddle n (coarsen c tw').
Proof. exact (twiddle_coarsen n c tw'). Qed.

Theorem dft_common_frequencies (c : nat) (tw' : Z -> F) (N : nat) (x : nat -> F) (k : Z) :
  dftN tw' N x (Z.of_nat c * k)%Z = dftN (coarsen c tw') N x k.
Proof. exact (dft_grid_thm c tw' N x k). Qed.

Theorem fft_common_frequencies (n c : nat) (tw' : Z -> F) (x : list F) (k : nat) :
  (0 < c)%nat -> (k < n)%nat -> (length x <= n)%nat ->
  nthF (dft tw' (c * n) x) (c * k) = nthF (dft (coarsen c tw') n x) k.
Proof. exact (fft_grid_thm n c tw' x k). Qed.
End C05.

(* non-vacuity: the period-4 character coarsens to a period-2 character *)
Example coarse_example : @Twiddle _ qcc_ops 2 (coarsen 2 tw4).
Proof. apply (@character_of_coarse_grid _ qcc_ops 2 2 tw4); [lia|lia|exact tw4_twiddle]. Qed.

Print Assumptions character_of_coarse_grid.
Print Assumptions dft_common_frequencies.
Print Assumptions fft_common_frequencies.
