(* C08 — Sampling-rate and scale_by_freq normalisation is uniform; arma2psd formula.
   Nothing but statements; each is closed by [exact] of a lemma proved elsewhere.

   PROVED here (abstract *-field with a twiddle character, every NFFT, every coefficient vector):
     arma2psd_formula        for NFFT > max(len A, len B), real rho, real T <> 0, every bin k with A(w^k) <> 0:
                             arma2psd(A,B,rho,T,NFFT)[k] = (rho/T) * |B(w^k)|^2 / |A(w^k)|^2, A(z) = 1 + sum a_j z^(j+1);
                             real or complex coefficients; A absent (MA) and B absent (AR) are the cases A(z)=1 / B(z)=1
     arma2psd_length         whatever sides / norm: the result has NFFT entries
     arma2psd_raises         the model returns no value exactly when A and B are both absent or NFFT <= len A or NFFT <= len B
     arma2psd_linear_in_rho  arma2psd(c*rho) = c * arma2psd(rho) for real c (any sides)
     arma2psd_inverse_in_T   arma2psd(T*c)   = (1/c) * arma2psd(T) for real c <> 0, T <> 0 (any sides): the fact behind
                             "AR/MA/ARMA model spectra are divided by the sampling factor"
     arma2psd_centerdc       sides='centerdc' is numpy.fft.fftshift of the default layout
     arma2psd_norm           norm=True divides by vmax, [vmax_attained]: an entry of the spectrum, and in an ordered
                             *-field [vmax_upper_bound]: an upper bound of every entry
     arma2psd_real_symmetric real coefficients: psd[NFFT-k] = psd[k] (what the real-data slice "first half times 2" relies on)
     arma2psd_nonneg         ordered *-field, rho > 0, T > 0: every bin with A(w^k) <> 0 is >= 0
     pipeline_is_scaling     for EVERY pipeline table: stored PSD = (one scalar coefficient) * (sampling-free layout)
     range_axis_scales       for EVERY Range generator: frequencies(c*sampling) = c * frequencies(sampling)
     fresult_arma2psd        link of the two halves: for a table row with (UseDiv, SampSelf, FsNone) -- the generated theorem
                             model_classes_arma2psd shows these are exactly the rows of the AR/MA/ARMA classes -- the
                             interpreter's functional result built from arma2psd(T=1) IS arma2psd(T=sampling)
   PROVED over the GENERATED table (tools/props/_pipelines.py, recompiled from the snapshot on every run by
   tools/props/C08.py through ctx.check_generated; listed in the evidence under the same names):
     table_complete, state_consistent, stored_length_complex, model_classes_arma2psd,
     scale_once            for every class and datatype: psd(scale_by_freq=True) = (2 pi / df) * psd(False), df = sampling/NFFT
     sampling_value_model  pburg pyule pcovar pmodcovar parma pma: psd(k*sampling) = psd(sampling) / k
     sampling_value_fixed  Periodogram pcorrelogram MultiTapering pmusic pev pdaniell: unchanged
     sampling_value_minvar pminvar: psd(k*sampling) = k * psd(sampling)   (what the code does; outside both groups, see C16)
     sampling_axis         frequencies() = bins * sampling/NFFT for the three sides, df = sampling/NFFT, also after p.sampling = v
     sampling_axis_scales  proportionality of the axis, lengths unchanged
   NOT PROVED: that each functional estimator other than arma2psd (speriodogram, CORRELOGRAMPSD, minvar, eigen, pmtm)
   depends on sampling / scale_by_freq only in the way the translator reads off its source (fail-closed syntactic
   check + correspondence of the generated model against real objects + ratio search); rounding. *)
Require Import Spectrum.Theory.Ops Spectrum.Theory.Sum Spectrum.Theory.Vec Spectrum.Theory.Dft Spectrum.Theory.Order
               Spectrum.Model.Arma2psd Spectrum.Proofs.Arma2psdTheory
               Spectrum.Model.PipelineLib Spectrum.Proofs.PipelineTheory Spectrum.Proofs.C08Link
               Spectrum.Instances.QcC Spectrum.Instances.QcCTw.
From Coq Require Import QArith Qcanon.

Section C08.
Context {F : Type} {OF : Ops F} {L : Laws OF}.
Local Open Scope F_scope.

Theorem arma2psd_formula (n : nat) (tw : Z -> F) (Tw : Twiddle n tw) (A B : option (list F)) (rho T : F) :
  admissible A B n -> isreal rho -> isreal T -> T <> 0 ->
  exists psd, arma2psd tw A B rho T n SidesDefault false = Some psd /\ length psd = n /\
    forall k, (k < n)%nat -> polyz_opt tw A (Z.of_nat k) <> 0 ->
      nthF psd k = (rho / T) * nrm2 (polyz_opt tw B (Z.of_nat k)) / nrm2 (polyz_opt tw A (Z.of_nat k)).
Proof. exact (arma2psd_formula_thm n tw A B rho T). Qed.

Theorem arma2psd_length (tw : Z -> F) A B rho T n sides norm psd :
  arma2psd tw A B rho T n sides norm = Some psd -> length psd = n.
Proof. exact (arma2psd_length_thm tw A B rho T n sides norm psd). Qed.

Theorem arma2psd_raises (tw : Z -> F) A B rho T n sides norm :
  arma2psd tw A B rho T n sides norm = None <->
  ((A = None /\ B = None) \/ (n < olen A)%nat \/ (n < olen B)%nat).
Proof. exact (arma2psd_raises_thm tw A B rho T n sides norm). Qed.

Theorem arma2psd_linear_in_rho (tw : Z -> F) A B rho T n sides c : isreal c ->
  arma2psd tw A B (c * rho) T n sides false = option_map (vscale c) (arma2psd tw A B rho T n sides false).
Proof. exact (arma2psd_linear_in_rho_thm tw A B rho T n sides c). Qed.

Theorem arma2psd_inverse_in_T (tw : Z -> F) A B rho T n sides c : isreal c -> c <> 0 -> T <> 0 ->
  arma2psd tw A B rho (c * T) n sides false = option_map (vscale (inv c)) (arma2psd tw A B rho T n sides false).
Proof. exact (arma2psd_inverse_in_T_thm tw A B rho T n sides c). Qed.

Theorem arma2psd_centerdc (tw : Z -> F) A B rho T n psd :
  arma2psd tw A B rho T n SidesDefault false = Some psd ->
  exists psd', arma2psd tw A B rho T n SidesCenterdc false = Some psd' /\ length psd' = n /\
    forall j, (j < n)%nat ->
      nthF psd' j = nthF psd (if (j <? n / 2)%nat then j + (n - n / 2) else j - n / 2).
Proof. exact (arma2psd_centerdc_thm tw A B rho T n psd). Qed.

Theorem arma2psd_norm (tw : Z -> F) A B rho T n sides psd :
  arma2psd tw A B rho T n sides false = Some psd ->
  arma2psd tw A B rho T n sides true = Some (map (fun x => x / vmax psd) psd).
Proof. exact (arma2psd_norm_thm tw A B rho T n sides psd). Qed.

Theorem vmax_attained (l : list F) : l <> [] -> In (vmax l) l.
Proof. exact (vmax_in l). Qed.

Theorem arma2psd_real_symmetric (n : nat) (tw : Z -> F) (Tw : Twiddle n tw) A B rho T psd :
  oreal A -> oreal B ->
  arma2psd tw A B rho T n SidesDefault false = Some psd ->
  forall k, (0 < k < n)%nat -> nthF psd (n - k) = nthF psd k.
Proof. exact (arma2psd_real_symmetric_thm n tw A B rho T psd). Qed.

Theorem vmax_upper_bound (OL : OrdLaws OF) (l : list F) :
  (forall y, In y l -> isreal y) -> forall y, In y l -> le y (vmax l).
Proof. exact (vmax_ub l). Qed.

Theorem arma2psd_nonneg (OL : OrdLaws OF) (n : nat) (tw : Z -> F) (Tw : Twiddle n tw) A B rho T psd :
  pos rho -> pos T ->
  arma2psd tw A B rho T n SidesDefault false = Some psd ->
  forall k, (k < n)%nat -> polyz_opt tw A (Z.of_nat k) <> 0 -> nonneg (nthF psd k).
Proof. exact (arma2psd_nonneg_thm n tw A B rho T psd). Qed.

Theorem pipeline_is_scaling (twopi : F) m p real sbf (s : sstate) (Sp : list F) :
  stored twopi m p real sbf s Sp
  = vscale (coef twopi m p real sbf s (length (layout p real (st_NFFT s) Sp))) (layout p real (st_NFFT s) Sp).
Proof. exact (stored_coef twopi m p real sbf s Sp). Qed.

Theorem range_axis_scales (g : rgen) (c samp : F) (N : nat) :
  run_gen g (c * samp) N = vscale c (run_gen g samp N).
Proof. exact (run_gen_scale g c samp N). Qed.

Theorem fresult_arma2psd (twopi : F) (tw : Z -> F) (p : pipeline) (sbf : bool) A B rho samp n S1 :
  p_fsamp p = UseDiv -> p_samp p = SampSelf -> p_fscale p = FsNone ->
  isreal samp -> samp <> 0 ->
  arma2psd tw A B rho 1 n SidesDefault false = Some S1 ->
  arma2psd tw A B rho samp n SidesDefault false = Some (fresult twopi p sbf samp n S1).
Proof. exact (fresult_arma2psd_thm twopi tw p sbf A B rho samp n S1). Qed.
End C08.

(* non-vacuity on the exact 4-point grid (tw4 = 1, -i, -1, i): a complex ARMA(2,1) model *)
Definition exA : list QcC := [cz (1,-1) (1,-2); cz (-1,-2) (0,0)]%Z.      (* 1/2 + i/4, -1/4 *)
Definition exB : list QcC := [cz (1,-1) (-1,-1)]%Z.                        (* 1/2 - i/2 *)
Example arma2psd_example :
  @admissible _ (Some exA) (Some exB) 4
  /\ exists psd, @arma2psd _ qcc_ops tw4 (Some exA) (Some exB) (cz (3,0) (0,0))%Z (cz (1,1) (0,0))%Z 4 SidesDefault false = Some psd
     /\ length psd = 4%nat
     /\ forallb (fun k => negb (Qcleb (fst (@nrm2 _ qcc_ops (@polyz_opt _ qcc_ops tw4 (Some exA) (Z.of_nat k)))) 0%Qc)) (seq 0 4) = true.
Proof. split; [repeat split; cbn; try lia; left; discriminate|]. eexists. split; [vm_compute; reflexivity|]. split; vm_compute; reflexivity. Qed.
Example arma2psd_raises_example :
  @arma2psd _ qcc_ops tw2 (Some exA) None (cz (1,0) (0,0))%Z (cz (1,0) (0,0))%Z 2 SidesDefault false = None
  /\ @arma2psd _ qcc_ops tw2 None None (cz (1,0) (0,0))%Z (cz (1,0) (0,0))%Z 2 SidesDefault false = None.
Proof. split; vm_compute; reflexivity. Qed.

Print Assumptions arma2psd_formula.
Print Assumptions arma2psd_length.
Print Assumptions arma2psd_raises.
Print Assumptions arma2psd_linear_in_rho.
Print Assumptions arma2psd_inverse_in_T.
Print Assumptions arma2psd_centerdc.
Print Assumptions arma2psd_norm.
Print Assumptions vmax_attained.
Print Assumptions arma2psd_real_symmetric.
Print Assumptions vmax_upper_bound.
Print Assumptions arma2psd_nonneg.
Print Assumptions pipeline_is_scaling.
Print Assumptions range_axis_scales.
Print Assumptions fresult_arma2psd.
