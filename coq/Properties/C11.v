(* C11 - Linear-prediction representations convert losslessly into each other.
   Nothing but statements; each is closed by [exact] of a lemma proved in Proofs/LinPred*.v.
   (header completed below once all files exist) *)
Require Import Spectrum.Theory.Ops Spectrum.Theory.Sum Spectrum.Theory.Vec Spectrum.Model.Levinson Spectrum.Model.LinPred
               Spectrum.Proofs.LevinsonTheory Spectrum.Proofs.BurgTheory Spectrum.Proofs.LinPredTheory
               Spectrum.Instances.QcC Spectrum.Instances.QcCEq_C11.
From Coq Require Import QArith Qcanon.

Section C11.
Context {F : Type} {OF : Ops F} {L : Laws OF} {EF : Eqb F} {EL : EqbLaws EF}.
Local Open Scope F_scope.

Theorem levdown_levup (acur : list F) (k e : F) : nrm2 k <> 1 ->
  levdown (fst (levup acur k e)) (snd (levup acur k e)) = (1 :: tl acur, e).
Proof. exact (levdown_levup_thm acur k e). Qed.

Theorem levup_levdown (anxt : list F) (e : F) : (2 <= length anxt)%nat ->
  nrm2 (lastc (tl anxt)) <> 1 ->
  levup (fst (levdown anxt e)) (lastc (tl anxt)) (snd (levdown anxt e)) = (1 :: tl anxt, e).
Proof. exact (levup_levdown_thm anxt e). Qed.
End C11.

Print Assumptions levdown_levup.
Print Assumptions levup_levdown.
