(* C11 - Linear-prediction representations convert losslessly into each other.
   Nothing but statements; each is closed by [exact] of a lemma proved in Proofs/LinPred*.v.

   PROVED (abstract field with conjugation, every order, by induction; [dom]/[dom_tail] = "|k_j|^2 <> 1"
   for every stage / every stage but the first, exactly the divisions the code performs):
     levdown_levup        one step down undoes one step up (polynomial and error), |k|^2 <> 1
     levup_levdown        one step up with the removed coefficient undoes one step down
     rc2poly_form         rc2poly k r0 = (1 :: step-up polynomial of k, r0 * prod(1-|k_i|^2)); raises only on []
     poly2rc_rc2poly      poly2rc (rc2poly k) = k (whatever final error is passed)
     rc2poly_poly2rc      rc2poly (poly2rc a) = a, with error r0 * prod(1-|k_i|^2)
     ac2poly_commutes     ac2poly r = rc2poly (ac2rc r)              (r0 real, order >= 1)
     poly2rc_ac2poly      poly2rc (ac2poly r) = fst (ac2rc r)
     poly2ac_ac2poly      rlevinson inverts LEVINSON: poly2ac (ac2poly r) = r, every lag
     rc2ac_ac2rc          rc2ac (ac2rc r) = r
     poly2ac_zero_lag     R[0] of poly2ac = efinal / prod(1-|k_i|^2)
   PROVED (ordered *-field: Theory/Order.v; [stable] = every |k_j| < 1):
     rc2poly_error_pos    r0 > 0, |k_j| < 1  =>  final error > 0
     rc2ac_returns        |k_j| < 1 => rc2ac raises nothing
     ac2_rc2ac            LEVINSON inverts rlevinson: ac2rc (rc2ac k r0) = (k, r0), ac2poly (rc2ac k r0) = rc2poly k r0
     ac2poly_poly2ac      ac2poly (poly2ac a e) = (a, e) when e > 0 and the coefficients of a have modulus < 1
   PROVED (line spectral frequencies, algebraic part):
     lsf_reconstruct, lsf_Q1_palindromic, lsf_P1_antipalindromic, lsf_P1_root_p1 (z=1, every order),
     lsf_P1_root_m1 (z=-1, odd order), lsf_Q1_root_m1 (z=-1, even order), lsf_combine_sumdiff (lsf2poly's averaging
     step returns a when P, Q are the exact quotients), lsf_division_exact (the code's deconvolutions leave no
     remainder), lsf_algebra_roundtrip
   PROVED (Coq's R, stdlib axioms of the reals - see Print Assumptions below):
     rc2lar_formula, lar2rc_rc2lar, rc2lar_lar2rc (with range (-1,1)), is2rc_rc2is, rc2is_is2rc, rc2is_range
   NOT PROVED: the roots of P and Q lie on the unit circle, interlace, and give strictly increasing angles in
   (0,pi) (Hermite-Biehler); minimum phase <=> |k_j| < 1; numpy.roots / numpy.poly are inverse to each other
   (library oracles); the float functions arctanh/tanh/arcsin/sin: search and oracle comparison only. *)
From Coq Require Import Reals QArith Qcanon.
Require Import Spectrum.Theory.Ops Spectrum.Theory.Sum Spectrum.Theory.Vec Spectrum.Theory.Order
               Spectrum.Model.Levinson Spectrum.Model.LinPred
               Spectrum.Proofs.LevinsonTheory Spectrum.Proofs.BurgTheory Spectrum.Proofs.LinPredTheory
               Spectrum.Proofs.LinPredOrder Spectrum.Proofs.LinPredLsf Spectrum.Proofs.LinPredDeconv Spectrum.Proofs.LinPredReal
               Spectrum.Instances.QcC Spectrum.Instances.QcCOrd Spectrum.Instances.QcCEq_C11.

Section C11.
Context {F : Type} {OF : Ops F} {L : Laws OF} {EF : Eqb F} {EL : EqbLaws EF}.
Local Open Scope F_scope.

Theorem levdown_levup (acur : list F) (k e : F) : nrm2 k <> 1 ->
  levdown (fst (levup acur k e)) (snd (levup acur k e)) = (1 :: tl acur, e).
Proof. exact (levdown_levup_thm acur k e). Qed.

Theorem levup_levdown (anxt : list F) (e : F) : (2 <= length anxt)%nat ->
  nrm2 (lastc (tl anxt)) <> 1 ->
  levup (fst (levdown anxt e)) (lastc (tl anxt)) (snd (levdown anxt e)) = (1 :: tl anxt, e).
Proof. exact (levup_levdown_thm anxt e). Qed.

Theorem rc2poly_form (ks : list F) (r0 : F) : ks <> [] ->
  rc2poly ks r0 = Some (1 :: stepup_all ks, r0 * prodk ks).
Proof. exact (rc2poly_form_thm ks r0). Qed.

Theorem poly2rc_rc2poly (ks : list F) (r0 ef : F) (a : list F) (e : F) :
  (forall j, (1 <= j < length ks)%nat -> nrm2 (nthF ks j) <> 1) ->
  rc2poly ks r0 = Some (a, e) -> poly2rc a ef = Some ks.
Proof. exact (poly2rc_rc2poly_thm ks r0 ef a e). Qed.

Theorem rc2poly_poly2rc (a : list F) (ef r0 : F) (ks : list F) :
  poly2rc a ef = Some ks -> (forall j, (1 <= j < length ks)%nat -> nrm2 (nthF ks j) <> 1) ->
  rc2poly ks r0 = Some (a, r0 * prodk ks).
Proof. exact (rc2poly_poly2rc_thm a ef r0 ks). Qed.

Theorem ac2poly_commutes (r : list F) (a : list F) (e : F) (ks : list F) (r0 : F) :
  isreal (nthF r 0) -> (2 <= length r)%nat ->
  ac2poly r = Some (a, e) -> ac2rc r = Some (ks, r0) -> rc2poly ks r0 = Some (a, e).
Proof. exact (ac2poly_commutes_thm r a e ks r0). Qed.

Theorem poly2rc_ac2poly (r : list F) (a : list F) (e ef : F) (ks : list F) (r0 : F) :
  isreal (nthF r 0) -> (2 <= length r)%nat ->
  ac2poly r = Some (a, e) -> ac2rc r = Some (ks, r0) -> poly2rc a ef = Some ks.
Proof. exact (poly2rc_ac2poly_thm r a e ef ks r0). Qed.

Theorem poly2ac_ac2poly (r : list F) (a : list F) (e : F) :
  isreal (nthF r 0) -> (2 <= length r)%nat ->
  ac2poly r = Some (a, e) -> poly2ac a e = Some r.
Proof. exact (poly2ac_ac2poly_thm r a e). Qed.

Theorem rc2ac_ac2rc (r : list F) (ks : list F) (r0 : F) :
  isreal (nthF r 0) -> (2 <= length r)%nat -> ac2rc r = Some (ks, r0) -> rc2ac ks r0 = Some r.
Proof. exact (rc2ac_ac2rc_thm r ks r0). Qed.

Theorem poly2ac_zero_lag (a : list F) (ef : F) (R ks : list F) :
  poly2ac a ef = Some R -> poly2rc a ef = Some ks ->
  (forall j, (j < length ks)%nat -> nrm2 (nthF ks j) <> 1) -> nthF R 0 = ef / prodk ks.
Proof. exact (poly2ac_zero_lag_thm a ef R ks). Qed.

(* ---- line spectral frequencies ---- *)
Theorem lsf_reconstruct (a : list F) :
  mk (S (length a)) (fun j => (nthF (lsf_P1 a) j + nthF (lsf_Q1 a) j) / two) = a ++ [0].
Proof. exact (lsf_reconstruct_thm a). Qed.

Theorem lsf_Q1_palindromic (a : list F) j : (j <= length a)%nat ->
  nthF (lsf_Q1 a) (length a - j) = nthF (lsf_Q1 a) j.
Proof. exact (lsf_Q1_palindromic_thm a j). Qed.

Theorem lsf_P1_antipalindromic (a : list F) j : (j <= length a)%nat ->
  nthF (lsf_P1 a) (length a - j) = - nthF (lsf_P1 a) j.
Proof. exact (lsf_P1_antipalindromic_thm a j). Qed.

Theorem lsf_P1_root_p1 (a : list F) : eval_p1 (lsf_P1 a) = 0.
Proof. exact (lsf_P1_root_p1_thm a). Qed.

Theorem lsf_P1_root_m1 (a : list F) : Nat.odd (length a - 1) = true -> (1 <= length a)%nat ->
  eval_m1 (lsf_P1 a) = 0.
Proof. exact (lsf_P1_root_m1_thm a). Qed.

Theorem lsf_Q1_root_m1 (a : list F) : Nat.odd (length a - 1) = false -> (1 <= length a)%nat ->
  eval_m1 (lsf_Q1 a) = 0.
Proof. exact (lsf_Q1_root_m1_thm a). Qed.

Theorem lsf_combine_sumdiff (a P Q : list F) : let p := (length a - 1)%nat in
  (if Nat.odd p then conv P d_pm else conv P d_m1) = lsf_P1 a ->
  (if Nat.odd p then Q else conv Q d_p1) = lsf_Q1 a ->
  lsf_combine p P Q = a.
Proof. exact (lsf_combine_sumdiff_thm a P Q). Qed.

Theorem lsf_division_exact (a : list F) : (1 <= length a)%nat ->
  let p := (length a - 1)%nat in
  (if Nat.odd p then conv (fst (fst (lsf_PQ a))) d_pm else conv (fst (fst (lsf_PQ a))) d_m1) = lsf_P1 a /\
  (if Nat.odd p then fst (snd (lsf_PQ a)) else conv (fst (snd (lsf_PQ a))) d_p1) = lsf_Q1 a /\
  (forall j, nthF (snd (fst (lsf_PQ a))) j = 0) /\ (forall j, nthF (snd (snd (lsf_PQ a))) j = 0).
Proof. exact (lsf_division_exact_thm a). Qed.

Theorem lsf_algebra_roundtrip (a : list F) : (1 <= length a)%nat ->
  lsf_combine (length a - 1) (fst (fst (lsf_PQ a))) (fst (snd (lsf_PQ a))) = a.
Proof. exact (lsf_algebra_roundtrip_thm a). Qed.
End C11.

Section C11_ordered.
Context {F : Type} {OF : Ops F} {L : Laws OF} {OL : OrdLaws OF} {EF : Eqb F} {EL : EqbLaws EF}.
Local Open Scope F_scope.

Theorem rc2poly_error_pos (ks : list F) (r0 : F) (a : list F) (e : F) :
  pos r0 -> (forall j, (j < length ks)%nat -> lt (nrm2 (nthF ks j)) 1) ->
  rc2poly ks r0 = Some (a, e) -> pos e /\ e = r0 * prodk ks.
Proof. exact (rc2poly_error_pos_thm ks r0 a e). Qed.

Theorem rc2ac_returns (ks : list F) (r0 : F) : ks <> [] ->
  (forall j, (j < length ks)%nat -> lt (nrm2 (nthF ks j)) 1) -> exists R, rc2ac ks r0 = Some R.
Proof. exact (rc2ac_returns_thm ks r0). Qed.

Theorem ac2_rc2ac (ks : list F) (r0 : F) (R : list F) :
  pos r0 -> (forall j, (j < length ks)%nat -> lt (nrm2 (nthF ks j)) 1) -> rc2ac ks r0 = Some R ->
  ac2rc R = Some (ks, r0) /\ ac2poly R = rc2poly ks r0 /\ length R = S (length ks).
Proof. exact (ac2_rc2ac_thm ks r0 R). Qed.

Theorem ac2poly_poly2ac (a : list F) (e : F) (R ks : list F) :
  pos e -> poly2rc a e = Some ks -> (forall j, (j < length ks)%nat -> lt (nrm2 (nthF ks j)) 1) ->
  poly2ac a e = Some R -> ac2poly R = Some (a, e).
Proof. exact (ac2poly_poly2ac_thm a e R ks). Qed.
End C11_ordered.

(* ---- the closed-form maps over the real numbers (stdlib Reals) ---- *)
Local Open Scope R_scope.
Theorem rc2lar_formula (k : R) : -1 < k < 1 -> rc2lar k = ln ((1 + k) / (1 - k)).
Proof. exact (rc2lar_formula_thm k). Qed.
Theorem lar2rc_rc2lar (k : R) : -1 < k < 1 -> lar2rc (rc2lar k) = k.
Proof. exact (lar2rc_rc2lar_thm k). Qed.
Theorem rc2lar_lar2rc (g : R) : -1 < lar2rc g < 1 /\ rc2lar (lar2rc g) = g.
Proof. exact (rc2lar_lar2rc_thm g). Qed.
Theorem is2rc_rc2is (k : R) : -1 <= k <= 1 -> is2rc (rc2is k) = k.
Proof. exact (is2rc_rc2is_thm k). Qed.
Theorem rc2is_is2rc (s : R) : -1 <= s <= 1 -> rc2is (is2rc s) = s.
Proof. exact (rc2is_is2rc_thm s). Qed.
Theorem rc2is_range (k : R) : -1 < k < 1 -> -1 < rc2is k < 1.
Proof. exact (rc2is_range_thm k). Qed.
Local Close Scope R_scope.

(* non-vacuity: concrete complex parameter sets meet the hypotheses; every conversion returns and round-trips;
   the error branch of levdown is reachable *)
Local Open Scope Z_scope.
Definition ex_k : list QcC := [cz (1,-1) (1,-2); cz (-1,-2) (1,-1); cz (1,-3) (-3,-3)].
Definition ex_r0 : QcC := cz (2,0) (0,0).
Lemma ex_lt1 (k : QcC) (n d : nat) : (1 <= n)%nat -> (1 <= d)%nat ->
  @sub _ qcc_ops (@one _ qcc_ops) (@nrm2 _ qcc_ops k) = @div _ qcc_ops (@ofnat _ qcc_ops n) (@ofnat _ qcc_ops d) ->
  @lt _ qcc_ops qcc_ord (@nrm2 _ qcc_ops k) (@one _ qcc_ops).
Proof.
  intros Hn Hd E. unfold lt. rewrite E.
  apply (@pos_div _ qcc_ops qcc_laws qcc_ord); apply (@pos_ofnat _ qcc_ops qcc_laws qcc_ord); assumption.
Qed.
Example ex_stable : forall j, (j < length ex_k)%nat ->
  @lt _ qcc_ops qcc_ord (@nrm2 _ qcc_ops (nthF (OF:=qcc_ops) ex_k j)) (@one _ qcc_ops).
Proof.
  intros j Hj. destruct j as [|[|[|j]]]; [| | |cbn in Hj; lia].
  - apply (ex_lt1 _ 11 16); [lia|lia|]. apply qcc_eq; apply Qc_is_canon; vm_compute; reflexivity.
  - apply (ex_lt1 _ 11 16); [lia|lia|]. apply qcc_eq; apply Qc_is_canon; vm_compute; reflexivity.
  - apply (ex_lt1 _ 27 32); [lia|lia|]. apply qcc_eq; apply Qc_is_canon; vm_compute; reflexivity.
Qed.
Example ex_roundtrip :
  exists a e R, @rc2poly _ qcc_ops ex_k ex_r0 = Some (a, e) /\ @poly2rc _ qcc_ops _ a e = Some ex_k
             /\ @rc2ac _ qcc_ops _ ex_k ex_r0 = Some R /\ @ac2rc _ qcc_ops R = Some (ex_k, ex_r0)
             /\ @ac2poly _ qcc_ops R = Some (a, e) /\ @poly2ac _ qcc_ops _ a e = Some R.
Proof.
  do 3 eexists. split; [vm_compute; reflexivity|]. split; [vm_compute; reflexivity|].
  split; [vm_compute; reflexivity|]. split; [vm_compute; reflexivity|]. split; vm_compute; reflexivity.
Qed.
Example ex_levdown_raises : @poly2rc _ qcc_ops _ [cz (1,0) (0,0); cz (1,-1) (0,0); cz (1,0) (0,0)] ex_r0 = None.
Proof. vm_compute. reflexivity. Qed.
Example ex_lsf : let a := [cz (1,0) (0,0); cz (1,-1) (0,0); cz (-1,-2) (0,0)] in
  let '((P, rP), (Q, rQ)) := @lsf_PQ _ qcc_ops a in
  qcc_close_list (dy 0 0) (@lsf_combine _ qcc_ops 2 P Q) a = true
  /\ forallb (fun z => qcc_eqb z (dy 0 0, dy 0 0)) (rP ++ rQ) = true /\ length (rP ++ rQ) = 8%nat.
Proof. vm_compute. repeat split; reflexivity. Qed.
Local Close Scope Z_scope.

Set Printing Width 400.
Print Assumptions levdown_levup.
Print Assumptions levup_levdown.
Print Assumptions rc2poly_form.
Print Assumptions poly2rc_rc2poly.
Print Assumptions rc2poly_poly2rc.
Print Assumptions ac2poly_commutes.
Print Assumptions poly2rc_ac2poly.
Print Assumptions poly2ac_ac2poly.
Print Assumptions rc2ac_ac2rc.
Print Assumptions poly2ac_zero_lag.
Print Assumptions lsf_reconstruct.
Print Assumptions lsf_Q1_palindromic.
Print Assumptions lsf_P1_antipalindromic.
Print Assumptions lsf_P1_root_p1.
Print Assumptions lsf_P1_root_m1.
Print Assumptions lsf_Q1_root_m1.
Print Assumptions lsf_combine_sumdiff.
Print Assumptions lsf_division_exact.
Print Assumptions lsf_algebra_roundtrip.
Print Assumptions rc2poly_error_pos.
Print Assumptions rc2ac_returns.
Print Assumptions ac2_rc2ac.
Print Assumptions ac2poly_poly2ac.
Print Assumptions rc2lar_formula.
Print Assumptions lar2rc_rc2lar.
Print Assumptions rc2lar_lar2rc.
Print Assumptions is2rc_rc2is.
Print Assumptions rc2is_is2rc.
Print Assumptions rc2is_range.
