(* C15 — MA and ARMA estimators return valid, invertible models.
   Nothing but statements; each is closed by [exact] of a lemma proved in Proofs/ArmaEst*.v.

   The model (Model/ArmaEst.v) is the code as it is now: aryule = LEVINSON(CORRELATION(x,order,norm),
   allow_singularity=True); ma = aryule of order M, then aryule of [1,a] at order Q; arma_estimate =
   unbiased lags, the sequence Y handed to the covariance method (arcovar_marple for P <= 4 with the
   [0:P] slice, arcovar for P > 4: oracles [lsm], [lsq]), the residual filter, ma(., Q, 2Q), and the
   exceptions in the order in which the code reaches them; the six class __call__ pipelines.

   PROVED (abstract *-field, ordered where an order clause is stated; every N, P, Q, lag, NFFT):
     ma_lengths            ma returns exactly Q coefficients, and only for 0 < Q < M < N
     ma_returns            for 0 < Q < M < N it does return
     ma_errors             ValueError iff Q = 0 or M <= Q; AssertionError iff otherwise M >= N; nothing else
     ma_valid              [ordered] data not identically zero: rho > 0, rho is the order-M Yule-Walker power of
                           the biased autocorrelation, the MA part solves the Yule-Walker equations of the biased
                           autocorrelation of [1,a] (Toeplitz rows = [P2,0..0], P2 > 0), and every reflection
                           coefficient of that run has |k| < 1 (the Schur-Cohn step from there to "zeros inside
                           the unit circle" is not proved)
     arma_lengths          exactly P AR and Q MA coefficients (oracles of the code's shapes)
     arma_returns          it returns on: 0 < Q <= lag < N, lag+2P-Q <= N, 2Q < N-P, P <= lag (P < lag when P > 4)
     arma_returns_iff      the exact argument set on which the code (as modelled) returns a model
     arma_ar_is_myw_ls     P = Q: the covariance method is handed [r_1..r_lag] (unbiased lags) and its normal
                           equations are those of the modified Yule-Walker system over lags Q+1..lag
     arma_residual_filter  what is handed to ma(., Q, 2Q) is (x * [1,a])[n], n = P..N-1
     arma_rho_pos          [ordered] rho > 0 whenever that residual is not identically zero
     class_psd_from_exposed  for parma/pma/pyule/pburg/pcovar/pmodcovar: stored ar/ma/rho, number of bins, and
                           psd[k] = c * (rho/sampling) * |B(w^k)|^2 / |A(w^k)|^2 of the stored coefficients,
                           c = (2 if real) * (2 pi NFFT / sampling if scale_by_freq); pyule does not store rho
     ma_invertible         [ordered] INVERTIBILITY: every root z (in the field) of z^Q + b_1 z^(Q-1) + .. + b_Q, b the
                           MA vector returned by ma, has |z|^2 < 1 — no algebraic closure needed: ma's second stage is
                           aryule of the non-zero vector [1,a], so C12's aryule_stable (positive definite biased
                           autocorrelation => roots in the open disc) applies.  Guard: data not identically zero
                           (for x = 0 the code returns nan)
     arma_ma_invertible    [ordered] the same for the MA part of arma_estimate when the filtered residual is not
                           identically zero (the hypothesis of arma_rho_pos)
     ma_invertible_ext / arma_ma_invertible_ext   data in F, roots in ANY ordered *-field K that F maps into by a
                           conj-compatible ring homomorphism; axiom-free
     ma_invertible_complex / arma_ma_invertible_complex / ma_invertible_C   data in the Gaussian rationals (the
                           executed instance) resp. in C: EVERY complex root has Cmod z < 1 (Coquelicot's C; these
                           three use the standard-library axioms of the reals, printed below — nothing else does)
     ma_grid_nonzero       [ordered] B(w^k) <> 0 at every grid point of every NFFT (a root on the unit circle would
                           have |z|^2 = 1), also in C08's notation polyz_opt (discharges the hypothesis of C08's
                           arma2psd_formula / arma2psd_nonneg for MA parts)
     class_psd_pos         [ordered] generic: rho > 0, sampling > 0, 2 pi > 0 and A, B non-vanishing on the grid =>
                           every stored PSD bin is > 0 (and every division in it is by a non-zero number: finite)
     pma_psd_pos           [ordered] pma: every bin > 0, B(w^k) <> 0 — unconditional for data not identically zero
     pyule_psd_pos         [ordered] pyule: every bin > 0 and A(w^k) <> 0 (aryule_stable + Yule-Walker positivity)
     pburg_psd_pos         [ordered] pburg (no criterion): every bin > 0 and A(w^k) <> 0 (C13's arburg stability, rho > 0)
     parma_psd_pos         [ordered] parma: B(w^k) <> 0 and rho > 0 always (residual not identically zero); every bin
                           > 0 PROVIDED A(w^k) <> 0 on the grid — the AR part comes from the covariance method,
                           which has no stability guarantee (a covariance-method pole can sit on the unit circle)
   NOT PROVED:
     A(w^k) <> 0 for the covariance-method AR parts (parma, pcovar, pmodcovar): no stability theorem exists for the
     covariance / modified covariance method, so strict positivity / finiteness of those three PSDs is search only
     (class_psd_pos gives it under that hypothesis); rho > 0 of pcovar / pmodcovar is C14's;
     that arcovar_marple / scipy lstsq solve the normal equations (oracle hypothesis; correspondence + search);
     the stated domain of arma_estimate is larger than [arma_returns_iff]: for lag < P, lag = P > 4, lag >= N the
     code raises, for P <= lag < 2P <= 8 it can return NaN (known findings D26, six keys). *)
Require Import Spectrum.Theory.Ops Spectrum.Theory.Sum Spectrum.Theory.Vec Spectrum.Theory.Order Spectrum.Theory.Dft
               Spectrum.Model.Levinson Spectrum.Model.Corr Spectrum.Model.ArmaEst
               Spectrum.Model.Burg Spectrum.Model.Arma2psd Spectrum.Proofs.YulePD Spectrum.Proofs.YuleExt
               Spectrum.Proofs.LevinsonTheory Spectrum.Proofs.ArmaEstTheory Spectrum.Proofs.ArmaEstPsd Spectrum.Proofs.ArmaEstPos
               Spectrum.Proofs.ArmaEstStable
               Spectrum.Instances.QcC Spectrum.Instances.QcCOrd Spectrum.Instances.QcCTw.
From Coq Require Import QArith Qcanon.

Section C15.
Context {F : Type} {OF : Ops F} {L : Laws OF}.
Local Open Scope F_scope.

Theorem ma_lengths (x : list F) Q M b rho :
  ma x Q M = inr (b, rho) -> length b = Q /\ (0 < Q < M)%nat /\ (M < length x)%nat.
Proof. exact (ma_lengths_thm x Q M b rho). Qed.

Theorem ma_returns (x : list F) Q M :
  (0 < Q < M)%nat -> (M < length x)%nat -> exists b rho, ma x Q M = inr (b, rho).
Proof. exact (ma_returns_thm x Q M). Qed.

Theorem ma_errors (x : list F) Q M :
  (ma x Q M = inl EValue <-> (Q = 0 \/ M <= Q)%nat) /\
  (ma x Q M = inl EAssert <-> (0 < Q < M /\ length x <= M)%nat) /\
  ma x Q M <> inl EIndex.
Proof. exact (ma_errors_thm x Q M). Qed.

Theorem arma_lengths (lsm lsq : list F -> nat -> list F) :
  (forall y p, length (lsm y p) = length y) -> (forall y p, length (lsq y p) = p) ->
  forall (x : list F) P Q lag a b rho,
  arma_estimate lsm lsq x P Q lag = inr (a, b, rho) -> length a = P /\ length b = Q.
Proof. exact (arma_lengths_thm lsm lsq). Qed.

Theorem arma_returns (lsm lsq : list F -> nat -> list F) (x : list F) P Q lag :
  (0 < Q <= lag)%nat -> (lag + 2 * P <= length x + Q)%nat -> (2 * Q + P < length x)%nat -> (lag < length x)%nat ->
  (P <= lag)%nat -> (4 < P -> P < lag)%nat ->
  exists a b rho, arma_estimate lsm lsq x P Q lag = inr (a, b, rho).
Proof. exact (arma_returns_thm lsm lsq x P Q lag). Qed.

(* the exact set of arguments on which the code, as modelled, returns a model: compared with the stated
   domain it also needs 0 < lag < N, P <= lag, and P < lag when P > 4 (the lstsq branch) *)
Theorem arma_returns_iff (lsm lsq : list F -> nat -> list F) (x : list F) P Q lag :
  (exists a b rho, arma_estimate lsm lsq x P Q lag = inr (a, b, rho)) <->
  ((lag < length x)%nat /\ (0 < Q)%nat /\ (2 * Q + P < length x)%nat
   /\ (lag + P <= Q \/ (P <= lag + Q + 1 /\ lag + 2 * P <= length x + Q))%nat
   /\ (0 < lag)%nat /\ (P <= lag)%nat /\ (4 < P -> P < lag)%nat).
Proof. exact (arma_returns_iff_thm lsm lsq x P Q lag). Qed.

(* P = Q.  r(n) for n in Z is the Hermitian extension of the unbiased lags; the equations are
   A^H (A a + b) = 0 for the system  r(n) + sum_{j=1..P} a_j r(n-j) = 0,  n = Q+1 .. lag. *)
Theorem arma_ar_is_myw_ls (lsm lsq : list F -> nat -> list F) (x : list F) P lag a b rho :
  arma_estimate lsm lsq x P P lag = inr (a, b, rho) ->
  (forall r, acorr x lag Unbiased = Some r ->
     cov_normal (arma_y r P P lag) (lsm (arma_y r P P lag) P) P /\ cov_normal (arma_y r P P lag) (lsq (arma_y r P P lag) P) P) ->
  exists r, acorr x lag Unbiased = Some r
    /\ arma_y r P P lag = mk lag (fun k => nthF r (S k))
    /\ cov_normal (arma_y r P P lag) a P
    /\ forall i, (i < P)%nat ->
         sumf (lag - P) (fun t =>
           conj (rz r (Z.of_nat (P + 1 + t) - Z.of_nat (S i)))
           * (rz r (Z.of_nat (P + 1 + t)) + sumf P (fun j => rz r (Z.of_nat (P + 1 + t) - Z.of_nat (S j)) * nthF a j))) = 0.
Proof. exact (arma_ar_is_myw_ls_thm lsm lsq x P lag a b rho). Qed.

Theorem arma_residual_filter (lsm lsq : list F -> nat -> list F) (x : list F) P Q lag a b rho :
  arma_estimate lsm lsq x P Q lag = inr (a, b, rho) ->
  ma (arma_resid x a P) Q (2 * Q) = inr (b, rho)
  /\ length (arma_resid x a P) = (length x - P)%nat
  /\ forall t, (t < length x - P)%nat ->
       nthF (arma_resid x a P) t = sumf (S P) (fun j => afun a j * nthF x (t + P - j)).
Proof. exact (arma_residual_handed_thm lsm lsq x P Q lag a b rho). Qed.

Theorem class_psd_from_exposed (tw : Z -> F) (c : pclass) (ar ma : list F) (v : F) (N order : nat)
        (twopi sampling : F) (NFFT : nat) (real sbf : bool) (e : exposed) : (1 <= NFFT)%nat ->
  class_call tw c ar ma v N order twopi sampling NFFT real sbf = inr e ->
  let rho := class_rho c v N order in
  x_ar e = class_A c ar /\ x_ma e = class_B c ma
  /\ x_rho e = (if class_rho_exposed c then Some rho else None)
  /\ length (x_psd e) = nbins real NFFT
  /\ forall k, (k < nbins real NFFT)%nat ->
       nthF (x_psd e) k = ((if real then two else 1) * (if sbf then twopi / (sampling / ofnat NFFT) else 1)) * (rho / sampling)
                          * nrm2 (polyval tw (x_ma e) k) / nrm2 (polyval tw (x_ar e) k).
Proof. exact (class_psd_thm tw c ar ma v N order twopi sampling NFFT real sbf e). Qed.

Context {OL : OrdLaws OF}.

Theorem ma_valid (x : list F) Q M b rho :
  (exists n, (n < length x)%nat /\ nthF x n <> 0) ->
  ma x Q M = inr (b, rho) ->
  length b = Q /\ pos rho /\
  exists a k1 P2 k2 r2,
    aryule x M Biased = Some (a, rho, k1) /\ length a = M
    /\ aryule (1 :: a) Q Biased = Some (b, P2, k2) /\ pos P2
    /\ (forall j, (j < Q)%nat -> pos (1 - nrm2 (nthF k2 j)))
    /\ acorr (1 :: a) Q Biased = Some r2
    /\ forall i, (i <= Q)%nat ->
         sumf (S Q) (fun j => afun b j * rz r2 (Z.of_nat i - Z.of_nat j)) = if (i =? 0)%nat then P2 else 0.
Proof. exact (ma_valid_thm x Q M b rho). Qed.

Theorem arma_rho_pos (lsm lsq : list F -> nat -> list F) (x : list F) P Q lag a b rho :
  arma_estimate lsm lsq x P Q lag = inr (a, b, rho) ->
  (exists t, (t < length x - P)%nat /\ nthF (arma_resid x a P) t <> 0) ->
  pos rho.
Proof. exact (arma_rho_pos_thm lsm lsq x P Q lag a b rho). Qed.

(* ---------- invertibility: z^Q + b_1 z^(Q-1) + .. + b_Q (numpy.roots([1, b])) has all roots in the open unit disc ---------- *)
Theorem ma_invertible (x : list F) Q M b rho (z : F) :
  (exists n, (n < length x)%nat /\ nthF x n <> 0) ->
  ma x Q M = inr (b, rho) ->
  sumf (S Q) (fun j => afun b j * fpow z (Q - j)) = 0 -> lt (nrm2 z) 1.
Proof. exact (ma_invertible_thm x Q M b rho z). Qed.

Theorem arma_ma_invertible (lsm lsq : list F -> nat -> list F) (x : list F) P Q lag a b rho (z : F) :
  arma_estimate lsm lsq x P Q lag = inr (a, b, rho) ->
  (exists t, (t < length x - P)%nat /\ nthF (arma_resid x a P) t <> 0) ->
  sumf (S Q) (fun j => afun b j * fpow z (Q - j)) = 0 -> lt (nrm2 z) 1.
Proof. exact (arma_ma_invertible_thm lsm lsq x P Q lag a b rho z). Qed.

(* ---------- strictly positive, finite PSDs ---------- *)
Theorem ma_grid_nonzero (tw : Z -> F) (NFFT : nat) (Tw : Twiddle NFFT tw) (x : list F) Q M b rho (k : nat) :
  (1 <= NFFT)%nat -> (exists n, (n < length x)%nat /\ nthF x n <> 0) ->
  ma x Q M = inr (b, rho) ->
  Spectrum.Proofs.ArmaEstPsd.polyval tw (Some b) k <> 0 /\ polyz_opt tw (Some b) (Z.of_nat k) <> 0.
Proof. exact (fun HN => ma_grid_nonzero_thm tw NFFT HN x Q M b rho k). Qed.

Theorem class_psd_pos (tw : Z -> F) (c : pclass) (ar ma : list F) (v : F) (N order : nat) (twopi sampling : F)
        (NFFT : nat) (real sbf : bool) (e : exposed) : (1 <= NFFT)%nat ->
  class_call tw c ar ma v N order twopi sampling NFFT real sbf = inr e ->
  pos (class_rho c v N order) -> pos sampling -> pos twopi ->
  (forall k, Spectrum.Proofs.ArmaEstPsd.polyval tw (x_ar e) k <> 0) ->
  (forall k, Spectrum.Proofs.ArmaEstPsd.polyval tw (x_ma e) k <> 0) ->
  forall k, (k < nbins real NFFT)%nat -> pos (nthF (x_psd e) k).
Proof. exact (class_psd_pos_thm tw c ar ma v N order twopi sampling NFFT real sbf e). Qed.

Theorem pma_psd_pos (tw : Z -> F) (NFFT : nat) (Tw : Twiddle NFFT tw) (x : list F) Q M b rho ar N order twopi sampling real sbf e :
  (1 <= NFFT)%nat -> (exists n, (n < length x)%nat /\ nthF x n <> 0) ->
  ma x Q M = inr (b, rho) ->
  class_call tw Cpma ar b rho N order twopi sampling NFFT real sbf = inr e ->
  pos sampling -> pos twopi ->
  forall k, (k < nbins real NFFT)%nat ->
    pos (nthF (x_psd e) k) /\ Spectrum.Proofs.ArmaEstPsd.polyval tw (x_ma e) k <> 0.
Proof. exact (fun HN => pma_psd_pos_thm tw NFFT HN x Q M b rho ar N order twopi sampling real sbf e). Qed.

Theorem pyule_psd_pos (tw : Z -> F) (NFFT : nat) (Tw : Twiddle NFFT tw) (x : list F) p a P ks ma N order twopi sampling real sbf e :
  (1 <= NFFT)%nat -> (exists n, (n < length x)%nat /\ nthF x n <> 0) ->
  Spectrum.Model.ArmaEst.aryule x p Biased = Some (a, P, ks) ->
  class_call tw Cpyule a ma P N order twopi sampling NFFT real sbf = inr e ->
  pos sampling -> pos twopi ->
  forall k, (k < nbins real NFFT)%nat ->
    pos (nthF (x_psd e) k) /\ Spectrum.Proofs.ArmaEstPsd.polyval tw (x_ar e) k <> 0.
Proof. exact (fun HN => pyule_psd_pos_thm tw NFFT HN x p a P ks ma N order twopi sampling real sbf e). Qed.

Theorem pburg_psd_pos (tw : Z -> F) (NFFT : nat) (Tw : Twiddle NFFT tw) (x : list F) p a rho ks ma N order twopi sampling real sbf e :
  (1 <= NFFT)%nat ->
  arburg x p no_stop = Some (a, rho, ks) ->
  class_call tw Cpburg a ma rho N order twopi sampling NFFT real sbf = inr e ->
  pos sampling -> pos twopi ->
  forall k, (k < nbins real NFFT)%nat ->
    pos (nthF (x_psd e) k) /\ Spectrum.Proofs.ArmaEstPsd.polyval tw (x_ar e) k <> 0.
Proof. exact (fun HN => pburg_psd_pos_thm tw NFFT HN x p a rho ks ma N order twopi sampling real sbf e). Qed.

Theorem parma_psd_pos (tw : Z -> F) (NFFT : nat) (Tw : Twiddle NFFT tw) (lsm lsq : list F -> nat -> list F)
        (x : list F) P Q lag a b rho N order twopi sampling real sbf e :
  (1 <= NFFT)%nat ->
  arma_estimate lsm lsq x P Q lag = inr (a, b, rho) ->
  (exists t, (t < length x - P)%nat /\ nthF (arma_resid x a P) t <> 0) ->
  class_call tw Cparma a b rho N order twopi sampling NFFT real sbf = inr e ->
  pos sampling -> pos twopi ->
  (forall k, Spectrum.Proofs.ArmaEstPsd.polyval tw (Some b) k <> 0)
  /\ ((forall k, Spectrum.Proofs.ArmaEstPsd.polyval tw (Some a) k <> 0) ->
      forall k, (k < nbins real NFFT)%nat -> pos (nthF (x_psd e) k)).
Proof. exact (fun HN => parma_psd_pos_thm tw NFFT HN lsm lsq x P Q lag a b rho N order twopi sampling real sbf e). Qed.
End C15.

(* data in F, roots in an ordered extension K *)
Section C15ext.
Context {F : Type} {OF : Ops F} {L : Laws OF} {OL : OrdLaws OF}.
Context {K : Type} {OK : Ops K} {LK : Laws OK} {OLK : OrdLaws OK}.
Local Open Scope F_scope.
Theorem ma_invertible_ext (phi : F -> K) (x : list F) Q M b rho (z : K) :
  phi 0 = 0 -> phi 1 = 1 -> (forall u v, phi (u + v) = phi u + phi v) -> (forall u v, phi (u * v) = phi u * phi v) ->
  (forall u, phi (conj u) = conj (phi u)) ->
  (exists n, (n < length x)%nat /\ nthF x n <> 0) ->
  ma x Q M = inr (b, rho) ->
  sumf (S Q) (fun j => phi (afun b j) * fpow z (Q - j)) = 0 -> lt (nrm2 z) 1.
Proof. intros h0 h1 ha hm hc. exact (ma_invertible_ext_thm phi (mkHom phi h0 h1 ha hm hc) x Q M b rho z). Qed.

Theorem arma_ma_invertible_ext (phi : F -> K) (lsm lsq : list F -> nat -> list F) (x : list F) P Q lag a b rho (z : K) :
  phi 0 = 0 -> phi 1 = 1 -> (forall u v, phi (u + v) = phi u + phi v) -> (forall u v, phi (u * v) = phi u * phi v) ->
  (forall u, phi (conj u) = conj (phi u)) ->
  arma_estimate lsm lsq x P Q lag = inr (a, b, rho) ->
  (exists t, (t < length x - P)%nat /\ nthF (arma_resid x a P) t <> 0) ->
  sumf (S Q) (fun j => phi (afun b j) * fpow z (Q - j)) = 0 -> lt (nrm2 z) 1.
Proof. intros h0 h1 ha hm hc. exact (arma_ma_invertible_ext_thm phi (mkHom phi h0 h1 ha hm hc) lsm lsq x P Q lag a b rho z). Qed.
End C15ext.

(* ---------- non-vacuity on the executed instance (Gaussian rationals) ---------- *)
Definition ex_x : list QcC := [cz (1,0) (0,0); cz (-1,1) (1,0); cz (3,0) (0,0); cz (1,0) (-1,0); cz (-1,0) (1,1);
                               cz (1,1) (0,0); cz (1,0) (1,0); cz (-3,0) (0,0); cz (1,0) (0,0); cz (1,1) (-1,0)]%Z.
Example ma_example : exists b rho, @ma _ qcc_ops ex_x 2 4 = inr (b, rho) /\ length b = 2%nat.
Proof. vm_compute. do 2 eexists. split; reflexivity. Qed.
Example ma_error_example : @ma _ qcc_ops ex_x 2 2 = inl EValue /\ @ma _ qcc_ops ex_x 2 10 = inl EAssert.
Proof. vm_compute. split; reflexivity. Qed.
Example ex_x_nonzero : exists n, (n < length ex_x)%nat /\ nthF (OF:=qcc_ops) ex_x n <> zero (Ops:=qcc_ops).
Proof. exists O. split; [vm_compute; lia|]. intro H. inversion H. Qed.
(* the exact oracles of the correspondence run meet the hypotheses of arma_lengths and, on this input,
   of arma_ar_is_myw_ls; arma_estimate returns with P = Q = 1, lag = 3 *)
Example arma_example :
  exists a b rho, @arma_estimate _ qcc_ops (@lsm_exact _ qcc_ops) (@ls_exact _ qcc_ops) ex_x 1 1 3 = inr (a, b, rho)
                  /\ length a = 1%nat /\ length b = 1%nat.
Proof. vm_compute. do 3 eexists. repeat split; reflexivity. Qed.
Example oracle_lengths_example :
  (forall y p, length (@lsm_exact _ qcc_ops y p) = length y) /\ (forall y p, length (@ls_exact _ qcc_ops y p) = p).
Proof. split; [exact (@lsm_exact_length _ qcc_ops)|exact (@ls_exact_length _ qcc_ops)]. Qed.
Example oracle_normal_example :
  forall r, @acorr _ qcc_ops ex_x 3 Unbiased = Some r ->
    let y := @arma_y _ qcc_ops r 1 1 3 in
    @cov_normal _ qcc_ops y (@lsm_exact _ qcc_ops y 1) 1 /\ @cov_normal _ qcc_ops y (@ls_exact _ qcc_ops y 1) 1.
Proof.
  intros r Hr. vm_compute in Hr. injection Hr as <-. cbv zeta.
  split; intros i Hi; (destruct i; [apply qcc_eq_canon; vm_compute; reflexivity|lia]).
Qed.
Example arma_error_example :
  @arma_estimate _ qcc_ops (@lsm_exact _ qcc_ops) (@ls_exact _ qcc_ops) ex_x 3 1 2 = inl EAssert
  /\ @arma_estimate _ qcc_ops (@lsm_exact _ qcc_ops) (@ls_exact _ qcc_ops) ex_x 1 0 3 = inl EValue
  /\ @arma_estimate _ qcc_ops (@lsm_exact _ qcc_ops) (@ls_exact _ qcc_ops) ex_x 5 1 3 = inl EIndex.
Proof. vm_compute. repeat split; reflexivity. Qed.
Definition ex_ar : list QcC := [cz (1,-1) (0,0)]%Z.
Definition ex_ma : list QcC := [cz (1,-2) (1,-2)]%Z.
Definition ex_v : QcC := (cz (3,0) (0,0))%Z.
Definition ex_twopi : QcC := (cz (25,-2) (0,0))%Z.
Definition ex_fs : QcC := (cz (2,0) (0,0))%Z.
Example class_example :
  exists e, @class_call _ qcc_ops tw4 Cparma ex_ar ex_ma ex_v 10 1 ex_twopi ex_fs 4 false true = inr e /\ length (x_psd e) = 4%nat.
Proof. vm_compute. eexists. split; reflexivity. Qed.

(* the invertibility and positivity theorems apply to the executed instance *)
Example ma_invertible_example :=
  fun b rho (Hm : @ma _ qcc_ops ex_x 2 4 = inr (b, rho)) z =>
    @ma_invertible QcC qcc_ops qcc_laws qcc_ord ex_x 2 4 b rho z ex_x_nonzero Hm.   (* hypothesis met: ma_example *)
Lemma ex_fs_pos : pos (OF:=qcc_ops) (OL:=qcc_ord) ex_fs.
Proof.
  replace ex_fs with (@ofnat _ qcc_ops 2) by (apply qcc_eq_canon; vm_compute; reflexivity).
  apply (@pos_ofnat _ qcc_ops qcc_laws qcc_ord). lia.
Qed.
Lemma ex_twopi_pos : pos (OF:=qcc_ops) (OL:=qcc_ord) ex_twopi.
Proof.
  replace ex_twopi with (@div _ qcc_ops (@ofnat _ qcc_ops 25) (@ofnat _ qcc_ops 4)) by (apply qcc_eq_canon; vm_compute; reflexivity).
  apply (@pos_div _ qcc_ops qcc_laws qcc_ord); apply (@pos_ofnat _ qcc_ops qcc_laws qcc_ord); lia.
Qed.
Example pma_psd_pos_example :
  exists b rho e, @ma _ qcc_ops ex_x 2 4 = inr (b, rho)
    /\ @class_call _ qcc_ops tw4 Cpma [] b rho 10 4 ex_twopi ex_fs 4 false true = inr e
    /\ forall k, (k < 4)%nat -> pos (OF:=qcc_ops) (OL:=qcc_ord) (nthF (OF:=qcc_ops) (x_psd e) k).
Proof.
  do 3 eexists. split; [vm_compute; reflexivity|]. split; [vm_compute; reflexivity|].
  intros k Hk.
  refine (proj1 (@pma_psd_pos QcC qcc_ops qcc_laws qcc_ord tw4 4 tw4_twiddle ex_x 2 4 _ _ [] 10 4 ex_twopi ex_fs false true _
                  ltac:(lia) ex_x_nonzero _ _ _ _ k Hk)).
  - vm_compute; reflexivity.
  - vm_compute; reflexivity.
  - exact ex_fs_pos.
  - exact ex_twopi_pos.
Qed.

(* ---------- all complex roots: instances at Coquelicot's C (standard-library real-number axioms) ---------- *)
Require Import Spectrum.Instances.Cplx_C12 Spectrum.Proofs.YuleComplex Spectrum.Proofs.ArmaEstStableC.
From Coq Require Import Reals.
From Coquelicot Require Import Complex.

Theorem ma_invertible_complex (x : list QcC) (Q M : nat) (b : list QcC) (rho : QcC) (z : C) :
  (exists n, (n < length x)%nat /\ nthF (OF:=qcc_ops) x n <> zero (Ops:=qcc_ops)) ->
  ma (OF:=qcc_ops) x Q M = inr (b, rho) ->
  sumf (OF:=c_ops) (S Q) (fun j => Cmult (qcc_to_c (afun (OF:=qcc_ops) b j)) (fpow (OF:=c_ops) z (Q - j))) = RtoC 0 ->
  (Cmod z < 1)%R.
Proof. exact (ma_invertible_complex_thm x Q M b rho z). Qed.

Theorem arma_ma_invertible_complex (lsm lsq : list QcC -> nat -> list QcC) (x : list QcC) (P Q lag : nat)
        (a b : list QcC) (rho : QcC) (z : C) :
  arma_estimate (OF:=qcc_ops) lsm lsq x P Q lag = inr (a, b, rho) ->
  (exists t, (t < length x - P)%nat /\ nthF (OF:=qcc_ops) (arma_resid (OF:=qcc_ops) x a P) t <> zero (Ops:=qcc_ops)) ->
  sumf (OF:=c_ops) (S Q) (fun j => Cmult (qcc_to_c (afun (OF:=qcc_ops) b j)) (fpow (OF:=c_ops) z (Q - j))) = RtoC 0 ->
  (Cmod z < 1)%R.
Proof. exact (arma_ma_invertible_complex_thm lsm lsq x P Q lag a b rho z). Qed.

Theorem ma_invertible_C (x : list C) (Q M : nat) (b : list C) (rho : C) (z : C) :
  (exists n, (n < length x)%nat /\ nthF (OF:=c_ops) x n <> RtoC 0) ->
  ma (OF:=c_ops) x Q M = inr (b, rho) ->
  sumf (OF:=c_ops) (S Q) (fun j => Cmult (afun (OF:=c_ops) b j) (fpow (OF:=c_ops) z (Q - j))) = RtoC 0 ->
  (Cmod z < 1)%R.
Proof. exact (ma_invertible_C_thm x Q M b rho z). Qed.

Print Assumptions ma_lengths.
Print Assumptions ma_returns.
Print Assumptions ma_errors.
Print Assumptions arma_lengths.
Print Assumptions arma_returns.
Print Assumptions arma_returns_iff.
Print Assumptions arma_ar_is_myw_ls.
Print Assumptions arma_residual_filter.
Print Assumptions class_psd_from_exposed.
Print Assumptions ma_valid.
Print Assumptions arma_rho_pos.
Print Assumptions ma_invertible.
Print Assumptions arma_ma_invertible.
Print Assumptions ma_grid_nonzero.
Print Assumptions class_psd_pos.
Print Assumptions pma_psd_pos.
Print Assumptions pyule_psd_pos.
Print Assumptions pburg_psd_pos.
Print Assumptions parma_psd_pos.
Print Assumptions ma_invertible_ext.
Print Assumptions arma_ma_invertible_ext.
Print Assumptions ma_invertible_complex.
Print Assumptions arma_ma_invertible_complex.
Print Assumptions ma_invertible_C.
