(* placeholder, filled below *)
Require Import Spectrum.Model.ArmaEst.
