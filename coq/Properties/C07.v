(* C07 — the PSD attribute is never stale.

   The decisive theorems of C07 are about the machine GENERATED from psd.py and the estimator classes of the
   snapshot; they are re-proved by coqc on every run of ./check C07 (tools/props/_c07_proofs.py):
     inv_init_<class>, inv_step_<class> (every operation), inv_reachable_<class> (all histories, any length),
     read_is_fresh, df_consistent, freq_len_psd, reassign_idempotent_<setter>.
   This file holds what is independent of the source: the generic theorems over the combinator prelude
   (Model/PsdMachineLib.v), proved once.

   PROVED here (for every class mask m, every machine):
     c07_reachable        an invariant preserved by every operation holds after every history (induction on the history)
     c07_df               Inv  =>  the frequency step of the range is sampling / NFFT
     c07_cache_fresh      Inv  =>  a stored PSD whose flag is clear IS the estimate of the current attribute values,
                          in the layout `sides` names, with the length of that frequency axis
     c07_after_call       an explicit computation establishes the invariant with a fresh cache
     c07_std_read_fresh   with the reference lazy getter a read returns the fresh estimate
     c07_same_estimate    equal attribute snapshots give the same estimate (used by reassign_idempotent)
   NOT PROVED (by design of the abstraction): anything about the numerical content of the estimate
   (recompute is uninterpreted), and that a side conversion of the true spectrum is the true spectrum in the
   other layout (that is C06); both are covered by the replay tie against freshly constructed objects. *)
From Coq Require Import List ZArith Bool String QArith Qcanon.
Require Import Spectrum.Model.PsdMachineLib Spectrum.Proofs.PsdMachineTheory.
Import ListNotations.
Local Open Scope Z_scope.

Theorem c07_reachable (m : mask) (O : Type) (step : St -> O -> St) :
  (forall s o, Inv m s -> Inv m (step s o)) -> forall s ops, Inv m s -> Inv m (fold_left step ops s).
Proof. exact (inv_reachable_gen m O step). Qed.

Theorem c07_df (m : mask) (s : St) : Inv m s -> f_range_df s = VQuot (f_sampling s) (f_NFFT s).
Proof. exact (inv_df m s). Qed.

Theorem c07_cache_fresh (m : mask) (s : St) :
  Inv m s -> f_cache s <> VNone -> f_modified s = VBool false ->
  f_cache s = target m s /\ vlen (target m s) = VInt (flen (f_sides s) (nfft_of s)).
Proof. exact (fun H Hn Hm => conj (inv_fresh_cache m s H Hn Hm) (target_len m s)). Qed.

Theorem c07_after_call (m : mask) (s : St) :
  Inv m s -> Inv m (after_call m s) /\ f_cache (after_call m s) = target m (after_call m s)
             /\ f_modified (after_call m s) = VBool false.
Proof. exact (after_call_inv m s). Qed.

Theorem c07_std_read_fresh (m : mask) (call_ : St -> Res) (s : St) :
  CallSpec m call_ -> Inv m s -> exists s', std_getPSD call_ s = (s', Ok (target m s')) /\ Inv m s'.
Proof. exact (std_read_is_fresh m call_ s). Qed.

Theorem c07_same_estimate (m : mask) (s1 s2 : St) :
  msnap m s1 = msnap m s2 -> scaled_of s1 = scaled_of s2 -> same_estimate (target m s1) (target m s2).
Proof. exact (same_estimate_target m s1 s2). Qed.

(* non-vacuity: a concrete object state (real data of length 20, NFFT 32, one-sided, nothing stored) satisfies the
   invariant, and after a computation its cache is the 17-bin one-sided estimate *)
Definition ex_mask : mask := mkMask true false true true false false true false false true false.
Definition ex_state : St :=
  mkSt (VData (mkD 0 20 true false)) VNone (VNum (Q2Qc 1)) VNone (VBool false) S_one (VInt 20) (VInt 32) VNone (VStr "real")
       VNone VNone (VBool true) (VBool true) (VInt 32) (VNum (Q2Qc 1)) (VQuot (VNum (Q2Qc 1)) (VInt 32)) VNone VNone (VInt 3) VNone.
Example ex_inv : Inv ex_mask ex_state.
Proof.
  constructor; [constructor|..]; cbn; try reflexivity.
  - exists (mkD 0 20 true false). cbn. auto.
  - exists 32. split; [reflexivity | reflexivity].
  - exists true. reflexivity.
  - left. reflexivity.
  - left. reflexivity.
Qed.
Example ex_after_call_len : vlen (f_cache (after_call ex_mask ex_state)) = VInt 17.
Proof. vm_compute. reflexivity. Qed.

Print Assumptions c07_reachable.
Print Assumptions c07_df.
Print Assumptions c07_cache_fresh.
Print Assumptions c07_after_call.
Print Assumptions c07_std_read_fresh.
Print Assumptions c07_same_estimate.
