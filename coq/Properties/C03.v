(* C03 — Estimates are quadratic in signal amplitude.  Statements only.

   PROVED (abstract ordered *-field, every length / order / lag / NFFT; c any non-zero scalar, |c|^2 := nrm2 c):
     acorr_scale        autocorrelation estimates (biased, unbiased, unnormalised) are multiplied by |c|^2,
                        the 'coeff' normalisation is invariant
     levinson_scale     LEVINSON(s*r) = (a, s*P, k) for every positive real s (same coefficients, same
                        reflection coefficients, same raise/no-raise decision)
     arburg_scale       arburg(c*x) = (a, |c|^2 rho, k) with ANY homogeneous order-selection rule: same AR
                        vector, same reflection coefficients, same selected order, same raise decision
     fpe_homogeneous    the FPE rule is homogeneous
     periodogram_scale, periodogram2d_scale   speriodogram(c*x) = |c|^2 speriodogram(x): every bin, all flag values (detrend,
                        scale_by_freq), every NFFT (cropping / padding), real and complex layout, 1-D and 2-D input; ANY c
     periodogram_class_scale   the Periodogram object built from c*x, after the same sequence of operations (__call__, psd reads,
                        window assignments), is the object built from x with its stored psd multiplied by |c|^2
     correlogram_scale  CORRELOGRAMPSD(c*X, c*Y) = |c|^2 CORRELOGRAMPSD(X, Y) (auto / cross, both back ends, every lag / window /
                        NFFT, same error branches); norm='coeff' is invariant
     aryule_scale, pyule_ar_scale   aryule(c*x) = (a, |c|^2 P, k), same error branch (= LEVINSON o CORRELATION composed)
     lpc_scale          lpc(c*x) = (a, |c|^2 e)
     corrmtx_rowscaled  the 'covariance' / 'modified' data matrix of c*x is the one of x with each row multiplied by c or conj c
     ls_normal_eqs_scale   lstsq SPECIFICATION: a solves the normal equations of lstsq(-Xc, X1) for x  <->  for c*x
     ls_solve_scale     the executable solver returns the same vector on both
     ls_scale           ar_ls with ANY two solvers that agree on the two systems: same a, e multiplied by |c|^2, the RELATIVE
                        imaginary-part assertion takes the same branch
     arcovar_scale, modcovar_scale, pcovar_rho_scale, pmodcovar_rho_scale   the four callers (rho = variance handed to arma2psd)
     minvar_den_scale   real(fft(psi)) of minvar is divided by |c|^2
     minvar_scale       minvar(c*x) = (|c|^2 PSD, A, k) when no bin of real(fft(psi)) is 0 (the code's division);
     minvar_scale_grid  ... which holds by itself on a proper grid NFFT >= 2*order-1 (Capon sums are positive)
     mtm_step_invariant one adaptive pass is invariant under (Sk, S, sig2) -> s*(Sk, S, sig2) (weights identical, new S multiplied by s)
     mtm_stop_homogeneous   the stopping test is homogeneous
     mtm_weights_invariant  pmtm(c*x) = (c * eigenspectra, SAME weights, same eigenvalues): 'unity', 'eigen' unconditionally,
                        'adapt' for EVERY pass bound (fuel) when the unscaled run is regular;  mtm_passes_invariant: same pass count;
                        mtm_pmtm_scale (with the dpss oracle and the argument checks), mtm_class_scale: MultiTapering psd times |c|^2
     mtm_regular_natural    regularity holds by itself under the method's natural conditions (sig2 > 0, 0 < lambda_j <= 1, S0 <> 0)
     fb_matrix_scale, svd_spec_scale   FB(c*x) rows = c / conj c times rows of FB(x); if (S, Vh) meets the SVD specification for
                        FB(x) then (m*S, Vh) meets it for FB(c*x), m > 0 with m*m = |c|^2 (m stands for |c|)
     eigen_decisions_invariant   eigen_nsig (threshold rule, argument checks, every error branch) is the same on m*S and S
     music_invariant    MUSIC pseudo-spectrum unchanged, returned singular values times m
     ev_den_scale, ev_scales, ev_scales_bin   EV denominators divided by m (floor max(S_I, eps S_0) scales by m); EV pseudo-spectrum
                        times m (list level when no denominator bin is 0, bin by bin otherwise)
     pclass_scale       pmusic / pev objects (real / complex layout, scale_by_freq)
     class_scale_every_table   for EVERY pipeline table: stored PSD (k * functional result) = k * stored PSD (functional result)
     class_arma_scale   AR / MA / ARMA classes: arma2psd(s*rho) at T = sampling and the stored PSD are multiplied by s
     ma_scale           arma.ma (C15's model Model/ArmaEst.v: aryule twice): ma(c*x) = (same MA coefficients, |c|^2 rho), same exception;
                        guard: the data are not identically zero (then no Levinson stage divides by zero)
     arma_estimate_scale_solvers   arma_estimate(c*x) = (same AR, same MA, |c|^2 rho), same exception (AssertionError / ValueError /
                        IndexError in the order of the code), for EVERY P, Q, lag and ANY two pairs of covariance-method oracles that
                        return the same coefficients on the two systems they are handed (the system of c*x is |c|^2 times the system
                        of x; only the [0:P] slice of arcovar_marple's output is compared); guard: the residual handed to ma is not
                        identically zero (the hypothesis of C15's arma_rho_pos)
     arma_estimate_scale   the same for one pair of oracles that do not see a common non-zero factor of their input [ls_homogeneous]
     ls_cov_homogeneous    ... which the executable solver of Model/Ls.v (arcovar: corrmtx + Gaussian elimination on the normal
                        equations with exact zero tests) is, unconditionally
     ls_exact_homogeneous  ... and which the oracles of C15's correspondence run (ls_exact / lsm_exact: elimination without
                        pivoting, no zero tests) are whenever no pivot is zero; arma_estimate_exact_scale: arma_estimate with them
     arma_class_call_scale  ArmaEst.class_call (what parma / pma / pyule / pburg / pcovar / pmodcovar __call__ hand to arma2psd and
                        store): v -> s*v gives the same stored ar / ma, s*rho, s*psd (real and complex layout, scale_by_freq)
     parma_scale_solvers, parma_scale, pma_scale   parma.__call__ / pma.__call__ = estimator then class pipeline (Model/ArmaCall.v):
                        the object built from c*x stores the same ar / ma, |c|^2 rho and |c|^2 times the PSD, or raises the same exception
   PROVED over the GENERATED table (tools/props/_pipelines.py, recompiled from the snapshot on every run by tools/props/C03.py
   through ctx.check_generated): class_scale (instance for every class of the snapshot), class_estimator_routing (which
   parameter / functional estimator each class calls), model_classes_rho_routed (every AR / MA / ARMA class hands the
   estimated variance, not the default 1, to arma2psd and meets the hypotheses of class_arma_scale).
   PROVED (standard-library reals):
     log_criteria_homogeneous   the comparisons made by AIC, AICc, KIC, AKICc, MDL between two orders do not
                        depend on a common positive factor of rho (hence those rules are homogeneous as long
                        as the order-0 reference is the criterion's own value)
     eigen_criteria_shift, eigen_criteria_order   aic_eigen / mdl_eigen exactly as coded (criteria.py): s -> m*s adds the same constant
                        (2 N ln m, N ln m) to every entry, so every comparison made by numpy.argmin -- the subspace dimension chosen by
                        eigen() under criteria='aic'/'mdl' -- is unchanged (formula-level model over the reals, positive singular values)
     daniell_smooth_scale, daniell_scale   DaniellPeriodogram (Model/Daniell.v, tied here by exact and binary64 correspondence): the
                        smoother is linear in the bins, hence DaniellPeriodogram(c*x) = |c|^2 DaniellPeriodogram(x) for ANY c, every P, NFFT,
                        window, detrend / scale_by_freq value, real and complex layout (pdaniell stores that array as it is: class_scale)
   NOT PROVED here (search on the implementation only): arcovar_marple / modcovar_marple recursions
   (in arma_estimate they enter as the oracle [lsm]: the theorem assumes that arcovar_marple, like any solver of the normal
   equations of a full-rank system, does not see a common factor of its input); the link between the real-number model of aic_eigen / mdl_eigen
   (eigen_criteria_shift, eigen_criteria_order) and the oracle argument [amin] of the Eigen model is by inspection;
   that numpy's svd / lstsq return related factorisations for x and c*x (the theorems
   are over their specifications); rounding. *)
From Coq Require Import Reals Lra QArith Qcanon String.
Require Import Spectrum.Proofs.CriteriaR Spectrum.Proofs.CriteriaEigenR_C03.
Require Import Spectrum.Model.ArmaEst Spectrum.Model.ArmaCall.   (* before Yule / Arma2psd / Eigen: their aryule, arma2psd, pclass stay the unqualified ones *)
Require Import Spectrum.Theory.Ops Spectrum.Theory.Sum Spectrum.Theory.Vec Spectrum.Theory.Order Spectrum.Theory.Dft
               Spectrum.Model.Levinson Spectrum.Model.Burg Spectrum.Model.Corr Spectrum.Model.Periodogram
               Spectrum.Model.Yule Spectrum.Model.Ls Spectrum.Model.Minvar Spectrum.Model.Mtm Spectrum.Model.Eigen
               Spectrum.Model.Arma2psd Spectrum.Model.PipelineLib
               Spectrum.Proofs.ScaleTheory Spectrum.Proofs.CovarTheory Spectrum.Proofs.EigenTheory Spectrum.Proofs.Arma2psdTheory
               Spectrum.Proofs.ScalePeriodogram_C03 Spectrum.Proofs.ScaleYule_C03 Spectrum.Proofs.ScaleLs_C03
               Spectrum.Proofs.ScaleMinvar_C03 Spectrum.Proofs.ScaleMtm_C03 Spectrum.Proofs.ScaleEigen_C03
               Spectrum.Proofs.ScaleClass_C03 Spectrum.Proofs.MtmExample
               Spectrum.Proofs.ArmaEstNondeg Spectrum.Proofs.ScaleArma_C03 Spectrum.Model.Daniell Spectrum.Proofs.ScaleDaniell_C03
               Spectrum.Instances.QcC Spectrum.Instances.QcCOrd Spectrum.Instances.QcCTw.

Section C03.
Context {F : Type} {OF : Ops F} {L : Laws OF} {OL : OrdLaws OF}.
Local Open Scope F_scope.

Theorem acorr_scale c (x : list F) ml nm : c <> 0 -> (nm = Coeff -> mean_pow x <> 0) ->
  acorr (vscale c x) ml nm
  = match acorr x ml nm with
    | None => None
    | Some r => Some (match nm with Coeff => r | _ => vscale (nrm2 c) r end)
    end.
Proof. exact (acorr_scale_thm c x ml nm). Qed.

Theorem levinson_scale s (r : list F) p allow : pos s ->
  lev_nonsingular (tl r) allow (re (nthF r O)) p ->
  levinson (vscale s r) p allow = option_map (scaleP s) (levinson r p allow).
Proof. exact (levinson_scale_thm s r p allow). Qed.

Theorem arburg_scale c stop (x : list F) p : c <> 0 -> stop_homogeneous stop -> burg_nondeg stop x p ->
  arburg (vscale c x) p stop
  = match arburg x p stop with None => None | Some (a, rho, k) => Some (a, nrm2 c * rho, k) end.
Proof. exact (arburg_scale_thm c stop x p). Qed.

Theorem fpe_homogeneous N (gt : F -> F -> bool) :
  (forall s a b, pos s -> gt (s * a) (s * b) = gt a b) -> stop_homogeneous (fpe_stop N gt).
Proof. exact (fpe_stop_homogeneous N gt). Qed.

(* ---------------- periodogram / correlogram ---------------- *)
Theorem periodogram_scale tw twopi c (x w : list F) NFFT isreal dt sbf fs :
  speriodogram tw twopi (vscale c x) w NFFT isreal dt sbf fs
  = vscale (nrm2 c) (speriodogram tw twopi x w NFFT isreal dt sbf fs).
Proof. exact (periodogram_scale_thm tw twopi c x w NFFT isreal dt sbf fs). Qed.

Theorem periodogram2d_scale tw twopi c (X : list (list F)) ncol (w : list F) NFFT isreal dt sbf fs :
  speriodogram2d tw twopi (map (vscale c) X) ncol w NFFT isreal dt sbf fs
  = map (vscale (nrm2 c)) (speriodogram2d tw twopi X ncol w NFFT isreal dt sbf fs).
Proof. exact (periodogram2d_scale_thm tw twopi c X ncol w NFFT isreal dt sbf fs). Qed.

Theorem periodogram_class_scale tw twopi c (data : list F) isreal wname w fs a dt sbf (ops : list pop) :
  fold_left (p_step tw twopi) ops (p_init (vscale c data) isreal wname w fs a dt sbf)
  = pstate_scale c (fold_left (p_step tw twopi) ops (p_init data isreal wname w fs a dt sbf)).
Proof. exact (periodogram_class_scale_thm tw twopi c data isreal wname w fs a dt sbf ops). Qed.

Theorem correlogram_scale tw c rp (x : list F) (y : option (list F)) lag (wfull : list F) NFFT nm be :
  (nm = Coeff -> c <> 0 /\ rp <> 0) ->
  correlogram tw (nrm2 c * rp) (vscale c x) (option_map (vscale c) y) lag wfull NFFT nm be
  = option_map (vscale (cfac nm c)) (correlogram tw rp x y lag wfull NFFT nm be).
Proof. exact (correlogram_scale_thm tw c rp x y lag wfull NFFT nm be). Qed.

(* ---------------- Yule-Walker, lpc ---------------- *)
Theorem aryule_scale c (x : list F) order nm allow : c <> 0 -> yule_nondeg x order nm allow ->
  aryule (vscale c x) order nm allow = yw_scale (nrm2 c) (aryule x order nm allow).
Proof. exact (aryule_scale_thm c x order nm allow). Qed.

Theorem pyule_ar_scale c (x : list F) order nm : c <> 0 -> yule_nondeg x order nm true ->
  pyule_ar (vscale c x) order nm = yw_scale (nrm2 c) (pyule_ar x order nm).
Proof. exact (pyule_ar_scale_thm c x order nm). Qed.

Theorem lpc_scale c (x : list F) N : c <> 0 -> lpc_nondeg x N ->
  lpc (vscale c x) N = option_map (fun ae => (fst ae, nrm2 c * snd ae)) (lpc x N).
Proof. exact (lpc_scale_thm c x N). Qed.

(* ---------------- covariance / modified covariance ---------------- *)
Theorem corrmtx_rowscaled c (x : list F) p meth : meth = MCovariance \/ meth = MModified ->
  RowScaled (nrm2 c) (corrmtx x p meth) (corrmtx (vscale c x) p meth).
Proof. exact (corrmtx_rowscaled_thm c x p meth). Qed.

Theorem ls_normal_eqs_scale s (X X' : list (list F)) p a : RowScaled s X X' -> s <> 0 ->
  normal_eqs p (mneg (cols1 X')) (col0 X') a <-> normal_eqs p (mneg (cols1 X)) (col0 X) a.
Proof. exact (fun H => normal_eqs_scale s X X' H p a). Qed.

Theorem ls_solve_scale s (X X' : list (list F)) p : RowScaled s X X' -> s <> 0 ->
  ls_solve p (mneg (cols1 X')) (col0 X') = ls_solve p (mneg (cols1 X)) (col0 X).
Proof. exact (fun H H0 => ScaleLs_C03.ls_solve_scale s X X' H H0 p). Qed.

Theorem ls_scale (lstsq lstsq' : lstsq_t) meth c tol (x : list F) p : c <> 0 ->
  meth = MCovariance \/ meth = MModified ->
  (let X := corrmtx x p meth in let X' := corrmtx (vscale c x) p meth in
   lstsq' p (mneg (cols1 X')) (col0 X') = lstsq p (mneg (cols1 X)) (col0 X)) ->
  ar_ls lstsq' tol (corrmtx (vscale c x) p meth) p = ae_scale (nrm2 c) (ar_ls lstsq tol (corrmtx x p meth) p).
Proof. exact (covar_with_scale_thm lstsq lstsq' meth c tol x p). Qed.

Theorem arcovar_scale c tol (x : list F) p : c <> 0 ->
  arcovar tol (vscale c x) p = ae_scale (nrm2 c) (arcovar tol x p).
Proof. exact (arcovar_scale_thm c tol x p). Qed.

Theorem modcovar_scale c tol (x : list F) p : c <> 0 ->
  modcovar tol (vscale c x) p = ae_scale (nrm2 c) (modcovar tol x p).
Proof. exact (modcovar_scale_thm c tol x p). Qed.

Theorem pcovar_rho_scale c tol (x : list F) p : c <> 0 ->
  pcovar_rho tol (vscale c x) p = ae_scale (nrm2 c) (pcovar_rho tol x p).
Proof. exact (pcovar_rho_scale_thm c tol x p). Qed.

Theorem pmodcovar_rho_scale c tol (x : list F) p : c <> 0 ->
  pmodcovar_rho tol (vscale c x) p = ae_scale (nrm2 c) (pmodcovar_rho tol x p).
Proof. exact (pmodcovar_rho_scale_thm c tol x p). Qed.

(* ---------------- minimum variance ---------------- *)
Theorem minvar_den_scale tw s m nfft (a : list F) P : pos s -> P <> 0 ->
  minvar_den tw m nfft a (s * P) = vscale (inv s) (minvar_den tw m nfft a P).
Proof. exact (minvar_den_scale_thm tw s m nfft a P). Qed.

Theorem minvar_scale tw c (x : list F) m sampling nfft : c <> 0 ->
  burg_nondeg no_stop x (m - 1) -> minvar_regular tw x m nfft ->
  minvar tw (vscale c x) m sampling nfft = mv_scale (nrm2 c) (minvar tw x m sampling nfft).
Proof. exact (minvar_scale_thm tw c x m sampling nfft). Qed.

Theorem minvar_scale_grid nfft (tw : Z -> F) (T : Twiddle nfft tw) c (x : list F) m sampling : c <> 0 ->
  (2 * m - 1 <= nfft)%nat -> burg_nondeg no_stop x (m - 1) ->
  minvar tw (vscale c x) m sampling nfft = mv_scale (nrm2 c) (minvar tw x m sampling nfft).
Proof. exact (minvar_scale_grid_thm nfft tw c x m sampling). Qed.

(* ---------------- multitaper ---------------- *)
Theorem mtm_step_invariant s (Sk : list (list F)) ev s2 nfft st : s <> 0 -> ad_regular ev s2 nfft st ->
  ad_step (map (vscale s) Sk) ev (s * s2) nfft (ad_scale s st) = ad_scale s (ad_step Sk ev s2 nfft st).
Proof. exact (ad_step_scale_thm s Sk ev s2 nfft st). Qed.

Theorem mtm_stop_homogeneous s nfft tol (st : ad_st) : pos s -> conj tol = tol ->
  (forall k, (k < nfft)%nat -> conj (nthF (ad_S st) k - nthF (ad_S1 st) k) = nthF (ad_S st) k - nthF (ad_S1 st) k) ->
  ad_continue nfft (s * tol) (ad_scale s st) = ad_continue nfft tol st.
Proof. exact (ad_continue_scale_thm s nfft tol st). Qed.

Theorem mtm_weights_invariant fuel tw tapers c (ev x : list F) nfft m : c <> 0 -> method_regular tw tapers ev x nfft m ->
  pmtm_core fuel tw tapers ev (vscale c x) nfft m = pm_scale c (pmtm_core fuel tw tapers ev x nfft m).
Proof. exact (pmtm_core_scale_thm fuel tw tapers c ev x nfft m). Qed.

Theorem mtm_passes_invariant fuel tw tapers c (ev x : list F) nfft : c <> 0 -> adapt_regular tw tapers ev x nfft ->
  ad_i (adapt_run fuel (eigenspectra tw tapers (vscale c x) nfft) ev (vscale c x) nfft)
  = ad_i (adapt_run fuel (eigenspectra tw tapers x nfft) ev x nfft).
Proof. exact (adapt_passes_scale_thm fuel tw tapers c ev x nfft). Qed.

Theorem mtm_pmtm_scale {NWT : Type} (dpss : nat -> NWT -> option nat -> list (list F) * list F)
  fuel tw c (x : list F) NW k nfft e v m : c <> 0 ->
  pmtm_regular dpss tw x NW k (match nfft with Some n => n | None => pmtm_default_nfft (length x) end) e v m ->
  pmtm dpss fuel tw (vscale c x) NW k nfft e v m = option_map (pm_scale c) (pmtm dpss fuel tw x NW k nfft e v m).
Proof. exact (pmtm_scale_thm dpss fuel tw c x NW k nfft e v m). Qed.

Theorem mtm_class_scale {NWT : Type} (dpss : nat -> NWT -> option nat -> list (list F) * list F)
  fuel tw isr c (x : list F) NW k nfft e v m sbf sc : c <> 0 ->
  pmtm_regular dpss tw x NW k (match nfft with Some n => n | None => length x end) e v m ->
  mt_call dpss fuel tw isr (vscale c x) NW k nfft e v m sbf sc
  = option_map (vscale (nrm2 c)) (mt_call dpss fuel tw isr x NW k nfft e v m sbf sc).
Proof. exact (mt_call_scale_thm dpss fuel tw isr c x NW k nfft e v m sbf sc). Qed.

Theorem mtm_regular_natural tw tapers (ev x : list F) nfft :
  (1 <= nfft)%nat -> (1 <= length ev)%nat -> pos (sig2 x) ->
  (forall j, (j < length ev)%nat -> pos (nthF ev j) /\ le (nthF ev j) 1) ->
  (forall k, (k < nfft)%nat -> nthF (ad_S0 (powspec (eigenspectra tw tapers x nfft)) (length ev) nfft) k <> 0) ->
  adapt_regular tw tapers ev x nfft.
Proof. exact (adapt_regular_natural_thm tw tapers ev x nfft). Qed.

(* ---------------- MUSIC / EV over the SVD specification ---------------- *)
Theorem fb_matrix_scale c (x : list F) P r k :
  mat (fb_matrix (vscale c x) P) r k = fb_fac c x P r * mat (fb_matrix x P) r k /\ nrm2 (fb_fac c x P r) = nrm2 c.
Proof. exact (Logic.conj (fb_matrix_scale_thm c x P r k) (fb_fac_nrm2 c x P r)). Qed.

Theorem svd_spec_scale c m (x : list F) rows P S Vh : pos m -> m * m = nrm2 c ->
  svd_spec (fb_matrix x P) rows P S Vh -> svd_spec (fb_matrix (vscale c x) P) rows P (vscale m S) Vh.
Proof. exact (svd_spec_scale_thm c m x rows P S Vh). Qed.

Theorem eigen_decisions_invariant m meth nsig thr crit amin N P NFFT (S : list F) : pos m ->
  (forall I, conj (nthF S I) = nthF S I) -> thr_real thr ->
  eigen_nsig meth nsig thr crit amin N P NFFT (vscale m S) = eigen_nsig meth nsig thr crit amin N P NFFT S.
Proof. exact (eigen_nsig_scale_thm m meth nsig thr crit amin N P NFFT S). Qed.

Theorem music_invariant eps nsig thr crit amin tw NFFT c m (x : list F) P S Vh : pos m ->
  (forall I, conj (nthF S I) = nthF S I) -> thr_real thr ->
  music eps nsig thr crit amin tw NFFT (vscale c x) P (vscale m S) Vh
  = match music eps nsig thr crit amin tw NFFT x P S Vh with inl e => inl e | inr (psd, ev) => inr (psd, vscale m ev) end.
Proof. exact (music_invariant_thm eps nsig thr crit amin tw NFFT c m x P S Vh). Qed.

Theorem ev_den_scale m eps tw NFFT P (S : list F) Vh ns : pos m ->
  (forall J, conj (nthF S J) = nthF S J) -> pos eps -> pos (nthF S 0) ->
  pseudo_den MEv eps tw NFFT P (vscale m S) Vh ns = vscale (inv m) (pseudo_den MEv eps tw NFFT P S Vh ns).
Proof. exact (ev_den_scale_thm m eps tw NFFT P S Vh ns). Qed.

Theorem ev_scales eps nsig thr crit amin tw NFFT c m (x : list F) P S Vh : pos m ->
  (forall I, conj (nthF S I) = nthF S I) -> thr_real thr ->
  eig_regular MEv eps nsig thr crit amin tw NFFT (length x) P S Vh ->
  ev eps nsig thr crit amin tw NFFT (vscale c x) P (vscale m S) Vh
  = match ev eps nsig thr crit amin tw NFFT x P S Vh with inl e => inl e | inr (psd, sv) => inr (vscale m psd, vscale m sv) end.
Proof. exact (ev_scales_thm eps nsig thr crit amin tw NFFT c m x P S Vh). Qed.

Theorem ev_scales_bin m eps tw NFFT P (S : list F) Vh ns k : pos m ->
  (forall J, conj (nthF S J) = nthF S J) -> pos eps -> pos (nthF S 0) -> (k < NFFT)%nat ->
  nthF (pseudo_den MEv eps tw NFFT P S Vh ns) k <> 0 ->
  nthF (pseudo MEv eps tw NFFT P (vscale m S) Vh ns) k = m * nthF (pseudo MEv eps tw NFFT P S Vh ns) k.
Proof. exact (ev_pseudo_scale_bin_thm m eps tw NFFT P S Vh ns k). Qed.

Theorem pclass_scale meth eps isr scale nsig thr crit amin tw NFFT c m (x : list F) P S Vh : pos m ->
  (forall I, conj (nthF S I) = nthF S I) -> thr_real thr ->
  eig_regular meth eps nsig thr crit amin tw NFFT (length x) P S Vh ->
  pclass meth eps isr scale nsig thr crit amin tw NFFT (vscale c x) P (vscale m S) Vh
  = eig_scale meth m (pclass meth eps isr scale nsig thr crit amin tw NFFT x P S Vh).
Proof. exact (pclass_scale_thm meth eps isr scale nsig thr crit amin tw NFFT c m x P S Vh). Qed.

(* ---------------- class level ---------------- *)
Theorem class_scale_every_table (twopi : F) md p real sbf (st : sstate) (k : F) (Sp : list F) :
  stored twopi md p real sbf st (vscale k Sp) = vscale k (stored twopi md p real sbf st Sp).
Proof. exact (stored_homogeneous_thm twopi md p real sbf st k Sp). Qed.

Theorem class_arma_scale (twopi : F) (tw : Z -> F) md (p : pipeline) real sbf (st : sstate) A B rho s S1 :
  p_fsamp p = UseDiv -> p_samp p = SampSelf -> p_fscale p = FsNone ->
  isreal (st_sampling st) -> st_sampling st <> 0 -> isreal s ->
  arma2psd tw A B rho 1 (st_NFFT st) SidesDefault false = Some S1 ->
  arma2psd tw A B (s * rho) (st_sampling st) (st_NFFT st) SidesDefault false
    = Some (fresult twopi p sbf (st_sampling st) (st_NFFT st) (vscale s S1))
  /\ stored twopi md p real sbf st (vscale s S1) = vscale s (stored twopi md p real sbf st S1).
Proof. exact (class_arma_scale_thm twopi tw md p real sbf st A B rho s S1). Qed.

(* ---------------- arma.ma, arma.arma_estimate, parma / pma (the model of C15) ---------------- *)
Theorem ma_scale c (x : list F) Q M : c <> 0 ->
  (forall b rho, ArmaEst.ma x Q M = inr (b, rho) -> nonzero_data x) ->
  ArmaEst.ma (vscale c x) Q M = ma_scaled (nrm2 c) (ArmaEst.ma x Q M).
Proof. exact (ma_scale_thm c x Q M). Qed.

Theorem arma_estimate_scale_solvers (lsm lsq lsm' lsq' : list F -> nat -> list F) c (x : list F) P Q lag : c <> 0 ->
  (forall r, acorr x lag Unbiased = Some r ->
     firstn P (lsm' (vscale (nrm2 c) (arma_y r P Q lag)) P) = firstn P (lsm (arma_y r P Q lag) P)
     /\ lsq' (vscale (nrm2 c) (arma_y r P Q lag)) P = lsq (arma_y r P Q lag) P) ->
  (forall a b rho, arma_estimate lsm lsq x P Q lag = inr (a, b, rho) -> nonzero_data (arma_resid x a P)) ->
  arma_estimate lsm' lsq' (vscale c x) P Q lag
  = match arma_estimate lsm lsq x P Q lag with inl e => inl e | inr (a, b, rho) => inr (a, b, nrm2 c * rho) end.
Proof. exact (arma_estimate_scale_gen lsm lsq lsm' lsq' c x P Q lag). Qed.

Theorem arma_estimate_scale (lsm lsq : list F -> nat -> list F) c (x : list F) P Q lag : c <> 0 ->
  (forall s y p, s <> 0 -> firstn p (lsm (vscale s y) p) = firstn p (lsm y p) /\ lsq (vscale s y) p = lsq y p) ->
  (forall a b rho, arma_estimate lsm lsq x P Q lag = inr (a, b, rho) -> nonzero_data (arma_resid x a P)) ->
  arma_estimate lsm lsq (vscale c x) P Q lag
  = match arma_estimate lsm lsq x P Q lag with inl e => inl e | inr (a, b, rho) => inr (a, b, nrm2 c * rho) end.
Proof. exact (arma_estimate_scale_thm lsm lsq c x P Q lag). Qed.

Theorem ls_cov_homogeneous tol s (y : list F) p : s <> 0 ->
  firstn p (lsm_cov tol (vscale s y) p) = firstn p (lsm_cov tol y p) /\ lsq_cov tol (vscale s y) p = lsq_cov tol y p.
Proof. exact (ScaleArma_C03.ls_cov_homogeneous tol s y p). Qed.

Theorem ls_exact_homogeneous s (y : list F) p : s <> 0 -> ls_exact_regular y p ->
  lsm_exact (vscale s y) p = lsm_exact y p /\ ls_exact (vscale s y) p = ls_exact y p.
Proof. exact (fun Hs Hr => Logic.conj (lsm_exact_scale s y p Hs Hr) (ls_exact_scale s y p Hs Hr)). Qed.

Theorem arma_estimate_exact_scale c (x : list F) P Q lag : c <> 0 ->
  (forall r, acorr x lag Unbiased = Some r -> ls_exact_regular (arma_y r P Q lag) P) ->
  (forall a b rho, arma_estimate lsm_exact ls_exact x P Q lag = inr (a, b, rho) -> nonzero_data (arma_resid x a P)) ->
  arma_estimate lsm_exact ls_exact (vscale c x) P Q lag
  = match arma_estimate lsm_exact ls_exact x P Q lag with inl e => inl e | inr (a, b, rho) => inr (a, b, nrm2 c * rho) end.
Proof. exact (arma_estimate_exact_scale_thm c x P Q lag). Qed.

Theorem arma_class_call_scale tw cl (ar ma : list F) s v N order twopi sampling NFFT real sbf :
  class_call tw cl ar ma (s * v) N order twopi sampling NFFT real sbf
  = match class_call tw cl ar ma v N order twopi sampling NFFT real sbf with
    | inl e => inl e
    | inr e => inr (mkExposed (x_ar e) (x_ma e) (option_map (fun r => s * r) (x_rho e)) (vscale s (x_psd e)))
    end.
Proof. exact (class_call_scale_thm tw cl ar ma s v N order twopi sampling NFFT real sbf). Qed.

Theorem parma_scale_solvers tw (lsm lsq lsm' lsq' : list F -> nat -> list F) c (x : list F) P Q lag twopi sampling NFFT real sbf : c <> 0 ->
  (forall r, acorr x lag Unbiased = Some r ->
     firstn P (lsm' (vscale (nrm2 c) (arma_y r P Q lag)) P) = firstn P (lsm (arma_y r P Q lag) P)
     /\ lsq' (vscale (nrm2 c) (arma_y r P Q lag)) P = lsq (arma_y r P Q lag) P) ->
  (forall a b rho, arma_estimate lsm lsq x P Q lag = inr (a, b, rho) -> nonzero_data (arma_resid x a P)) ->
  parma_call tw lsm' lsq' (vscale c x) P Q lag twopi sampling NFFT real sbf
  = call_scaled (nrm2 c) (parma_call tw lsm lsq x P Q lag twopi sampling NFFT real sbf).
Proof. exact (parma_scale_gen tw lsm lsq lsm' lsq' c x P Q lag twopi sampling NFFT real sbf). Qed.

Theorem parma_scale tw (lsm lsq : list F -> nat -> list F) c (x : list F) P Q lag twopi sampling NFFT real sbf : c <> 0 ->
  (forall s y p, s <> 0 -> firstn p (lsm (vscale s y) p) = firstn p (lsm y p) /\ lsq (vscale s y) p = lsq y p) ->
  (forall a b rho, arma_estimate lsm lsq x P Q lag = inr (a, b, rho) -> nonzero_data (arma_resid x a P)) ->
  parma_call tw lsm lsq (vscale c x) P Q lag twopi sampling NFFT real sbf
  = call_scaled (nrm2 c) (parma_call tw lsm lsq x P Q lag twopi sampling NFFT real sbf).
Proof. exact (parma_scale_thm tw lsm lsq c x P Q lag twopi sampling NFFT real sbf). Qed.

Theorem pma_scale tw c (x : list F) Q M twopi sampling NFFT real sbf : c <> 0 ->
  (forall b rho, ArmaEst.ma x Q M = inr (b, rho) -> nonzero_data x) ->
  pma_call tw (vscale c x) Q M twopi sampling NFFT real sbf = call_scaled (nrm2 c) (pma_call tw x Q M twopi sampling NFFT real sbf).
Proof. exact (pma_scale_thm tw c x Q M twopi sampling NFFT real sbf). Qed.

(* ---------------- DaniellPeriodogram ---------------- *)
Theorem daniell_smooth_scale s (psd : list F) P : daniell_smooth (vscale s psd) P = vscale s (daniell_smooth psd P).
Proof. exact (daniell_smooth_scale_thm s psd P). Qed.

Theorem daniell_scale tw twopi c (x w : list F) P NFFT isreal dt sbf fs :
  daniell tw twopi (vscale c x) w P NFFT isreal dt sbf fs = vscale (nrm2 c) (daniell tw twopi x w P NFFT isreal dt sbf fs).
Proof. exact (daniell_scale_thm tw twopi c x w P NFFT isreal dt sbf fs). Qed.
End C03.

Theorem log_criteria_homogeneous (N s r1 r2 k1 k2 : R) : (0 < s -> 0 < r1 -> 0 < r2 ->
  (AIC N (s * r2) k2 > AIC N (s * r1) k1 <-> AIC N r2 k2 > AIC N r1 k1) /\
  (AICc N (s * r2) k2 > AICc N (s * r1) k1 <-> AICc N r2 k2 > AICc N r1 k1) /\
  (KIC N (s * r2) k2 > KIC N (s * r1) k1 <-> KIC N r2 k2 > KIC N r1 k1) /\
  (AKICc N (s * r2) k2 > AKICc N (s * r1) k1 <-> AKICc N r2 k2 > AKICc N r1 k1) /\
  (MDL N (s * r2) k2 > MDL N (s * r1) k1 <-> MDL N r2 k2 > MDL N r1 k1))%R.
Proof. exact (log_criteria_scale_invariant N s r1 r2 k1 k2). Qed.

(* criteria.py aic_eigen / mdl_eigen as coded (ak over n-k-1 terms divided by n-k, gk = prod(s[k+1:]**(1/(n-k)))): multiplying the
   singular values by m > 0 adds the SAME constant to every entry, so every comparison made by numpy.argmin is unchanged *)
Theorem eigen_criteria_shift (m : R) (s : list R) (N : R) : (0 < m)%R -> allpos s ->
  aic_eigen (map (Rmult m) s) N = map (fun v => (v + 2 * N * ln m)%R) (aic_eigen s N)
  /\ mdl_eigen (map (Rmult m) s) N = map (fun v => (v + N * ln m)%R) (mdl_eigen s N).
Proof. exact (eigen_criteria_shift_thm m s N). Qed.

Theorem eigen_criteria_order (m : R) (s : list R) (N : R) (k j : nat) : (0 < m)%R -> allpos s ->
  (k < length s - 1)%nat -> (j < length s - 1)%nat ->
  ((aic_eigen_at (map (Rmult m) s) N k < aic_eigen_at (map (Rmult m) s) N j)%R <-> (aic_eigen_at s N k < aic_eigen_at s N j)%R)
  /\ ((mdl_eigen_at (map (Rmult m) s) N k < mdl_eigen_at (map (Rmult m) s) N j)%R <-> (mdl_eigen_at s N k < mdl_eigen_at s N j)%R).
Proof. exact (eigen_criteria_order_thm m s N k j). Qed.

(* non-vacuity: the hypotheses are met by a concrete complex sequence and scalar; and the pre-repair
   order-0 reference (the raw power instead of the criterion value) is NOT homogeneous *)
Definition c03_x : list QcC := [cz (1,0) (0,0); cz (1,1) (1,0); cz (-1,0) (1,-1); cz (3,-1) (0,0); cz (1,0) (-1,0); cz (-1,-1) (1,-2)]%Z.
Definition c03_c : QcC := cz (3,-1)%Z (-1,1)%Z.
Example arburg_scale_example :
  @arburg _ qcc_ops (@vscale _ qcc_ops c03_c c03_x) 3 no_stop
  = match @arburg _ qcc_ops c03_x 3 no_stop with None => None | Some (a, rho, k) => Some (a, @mul _ qcc_ops (@nrm2 _ qcc_ops c03_c) rho, k) end
  /\ @arburg _ qcc_ops c03_x 3 no_stop <> None.
Proof. split; [|vm_compute; discriminate]. vm_compute. reflexivity. Qed.
Example raw_power_reference_not_homogeneous :
  exists N s r0 r1 : R, (0 < s /\ 0 < r0 /\ 0 < r1 /\ ~ (AIC N (s * r1) 1 > s * r0 <-> AIC N r1 1 > r0))%R.
Proof.
  exists 1%R, (exp 2), 3%R, 1%R. unfold AIC.
  assert (H1 : (0 < exp 2)%R) by apply exp_pos.
  assert (H2 : (3 < exp 2)%R) by (pose proof (exp_ineq1 2 ltac:(lra)); lra).
  repeat split; try lra. rewrite Rmult_1_r, ln_exp, ln_1. intros [A B].
  assert (X : (1 * 0 + 2 * (1 + 1) > 3)%R) by lra. apply B in X. lra.
Qed.


(* ---- the new theorems on concrete exact inputs (4-point grid, twiddle tw4) ---- *)
Local Open Scope Z_scope.
Definition c03_x4 : list QcC := [cz (1,0) (2,0); cz (-3,0) (1,-1); cz (0,0) (-1,0); cz (5,-2) (1,0)].
Definition c03_w4 : list QcC := [cz (1,-1) (0,0); cz (1,0) (0,0); cz (3,-2) (0,0); cz (1,-2) (0,0)].
Definition c03_q1 : QcC := cz (1,0) (0,0).
Definition c03_tol : QcC := (Q2Qc (1 # 10000), Q2Qc 0).
Definition nonzero_list (l : list QcC) : bool := existsb (fun z => negb (Qc_eq_bool (fst z) 0 && Qc_eq_bool (snd z) 0)) l.
Example periodogram_scale_example :
  @speriodogram _ qcc_ops tw4 (cz (25,-2) (0,0)) (@vscale _ qcc_ops c03_c c03_x4) c03_w4 (Some 4%nat) false PyTrue PyTrue (cz (3,0) (0,0))
  = @vscale _ qcc_ops (@nrm2 _ qcc_ops c03_c) (@speriodogram _ qcc_ops tw4 (cz (25,-2) (0,0)) c03_x4 c03_w4 (Some 4%nat) false PyTrue PyTrue (cz (3,0) (0,0)))
  /\ nonzero_list (@speriodogram _ qcc_ops tw4 (cz (25,-2) (0,0)) c03_x4 c03_w4 (Some 4%nat) false PyTrue PyTrue (cz (3,0) (0,0))) = true.
Proof. split; vm_compute; reflexivity. Qed.
Example correlogram_scale_example (be : backend) :
  @correlogram _ qcc_ops tw4 c03_q1 (@vscale _ qcc_ops c03_c c03_x4) None 1 [c03_q1; c03_q1; cz (1,-1) (0,0)] (Some 4%nat) Unbiased be
  = option_map (@vscale _ qcc_ops (@nrm2 _ qcc_ops c03_c)) (@correlogram _ qcc_ops tw4 c03_q1 c03_x4 None 1 [c03_q1; c03_q1; cz (1,-1) (0,0)] (Some 4%nat) Unbiased be)
  /\ @correlogram _ qcc_ops tw4 c03_q1 c03_x4 None 1 [c03_q1; c03_q1; cz (1,-1) (0,0)] (Some 4%nat) Unbiased be <> None.
Proof. destruct be; (split; [vm_compute; reflexivity|vm_compute; discriminate]). Qed.
Example aryule_scale_example :
  @aryule _ qcc_ops (@vscale _ qcc_ops c03_c c03_x) 2 Biased false = @yw_scale _ qcc_ops (@nrm2 _ qcc_ops c03_c) (@aryule _ qcc_ops c03_x 2 Biased false)
  /\ exists st, @aryule _ qcc_ops c03_x 2 Biased false = inr st.
Proof. split; [vm_compute; reflexivity|eexists; vm_compute; reflexivity]. Qed.
Example covar_scale_example :
  @arcovar _ qcc_ops c03_tol (@vscale _ qcc_ops c03_c c03_x) 2 = @ae_scale _ qcc_ops (@nrm2 _ qcc_ops c03_c) (@arcovar _ qcc_ops c03_tol c03_x 2)
  /\ @modcovar _ qcc_ops c03_tol (@vscale _ qcc_ops c03_c c03_x) 2 = @ae_scale _ qcc_ops (@nrm2 _ qcc_ops c03_c) (@modcovar _ qcc_ops c03_tol c03_x 2)
  /\ @arcovar _ qcc_ops c03_tol c03_x 2 <> None /\ @modcovar _ qcc_ops c03_tol c03_x 2 <> None.
Proof. repeat split; try (vm_compute; reflexivity); vm_compute; discriminate. Qed.
Example minvar_scale_example :
  @minvar _ qcc_ops tw4 (@vscale _ qcc_ops c03_c c03_x) 2 (cz (3,-1) (0,0)) 4
  = @mv_scale _ qcc_ops (@nrm2 _ qcc_ops c03_c) (@minvar _ qcc_ops tw4 c03_x 2 (cz (3,-1) (0,0)) 4)
  /\ @minvar _ qcc_ops tw4 c03_x 2 (cz (3,-1) (0,0)) 4 <> None.
Proof. split; [vm_compute; reflexivity|vm_compute; discriminate]. Qed.
(* adaptive multitaper on the exact run of Proofs/MtmExample.v: identical weights, same pass count; the natural hypotheses hold there *)
Definition c03_eqb (a b : QcC) : bool := Qc_eq_bool (fst a) (fst b) && Qc_eq_bool (snd a) (snd b).
Fixpoint c03_leqb (l1 l2 : list QcC) : bool :=
  match l1, l2 with [], [] => true | a :: t, b :: u => c03_eqb a b && c03_leqb t u | _, _ => false end.
Fixpoint c03_meqb (m1 m2 : list (list QcC)) : bool :=
  match m1, m2 with [], [] => true | a :: t, b :: u => c03_leqb a b && c03_meqb t u | _, _ => false end.
Example mtm_weights_example :
  (let '(Skc', w', ev') := @pmtm_core _ qcc_ops 2 tw4 ex_tapers ex_ev (@vscale _ qcc_ops c03_c ex_x) 4 Adapt in
   let '(Skc, w, ev) := ex_run in
   c03_meqb Skc' (map (@vscale _ qcc_ops c03_c) Skc) && c03_meqb w' w && c03_leqb ev' ev && nonzero_list (concat w)) = true
  /\ @ad_i _ (@adapt_run _ qcc_ops 2 (@eigenspectra _ qcc_ops tw4 ex_tapers (@vscale _ qcc_ops c03_c ex_x) 4) ex_ev (@vscale _ qcc_ops c03_c ex_x) 4) = 2%nat.
Proof. split; vm_compute; reflexivity. Qed.
Example mtm_regular_example : @adapt_regular _ qcc_ops tw4 ex_tapers ex_ev ex_x 4.
Proof.
  destruct adapt_example_hypotheses_thm as (H1 & H2 & H3).
  apply (@mtm_regular_natural _ qcc_ops qcc_laws qcc_ord tw4 ex_tapers ex_ev ex_x 4); [lia|cbn; lia|exact H1|exact H2|exact H3].
Qed.
(* MUSIC / EV: x_n = 1+i (Properties/C17.v's exact SVD: S = (4, 0)); c = 3+4i, m = |c| = 5 *)
Definition c03_ex : list QcC := [cz (1,0) (1,0); cz (1,0) (1,0); cz (1,0) (1,0); cz (1,0) (1,0)].
Definition c03_eS : list QcC := [cz (4,0) (0,0); cz (0,0) (0,0)].
Definition c03_eps : QcC := cz (1,-52) (0,0).
Definition c03_eVh : list (list QcC) := [[cz (1,-1) (-1,-1); cz (1,-1) (-1,-1)]; [cz (1,-1) (-1,-1); cz (-1,-1) (1,-1)]].
Definition c03_ec : QcC := cz (3,0) (4,0).
Definition c03_em : QcC := cz (5,0) (0,0).
Ltac c03_eq := apply qcc_eq_canon; vm_compute; reflexivity.
Ltac c03_nn r := apply (@nonneg_eq _ qcc_ops qcc_ord (@nrm2 _ qcc_ops r)); [c03_eq|apply (@nn_nrm2 _ qcc_ops qcc_ord)].
Example svd_spec_c03 : @svd_spec _ qcc_ops qcc_ord (@fb_matrix _ qcc_ops c03_ex 2) 4 2 c03_eS c03_eVh.
Proof.
  constructor.
  - reflexivity.
  - intros I HI. destruct I as [|[|I]]; [reflexivity|reflexivity|lia].
  - intros I HI. destruct I as [|[|I]]; [c03_nn (cz (2,0) (0,0))|c03_nn (cz (0,0) (0,0))|lia].
  - intros I J HIJ HJ. assert (HI : ((I = 0 /\ J = 0) \/ (I = 0 /\ J = 1) \/ (I = 1 /\ J = 1))%nat) by lia.
    unfold le. destruct HI as [[-> ->]|[[-> ->]|[-> ->]]]; [c03_nn (cz (0,0) (0,0))|c03_nn (cz (2,0) (0,0))|c03_nn (cz (0,0) (0,0))].
  - intros I J HI HJ. destruct I as [|[|I]]; [| |lia]; (destruct J as [|[|J]]; [| |lia]); c03_eq.
  - intros m m' Hm Hm'. destruct m as [|[|m]]; [| |lia]; (destruct m' as [|[|m']]; [| |lia]); c03_eq.
  - intros I HI k Hk. destruct I as [|[|I]]; [| |lia]; (destruct k as [|[|k]]; [| |lia]); c03_eq.
Qed.
Lemma c03_em_pos : @pos _ qcc_ops qcc_ord c03_em.
Proof. apply (qcc_pos_frac _ 5 1); [lia|lia|c03_eq]. Qed.
(* the theorem applies: (5*S, Vh) meets the specification for FB(c*x) *)
Example svd_spec_scale_example :
  @svd_spec _ qcc_ops qcc_ord (@fb_matrix _ qcc_ops (@vscale _ qcc_ops c03_ec c03_ex) 2) 4 2 (@vscale _ qcc_ops c03_em c03_eS) c03_eVh.
Proof. apply (@svd_spec_scale _ qcc_ops qcc_laws qcc_ord c03_ec c03_em c03_ex 4 2 c03_eS c03_eVh c03_em_pos); [c03_eq|exact svd_spec_c03]. Qed.
Example eigen_scale_example :
  @music _ qcc_ops c03_eps (Some (NInt 1)) None CAic 0 tw4 4 (@vscale _ qcc_ops c03_ec c03_ex) 2 (@vscale _ qcc_ops c03_em c03_eS) c03_eVh
  = match @music _ qcc_ops c03_eps (Some (NInt 1)) None CAic 0 tw4 4 c03_ex 2 c03_eS c03_eVh with inl e => inl e | inr (psd, sv) => inr (psd, @vscale _ qcc_ops c03_em sv) end
  /\ @ev _ qcc_ops c03_eps (Some (NInt 0)) None CAic 0 tw4 4 (@vscale _ qcc_ops c03_ec c03_ex) 2 (@vscale _ qcc_ops c03_em c03_eS) c03_eVh
  = match @ev _ qcc_ops c03_eps (Some (NInt 0)) None CAic 0 tw4 4 c03_ex 2 c03_eS c03_eVh with inl e => inl e | inr (psd, sv) => inr (@vscale _ qcc_ops c03_em psd, @vscale _ qcc_ops c03_em sv) end
  /\ (exists r, @ev _ qcc_ops c03_eps (Some (NInt 0)) None CAic 0 tw4 4 c03_ex 2 c03_eS c03_eVh = inr r)
  /\ forallb (fun d => negb (Qc_eq_bool (fst d) 0 && Qc_eq_bool (snd d) 0)) (@pseudo_den _ qcc_ops MEv c03_eps tw4 4 2 c03_eS c03_eVh 0) = true.
Proof. split; [vm_compute; reflexivity|]. split; [vm_compute; reflexivity|]. split; [eexists; vm_compute; reflexivity|vm_compute; reflexivity]. Qed.
Local Close Scope Z_scope.

(* ---- arma.ma / arma_estimate / parma on a concrete complex sequence (the oracles of C15's correspondence run and the solver of
   Model/Ls.v): the hypotheses of the theorems are met, the calls return a model ---- *)
Local Open Scope Z_scope.
Definition c03_ax : list QcC := [cz (1,0) (0,0); cz (-1,1) (1,0); cz (3,0) (0,0); cz (1,0) (-1,0); cz (-1,0) (1,1);
                                 cz (1,1) (0,0); cz (1,0) (1,0); cz (-3,0) (0,0); cz (1,0) (0,0); cz (1,1) (-1,0)].
Local Close Scope Z_scope.
Lemma c03_c_neq0 : c03_c <> zero (Ops:=qcc_ops). Proof. intro E. inversion E. Qed.
Lemma c03_ax_nonzero : @nonzero_data _ qcc_ops c03_ax.
Proof. exists O. split; [vm_compute; lia|]. intro E. inversion E. Qed.
Example ma_scale_example :
  @ArmaEst.ma _ qcc_ops (@vscale _ qcc_ops c03_c c03_ax) 2 4 = @ma_scaled _ qcc_ops (@nrm2 _ qcc_ops c03_c) (@ArmaEst.ma _ qcc_ops c03_ax 2 4)
  /\ exists b rho, @ArmaEst.ma _ qcc_ops c03_ax 2 4 = inr (b, rho).
Proof.
  split; [|vm_compute; do 2 eexists; reflexivity].
  exact (@ma_scale _ qcc_ops qcc_laws qcc_ord c03_c c03_ax 2 4 c03_c_neq0 (fun _ _ _ => c03_ax_nonzero)).
Qed.
Notation c03_AE x := (@arma_estimate _ qcc_ops (@lsm_exact _ qcc_ops) (@ls_exact _ qcc_ops) x 1 1 3) (only parsing).
Notation c03_AEcov x := (@arma_estimate _ qcc_ops (@lsm_cov _ qcc_ops c03_tol) (@lsq_cov _ qcc_ops c03_tol) x 1 1 3) (only parsing).
Definition c03_est := Eval vm_compute in c03_AE c03_ax.
Definition c03_estcov := Eval vm_compute in c03_AEcov c03_ax.
Definition c03_r := Eval vm_compute in @acorr _ qcc_ops c03_ax 3 Unbiased.
Lemma c03_est_eq : c03_AE c03_ax = c03_est. Proof. vm_compute. reflexivity. Qed.
Lemma c03_estcov_eq : c03_AEcov c03_ax = c03_estcov. Proof. vm_compute. reflexivity. Qed.
Lemma c03_r_eq : @acorr _ qcc_ops c03_ax 3 Unbiased = c03_r. Proof. vm_compute. reflexivity. Qed.
Lemma c03_arma_nondeg : @arma_nondeg _ qcc_ops (@lsm_exact _ qcc_ops) (@ls_exact _ qcc_ops) c03_ax 1 1 3.
Proof.
  intros a b rho H. rewrite c03_est_eq in H. unfold c03_est in H. injection H as <- _ _.
  exists O. split; [vm_compute; lia|]. vm_compute. intro E. inversion E.
Qed.
Lemma c03_arma_regular r : @acorr _ qcc_ops c03_ax 3 Unbiased = Some r -> @ls_exact_regular _ qcc_ops (@arma_y _ qcc_ops r 1 1 3) 1.
Proof.
  intros Hr. rewrite c03_r_eq in Hr. unfold c03_r in Hr. injection Hr as <-. split; [|exact I]. vm_compute. intro E. inversion E.
Qed.
(* the oracles of the correspondence run: regular pivots, non-zero residual, a model is returned *)
Example arma_estimate_scale_example :
  @arma_estimate _ qcc_ops (@lsm_exact _ qcc_ops) (@ls_exact _ qcc_ops) (@vscale _ qcc_ops c03_c c03_ax) 1 1 3
  = @arma_scaled _ qcc_ops (@nrm2 _ qcc_ops c03_c) (@arma_estimate _ qcc_ops (@lsm_exact _ qcc_ops) (@ls_exact _ qcc_ops) c03_ax 1 1 3)
  /\ exists a b rho, @arma_estimate _ qcc_ops (@lsm_exact _ qcc_ops) (@ls_exact _ qcc_ops) c03_ax 1 1 3 = inr (a, b, rho).
Proof.
  split; [|vm_compute; do 3 eexists; reflexivity].
  exact (@arma_estimate_exact_scale _ qcc_ops qcc_laws qcc_ord c03_c c03_ax 1 1 3 c03_c_neq0 c03_arma_regular c03_arma_nondeg).
Qed.
(* the solver of Model/Ls.v as the oracle pair: homogeneous by ls_cov_homogeneous; parma stores |c|^2 times the PSD (4 bins, tw4) *)
Lemma c03_cov_nondeg : @arma_nondeg _ qcc_ops (@lsm_cov _ qcc_ops c03_tol) (@lsq_cov _ qcc_ops c03_tol) c03_ax 1 1 3.
Proof.
  intros a b rho H. rewrite c03_estcov_eq in H. unfold c03_estcov in H. injection H as <- _ _.
  exists O. split; [vm_compute; lia|]. vm_compute. intro E. inversion E.
Qed.
Definition c03_twopi : QcC := cz (25,-2)%Z (0,0)%Z.
Definition c03_fs : QcC := cz (2,0)%Z (0,0)%Z.
Example parma_scale_example :
  @parma_call _ qcc_ops tw4 (@lsm_cov _ qcc_ops c03_tol) (@lsq_cov _ qcc_ops c03_tol) (@vscale _ qcc_ops c03_c c03_ax) 1 1 3 c03_twopi c03_fs 4 false true
  = @call_scaled _ qcc_ops (@nrm2 _ qcc_ops c03_c)
      (@parma_call _ qcc_ops tw4 (@lsm_cov _ qcc_ops c03_tol) (@lsq_cov _ qcc_ops c03_tol) c03_ax 1 1 3 c03_twopi c03_fs 4 false true)
  /\ match @parma_call _ qcc_ops tw4 (@lsm_cov _ qcc_ops c03_tol) (@lsq_cov _ qcc_ops c03_tol) c03_ax 1 1 3 c03_twopi c03_fs 4 false true with
     | inr e => (length (x_psd e) =? 4)%nat && nonzero_list (x_psd e)        (* an object is returned, 4 bins, not all zero *)
     | inl _ => false
     end = true.
Proof.
  split; [|vm_compute; reflexivity].
  exact (@parma_scale _ qcc_ops qcc_laws qcc_ord tw4 _ _ c03_c c03_ax 1 1 3 c03_twopi c03_fs 4%nat false true c03_c_neq0
           (fun s y p Hs => @ls_cov_homogeneous _ qcc_ops qcc_laws qcc_ord c03_tol s y p Hs) c03_cov_nondeg).
Qed.

Example daniell_scale_example :
  @daniell _ qcc_ops tw4 c03_twopi (@vscale _ qcc_ops c03_c c03_x4) c03_w4 1 (Some 4%nat) false PyTrue PyTrue c03_fs
  = @vscale _ qcc_ops (@nrm2 _ qcc_ops c03_c) (@daniell _ qcc_ops tw4 c03_twopi c03_x4 c03_w4 1 (Some 4%nat) false PyTrue PyTrue c03_fs)
  /\ (length (@daniell _ qcc_ops tw4 c03_twopi c03_x4 c03_w4 1 (Some 4%nat) false PyTrue PyTrue c03_fs) =? 2)%nat
     && nonzero_list (@daniell _ qcc_ops tw4 c03_twopi c03_x4 c03_w4 1 (Some 4%nat) false PyTrue PyTrue c03_fs) = true.
Proof. split; [exact (@daniell_scale _ qcc_ops qcc_laws tw4 c03_twopi c03_c c03_x4 c03_w4 1 (Some 4%nat) false PyTrue PyTrue c03_fs)|vm_compute; reflexivity]. Qed.

Print Assumptions acorr_scale.
Print Assumptions levinson_scale.
Print Assumptions arburg_scale.
Print Assumptions fpe_homogeneous.
Print Assumptions periodogram_scale.
Print Assumptions periodogram2d_scale.
Print Assumptions periodogram_class_scale.
Print Assumptions correlogram_scale.
Print Assumptions aryule_scale.
Print Assumptions pyule_ar_scale.
Print Assumptions lpc_scale.
Print Assumptions corrmtx_rowscaled.
Print Assumptions ls_normal_eqs_scale.
Print Assumptions ls_solve_scale.
Print Assumptions ls_scale.
Print Assumptions arcovar_scale.
Print Assumptions modcovar_scale.
Print Assumptions pcovar_rho_scale.
Print Assumptions pmodcovar_rho_scale.
Print Assumptions minvar_den_scale.
Print Assumptions minvar_scale.
Print Assumptions minvar_scale_grid.
Print Assumptions mtm_step_invariant.
Print Assumptions mtm_stop_homogeneous.
Print Assumptions mtm_weights_invariant.
Print Assumptions mtm_passes_invariant.
Print Assumptions mtm_pmtm_scale.
Print Assumptions mtm_class_scale.
Print Assumptions mtm_regular_natural.
Print Assumptions fb_matrix_scale.
Print Assumptions svd_spec_scale.
Print Assumptions eigen_decisions_invariant.
Print Assumptions music_invariant.
Print Assumptions ev_den_scale.
Print Assumptions ev_scales.
Print Assumptions ev_scales_bin.
Print Assumptions pclass_scale.
Print Assumptions class_scale_every_table.
Print Assumptions class_arma_scale.
Print Assumptions ma_scale.
Print Assumptions arma_estimate_scale_solvers.
Print Assumptions arma_estimate_scale.
Print Assumptions ls_cov_homogeneous.
Print Assumptions ls_exact_homogeneous.
Print Assumptions arma_estimate_exact_scale.
Print Assumptions arma_class_call_scale.
Print Assumptions parma_scale_solvers.
Print Assumptions parma_scale.
Print Assumptions pma_scale.
Print Assumptions daniell_smooth_scale.
Print Assumptions daniell_scale.
Print Assumptions log_criteria_homogeneous.
Print Assumptions eigen_criteria_shift.
Print Assumptions eigen_criteria_order.
