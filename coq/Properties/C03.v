(* C03 — Estimates are quadratic in signal amplitude.  Statements only.

   PROVED (abstract ordered *-field, every length / order / lag; c any non-zero scalar):
     acorr_scale        autocorrelation estimates (biased, unbiased, unnormalised) are multiplied by |c|^2,
                        the 'coeff' normalisation is invariant
     levinson_scale     LEVINSON(s*r) = (a, s*P, k) for every positive real s (same coefficients, same
                        reflection coefficients, same raise/no-raise decision)
     arburg_scale       arburg(c*x) = (a, |c|^2 rho, k) with ANY homogeneous order-selection rule: same AR
                        vector, same reflection coefficients, same selected order, same raise decision
     fpe_homogeneous    the FPE rule is homogeneous
   PROVED (standard-library reals):
     log_criteria_homogeneous   the comparisons made by AIC, AICc, KIC, AKICc, MDL between two orders do not
                        depend on a common positive factor of rho (hence those rules are homogeneous as long
                        as the order-0 reference is the criterion's own value)
   NOT PROVED here (search on the implementation only, until their models are merged): periodogram,
   correlogram, Yule-Walker (composition of acorr_scale and levinson_scale), covariance / modified
   covariance, ARMA / MA, minimum variance, MUSIC / EV, multitaper weights, class level. *)
From Coq Require Import Reals Lra QArith Qcanon.
Require Import Spectrum.Proofs.CriteriaR.
Require Import Spectrum.Theory.Ops Spectrum.Theory.Sum Spectrum.Theory.Vec Spectrum.Theory.Order
               Spectrum.Model.Levinson Spectrum.Model.Burg Spectrum.Model.Corr
               Spectrum.Proofs.ScaleTheory
               Spectrum.Instances.QcC Spectrum.Instances.QcCOrd.

Section C03.
Context {F : Type} {OF : Ops F} {L : Laws OF} {OL : OrdLaws OF}.
Local Open Scope F_scope.

Theorem acorr_scale c (x : list F) ml nm : c <> 0 -> (nm = Coeff -> mean_pow x <> 0) ->
  acorr (vscale c x) ml nm
  = match acorr x ml nm with
    | None => None
    | Some r => Some (match nm with Coeff => r | _ => vscale (nrm2 c) r end)
    end.
Proof. exact (acorr_scale_thm c x ml nm). Qed.

Theorem levinson_scale s (r : list F) p allow : pos s ->
  lev_nonsingular (tl r) allow (re (nthF r O)) p ->
  levinson (vscale s r) p allow = option_map (scaleP s) (levinson r p allow).
Proof. exact (levinson_scale_thm s r p allow). Qed.

Theorem arburg_scale c stop (x : list F) p : c <> 0 -> stop_homogeneous stop -> burg_nondeg stop x p ->
  arburg (vscale c x) p stop
  = match arburg x p stop with None => None | Some (a, rho, k) => Some (a, nrm2 c * rho, k) end.
Proof. exact (arburg_scale_thm c stop x p). Qed.

Theorem fpe_homogeneous N (gt : F -> F -> bool) :
  (forall s a b, pos s -> gt (s * a) (s * b) = gt a b) -> stop_homogeneous (fpe_stop N gt).
Proof. exact (fpe_stop_homogeneous N gt). Qed.
End C03.

Theorem log_criteria_homogeneous (N s r1 r2 k1 k2 : R) : (0 < s -> 0 < r1 -> 0 < r2 ->
  (AIC N (s * r2) k2 > AIC N (s * r1) k1 <-> AIC N r2 k2 > AIC N r1 k1) /\
  (AICc N (s * r2) k2 > AICc N (s * r1) k1 <-> AICc N r2 k2 > AICc N r1 k1) /\
  (KIC N (s * r2) k2 > KIC N (s * r1) k1 <-> KIC N r2 k2 > KIC N r1 k1) /\
  (AKICc N (s * r2) k2 > AKICc N (s * r1) k1 <-> AKICc N r2 k2 > AKICc N r1 k1) /\
  (MDL N (s * r2) k2 > MDL N (s * r1) k1 <-> MDL N r2 k2 > MDL N r1 k1))%R.
Proof. exact (log_criteria_scale_invariant N s r1 r2 k1 k2). Qed.

(* non-vacuity: the hypotheses are met by a concrete complex sequence and scalar; and the pre-repair
   order-0 reference (the raw power instead of the criterion value) is NOT homogeneous *)
Definition c03_x : list QcC := [cz (1,0) (0,0); cz (1,1) (1,0); cz (-1,0) (1,-1); cz (3,-1) (0,0); cz (1,0) (-1,0); cz (-1,-1) (1,-2)]%Z.
Definition c03_c : QcC := cz (3,-1)%Z (-1,1)%Z.
Example arburg_scale_example :
  @arburg _ qcc_ops (@vscale _ qcc_ops c03_c c03_x) 3 no_stop
  = match @arburg _ qcc_ops c03_x 3 no_stop with None => None | Some (a, rho, k) => Some (a, @mul _ qcc_ops (@nrm2 _ qcc_ops c03_c) rho, k) end
  /\ @arburg _ qcc_ops c03_x 3 no_stop <> None.
Proof. split; [|vm_compute; discriminate]. vm_compute. reflexivity. Qed.
Example raw_power_reference_not_homogeneous :
  exists N s r0 r1 : R, (0 < s /\ 0 < r0 /\ 0 < r1 /\ ~ (AIC N (s * r1) 1 > s * r0 <-> AIC N r1 1 > r0))%R.
Proof.
  exists 1%R, (exp 2), 3%R, 1%R. unfold AIC.
  assert (H1 : (0 < exp 2)%R) by apply exp_pos.
  assert (H2 : (3 < exp 2)%R) by (pose proof (exp_ineq1 2 ltac:(lra)); lra).
  repeat split; try lra. rewrite Rmult_1_r, ln_exp, ln_1. intros [A B].
  assert (X : (1 * 0 + 2 * (1 + 1) > 3)%R) by lra. apply B in X. lra.
Qed.

Print Assumptions acorr_scale.
Print Assumptions levinson_scale.
Print Assumptions arburg_scale.
Print Assumptions fpe_homogeneous.
Print Assumptions log_criteria_homogeneous.
