(* C06 — side conversions are lossless, length-consistent and axis-aligned.
   Nothing but statements; each is closed by [exact] of a lemma proved in Proofs/Convert*.v.
   Model: Model/Convert.v = the code after "fix: side conversions follow the frequency axes"
   (tools.twosided_2_onesided / onesided_2_twosided / twosided_2_centerdc / centerdc_2_twosided,
   get_converted_psd with its routing on len(psd) and NFFT, the sides and psd setters, Range).

   PROVED (abstract field with 1+1<>0, every NFFT >= 1 of both parities, every vector):
     convert_length            len(result) = len(frequencies(t))                 [needs: len(p) = len(frequencies(s))]
     convert_axis              entry j = sum_i weight(i,j) * p[i]; weight = 1 (1/2 for an interior one-sided source value)
                               iff the signed bins reported by Range agree, up to sign when a side is one-sided
                                                                                 [needs: length; symmetry only when t = onesided]
     convert_power             sum(result) = sum(p)                               [same hypotheses]
     center_two_center, two_center_two   fftshift/ifftshift are mutually inverse  [any vector]
     two_one_two               twosided->onesided after onesided->twosided = id   [length only]
     one_two_one               onesided->twosided after twosided->onesided = id   [Hermitian-symmetric vectors]
     one2two_symmetric         what is produced from a one-sided vector is Hermitian symmetric
     convert_compose           conv t u (conv s t p) = conv s u p                 [length; symmetry only when t = onesided]
     convert_path_independent  for EVERY list of sides (induction on the list): folding p.sides = t over the list equals
                               the direct conversion to the last element          [well-formed state, allowed path]
     convert_path_fold         the same in the fold_left form fixed in DESIGN.md appendix C
     convert_path_direct       ... and that direct conversion is what get_converted_psd returns on the initial object
     convert_roundtrip         any path that ends at the original sides restores the original state exactly
     convert_path_real         real data: p.psd = v (any one-sided v of the right length), any path: no further hypothesis
     convert_path_complex      complex data: p.psd = v (ANY two-sided v), any path over twosided/centerdc: unconditional
     complex_onesided_raises   complex data asked for onesided: error, object unchanged
     reachable_wf              every state reached by p.psd = v; p.sides = ... is well formed
     tools_onesided_2_twosided_is_conv   the helper onesided_2_twosided is the conversion for NFFT = 2*len-2 (even), so
                               every theorem above applies to the four helpers (the other three ARE conv branches)
     cshift_inverse, cshift_invariants   tools.cshift (no longer used by the conversions): cshift(-k) undoes cshift(k);
                               length and sum are kept
   Well-formedness [wf cplx nfft s p]: NFFT >= 1, len(p) = len(frequencies(s)); complex data: s is not onesided;
   real data: a twosided/centerdc vector is Hermitian symmetric (p[j] = p[n-j] in FFT order).  The symmetry hypothesis is
   necessary, not a weakness of the proof: see [one_two_one_needs_symmetry] below.
   NOT PROVED (outside the pure model, search only): get_converted_psd and the helpers leave the stored PSD / their
   argument untouched (aliasing); arma2psd(sides='centerdc'); estimator-computed PSDs. *)
Require Import Spectrum.Theory.Ops Spectrum.Theory.Sum Spectrum.Theory.Vec Spectrum.Model.Convert
               Spectrum.Proofs.ConvertTheory Spectrum.Proofs.ConvertAxis Spectrum.Instances.QcC.
From Coq Require Import QArith Qcanon.

Section C06.
Context {F : Type} {OF : Ops F} {L : Laws OF}.
Local Open Scope F_scope.

Theorem convert_length (nfft : nat) (s t : side) (p : list F) :
  (1 <= nfft)%nat -> length p = length (freq_bins s nfft) ->
  length (conv nfft s t p) = length (freq_bins t nfft).
Proof. rewrite !freq_bins_length. exact (conv_length_thm nfft s t p). Qed.

Theorem convert_axis (nfft : nat) (s t : side) (p : list F) (j : nat) :
  (1 <= nfft)%nat -> length p = flen s nfft -> (t = One -> symS s p) -> (j < flen t nfft)%nat ->
  nthF (conv nfft s t p) j = sumf (flen s nfft) (fun i => weight s t nfft i j * nthF p i).
Proof. exact (conv_axis_thm nfft s t p j). Qed.

Theorem convert_power (nfft : nat) (s t : side) (p : list F) :
  (1 <= nfft)%nat -> length p = flen s nfft -> (t = One -> symS s p) ->
  sumL (conv nfft s t p) = sumL p.
Proof. exact (conv_power_thm nfft s t p). Qed.

Theorem center_two_center (t : list F) : center2two (two2center t) = t.
Proof. exact (center_two_center_thm t). Qed.

Theorem two_center_two (c : list F) : two2center (center2two c) = c.
Proof. exact (two_center_two_thm c). Qed.

Theorem two_one_two (nfft : nat) (p : list F) : (1 <= nfft)%nat -> length p = flen One nfft ->
  two2one (one2two nfft p) = p.
Proof. exact (two_one_two_thm nfft p). Qed.

Theorem one_two_one (nfft : nat) (t : list F) : (1 <= nfft)%nat -> length t = nfft -> sym2 t ->
  one2two nfft (two2one t) = t.
Proof. exact (one_two_one_thm nfft t). Qed.

Theorem one2two_symmetric (nfft : nat) (p : list F) : (1 <= nfft)%nat -> length p = flen One nfft ->
  sym2 (one2two nfft p).
Proof. exact (one2two_sym_thm nfft p). Qed.

Theorem convert_compose (nfft : nat) (s t u : side) (p : list F) :
  (1 <= nfft)%nat -> length p = flen s nfft -> (t = One -> symS s p) ->
  conv nfft t u (conv nfft s t p) = conv nfft s u p.
Proof. exact (conv_compose_thm nfft s t u p). Qed.

Theorem convert_path_independent (path : list side) (st : pstate) :
  wf_state st -> allowed (st_cplx st) path ->
  run_path path st =
    Some (mkP (st_cplx st) (st_nfft st) (last path (st_sides st))
              (conv (st_nfft st) (st_sides st) (last path (st_sides st)) (st_psd st))).
Proof. exact (path_independent_thm path st). Qed.

Theorem convert_path_fold (cplx : bool) (nfft : nat) (path : list side) (s0 : side) (p0 : list F) :
  wf cplx nfft s0 p0 -> allowed cplx path ->
  fold_left (fun st t => (t, conv nfft (fst st) t (snd st))) path (s0, p0)
  = (last path s0, conv nfft s0 (last path s0) p0).
Proof. exact (path_fold_thm cplx nfft path s0 p0). Qed.

Theorem convert_path_direct (path : list side) (st : pstate) :
  wf_state st -> allowed (st_cplx st) path ->
  exists q, query st (last path (st_sides st)) = Some q /\
            run_path path st = Some (mkP (st_cplx st) (st_nfft st) (last path (st_sides st)) q).
Proof. exact (path_direct_thm path st). Qed.

Theorem convert_roundtrip (path : list side) (st : pstate) :
  wf_state st -> allowed (st_cplx st) path ->
  run_path (path ++ [st_sides st]) st = Some st.
Proof. exact (roundtrip_thm path st). Qed.

Theorem convert_path_real (nfft : nat) (v : list F) (path : list side) :
  (1 <= nfft)%nat -> length v = flen One nfft ->
  run_path path (assign_psd false nfft v)
  = Some (mkP false nfft (last path One) (conv nfft One (last path One) v)).
Proof. exact (path_real_thm nfft v path). Qed.

Theorem convert_path_complex (nfft0 : nat) (v : list F) (path : list side) :
  (1 <= length v)%nat -> ~ In One path ->
  run_path path (assign_psd true nfft0 v)
  = Some (mkP true (length v) (last path Two) (conv (length v) Two (last path Two) v)).
Proof. exact (path_complex_thm nfft0 v path). Qed.

Theorem complex_onesided_raises (st : pstate) : wf_state st -> st_cplx st = true ->
  set_sides st One = None /\ query st One = None.
Proof. exact (complex_onesided_raises_thm st). Qed.

Theorem reachable_wf (cplx : bool) (nfft : nat) (v : list F) (path : list side) (st' : pstate) :
  (1 <= length v)%nat -> (cplx = false -> (1 <= nfft)%nat /\ length v = flen One nfft) ->
  run_path path (assign_psd cplx nfft v) = Some st' -> wf_state st'.
Proof. intros Hv Hl. exact (wf_run_thm path _ st' (wf_assign_thm cplx nfft v Hv Hl)). Qed.
Theorem tools_onesided_2_twosided_is_conv (p : list F) : (2 <= length p)%nat ->
  conv (2 * length p - 2) One Two p = one2two_even p /\ length p = flen One (2 * length p - 2).
Proof. exact (one2two_even_is_conv_thm p). Qed.

Theorem cshift_inverse (l : list F) (k : Z) : cshift (cshift l k) (- k) = l.
Proof. exact (cshift_inverse_thm l k). Qed.

Theorem cshift_invariants (l : list F) (k : Z) :
  length (cshift l k) = length l /\ sumL (cshift l k) = sumL l.
Proof. exact (cshift_invariants_thm l k). Qed.
End C06.

(* ---------------------------------------------------------------- non-vacuity, on exact Gaussian rationals *)
Local Open Scope Z_scope.
Definition qv (l : list Z) : list QcC := map (fun z => cz (z, 0) (0, 0)) l.
Definition hv (l : list Z) : list QcC := map (fun z => cz (z, -1) (0, 0)) l.   (* halves *)

(* real data, NFFT = 6 and 5 : a 5-step path equals the direct conversion; values land on the axes *)
Example path_real_even :
  @run_path _ qcc_ops [Center; Two; One; Center; Two] (assign_psd false 6 (qv [10; 4; 6; 8]))
  = Some (mkP false 6 Two (qv [10; 2; 3; 8; 3; 2])).
Proof. vm_compute. reflexivity. Qed.
Example path_real_odd :
  @run_path _ qcc_ops [Two; Center; One; Center] (assign_psd false 5 (qv [10; 4; 6]))
  = Some (mkP false 5 Center (qv [3; 2; 10; 2; 3]))
  /\ freq_bins Center 5 = [-2; -1; 0; 1; 2] /\ freq_bins One 5 = [0; 1; 2] /\ freq_bins Two 5 = [0; 1; 2; 3; 4].
Proof. vm_compute. repeat split; reflexivity. Qed.
Example direct_real_even :
  @conv _ qcc_ops 6 One Center (qv [10; 4; 6; 8]) = qv [8; 3; 2; 10; 2; 3]
  /\ freq_bins Center 6 = [-3; -2; -1; 0; 1; 2]
  /\ map (sbin Center 6) (seq 0 6) = [3; -2; -1; 0; 1; 2] /\ map (sbin Two 6) (seq 0 6) = [0; 1; 2; 3; -2; -1].
Proof. vm_compute. repeat split; reflexivity. Qed.
(* the smallest sizes *)
Example nfft_one_two :
  @run_path _ qcc_ops [Two; Center; One] (assign_psd false 1 (qv [7])) = Some (mkP false 1 One (qv [7]))
  /\ @run_path _ qcc_ops [Center; Two; One] (assign_psd false 2 (qv [7; 3])) = Some (mkP false 2 One (qv [7; 3]))
  /\ @conv _ qcc_ops 2 One Center (qv [7; 3]) = qv [3; 7].
Proof. vm_compute. repeat split; reflexivity. Qed.
(* complex data: arbitrary (non-symmetric, complex-valued) two-sided vector, odd and even length *)
Definition cvec : list QcC := [cz (1,0) (2,0); cz (3,0) (0,0); cz (5,0) (-1,0); cz (7,0) (0,0); cz (11,0) (4,0)].
Example path_complex_odd :
  @run_path _ qcc_ops [Center; Center; Two; Center] (assign_psd true 0 cvec)
  = Some (mkP true 5 Center [cz (7,0) (0,0); cz (11,0) (4,0); cz (1,0) (2,0); cz (3,0) (0,0); cz (5,0) (-1,0)])
  /\ @run_path _ qcc_ops [Center; One] (assign_psd true 0 cvec) = None.
Proof. vm_compute. split; reflexivity. Qed.
(* the hypotheses are inhabited: a well-formed real two-sided state, and the weights of the axis theorem *)
Example wf_example : @wf _ qcc_ops false 6 Two (qv [10; 2; 3; 8; 3; 2]).
Proof.
  split; [lia|]. split; [reflexivity|]. intros j Hj. cbn in Hj.
  do 6 (destruct j as [|j]; [try lia; reflexivity|]). lia.
Qed.
Definition rows_eq (a b : list (list QcC)) : bool :=
  Nat.eqb (length a) (length b) && forallb (fun ab => qcc_close_list 0%Qc (fst ab) (snd ab)) (combine a b).
Example weights_example :
  rows_eq (map (fun j => map (fun i => @weight _ qcc_ops One Two 6 i j) (seq 0 4)) (seq 0 6))
          [qv [1; 0; 0; 0]; hv [0; 1; 0; 0]; hv [0; 0; 1; 0]; qv [0; 0; 0; 1]; hv [0; 0; 1; 0]; hv [0; 1; 0; 0]] = true
  /\ rows_eq (map (fun j => map (fun i => @weight _ qcc_ops Center One 5 i j) (seq 0 5)) (seq 0 3))
          [qv [0; 0; 1; 0; 0]; qv [0; 1; 0; 1; 0]; qv [1; 0; 0; 0; 1]] = true.
Proof. vm_compute. split; reflexivity. Qed.
(* the symmetry hypothesis of one_two_one / convert_compose is necessary: a non-symmetric two-sided
   vector is not restored by twosided -> onesided -> twosided (this path is closed to complex data,
   and real data never hold such a vector) *)
Example one_two_one_needs_symmetry :
  @one2two _ qcc_ops 4 (@two2one _ qcc_ops (qv [0; 1; 0; 0])) = qv [0; 1; 0; 1].
Proof. vm_compute. reflexivity. Qed.

Print Assumptions convert_length.
Print Assumptions convert_axis.
Print Assumptions convert_power.
Print Assumptions center_two_center.
Print Assumptions two_center_two.
Print Assumptions two_one_two.
Print Assumptions one_two_one.
Print Assumptions one2two_symmetric.
Print Assumptions convert_compose.
Print Assumptions convert_path_independent.
Print Assumptions convert_path_fold.
Print Assumptions convert_path_direct.
Print Assumptions convert_roundtrip.
Print Assumptions convert_path_real.
Print Assumptions convert_path_complex.
Print Assumptions complex_onesided_raises.
Print Assumptions reachable_wf.
Print Assumptions tools_onesided_2_twosided_is_conv.
Print Assumptions cshift_inverse.
Print Assumptions cshift_invariants.
