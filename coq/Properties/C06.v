Require Import Spectrum.Theory.Ops Spectrum.Model.Convert.
