(* C04 — Frequency-shift covariance and conjugate symmetry of two-sided spectra.  Statements only.

   tw is the DFT character (tw a = exp(-2 pi i a / n)); modulating sample j by tw(-(m*j)) is multiplying it by
   exp(+2 pi i m j / n) ([vmod (shift_phase m) 0 x]).  [rot m l] is numpy.roll(l, m) (entry k = l[(k-m) mod len]),
   [mirror l] is l[(-k) mod len], [vconj] the conjugated list, [vrevconj x] = conj(x[::-1]).
   Abstract *-field + twiddle character; every length N, every NFFT n >= 1, every shift m in Z, every bin.

   PROVED
     DFT          dft_shift dft_mirror dft_bins_periodic dft_time_reversal (function level, bins in Z);
                  fft_roll fft_mirror (the executable numpy.fft.fft model: fft(x e^{..}) = roll(fft x, m), fft(conj x) = conj(mirror))
     correlation  acorr_modulation acorr_conj acorr_time_reversal
     LEVINSON     levinson_modulation levinson_conj
     periodogram  periodogram_shift (any window, cropping allowed, detrend off) periodogram_mirror (real window)
                  periodogram_reversal (real symmetric window, N <= NFFT)
     correlogram  correlogram_shift correlogram_mirror correlogram_reversal (auto-correlogram, both correlation back ends,
                  every normalisation, every lag / NFFT incl. the overlapping layouts and the error branches)
     arma2psd     arma2psd_rotation (AR and MA coefficient j times tw(-m(j+1)) => spectrum rolled by m; default and centerdc
                  sides; same raise branches) arma2psd_mirror (conjugated coefficients => mirrored)
     Yule-Walker  aryule_shift aryule_mirror aryule_time_reversal; class spectrum pyule_shift pyule_mirror pyule_reversal
     Burg         burg_modulation (reflection / AR coefficient j times tw(-m(j+1)), rho unchanged, same ValueError and
                  order-selection decisions) burg_conj burg_time_reversal; class spectrum pburg_shift pburg_mirror pburg_reversal
     covariance   arcovar_modulation arcovar_conj modcovar_modulation modcovar_conj modcovar_time_reversal (corrmtx + the executable
                  solver [ls_solve] = Gaussian elimination on the normal equations with its exact zero tests + the code's
                  post-processing incl. the 'wierd behaviour' assertion; no side condition: a zero pivot is None on both sides);
                  class spectra pcovar_shift pcovar_mirror pmodcovar_shift pmodcovar_mirror pmodcovar_reversal
     MA           ma_modulation ma_conj ma_time_reversal (arma.ma = aryule twice); class spectrum pma_shift pma_mirror pma_reversal
     ARMA         (the model of C15, Model/ArmaEst.v + Model/ArmaCall.v)  acorr_modulation_offset (a constant phase in front of the data
                  is not seen), arma_ma_modulation (ArmaEst.ma, any phase offset), arma_estimate_modulation_solvers: x_n -> x_n phi(n)
                  gives AR coefficient j times phi(j+1), MA coefficient j times phi(j+1), the same variance and the same exception, for
                  EVERY P, Q, lag and any two pairs of covariance-method oracles that are equivariant on the system they are handed
                  (y_k -> y_k phi(k+Q+1-P)); arma_estimate_modulation: one equivariant pair; ls_cov_modulation: the executable solver of
                  Model/Ls.v is equivariant for every phase offset (no side condition); ls_exact_modulation / ls_exact_conjugation: so are the
                  oracles of C15's correspondence run (elimination without pivoting or zero tests) whenever no pivot vanishes, hence
                  arma_estimate_exact_modulation / parma_exact_shift (and, ordered, arma_estimate_exact_conj / parma_exact_mirror) hold for
                  exactly the instance C15 ties to the code with NO oracle hypothesis; arma_class_call_rotation / _mirror: what the six
                  AR/MA/ARMA __call__ pipelines store for complex data is rolled by m bins / mirrored; parma_shift_solvers parma_shift
                  pma_object_shift: parma / pma objects built from the modulated data store the modulated ar / ma, the same rho and the
                  PSD rolled by m bins (or raise the same exception).
                  [ordered *-field: characteristic 0 and positive Levinson powers] arma_ma_conj arma_estimate_conj_solvers
                  arma_estimate_conj ls_cov_conj parma_mirror_solvers parma_mirror pma_object_mirror: conjugated data => conjugated
                  coefficients, same rho, mirrored stored PSD; guard: the residual handed to ma (the data, for pma) is not identically zero
     min. variance  minvar_shift minvar_mirror minvar_time_reversal (every order / NFFT incl. aliased grids)
     multitaper   multitaper_shift multitaper_mirror multitaper_reversal: MultiTapering.__call__ on complex data, methods
                  unity / eigen / adapt (the adaptive iteration runs in lock step: pointwise update, rotation-invariant stop test)
     class level  class_stored_rotation class_stored_mirror (PipelineLib.stored commutes with roll / mirror when the complex
                  store is "as is"), onesided_static (slice-and-double store = 2 x first bins of the two-sided store);
                  the rows of the GENERATED table are checked against their hypotheses on every run (tools/props/C04.py)
     real data    acorr_real_path levinson_real_path aryule_real_path arburg_real_path: the model at a real field R and at F
                  commute with any *-homomorphism R -> F ("real samples declared complex give the same parameters");
                  aryule_real_parameters arburg_real_parameters: real data => real AR / reflection coefficients
     MUSIC / EV   (Model/Eigen.v; numpy.linalg.svd is an oracle: (S, Vh) universally quantified, constrained by C17's [svd_spec] where stated)
                  eigen_fb_modulation eigen_fb_rowphase_unit eigen_fb_conj: FB(x . phi) = D_rows FB(x) D_cols (forward row r: phi(r+P-1), conjugated
                  backward row r: phi(-(r+1)), column k: phi(-k); all unimodular; the 100-row cap included), FB(conj x) = conj FB(x);
                  eigen_shift eigen_mirror pmusic_pev_shift pmusic_pev_mirror: for EVERY (S, Vh) (no hypothesis) the model run on the transformed data with
                  (S, Vh . conj phi) resp. (S, conj Vh) returns the pseudo-spectrum rolled by m bins resp. mirrored (eigen(): centred layout, mirror about the
                  centre bin; pmusic / pev on complex data: two-sided layout incl. scale()), the same singular values, the same exception -- every NSIG rule
                  (explicit / threshold / AIC-MDL index), method, EV floor, NFFT >= 1;
                  eigen_svd_modulation eigen_svd_conj: (S, Vh) meets the SVD specification for FB(x) => those pairs meet it for the transformed matrix;
                  singular_values_unique noise_form_unique music_ev_svd_independent pmusic_pev_svd_independent: two pairs meeting the specification for the
                  SAME matrix have the same singular values and, when the noise subspace is determined (S_(NSIG-1) > S_NSIG, or NSIG = 0, or NSIG >= P),
                  the same MUSIC and EV denominators at every bin and the same eigen / pmusic / pev output;
                  singular_values_shift singular_values_conj eigen_shift_any_svd eigen_mirror_any_svd pmusic_pev_shift_any_svd pmusic_pev_mirror_any_svd:
                  ANY pair meeting the specification for FB(x), ANY pair meeting it for the transformed matrix, gap at the chosen NSIG => equal singular values,
                  output rolled by m bins / mirrored.  What this does NOT claim: that numpy's floating-point svd meets the specification (C17's correspondence
                  checks it per run), and anything when S_(NSIG-1) = S_NSIG (the noise subspace is then a choice of the SVD routine; only the first four
                  theorems, about the exhibited pair, apply).  The AIC/MDL argmin is one natural number on both sides (S is equal by theorem).
                  Over the generated table (tools/props/_c04_theorems.v.in): class_rotation_subspace class_mirror_subspace routing_subspace.
     Daniell      daniell_shift_presmoothing daniell_mirror_presmoothing: DaniellPeriodogram applies its smoother to the rolled / mirrored periodogram
                  (nothing more is true: Example daniell_not_a_rotation)
     class level  class_stored_center_rotation class_stored_center_mirror (store = centerdc_2_twosided, the complex store of pmusic / pev)
                  class_stored_two2one two2one_entries (store = twosided_2_onesided, the real store of pcorrelogram)
     correlogram, real data   over the generated table: correlogram_fold (what pcorrelogram stores for real data is twosided_2_onesided of what it
                  stores for the same spectrum declared complex: bins 0 and NFFT/2 kept, the others doubled)
   Hypotheses that are not decoration: conjugation / real-path theorems divide, so they assume the quantities the code divides
   by are nonzero (N, N-k, mean power for 'coeff', the error powers / Burg denominators of the executed stages) -- conj(a/0)
   is not determined in an abstract field and the code produces inf/nan there.

   NOT PROVED (search on the implementation only): that arcovar_marple / scipy lstsq inside arma_estimate are equivariant (they are
   the oracles [lsm], [lsq] of the model: hypothesis of the theorems, proved for the executable solver); for pmusic / pev: that numpy's svd meets
   [svd_spec], and the degenerate case S_(NSIG-1) = S_NSIG; "twice the first half" for the real-data correlogram (false at bins 0 and NFFT/2: correlogram_fold;
   not a clause of the statement), pdaniell (decimating smoother: no rotation by m bins on its output grid -- daniell_shift_presmoothing /
   daniell_mirror_presmoothing state what is true: the smoother is applied to the rolled / mirrored periodogram; Example daniell_not_a_rotation
   shows the output is not a rotation); arma2psd with norm=True.  scipy.linalg.lstsq is represented by the
   executable solver ls_solve (any solver of the normal equations agrees with it on full-rank data: C09). *)
From Coq Require Import String.
Require Import Spectrum.Model.ArmaEst Spectrum.Model.ArmaCall.   (* before Yule / Arma2psd: their aryule, arma2psd stay the unqualified ones *)
Require Import Spectrum.Theory.Order.
Require Import Spectrum.Theory.Ops Spectrum.Theory.Sum Spectrum.Theory.Vec Spectrum.Theory.Dft
               Spectrum.Model.Levinson Spectrum.Model.Corr Spectrum.Model.Periodogram Spectrum.Model.Arma2psd
               Spectrum.Model.Yule Spectrum.Model.Burg Spectrum.Model.Minvar Spectrum.Model.Mtm Spectrum.Model.PipelineLib
               Spectrum.Model.Ls Spectrum.Model.MaEst
               Spectrum.Proofs.ShiftTheory Spectrum.Proofs.YuleExt Spectrum.Proofs.MtmTheory
               Spectrum.Proofs.ShiftDft_C04 Spectrum.Proofs.ShiftPeriodogram_C04 Spectrum.Proofs.ShiftCorrelogram_C04
               Spectrum.Proofs.ShiftArma_C04 Spectrum.Proofs.ShiftBurg_C04 Spectrum.Proofs.ShiftMinvar_C04
               Spectrum.Proofs.ShiftMtm_C04 Spectrum.Proofs.HomTransfer_C04 Spectrum.Proofs.ShiftPipeline_C04
               Spectrum.Proofs.ShiftMa_C04 Spectrum.Proofs.ShiftLs_C04
               Spectrum.Proofs.ArmaEstNondeg Spectrum.Proofs.ShiftArmaEst_C04 Spectrum.Proofs.ShiftLsExact_C04 Spectrum.Instances.QcCOrd
               Spectrum.Model.Eigen Spectrum.Proofs.EigenFB Spectrum.Proofs.EigenTheory Spectrum.Proofs.ShiftEigen_C04
               Spectrum.Proofs.EigenUnique_C04 Spectrum.Proofs.ShiftEigenAny_C04 Spectrum.Proofs.MtmExample
               Spectrum.Model.Daniell Spectrum.Proofs.ShiftDaniell_C04 Spectrum.Proofs.ShiftPipelineEigen_C04 Spectrum.Proofs.ShiftPipelineFold_C04
               Spectrum.Instances.QcC Spectrum.Instances.QcCTw.
From Coq Require Import QArith Qcanon.

Section C04.
Context {F : Type} {OF : Ops F} {L : Laws OF}.
Context (n : nat) (tw : Z -> F) {T : Twiddle n tw} (n_pos : (0 < n)%nat).
Local Open Scope F_scope.

Theorem dft_shift N (x : nat -> F) (m k : Z) :
  dftN tw N (fun j => x j * tw (- (m * Z.of_nat j))%Z) k = dftN tw N x (k - m)%Z.
Proof. exact (dft_modulation n tw n_pos N x m k). Qed.

Theorem dft_mirror N (x : nat -> F) (k : Z) :
  dftN tw N (fun j => conj (x j)) k = conj (dftN tw N x (- k)%Z).
Proof. exact (dft_conj n tw n_pos N x k). Qed.

Theorem dft_bins_periodic N (x : nat -> F) (k j : Z) : dftN tw N x (k + j * Z.of_nat n)%Z = dftN tw N x k.
Proof. exact (dft_periodic n tw n_pos N x k j). Qed.

Theorem dft_time_reversal N (x : nat -> F) (k : Z) :
  dftN tw N (fun j => x (N - 1 - j)%nat) k = tw ((Z.of_nat N - 1) * k)%Z * dftN tw N x (- k)%Z.
Proof. exact (dft_reverse n tw n_pos N x k). Qed.

(* the phase sequence of a shift by m bins *)
Definition shift_phase (m : Z) : Z -> F := fun a => tw (- (m * a))%Z.
Lemma shift_phase_add m a b : shift_phase m (a + b)%Z = shift_phase m a * shift_phase m b.
Proof. unfold shift_phase. rewrite <- tw_add. f_equal. lia. Qed.
Lemma shift_phase_0 m : shift_phase m 0%Z = 1.
Proof. unfold shift_phase. rewrite Z.mul_0_r. apply tw_0. Qed.
Lemma shift_phase_cj m a : conj (shift_phase m a) = shift_phase m (- a)%Z.
Proof. unfold shift_phase. rewrite tw_cj. f_equal. lia. Qed.

Theorem acorr_modulation (m : Z) (x : list F) ml nm :
  acorr (vmod (shift_phase m) 0 x) ml nm = option_map (vmod (shift_phase m) 0) (acorr x ml nm).
Proof. exact (acorr_modulation_thm (shift_phase m) (shift_phase_add m) (shift_phase_0 m) (shift_phase_cj m) x ml nm). Qed.

Theorem acorr_time_reversal (x : list F) ml nm : acorr (vrevconj x) ml nm = acorr x ml nm.
Proof. exact (acorr_time_reversal_thm x ml nm). Qed.

Theorem levinson_modulation (m : Z) (r : list F) p allow :
  levinson (vmod (shift_phase m) 0 r) p allow = option_map (modst (shift_phase m)) (levinson r p allow).
Proof. exact (levinson_modulation_thm (shift_phase m) (shift_phase_add m) (shift_phase_0 m) (shift_phase_cj m) r p allow). Qed.

(* ---------------- numpy.fft.fft (executable model) ---------------- *)
Theorem fft_roll (m : Z) (v : list F) : dft tw n (vmod (shift_phase m) 0 v) = rot m (dft tw n v).
Proof. exact (dft_list_shift n tw n_pos m v). Qed.

Theorem fft_mirror (v : list F) : dft tw n (vconj v) = vconj (mirror (dft tw n v)).
Proof. exact (dft_list_conj n tw n_pos v). Qed.

(* ---------------- conjugation of the correlation / LEVINSON pair ---------------- *)
Theorem acorr_conj (x : list F) ml nm : (forall k, (1 <= k)%nat -> ofnat k <> 0) -> (nm = Coeff -> mean_pow x <> 0) ->
  acorr (vconj x) ml nm = option_map vconj (acorr x ml nm).
Proof. exact (acorr_conj_thm x ml nm). Qed.

Theorem levinson_conj (r : list F) p allow :
  (forall q A P ks, (q < p)%nat -> levinson r q allow = Some (A, P, ks) -> P <> 0) ->
  levinson (vconj r) p allow = option_map conjst (levinson r p allow).
Proof. exact (levinson_conj_thm r p allow). Qed.

(* ---------------- speriodogram, complex data ---------------- *)
Theorem periodogram_shift twopi (x w : list F) NFFT dt sbf fs (m : Z) :
  resolve NFFT (length x) = n -> py_eq_true dt = false ->
  speriodogram tw twopi (vmod (shift_phase m) 0 x) w NFFT false dt sbf fs
  = rot m (speriodogram tw twopi x w NFFT false dt sbf fs).
Proof. exact (periodogram_shift_thm n tw n_pos twopi x w NFFT dt sbf fs m). Qed.

Theorem periodogram_mirror twopi (x w : list F) NFFT dt sbf fs :
  resolve NFFT (length x) = n -> (forall j, isreal (nthF w j)) -> (py_eq_true dt = true -> ofnat (length x) <> 0) ->
  speriodogram tw twopi (vconj x) w NFFT false dt sbf fs = mirror (speriodogram tw twopi x w NFFT false dt sbf fs).
Proof. exact (periodogram_mirror_thm n tw n_pos twopi x w NFFT dt sbf fs). Qed.

Theorem periodogram_reversal twopi (x w : list F) NFFT dt sbf fs :
  resolve NFFT (length x) = n -> (length x <= n)%nat -> py_eq_true dt = false ->
  (forall j, isreal (nthF w j)) -> (forall j, (j < length x)%nat -> nthF w (length x - 1 - j) = nthF w j) ->
  speriodogram tw twopi (vrevconj x) w NFFT false dt sbf fs = speriodogram tw twopi x w NFFT false dt sbf fs.
Proof. exact (periodogram_reversal_thm n tw n_pos twopi x w NFFT dt sbf fs). Qed.

(* ---------------- CORRELOGRAMPSD, auto-correlogram ---------------- *)
Theorem correlogram_shift rp (x : list F) lag wfull NFFT nm be (m : Z) :
  resolve NFFT (length x) = n ->
  correlogram tw rp (vmod (shift_phase m) 0 x) None lag wfull NFFT nm be
  = option_map (rot m) (correlogram tw rp x None lag wfull NFFT nm be).
Proof. exact (correlogram_shift_thm n tw n_pos rp x lag wfull NFFT nm be m). Qed.

Theorem correlogram_mirror rp (x : list F) lag wfull NFFT nm be :
  resolve NFFT (length x) = n -> (forall t, isreal (nthF wfull t)) ->
  (forall k, (1 <= k)%nat -> ofnat k <> 0) -> (nm = Coeff -> isreal rp /\ rp <> 0) ->
  correlogram tw rp (vconj x) None lag wfull NFFT nm be
  = option_map mirror (correlogram tw rp x None lag wfull NFFT nm be).
Proof. exact (correlogram_mirror_thm n tw n_pos rp x lag wfull NFFT nm be). Qed.

Theorem correlogram_reversal rp (x : list F) lag wfull NFFT nm be :
  correlogram tw rp (vrevconj x) None lag wfull NFFT nm be = correlogram tw rp x None lag wfull NFFT nm be.
Proof. exact (correlogram_reversal_thm tw rp x lag wfull NFFT nm be). Qed.

(* the rms product handed to 'coeff' is itself invariant *)
Theorem mean_power_invariant (m : Z) (x : list F) :
  mean_pow (vmod (shift_phase m) 0 x) = mean_pow x /\ mean_pow (vconj x) = mean_pow x /\ mean_pow (vrevconj x) = mean_pow x.
Proof.
  exact (Logic.conj (mean_pow_mod (shift_phase m) (shift_phase_add m) (shift_phase_0 m) (shift_phase_cj m) x)
              (Logic.conj (mean_pow_conj x) (mean_power_revconj x))).
Qed.

(* ---------------- arma2psd ---------------- *)
Theorem arma2psd_rotation (m : Z) (A B : option (list F)) rho Ts sides :
  arma2psd tw (option_map (vmod (shift_phase m) 1) A) (option_map (vmod (shift_phase m) 1) B) rho Ts n sides false
  = option_map (rot m) (arma2psd tw A B rho Ts n sides false).
Proof. exact (arma2psd_rotation_thm n tw n_pos m A B rho Ts sides). Qed.

Theorem arma2psd_mirror (A B : option (list F)) rho Ts :
  arma2psd tw (option_map vconj A) (option_map vconj B) rho Ts n SidesDefault false
  = option_map mirror (arma2psd tw A B rho Ts n SidesDefault false).
Proof. exact (arma2psd_mirror_thm n tw n_pos A B rho Ts). Qed.

(* ---------------- Yule-Walker ---------------- *)
Theorem aryule_shift (m : Z) (x : list F) order nm allow :
  aryule (vmod (shift_phase m) 0 x) order nm allow = map_yw (modst (shift_phase m)) (aryule x order nm allow).
Proof. exact (aryule_modulation_thm (shift_phase m) (shift_phase_add m) (shift_phase_0 m) (shift_phase_cj m) x order nm allow). Qed.

Theorem aryule_mirror (x : list F) order nm allow : (forall k, (1 <= k)%nat -> ofnat k <> 0) ->
  (forall r q A P ks, acorr x order nm = Some r -> (q < length r - 1)%nat -> levinson r q allow = Some (A, P, ks) -> P <> 0) ->
  aryule (vconj x) order nm allow = map_yw conjst (aryule x order nm allow).
Proof. exact (aryule_conj_thm x order nm allow). Qed.

Theorem aryule_time_reversal (x : list F) order nm allow : aryule (vrevconj x) order nm allow = aryule x order nm allow.
Proof. exact (aryule_time_reversal_thm x order nm allow). Qed.

Theorem pyule_shift (x : list F) order nm (m : Z) :
  pyule_S tw (vmod (shift_phase m) 0 x) order nm n = option_map (rot m) (pyule_S tw x order nm n).
Proof. exact (pyule_S_shift n tw n_pos x order nm m). Qed.

Theorem pyule_mirror (x : list F) order nm : (forall k, (1 <= k)%nat -> ofnat k <> 0) ->
  (forall r q A P ks, acorr x order nm = Some r -> (q < length r - 1)%nat -> levinson r q true = Some (A, P, ks) -> P <> 0) ->
  pyule_S tw (vconj x) order nm n = option_map mirror (pyule_S tw x order nm n).
Proof. exact (pyule_S_mirror n tw n_pos x order nm). Qed.

Theorem pyule_reversal (x : list F) order nm : pyule_S tw (vrevconj x) order nm n = pyule_S tw x order nm n.
Proof. exact (pyule_S_reversal n tw x order nm). Qed.

(* ---------------- Burg ---------------- *)
Theorem burg_modulation (m : Z) (x : list F) order stop :
  arburg (vmod (shift_phase m) 0 x) order stop = option_map (modst (shift_phase m)) (arburg x order stop).
Proof. exact (arburg_modulation_thm (shift_phase m) (shift_phase_add m) (shift_phase_0 m) (shift_phase_cj m) x order stop). Qed.

Theorem burg_conj (x : list F) order stop : ofnat (length x) <> 0 ->
  (forall q st, (q < order)%nat -> burg_iter stop x q = BCont st -> burg_den (length x) st q <> 0) ->
  arburg (vconj x) order stop = option_map conjst (arburg x order stop).
Proof. exact (arburg_conj_thm x order stop). Qed.

Theorem burg_time_reversal (x : list F) order stop : arburg (vrevconj x) order stop = arburg x order stop.
Proof. exact (arburg_time_reversal_thm x order stop). Qed.

Theorem pburg_shift (x : list F) order stop (m : Z) :
  pburg_S tw (vmod (shift_phase m) 0 x) order stop n = option_map (rot m) (pburg_S tw x order stop n).
Proof. exact (pburg_S_shift n tw n_pos x order stop m). Qed.

Theorem pburg_mirror (x : list F) order stop : ofnat (length x) <> 0 ->
  (forall q st, (q < order)%nat -> burg_iter stop x q = BCont st -> burg_den (length x) st q <> 0) ->
  pburg_S tw (vconj x) order stop n = option_map mirror (pburg_S tw x order stop n).
Proof. exact (pburg_S_mirror n tw n_pos x order stop). Qed.

Theorem pburg_reversal (x : list F) order stop : pburg_S tw (vrevconj x) order stop n = pburg_S tw x order stop n.
Proof. exact (pburg_S_reversal n tw x order stop). Qed.

(* ---------------- covariance / modified covariance (executable least-squares solver) ---------------- *)
Theorem arcovar_modulation (m : Z) tol (x : list F) p :
  arcovar tol (vmod (shift_phase m) 0 x) p = map_ae (modA (shift_phase m)) (arcovar tol x p).
Proof. exact (arcovar_modulation_thm (shift_phase m) (shift_phase_add m) (shift_phase_0 m) (shift_phase_cj m) tol x p). Qed.

Theorem arcovar_conj tol (x : list F) p : arcovar tol (vconj x) p = map_ae vconj (arcovar tol x p).
Proof. exact (arcovar_conj_thm tol x p). Qed.

Theorem modcovar_modulation (m : Z) tol (x : list F) p :
  modcovar tol (vmod (shift_phase m) 0 x) p = map_ae (modA (shift_phase m)) (modcovar tol x p).
Proof. exact (modcovar_modulation_thm (shift_phase m) (shift_phase_add m) (shift_phase_0 m) (shift_phase_cj m) tol x p). Qed.

Theorem modcovar_conj tol (x : list F) p : modcovar tol (vconj x) p = map_ae vconj (modcovar tol x p).
Proof. exact (modcovar_conj_thm tol x p). Qed.

Theorem modcovar_time_reversal tol (x : list F) p : modcovar tol (vrevconj x) p = modcovar tol x p.
Proof. exact (modcovar_time_reversal_thm tol x p). Qed.

Theorem pcovar_shift tol (x : list F) p (m : Z) :
  pcovar_S tw tol (vmod (shift_phase m) 0 x) p n = option_map (rot m) (pcovar_S tw tol x p n).
Proof. exact (pcovar_S_shift n tw n_pos tol x p m). Qed.

Theorem pcovar_mirror tol (x : list F) p : pcovar_S tw tol (vconj x) p n = option_map mirror (pcovar_S tw tol x p n).
Proof. exact (pcovar_S_mirror n tw n_pos tol x p). Qed.

Theorem pmodcovar_shift tol (x : list F) p (m : Z) :
  pmodcovar_S tw tol (vmod (shift_phase m) 0 x) p n = option_map (rot m) (pmodcovar_S tw tol x p n).
Proof. exact (pmodcovar_S_shift n tw n_pos tol x p m). Qed.

Theorem pmodcovar_mirror tol (x : list F) p : pmodcovar_S tw tol (vconj x) p n = option_map mirror (pmodcovar_S tw tol x p n).
Proof. exact (pmodcovar_S_mirror n tw n_pos tol x p). Qed.

Theorem pmodcovar_reversal tol (x : list F) p : pmodcovar_S tw tol (vrevconj x) p n = pmodcovar_S tw tol x p n.
Proof. exact (pmodcovar_S_reversal n tw tol x p). Qed.

(* ---------------- arma.ma (aryule twice) and pma ---------------- *)
Theorem ma_modulation (m : Z) (x : list F) Q M :
  ma_est (vmod (shift_phase m) 0 x) Q M = map_ma (modA (shift_phase m)) (ma_est x Q M).
Proof. exact (ma_modulation_thm (shift_phase m) (shift_phase_add m) (shift_phase_0 m) (shift_phase_cj m) x Q M). Qed.

Theorem ma_conj (x : list F) Q M : (forall k, (1 <= k)%nat -> ofnat k <> 0) -> yw_regular x M ->
  (forall a rho k, aryule x M Biased true = inr (a, rho, k) -> yw_regular (1 :: a) Q) ->
  ma_est (vconj x) Q M = map_ma vconj (ma_est x Q M).
Proof. exact (ma_conj_thm x Q M). Qed.

Theorem ma_time_reversal (x : list F) Q M : ma_est (vrevconj x) Q M = ma_est x Q M.
Proof. exact (ma_time_reversal_thm x Q M). Qed.

Theorem pma_shift (x : list F) Q M (m : Z) :
  pma_S tw (vmod (shift_phase m) 0 x) Q M n = option_map (rot m) (pma_S tw x Q M n).
Proof. exact (pma_S_shift n tw n_pos x Q M m). Qed.

Theorem pma_mirror (x : list F) Q M : (forall k, (1 <= k)%nat -> ofnat k <> 0) -> yw_regular x M ->
  (forall a rho k, aryule x M Biased true = inr (a, rho, k) -> yw_regular (1 :: a) Q) ->
  pma_S tw (vconj x) Q M n = option_map mirror (pma_S tw x Q M n).
Proof. exact (pma_S_mirror n tw n_pos x Q M). Qed.

Theorem pma_reversal (x : list F) Q M : pma_S tw (vrevconj x) Q M n = pma_S tw x Q M n.
Proof. exact (pma_S_reversal n tw x Q M). Qed.

(* ---------------- minimum variance ---------------- *)
Theorem minvar_shift (x : list F) order fs (m : Z) :
  minvar tw (vmod (shift_phase m) 0 x) order fs n = option_map (mod3 tw m) (minvar tw x order fs n).
Proof. exact (minvar_shift_thm n tw n_pos x order fs m). Qed.

Theorem minvar_mirror (x : list F) order fs : ofnat (length x) <> 0 ->
  (forall q st, (q < order - 1)%nat -> burg_iter no_stop x q = BCont st -> burg_den (length x) st q <> 0) ->
  minvar tw (vconj x) order fs n = option_map conj3 (minvar tw x order fs n).
Proof. exact (minvar_mirror_thm n tw n_pos x order fs). Qed.

Theorem minvar_time_reversal (x : list F) order fs : minvar tw (vrevconj x) order fs n = minvar tw x order fs n.
Proof. exact (minvar_time_reversal_thm tw x order fs n). Qed.

(* ---------------- multitaper (MultiTapering.__call__, complex data; dpss is an oracle) ---------------- *)
Theorem multitaper_shift {NWT : Type} (dpss : nat -> NWT -> option nat -> list (list F) * list F) fuel (x : list F) NW k nfft e v mth sbf scale (m : Z) :
  (match nfft with Some n' => n' | None => length x end) = n ->
  mt_call dpss fuel tw false (vmod (shift_phase m) 0 x) NW k nfft e v mth sbf scale
  = option_map (rot m) (mt_call dpss fuel tw false x NW k nfft e v mth sbf scale).
Proof. exact (mt_call_shift_thm n tw n_pos dpss fuel x NW k nfft e v mth sbf scale m). Qed.

Theorem multitaper_mirror {NWT : Type} (dpss : nat -> NWT -> option nat -> list (list F) * list F) fuel (x : list F) NW k nfft e v mth sbf scale :
  (match nfft with Some n' => n' | None => length x end) = n ->
  (forall tv, pmtm_inputs dpss (length x) NW k e v = Some tv -> forall t, In t (fst tv) -> forall j, isreal (nthF t j)) ->
  mt_call dpss fuel tw false (vconj x) NW k nfft e v mth sbf scale
  = option_map mirror (mt_call dpss fuel tw false x NW k nfft e v mth sbf scale).
Proof. exact (mt_call_mirror_thm n tw n_pos dpss fuel x NW k nfft e v mth sbf scale). Qed.

Theorem multitaper_reversal {NWT : Type} (dpss : nat -> NWT -> option nat -> list (list F) * list F) fuel (x : list F) NW k nfft e v mth sbf scale :
  (match nfft with Some n' => n' | None => length x end) = n -> (length x <= n)%nat ->
  (forall tv, pmtm_inputs dpss (length x) NW k e v = Some tv -> forall t, In t (fst tv) -> sym_taper (length x) t) ->
  mt_call dpss fuel tw false (vrevconj x) NW k nfft e v mth sbf scale
  = mt_call dpss fuel tw false x NW k nfft e v mth sbf scale.
Proof. exact (mt_call_reversal_thm n tw n_pos dpss fuel x NW k nfft e v mth sbf scale). Qed.

(* ---------------- class level: PipelineLib.stored ---------------- *)
Theorem class_stored_rotation twopi pm p sbf (s : sstate) (Sp : list F) (m : Z) : p_cplx p = SAsIs ->
  stored twopi pm p false sbf s (rot m Sp) = rot m (stored twopi pm p false sbf s Sp).
Proof. exact (stored_cplx_rot twopi pm p sbf s Sp m). Qed.

Theorem class_stored_mirror twopi pm p sbf (s : sstate) (Sp : list F) : p_cplx p = SAsIs ->
  stored twopi pm p false sbf s (mirror Sp) = mirror (stored twopi pm p false sbf s Sp).
Proof. exact (stored_cplx_mirror twopi pm p sbf s Sp). Qed.

Theorem onesided_static twopi pm p sbf (s : sstate) (Sp : list F) :
  p_real p = SHalf HalfPlus1 HalfUp 2 false -> p_cplx p = SAsIs -> p_scale_real p = p_scale_cplx p ->
  st_range_N s = st_NFFT s -> length Sp = st_NFFT s ->
  stored twopi pm p true sbf s Sp
  = vscale (ofnat 2) (firstn (onesided_len (st_NFFT s)) (stored twopi pm p false sbf s Sp)).
Proof. exact (stored_half twopi pm p sbf s Sp). Qed.

(* ---------------- real data: real parameters ---------------- *)
Theorem aryule_real_parameters (x : list F) order nm allow a P k : allreal x -> (forall j, (1 <= j)%nat -> ofnat j <> 0) ->
  (forall r q A P ks, acorr x order nm = Some r -> (q < length r - 1)%nat -> levinson r q allow = Some (A, P, ks) -> P <> 0) ->
  aryule x order nm allow = inr (a, P, k) -> allreal a /\ allreal k.
Proof. exact (aryule_real_thm x order nm allow a P k). Qed.

Theorem arburg_real_parameters (x : list F) order stop a rho k : allreal x -> ofnat (length x) <> 0 ->
  (forall q st, (q < order)%nat -> burg_iter stop x q = BCont st -> burg_den (length x) st q <> 0) ->
  arburg x order stop = Some (a, rho, k) -> allreal a /\ allreal k.
Proof. exact (arburg_real_thm x order stop a rho k). Qed.

(* ---------------- arma.ma, arma.arma_estimate, parma / pma over the model of C15 ---------------- *)
Theorem acorr_modulation_offset (m off : Z) (x : list F) ml nm :
  acorr (vmod (shift_phase m) off x) ml nm = option_map (vmod (shift_phase m) 0) (acorr x ml nm).
Proof. exact (acorr_modulation_off_thm (shift_phase m) (shift_phase_add m) (shift_phase_0 m) (shift_phase_cj m) off x ml nm). Qed.

Theorem arma_ma_modulation (m off : Z) (x : list F) Q M :
  ArmaEst.ma (vmod (shift_phase m) off x) Q M = map_mae (modA (shift_phase m)) (ArmaEst.ma x Q M).
Proof. exact (ma_est_modulation_thm (shift_phase m) (shift_phase_add m) (shift_phase_0 m) (shift_phase_cj m) off x Q M). Qed.

Theorem arma_estimate_modulation_solvers (m : Z) (lsm lsq lsm' lsq' : list F -> nat -> list F) (x : list F) P Q lag :
  (forall r, acorr x lag Unbiased = Some r ->
     let y := arma_y r P Q lag in let off := (Z.of_nat Q + 1 - Z.of_nat P)%Z in
     firstn P (lsm' (vmod (shift_phase m) off y) P) = modA (shift_phase m) (firstn P (lsm y P))
     /\ lsq' (vmod (shift_phase m) off y) P = modA (shift_phase m) (lsq y P)) ->
  arma_estimate lsm' lsq' (vmod (shift_phase m) 0 x) P Q lag
  = match arma_estimate lsm lsq x P Q lag with
    | inl e => inl e
    | inr (a, b, rho) => inr (modA (shift_phase m) a, modA (shift_phase m) b, rho)
    end.
Proof. exact (arma_estimate_modulation_gen (shift_phase m) (shift_phase_add m) (shift_phase_0 m) (shift_phase_cj m) lsm lsq lsm' lsq' x P Q lag). Qed.

Theorem arma_estimate_modulation (m : Z) (lsm lsq : list F -> nat -> list F) (x : list F) P Q lag :
  (forall off y p, firstn p (lsm (vmod (shift_phase m) off y) p) = modA (shift_phase m) (firstn p (lsm y p))
                   /\ lsq (vmod (shift_phase m) off y) p = modA (shift_phase m) (lsq y p)) ->
  arma_estimate lsm lsq (vmod (shift_phase m) 0 x) P Q lag = map_arma (modA (shift_phase m)) (arma_estimate lsm lsq x P Q lag).
Proof. exact (arma_estimate_modulation_thm (shift_phase m) (shift_phase_add m) (shift_phase_0 m) (shift_phase_cj m) lsm lsq x P Q lag). Qed.

Theorem ls_cov_modulation (m off : Z) tol (y : list F) p :
  firstn p (lsm_cov tol (vmod (shift_phase m) off y) p) = modA (shift_phase m) (firstn p (lsm_cov tol y p))
  /\ lsq_cov tol (vmod (shift_phase m) off y) p = modA (shift_phase m) (lsq_cov tol y p).
Proof. exact (ls_cov_mod_equivariant (shift_phase m) (shift_phase_add m) (shift_phase_0 m) (shift_phase_cj m) tol off y p). Qed.

Theorem arma_class_call_rotation (m : Z) cl (ar ma : list F) v N order twopi sampling sbf :
  class_call tw cl (modA (shift_phase m) ar) (modA (shift_phase m) ma) v N order twopi sampling n false sbf
  = map_call (modA (shift_phase m)) (rot m) (class_call tw cl ar ma v N order twopi sampling n false sbf).
Proof. exact (class_call_rotation n tw n_pos m cl ar ma v N order twopi sampling sbf). Qed.

Theorem arma_class_call_mirror cl (ar ma : list F) v N order twopi sampling sbf :
  class_call tw cl (vconj ar) (vconj ma) v N order twopi sampling n false sbf
  = map_call vconj mirror (class_call tw cl ar ma v N order twopi sampling n false sbf).
Proof. exact (class_call_mirror n tw n_pos cl ar ma v N order twopi sampling sbf). Qed.

Theorem parma_shift_solvers (m : Z) (lsm lsq lsm' lsq' : list F -> nat -> list F) (x : list F) P Q lag twopi sampling sbf :
  (forall r, acorr x lag Unbiased = Some r ->
     let y := arma_y r P Q lag in let off := (Z.of_nat Q + 1 - Z.of_nat P)%Z in
     firstn P (lsm' (vmod (shift_phase m) off y) P) = modA (shift_phase m) (firstn P (lsm y P))
     /\ lsq' (vmod (shift_phase m) off y) P = modA (shift_phase m) (lsq y P)) ->
  parma_call tw lsm' lsq' (vmod (shift_phase m) 0 x) P Q lag twopi sampling n false sbf
  = map_call (modA (shift_phase m)) (rot m) (parma_call tw lsm lsq x P Q lag twopi sampling n false sbf).
Proof. exact (parma_shift_gen n tw n_pos m lsm lsq lsm' lsq' x P Q lag twopi sampling sbf). Qed.

Theorem parma_shift (m : Z) (lsm lsq : list F -> nat -> list F) (x : list F) P Q lag twopi sampling sbf :
  (forall off y p, firstn p (lsm (vmod (shift_phase m) off y) p) = modA (shift_phase m) (firstn p (lsm y p))
                   /\ lsq (vmod (shift_phase m) off y) p = modA (shift_phase m) (lsq y p)) ->
  parma_call tw lsm lsq (vmod (shift_phase m) 0 x) P Q lag twopi sampling n false sbf
  = map_call (modA (shift_phase m)) (rot m) (parma_call tw lsm lsq x P Q lag twopi sampling n false sbf).
Proof. exact (parma_shift_thm n tw n_pos m lsm lsq x P Q lag twopi sampling sbf). Qed.

Theorem pma_object_shift (m : Z) (x : list F) Q M twopi sampling sbf :
  pma_call tw (vmod (shift_phase m) 0 x) Q M twopi sampling n false sbf
  = map_call (modA (shift_phase m)) (rot m) (pma_call tw x Q M twopi sampling n false sbf).
Proof. exact (pma_call_shift_thm n tw n_pos m x Q M twopi sampling sbf). Qed.

(* the oracles of C15's correspondence run: equivariant when no pivot of their elimination vanishes *)
Theorem ls_exact_modulation (m off : Z) (y : list F) p : ls_exact_regular y p ->
  firstn p (lsm_exact (vmod (shift_phase m) off y) p) = modA (shift_phase m) (firstn p (lsm_exact y p))
  /\ ls_exact (vmod (shift_phase m) off y) p = modA (shift_phase m) (ls_exact y p).
Proof.
  exact (fun Hr => Logic.conj (lsm_exact_modulation (shift_phase m) (shift_phase_add m) (shift_phase_0 m) (shift_phase_cj m) off y p Hr)
                              (ShiftLsExact_C04.ls_exact_modulation (shift_phase m) (shift_phase_add m) (shift_phase_0 m) (shift_phase_cj m) off y p Hr)).
Qed.

Theorem ls_exact_conjugation (y : list F) p : ls_exact_regular y p ->
  firstn p (lsm_exact (vconj y) p) = vconj (firstn p (lsm_exact y p)) /\ ls_exact (vconj y) p = vconj (ls_exact y p).
Proof. exact (fun Hr => Logic.conj (lsm_exact_conj y p Hr) (ls_exact_conj y p Hr)). Qed.

Theorem arma_estimate_exact_modulation (m : Z) (x : list F) P Q lag :
  (forall r, acorr x lag Unbiased = Some r -> ls_exact_regular (arma_y r P Q lag) P) ->
  arma_estimate lsm_exact ls_exact (vmod (shift_phase m) 0 x) P Q lag
  = map_arma (modA (shift_phase m)) (arma_estimate lsm_exact ls_exact x P Q lag).
Proof. exact (arma_estimate_exact_modulation_thm (shift_phase m) (shift_phase_add m) (shift_phase_0 m) (shift_phase_cj m) x P Q lag). Qed.

Theorem parma_exact_shift (m : Z) (x : list F) P Q lag twopi sampling sbf :
  (forall r, acorr x lag Unbiased = Some r -> ls_exact_regular (arma_y r P Q lag) P) ->
  parma_call tw lsm_exact ls_exact (vmod (shift_phase m) 0 x) P Q lag twopi sampling n false sbf
  = map_call (modA (shift_phase m)) (rot m) (parma_call tw lsm_exact ls_exact x P Q lag twopi sampling n false sbf).
Proof. exact (parma_exact_shift_thm n tw n_pos m x P Q lag twopi sampling sbf). Qed.
End C04.

(* ---------------- real data: the real code path and the complex code path return the same parameters ---------------- *)
Section C04Real.
Context {R : Type} {OR : Ops R} {LR : Laws OR}.
Context {F : Type} {OF : Ops F} {L : Laws OF}.
Variable phi : R -> F.
Hypothesis H : StarHom phi.
Hypothesis Hle : forall a : R, le0 (phi a) = le0 a.
Local Open Scope F_scope.

Theorem acorr_real_path (x : list R) ml nm : (forall k, (1 <= k)%nat -> ofnat k <> (0 : R)) -> (nm = Coeff -> mean_pow x <> 0) ->
  acorr (map phi x) ml nm = option_map (map phi) (acorr x ml nm).
Proof. exact (acorr_hom_thm phi H x ml nm). Qed.

Theorem levinson_real_path (r : list R) p allow :
  (forall q A P ks, (q < p)%nat -> levinson r q allow = Some (A, P, ks) -> P <> 0) ->
  levinson (map phi r) p allow = option_map (homst phi) (levinson r p allow).
Proof. exact (levinson_hom_thm phi H Hle r p allow). Qed.

Theorem aryule_real_path (x : list R) order nm allow : (forall k, (1 <= k)%nat -> ofnat k <> (0 : R)) ->
  (forall r q A P ks, acorr x order nm = Some r -> (q < length r - 1)%nat -> levinson r q allow = Some (A, P, ks) -> P <> 0) ->
  aryule (map phi x) order nm allow = hom_yw phi (aryule x order nm allow).
Proof. exact (aryule_hom_thm phi H Hle x order nm allow). Qed.

Theorem arburg_real_path (stopR : nat -> R -> R -> bool) (stopF : nat -> F -> F -> bool) (x : list R) order :
  (forall k a b, stopF k (phi a) (phi b) = stopR k a b) -> ofnat (length x) <> (0 : R) ->
  (forall q st, (q < order)%nat -> burg_iter stopR x q = BCont st -> burg_den (length x) st q <> 0) ->
  arburg (map phi x) order stopF = option_map (homres phi) (arburg x order stopR).
Proof. exact (fun Hs => arburg_hom_thm phi H Hle stopR stopF Hs x order). Qed.
End C04Real.

(* ---------------- conjugation of arma.ma / arma_estimate / parma / pma: ordered *-field ---------------- *)
Section C04ArmaConj.
Context {F : Type} {OF : Ops F} {L : Laws OF} {OL : OrdLaws OF}.
Context (n : nat) (tw : Z -> F) {T : Twiddle n tw} (n_pos : (0 < n)%nat).
Local Open Scope F_scope.

Theorem arma_ma_conj (x : list F) Q M : (forall b rho, ArmaEst.ma x Q M = inr (b, rho) -> nonzero_data x) ->
  ArmaEst.ma (vconj x) Q M = map_mae vconj (ArmaEst.ma x Q M).
Proof. exact (ma_est_conj_thm x Q M). Qed.

Theorem arma_estimate_conj_solvers (lsm lsq lsm' lsq' : list F -> nat -> list F) (x : list F) P Q lag :
  (forall r, acorr x lag Unbiased = Some r ->
     firstn P (lsm' (vconj (arma_y r P Q lag)) P) = vconj (firstn P (lsm (arma_y r P Q lag) P))
     /\ lsq' (vconj (arma_y r P Q lag)) P = vconj (lsq (arma_y r P Q lag) P)) ->
  (forall a b rho, arma_estimate lsm lsq x P Q lag = inr (a, b, rho) -> nonzero_data (arma_resid x a P)) ->
  arma_estimate lsm' lsq' (vconj x) P Q lag
  = match arma_estimate lsm lsq x P Q lag with inl e => inl e | inr (a, b, rho) => inr (vconj a, vconj b, rho) end.
Proof. exact (arma_estimate_conj_gen lsm lsq lsm' lsq' x P Q lag). Qed.

Theorem arma_estimate_conj (lsm lsq : list F -> nat -> list F) (x : list F) P Q lag :
  (forall y p, firstn p (lsm (vconj y) p) = vconj (firstn p (lsm y p)) /\ lsq (vconj y) p = vconj (lsq y p)) ->
  (forall a b rho, arma_estimate lsm lsq x P Q lag = inr (a, b, rho) -> nonzero_data (arma_resid x a P)) ->
  arma_estimate lsm lsq (vconj x) P Q lag = map_arma vconj (arma_estimate lsm lsq x P Q lag).
Proof. exact (arma_estimate_conj_thm lsm lsq x P Q lag). Qed.

Theorem ls_cov_conj tol (y : list F) p :
  firstn p (lsm_cov tol (vconj y) p) = vconj (firstn p (lsm_cov tol y p)) /\ lsq_cov tol (vconj y) p = vconj (lsq_cov tol y p).
Proof. exact (ls_cov_conj_equivariant tol y p). Qed.

Theorem parma_mirror_solvers (lsm lsq lsm' lsq' : list F -> nat -> list F) (x : list F) P Q lag twopi sampling sbf :
  (forall r, acorr x lag Unbiased = Some r ->
     firstn P (lsm' (vconj (arma_y r P Q lag)) P) = vconj (firstn P (lsm (arma_y r P Q lag) P))
     /\ lsq' (vconj (arma_y r P Q lag)) P = vconj (lsq (arma_y r P Q lag) P)) ->
  (forall a b rho, arma_estimate lsm lsq x P Q lag = inr (a, b, rho) -> nonzero_data (arma_resid x a P)) ->
  parma_call tw lsm' lsq' (vconj x) P Q lag twopi sampling n false sbf
  = map_call vconj mirror (parma_call tw lsm lsq x P Q lag twopi sampling n false sbf).
Proof. exact (parma_mirror_gen n tw n_pos lsm lsq lsm' lsq' x P Q lag twopi sampling sbf). Qed.

Theorem parma_mirror (lsm lsq : list F -> nat -> list F) (x : list F) P Q lag twopi sampling sbf :
  (forall y p, firstn p (lsm (vconj y) p) = vconj (firstn p (lsm y p)) /\ lsq (vconj y) p = vconj (lsq y p)) ->
  (forall a b rho, arma_estimate lsm lsq x P Q lag = inr (a, b, rho) -> nonzero_data (arma_resid x a P)) ->
  parma_call tw lsm lsq (vconj x) P Q lag twopi sampling n false sbf
  = map_call vconj mirror (parma_call tw lsm lsq x P Q lag twopi sampling n false sbf).
Proof. exact (parma_mirror_thm n tw n_pos lsm lsq x P Q lag twopi sampling sbf). Qed.

Theorem pma_object_mirror (x : list F) Q M twopi sampling sbf :
  (forall b rho, ArmaEst.ma x Q M = inr (b, rho) -> nonzero_data x) ->
  pma_call tw (vconj x) Q M twopi sampling n false sbf = map_call vconj mirror (pma_call tw x Q M twopi sampling n false sbf).
Proof. exact (pma_call_mirror_thm n tw n_pos x Q M twopi sampling sbf). Qed.

Theorem arma_estimate_exact_conj (x : list F) P Q lag :
  (forall r, acorr x lag Unbiased = Some r -> ls_exact_regular (arma_y r P Q lag) P) ->
  (forall a b rho, arma_estimate lsm_exact ls_exact x P Q lag = inr (a, b, rho) -> nonzero_data (arma_resid x a P)) ->
  arma_estimate lsm_exact ls_exact (vconj x) P Q lag = map_arma vconj (arma_estimate lsm_exact ls_exact x P Q lag).
Proof. exact (arma_estimate_exact_conj_thm x P Q lag). Qed.

Theorem parma_exact_mirror (x : list F) P Q lag twopi sampling sbf :
  (forall r, acorr x lag Unbiased = Some r -> ls_exact_regular (arma_y r P Q lag) P) ->
  (forall a b rho, arma_estimate lsm_exact ls_exact x P Q lag = inr (a, b, rho) -> nonzero_data (arma_resid x a P)) ->
  parma_call tw lsm_exact ls_exact (vconj x) P Q lag twopi sampling n false sbf
  = map_call vconj mirror (parma_call tw lsm_exact ls_exact x P Q lag twopi sampling n false sbf).
Proof. exact (parma_exact_mirror_thm n tw n_pos x P Q lag twopi sampling sbf). Qed.
End C04ArmaConj.


(* ---------------- MUSIC / EV (eigenfre.eigen / music / ev, pmusic / pev): equivariance of the code path ---------------- *)
(* numpy.linalg.svd is an oracle: the model receives (S, Vh).  These four theorems hold for EVERY (S, Vh) (no hypothesis):
   the model run on the modulated data with the rows of Vh multiplied by the conjugate phase ramp (resp. on the conjugated data
   with conj Vh) returns the rolled (resp. mirrored) pseudo-spectrum, the same singular values, the same exception. *)
Section C04Eigen.
Context {F : Type} {OF : Ops F} {L : Laws OF}.
Context (n : nat) (tw : Z -> F) {T : Twiddle n tw} (n_pos : (0 < n)%nat).
Local Open Scope F_scope.

(* FB(x . phi) = D_rows FB(x) D_cols: forward row r gets phi(r+P-1), conjugated backward row r' gets phi(-(r'+1)), column k gets phi(-k) *)
Theorem eigen_fb_modulation (m : Z) (x : list F) P r k :
  mat (fb_matrix (vmod (shift_phase tw m) 0 x) P) r k
  = fb_rowphase (shift_phase tw m) x P r * mat (fb_matrix x P) r k * shift_phase tw m (- Z.of_nat k)%Z.
Proof. exact (fb_matrix_mod_thm (sphase tw m) (sphase_add n tw n_pos m) (sphase_cj n tw n_pos m) x P r k). Qed.

Theorem eigen_fb_rowphase_unit (m : Z) (x : list F) P r : nrm2 (fb_rowphase (shift_phase tw m) x P r) = 1.
Proof. exact (fb_rowphase_nrm2 (sphase tw m) (sphase_add n tw n_pos m) (sphase_0 n tw m) (sphase_cj n tw n_pos m) x P r). Qed.

Theorem eigen_fb_conj (x : list F) P r k : mat (fb_matrix (vconj x) P) r k = conj (mat (fb_matrix x P) r k).
Proof. exact (fb_matrix_conj_thm x P r k). Qed.

Theorem eigen_shift meth eps nsig thr crit amin (m : Z) (x : list F) P S Vh :
  eigen meth eps nsig thr crit amin tw n (vmod (shift_phase tw m) 0 x) P S (vh_mod (shift_phase tw m) Vh)
  = map_eig (rot m) (eigen meth eps nsig thr crit amin tw n x P S Vh).
Proof. exact (eigen_shift_thm n tw n_pos meth eps nsig thr crit amin m x P S Vh). Qed.

Theorem eigen_mirror meth eps nsig thr crit amin (x : list F) P S Vh :
  eigen meth eps nsig thr crit amin tw n (vconj x) P S (vh_conj Vh)
  = map_eig (cmirror n) (eigen meth eps nsig thr crit amin tw n x P S Vh).
Proof. exact (eigen_mirror_thm n tw n_pos meth eps nsig thr crit amin x P S Vh). Qed.

Theorem pmusic_pev_shift meth eps scale nsig thr crit amin (m : Z) (x : list F) P S Vh :
  pclass meth eps false scale nsig thr crit amin tw n (vmod (shift_phase tw m) 0 x) P S (vh_mod (shift_phase tw m) Vh)
  = map_eig (rot m) (pclass meth eps false scale nsig thr crit amin tw n x P S Vh).
Proof. exact (pclass_shift_thm n tw n_pos meth eps scale nsig thr crit amin m x P S Vh). Qed.

Theorem pmusic_pev_mirror meth eps scale nsig thr crit amin (x : list F) P S Vh :
  pclass meth eps false scale nsig thr crit amin tw n (vconj x) P S (vh_conj Vh)
  = map_eig mirror (pclass meth eps false scale nsig thr crit amin tw n x P S Vh).
Proof. exact (pclass_mirror_thm n tw n_pos meth eps scale nsig thr crit amin x P S Vh). Qed.
End C04Eigen.

(* ---------------- MUSIC / EV over the SVD specification (ordered *-field) ---------------- *)
(* [svd_spec FB rows P S Vh] (Proofs/EigenTheory.v) is what the theorems assume of numpy.linalg.svd(FB): P non-negative non-increasing
   singular values, V unitary, FB^H FB V = V diag(S^2).  [noise_gap S P ns]: 0 < ns < P -> S_(ns-1) > S_ns.
   [gap_at_choice]: the gap holds at the subspace dimension the call decides on (explicit NSIG / threshold count / AIC-MDL index + 1). *)
Section C04EigenSvd.
Context {F : Type} {OF : Ops F} {L : Laws OF} {OL : OrdLaws OF}.
Context (n : nat) (tw : Z -> F) {T : Twiddle n tw} (n_pos : (0 < n)%nat).
Local Open Scope F_scope.

(* a pair meeting the specification for the transformed data matrix: same singular values, phase-ramped / conjugated vectors *)
Theorem eigen_svd_modulation (m : Z) (x : list F) rows P S Vh :
  svd_spec (fb_matrix x P) rows P S Vh -> svd_spec (fb_matrix (vmod (shift_phase tw m) 0 x) P) rows P S (vh_mod (shift_phase tw m) Vh).
Proof. exact (svd_spec_shift_thm n tw n_pos m x rows P S Vh). Qed.

Theorem eigen_svd_conj (x : list F) rows P S Vh :
  svd_spec (fb_matrix x P) rows P S Vh -> svd_spec (fb_matrix (vconj x) P) rows P S (vh_conj Vh).
Proof. exact (svd_spec_conj_thm x rows P S Vh). Qed.

(* what the freedom of the SVD routine cannot change *)
Theorem singular_values_unique (FB : list (list F)) rows P S S2 Vh Vh2 :
  svd_spec FB rows P S Vh -> svd_spec FB rows P S2 Vh2 -> S = S2.
Proof. exact (svd_values_list_unique_thm FB rows P S S2 Vh Vh2). Qed.

Theorem noise_form_unique (FB : list (list F)) rows P S S2 Vh Vh2 meth eps ns (b : Z) :
  svd_spec FB rows P S Vh -> svd_spec FB rows P S2 Vh2 -> noise_gap S P ns ->
  dform meth eps tw P S Vh ns b = dform meth eps tw P S2 Vh2 ns b.
Proof. exact (dform_unique_thm FB rows P S S2 Vh Vh2 meth eps tw ns b). Qed.

Theorem music_ev_svd_independent (FB : list (list F)) rows meth eps nsig thr crit amin (x : list F) P S S2 Vh Vh2 :
  svd_spec FB rows P S Vh -> svd_spec FB rows P S2 Vh2 -> gap_at_choice n meth nsig thr crit amin (length x) P S ->
  eigen meth eps nsig thr crit amin tw n x P S Vh = eigen meth eps nsig thr crit amin tw n x P S2 Vh2.
Proof. exact (eigen_unique_thm tw n n_pos FB rows meth eps nsig thr crit amin x P S S2 Vh Vh2). Qed.

Theorem pmusic_pev_svd_independent (FB : list (list F)) rows meth eps isr scale nsig thr crit amin (x : list F) P S S2 Vh Vh2 :
  svd_spec FB rows P S Vh -> svd_spec FB rows P S2 Vh2 -> gap_at_choice n meth nsig thr crit amin (length x) P S ->
  pclass meth eps isr scale nsig thr crit amin tw n x P S Vh = pclass meth eps isr scale nsig thr crit amin tw n x P S2 Vh2.
Proof. exact (pclass_unique_thm tw n n_pos FB rows meth eps isr scale nsig thr crit amin x P S S2 Vh Vh2). Qed.

(* the singular values of the data matrix are invariant under modulation and conjugation of the data *)
Theorem singular_values_shift (m : Z) (x : list F) rows P S Vh S' Vh' :
  svd_spec (fb_matrix x P) rows P S Vh -> svd_spec (fb_matrix (vmod (shift_phase tw m) 0 x) P) rows P S' Vh' -> S' = S.
Proof. exact (singular_values_shift_thm n tw n_pos m x rows P S Vh S' Vh'). Qed.

Theorem singular_values_conj (x : list F) rows P S Vh S' Vh' :
  svd_spec (fb_matrix x P) rows P S Vh -> svd_spec (fb_matrix (vconj x) P) rows P S' Vh' -> S' = S.
Proof. exact (singular_values_conj_thm x rows P S Vh S' Vh'). Qed.

(* the property clause for eigen() / music() / ev() and pmusic / pev: ANY result of svd on the data matrix, ANY result of svd on the
   transformed data matrix (both meeting the specification), noise subspace determined *)
Theorem eigen_shift_any_svd meth eps nsig thr crit amin (m : Z) (x : list F) rows P S Vh S' Vh' :
  svd_spec (fb_matrix x P) rows P S Vh -> svd_spec (fb_matrix (vmod (shift_phase tw m) 0 x) P) rows P S' Vh' ->
  gap_at_choice n meth nsig thr crit amin (length x) P S ->
  eigen meth eps nsig thr crit amin tw n (vmod (shift_phase tw m) 0 x) P S' Vh'
  = map_eig (rot m) (eigen meth eps nsig thr crit amin tw n x P S Vh).
Proof. exact (eigen_shift_any_svd_thm n tw n_pos meth eps nsig thr crit amin m x rows P S Vh S' Vh'). Qed.

Theorem eigen_mirror_any_svd meth eps nsig thr crit amin (x : list F) rows P S Vh S' Vh' :
  svd_spec (fb_matrix x P) rows P S Vh -> svd_spec (fb_matrix (vconj x) P) rows P S' Vh' ->
  gap_at_choice n meth nsig thr crit amin (length x) P S ->
  eigen meth eps nsig thr crit amin tw n (vconj x) P S' Vh' = map_eig (cmirror n) (eigen meth eps nsig thr crit amin tw n x P S Vh).
Proof. exact (eigen_mirror_any_svd_thm n tw n_pos meth eps nsig thr crit amin x rows P S Vh S' Vh'). Qed.

Theorem pmusic_pev_shift_any_svd meth eps scale nsig thr crit amin (m : Z) (x : list F) rows P S Vh S' Vh' :
  svd_spec (fb_matrix x P) rows P S Vh -> svd_spec (fb_matrix (vmod (shift_phase tw m) 0 x) P) rows P S' Vh' ->
  gap_at_choice n meth nsig thr crit amin (length x) P S ->
  pclass meth eps false scale nsig thr crit amin tw n (vmod (shift_phase tw m) 0 x) P S' Vh'
  = map_eig (rot m) (pclass meth eps false scale nsig thr crit amin tw n x P S Vh).
Proof. exact (pclass_shift_any_svd_thm n tw n_pos meth eps scale nsig thr crit amin m x rows P S Vh S' Vh'). Qed.

Theorem pmusic_pev_mirror_any_svd meth eps scale nsig thr crit amin (x : list F) rows P S Vh S' Vh' :
  svd_spec (fb_matrix x P) rows P S Vh -> svd_spec (fb_matrix (vconj x) P) rows P S' Vh' ->
  gap_at_choice n meth nsig thr crit amin (length x) P S ->
  pclass meth eps false scale nsig thr crit amin tw n (vconj x) P S' Vh'
  = map_eig mirror (pclass meth eps false scale nsig thr crit amin tw n x P S Vh).
Proof. exact (pclass_mirror_any_svd_thm n tw n_pos meth eps scale nsig thr crit amin x rows P S Vh S' Vh'). Qed.
End C04EigenSvd.


(* ---------------- DaniellPeriodogram: only the array handed to the smoother is rolled / mirrored ---------------- *)
Section C04Daniell.
Context {F : Type} {OF : Ops F} {L : Laws OF}.
Context (n : nat) (tw : Z -> F) {T : Twiddle n tw} (n_pos : (0 < n)%nat).
Local Open Scope F_scope.

Theorem daniell_shift_presmoothing twopi (x w : list F) P NFFT dt sbf fs (m : Z) :
  resolve NFFT (length x) = n -> py_eq_true dt = false ->
  daniell tw twopi (vmod (shift_phase tw m) 0 x) w P NFFT false dt sbf fs
  = daniell_smooth (rot m (speriodogram tw twopi x w NFFT false dt sbf fs)) P.
Proof. exact (daniell_shift_thm n tw n_pos twopi x w P NFFT dt sbf fs m). Qed.

Theorem daniell_mirror_presmoothing twopi (x w : list F) P NFFT dt sbf fs :
  resolve NFFT (length x) = n -> (forall j, isreal (nthF w j)) -> (py_eq_true dt = true -> ofnat (length x) <> 0) ->
  daniell tw twopi (vconj x) w P NFFT false dt sbf fs
  = daniell_smooth (mirror (speriodogram tw twopi x w NFFT false dt sbf fs)) P.
Proof. exact (daniell_mirror_thm n tw n_pos twopi x w P NFFT dt sbf fs). Qed.
End C04Daniell.


(* ---------------- class level (static, over PipelineLib.stored): the stores used by pmusic / pev and by pcorrelogram ---------------- *)
Section C04ClassStores.
Context {F : Type} {OF : Ops F} {L : Laws OF}.
Local Open Scope F_scope.

(* complex store = centerdc_2_twosided (SCenter2Two): commutes with the roll; turns the centred mirror of eigen() into the two-sided mirror *)
Theorem class_stored_center_rotation twopi pm p sbf (s : sstate) (Sp : list F) (m : Z) : p_cplx p = SCenter2Two ->
  stored twopi pm p false sbf s (rot m Sp) = rot m (stored twopi pm p false sbf s Sp).
Proof. exact (stored_center_rot twopi pm p sbf s Sp m). Qed.

Theorem class_stored_center_mirror twopi pm p sbf (s : sstate) (Sp : list F) n : p_cplx p = SCenter2Two -> length Sp = n ->
  stored twopi pm p false sbf s (cmirror n Sp) = mirror (stored twopi pm p false sbf s Sp).
Proof. exact (stored_center_cmirror twopi pm p sbf s Sp n). Qed.

(* real store = twosided_2_onesided (STwo2One): the one-sided store is twosided_2_onesided of the two-sided store of the same spectrum *)
Theorem class_stored_two2one twopi pm p sbf (s : sstate) (Sp : list F) :
  p_real p = STwo2One -> p_cplx p = SAsIs -> p_scale_real p = p_scale_cplx p ->
  st_range_N s = st_NFFT s -> length Sp = st_NFFT s ->
  stored twopi pm p true sbf s Sp = two2one (stored twopi pm p false sbf s Sp).
Proof. exact (stored_two2one twopi pm p sbf s Sp). Qed.

Theorem two2one_entries (v : list F) j : (j <= length v / 2)%nat ->
  nthF (two2one v) j = if ((j =? 0)%nat || (Nat.even (length v) && (j =? length v / 2)%nat))%bool then nthF v j else two * nthF v j.
Proof. exact (nth_two2one v j). Qed.
End C04ClassStores.

(* non-vacuity: an exact character exists (n = 4), modulated runs on concrete complex data return a model *)
Example twiddle_exists : @Twiddle _ qcc_ops 4 tw4. Proof. exact tw4_twiddle. Qed.
Example levinson_modulation_example :
  exists st, @levinson _ qcc_ops (@vmod _ qcc_ops (shift_phase tw4 1) 0 [cz (2,0) (0,0); cz (1,0) (1,-1); cz (1,-2) (-1,-1)]%Z) 2 false = Some st.
Proof. vm_compute. eexists. reflexivity. Qed.
Example burg_modulation_example :
  exists st, @arburg _ qcc_ops (@vmod _ qcc_ops (shift_phase tw4 1) 0 [cz (2,0) (0,0); cz (1,0) (1,-1); cz (1,-2) (-1,-1); cz (0,0) (3,0); cz (-1,0) (1,0)]%Z) 2 no_stop = Some st.
Proof. vm_compute. eexists. reflexivity. Qed.
Example pyule_shift_example :
  exists psd, @pyule_S _ qcc_ops tw4 (@vmod _ qcc_ops (shift_phase tw4 1) 0 [cz (2,0) (0,0); cz (1,0) (1,-1); cz (1,-2) (-1,-1); cz (0,0) (3,0); cz (-1,0) (1,0)]%Z) 2 Biased 4 = Some psd
              /\ length psd = 4%nat.
Proof. vm_compute. eexists. split; reflexivity. Qed.
Example minvar_shift_example :
  exists r, @minvar _ qcc_ops tw4 (@vmod _ qcc_ops (shift_phase tw4 1) 0 [cz (2,0) (0,0); cz (1,0) (1,-1); cz (1,-2) (-1,-1); cz (0,0) (3,0); cz (-1,0) (1,0)]%Z) 3 (cz (1,0) (0,0))%Z 4 = Some r.
Proof. vm_compute. eexists. reflexivity. Qed.

(* arma_estimate / parma on a concrete complex sequence, shift by one bin of the 4-point grid: the oracles of C15's correspondence run
   meet the pointwise hypothesis; the solver of Model/Ls.v is equivariant by theorem; an object with a non-constant PSD is returned *)
Local Open Scope Z_scope.
Definition c04_ax : list QcC := [cz (1,0) (0,0); cz (-1,1) (1,0); cz (3,0) (0,0); cz (1,0) (-1,0); cz (-1,0) (1,1);
                                 cz (1,1) (0,0); cz (1,0) (1,0); cz (-3,0) (0,0); cz (1,0) (0,0); cz (1,1) (-1,0)].
Definition c04_tol : QcC := (Q2Qc (1 # 10000), Q2Qc 0).
Definition c04_twopi : QcC := cz (25,-2) (0,0).
Definition c04_fs : QcC := cz (2,0) (0,0).
Local Close Scope Z_scope.
Definition c04_eqb (a b : QcC) : bool := Qc_eq_bool (fst a) (fst b) && Qc_eq_bool (snd a) (snd b).
Fixpoint c04_leqb (l1 l2 : list QcC) : bool :=
  match l1, l2 with [], [] => true | a :: t, b :: u => c04_eqb a b && c04_leqb t u | _, _ => false end.
Definition c04_r := Eval vm_compute in @acorr _ qcc_ops c04_ax 3 Unbiased.
Lemma c04_r_eq : @acorr _ qcc_ops c04_ax 3 Unbiased = c04_r. Proof. vm_compute. reflexivity. Qed.
Example arma_estimate_modulation_example :
  @arma_estimate _ qcc_ops (@lsm_exact _ qcc_ops) (@ls_exact _ qcc_ops) (@vmod _ qcc_ops (shift_phase tw4 1) 0 c04_ax) 1 1 3
  = @map_arma _ (@modA _ qcc_ops (shift_phase tw4 1)) (@arma_estimate _ qcc_ops (@lsm_exact _ qcc_ops) (@ls_exact _ qcc_ops) c04_ax 1 1 3)
  /\ match @arma_estimate _ qcc_ops (@lsm_exact _ qcc_ops) (@ls_exact _ qcc_ops) c04_ax 1 1 3 with
     | inr (a, b, _) => negb (c04_leqb (@modA _ qcc_ops (shift_phase tw4 1) a) a) && negb (c04_leqb (@modA _ qcc_ops (shift_phase tw4 1) b) b)
     | inl _ => false
     end = true.
Proof.
  split; [|vm_compute; reflexivity].
  apply (@arma_estimate_exact_modulation _ qcc_ops qcc_laws 4 tw4 tw4_twiddle ltac:(lia) 1%Z).
  intros r Hr. rewrite c04_r_eq in Hr. unfold c04_r in Hr. injection Hr as <-. split; [|exact I]. vm_compute. intro E. inversion E.
Qed.
Definition c04_estcov := Eval vm_compute in @arma_estimate _ qcc_ops (@lsm_cov _ qcc_ops c04_tol) (@lsq_cov _ qcc_ops c04_tol) c04_ax 1 1 3.
Lemma c04_estcov_eq : @arma_estimate _ qcc_ops (@lsm_cov _ qcc_ops c04_tol) (@lsq_cov _ qcc_ops c04_tol) c04_ax 1 1 3 = c04_estcov.
Proof. vm_compute. reflexivity. Qed.
Lemma c04_cov_nondeg a b rho : @arma_estimate _ qcc_ops (@lsm_cov _ qcc_ops c04_tol) (@lsq_cov _ qcc_ops c04_tol) c04_ax 1 1 3 = inr (a, b, rho) ->
  @nonzero_data _ qcc_ops (@arma_resid _ qcc_ops c04_ax a 1).
Proof.
  intros H. rewrite c04_estcov_eq in H. unfold c04_estcov in H. injection H as <- _ _.
  exists O. split; [vm_compute; lia|]. vm_compute. intro E. inversion E.
Qed.
Example parma_shift_mirror_example :
  @parma_call _ qcc_ops tw4 (@lsm_cov _ qcc_ops c04_tol) (@lsq_cov _ qcc_ops c04_tol) (@vmod _ qcc_ops (shift_phase tw4 1) 0 c04_ax) 1 1 3 c04_twopi c04_fs 4 false true
  = @map_call _ (@modA _ qcc_ops (shift_phase tw4 1)) (@rot _ qcc_ops 1)
      (@parma_call _ qcc_ops tw4 (@lsm_cov _ qcc_ops c04_tol) (@lsq_cov _ qcc_ops c04_tol) c04_ax 1 1 3 c04_twopi c04_fs 4 false true)
  /\ @parma_call _ qcc_ops tw4 (@lsm_cov _ qcc_ops c04_tol) (@lsq_cov _ qcc_ops c04_tol) (@vconj _ qcc_ops c04_ax) 1 1 3 c04_twopi c04_fs 4 false true
  = @map_call _ (@vconj _ qcc_ops) (@mirror _ qcc_ops)
      (@parma_call _ qcc_ops tw4 (@lsm_cov _ qcc_ops c04_tol) (@lsq_cov _ qcc_ops c04_tol) c04_ax 1 1 3 c04_twopi c04_fs 4 false true)
  /\ match @parma_call _ qcc_ops tw4 (@lsm_cov _ qcc_ops c04_tol) (@lsq_cov _ qcc_ops c04_tol) c04_ax 1 1 3 c04_twopi c04_fs 4 false true with
     | inr e => (length (x_psd e) =? 4)%nat && negb (c04_leqb (@rot _ qcc_ops 1 (x_psd e)) (x_psd e)) && negb (c04_leqb (@mirror _ qcc_ops (x_psd e)) (x_psd e))
     | inl _ => false            (* an object is returned; its 4-bin PSD is neither rotation nor mirror invariant *)
     end = true.
Proof.
  split; [|split; [|vm_compute; reflexivity]].
  - apply (@parma_shift _ qcc_ops qcc_laws 4 tw4 tw4_twiddle ltac:(lia) 1%Z).
    intros off y p. apply (@ls_cov_modulation _ qcc_ops qcc_laws 4 tw4 tw4_twiddle ltac:(lia)).
  - apply (@parma_mirror _ qcc_ops qcc_laws qcc_ord 4 tw4 tw4_twiddle ltac:(lia)).
    + intros y p. apply (@ls_cov_conj _ qcc_ops qcc_laws).
    + exact c04_cov_nondeg.
Qed.


(* ---------------- MUSIC / EV: a complex record with an exact SVD over the Gaussian rationals ----------------
   x = (5+11i, 10+2i, 5+11i), P = 2 (NP = 1, two rows): FB^H FB = [[208, 144], [144, 292]] = V diag(400, 100) V^T with
   V = [[3/5, 4/5], [4/5, -3/5]], so S = (20, 10) and Vh = V^T.  NFFT = 4, shift by one bin. *)
Local Open Scope Z_scope.
Definition c04e_q (a : Z) (b : positive) : QcC := (Q2Qc (a # b), Q2Qc 0).
Definition c04e_x : list QcC := [cz (5,0) (11,0); cz (10,0) (2,0); cz (5,0) (11,0)].
Definition c04e_S : list QcC := [cz (20,0) (0,0); cz (10,0) (0,0)].
Definition c04e_Vh : list (list QcC) := [[c04e_q 3 5; c04e_q 4 5]; [c04e_q 4 5; c04e_q (-3) 5]].
Definition c04e_eps : QcC := cz (1,-52) (0,0).
Definition c04e_scale : QcC := cz (3,0) (0,0).
Local Close Scope Z_scope.
Ltac c04e_eq := apply qcc_eq_canon; vm_compute; reflexivity.
Ltac c04e_nn r := apply (@nonneg_eq _ qcc_ops qcc_ord (@nrm2 _ qcc_ops r)); [c04e_eq|apply (@nn_nrm2 _ qcc_ops qcc_ord)].
Ltac c04e_svd :=
  constructor;
  [ reflexivity
  | intros I HI; destruct I as [|[|I]]; [reflexivity|reflexivity|lia]
  | intros I HI; destruct I as [|[|I]]; [c04e_nn (cz (4,0) (2,0))%Z|c04e_nn (cz (3,0) (1,0))%Z|lia]
  | intros I J HIJ HJ; assert (HI : ((I = 0 /\ J = 0) \/ (I = 0 /\ J = 1) \/ (I = 1 /\ J = 1))%nat) by lia;
    unfold le; destruct HI as [[-> ->]|[[-> ->]|[-> ->]]]; [c04e_nn (cz (0,0) (0,0))%Z|c04e_nn (cz (3,0) (1,0))%Z|c04e_nn (cz (0,0) (0,0))%Z]
  | intros I J HI HJ; destruct I as [|[|I]]; [| |lia]; (destruct J as [|[|J]]; [| |lia]); c04e_eq
  | intros m m' Hm Hm'; destruct m as [|[|m]]; [| |lia]; (destruct m' as [|[|m']]; [| |lia]); c04e_eq
  | intros I HI k Hk; destruct I as [|[|I]]; [| |lia]; (destruct k as [|[|k]]; [| |lia]); c04e_eq ].
Example c04e_svd_spec : @svd_spec _ qcc_ops qcc_ord (@fb_matrix _ qcc_ops c04e_x 2) 2 2 c04e_S c04e_Vh.
Proof. c04e_svd. Qed.
(* the modulated record and ANOTHER factorisation of its data matrix: the phase-ramped rows of Vh times the unit constants i and -1
   (what an SVD routine is free to return) *)
Definition c04e_xm : list QcC := @vmod _ qcc_ops (shift_phase tw4 1) 0 c04e_x.
Definition c04e_Vhm : list (list QcC) :=
  Eval vm_compute in
    [@vscale _ qcc_ops qI (@mrow _ (@vh_mod _ qcc_ops (shift_phase tw4 1) c04e_Vh) 0);
     @vscale _ qcc_ops (cz (-1,0) (0,0))%Z (@mrow _ (@vh_mod _ qcc_ops (shift_phase tw4 1) c04e_Vh) 1)].
Example c04e_svd_spec_modulated : @svd_spec _ qcc_ops qcc_ord (@fb_matrix _ qcc_ops c04e_xm 2) 2 2 c04e_S c04e_Vhm.
Proof. c04e_svd. Qed.
Lemma c04e_gap meth : @gap_at_choice _ qcc_ops qcc_ord 4 meth (Some (NInt 1)) None CAic 0 (length c04e_x) 2 c04e_S.
Proof.
  intros ns E. assert (Ens : ns = 1%nat) by (destruct meth; vm_compute in E; congruence). subst ns.
  intros _. apply (qcc_pos_frac _ 10 1); [lia|lia|c04e_eq].
Qed.
Definition c04e_psd (r : eig_err + (list QcC * list QcC)) : list QcC := match r with inr (p, _) => p | inl _ => [] end.
(* the theorem applies to the two unrelated factorisations; the pseudo-spectra (MUSIC with NSIG = 1; pev with scale_by_freq) have 4 bins
   and are not rotation invariant; the theorem for the exhibited pair yields the specification for the modulated matrix *)
Example eigen_shift_example :
  @music _ qcc_ops c04e_eps (Some (NInt 1)) None CAic 0 tw4 4 c04e_xm 2 c04e_S c04e_Vhm
  = @map_eig _ (@rot _ qcc_ops 1) (@music _ qcc_ops c04e_eps (Some (NInt 1)) None CAic 0 tw4 4 c04e_x 2 c04e_S c04e_Vh)
  /\ @pclass _ qcc_ops MEv c04e_eps false (Some c04e_scale) (Some (NInt 1)) None CAic 0 tw4 4 c04e_xm 2 c04e_S c04e_Vhm
  = @map_eig _ (@rot _ qcc_ops 1) (@pclass _ qcc_ops MEv c04e_eps false (Some c04e_scale) (Some (NInt 1)) None CAic 0 tw4 4 c04e_x 2 c04e_S c04e_Vh)
  /\ @svd_spec _ qcc_ops qcc_ord (@fb_matrix _ qcc_ops c04e_xm 2) 2 2 c04e_S (@vh_mod _ qcc_ops (shift_phase tw4 1) c04e_Vh)
  /\ (let p := c04e_psd (@music _ qcc_ops c04e_eps (Some (NInt 1)) None CAic 0 tw4 4 c04e_x 2 c04e_S c04e_Vh) in
      (length p =? 4)%nat && negb (c04_leqb (@rot _ qcc_ops 1 p) p)) = true
  /\ (let p := c04e_psd (@pclass _ qcc_ops MEv c04e_eps false (Some c04e_scale) (Some (NInt 1)) None CAic 0 tw4 4 c04e_x 2 c04e_S c04e_Vh) in
      (length p =? 4)%nat && negb (c04_leqb (@rot _ qcc_ops 1 p) p)) = true
  /\ negb (c04_leqb (concat c04e_Vhm) (concat (@vh_mod _ qcc_ops (shift_phase tw4 1) c04e_Vh))) = true.
Proof.
  split; [|split; [|split; [|split; [|split]]]]; [| | |vm_compute; reflexivity|vm_compute; reflexivity|vm_compute; reflexivity].
  - apply (@eigen_shift_any_svd _ qcc_ops qcc_laws qcc_ord 4 tw4 tw4_twiddle ltac:(lia) MMusic c04e_eps (Some (NInt 1)) None CAic 0%nat 1%Z c04e_x 2%nat 2%nat
             c04e_S c04e_Vh c04e_S c04e_Vhm c04e_svd_spec c04e_svd_spec_modulated (c04e_gap MMusic)).
  - apply (@pmusic_pev_shift_any_svd _ qcc_ops qcc_laws qcc_ord 4 tw4 tw4_twiddle ltac:(lia) MEv c04e_eps (Some c04e_scale) (Some (NInt 1)) None CAic 0%nat 1%Z c04e_x 2%nat 2%nat
             c04e_S c04e_Vh c04e_S c04e_Vhm c04e_svd_spec c04e_svd_spec_modulated (c04e_gap MEv)).
  - apply (@eigen_svd_modulation _ qcc_ops qcc_laws qcc_ord 4 tw4 tw4_twiddle ltac:(lia) 1%Z c04e_x 2%nat 2%nat c04e_S c04e_Vh c04e_svd_spec).
Qed.
(* conjugation, starting from the modulated record (its pseudo-spectrum is not mirror symmetric): the conjugated factorisation meets the
   specification by theorem, and so does every other one; pmusic / pev store the mirrored PSD, eigen() the centred mirror *)
Lemma c04e_gap_m meth : @gap_at_choice _ qcc_ops qcc_ord 4 meth (Some (NInt 1)) None CAic 0 (length c04e_xm) 2 c04e_S.
Proof. exact (c04e_gap meth). Qed.
Example eigen_mirror_example :
  @pclass _ qcc_ops MMusic c04e_eps false None (Some (NInt 1)) None CAic 0 tw4 4 (@vconj _ qcc_ops c04e_xm) 2 c04e_S (@vh_conj _ qcc_ops c04e_Vhm)
  = @map_eig _ (@mirror _ qcc_ops) (@pclass _ qcc_ops MMusic c04e_eps false None (Some (NInt 1)) None CAic 0 tw4 4 c04e_xm 2 c04e_S c04e_Vhm)
  /\ @ev _ qcc_ops c04e_eps (Some (NInt 1)) None CAic 0 tw4 4 (@vconj _ qcc_ops c04e_xm) 2 c04e_S (@vh_conj _ qcc_ops c04e_Vhm)
  = @map_eig _ (@cmirror _ qcc_ops 4) (@ev _ qcc_ops c04e_eps (Some (NInt 1)) None CAic 0 tw4 4 c04e_xm 2 c04e_S c04e_Vhm)
  /\ (let p := c04e_psd (@pclass _ qcc_ops MMusic c04e_eps false None (Some (NInt 1)) None CAic 0 tw4 4 c04e_xm 2 c04e_S c04e_Vhm) in
      (length p =? 4)%nat && negb (c04_leqb (@mirror _ qcc_ops p) p)) = true.
Proof.
  split; [|split]; [| |vm_compute; reflexivity].
  - apply (@pmusic_pev_mirror_any_svd _ qcc_ops qcc_laws qcc_ord 4 tw4 tw4_twiddle ltac:(lia) MMusic c04e_eps None (Some (NInt 1)) None CAic 0%nat c04e_xm 2%nat 2%nat
             c04e_S c04e_Vhm c04e_S (@vh_conj _ qcc_ops c04e_Vhm) c04e_svd_spec_modulated
             (@eigen_svd_conj _ qcc_ops qcc_laws qcc_ord c04e_xm 2%nat 2%nat c04e_S c04e_Vhm c04e_svd_spec_modulated) (c04e_gap_m MMusic)).
  - apply (@eigen_mirror_any_svd _ qcc_ops qcc_laws qcc_ord 4 tw4 tw4_twiddle ltac:(lia) MEv c04e_eps (Some (NInt 1)) None CAic 0%nat c04e_xm 2%nat 2%nat
             c04e_S c04e_Vhm c04e_S (@vh_conj _ qcc_ops c04e_Vhm) c04e_svd_spec_modulated
             (@eigen_svd_conj _ qcc_ops qcc_laws qcc_ord c04e_xm 2%nat 2%nat c04e_S c04e_Vhm c04e_svd_spec_modulated) (c04e_gap_m MEv)).
Qed.


(* DaniellPeriodogram is NOT shift covariant (and no rotation is defined on its decimated output): on the 4-point grid with P = 1 the model
   returns 2 values; for the record modulated by one bin they are not a rotation (by 0 or 1) of the values for the record.  The theorem above
   applies (the smoother sees the rolled periodogram). *)
Local Open Scope Z_scope.
Definition c04d_x : list QcC := [cz (1,0) (2,0); cz (-3,0) (1,-1); cz (0,0) (-1,0); cz (5,-2) (1,0)].
Definition c04d_w : list QcC := [cz (1,-1) (0,0); cz (1,0) (0,0); cz (3,-2) (0,0); cz (1,-2) (0,0)].
Local Close Scope Z_scope.
Example daniell_not_a_rotation :
  @daniell _ qcc_ops tw4 c04_twopi (@vmod _ qcc_ops (shift_phase tw4 1) 0 c04d_x) c04d_w 1 (Some 4%nat) false PyNone PyTrue c04_fs
  = @daniell_smooth _ qcc_ops (@rot _ qcc_ops 1 (@speriodogram _ qcc_ops tw4 c04_twopi c04d_x c04d_w (Some 4%nat) false PyNone PyTrue c04_fs)) 1
  /\ (let d0 := @daniell _ qcc_ops tw4 c04_twopi c04d_x c04d_w 1 (Some 4%nat) false PyNone PyTrue c04_fs in
      let d1 := @daniell _ qcc_ops tw4 c04_twopi (@vmod _ qcc_ops (shift_phase tw4 1) 0 c04d_x) c04d_w 1 (Some 4%nat) false PyNone PyTrue c04_fs in
      (length d0 =? 2)%nat && (length d1 =? 2)%nat && negb (c04_leqb d1 d0) && negb (c04_leqb d1 (@rot _ qcc_ops 1 d0))) = true.
Proof.
  split; [|vm_compute; reflexivity].
  apply (@daniell_shift_presmoothing _ qcc_ops qcc_laws 4 tw4 tw4_twiddle ltac:(lia)); reflexivity.
Qed.

Print Assumptions dft_shift.
Print Assumptions dft_mirror.
Print Assumptions dft_bins_periodic.
Print Assumptions dft_time_reversal.
Print Assumptions acorr_modulation.
Print Assumptions acorr_time_reversal.
Print Assumptions levinson_modulation.
Print Assumptions fft_roll.
Print Assumptions fft_mirror.
Print Assumptions acorr_conj.
Print Assumptions levinson_conj.
Print Assumptions periodogram_shift.
Print Assumptions periodogram_mirror.
Print Assumptions periodogram_reversal.
Print Assumptions correlogram_shift.
Print Assumptions correlogram_mirror.
Print Assumptions correlogram_reversal.
Print Assumptions mean_power_invariant.
Print Assumptions arma2psd_rotation.
Print Assumptions arma2psd_mirror.
Print Assumptions aryule_shift.
Print Assumptions aryule_mirror.
Print Assumptions aryule_time_reversal.
Print Assumptions pyule_shift.
Print Assumptions pyule_mirror.
Print Assumptions pyule_reversal.
Print Assumptions burg_modulation.
Print Assumptions burg_conj.
Print Assumptions burg_time_reversal.
Print Assumptions pburg_shift.
Print Assumptions pburg_mirror.
Print Assumptions pburg_reversal.
Print Assumptions arcovar_modulation.
Print Assumptions arcovar_conj.
Print Assumptions modcovar_modulation.
Print Assumptions modcovar_conj.
Print Assumptions modcovar_time_reversal.
Print Assumptions pcovar_shift.
Print Assumptions pcovar_mirror.
Print Assumptions pmodcovar_shift.
Print Assumptions pmodcovar_mirror.
Print Assumptions pmodcovar_reversal.
Print Assumptions ma_modulation.
Print Assumptions ma_conj.
Print Assumptions ma_time_reversal.
Print Assumptions pma_shift.
Print Assumptions pma_mirror.
Print Assumptions pma_reversal.
Print Assumptions minvar_shift.
Print Assumptions minvar_mirror.
Print Assumptions minvar_time_reversal.
Print Assumptions multitaper_shift.
Print Assumptions multitaper_mirror.
Print Assumptions multitaper_reversal.
Print Assumptions class_stored_rotation.
Print Assumptions class_stored_mirror.
Print Assumptions onesided_static.
Print Assumptions aryule_real_parameters.
Print Assumptions arburg_real_parameters.
Print Assumptions acorr_modulation_offset.
Print Assumptions arma_ma_modulation.
Print Assumptions arma_estimate_modulation_solvers.
Print Assumptions arma_estimate_modulation.
Print Assumptions ls_cov_modulation.
Print Assumptions arma_class_call_rotation.
Print Assumptions arma_class_call_mirror.
Print Assumptions parma_shift_solvers.
Print Assumptions parma_shift.
Print Assumptions pma_object_shift.
Print Assumptions ls_exact_modulation.
Print Assumptions ls_exact_conjugation.
Print Assumptions arma_estimate_exact_modulation.
Print Assumptions parma_exact_shift.
Print Assumptions acorr_real_path.
Print Assumptions levinson_real_path.
Print Assumptions aryule_real_path.
Print Assumptions arburg_real_path.
Print Assumptions arma_ma_conj.
Print Assumptions arma_estimate_conj_solvers.
Print Assumptions arma_estimate_conj.
Print Assumptions ls_cov_conj.
Print Assumptions parma_mirror_solvers.
Print Assumptions parma_mirror.
Print Assumptions pma_object_mirror.
Print Assumptions arma_estimate_exact_conj.
Print Assumptions parma_exact_mirror.
Print Assumptions eigen_fb_modulation.
Print Assumptions eigen_fb_rowphase_unit.
Print Assumptions eigen_fb_conj.
Print Assumptions eigen_shift.
Print Assumptions eigen_mirror.
Print Assumptions pmusic_pev_shift.
Print Assumptions pmusic_pev_mirror.
Print Assumptions eigen_svd_modulation.
Print Assumptions eigen_svd_conj.
Print Assumptions singular_values_unique.
Print Assumptions noise_form_unique.
Print Assumptions music_ev_svd_independent.
Print Assumptions pmusic_pev_svd_independent.
Print Assumptions singular_values_shift.
Print Assumptions singular_values_conj.
Print Assumptions eigen_shift_any_svd.
Print Assumptions eigen_mirror_any_svd.
Print Assumptions pmusic_pev_shift_any_svd.
Print Assumptions pmusic_pev_mirror_any_svd.
Print Assumptions daniell_shift_presmoothing.
Print Assumptions daniell_mirror_presmoothing.
Print Assumptions class_stored_center_rotation.
Print Assumptions class_stored_center_mirror.
Print Assumptions class_stored_two2one.
Print Assumptions two2one_entries.
