(* C04 — Frequency-shift covariance and conjugate symmetry of two-sided spectra.  Statements only.

   tw is the DFT character (tw a = exp(-2 pi i a / n)); modulating sample j by tw(-(m*j)) is
   multiplying it by exp(+2 pi i m j / n).

   PROVED (abstract *-field + twiddle character; every length N <= n, every shift m, every bin k in Z):
     dft_shift          DFT of the modulated data at bin k = DFT of the data at bin k - m
     dft_mirror         DFT of the conjugated data at bin k = conj of the DFT at bin -k
     dft_bins_periodic  bins are n-periodic (so "k - m" and "-k" are taken mod n)
     dft_time_reversal  DFT of the reversed data at bin k = tw((N-1)k) * DFT at bin -k  (unimodular factor: |.|^2 equal)
     acorr_modulation   autocorrelation lags of the modulated data: lag k multiplied by tw(-(m*k)), every normalisation
     acorr_time_reversal  the autocorrelation of conj(reversed x) is the autocorrelation of x (periodogram,
                        correlogram and Yule-Walker invariance rest on it)
     levinson_modulation  LEVINSON on modulated lags: AR / reflection coefficient of index j multiplied by
                        tw(-(m*(j+1))), error power unchanged, same raise decision
   NOT PROVED at this commit (search on the implementation only): class-level rotation / mirror for every estimator,
   one-sided = 2 x half of two-sided, Burg / modified covariance / multitaper / minimum variance time reversal. *)
Require Import Spectrum.Theory.Ops Spectrum.Theory.Sum Spectrum.Theory.Vec Spectrum.Theory.Dft
               Spectrum.Model.Levinson Spectrum.Model.Corr Spectrum.Proofs.ShiftTheory
               Spectrum.Instances.QcC Spectrum.Instances.QcCTw.
From Coq Require Import QArith Qcanon.

Section C04.
Context {F : Type} {OF : Ops F} {L : Laws OF}.
Context (n : nat) (tw : Z -> F) {T : Twiddle n tw} (n_pos : (0 < n)%nat).
Local Open Scope F_scope.

Theorem dft_shift N (x : nat -> F) (m k : Z) :
  dftN tw N (fun j => x j * tw (- (m * Z.of_nat j))%Z) k = dftN tw N x (k - m)%Z.
Proof. exact (dft_modulation n tw n_pos N x m k). Qed.

Theorem dft_mirror N (x : nat -> F) (k : Z) :
  dftN tw N (fun j => conj (x j)) k = conj (dftN tw N x (- k)%Z).
Proof. exact (dft_conj n tw n_pos N x k). Qed.

Theorem dft_bins_periodic N (x : nat -> F) (k j : Z) : dftN tw N x (k + j * Z.of_nat n)%Z = dftN tw N x k.
Proof. exact (dft_periodic n tw n_pos N x k j). Qed.

Theorem dft_time_reversal N (x : nat -> F) (k : Z) :
  dftN tw N (fun j => x (N - 1 - j)%nat) k = tw ((Z.of_nat N - 1) * k)%Z * dftN tw N x (- k)%Z.
Proof. exact (dft_reverse n tw n_pos N x k). Qed.

(* the phase sequence of a shift by m bins *)
Definition shift_phase (m : Z) : Z -> F := fun a => tw (- (m * a))%Z.
Lemma shift_phase_add m a b : shift_phase m (a + b)%Z = shift_phase m a * shift_phase m b.
Proof. unfold shift_phase. rewrite <- tw_add. f_equal. lia. Qed.
Lemma shift_phase_0 m : shift_phase m 0%Z = 1.
Proof. unfold shift_phase. rewrite Z.mul_0_r. apply tw_0. Qed.
Lemma shift_phase_cj m a : conj (shift_phase m a) = shift_phase m (- a)%Z.
Proof. unfold shift_phase. rewrite tw_cj. f_equal. lia. Qed.

Theorem acorr_modulation (m : Z) (x : list F) ml nm :
  acorr (vmod (shift_phase m) 0 x) ml nm = option_map (vmod (shift_phase m) 0) (acorr x ml nm).
Proof. exact (acorr_modulation_thm (shift_phase m) (shift_phase_add m) (shift_phase_0 m) (shift_phase_cj m) x ml nm). Qed.

Theorem acorr_time_reversal (x : list F) ml nm : acorr (vrevconj x) ml nm = acorr x ml nm.
Proof. exact (acorr_time_reversal_thm x ml nm). Qed.

Theorem levinson_modulation (m : Z) (r : list F) p allow :
  levinson (vmod (shift_phase m) 0 r) p allow = option_map (modst (shift_phase m)) (levinson r p allow).
Proof. exact (levinson_modulation_thm (shift_phase m) (shift_phase_add m) (shift_phase_0 m) (shift_phase_cj m) r p allow). Qed.
End C04.

(* non-vacuity: an exact character exists (n = 4) and a modulated run on concrete complex lags *)
Example twiddle_exists : @Twiddle _ qcc_ops 4 tw4. Proof. exact tw4_twiddle. Qed.
Example levinson_modulation_example :
  exists st, @levinson _ qcc_ops (@vmod _ qcc_ops (shift_phase tw4 1) 0 [cz (2,0) (0,0); cz (1,0) (1,-1); cz (1,-2) (-1,-1)]%Z) 2 false = Some st.
Proof. vm_compute. eexists. reflexivity. Qed.

Print Assumptions dft_shift.
Print Assumptions dft_mirror.
Print Assumptions dft_bins_periodic.
Print Assumptions dft_time_reversal.
Print Assumptions acorr_modulation.
Print Assumptions acorr_time_reversal.
Print Assumptions levinson_modulation.
