(* C10 — Levinson and the Toeplitz/Hermitian solvers solve their equations.
   Nothing but statements; each is closed by [exact] of a lemma proved elsewhere.

   PROVED (abstract *-field, every order, every lag sequence with real non-zero r0):
     levinson_solves   T_p [1,a]^T = [P,0..0]^T, P real and non-zero, P = r0 * prod(1-|k_i|^2),
                       last coefficient = last reflection coefficient, lengths
     levinson_nested   the order-q reflection coefficients are the first q of the order-p ones
     levinson_raises   the recursion fails exactly at a stage whose error power tests "<= 0"
     levinson_no_raise a returned stage never has error power "<= 0"
     hermtoep_solves   HERMTOEP(T0,T,Z) returns X with sum_j r(i-j) X_j = Z_i for every row i (r = T0::T)
     hermtoep_raises   HERMTOEP fails only at a stage whose error power tests "<= 0"
     toeplitz_solves   TOEPLITZ(T0,TC,TR,Z) returns X with sum_j t(i-j) X_j = Z_i for every row i of the
                       general (non-Hermitian) Toeplitz matrix with first column T0::TC and first row T0::TR
   PROVED (abstract ORDERED *-field; with Proofs/YulePD.v):
     levinson_pd       for every positive-definite Hermitian Toeplitz r and order p the recursion returns (for both values
                       of allow_singularity), P > 0, every |k_i|^2 < 1, every lower order returns with P_q > 0
     levinson_stable   ... and every root z of the prediction polynomial (in the field) has |z|^2 < 1
                       (instances over extension fields / Coquelicot's C: see C12 aryule_stable_ext / _complex)
   PROVED (abstract ORDERED *-field; Proofs/LevinsonPDConverse.v — the LDL^H reading of the recursion with the backward
   predictor: c^H T_m c = c''^H T_(m-1) c'' + |c_m|^2 P_m):
     levinson_pd_converse     LEVINSON returned (a, P, k) (either value of allow_singularity) and every stage error
                              r0 * prod_(i<q)(1-|k_i|^2), q = 0..p, is > 0   =>   r is positive definite (order p)
     levinson_pd_iff          LEVINSON returns with every stage error > 0  <=>  r is positive definite (order p)
     levinson_returns_iff_pd  r0 > 0:  LEVINSON(r, p) with allow_singularity=False returns  <=>  r positive definite
                              (the code's own "P <= 0" tests are exactly a positive-definiteness test)
     levinson_not_pd_raises   r0 > 0 and r NOT positive definite  =>  LEVINSON raises "singular matrix" unless
                              singularity is allowed  (the property's clause; DESIGN.md stretch item)
     levinson_allow_returns   ... and with allow_singularity=True it returns for every r and every order <= len(r)-1
                              The guard r0 > 0 is needed: r = [-1, 2] is not positive definite, yet P_1 = -1*(1-4) = 3 > 0
                              and the recursion returns (Example levinson_negative_r0_returns; the implementation does
                              the same).  r0 <= 0 is outside the property's quantifier (autocorrelation sequences).
   PROVED (abstract *-field; Model/Cholesky.v + Proofs/CholeskyTheory.v; the numpy / scipy routines are ORACLES of the model, and what
   the library documents of them are the four hypotheses solve_spec / np_chol_spec / sp_chol_spec / cho_solve_spec):
     cholesky_solves         whatever method is accepted, a returned X satisfies A X = B row by row (the 'numpy' back end: A = L L^H,
                             then forward and backward substitution compose to a solution; 'scipy': A = U^H U and cho_solve)
     cholesky_method         exactly the three method strings are accepted; every other string is a ValueError whatever the data
     cholesky_methods_agree  when A x = 0 has only the zero solution, all accepted methods return the same vector
   (the dispatch and the composition of library calls are REGENERATED from cholesky.py on every run and proved equal to the model:
    generated theorems gen_cholesky_translated / gen_cholesky_solves / gen_cholesky_default_accepted)
   NOT PROVED: that numpy.linalg.cholesky / solve and scipy.linalg.cholesky / cho_solve meet their specifications (residual search only). *)
Require Import Spectrum.Theory.Ops Spectrum.Theory.Sum Spectrum.Theory.Vec Spectrum.Model.Levinson
               Spectrum.Proofs.LevinsonTheory Spectrum.Proofs.HermtoepTheory Spectrum.Proofs.ToeplitzTheory Spectrum.Theory.Order Spectrum.Proofs.YulePD Spectrum.Proofs.LevinsonPD Spectrum.Proofs.LevinsonPDConverse
               Spectrum.Instances.QcC Spectrum.Instances.QcCOrd
               Spectrum.Model.Cholesky Spectrum.Proofs.CholeskyTheory Spectrum.Proofs.CholeskyExample Spectrum.Model.LinPred Spectrum.Instances.QcCEq_C11.
From Coq Require Import QArith Qcanon.
From Coq Require String.
Notation string := String.string (only parsing).

Section C10.
Context {F : Type} {OF : Ops F} {L : Laws OF}.
Local Open Scope F_scope.

Theorem levinson_solves (r : list F) (p : nat) (a : list F) (P : F) (k : list F) :
  isreal (nthF r O) -> nthF r O <> 0 ->
  levinson r p false = Some (a, P, k) ->
  length a = p /\ length k = p /\ isreal P /\ P <> 0
  /\ (forall i, (i <= p)%nat ->
        sumf (S p) (fun j => afun a j * rz r (Z.of_nat i - Z.of_nat j)) = if (i =? 0)%nat then P else 0)
  /\ P = nthF r O * prodk k
  /\ (1 <= p -> nthF a (p - 1) = nthF k (p - 1))%nat.
Proof. exact (levinson_solves_thm r p a P k). Qed.

Theorem levinson_nested (r : list F) (p q : nat) (a : list F) (P : F) (k : list F) : (q <= p)%nat ->
  levinson r p false = Some (a, P, k) ->
  exists a' P', levinson r q false = Some (a', P', firstn q k).
Proof. exact (levinson_nested_thm r p q a P k). Qed.

Theorem levinson_raises (r : list F) (p : nat) : (p <= length r - 1)%nat ->
  levinson r p false = None ->
  exists q A P ks, (q < p)%nat /\ levinson r q false = Some (A, P, ks) /\
    let k := (- lev_delta (tl r) A q) / P in le0 (P * (1 - k * conj k)) = true.
Proof. exact (levinson_raises_thm r p). Qed.

Theorem levinson_no_raise (r : list F) (p : nat) A P ks A' P' ks' :
  levinson r p false = Some (A, P, ks) -> levinson r (S p) false = Some (A', P', ks') ->
  le0 P' = false.
Proof. exact (levinson_no_raise_thm r p A P ks A' P' ks'). Qed.

Theorem hermtoep_solves (T0 : F) (T Z X : list F) :
  isreal T0 -> T0 <> 0 -> hermtoep T0 T Z = Some X ->
  length X = S (length T) /\
  forall i, (i <= length T)%nat ->
    sumf (S (length T)) (fun j => nthF X j * rz (T0 :: T) (Z.of_nat i - Z.of_nat j)) = nthF Z i.
Proof. exact (hermtoep_solves_thm T0 T Z X). Qed.

Theorem hermtoep_raises (T0 : F) (T Z : list F) :
  hermtoep T0 T Z = None ->
  exists m A P X, (m < length T)%nat /\ herm_iter T Z T0 m = Some (A, P, X) /\
    let k := (- lev_delta T A m) / P in le0 (P * (1 - k * conj k)) = true.
Proof. exact (hermtoep_raises_thm T0 T Z). Qed.

Theorem toeplitz_solves (T0 : F) (TC TR Z X : list F) :
  T0 <> 0 -> toeplitz T0 TC TR Z = Some X ->
  length X = S (length TC) /\
  forall i, (i <= length TC)%nat ->
    sumf (S (length TC)) (fun j => nthF X j * tz T0 TC TR (Z.of_nat i - Z.of_nat j)) = nthF Z i.
Proof. exact (toeplitz_solves_thm T0 TC TR Z X). Qed.
End C10.

Section C10_order.
Context {F : Type} {OF : Ops F} {L : Laws OF} {OL : OrdLaws OF}.
Local Open Scope F_scope.

Theorem levinson_pd (r : list F) (p : nat) (allow : bool) :
  isreal (nthF r O) -> (p <= length r - 1)%nat ->
  (forall c : nat -> F, (exists i, (i <= p)%nat /\ c i <> 0) ->
     pos (sumf (S p) (fun i => sumf (S p) (fun j => conj (c i) * rz r (Z.of_nat i - Z.of_nat j) * c j)))) ->
  exists a P k, levinson r p allow = Some (a, P, k)
    /\ pos P /\ le0 P = false
    /\ (forall j, (j < p)%nat -> lt (nrm2 (nthF k j)) 1)
    /\ (forall q, (q <= p)%nat -> exists a' P', levinson r q allow = Some (a', P', firstn q k) /\ pos P').
Proof.
  intros Hr Hp HPD. destruct (levinson_pd_thm r p allow Hr Hp HPD) as (a & P & k & E & _ & _ & HP & Hle & Hk & _ & _ & _ & Hq & _).
  exists a, P, k. split; [exact E|]. split; [exact HP|]. split; [exact Hle|]. split; [exact Hk|exact Hq].
Qed.

Theorem levinson_stable (r : list F) (p : nat) (allow : bool) a P k (z : F) :
  isreal (nthF r O) -> (p <= length r - 1)%nat ->
  (forall c : nat -> F, (exists i, (i <= p)%nat /\ c i <> 0) ->
     pos (sumf (S p) (fun i => sumf (S p) (fun j => conj (c i) * rz r (Z.of_nat i - Z.of_nat j) * c j)))) ->
  levinson r p allow = Some (a, P, k) ->
  sumf (S p) (fun j => afun a j * fpow z (p - j)) = 0 -> lt (nrm2 z) 1.
Proof. exact (levinson_stable_thm r p allow a P k z). Qed.

Theorem levinson_pd_converse (r : list F) (p : nat) (allow : bool) a P k :
  isreal (nthF r O) ->
  levinson r p allow = Some (a, P, k) ->
  (forall q, (q <= p)%nat -> pos (nthF r O * prodk (firstn q k))) ->
  forall c : nat -> F, (exists i, (i <= p)%nat /\ c i <> 0) ->
    pos (sumf (S p) (fun i => sumf (S p) (fun j => conj (c i) * rz r (Z.of_nat i - Z.of_nat j) * c j))).
Proof. exact (levinson_pd_converse_thm r p allow a P k). Qed.

Theorem levinson_pd_iff (r : list F) (p : nat) (allow : bool) :
  isreal (nthF r O) -> (p <= length r - 1)%nat ->
  ((exists a P k, levinson r p allow = Some (a, P, k)
                  /\ forall q, (q <= p)%nat -> pos (nthF r O * prodk (firstn q k)))
   <-> (forall c : nat -> F, (exists i, (i <= p)%nat /\ c i <> 0) ->
          pos (sumf (S p) (fun i => sumf (S p) (fun j => conj (c i) * rz r (Z.of_nat i - Z.of_nat j) * c j))))).
Proof. exact (levinson_pd_iff_thm r p allow). Qed.

Theorem levinson_returns_iff_pd (r : list F) (p : nat) :
  isreal (nthF r O) -> (p <= length r - 1)%nat -> pos (nthF r O) ->
  ((exists a P k, levinson r p false = Some (a, P, k))
   <-> (forall c : nat -> F, (exists i, (i <= p)%nat /\ c i <> 0) ->
          pos (sumf (S p) (fun i => sumf (S p) (fun j => conj (c i) * rz r (Z.of_nat i - Z.of_nat j) * c j))))).
Proof. exact (levinson_returns_iff_pd_thm r p). Qed.

Theorem levinson_not_pd_raises (r : list F) (p : nat) :
  isreal (nthF r O) -> (p <= length r - 1)%nat -> pos (nthF r O) ->
  ~ (forall c : nat -> F, (exists i, (i <= p)%nat /\ c i <> 0) ->
       pos (sumf (S p) (fun i => sumf (S p) (fun j => conj (c i) * rz r (Z.of_nat i - Z.of_nat j) * c j)))) ->
  levinson r p false = None.
Proof. exact (levinson_not_pd_raises_thm r p). Qed.

Theorem levinson_allow_returns (r : list F) (p : nat) : (p <= length r - 1)%nat ->
  exists a P k, levinson r p true = Some (a, P, k).
Proof. exact (levinson_allow_returns_thm r p). Qed.
End C10_order.

Section C10_cholesky.
Context {F : Type} {OF : Ops F} {L : Laws OF}.
Local Open Scope F_scope.
Theorem cholesky_solves (O : @oracles F) (n : nat) (A : matrix) (B : vector) (method : string) (x : vector) :
  solve_spec O -> np_chol_spec O -> sp_chol_spec O -> cho_solve_spec O ->
  CHOLESKY O n A B method = inr x -> forall i, (i < n)%nat -> sumf n (fun j => A i j * x j) = B i.
Proof. exact (cholesky_solves_thm O n A B method x). Qed.

Theorem cholesky_method (O : @oracles F) (n : nat) (A : matrix) (B : vector) (method : string) :
  (method <> m_numpy_solver /\ method <> m_numpy /\ method <> m_scipy) <-> CHOLESKY O n A B method = inl ValueError.   (* "numpy_solver", "numpy", "scipy" *)
Proof. exact (cholesky_method_thm O n A B method). Qed.

Theorem cholesky_methods_agree (O : @oracles F) (n : nat) (A : matrix) (B : vector) (m1 m2 : string) (x1 x2 : vector) :
  solve_spec O -> np_chol_spec O -> sp_chol_spec O -> cho_solve_spec O ->
  (forall d, solves n A d (fun _ => 0) -> forall i, (i < n)%nat -> d i = 0) ->
  CHOLESKY O n A B m1 = inr x1 -> CHOLESKY O n A B m2 = inr x2 -> forall i, (i < n)%nat -> x1 i = x2 i.
Proof. exact (cholesky_methods_agree_thm O n A B m1 m2 x1 x2). Qed.
End C10_cholesky.

(* non-vacuity of the CHOLESKY theorems: an oracle record over the Gaussian rationals that meets all four specifications
   (1 x 1 systems; factor 2 proposed for the matrix [[4]]) and calls that return the solution of 4 x = 8 by each method *)
Definition qeq0 (a : QcC) : bool := qcc_eqb a (zero (Ops:=qcc_ops)).
Lemma qeq0_spec a : qeq0 a = true <-> a = zero (Ops:=qcc_ops).
Proof. apply qcc_eqb_spec. Qed.
Definition exO : @oracles QcC := @ex_oracles QcC qcc_ops qeq0 (cz (2,0) (0,0))%Z.
Example cholesky_specs_satisfiable :
  solve_spec (OF:=qcc_ops) exO /\ np_chol_spec (OF:=qcc_ops) exO /\ sp_chol_spec (OF:=qcc_ops) exO /\ cho_solve_spec (OF:=qcc_ops) exO.
Proof. exact (ex_specs (L:=qcc_laws) qeq0 qeq0_spec (cz (2,0) (0,0))%Z). Qed.
Example cholesky_example :
  forall m, In m [m_numpy_solver; m_numpy; m_scipy] ->
  exists x, @CHOLESKY QcC qcc_ops exO 1 (fun _ _ => cz (4,0) (0,0))%Z (fun _ => cz (8,0) (0,0))%Z m = inr x /\ x O = (cz (2,0) (0,0))%Z.
Proof.
  intros m [<-|[<-|[<-|[]]]]; vm_compute; eexists; (split; [reflexivity|]); vm_compute; apply qcc_eq; apply Qc_is_canon; reflexivity.
Qed.

(* non-vacuity: a concrete complex positive-definite sequence meets the hypotheses and the
   recursion returns; an indefinite one raises *)
Definition ex_r : list QcC := [cz (2,0) (0,0); cz (1,0) (1,-1); cz (1,-2) (-1,-1)]%Z.
Example levinson_example :
  exists a P k, @levinson _ qcc_ops ex_r 2 false = Some (a, P, k) /\ @isreal _ qcc_ops (nthF (OF:=qcc_ops) ex_r 0).
Proof. vm_compute. do 3 eexists. split; reflexivity. Qed.
Example levinson_raises_example :
  @levinson _ qcc_ops [cz (1,0) (0,0); cz (2,0) (0,0)]%Z 1 false = None.
Proof. vm_compute. reflexivity. Qed.

(* the guard r0 > 0 of levinson_returns_iff_pd / levinson_not_pd_raises is needed: with r0 < 0 a stage error can turn
   positive again and the recursion returns on a sequence that is not positive definite *)
Example levinson_negative_r0_returns :
  exists a P k, @levinson _ qcc_ops [cz (-1,0) (0,0); cz (2,0) (0,0)]%Z 1 false = Some (a, P, k).
Proof. vm_compute. do 3 eexists. reflexivity. Qed.
(* the indefinite example above, through the theorem: it raises BECAUSE the form is not positive definite *)
Example levinson_not_pd_example :
  ~ (forall c : nat -> QcC, (exists i, (i <= 1)%nat /\ c i <> zero (Ops:=qcc_ops)) ->
       pos (OF:=qcc_ops) (OL:=qcc_ord) (sumf (OF:=qcc_ops) 2 (fun i => sumf (OF:=qcc_ops) 2 (fun j =>
         mul (Ops:=qcc_ops) (mul (Ops:=qcc_ops) (conj (Ops:=qcc_ops) (c i))
           (rz (OF:=qcc_ops) [cz (1,0) (0,0); cz (2,0) (0,0)]%Z (Z.of_nat i - Z.of_nat j))) (c j))))).
Proof.
  intros HPD.
  assert (Hr : isreal (OF:=qcc_ops) (nthF (OF:=qcc_ops) [cz (1,0) (0,0); cz (2,0) (0,0)]%Z 0)) by (vm_compute; reflexivity).
  assert (H0 : pos (OF:=qcc_ops) (OL:=qcc_ord) (nthF (OF:=qcc_ops) [cz (1,0) (0,0); cz (2,0) (0,0)]%Z 0)) by exact (pos_1 (L:=qcc_laws) (OL:=qcc_ord)).
  destruct (proj2 (levinson_returns_iff_pd (L:=qcc_laws) (OL:=qcc_ord) [cz (1,0) (0,0); cz (2,0) (0,0)]%Z 1 Hr ltac:(cbn; lia) H0) HPD)
    as (a & P & k & E).
  rewrite levinson_raises_example in E. discriminate.
Qed.

Example hermtoep_example :
  exists X, @hermtoep _ qcc_ops (cz (2,0)%Z (0,0)%Z) [cz (1,0) (1,-1); cz (1,-2) (-1,-1)]%Z [cz (1,0) (0,0); cz (0,0) (1,0); cz (3,0) (-1,0)]%Z = Some X.
Proof. vm_compute. eexists. reflexivity. Qed.

Print Assumptions levinson_solves.
Print Assumptions levinson_nested.
Print Assumptions levinson_raises.
Print Assumptions levinson_no_raise.
Print Assumptions hermtoep_solves.
Print Assumptions hermtoep_raises.
Print Assumptions toeplitz_solves.
Print Assumptions levinson_pd.
Print Assumptions levinson_stable.
Print Assumptions levinson_pd_converse.
Print Assumptions levinson_pd_iff.
Print Assumptions levinson_returns_iff_pd.
Print Assumptions levinson_not_pd_raises.
Print Assumptions levinson_allow_returns.
Print Assumptions cholesky_solves.
Print Assumptions cholesky_method.
Print Assumptions cholesky_methods_agree.
