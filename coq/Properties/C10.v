(* C10 — Levinson and the Toeplitz/Hermitian solvers solve their equations.
   Nothing but statements; each is closed by [exact] of a lemma proved elsewhere.

   PROVED (abstract *-field, every order, every lag sequence with real non-zero r0):
     levinson_solves   T_p [1,a]^T = [P,0..0]^T, P real and non-zero, P = r0 * prod(1-|k_i|^2),
                       last coefficient = last reflection coefficient, lengths
     levinson_nested   the order-q reflection coefficients are the first q of the order-p ones
     levinson_raises   the recursion fails exactly at a stage whose error power tests "<= 0"
     levinson_no_raise a returned stage never has error power "<= 0"
   NOT PROVED (stated in DESIGN.md 4/C10): positive definiteness => P_m > 0 and |k_m| < 1 in R
   (needs the LDL^H reading of the recursion), root location (stability), the general TOEPLITZ
   and CHOLESKY solvers (library back ends: correspondence + residual search only). *)
Require Import Spectrum.Theory.Ops Spectrum.Theory.Sum Spectrum.Theory.Vec Spectrum.Model.Levinson
               Spectrum.Proofs.LevinsonTheory Spectrum.Instances.QcC.
From Coq Require Import QArith Qcanon.

Section C10.
Context {F : Type} {OF : Ops F} {L : Laws OF}.
Local Open Scope F_scope.

Theorem levinson_solves (r : list F) (p : nat) (a : list F) (P : F) (k : list F) :
  isreal (nthF r O) -> nthF r O <> 0 ->
  levinson r p false = Some (a, P, k) ->
  length a = p /\ length k = p /\ isreal P /\ P <> 0
  /\ (forall i, (i <= p)%nat ->
        sumf (S p) (fun j => afun a j * rz r (Z.of_nat i - Z.of_nat j)) = if (i =? 0)%nat then P else 0)
  /\ P = nthF r O * prodk k
  /\ (1 <= p -> nthF a (p - 1) = nthF k (p - 1))%nat.
Proof. exact (levinson_solves_thm r p a P k). Qed.

Theorem levinson_nested (r : list F) (p q : nat) (a : list F) (P : F) (k : list F) : (q <= p)%nat ->
  levinson r p false = Some (a, P, k) ->
  exists a' P', levinson r q false = Some (a', P', firstn q k).
Proof. exact (levinson_nested_thm r p q a P k). Qed.

Theorem levinson_raises (r : list F) (p : nat) : (p <= length r - 1)%nat ->
  levinson r p false = None ->
  exists q A P ks, (q < p)%nat /\ levinson r q false = Some (A, P, ks) /\
    let k := (- lev_delta (tl r) A q) / P in le0 (P * (1 - k * conj k)) = true.
Proof. exact (levinson_raises_thm r p). Qed.

Theorem levinson_no_raise (r : list F) (p : nat) A P ks A' P' ks' :
  levinson r p false = Some (A, P, ks) -> levinson r (S p) false = Some (A', P', ks') ->
  le0 P' = false.
Proof. exact (levinson_no_raise_thm r p A P ks A' P' ks'). Qed.
End C10.

(* non-vacuity: a concrete complex positive-definite sequence meets the hypotheses and the
   recursion returns; an indefinite one raises *)
Definition ex_r : list QcC := [cz (2,0) (0,0); cz (1,0) (1,-1); cz (1,-2) (-1,-1)]%Z.
Example levinson_example :
  exists a P k, @levinson _ qcc_ops ex_r 2 false = Some (a, P, k) /\ @isreal _ qcc_ops (nthF (OF:=qcc_ops) ex_r 0).
Proof. vm_compute. do 3 eexists. split; reflexivity. Qed.
Example levinson_raises_example :
  @levinson _ qcc_ops [cz (1,0) (0,0); cz (2,0) (0,0)]%Z 1 false = None.
Proof. vm_compute. reflexivity. Qed.

Print Assumptions levinson_solves.
Print Assumptions levinson_nested.
Print Assumptions levinson_raises.
Print Assumptions levinson_no_raise.
