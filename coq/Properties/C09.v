(* C09 — Correlation estimates match their definition and are consistent.
   Nothing but statements; each is closed by [exact] of a lemma proved elsewhere
   (Proofs/CorrTheory.v, Proofs/CorrC09Theory.v, Proofs/CorrOrder.v).

   Vocabulary (definitions in Model/Corr.v, Model/CorrC09.v and the theory files):
     nthF x i            x[i], and 0 beyond the end of the list  (= the zero padding of a shorter input)
     lagsum N x y k      sum_{j < N-k} x[j+k] * conj(y[j])                      (lag k >= 0)
     lagsum_neg N x y k  sum_{j < N-k} x[j] * conj(y[j+k])                      (lag -k)
     normalised rp N k nm s   s/N (biased) | s/(N-k) (unbiased) | s (None) | 1 at k=0, s/rp/N at k>=1 (coeff)
     xnormalised              the same without the special case at lag 0 (xcorr has none)
     correlation_c rp x oy oml nm : CORRELATION(x, y, maxlags, norm); oy/oml = None are the defaults of
                         the code (y = x, maxlags = N-1); rp is rms(x)*rms(y), only read by 'coeff';
                         inl EAssert = AssertionError
     acorr_c x oml nm    the autocorrelation call; rp = mean_pow x = (sum |x|^2)/N = rms(x)^2
     xcorr_c             xcorr(x, y, maxlags, norm) -> (values, lags) | EAssert | EIndex
     rz r d              Hermitian extension r[d] (d >= 0), conj r[-d] (d < 0): T[i][j] = rz r (i-j)
     toep_form r m c     sum_{i,j <= m} conj(c_i) T[i][j] c_j
     gram x m i j        (X^H X)[i][j] for X = corrmtx(x, m, 'autocorrelation')
     nonneg a / pos a / le a b   "a real and >= 0" / "> 0" / "b - a >= 0" in the ordered *-field (Theory/Order.v)

   PROVED, for every length, every lag, every order m < N, every input, in the abstract *-field
   (order clauses: abstract ordered *-field; QcC — the executed instance — and C are models):
     correlation_def        all four norms, N = max(len x, len y), lags 0..maxlags, zero padding
     correlation_padding    the lag sums are those of the explicitly zero-padded copies (what resize does)
     correlation_raises     AssertionError exactly when maxlags >= N; no other exception
     correlation_default    maxlags=None returns all N lags
     acorr_def              r[0] = mean|x|^2 (biased, unbiased), energy (None), 1 (coeff) + the four norms
     acorr_coeff            coeff: r[k] = lagsum / (N * rms(x)^2) for k >= 1
     xcorr_def              length 2*maxlags+1, lags[i] = i - maxlags, value at +k and at -k from the definition
     xcorr_raises           AssertionError iff lengths differ or maxlags > N; IndexError iff maxlags = N
     xcorr_nonneg_lags      xcorr at lag +k = CORRELATION at k (coeff: k >= 1; CORRELATION pins r[0] = 1)
     xcorr_neg_lags         xcorr_xy at lag -k = conj(xcorr_yx at lag +k)
     xcorr_coeff_lag0       coeff-normalised two-sided autocorrelation is 1 at lag 0
     acorr_r0_nonneg        r[0] = mean|x|^2 and r[0] >= 0
     acorr_bound            |r[k]|^2 <= r[0]^2 for the biased autocorrelation (Cauchy–Schwarz)
     toeplitz_form_value    c^H T c = (1/N) sum_n |sum_j x[n-j] c_j|^2
     toeplitz_psd           c^H T c >= 0 for every c and every order m < N
     toeplitz_hermitian     T[j][i] = conj T[i][j]
     toeplitz_pd            c^H T c > 0 when x <> 0 and c <> 0 (more than the statement asks)
     acorr_coeff_bound      x <> 0, coeff: r[0] = 1, r[k] = lagsum / sum|x|^2, |r[k]|^2 <= 1
     xcorr_neg_lags_ord     the same as xcorr_neg_lags in the ordered field: only rms(x)*rms(y) > 0 is needed
     corrmtx_gram           (X^H X)[i][j] = N * T[i][j] for all i, j <= m, 'autocorrelation' data matrix
     gram_hermitian
     corrmtx_shape          rows, columns and entry formula of all five methods
     corrmtx_covariance_entry   covariance/modified rows only read samples inside the data
   NOT PROVED: nothing of the statement is left to search only.  Outside the theorems: the order-free
   reading "|r[k]| <= r[0]" (no square root in the field: stated as |r[k]|^2 <= r[0]^2 with r[0] >= 0);
   'coeff' for the cross-correlation takes rms(x)*rms(y) as an input (a square root; the statement asks
   it for the autocorrelation only, where it is the rational mean power); corrmtx with m >= N (the code
   returns matrices of other shapes there; outside the property's domain). *)
Require Import Spectrum.Theory.Ops Spectrum.Theory.Sum Spectrum.Theory.Vec Spectrum.Theory.Order
               Spectrum.Model.Corr Spectrum.Model.CorrC09 Spectrum.Proofs.CorrTheory
               Spectrum.Proofs.LevinsonTheory Spectrum.Proofs.CorrC09Theory Spectrum.Proofs.CorrOrder
               Spectrum.Instances.QcC Spectrum.Instances.QcCOrd.
From Coq Require Import QArith Qcanon.

Section C09.
Context {F : Type} {OF : Ops F} {L : Laws OF}.
Local Open Scope F_scope.

Theorem correlation_def rp (x : list F) oy oml nm r :
  correlation_c rp x oy oml nm = inr r ->
  let y := the_y x oy in
  let N := Nat.max (length x) (length y) in
  let ml := the_ml N oml in
  (ml < N)%nat /\ length r = S ml /\
  forall k, (k <= ml)%nat -> nthF r k = normalised rp N k nm (lagsum N x y k).
Proof. exact (correlation_c_def_thm rp x oy oml nm r). Qed.

Theorem correlation_padding N (x y : list F) k : (length x <= N)%nat -> (length y <= N)%nat ->
  lagsum N x y k = sumf (N - k) (fun j => nthF (pad N x) (j + k) * conj (nthF (pad N y) j)).
Proof. exact (lagsum_pad N x y k). Qed.

Theorem correlation_raises rp (x : list F) oy oml nm :
  let y := the_y x oy in
  let N := Nat.max (length x) (length y) in
  (correlation_c rp x oy oml nm = inl EAssert <-> (N <= the_ml N oml)%nat)
  /\ correlation_c rp x oy oml nm <> inl EIndex.
Proof. exact (correlation_c_raises_thm rp x oy oml nm). Qed.

Theorem correlation_default rp (x : list F) oy nm : (1 <= length x)%nat ->
  exists r, correlation_c rp x oy None nm = inr r /\ length r = Nat.max (length x) (length (the_y x oy)).
Proof. exact (correlation_c_default_thm rp x oy nm). Qed.

Theorem acorr_def (x : list F) oml nm r :
  acorr_c x oml nm = inr r ->
  let N := length x in
  let ml := the_ml N oml in
  (ml < N)%nat /\ length r = S ml /\
  (forall k, (k <= ml)%nat -> nthF r k = normalised (mean_pow x) N k nm (lagsum N x x k)) /\
  nthF r O = match nm with Biased | Unbiased => mean_pow x | NoNorm => sumf N (fun j => nrm2 (nthF x j)) | Coeff => 1 end.
Proof. exact (acorr_c_def_thm x oml nm r). Qed.

Theorem acorr_coeff (x : list F) oml r k :
  acorr_c x oml Coeff = inr r -> (1 <= k <= the_ml (length x) oml)%nat ->
  mean_pow x <> 0 -> ofnat (length x) <> 0 ->
  nthF r k = lagsum (length x) x x k / (ofnat (length x) * mean_pow x).
Proof. exact (acorr_c_coeff_thm x oml r k). Qed.

Theorem xcorr_def rp (x : list F) oy oml nm rx lags :
  xcorr_c rp x oy oml nm = inr (rx, lags) ->
  let y := the_y x oy in let N := length x in let ml := the_ml N oml in
  length y = N /\ (ml < N)%nat /\ length rx = (2 * ml + 1)%nat /\ length lags = (2 * ml + 1)%nat /\
  (forall i, (i < 2 * ml + 1)%nat -> nth i lags 0%Z = (Z.of_nat i - Z.of_nat ml)%Z) /\
  (forall k, (k <= ml)%nat -> nthF rx (ml + k) = xnormalised rp N k nm (lagsum N x y k)) /\
  (forall k, (k <= ml)%nat -> nthF rx (ml - k) = xnormalised rp N k nm (lagsum_neg N x y k)).
Proof. exact (xcorr_c_def_thm rp x oy oml nm rx lags). Qed.

Theorem xcorr_raises rp (x : list F) oy oml nm :
  let y := the_y x oy in let N := length x in let ml := the_ml N oml in
  (xcorr_c rp x oy oml nm = inl EAssert <-> (length y <> N \/ N < ml)%nat) /\
  (xcorr_c rp x oy oml nm = inl EIndex <-> (length y = N /\ ml = N)%nat).
Proof. exact (xcorr_c_raises_thm rp x oy oml nm). Qed.

Theorem xcorr_nonneg_lags rp (x : list F) oy oml nm rx lags r k :
  xcorr_c rp x oy oml nm = inr (rx, lags) -> correlation_c rp x oy oml nm = inr r ->
  (k <= the_ml (length x) oml)%nat -> (nm <> Coeff \/ (1 <= k)%nat) ->
  nthF rx (the_ml (length x) oml + k) = nthF r k.
Proof. exact (xcorr_c_nonneg_thm rp x oy oml nm rx lags r k). Qed.

Theorem xcorr_neg_lags rp (x y : list F) oml nm rxy lxy ryx lyx k :
  xcorr_c rp x (Some y) oml nm = inr (rxy, lxy) -> xcorr_c rp y (Some x) oml nm = inr (ryx, lyx) ->
  (k <= the_ml (length x) oml)%nat ->
  isreal rp -> rp <> 0 -> (forall n, (1 <= n <= length x)%nat -> ofnat n <> 0) ->
  nthF rxy (the_ml (length x) oml - k) = conj (nthF ryx (the_ml (length x) oml + k)).
Proof. exact (xcorr_c_neg_thm rp x y oml nm rxy lxy ryx lyx k). Qed.

Theorem xcorr_coeff_lag0 (x : list F) oml rx lags :
  xcorr_c (mean_pow x) x None oml Coeff = inr (rx, lags) ->
  mean_pow x <> 0 -> ofnat (length x) <> 0 ->
  nthF rx (the_ml (length x) oml) = 1.
Proof. exact (xcorr_c_coeff_lag0_thm x oml rx lags). Qed.

Theorem corrmtx_gram (x : list F) m i j r : (i <= m)%nat -> (j <= m)%nat ->
  ofnat (length x) <> 0 -> acorr_c x (Some m) Biased = inr r ->
  gram x m i j = ofnat (length x) * rz r (Z.of_nat i - Z.of_nat j).
Proof. exact (corrmtx_gram_full_thm x m i j r). Qed.

Theorem gram_hermitian (x : list F) m i j : gram x m i j = conj (gram x m j i).
Proof. exact (gram_hermitian_thm x m i j). Qed.

Theorem corrmtx_shape (x : list F) m meth : (m < length x)%nat ->
  length (corrmtx x m meth) = corrmtx_rows (length x) m meth /\
  forall n, (n < corrmtx_rows (length x) m meth)%nat ->
    length (nth n (corrmtx x m meth) []) = S m /\
    forall j, (j <= m)%nat -> cm_at x m meth n j = corrmtx_entry x m meth n j.
Proof. exact (corrmtx_shape_thm x m meth). Qed.

Theorem corrmtx_covariance_entry (x : list F) m n j : (m < length x)%nat -> (n < length x - m)%nat -> (j <= m)%nat ->
  cm_at x m MCovariance n j = nthF x (n + m - j) /\ (n + m - j < length x)%nat /\
  cm_at x m MModified n j = nthF x (n + m - j) /\
  cm_at x m MModified (length x - m + n) j = conj (nthF x (n + j)) /\ (n + j < length x)%nat.
Proof. exact (corrmtx_covariance_entry_thm x m n j). Qed.

(* ---------- order clauses: abstract ordered *-field ---------- *)
Context {OL : OrdLaws OF}.

Theorem acorr_r0_nonneg (x : list F) oml nm r : (nm = Biased \/ nm = Unbiased) ->
  acorr_c x oml nm = inr r -> nthF r O = mean_pow x /\ nonneg (nthF r O).
Proof. exact (acorr_r0_nonneg_thm x oml nm r). Qed.

Theorem acorr_bound (x : list F) oml r k :
  acorr_c x oml Biased = inr r -> (k <= the_ml (length x) oml)%nat ->
  le (nrm2 (nthF r k)) (nthF r O * nthF r O).
Proof. exact (acorr_bound_thm x oml r k). Qed.

Theorem toeplitz_form_value (x : list F) m r (c : nat -> F) :
  acorr_c x (Some m) Biased = inr r ->
  toep_form r m c = sumf (length x + m) (fun n => nrm2 (filt x m c n)) / ofnat (length x).
Proof. exact (toeplitz_form_value_thm x m r c). Qed.

Theorem toeplitz_psd (x : list F) m r (c : nat -> F) :
  acorr_c x (Some m) Biased = inr r -> nonneg (toep_form r m c).
Proof. exact (toeplitz_psd_thm x m r c). Qed.

Theorem toeplitz_hermitian (x : list F) m r d :
  acorr_c x (Some m) Biased = inr r -> conj (rz r d) = rz r (- d).
Proof. exact (toeplitz_hermitian_thm x m r d). Qed.

Theorem toeplitz_pd (x : list F) m r (c : nat -> F) :
  acorr_c x (Some m) Biased = inr r ->
  (exists t, (t < length x)%nat /\ nthF x t <> 0) ->
  (exists j, (j <= m)%nat /\ c j <> 0) ->
  pos (toep_form r m c).
Proof. exact (toeplitz_pd_thm x m r c). Qed.

Theorem acorr_coeff_bound (x : list F) oml r k :
  acorr_c x oml Coeff = inr r -> (exists t, (t < length x)%nat /\ nthF x t <> 0) ->
  (k <= the_ml (length x) oml)%nat ->
  nthF r O = 1 /\ ((1 <= k)%nat -> nthF r k = lagsum (length x) x x k / energy x) /\ le (nrm2 (nthF r k)) 1.
Proof. exact (acorr_coeff_bound_thm x oml r k). Qed.

Theorem xcorr_neg_lags_ord rp (x y : list F) oml nm rxy lxy ryx lyx k :
  xcorr_c rp x (Some y) oml nm = inr (rxy, lxy) -> xcorr_c rp y (Some x) oml nm = inr (ryx, lyx) ->
  (k <= the_ml (length x) oml)%nat -> pos rp ->
  nthF rxy (the_ml (length x) oml - k) = conj (nthF ryx (the_ml (length x) oml + k)).
Proof. exact (xcorr_neg_ord_thm rp x y oml nm rxy lxy ryx lyx k). Qed.
End C09.

(* ---------- non-vacuity on concrete Gaussian-rational inputs (vm_compute) ---------- *)
Definition ex_x : list QcC := [cz (1,0) (0,0); cz (2,0) (1,0); cz (-1,0) (1,-1); cz (0,0) (-3,0)]%Z.
Definition ex_y : list QcC := [cz (1,0) (1,0); cz (0,0) (-1,0)]%Z.      (* shorter: zero-padded *)
Definition qeq (a b : list QcC) : bool := qcc_close_list 0%Qc a b.
(* [returned res P]: the call returned (no exception) and the boolean test P holds of the result; evaluated by vm_compute *)
Definition returned {A : Type} (res : cerr + A) (P : A -> bool) : bool := match res with inr r => P r | inl _ => false end.

(* CORRELATION(ex_x, ex_y, norm=None): N = 4, all four lags, second input padded with two zeros;
   lag 0: 1*conj(1+i) + (2+i)*conj(-i) = (1-i) + (-1+2i) = i *)
Example correlation_example :
  returned (@correlation_c _ qcc_ops (cz (1,0) (0,0))%Z ex_x (Some ex_y) None NoNorm)
           (fun r => (length r =? 4)%nat && qeq (firstn 1 r) [cz (0,0) (1,0)]%Z) = true.
Proof. vm_compute. reflexivity. Qed.
(* the same with the arguments exchanged: x is the shorter one (the D13 situation);
   lag 0: (1+i)*1 + (-i)*conj(2+i) = -i, lag 1: (-i)*1 = -i *)
Example correlation_short_x_example :
  returned (@correlation_c _ qcc_ops (cz (1,0) (0,0))%Z ex_y (Some ex_x) None NoNorm)
           (fun r => (length r =? 4)%nat && qeq (firstn 2 r) [cz (0,0) (-1,0); cz (0,0) (-1,0)]%Z) = true.
Proof. vm_compute. reflexivity. Qed.
Example correlation_raises_example :
  @correlation_c _ qcc_ops (cz (1,0) (0,0))%Z ex_x (Some ex_y) (Some 4%nat) Biased = inl EAssert.
Proof. vm_compute. reflexivity. Qed.
(* biased autocorrelation: r[0] = (1 + 5 + 5/4 + 9)/4 = 65/16 *)
Example acorr_example :
  returned (@acorr_c _ qcc_ops ex_x (Some 2%nat) Biased)
           (fun r => (length r =? 3)%nat && qeq (firstn 1 r) [cz (65,-4) (0,0)]%Z) = true.
Proof. vm_compute. reflexivity. Qed.
(* the hypotheses of acorr_coeff / xcorr_coeff_lag0 are met by ex_x *)
Example acorr_coeff_example :
  returned (@acorr_c _ qcc_ops ex_x None Coeff) (fun r => (length r =? 4)%nat && qeq (firstn 1 r) [cz (1,0) (0,0)]%Z) = true
  /\ qeq [@mean_pow _ qcc_ops ex_x] [cz (65,-4) (0,0)]%Z = true
  /\ returned (@xcorr_c _ qcc_ops (@mean_pow _ qcc_ops ex_x) ex_x None None Coeff)
              (fun rl => qeq [nthF (OF:=qcc_ops) (fst rl) 3] [cz (1,0) (0,0)]%Z) = true.
Proof. vm_compute. repeat split. Qed.
Example xcorr_example :
  returned (@xcorr_c _ qcc_ops (cz (1,0) (0,0))%Z ex_x (Some (rev ex_x)) (Some 2%nat) Unbiased)
           (fun rl => (length (fst rl) =? 5)%nat && forallb (fun p => Z.eqb (fst p) (snd p)) (combine (snd rl) [-2; -1; 0; 1; 2]%Z)) = true.
Proof. vm_compute. reflexivity. Qed.
Example xcorr_raises_example :
  @xcorr_c _ qcc_ops (cz (1,0) (0,0))%Z ex_x None (Some 4%nat) Biased = inl EIndex
  /\ @xcorr_c _ qcc_ops (cz (1,0) (0,0))%Z ex_x None (Some 5%nat) Biased = inl EAssert
  /\ @xcorr_c _ qcc_ops (cz (1,0) (0,0))%Z ex_x (Some ex_y) None Biased = inl EAssert.
Proof. vm_compute. repeat split. Qed.
(* the order theorems at the executed instance: hypotheses are met by ex_x, order 3 = N-1 *)
Example toeplitz_pd_example (c : nat -> QcC) : (exists j, (j <= 3)%nat /\ c j <> @zero _ qcc_ops) ->
  exists r, @acorr_c _ qcc_ops ex_x (Some 3%nat) Biased = inr r /\
            @pos _ qcc_ops qcc_ord (@toep_form _ qcc_ops r 3 c) /\
            @le _ qcc_ops qcc_ord (@nrm2 _ qcc_ops (nthF (OF:=qcc_ops) r 3)) (@mul _ qcc_ops (nthF (OF:=qcc_ops) r 0) (nthF (OF:=qcc_ops) r 0)).
Proof.
  intros Hc.
  destruct (@acorr_c _ qcc_ops ex_x (Some 3%nat) Biased) as [e|r] eqn:E; [vm_compute in E; discriminate|].
  exists r. split; [reflexivity|]. split.
  - apply (@toeplitz_pd _ qcc_ops qcc_laws qcc_ord ex_x 3 r c E); [|exact Hc].
    exists O. split; [vm_compute; lia|vm_compute; discriminate].
  - apply (@acorr_bound _ qcc_ops qcc_laws qcc_ord ex_x (Some 3%nat) r 3 E). cbn. lia.
Qed.
Example corrmtx_example :
  map (@length QcC) (@corrmtx _ qcc_ops ex_x 2 MModified) = [3; 3; 3; 3]%nat /\
  length (@corrmtx _ qcc_ops ex_x 2 MAutocorrelation) = 6%nat.
Proof. vm_compute. split; reflexivity. Qed.

Print Assumptions correlation_def.
Print Assumptions correlation_padding.
Print Assumptions correlation_raises.
Print Assumptions correlation_default.
Print Assumptions acorr_def.
Print Assumptions acorr_coeff.
Print Assumptions xcorr_def.
Print Assumptions xcorr_raises.
Print Assumptions xcorr_nonneg_lags.
Print Assumptions xcorr_neg_lags.
Print Assumptions xcorr_coeff_lag0.
Print Assumptions corrmtx_gram.
Print Assumptions gram_hermitian.
Print Assumptions corrmtx_shape.
Print Assumptions corrmtx_covariance_entry.
Print Assumptions acorr_r0_nonneg.
Print Assumptions acorr_bound.
Print Assumptions toeplitz_form_value.
Print Assumptions toeplitz_psd.
Print Assumptions toeplitz_hermitian.
Print Assumptions toeplitz_pd.
Print Assumptions acorr_coeff_bound.
Print Assumptions xcorr_neg_lags_ord.
