(* C14 — Covariance and modified-covariance AR fits are least-squares optimal.
   Statements only; each is closed by [exact] of a lemma proved in Proofs/LsTheory.v,
   Proofs/CovarTheory.v, Proofs/CovarOpt.v, Proofs/CovarExp.v.

   [lstsq] (scipy.linalg.lstsq) enters as a universally quantified solver with the hypothesis
   [lstsq_spec]: whatever it returns has p entries and satisfies the normal equations
   (A^H A) a = A^H b of the call lstsq(-Xc, X1).  [ls_solve] (Gaussian elimination + exact re-check)
   is an executable instance of that specification (ls_solve_spec); it is the solver the
   correspondence run executes at QcC.

   PROVED (abstract ordered *-field, every data length N, every order p, every data vector):
     corrmtx_covariance_shape   N-p rows, p+1 columns, X[n][j] = x[p+n-j]
     corrmtx_modified_shape     2(N-p) rows; block 1 as above, block 2 row n = conj x[n..n+p] (fliplr(conj))
     ls_solve_spec              the executable solver returns solutions of the normal equations only
     ls_residual_orthogonal     normal equations <=> residual orthogonal to every regressor column
     ls_pythagoras              E(a') - E(a) = |A (a' - a)|^2 for EVERY a' (identity), hence E(a) <= E(a')
     covar_residual_orthogonal  arcovar: sum_n conj(x[n-i]) * (x[n] + sum_k a_k x[n-k]) = 0, i = 1..p, n = p..N-1
     covar_pythagoras           arcovar: forward energy of any c minus returned e = |Xc (c - a)|^2
     covar_e_is_min             arcovar: returned e IS the forward energy of a, is >= 0, and <= the energy of every c
     covar_unique               full column rank => any c reaching e equals the returned a
     arcovar_raises             the 'wierd behaviour' assertion never fires in exact arithmetic (D20 is a
                                floating-point matter): arcovar raises iff lstsq does
     modcovar_residual_orthogonal, modcovar_pythagoras, modcovar_e_is_min, modcovar_unique, modcovar_raises
                                the same for the stacked forward / conjugate-backward problem
     exponentials_annihilated   x_t = sum_i amp_i z_i^t, all z_i roots of z^p + c_0 z^(p-1) + .. + c_(p-1):
                                forward error of c is 0 at every n; backward error too when z_i conj z_i = 1
     covar_exponentials / modcovar_exponentials
                                on such data the code returns e = 0, all errors 0, and (full column rank)
                                exactly the coefficients c: the roots of the returned polynomial are the z_i
     arcovar_model_optimal / modcovar_model_optimal
                                the closed statement for the executed model (lstsq := ls_solve)
     exponentials_full_rank     p distinct exponentials, non-zero amplitudes, N >= 2p: the data matrix has full
                                column rank (Vandermonde: transposed system by elimination, synthetic division)
     covar_exact_recovery / modcovar_exact_recovery
                                on such data, WITHOUT any rank hypothesis: e = 0, the returned coefficients are those
                                of the root polynomial, every z_i is a root of the returned polynomial and it has no
                                other root — the p frequencies are recovered exactly
     gauss_sound                Gaussian elimination (Model/Ls.v) returns a solution of the system it is given
     ls_solve_complete          on a matrix of full column rank the executable solver returns (no zero pivot: the Gram
                                matrix is definite and Schur complements of definite matrices are definite)
     arcovar_model_returns / modcovar_model_returns
                                the executed model returns on every full-column-rank input (no vacuity on the domain)
     arcovar_model_recovers / modcovar_model_recovers
                                closed end-to-end statement for the executed model on p distinct exponentials, N >= 2p:
                                it returns, e = 0, coefficients = root polynomial
   NOT PROVED:
     * the Marple fast recursions (arcovar_marple, modcovar_marple) equal the least-squares solution:
       TEST only (search on the implementation against independent normal equations). *)
Require Import Spectrum.Theory.Ops Spectrum.Theory.Sum Spectrum.Theory.Vec Spectrum.Theory.Order
               Spectrum.Model.Corr Spectrum.Model.Ls Spectrum.Model.CovarMarple
               Spectrum.Proofs.LsTheory Spectrum.Proofs.CovarTheory Spectrum.Proofs.CovarOpt Spectrum.Proofs.CovarExp Spectrum.Proofs.CovarClosed Spectrum.Proofs.CovarVdm
               Spectrum.Proofs.GaussTheory Spectrum.Proofs.CovarFinal
               Spectrum.Instances.QcC Spectrum.Instances.QcCOrd.
From Coq Require Import QArith Qcanon.

Section C14.
Context {F : Type} {OF : Ops F} {L : Laws OF} {OL : OrdLaws OF}.
Local Open Scope F_scope.

Theorem corrmtx_covariance_shape (x : list F) p :
  let C := corrmtx x p MCovariance in
  length C = (length x - p)%nat /\
  forall n, (n < length x - p)%nat -> length (nth n C []) = S p /\
    forall j, (j <= p)%nat -> ent C n j = nthF x (p + n - j).
Proof. exact (corrmtx_covariance_shape_thm x p). Qed.

Theorem corrmtx_modified_shape (x : list F) p :
  let C := corrmtx x p MModified in
  length C = (2 * (length x - p))%nat /\
  forall n, (n < length x - p)%nat ->
    length (nth n C []) = S p /\ length (nth (length x - p + n) C []) = S p /\
    forall j, (j <= p)%nat ->
      ent C n j = nthF x (p + n - j) /\ ent C (length x - p + n) j = conj (nthF x (n + j)).
Proof. exact (corrmtx_modified_shape_thm x p). Qed.

Theorem ls_solve_spec : forall p (A : list (list F)) b a, ls_solve p A b = Some a ->
  length a = p /\ forall i, (i < p)%nat ->
    sumL (mk p (fun j => dotc (mcol A i) (mcol A j) * nthF a j)) = dotc (mcol A i) b.
Proof. exact ls_solve_spec_thm. Qed.

(* generic least squares, M rows, p columns, model b + A a ~ 0 *)
Theorem ls_residual_orthogonal (M p : nat) (A : nat -> nat -> F) (b a : nat -> F) :
  (forall i, (i < p)%nat ->
     sumf p (fun j => sumf M (fun n => conj (A n i) * A n j) * a j) = - sumf M (fun n => conj (A n i) * b n))
  <-> (forall i, (i < p)%nat -> sumf M (fun n => conj (A n i) * (b n + sumf p (fun j => A n j * a j))) = 0).
Proof. exact (NE_orth M p A b a). Qed.

Theorem ls_pythagoras (M p : nat) (A : nat -> nat -> F) (b a a' : nat -> F) :
  (forall i, (i < p)%nat -> sumf M (fun n => conj (A n i) * (b n + sumf p (fun j => A n j * a j))) = 0) ->
  let E := fun c => sumf M (fun n => nrm2 (b n + sumf p (fun j => A n j * c j))) in
  E a' - E a = sumf M (fun n => nrm2 (sumf p (fun j => A n j * (a' j - a j)))) /\ le (E a) (E a').
Proof. exact (ls_pythagoras_thm M p A b a a'). Qed.

(* ---- arcovar ---- *)
Theorem covar_residual_orthogonal lstsq tol (x : list F) p a e : lstsq_spec lstsq ->
  arcovar_with lstsq tol x p = Some (a, e) ->
  length a = p /\
  forall i, (i < p)%nat ->
    sumf (length x - p) (fun n => conj (nthF x (p + n - 1 - i)) * fwd_res x p (nthF a) n) = 0.
Proof. exact (covar_residual_orthogonal_thm lstsq tol x p a e). Qed.

Theorem covar_pythagoras lstsq tol (x : list F) p a e (c : nat -> F) : lstsq_spec lstsq ->
  arcovar_with lstsq tol x p = Some (a, e) ->
  fwd_energy x p c - e
  = sumf (length x - p) (fun n => nrm2 (sumf p (fun j => nthF x (p + n - 1 - j) * (c j - nthF a j)))).
Proof. exact (covar_pythagoras_thm lstsq tol x p a e c). Qed.

Theorem covar_e_is_min lstsq tol (x : list F) p a e : lstsq_spec lstsq ->
  arcovar_with lstsq tol x p = Some (a, e) ->
  e = fwd_energy x p (nthF a) /\ nonneg e /\ forall c : nat -> F, le e (fwd_energy x p c).
Proof. exact (covar_e_is_min_thm lstsq tol x p a e). Qed.

Theorem covar_unique lstsq tol (x : list F) p a e (c : nat -> F) : lstsq_spec lstsq -> cov_full_rank x p ->
  arcovar_with lstsq tol x p = Some (a, e) ->
  fwd_energy x p c = e -> forall j, (j < p)%nat -> c j = nthF a j.
Proof. exact (covar_unique_thm lstsq tol x p a e c). Qed.

Theorem arcovar_raises lstsq tol (x : list F) p : lstsq_spec lstsq ->
  arcovar_with lstsq tol x p = None <->
  lstsq p (mneg (cols1 (corrmtx x p MCovariance))) (col0 (corrmtx x p MCovariance)) = None.
Proof. exact (arcovar_raises_thm lstsq tol x p). Qed.

(* ---- modcovar ---- *)
Theorem modcovar_residual_orthogonal lstsq tol (x : list F) p a e : lstsq_spec lstsq ->
  modcovar_with lstsq tol x p = Some (a, e) ->
  length a = p /\
  forall i, (i < p)%nat ->
    sumf (length x - p) (fun n => conj (nthF x (p + n - 1 - i)) * fwd_res x p (nthF a) n)
    + sumf (length x - p) (fun n => nthF x (n + 1 + i) * bwd_res x p (nthF a) n) = 0.
Proof. exact (modcovar_residual_orthogonal_thm lstsq tol x p a e). Qed.

Theorem modcovar_pythagoras lstsq tol (x : list F) p a e (c : nat -> F) : lstsq_spec lstsq ->
  modcovar_with lstsq tol x p = Some (a, e) ->
  fwd_energy x p c + bwd_energy x p c - e
  = sumf (length x - p) (fun n => nrm2 (sumf p (fun j => nthF x (p + n - 1 - j) * (c j - nthF a j))))
    + sumf (length x - p) (fun n => nrm2 (sumf p (fun j => conj (nthF x (n + 1 + j)) * (c j - nthF a j)))).
Proof. exact (modcovar_pythagoras_thm lstsq tol x p a e c). Qed.

Theorem modcovar_e_is_min lstsq tol (x : list F) p a e : lstsq_spec lstsq ->
  modcovar_with lstsq tol x p = Some (a, e) ->
  e = fwd_energy x p (nthF a) + bwd_energy x p (nthF a) /\ nonneg e /\
  forall c : nat -> F, le e (fwd_energy x p c + bwd_energy x p c).
Proof. exact (modcovar_e_is_min_thm lstsq tol x p a e). Qed.

Theorem modcovar_unique lstsq tol (x : list F) p a e (c : nat -> F) : lstsq_spec lstsq -> mod_full_rank x p ->
  modcovar_with lstsq tol x p = Some (a, e) ->
  fwd_energy x p c + bwd_energy x p c = e -> forall j, (j < p)%nat -> c j = nthF a j.
Proof. exact (modcovar_unique_thm lstsq tol x p a e c). Qed.

Theorem modcovar_raises lstsq tol (x : list F) p : lstsq_spec lstsq ->
  modcovar_with lstsq tol x p = None <->
  lstsq p (mneg (cols1 (corrmtx x p MModified))) (col0 (corrmtx x p MModified)) = None.
Proof. exact (modcovar_raises_thm lstsq tol x p). Qed.

(* ---- noiseless exponentials ---- *)
Theorem exponentials_annihilated (x : list F) p q (amp z c : nat -> F) :
  (forall t, (t < length x)%nat -> nthF x t = expsum q amp z t) ->
  (forall i, (i < q)%nat -> monic_eval p c (z i) = 0) ->
  (forall n, (n < length x - p)%nat -> fwd_res x p c n = 0) /\
  ((forall i, (i < q)%nat -> z i * conj (z i) = 1) -> forall n, (n < length x - p)%nat -> bwd_res x p c n = 0).
Proof. exact (exponentials_annihilated_thm x p q amp z c). Qed.

Theorem covar_exponentials lstsq tol (x : list F) p q amp z c a e : lstsq_spec lstsq ->
  (forall t, (t < length x)%nat -> nthF x t = expsum q amp z t) ->
  (forall i, (i < q)%nat -> monic_eval p c (z i) = 0) ->
  arcovar_with lstsq tol x p = Some (a, e) ->
  e = 0 /\ (forall n, (n < length x - p)%nat -> fwd_res x p (nthF a) n = 0)
  /\ (cov_full_rank x p -> forall j, (j < p)%nat -> nthF a j = c j).
Proof. exact (covar_exponentials_thm lstsq tol x p q amp z c a e). Qed.

Theorem modcovar_exponentials lstsq tol (x : list F) p q amp z c a e : lstsq_spec lstsq ->
  (forall t, (t < length x)%nat -> nthF x t = expsum q amp z t) ->
  (forall i, (i < q)%nat -> monic_eval p c (z i) = 0) ->
  (forall i, (i < q)%nat -> z i * conj (z i) = 1) ->
  modcovar_with lstsq tol x p = Some (a, e) ->
  e = 0 /\ (forall n, (n < length x - p)%nat -> fwd_res x p (nthF a) n = 0 /\ bwd_res x p (nthF a) n = 0)
  /\ (mod_full_rank x p -> forall j, (j < p)%nat -> nthF a j = c j).
Proof. exact (modcovar_exponentials_thm lstsq tol x p q amp z c a e). Qed.

Theorem exponentials_full_rank (x : list F) p (amp z : nat -> F) :
  (forall t, (t < length x)%nat -> nthF x t = expsum p amp z t) ->
  (forall i j, (i < j < p)%nat -> z i <> z j) -> (forall i, (i < p)%nat -> amp i <> 0) -> (2 * p <= length x)%nat ->
  forall c : nat -> F,
    (forall n, (n < length x - p)%nat -> sumf p (fun j => nthF x (p + n - 1 - j) * c j) = 0) ->
    forall j, (j < p)%nat -> c j = 0.
Proof. exact (exp_full_rank_thm x p amp z). Qed.

Theorem covar_exact_recovery lstsq tol (x : list F) p amp z c a e : lstsq_spec lstsq ->
  (forall t, (t < length x)%nat -> nthF x t = expsum p amp z t) ->
  (forall i j, (i < j < p)%nat -> z i <> z j) -> (forall i, (i < p)%nat -> amp i <> 0) -> (2 * p <= length x)%nat ->
  (forall i, (i < p)%nat -> monic_eval p c (z i) = 0) ->
  arcovar_with lstsq tol x p = Some (a, e) ->
  e = 0 /\ (forall j, (j < p)%nat -> nthF a j = c j)
  /\ (forall i, (i < p)%nat -> monic_eval p (nthF a) (z i) = 0)
  /\ (forall w, monic_eval p (nthF a) w = 0 -> ~ (forall i, (i < p)%nat -> z i <> w)).
Proof. exact (covar_exact_recovery_thm lstsq tol x p amp z c a e). Qed.

Theorem modcovar_exact_recovery lstsq tol (x : list F) p amp z c a e : lstsq_spec lstsq ->
  (forall t, (t < length x)%nat -> nthF x t = expsum p amp z t) ->
  (forall i j, (i < j < p)%nat -> z i <> z j) -> (forall i, (i < p)%nat -> amp i <> 0) -> (2 * p <= length x)%nat ->
  (forall i, (i < p)%nat -> monic_eval p c (z i) = 0) ->
  (forall i, (i < p)%nat -> z i * conj (z i) = 1) ->
  modcovar_with lstsq tol x p = Some (a, e) ->
  e = 0 /\ (forall j, (j < p)%nat -> nthF a j = c j)
  /\ (forall i, (i < p)%nat -> monic_eval p (nthF a) (z i) = 0)
  /\ (forall w, monic_eval p (nthF a) w = 0 -> ~ (forall i, (i < p)%nat -> z i <> w)).
Proof. exact (modcovar_exact_recovery_thm lstsq tol x p amp z c a e). Qed.

(* ---- the executed model (lstsq := ls_solve): closed statements ---- *)
Theorem arcovar_model_optimal tol (x : list F) p a e : arcovar tol x p = Some (a, e) ->
  length a = p
  /\ (forall i, (i < p)%nat -> sumf (length x - p) (fun n => conj (nthF x (p + n - 1 - i)) * fwd_res x p (nthF a) n) = 0)
  /\ e = fwd_energy x p (nthF a) /\ forall c : nat -> F, le e (fwd_energy x p c).
Proof. exact (arcovar_model_optimal_thm tol x p a e). Qed.

Theorem modcovar_model_optimal tol (x : list F) p a e : modcovar tol x p = Some (a, e) ->
  length a = p
  /\ (forall i, (i < p)%nat ->
        sumf (length x - p) (fun n => conj (nthF x (p + n - 1 - i)) * fwd_res x p (nthF a) n)
        + sumf (length x - p) (fun n => nthF x (n + 1 + i) * bwd_res x p (nthF a) n) = 0)
  /\ e = fwd_energy x p (nthF a) + bwd_energy x p (nthF a)
  /\ forall c : nat -> F, le e (fwd_energy x p c + bwd_energy x p c).
Proof. exact (modcovar_model_optimal_thm tol x p a e). Qed.
Theorem gauss_sound p (rows : list (list F)) sol : gauss p rows = Some sol ->
  length sol = p /\ forall i, (i < p)%nat -> sumf p (fun j => ent rows i j * nthF sol j) = ent rows i p.
Proof. exact (GaussTheory.gauss_sound p rows sol). Qed.

Theorem ls_solve_complete p (A : list (list F)) (b : list F) :
  (forall c : nat -> F, (forall n, (n < length A)%nat -> sumf p (fun j => ent A n j * c j) = 0) -> forall j, (j < p)%nat -> c j = 0) ->
  exists a, ls_solve p A b = Some a.
Proof. exact (ls_solve_complete_thm p A b). Qed.

Theorem arcovar_model_returns tol (x : list F) p : cov_full_rank x p -> exists a e, arcovar tol x p = Some (a, e).
Proof. exact (arcovar_model_returns_thm tol x p). Qed.

Theorem modcovar_model_returns tol (x : list F) p : mod_full_rank x p -> exists a e, modcovar tol x p = Some (a, e).
Proof. exact (modcovar_model_returns_thm tol x p). Qed.

Theorem arcovar_model_recovers tol (x : list F) p amp z c :
  (forall t, (t < length x)%nat -> nthF x t = expsum p amp z t) ->
  (forall i j, (i < j < p)%nat -> z i <> z j) -> (forall i, (i < p)%nat -> amp i <> 0) -> (2 * p <= length x)%nat ->
  (forall i, (i < p)%nat -> monic_eval p c (z i) = 0) ->
  exists a, arcovar tol x p = Some (a, 0) /\ length a = p /\ forall j, (j < p)%nat -> nthF a j = c j.
Proof. exact (arcovar_model_recovers_thm tol x p amp z c). Qed.

Theorem modcovar_model_recovers tol (x : list F) p amp z c :
  (forall t, (t < length x)%nat -> nthF x t = expsum p amp z t) ->
  (forall i j, (i < j < p)%nat -> z i <> z j) -> (forall i, (i < p)%nat -> amp i <> 0) -> (2 * p <= length x)%nat ->
  (forall i, (i < p)%nat -> monic_eval p c (z i) = 0) ->
  (forall i, (i < p)%nat -> z i * conj (z i) = 1) ->
  exists a, modcovar tol x p = Some (a, 0) /\ length a = p /\ forall j, (j < p)%nat -> nthF a j = c j.
Proof. exact (modcovar_model_recovers_thm tol x p amp z c). Qed.
End C14.

(* ---------- non-vacuity on concrete Gaussian-rational inputs ---------- *)
Local Open Scope Z_scope.
Definition tol4 : QcC := (Q2Qc (1 # 10000), Q2Qc 0).
Definition ex_x : list QcC := [cz (1,0) (0,0); cz (1,1) (1,0); cz (-1,0) (1,-1); cz (3,-1) (0,0); cz (1,0) (-1,0); cz (-1,-1) (1,-2); cz (1,1) (1,0)].
Example arcovar_example : exists a e, @arcovar _ qcc_ops tol4 ex_x 2 = Some (a, e) /\ e <> @zero _ qcc_ops.
Proof. vm_compute. do 2 eexists. split; [reflexivity|discriminate]. Qed.
Example modcovar_example : exists a e, @modcovar _ qcc_ops tol4 ex_x 2 = Some (a, e) /\ e <> @zero _ qcc_ops.
Proof. vm_compute. do 2 eexists. split; [reflexivity|discriminate]. Qed.
(* rank-deficient data (a constant at order 2): the solver, hence arcovar, returns None *)
Example arcovar_singular_example : @arcovar _ qcc_ops tol4 [cz (1,0) (0,0); cz (1,0) (0,0); cz (1,0) (0,0); cz (1,0) (0,0); cz (1,0) (0,0); cz (1,0) (0,0)] 2 = None.
Proof. vm_compute. reflexivity. Qed.
(* x_t = 3 i^t + (1+i) (-1)^t, t < 8: both methods return e = 0 and the polynomial (z - i)(z + 1) = z^2 + (1-i) z - i *)
Definition ex_exp : list QcC :=
  map (fun t => @expsum _ qcc_ops 2 (fun i => match i with O => cz (3,0) (0,0) | _ => cz (1,0) (1,0) end)
                                    (fun i => match i with O => cz (0,0) (1,0) | _ => cz (-1,0) (0,0) end) t) (seq 0 8).
Definition same_result (r : option (list QcC * QcC)) (a : list QcC) (e : QcC) : bool :=
  match r with Some (a', e') => qcc_close_list 0%Qc a' a && qcc_close 0%Qc e' e | None => false end.
Example arcovar_exponentials_example :
  same_result (@arcovar _ qcc_ops tol4 ex_exp 2) [cz (1,0) (-1,0); cz (0,0) (-1,0)] (@zero _ qcc_ops) = true.
Proof. vm_compute. reflexivity. Qed.
Example modcovar_exponentials_example :
  same_result (@modcovar _ qcc_ops tol4 ex_exp 2) [cz (1,0) (-1,0); cz (0,0) (-1,0)] (@zero _ qcc_ops) = true.
Proof. vm_compute. reflexivity. Qed.
(* NOT a theorem about the fast recursions — one executed instance of the TEST the correspondence run repeats on
   every generated case: the Marple models return the exact least-squares coefficients and per-sample minimum *)
Definition ediv (e : QcC) (n : nat) : QcC := @div _ qcc_ops e (@ofnat _ qcc_ops n).
Example marple_equals_ls_instance :
  match @arcovar _ qcc_ops tol4 ex_x 2, @arcovar_marple _ qcc_ops ex_x 2, @modcovar _ qcc_ops tol4 ex_x 2, @modcovar_marple _ qcc_ops ex_x 2 with
  | Some (a, e), Some (af, pf, _, _), Some (a2, e2), Some (am, pm) =>
      qcc_close_list 0%Qc (firstn 2 af) a && qcc_close 0%Qc pf (ediv e 5)
      && qcc_close_list 0%Qc (firstn 2 am) a2 && qcc_close 0%Qc pm (ediv e2 10)
  | _, _, _, _ => false
  end = true.
Proof. vm_compute. reflexivity. Qed.
(* the abstract theorems apply to the executed instance *)
Example applies_to_qcc a e : @arcovar _ qcc_ops tol4 ex_x 2 = Some (a, e) ->
  forall c : nat -> QcC, @le _ qcc_ops qcc_ord e (@fwd_energy _ qcc_ops ex_x 2 c).
Proof. intros H. exact (proj2 (proj2 (proj2 (@arcovar_model_optimal _ qcc_ops qcc_laws qcc_ord tol4 ex_x 2 a e H)))). Qed.

Print Assumptions corrmtx_covariance_shape.
Print Assumptions corrmtx_modified_shape.
Print Assumptions ls_solve_spec.
Print Assumptions ls_residual_orthogonal.
Print Assumptions ls_pythagoras.
Print Assumptions covar_residual_orthogonal.
Print Assumptions covar_pythagoras.
Print Assumptions covar_e_is_min.
Print Assumptions covar_unique.
Print Assumptions arcovar_raises.
Print Assumptions modcovar_residual_orthogonal.
Print Assumptions modcovar_pythagoras.
Print Assumptions modcovar_e_is_min.
Print Assumptions modcovar_unique.
Print Assumptions modcovar_raises.
Print Assumptions exponentials_annihilated.
Print Assumptions covar_exponentials.
Print Assumptions modcovar_exponentials.
Print Assumptions exponentials_full_rank.
Print Assumptions covar_exact_recovery.
Print Assumptions modcovar_exact_recovery.
Print Assumptions arcovar_model_optimal.
Print Assumptions modcovar_model_optimal.
Print Assumptions gauss_sound.
Print Assumptions ls_solve_complete.
Print Assumptions arcovar_model_returns.
Print Assumptions modcovar_model_returns.
Print Assumptions arcovar_model_recovers.
Print Assumptions modcovar_model_recovers.
