(* C01 — Periodogram equals the windowed-DFT definition and conserves power.
   Nothing but statements; each is closed by [exact] of a lemma proved elsewhere. *)
Require Import Spectrum.Theory.Ops Spectrum.Theory.Sum Spectrum.Theory.Vec Spectrum.Theory.Dft
               Spectrum.Model.Corr Spectrum.Model.Periodogram Spectrum.Proofs.PeriodogramTheory
               Spectrum.Instances.QcC Spectrum.Instances.QcCTw.
From Coq Require Import QArith Qcanon.

Section C01.
Context {F : Type} {OF : Ops F} {L : Laws OF}.
Local Open Scope F_scope.

Theorem periodogram_def tw twopi (x w : list F) NFFT isreal dt sbf fs k :
  py_eq_true dt = false -> py_is_true sbf = false ->
  let n := resolve NFFT (length x) in
  (1 <= length x <= n)%nat -> (k < nbins isreal n)%nat ->
  nthF (speriodogram tw twopi x w NFFT isreal dt sbf fs) k
  = nrm2 (dftN tw (length x) (fun i => nthF x i * nthF w i) (Z.of_nat k)) / ofnat (length x).
Proof. exact (periodogram_def_thm tw twopi x w NFFT isreal dt sbf fs k). Qed.
End C01.

Print Assumptions periodogram_def.
