(* C01 — Periodogram equals the windowed-DFT definition and conserves power.
   Nothing but statements; each is closed by [exact] of a lemma proved elsewhere.

   PROVED (abstract *-field, abstract twiddle character of exact period NFFT, every N >= 1, every NFFT >= N,
   every window vector, real and complex storage, both parities of NFFT):
     periodogram_def         every returned bin k of speriodogram (flag tests failing: detrend not == True,
                             scale_by_freq not `is True`) is nrm2(DFT_NFFT(x.*w)[k]) / N  -- the code divides by the
                             data length N, never by a window normalisation, exactly as the property says
     periodogram_def_list    the same with the list-level transform dft tw NFFT (vmul x w) (Appendix C form)
     periodogram_length      NFFT/2+1 values for real data, NFFT for complex data
     periodogram_flags       every flag value, NFFT < N allowed: (r)fft of the first min(N,NFFT) samples of
                             x.*w - mean(x) (mean of the UNwindowed data, only under detrend == True), /N,
                             times 2*pi/(sampling/NFFT) only under scale_by_freq is True
     parseval_periodogram    complex data: sum of the NFFT bins = NFFT * sum|x_n w_n|^2 / N
     parseval_mean           ... hence mean of the bins = sum|x_n w_n|^2 / N (NFFT invertible)
     periodogram_2d          2-D input (window matrix built as the code builds it, transforms along axis 0):
                             entry (k, j) of the result is bin k of the 1-D call on column j; shape nbins x c
     periodogram_class       reading p.psd after any history of __call__ / psd reads / window changes returns
                             speriodogram(data, current window, constructor NFFT, self.detrend, self.scale_by_freq)
                             and leaves NFFT and range.N at the constructor's value (None -> N, 'nextpow2', int)
     periodogram_class_def   ... so with detrend in {None,'mean'} and scale_by_freq False every stored bin is the definition
     correlogram_bins        CORRELOGRAMPSD, NFFT >= 2*lag+1, either back end, any norm, auto or cross: bin k is
                             real( r[0] + sum_d w_d r_xy[d] tw(dk) + sum_d w_d conj(r_yx[d]) tw(-dk) )  (layout lemma)
     wiener_khinchin         rectangular lag window, lag N-1, biased, NFFT >= 2N-1, either back end:
                             CORRELOGRAMPSD(x) = speriodogram(complex x, rectangular) as lists (N invertible)
     wiener_khinchin_ord     the same in any formally real *-field (no side condition; applies to QcC and C)
     correlogram_buffer      NFFT >= lag+1 (overlapping layouts included): the transformed buffer is the closed form
                             [layout] of the three sequential slice writes (the negative-lag slice wins on overlap)
     correlogram_auto_raises the auto-correlogram fails exactly when lag >= N, NFFT = 0, or NFFT < lag+1 with lag <> 1
                             (for lag = 1 numpy broadcasts the single value into the empty slices)
     periodogram_pipeline    the interpreter of the pipeline record (speriodogram keyword sources, psd-setter rule per data
                             type, scale rule) at the record of the current tree is the class model p_call; the check
                             re-extracts the record from the snapshot source on every run (fail-closed ast translator)
                             and re-proves "interpreter at the extracted record = p_call" (call_pipeline_is_modelled)
   NOT PROVED: nothing of the statement of C01 is left unproved at model level; rounding error of the binary64
   code, the numerical values of the named windows (C20) and the faithfulness of the hand-written model (tied by
   the correspondence run only) are outside the theorems. *)
Require Import Spectrum.Theory.Ops Spectrum.Theory.Sum Spectrum.Theory.Vec Spectrum.Theory.Dft Spectrum.Theory.Order
               Spectrum.Model.Corr Spectrum.Model.Periodogram
               Spectrum.Model.PeriodogramGen Spectrum.Proofs.PeriodogramGenTheory
               Spectrum.Proofs.PeriodogramTheory Spectrum.Proofs.PeriodogramClassTheory Spectrum.Proofs.CorrelogramTheory
               Spectrum.Instances.QcC Spectrum.Instances.QcCOrd Spectrum.Instances.QcCTw.
From Coq Require Import QArith Qcanon.

Section C01.
Context {F : Type} {OF : Ops F} {L : Laws OF}.
Local Open Scope F_scope.

Theorem periodogram_def tw twopi (x w : list F) NFFT isreal dt sbf fs k :
  py_eq_true dt = false -> py_is_true sbf = false ->
  let n := resolve NFFT (length x) in
  (1 <= length x <= n)%nat -> (k < nbins isreal n)%nat ->
  nthF (speriodogram tw twopi x w NFFT isreal dt sbf fs) k
  = nrm2 (dftN tw (length x) (fun i => nthF x i * nthF w i) (Z.of_nat k)) / ofnat (length x).
Proof. exact (periodogram_def_thm tw twopi x w NFFT isreal dt sbf fs k). Qed.

Theorem periodogram_def_list tw twopi (x w : list F) NFFT isreal dt sbf fs k :
  py_eq_true dt = false -> py_is_true sbf = false ->
  let n := resolve NFFT (length x) in
  (1 <= length x <= n)%nat -> (k < nbins isreal n)%nat ->
  nthF (speriodogram tw twopi x w NFFT isreal dt sbf fs) k = nrm2 (nthF (dft tw n (vmul x w)) k) / ofnat (length x).
Proof. exact (periodogram_def_list_thm tw twopi x w NFFT isreal dt sbf fs k). Qed.

Theorem periodogram_length tw twopi (x w : list F) NFFT isreal dt sbf fs :
  (1 <= resolve NFFT (length x))%nat ->
  length (speriodogram tw twopi x w NFFT isreal dt sbf fs) = nbins isreal (resolve NFFT (length x)).
Proof. exact (periodogram_length_thm tw twopi x w NFFT isreal dt sbf fs). Qed.

Theorem periodogram_flags tw twopi (x w : list F) NFFT isreal dt sbf fs k :
  let n := resolve NFFT (length x) in
  (1 <= n)%nat -> (k < nbins isreal n)%nat ->
  nthF (speriodogram tw twopi x w NFFT isreal dt sbf fs) k
  = nrm2 (dftN tw (Nat.min (length x) n) (fun i => nthF x i * nthF w i - detrend_mean dt x) (Z.of_nat k)) / ofnat (length x)
    * scale_of twopi sbf fs n.
Proof. exact (periodogram_general_thm tw twopi x w NFFT isreal dt sbf fs k). Qed.

Theorem parseval_periodogram n tw {T : Twiddle n tw} twopi (x w : list F) dt sbf fs :
  py_eq_true dt = false -> py_is_true sbf = false -> (1 <= length x <= n)%nat ->
  sumf n (fun k => nthF (speriodogram tw twopi x w (Some n) false dt sbf fs) k)
  = ofnat n * (sumf (length x) (fun i => nrm2 (nthF x i * nthF w i)) / ofnat (length x)).
Proof. exact (parseval_periodogram_thm n tw twopi x w dt sbf fs). Qed.

Theorem parseval_mean n tw {T : Twiddle n tw} twopi (x w : list F) dt sbf fs :
  py_eq_true dt = false -> py_is_true sbf = false -> (1 <= length x <= n)%nat -> ofnat n <> 0 ->
  sumf n (fun k => nthF (speriodogram tw twopi x w (Some n) false dt sbf fs) k) / ofnat n
  = sumf (length x) (fun i => nrm2 (nthF x i * nthF w i)) / ofnat (length x).
Proof. exact (parseval_mean_thm n tw twopi x w dt sbf fs). Qed.

Theorem periodogram_2d tw twopi (X : list (list F)) c (w : list F) NFFT isreal dt sbf fs :
  let n := resolve NFFT (length X) in
  (1 <= n)%nat ->
  length (speriodogram2d tw twopi X c w NFFT isreal dt sbf fs) = nbins isreal n /\
  forall k, (k < nbins isreal n)%nat ->
    length (nth k (speriodogram2d tw twopi X c w NFFT isreal dt sbf fs) []) = c /\
    forall j, (j < c)%nat ->
      nthF (nth k (speriodogram2d tw twopi X c w NFFT isreal dt sbf fs) []) j
      = nthF (speriodogram tw twopi (colL X j) w NFFT isreal dt sbf fs) k.
Proof. exact (periodogram_2d_full_thm tw twopi X c w NFFT isreal dt sbf fs). Qed.

Theorem periodogram_class tw twopi (data : list F) isreal wn w fs a dt sbf (ops : list pop) :
  let n0 := init_nfft a (length data) in
  let s := p_read tw twopi (fold_left (p_step tw twopi) ops (p_init data isreal wn w fs a dt sbf)) in
  p_NFFT s = n0 /\ p_rangeN s = n0 /\
  p_psd s = Some (speriodogram tw twopi data (p_window s) (Some n0) isreal dt sbf fs).
Proof. exact (periodogram_class_thm tw twopi data isreal wn w fs a dt sbf ops). Qed.

Theorem periodogram_class_def tw twopi (data : list F) isreal wn w fs a dt sbf (ops : list pop) k :
  py_eq_true dt = false -> py_is_true sbf = false ->
  let n0 := init_nfft a (length data) in
  let s := p_read tw twopi (fold_left (p_step tw twopi) ops (p_init data isreal wn w fs a dt sbf)) in
  (1 <= length data <= n0)%nat -> (k < nbins isreal n0)%nat ->
  exists psd, p_psd s = Some psd /\ length psd = nbins isreal n0 /\
    nthF psd k = nrm2 (dftN tw (length data) (fun i => nthF data i * nthF (p_window s) i) (Z.of_nat k)) / ofnat (length data).
Proof. exact (periodogram_class_def_thm tw twopi data isreal wn w fs a dt sbf ops k). Qed.

Theorem correlogram_bins n tw {T : Twiddle n tw} rp (x : list F) y lag wfull NFFT nm be rxy ryx :
  resolve NFFT (length x) = n -> (lag < length x)%nat -> (2 * lag + 1 <= n)%nat ->
  corr_pos be rp x (match y with None => x | Some v => v end) lag nm = Some rxy ->
  (match y with None => Some rxy | Some v => corr_pos be rp v x lag nm end) = Some ryx ->
  exists l, correlogram tw rp x y lag wfull NFFT nm be = Some l /\ length l = n /\
    forall k, (k < n)%nat ->
      nthF l k = re (sumf (lag + 1) (fun d => bt_a rxy (skipn (lag + 1) wfull) d * tw (Z.of_nat d * Z.of_nat k)%Z)
                     + sumf lag (fun d => bt_b ryx (skipn (lag + 1) wfull) (d + 1) * tw (- (Z.of_nat (d + 1) * Z.of_nat k))%Z)).
Proof. exact (correlogram_bins_thm n tw rp x y lag wfull NFFT nm be rxy ryx). Qed.

Theorem wiener_khinchin n tw {T : Twiddle n tw} rp twopi fs (x wfull : list F) be :
  (1 <= length x)%nat -> (2 * length x - 1 <= n)%nat -> ofnat (length x) <> 0 ->
  (forall d, (d < length x - 1)%nat -> nthF wfull (length x + d) = 1) ->
  correlogram tw rp x None (length x - 1) wfull (Some n) Biased be
  = Some (speriodogram tw twopi x (mk (length x) (fun _ => 1)) (Some n) false PyFalse PyFalse fs).
Proof. exact (wiener_khinchin_thm n tw rp twopi fs x wfull be). Qed.

Theorem wiener_khinchin_ord {OL : OrdLaws OF} n tw {T : Twiddle n tw} rp twopi fs (x wfull : list F) be :
  (1 <= length x)%nat -> (2 * length x - 1 <= n)%nat ->
  (forall d, (d < length x - 1)%nat -> nthF wfull (length x + d) = 1) ->
  correlogram tw rp x None (length x - 1) wfull (Some n) Biased be
  = Some (speriodogram tw twopi x (mk (length x) (fun _ => 1)) (Some n) false PyFalse PyFalse fs).
Proof. exact (wiener_khinchin_ord_thm n tw rp twopi fs x wfull be). Qed.

Theorem correlogram_buffer tw rp (x : list F) y lag wfull NFFT nm be rxy ryx :
  let n := resolve NFFT (length x) in
  (lag < length x)%nat -> (lag + 1 <= n)%nat ->
  corr_pos be rp x (match y with None => x | Some v => v end) lag nm = Some rxy ->
  (match y with None => Some rxy | Some v => corr_pos be rp v x lag nm end) = Some ryx ->
  correlogram tw rp x y lag wfull NFFT nm be
  = Some (map re (dft tw n (mk n (layout n lag (bt_a rxy (skipn (lag + 1) wfull)) (bt_b ryx (skipn (lag + 1) wfull)))))).
Proof. exact (correlogram_buffer_thm tw rp x y lag wfull NFFT nm be rxy ryx). Qed.

Theorem correlogram_auto_raises tw rp (x : list F) lag wfull NFFT nm be :
  let n := resolve NFFT (length x) in
  correlogram tw rp x None lag wfull NFFT nm be = None <->
  (length x <= lag \/ n = 0 \/ (n < lag + 1 /\ lag <> 1))%nat.
Proof. exact (correlogram_auto_raises_thm tw rp x lag wfull NFFT nm be). Qed.

Theorem periodogram_pipeline (tw : Z -> F) (twopi : F) (s : pstate) :
  p_call_gen current_pipe tw twopi s = p_call tw twopi s.
Proof. exact (current_pipeline_is_model_thm tw twopi s). Qed.
End C01.

(* ---------------- non-vacuity on concrete Gaussian-rational inputs (exact twiddles of order 2 and 4) ---------------- *)
Local Open Scope Z_scope.
Definition q1 : QcC := cz (1,0) (0,0).
Definition ex_x2 : list QcC := [cz (1,0) (0,0); cz (3,0) (0,0)]%Z.
Definition ex_x3 : list QcC := [cz (1,0) (2,0); cz (-3,0) (1,-1); cz (0,0) (-1,0)]%Z.
Definition ex_w3 : list QcC := [cz (1,-1) (0,0); cz (1,0) (0,0); cz (1,-2) (0,0)]%Z.
Definition ex_c2 : list QcC := [cz (1,0) (2,0); cz (-3,0) (1,-1)]%Z.
(* values: x = [1,3], rectangular, NFFT = 2: |1+3|^2/2 = 8 and |1-3|^2/2 = 2 (real data: NFFT/2+1 = 2 bins) *)
Example periodogram_values :
  qcc_close_list (dy 0 0) (@speriodogram _ qcc_ops tw2 q1 ex_x2 [q1; q1] (Some 2%nat) true PyFalse PyFalse q1)
                 [cz (8,0) (0,0); cz (2,0) (0,0)]%Z = true.
Proof. vm_compute. reflexivity. Qed.
(* Parseval on a windowed complex vector, N = 3 <= NFFT = 4: the hypotheses of the theorem hold and the identity is checked by evaluation too *)
Example parseval_instance :
  @sumf _ qcc_ops 4%nat (fun k => nthF (OF:=qcc_ops) (@speriodogram _ qcc_ops tw4 q1 ex_x3 ex_w3 (Some 4%nat) false PyNone PyFalse q1) k)
  = @mul _ qcc_ops (@ofnat _ qcc_ops 4%nat)
      (@div _ qcc_ops (@sumf _ qcc_ops (length ex_x3) (fun i => @nrm2 _ qcc_ops (@mul _ qcc_ops (nthF (OF:=qcc_ops) ex_x3 i) (nthF (OF:=qcc_ops) ex_w3 i))))
                      (@ofnat _ qcc_ops (length ex_x3))).
Proof. apply (@parseval_periodogram _ qcc_ops qcc_laws 4%nat tw4 tw4_twiddle); try reflexivity. cbn. lia. Qed.
(* Wiener-Khinchin: N = 2, lag 1, NFFT = 4 >= 2N-1, both back ends: by the theorem, and by evaluation *)
Example wiener_khinchin_instance (be : backend) :
  @correlogram _ qcc_ops tw4 q1 ex_c2 None 1%nat [q1; q1; q1] (Some 4%nat) Biased be
  = Some (@speriodogram _ qcc_ops tw4 q1 ex_c2 (@mk QcC 2%nat (fun _ => q1)) (Some 4%nat) false PyFalse PyFalse q1).
Proof.
  apply (@wiener_khinchin_ord _ qcc_ops qcc_laws qcc_ord 4%nat tw4 tw4_twiddle q1 q1 q1 ex_c2 [q1; q1; q1] be); cbn [length ex_c2]; try lia.
  intros d Hd. replace d with O by lia. reflexivity.
Qed.
Example wiener_khinchin_values :
  match @correlogram _ qcc_ops tw4 q1 ex_c2 None 1%nat [q1; q1; q1] (Some 4%nat) Biased BCorrelation with
  | Some l => qcc_close_list (dy 0 0) l (@speriodogram _ qcc_ops tw4 q1 ex_c2 [q1; q1] (Some 4%nat) false PyFalse PyFalse q1)
              && negb (qcc_close_list (dy 0 0) l [q1; q1; q1; q1])
  | None => false
  end = true.
Proof. vm_compute. reflexivity. Qed.
(* the class: odd NFFT = 3 from real data of length 3, PSD computed three times with a window change in between *)
Example class_values :
  let s := @p_read _ qcc_ops tw4 q1 (fold_left (@p_step _ qcc_ops tw4 q1) [OpCall; OpWindow 5%nat ex_w3; OpRead; OpCall]
                                    (@p_init _ ex_x3 false 0%nat [q1; q1; q1] q1 (NfInt 4%nat) PyNone PyFalse)) in
  (p_NFFT s =? 4)%nat &&
  match p_psd s with
  | Some l => qcc_close_list (dy 0 0) l (@speriodogram _ qcc_ops tw4 q1 ex_x3 ex_w3 (Some 4%nat) false PyNone PyFalse q1)
  | None => false end = true.
Proof. vm_compute. reflexivity. Qed.

Print Assumptions periodogram_def.
Print Assumptions periodogram_def_list.
Print Assumptions periodogram_length.
Print Assumptions periodogram_flags.
Print Assumptions parseval_periodogram.
Print Assumptions parseval_mean.
Print Assumptions periodogram_2d.
Print Assumptions periodogram_class.
Print Assumptions periodogram_class_def.
Print Assumptions correlogram_bins.
Print Assumptions wiener_khinchin.
Print Assumptions wiener_khinchin_ord.
Print Assumptions correlogram_buffer.
Print Assumptions correlogram_auto_raises.
Print Assumptions periodogram_pipeline.
