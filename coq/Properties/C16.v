(* C16 — preliminary *)
Require Import Spectrum.Theory.Ops Spectrum.Theory.Sum Spectrum.Theory.Vec Spectrum.Theory.Dft Spectrum.Model.Levinson Spectrum.Model.Burg
               Spectrum.Model.Minvar Spectrum.Proofs.LevinsonTheory Spectrum.Proofs.BurgTheory Spectrum.Proofs.MinvarTheory Spectrum.Proofs.MinvarMusicus.

Section C16.
Context {F : Type} {OF : Ops F} {L : Laws OF}.
Local Open Scope F_scope.

Theorem psi_hermitian m nfft (A : list F) P : (1 <= m)%nat -> (2 * m - 1 <= nfft)%nat -> conj P = P -> P <> 0 ->
  let psi := psi_loop m nfft A P in
  conj (nthF psi 0) = nthF psi 0 /\
  forall K, (1 <= K < nfft)%nat -> nthF psi (nfft - K) = conj (nthF psi K).
Proof. exact (psi_hermitian_thm m nfft A P). Qed.
End C16.
Print Assumptions psi_hermitian.
