(* C16 — Minimum-variance spectrum equals T / (e^H R^-1 e).   Statements only.

   PROVED (abstract field with conjugation + twiddle character of exact period NFFT; order clauses in the
   ordered *-field; every data vector, every order m, every NFFT >= 2m-1, every sampling):
     psi_hermitian          psi[NFFT-K] = conj psi[K] (1 <= K < NFFT) and psi[0] real, for the psi the loop stores
     psi_dft_real           hence every bin of fft(psi) is real: real() discards nothing
     minvar_returns_burg    returned A = 1 :: a and k with (a, rho, k) = arburg(x, m-1); a = step-up of k,
                            rho = mean power * prod(1-|k_i|^2), len k = m-1, len PSD = NFFT, 2 <= m <= NFFT
     musicus_closed_form    (1/P_p) [ n|A|^2 - conj(A')A - conj(A)A' ] = sum_{k<=p} |A_k(w)|^2 / P_k on |w|=1 for the
                            step-up polynomials of any reflection coefficients (Christoffel-Darboux type identity)
     toeplitz_ldl           Levinson invariant for orders k<M  =>  U R U^H = diag(P_0..P_{M-1}), U rows = reversed predictors
     quadform_predictors    ... => for EVERY y with R y = e:  e^H y = sum_k |(U e)_k|^2 / P_k   (= e^H R^-1 e)
     minvar_psd_musicus     PSD_f = sampling / sum_{k<m} |A_k(f)|^2/P_k, the sum is fft(psi)_f and is real
     minvar_capon           PSD_f = sampling / (e(f)^H y) for every y with R y = e(f), for any lag sequence r with
                            r0 = mean power whose LEVINSON run has the Burg reflection coefficients
     levinson_acf           the lags acf_of_refl(r0, k) (inverse Levinson) are such a sequence: LEVINSON on them returns
                            (step-up of k, r0 prod(1-|k|^2), k)
     minvar_capon_implied   the property: with R the m x m Hermitian Toeplitz matrix of acf_of_refl(mean power, k_Burg),
                            PSD_f = sampling / (e(f)^H R^-1 e(f))   [R^-1 e quantified as "every y with R y = e"]
     minvar_positive        every Burg error power P_k (k<m) is > 0, PSD_f > 0 and real when sampling > 0
   NOT PROVED: nothing of the statement for NFFT >= 2m-1.  Outside it: the aliased grids NFFT < 2m-1 (the pinned test
   uses NFFT=16, m=15) are modelled exactly (sequential stores) and tied by correspondence only; the binary64 rounding
   of the code is covered by the tolerance runs only.  pminvar's side conversion is not part of these theorems. *)
Require Import Spectrum.Theory.Ops Spectrum.Theory.Sum Spectrum.Theory.Vec Spectrum.Theory.Dft Spectrum.Theory.Order
               Spectrum.Model.Levinson Spectrum.Model.Burg Spectrum.Model.Minvar
               Spectrum.Proofs.LevinsonTheory Spectrum.Proofs.BurgTheory
               Spectrum.Proofs.MinvarTheory Spectrum.Proofs.MinvarMusicus Spectrum.Proofs.MinvarCapon
               Spectrum.Proofs.MinvarFinal Spectrum.Proofs.MinvarAcf
               Spectrum.Instances.QcC Spectrum.Instances.QcCTw Spectrum.Instances.QcCOrd.
From Coq Require Import QArith Qcanon.

Section C16.
Context {F : Type} {OF : Ops F} {L : Laws OF}.
Local Open Scope F_scope.

Theorem psi_hermitian m nfft (A : list F) P : (1 <= m)%nat -> (2 * m - 1 <= nfft)%nat -> conj P = P -> P <> 0 ->
  let psi := psi_loop m nfft A P in
  conj (nthF psi 0) = nthF psi 0 /\
  forall K, (1 <= K < nfft)%nat -> nthF psi (nfft - K) = conj (nthF psi K).
Proof. exact (psi_hermitian_thm m nfft A P). Qed.

Theorem psi_dft_real nfft (tw : Z -> F) {T : Twiddle nfft tw} m (A : list F) P :
  (1 <= m)%nat -> (2 * m - 1 <= nfft)%nat -> conj P = P -> P <> 0 ->
  forall f, (f < nfft)%nat ->
    conj (nthF (dft tw nfft (psi_loop m nfft A P)) f) = nthF (dft tw nfft (psi_loop m nfft A P)) f.
Proof. exact (psi_dft_real_thm nfft tw m A P). Qed.

Theorem minvar_returns_burg tw (x : list F) m s nfft psd A ks :
  minvar tw x m s nfft = Some (psd, A, ks) ->
  exists a rho, arburg x (m - 1) no_stop = Some (a, rho, ks) /\ A = 1 :: a
    /\ a = stepup_all ks /\ length ks = (m - 1)%nat /\ rho = mean_power x * prodk ks /\ le0 rho = false
    /\ length psd = nfft /\ (2 <= m <= nfft)%nat.
Proof. exact (minvar_returns_burg_thm tw x m s nfft psd A ks). Qed.

Theorem musicus_closed_form nfft (tw : Z -> F) {T : Twiddle nfft tw} (f : Z) (P0 : F) (ks : list F) :
  (0 < nfft)%nat -> P0 * prodk ks <> 0 ->
  Qv tw f (1 :: stepup_all ks) / (P0 * prodk ks)
  = sumf (S (length ks)) (fun k => nrm2 (ev tw f (1 :: stepup_all (firstn k ks))) / (P0 * prodk (firstn k ks))).
Proof. intros Hn. exact (musicus_closed_form_thm nfft tw Hn f P0 ks). Qed.

Theorem toeplitz_ldl (r : list F) M (a : nat -> nat -> F) (P : nat -> F) :
  isreal (nthF r O) -> (forall k, (k < M)%nat -> Inv r k (a k) (P k)) ->
  forall k l, (k < M)%nat -> (l < M)%nat ->
    sumf M (fun i => upred a k i * sumf M (fun j => rr r i j * conj (upred a l j))) = if (k =? l)%nat then P k else 0.
Proof. intros Hr HI. exact (toeplitz_ldl_thm r Hr M a P HI). Qed.

Theorem quadform_predictors (r : list F) M (a : nat -> nat -> F) (P : nat -> F) (e y : nat -> F) :
  isreal (nthF r O) -> (forall k, (k < M)%nat -> Inv r k (a k) (P k)) -> (forall k, (k < M)%nat -> P k <> 0) ->
  (forall i, (i < M)%nat -> sumf M (fun j => rr r i j * y j) = e i) ->
  sumf M (fun i => conj (e i) * y i) = sumf M (fun l => nrm2 (sumf M (fun i => upred a l i * e i)) / P l).
Proof. intros Hr HI. exact (quadform_predictors_thm r Hr M a P HI e y). Qed.

Theorem minvar_psd_musicus nfft (tw : Z -> F) {T : Twiddle nfft tw} (x : list F) m s psd A ks :
  ofnat (length x) <> 0 -> (2 * m - 1 <= nfft)%nat ->
  minvar tw x m s nfft = Some (psd, A, ks) ->
  forall f, (f < nfft)%nat ->
    nthF psd f = s / capon_sum tw (mean_power x) ks (Z.of_nat f)
    /\ nthF (dft tw nfft (psi_loop m nfft A (mean_power x * prodk ks))) f = capon_sum tw (mean_power x) ks (Z.of_nat f)
    /\ conj (capon_sum tw (mean_power x) ks (Z.of_nat f)) = capon_sum tw (mean_power x) ks (Z.of_nat f).
Proof. exact (minvar_psd_musicus_thm nfft tw x m s psd A ks). Qed.

Theorem minvar_capon nfft (tw : Z -> F) {T : Twiddle nfft tw} (x : list F) m s psd A ks (r : list F) a' P' :
  ofnat (length x) <> 0 -> (2 * m - 1 <= nfft)%nat ->
  minvar tw x m s nfft = Some (psd, A, ks) ->
  isreal (nthF r O) -> nthF r O = mean_power x ->
  levinson r (m - 1) false = Some (a', P', ks) ->
  forall f (y : nat -> F), (f < nfft)%nat ->
    (forall i, (i < m)%nat -> sumf m (fun j => rr r i j * y j) = tw (- (Z.of_nat i * Z.of_nat f))%Z) ->
    nthF psd f = s / sumf m (fun i => tw (Z.of_nat i * Z.of_nat f)%Z * y i).
Proof. exact (minvar_capon_thm nfft tw x m s psd A ks r a' P'). Qed.

Theorem levinson_acf (r0 : F) (ks : list F) : conj r0 = r0 ->
  (forall q, (1 <= q <= length ks)%nat -> le0 (r0 * prodk (firstn q ks)) = false) ->
  let r := acf_of_refl r0 ks in
  length r = S (length ks) /\ nthF r O = r0 /\
  exists P, levinson r (length ks) false = Some (stepup_all ks, P, ks) /\ P = r0 * prodk ks.
Proof. exact (levinson_acf_thm r0 ks). Qed.

Theorem minvar_capon_implied nfft (tw : Z -> F) {T : Twiddle nfft tw} (x : list F) m s psd A ks :
  ofnat (length x) <> 0 -> (2 * m - 1 <= nfft)%nat ->
  minvar tw x m s nfft = Some (psd, A, ks) ->
  let r := acf_of_refl (mean_power x) ks in
  length r = m /\ nthF r O = mean_power x /\
  (exists a' P', levinson r (m - 1) false = Some (a', P', ks)) /\
  forall f (y : nat -> F), (f < nfft)%nat ->
    (forall i, (i < m)%nat -> sumf m (fun j => rr r i j * y j) = tw (- (Z.of_nat i * Z.of_nat f))%Z) ->
    nthF psd f = s / sumf m (fun i => tw (Z.of_nat i * Z.of_nat f)%Z * y i).
Proof. exact (minvar_capon_implied_thm nfft tw x m s psd A ks). Qed.

Context {OL : OrdLaws OF}.
Theorem minvar_positive nfft (tw : Z -> F) {T : Twiddle nfft tw} (x : list F) m s psd A ks :
  (2 * m - 1 <= nfft)%nat -> pos s ->
  minvar tw x m s nfft = Some (psd, A, ks) ->
  (forall k, (k < m)%nat -> pos (mean_power x * prodk (firstn k ks)))
  /\ forall f, (f < nfft)%nat -> pos (nthF psd f) /\ conj (nthF psd f) = nthF psd f.
Proof. exact (minvar_positive_thm nfft tw x m s psd A ks). Qed.
End C16.

(* ---------------- non-vacuity on the executed instance (Gaussian rationals, exact twiddle of period 4) ---------------- *)
Local Open Scope Z_scope.
Local Existing Instance qcc_ops.
Definition ex_x : list QcC := [cz (1,0) (0,0); cz (1,1) (1,0); cz (-1,0) (1,-1); cz (3,-1) (0,0); cz (1,0) (-1,0); cz (-1,-1) (1,-2)].
Definition ex_s : QcC := cz (3,-1) (0,0).
Example minvar_example : exists psd A ks, @minvar _ qcc_ops tw4 ex_x 2 ex_s 4 = Some (psd, A, ks) /\ length psd = 4%nat.
Proof. vm_compute. do 3 eexists. split; reflexivity. Qed.

(* the hypotheses of minvar_capon_implied / minvar_positive hold for it (instances: qcc_laws, tw4_twiddle, qcc_ord) *)
Example minvar_example_positive psd A ks :
  @minvar _ qcc_ops tw4 ex_x 2 ex_s 4 = Some (psd, A, ks) ->
  forall f, (f < 4)%nat -> @pos _ qcc_ops qcc_ord (nthF psd f).
Proof.
  intros H f Hf.
  assert (Hs : @pos _ qcc_ops qcc_ord ex_s).
  { assert (E : ex_s = Ops.div (ofnat 3) (ofnat 2)) by (apply qcc_eq_canon; vm_compute; reflexivity).
    rewrite E. apply (@pos_div _ qcc_ops qcc_laws qcc_ord); apply (@pos_ofnat _ qcc_ops qcc_laws qcc_ord); lia. }
  exact (proj1 (proj2 (@minvar_positive _ qcc_ops qcc_laws qcc_ord 4%nat tw4 tw4_twiddle ex_x 2%nat ex_s psd A ks
                         ltac:(cbn; lia) Hs H) f Hf)).
Qed.

(* the statement means what it should: at bin 1 the model's PSD equals sampling/(e^H y) with y = R^-1 e from Cramer's rule
   on the 2x2 matrix of the implied lags *)
Definition qcc_eqb (a b : QcC) : bool := Qc_eq_bool (fst a) (fst b) && Qc_eq_bool (snd a) (snd b).
Example minvar_example_capon :
  match @minvar _ qcc_ops tw4 ex_x 2 ex_s 4 with
  | Some (psd, _, ks) =>
      let O := qcc_ops in
      let r := @acf_of_refl _ O (@mean_power _ O ex_x) ks in
      let r0 := nthF r 0 in let r1 := nthF r 1 in
      let e0 := tw4 0 in let e1 := tw4 (-1) in
      let det := sub (mul r0 r0) (mul r1 (conj r1)) in
      let y0 := div (sub (mul r0 e0) (mul (conj r1) e1)) det in
      let y1 := div (sub (mul r0 e1) (mul r1 e0)) det in
      qcc_eqb (nthF psd 1) (div ex_s (add (mul (tw4 0) y0) (mul (tw4 1) y1)))
  | None => false
  end = true.
Proof. vm_compute. reflexivity. Qed.

Print Assumptions psi_hermitian.
Print Assumptions psi_dft_real.
Print Assumptions minvar_returns_burg.
Print Assumptions musicus_closed_form.
Print Assumptions toeplitz_ldl.
Print Assumptions quadform_predictors.
Print Assumptions minvar_psd_musicus.
Print Assumptions minvar_capon.
Print Assumptions levinson_acf.
Print Assumptions minvar_capon_implied.
Print Assumptions minvar_positive.
