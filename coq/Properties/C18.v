(* C18 — Slepian tapers are orthonormal, ordered and maximally concentrated.   PARTIAL.
   Nothing but statements; each is closed by [exact] of a lemma proved elsewhere.

   The tapers come from ~1100 lines of EISPACK-style iterative floating-point C (bisection +
   inverse iteration); that such a solver converges is not an algebraic fact.  Decided by proof:
   the Python half of dpss() and a certificate checker for the C output.

   PROVED (abstract field / ordered *-field, every N, every k, every input):
     default_k_range, default_k_half_integer, default_k_near
                         k = min(round-half-even(2NW), N), at least 1; equals 2NW for half-integer NW
     dpss_shape          the returned pair is k columns of N samples and k numbers, entry by entry the families below
     dpss_normalisation  columns of squared norm N that are mutually orthogonal are orthonormal after
                         the division by a scalar sN with sN*sN = N (general form: Gram / N)
     dpss_sign_preserves the sign loop multiplies each column by +-1: Gram matrix (orthonormality),
                         quadratic forms and eigenvector equations are unchanged
     dpss_sign_even      after the loop an even-index column has sum >= 0 (> 0 unless it vanishes),
                         given tapsum = sum of the C column
     dpss_sign_odd       after the loop an odd-index column has first sample >= 0 (as coded)
     eig_is_rayleigh     the autocovariance formula acvs.r (r[0] = 2W, r[d] = 4W sinc(2Wd)) equals
                         v^T K v for the symmetric Toeplitz kernel K[i,j] = 2W sinc(2W|i-j|), any N
     eig_of_unit_eigvec  hence for a unit eigenvector of K it IS the eigenvalue; unchanged by the sign loop
     cert_sound          certificate checker = true  =>  |V^T V - I| <= eps_orth entrywise and, for EVERY
                         c in the enclosure [clo, chi] of cos(2 pi W), |T(c) v_j - theta_j v_j| <= eps_res
     cert_eigenvalue     ... and then, GIVEN a complete orthonormal eigenbasis of T(c) (spectral theorem:
                         hypothesis, cited mathematics), some eigenvalue mu of T(c) has
                         (mu - theta_j)^2 * (1 - eps_orth) <= N * eps_res^2
     cert_sound_transfer, cert_eigenvalue_transfer
                         the checker runs over Q; the same two statements over any ordered field B (e.g. R, where
                         cos(2 pi W) lives) reached by an order-preserving ring homomorphism phi : Q -> B
     slepian_commutes    T(c) K = K T(c) for every N, GIVEN that the library sequences are consistent:
                         g(d) = d*sinc(2Wd) satisfies g(d+2) + g(d) = 2 c g(d+1) (sine addition theorem; hypothesis)
     tridiag_eigvec_is_kernel_eigvec, tridiag_eigvec_concentration
                         hence (eigenvalues of T are simple) every eigenvector of T(c) is an eigenvector of the sinc
                         kernel K, and for a unit one the number dpss() returns is that eigenvalue = v^T K v
     slepian_centrosymmetric, slepian_eigvec_parity
                         T(c) commutes with index reversal; its eigenvalues are simple (non-zero
                         off-diagonals), hence every eigenvector is symmetric or antisymmetric
   NOT PROVED (search on the implementation only; see tools/props/C18.py):
     - everything about what the C solver returns: that its columns are orthogonal with squared norm N,
       that they are (near) eigenvectors of T, that tapsum is the column sum
     - the sine addition theorem for the pair (np.sinc, cos) : hypothesis of slepian_commutes (monitored numerically)
     - "approximate eigenvector of T => close to an exact one" (perturbation theory): cited
     - the spectral theorem for real symmetric matrices: cited (hypothesis of cert_eigenvalue)
     - v^T K v is the energy fraction inside |f| <= W (an integral over frequencies), 0 < lambda <= 1,
       ordering of the eigenvalues, "leading" eigenvectors, maximal concentration (Courant-Fischer)
     - even index <-> symmetric, odd index <-> antisymmetric (oscillation theory); first sample >= 0
       is what the code enforces, "starts with a positive lobe" is not implied by it
     - the FFT convolution in _autocov computes the lag sums (modelled as the lag sums) *)
Require Import Spectrum.Theory.Ops Spectrum.Theory.Sum Spectrum.Theory.Vec Spectrum.Theory.Order
               Spectrum.Model.Dpss Spectrum.Proofs.DpssTheory Spectrum.Proofs.DpssCertTheory Spectrum.Proofs.DpssTransfer Spectrum.Proofs.DpssCommute
               Spectrum.Instances.QcC Spectrum.Instances.QcOrd_C18.
From Coq Require Import QArith Qcanon.

Theorem default_k_range N a b :
  (1 <= default_k N a b)%nat /\ ((1 <= N)%nat -> (default_k N a b <= N)%nat).
Proof. exact (default_k_range_thm N a b). Qed.
Theorem default_k_half_integer N m : (1 <= m)%Z -> (1 <= N)%nat ->
  default_k N m 1 = Nat.min (Z.to_nat m) N.
Proof. exact (default_k_half_integer_thm N m). Qed.
Theorem default_k_near N a b : (0 < b)%Z -> (b <= a)%Z -> (a <= 2 * Z.of_nat N * b)%Z -> (1 <= N)%nat ->
  let k := Z.of_nat (default_k N a b) in
  (k = round_half_even a b \/ k = Z.of_nat N) /\ (2 * (k * b - a) <= b)%Z.
Proof. exact (default_k_near_thm N a b). Qed.

Section C18.
Context {F : Type} {OF : Ops F} {L : Laws OF}.
Local Open Scope F_scope.

Theorem dpss_shape (sN W : F) sncl N k raw tapsum :
  let '(cols, ev) := dpss_post sN W sncl N k raw tapsum in
  length cols = k /\ length ev = k /\
  forall j, (j < k)%nat -> length (nth j cols []) = N /\
     (forall i, (i < N)%nat -> nthF (nth j cols []) i = taper sN N raw tapsum j i) /\
     nthF ev j = eig N W (nthF sncl) (taper sN N raw tapsum j).
Proof. exact (dpss_post_shape_thm sN W sncl N k raw tapsum). Qed.

Theorem dpss_normalisation (sN : F) N k raw : sN * sN = ofnat N -> ofnat N <> 0 ->
  (forall j l, dot N (scaled sN N raw j) (scaled sN N raw l) = dot N (rawcol N raw j) (rawcol N raw l) / ofnat N)
  /\ ((forall j l, (j < k)%nat -> (l < k)%nat ->
         dot N (rawcol N raw j) (rawcol N raw l) = if (j =? l)%nat then ofnat N else 0) ->
      forall j l, (j < k)%nat -> (l < k)%nat -> dot N (scaled sN N raw j) (scaled sN N raw l) = delta j l).
Proof. exact (dpss_normalisation_both_thm sN N k raw). Qed.

Theorem dpss_sign_preserves (sN : F) N k raw tapsum :
  (forall j i, taper sN N raw tapsum j i = scaled sN N raw j i \/ taper sN N raw tapsum j i = - scaled sN N raw j i)
  /\ ((forall j l, (j < k)%nat -> (l < k)%nat -> dot N (scaled sN N raw j) (scaled sN N raw l) = delta j l) ->
      forall j l, (j < k)%nat -> (l < k)%nat -> dot N (taper sN N raw tapsum j) (taper sN N raw tapsum l) = delta j l)
  /\ (forall K j, quad N K (taper sN N raw tapsum j) = quad N K (scaled sN N raw j))
  /\ (forall K lam j, (forall i, (i < N)%nat -> matvec N K (scaled sN N raw j) i = lam * scaled sN N raw j i) ->
        forall i, (i < N)%nat -> matvec N K (taper sN N raw tapsum j) i = lam * taper sN N raw tapsum j i).
Proof. exact (dpss_sign_preserves_thm sN N k raw tapsum). Qed.

Theorem eig_is_rayleigh N (W : F) (snc : nat -> F) (t : nat -> F) : snc O = 1 ->
  eig N W snc t = quad N (kern W snc) t.
Proof. exact (eig_is_rayleigh_thm N W snc t). Qed.

Theorem eig_of_unit_eigvec (sN : F) N raw tapsum W snc lam j : snc O = 1 ->
  (forall i, (i < N)%nat -> matvec N (kern W snc) (scaled sN N raw j) i = lam * scaled sN N raw j i) ->
  dot N (scaled sN N raw j) (scaled sN N raw j) = 1 ->
  eig N W snc (taper sN N raw tapsum j) = lam.
Proof. exact (eig_of_unit_eigvec_flip_thm sN N raw tapsum W snc lam j). Qed.

Theorem slepian_centrosymmetric N (c : F) (v : nat -> F) i : (i < N)%nat ->
  tmul N c (fun m => v (N - 1 - m)%nat) i = tmul N c v (N - 1 - i)%nat.
Proof. exact (tmul_rev_thm N c v i). Qed.

Context {OL : OrdLaws OF}.

Theorem dpss_sign_even (sN : F) N raw tapsum j : pos sN -> conj (nthF tapsum j) = nthF tapsum j ->
  nthF tapsum j = sumf N (rawcol N raw j) -> Nat.even j = true ->
  nonneg (sumf N (taper sN N raw tapsum j))
  /\ (nthF tapsum j <> 0 -> pos (sumf N (taper sN N raw tapsum j))).
Proof. exact (sign_even_thm sN N raw tapsum j). Qed.

Theorem dpss_sign_odd (sN : F) N raw tapsum j : pos sN -> conj (rawcol N raw j 0) = rawcol N raw j 0 ->
  Nat.even j = false ->
  nonneg (taper sN N raw tapsum j 0)
  /\ (rawcol N raw j 0 <> 0 -> pos (taper sN N raw tapsum j 0)).
Proof. exact (sign_odd_thm sN N raw tapsum j). Qed.

Theorem slepian_eigvec_parity N (c theta : F) (v : nat -> F) : (1 <= N)%nat ->
  (forall i, (i < N)%nat -> tmul N c v i = theta * v i) ->
  (forall i, (i < N)%nat -> v (N - 1 - i)%nat = v i) \/ (forall i, (i < N)%nat -> v (N - 1 - i)%nat = - v i).
Proof. exact (slepian_eigvec_parity_thm N c theta v). Qed.

(* certificate checker: executed at the rationals, sound in every ordered field with trivial conjugation *)
Hypothesis real_field : forall a : F, conj a = a.

Theorem cert_sound N k (clo chi : F) Vl thetal eo er :
  cert_check N k clo chi Vl thetal eo er = true ->
  let V := fun j => nthF (nth j Vl []) in
  (forall j l, (j < k)%nat -> (l < k)%nat ->
      le (dot N (V j) (V l) - delta j l) eo /\ le (- (dot N (V j) (V l) - delta j l)) eo)
  /\ (forall c, le clo c -> le c chi -> forall j i, (j < k)%nat -> (i < N)%nat ->
      le (resid N c (V j) (nthF thetal j) i) er /\ le (- resid N c (V j) (nthF thetal j) i) er).
Proof. exact (cert_sound_thm real_field N k clo chi Vl thetal eo er). Qed.

(* small residual => theta is close to an eigenvalue, GIVEN the spectral decomposition (U, mu) of T(c):
   U m is a unit-norm family of eigenvectors with eigenvalues mu m, complete in the sense of Parseval *)
Theorem cert_eigenvalue N k (clo chi c : F) Vl thetal eo er (U : nat -> nat -> F) (mu : nat -> F) :
  cert_check N k clo chi Vl thetal eo er = true -> le clo c -> le c chi -> lt eo 1 ->
  (forall m i, (m < N)%nat -> (i < N)%nat -> tmul N c (U m) i = mu m * U m i) ->
  (forall x : nat -> F, dot N x x = sumf N (fun m => dot N (U m) x * dot N (U m) x)) ->
  forall j, (j < k)%nat -> exists m, (m < N)%nat /\
    le ((mu m - nthF thetal j) * (mu m - nthF thetal j) * (1 - eo)) (ofnat N * (er * er)).
Proof. exact (cert_eigenvalue_thm real_field N k clo chi c Vl thetal eo er U mu). Qed.
End C18.

(* The checker runs over Q; cos(2 pi W) is real.  Along any order-preserving ring homomorphism
   phi : A -> B of ordered fields with trivial conjugation (Q -> R is one) acceptance over A gives the
   bounds over B, for every c of B inside the image of the enclosure. *)
Section C18Transfer.
Context {A : Type} {OA : Ops A} {LA : Laws OA} {OLA : OrdLaws OA}.
Context {B : Type} {OB : Ops B} {LB : Laws OB} {OLB : OrdLaws OB}.
Local Open Scope F_scope.
Variable phi : A -> B.
Hypothesis realA : forall a : A, conj a = a.
Hypothesis realB : forall b : B, conj b = b.
Hypothesis phi_1 : phi 1 = 1.
Hypothesis phi_add : forall a b, phi (a + b) = phi a + phi b.
Hypothesis phi_mul : forall a b, phi (a * b) = phi a * phi b.
Hypothesis phi_nonneg : forall a, nonneg a -> nonneg (phi a).

Theorem cert_sound_transfer N k (clo chi : A) Vl thetal eo er :
  cert_check N k clo chi Vl thetal eo er = true ->
  let V := fun j m => phi (nthF (nth j Vl []) m) in
  let th := fun j => phi (nthF thetal j) in
  (forall j l, (j < k)%nat -> (l < k)%nat ->
      le (dot N (V j) (V l) - delta j l) (phi eo) /\ le (- (dot N (V j) (V l) - delta j l)) (phi eo))
  /\ (forall c : B, le (phi clo) c -> le c (phi chi) -> forall j i, (j < k)%nat -> (i < N)%nat ->
      le (resid N c (V j) (th j) i) (phi er) /\ le (- resid N c (V j) (th j) i) (phi er)).
Proof. exact (cert_transfer_thm phi realA phi_1 phi_add phi_mul phi_nonneg N k clo chi Vl thetal eo er). Qed.

Theorem cert_eigenvalue_transfer N k (clo chi : A) (c : B) Vl thetal eo er (U : nat -> nat -> B) (mu : nat -> B) :
  cert_check N k clo chi Vl thetal eo er = true -> le (phi clo) c -> le c (phi chi) -> lt eo 1 ->
  (forall m i, (m < N)%nat -> (i < N)%nat -> tmul N c (U m) i = mu m * U m i) ->
  (forall x : nat -> B, dot N x x = sumf N (fun m => dot N (U m) x * dot N (U m) x)) ->
  forall j, (j < k)%nat -> exists m, (m < N)%nat /\
    le ((mu m - phi (nthF thetal j)) * (mu m - phi (nthF thetal j)) * (1 - phi eo)) (ofnat N * (phi er * phi er)).
Proof. exact (cert_eigenvalue_transfer_thm phi realA realB phi_1 phi_add phi_mul phi_nonneg N k clo chi c Vl thetal eo er U mu). Qed.
End C18Transfer.

(* Slepian's commutation, for every N, from the consistency of the two library sequences:
   g(d) = d sinc(2Wd) obeys g(d+2) + g(d) = 2 cos(2 pi W) g(d+1)  (addition theorem of the sine; hypothesis) *)
Section C18Commute.
Context {F : Type} {OF : Ops F} {L : Laws OF} {OL : OrdLaws OF}.
Local Open Scope F_scope.
Variables (W c : F) (snc : nat -> F).
Hypothesis cheb : forall e : nat,
  ofnat (e + 2) * snc (e + 2)%nat + ofnat e * snc e = two * c * (ofnat (e + 1) * snc (e + 1)%nat).

Theorem slepian_commutes N (v : nat -> F) i : (i < N)%nat ->
  matvec N (kern W snc) (tmul N c v) i = tmul N c (matvec N (kern W snc) v) i.
Proof. exact (slepian_commutes_thm W c snc cheb N v i). Qed.

Theorem tridiag_eigvec_is_kernel_eigvec N (theta : F) (v : nat -> F) :
  (forall i, (i < N)%nat -> tmul N c v i = theta * v i) ->
  (exists i, (i < N)%nat /\ v i <> 0) ->
  exists lam, forall i, (i < N)%nat -> matvec N (kern W snc) v i = lam * v i.
Proof. exact (tridiag_eigvec_is_kernel_eigvec_thm W c snc cheb N theta v). Qed.

Theorem tridiag_eigvec_concentration N (theta : F) (v : nat -> F) : snc O = 1 ->
  (forall i, (i < N)%nat -> tmul N c v i = theta * v i) -> dot N v v = 1 ->
  exists lam, (forall i, (i < N)%nat -> matvec N (kern W snc) v i = lam * v i)
              /\ eig N W snc v = lam /\ quad N (kern W snc) v = lam * dot N v v.
Proof. exact (tridiag_eigvec_concentration_thm W c snc cheb N theta v). Qed.
End C18Commute.

(* non-vacuity on concrete rational inputs *)
Local Open Scope Z_scope.
Example default_k_examples :
  default_k 64 5 1 = 5%nat /\ default_k 64 23 5 = 5%nat /\ default_k 64 5 2 = 2%nat /\ default_k 64 7 2 = 4%nat
  /\ default_k 3 8 1 = 3%nat /\ default_k 64 1 4 = 1%nat.
Proof. vm_compute. repeat split. Qed.
(* N = 4, sN = 2: two orthogonal C columns of squared norm 4; the second (odd index) starts negative and is flipped *)
Definition ex_raw : list Qc := [Q2Qc 1; Q2Qc 1; Q2Qc 1; Q2Qc 1;  Q2Qc (-1); Q2Qc (-1); Q2Qc 1; Q2Qc 1].
Example normalisation_example :
  (forall j l, (j < 2)%nat -> (l < 2)%nat ->
     @dot _ qc_ops 4 (rawcol (OF:=qc_ops) 4 ex_raw j) (rawcol (OF:=qc_ops) 4 ex_raw l) = if (j =? l)%nat then Q2Qc 4 else Q2Qc 0)
  /\ (let '(cols, ev) := @dpss_post _ qc_ops (Q2Qc 2) (Q2Qc (1#4)) [Q2Qc 1; Q2Qc (1#2); Q2Qc 0; Q2Qc (-1#4)] 4 2 ex_raw [Q2Qc 4; Q2Qc 0]
      in (map (map this) cols, map this ev))
     = ([[1#2; 1#2; 1#2; 1#2]; [1#2; 1#2; -1#2; -1#2]], [13#16; 11#16])%Q.
Proof.
  split.
  - intros j l Hj Hl. destruct j as [|[|j]]; [| |lia]; (destruct l as [|[|l]]; [| |lia]); vm_compute; reflexivity.
  - vm_compute. reflexivity.
Qed.
(* the checker accepts the exact eigenvectors of T for N = 2 (c = 0: T = [[0, 1/2], [1/2, 0]]) scaled to
   rational unit vectors is impossible (1/sqrt 2); it accepts them within eps = 1/100 and rejects a wrong theta *)
Definition ex_V : list (list Qc) := [[Q2Qc (7071#10000); Q2Qc (7071#10000)]; [Q2Qc (7071#10000); Q2Qc (-7071#10000)]].
Example cert_example :
  @cert_check _ qc_ops 2 2 (Q2Qc 0) (Q2Qc 0) ex_V [Q2Qc (1#2); Q2Qc (-1#2)] (Q2Qc (1#100)) (Q2Qc (1#100)) = true
  /\ @cert_check _ qc_ops 2 2 (Q2Qc 0) (Q2Qc 0) ex_V [Q2Qc (1#2); Q2Qc (1#2)] (Q2Qc (1#100)) (Q2Qc (1#100)) = false.
Proof. vm_compute. split; reflexivity. Qed.

(* W = 1/4, c = cos(pi/2) = 0: g(d) = d*sinc(d/2) is 0, s, 0, -s, ... (s = 2/pi; any s works algebraically).
   T K v = K T v on a concrete vector, and the recurrence holds for the entries used *)
Definition ex_snc : list Qc := [Q2Qc 1; Q2Qc (5#8); Q2Qc 0; Q2Qc (-5#24)].
Example commute_example :
  let K := @kern _ qc_ops (Q2Qc (1#4)) (nthF (OF:=qc_ops) ex_snc) in
  let v := nthF (OF:=qc_ops) [Q2Qc 1; Q2Qc (-2); Q2Qc 3; Q2Qc 5] in
  map (fun i => this (@matvec _ qc_ops 4 K (@tmul _ qc_ops 4 (Q2Qc 0) v) i)) (seq 0 4)
  = map (fun i => this (@tmul _ qc_ops 4 (Q2Qc 0) (@matvec _ qc_ops 4 K v) i)) (seq 0 4).
Proof. vm_compute. reflexivity. Qed.

Print Assumptions default_k_range.
Print Assumptions default_k_half_integer.
Print Assumptions default_k_near.
Print Assumptions dpss_shape.
Print Assumptions dpss_normalisation.
Print Assumptions dpss_sign_preserves.
Print Assumptions eig_is_rayleigh.
Print Assumptions eig_of_unit_eigvec.
Print Assumptions slepian_centrosymmetric.
Print Assumptions dpss_sign_even.
Print Assumptions dpss_sign_odd.
Print Assumptions slepian_eigvec_parity.
Print Assumptions cert_sound.
Print Assumptions cert_eigenvalue.
Print Assumptions cert_sound_transfer.
Print Assumptions cert_eigenvalue_transfer.
Print Assumptions slepian_commutes.
Print Assumptions tridiag_eigvec_is_kernel_eigvec.
Print Assumptions tridiag_eigvec_concentration.
