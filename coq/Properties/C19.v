Require Import Spectrum.Theory.Ops Spectrum.Model.Mtm.
Theorem c19_placeholder : True. Proof. exact I. Qed.
Print Assumptions c19_placeholder.
