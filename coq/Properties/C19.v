(* C19 — Multitaper estimates are weighted means of tapered periodograms.
   Statements only (model: Model/Mtm.v, proofs: Proofs/MtmTheory.v, Proofs/MtmOrder.v).

   PROVED (abstract *-field; every data length, NFFT, number of tapers, pass bound):
     pmtm_eigenspectra          returned eigenvalues are the input eigenvalues; one row of length NFFT per taper;
                                bin k of taper j = dftN tw N (taper_j .* x) k when N <= NFFT (and the cropped form for any NFFT)
     weights_unity              'unity': nwin rows [1], the weight of every taper at every bin is 1
     weights_eigen              'eigen': row j is [eigenvalue_j / (j+1)]
     adaptive_is_thomson_at_last_S   the weights returned by 'adapt' are those of the state after n <= fuel passes, the stopping
                                test held before each of them and fails at the end when n < fuel; n = 0: the eigenvalues;
                                n >= 1: w[k][j] = b^2 lambda_j, b = S/(S lambda_j + sigma^2 (1-lambda_j)) at S = the estimate that ENTERED
                                the last completed pass, and the final estimate is sum_j w S_j / sum_j w with exactly these weights
     class_is_weighted_mean     psd[b] = mean_j weight(j,b) |Sk_j[b]|^2, times 2 for real data, times the scale factor when
                                scale_by_freq; length NFFT (complex) or min(keep, NFFT) (real)
     class_fold_bins            keep = NFFT/2+1 for even NFFT (bins 0..Nyquist), (NFFT-1)/2+1 for odd NFFT
     precomputed_tapers_same, precomputed_tapers_same_class   supplying (e, v) = what the generator returns gives the same result
     pmtm_raises_iff            ValueError exactly when only one of e, v is given, or none of e, v, NW
   PROVED in the ordered *-field (Theory/Order.v; the Gaussian rationals are an instance):
     thomson_weight_bounds      S >= 0, sigma^2 > 0, 0 < lambda <= 1, denominator <> 0  ==>  0 <= b^2 lambda <= 1/lambda, real
     adaptive_step_bounds       the weights returned by 'adapt' are real and in [0, 1/lambda_j] for EVERY pass bound (fuel)
     adaptive_invariant         after every number n of passes: estimate > 0 at every bin, weights real in [0,1/lambda_j],
                                and (n >= 1) the estimate is a convex combination of the eigenspectra at that bin
     adaptive_stop_meets_tol    a failed stopping test means mean_k |S - S_prev| <= 0.0005 sigma^2 / NFFT
     class_real_nonneg          non-negative weights ==> every psd entry is non-negative (hence real), real and complex data
     class_nonneg_methods       the same with per-method hypotheses (unity: none; eigen: eigenvalues >= 0; adapt: as above)
   Hypotheses of the adaptive theorems are the guards of the code's divisions: sigma^2 > 0, 0 < lambda_j <= 1 and the initial
   estimate (mean of the first two eigenspectra, or the only one) non-zero at every bin (else the code computes 0/0 there).
   NOT PROVED: convergence of the adaptive iteration (that the tolerance is met before 100 passes, or that the estimate
   approaches a fixed point) is not an algebraic fact; "the spectrum the iteration converged to" is represented by the estimate of
   the last completed pass and the stopping inequality above.  Rounding error of the binary64 code. *)
Require Import Spectrum.Theory.Ops Spectrum.Theory.Sum Spectrum.Theory.Vec Spectrum.Theory.Order Spectrum.Theory.Dft
               Spectrum.Model.Mtm Spectrum.Proofs.MtmTheory Spectrum.Proofs.MtmOrder Spectrum.Proofs.MtmExample
               Spectrum.Instances.QcC Spectrum.Instances.QcCOrd Spectrum.Instances.QcCTw.
From Coq Require Import QArith Qcanon.

Section C19.
Context {F : Type} {OF : Ops F} {L : Laws OF}.
Local Open Scope F_scope.

Theorem pmtm_eigenspectra fuel tw tapers (ev x : list F) nfft m Skc w ev' :
  pmtm_core fuel tw tapers ev x nfft m = (Skc, w, ev') ->
  ev' = ev /\ length Skc = length tapers /\
  forall j, (j < length tapers)%nat ->
    length (row j Skc) = nfft /\
    forall k, (k < nfft)%nat ->
      at2 Skc j k = dftN tw nfft (nthF (tapered (row j tapers) x)) (Z.of_nat k) /\
      ((length x <= nfft)%nat ->
       at2 Skc j k = dftN tw (length x) (fun i => nthF (row j tapers) i * nthF x i) (Z.of_nat k)).
Proof. exact (pmtm_eigenspectra_thm fuel tw tapers ev x nfft m Skc w ev'). Qed.

Theorem weights_unity fuel tw tapers (ev x : list F) nfft Skc w ev' :
  pmtm_core fuel tw tapers ev x nfft Unity = (Skc, w, ev') ->
  length w = length ev /\ forall j, (j < length ev)%nat -> row j w = [1] /\ forall k, wt Unity w j k = 1.
Proof. exact (weights_unity_thm fuel tw tapers ev x nfft Skc w ev'). Qed.

Theorem weights_eigen fuel tw tapers (ev x : list F) nfft Skc w ev' :
  pmtm_core fuel tw tapers ev x nfft Eigen = (Skc, w, ev') ->
  length w = length ev /\
  forall j, (j < length ev)%nat -> row j w = [nthF ev j / ofnat (j + 1)] /\ forall k, wt Eigen w j k = nthF ev j / ofnat (j + 1).
Proof. exact (weights_eigen_thm fuel tw tapers ev x nfft Skc w ev'). Qed.

Theorem adaptive_is_thomson_at_last_S fuel tw tapers (ev x : list F) nfft Skc w ev' :
  pmtm_core fuel tw tapers ev x nfft Adapt = (Skc, w, ev') ->
  let Sk := powspec Skc in
  let s2 := sig2 x in
  exists n, (n <= fuel)%nat /\
    let st := ad_iter n Sk ev s2 nfft in
    w = ad_wk st /\ ad_i st = n /\
    (forall q, (q < n)%nat -> ad_continue nfft (ad_tol s2 nfft) (ad_iter q Sk ev s2 nfft) = true) /\
    ((n < fuel)%nat -> ad_continue nfft (ad_tol s2 nfft) st = false) /\
    (n = O -> forall k j, (k < nfft)%nat -> (j < length ev)%nat -> at2 w k j = nthF ev j) /\
    ((1 <= n)%nat ->
       ad_S1 st = ad_S (ad_iter (n - 1) Sk ev s2 nfft) /\
       forall k, (k < nfft)%nat ->
         (forall j, (j < length ev)%nat -> at2 w k j = thomson (nthF ev j) s2 (nthF (ad_S1 st) k)) /\
         nthF (ad_S st) k = sumf (length ev) (fun j => at2 w k j * at2 Sk j k) / sumf (length ev) (fun j => at2 w k j)).
Proof. exact (adaptive_is_thomson_at_last_S_thm fuel tw tapers ev x nfft Skc w ev'). Qed.

Theorem class_is_weighted_mean {NWT : Type} (dpss : nat -> NWT -> option nat -> list (list F) * list F)
  fuel tw isr (x : list F) NW k nfft e v m sbf scale psd :
  mt_call dpss fuel tw isr x NW k nfft e v m sbf scale = Some psd ->
  let n := match nfft with Some n => n | None => length x end in
  exists Skc w ev,
    pmtm dpss fuel tw x NW k (Some n) e v m = Some (Skc, w, ev) /\
    length psd = (if isr then Nat.min (mt_keep n) n else n) /\
    forall b, (b < length psd)%nat ->
      nthF psd b = (fun a => if sbf then a * scale else a)
                     ((fun a => if isr then a * two else a) (wmean m Skc w (length ev) b)).
Proof. exact (class_is_weighted_mean_thm dpss fuel tw isr x NW k nfft e v m sbf scale psd). Qed.

Theorem class_fold_bins nfft : (1 <= nfft)%nat ->
  (Nat.even nfft = true -> (mt_keep nfft = nfft / 2 + 1 /\ 2 * (nfft / 2) = nfft /\ mt_keep nfft <= nfft)%nat) /\
  (Nat.even nfft = false -> (mt_keep nfft = (nfft - 1) / 2 + 1 /\ 2 * ((nfft - 1) / 2) + 1 = nfft /\ mt_keep nfft <= nfft)%nat).
Proof. exact (mt_keep_spec nfft). Qed.

Theorem precomputed_tapers_same {NWT NWT' : Type} (dpss : nat -> NWT -> option nat -> list (list F) * list F)
  (dpss' : nat -> NWT' -> option nat -> list (list F) * list F) fuel tw (x : list F) nw k NW' k' nfft m :
  let tv := dpss (length x) nw k in
  pmtm dpss' fuel tw x NW' k' nfft (Some (snd tv)) (Some (fst tv)) m = pmtm dpss fuel tw x (Some nw) k nfft None None m.
Proof. exact (precomputed_tapers_same_thm dpss dpss' fuel tw x nw k NW' k' nfft m). Qed.

Theorem precomputed_tapers_same_class {NWT NWT' : Type} (dpss : nat -> NWT -> option nat -> list (list F) * list F)
  (dpss' : nat -> NWT' -> option nat -> list (list F) * list F) fuel tw isr (x : list F) nw k NW' k' nfft m sbf scale :
  let tv := dpss (length x) nw k in
  mt_call dpss' fuel tw isr x NW' k' nfft (Some (snd tv)) (Some (fst tv)) m sbf scale
  = mt_call dpss fuel tw isr x (Some nw) k nfft None None m sbf scale.
Proof. exact (precomputed_tapers_same_class_thm dpss dpss' fuel tw isr x nw k NW' k' nfft m sbf scale). Qed.

Theorem pmtm_raises_iff {NWT : Type} (dpss : nat -> NWT -> option nat -> list (list F) * list F) fuel tw (x : list F) NW k nfft e v m :
  pmtm dpss fuel tw x NW k nfft e v m = None <->
  ((e = None /\ v = None /\ NW = None) \/ (e = None /\ v <> None) \/ (e <> None /\ v = None)).
Proof. exact (MtmTheory.pmtm_raises_iff dpss fuel tw x NW k nfft e v m). Qed.

Context {OL : OrdLaws OF}.

Theorem thomson_weight_bounds (lam s2 S : F) :
  nonneg S -> pos s2 -> pos lam -> le lam 1 -> S * lam + s2 * (1 - lam) <> 0 ->
  nonneg (thomson lam s2 S) /\ le (thomson lam s2 S) (1 / lam) /\ isreal (thomson lam s2 S).
Proof. exact (thomson_weight_bounds_thm lam s2 S). Qed.

Theorem adaptive_step_bounds fuel tw tapers (ev x : list F) nfft Skc w ev' :
  pmtm_core fuel tw tapers ev x nfft Adapt = (Skc, w, ev') ->
  length tapers = length ev -> (1 <= length ev)%nat ->
  pos (sig2 x) ->
  (forall j, (j < length ev)%nat -> pos (nthF ev j) /\ le (nthF ev j) 1) ->
  (forall k, (k < nfft)%nat -> nthF (ad_S0 (powspec Skc) (length ev) nfft) k <> 0) ->
  forall k j, (k < nfft)%nat -> (j < length ev)%nat ->
    nonneg (at2 w k j) /\ le (at2 w k j) (1 / nthF ev j) /\ isreal (at2 w k j).
Proof. exact (adaptive_step_bounds_thm fuel tw tapers ev x nfft Skc w ev'). Qed.

Theorem adaptive_invariant (Sk : list (list F)) (ev : list F) (s2 : F) nfft :
  (1 <= length ev)%nat -> pos s2 ->
  (forall j, (j < length ev)%nat -> pos (nthF ev j) /\ le (nthF ev j) 1) ->
  (forall j k, (j < length ev)%nat -> (k < nfft)%nat -> nonneg (at2 Sk j k)) ->
  (forall k, (k < nfft)%nat -> nthF (ad_S0 Sk (length ev) nfft) k <> 0) ->
  forall n k, (k < nfft)%nat ->
    let st := ad_iter n Sk ev s2 nfft in
    pos (nthF (ad_S st) k) /\
    (forall j, (j < length ev)%nat -> nonneg (at2 (ad_wk st) k j) /\ le (at2 (ad_wk st) k j) (1 / nthF ev j) /\ isreal (at2 (ad_wk st) k j)) /\
    ((1 <= n)%nat -> exists c : nat -> F, (forall j, (j < length ev)%nat -> nonneg (c j)) /\ sumf (length ev) c = 1 /\
                        nthF (ad_S st) k = sumf (length ev) (fun j => c j * at2 Sk j k)).
Proof. exact (adaptive_invariant_thm Sk ev s2 nfft). Qed.

Theorem adaptive_stop_meets_tol (Sk : list (list F)) (ev : list F) (s2 : F) nfft n :
  (1 <= length ev)%nat -> pos s2 ->
  (forall j, (j < length ev)%nat -> pos (nthF ev j) /\ le (nthF ev j) 1) ->
  (forall j k, (j < length ev)%nat -> (k < nfft)%nat -> nonneg (at2 Sk j k)) ->
  (forall k, (k < nfft)%nat -> nthF (ad_S0 Sk (length ev) nfft) k <> 0) ->
  (1 <= nfft)%nat ->
  ad_continue nfft (ad_tol s2 nfft) (ad_iter n Sk ev s2 nfft) = false ->
  le (ad_err nfft (ad_iter n Sk ev s2 nfft)) (ad_tol s2 nfft).
Proof. exact (adaptive_stop_meets_tol_thm Sk ev s2 nfft n). Qed.

Theorem class_real_nonneg {NWT : Type} (dpss : nat -> NWT -> option nat -> list (list F) * list F)
  fuel tw isr (x : list F) NW k nfft e v m sbf scale psd Skc w ev :
  let n := match nfft with Some n => n | None => length x end in
  mt_call dpss fuel tw isr x NW k nfft e v m sbf scale = Some psd ->
  pmtm dpss fuel tw x NW k (Some n) e v m = Some (Skc, w, ev) ->
  (1 <= length ev)%nat ->
  (forall j b, (j < length ev)%nat -> (b < n)%nat -> nonneg (wt m w j b)) ->
  (sbf = true -> nonneg scale) ->
  forall b, (b < length psd)%nat -> nonneg (nthF psd b) /\ isreal (nthF psd b).
Proof. exact (class_real_nonneg_thm dpss fuel tw isr x NW k nfft e v m sbf scale psd Skc w ev). Qed.

Theorem class_nonneg_methods {NWT : Type} (dpss : nat -> NWT -> option nat -> list (list F) * list F)
  fuel tw isr (x : list F) NW k nfft e v m sbf scale psd tv :
  let n := match nfft with Some n => n | None => length x end in
  mt_call dpss fuel tw isr x NW k nfft e v m sbf scale = Some psd ->
  pmtm_inputs dpss (length x) NW k e v = Some tv ->
  length (fst tv) = length (snd tv) -> (1 <= length (snd tv))%nat ->
  method_hyp tw (fst tv) (snd tv) x n m ->
  (sbf = true -> nonneg scale) ->
  forall b, (b < length psd)%nat -> nonneg (nthF psd b) /\ isreal (nthF psd b).
Proof. exact (class_nonneg_methods_thm dpss fuel tw isr x NW k nfft e v m sbf scale psd tv). Qed.
End C19.

(* ---- non-vacuity on a concrete exact input (Proofs/MtmExample.v): complex data of length 4, two tapers, NFFT = 4
   (twiddle tw4): the run makes its passes, meets the hypotheses of the adaptive theorems, hence its weights are in range *)
Example adapt_example_runs : @ad_i _ (@adapt_run _ qcc_ops 2 (fst (fst ex_run)) ex_ev ex_x 4) = 2%nat.
Proof. vm_compute. reflexivity. Qed.
Example adapt_example_hypotheses :
  @pos _ qcc_ops qcc_ord (@sig2 _ qcc_ops ex_x) /\
  (forall j, (j < length ex_ev)%nat -> @pos _ qcc_ops qcc_ord (nthF (OF:=qcc_ops) ex_ev j) /\ @le _ qcc_ops qcc_ord (nthF (OF:=qcc_ops) ex_ev j) (@one _ qcc_ops)) /\
  (forall k, (k < 4)%nat -> nthF (OF:=qcc_ops) (@ad_S0 _ qcc_ops (@powspec _ qcc_ops (fst (fst ex_run))) (length ex_ev) 4) k <> @zero _ qcc_ops).
Proof. exact adapt_example_hypotheses_thm. Qed.
Example adapt_example_in_range :
  forall k j, (k < 4)%nat -> (j < 2)%nat ->
    @nonneg _ qcc_ops qcc_ord (at2 (OF:=qcc_ops) (snd (fst ex_run)) k j) /\
    @le _ qcc_ops qcc_ord (at2 (OF:=qcc_ops) (snd (fst ex_run)) k j) (@div _ qcc_ops (@one _ qcc_ops) (nthF (OF:=qcc_ops) ex_ev j)).
Proof.
  intros k j Hk Hj. destruct adapt_example_hypotheses as [H1 [H2 H3]].
  destruct (@adaptive_step_bounds _ qcc_ops qcc_laws qcc_ord 2 tw4 ex_tapers ex_ev ex_x 4 (fst (fst ex_run)) (snd (fst ex_run)) (snd ex_run)
              ltac:(reflexivity) ltac:(reflexivity) ltac:(cbn; lia) H1 H2 H3 k j Hk Hj) as [A [B _]].
  split; assumption.
Qed.
Example class_example : exists psd, @mt_call _ qcc_ops unit (fun _ _ _ => (ex_tapers, ex_ev)) 2 tw4 false ex_x (Some tt) None (Some 4%nat) None None Adapt false (@one _ qcc_ops) = Some psd /\ length psd = 4%nat.
Proof. vm_compute. eexists. split; reflexivity. Qed.

Print Assumptions pmtm_eigenspectra.
Print Assumptions weights_unity.
Print Assumptions weights_eigen.
Print Assumptions adaptive_is_thomson_at_last_S.
Print Assumptions class_is_weighted_mean.
Print Assumptions class_fold_bins.
Print Assumptions precomputed_tapers_same.
Print Assumptions precomputed_tapers_same_class.
Print Assumptions pmtm_raises_iff.
Print Assumptions thomson_weight_bounds.
Print Assumptions adaptive_step_bounds.
Print Assumptions adaptive_invariant.
Print Assumptions adaptive_stop_meets_tol.
Print Assumptions class_real_nonneg.
Print Assumptions class_nonneg_methods.
