(* C13 — Burg models are stable, nested and minimise forward+backward error.
   Statements only.

   PROVED (abstract *-field, every data length, every order):
     arburg_shape        the AR vector is the step-up polynomial of the reflection coefficients,
                         rho = mean|x|^2 * prod(1-|k_i|^2), exactly p coefficients, rho not "<= 0"
     arburg_nested       order-q reflection coefficients = first q of the order-p ones
     arburg_criteria     with ANY order-selection rule the result is the plain Burg state of some order q <= p
     burg_den_invariant  the recursively updated denominator equals the summed forward+backward
                         error energy entering the stage (non-degenerate stages)
     burg_k_optimal      E_m(q) - E_m(k_m) = den_m * |q - k_m|^2 for every q: k_m minimises the stage energy
   PROVED (abstract ORDERED *-field, Theory/Order.v; Gaussian rationals and C are models):
     burg_k_le_1         |k_m|^2 <= 1 at every non-degenerate stage (Cauchy-Schwarz)
     burg_rho_monotone   rho >= 0 and rho_{m+1} <= rho_m
     burg_rho_nonneg     rho_m >= 0 at every order
     arburg_stable       STABILITY: every root z (in the field) of z^p + a_1 z^(p-1) + .. + a_p, a the returned AR
                         vector, has |z|^2 < 1.  No algebraic closure needed: a = stepup(ks) and every stage variance
                         rho_m passed the code's "rho <= 0" test, so the inverse-Levinson lags of (rho_0, ks) are a
                         Hermitian sequence whose Levinson stage errors are the rho_m > 0; by the LDL^H converse
                         (Proofs/LevinsonPDConverse.v: positive stage errors => positive definite) and C12's
                         pd_root_inside the roots lie in the open disc
     arburg_stable_criteria  the same with ANY order-selection rule (degree = number of returned coefficients)
     arburg_k_lt_1       a returned model (>= 1 coefficient) has every stage variance rho_m > 0, rho > 0 and
                         |k_j|^2 < 1 STRICTLY (the property asks for <= 1)
     stepup_stable       any reflection coefficients with |k_j|^2 < 1: the step-up (rc2poly) polynomial is stable
     arburg_stable_ext   data in F, roots in ANY ordered *-field K that F maps into by an order-preserving
                         conj-compatible ring homomorphism; axiom-free
     arburg_stable_complex  data in the Gaussian rationals (the instance the correspondence check executes), any stop
                         rule: EVERY complex root has Cmod z < 1 (K = Coquelicot's C; uses the standard-library axioms
                         of the real numbers, printed below — the only theorems of this file that do)
     arburg_stable_C     data in C itself: every complex root has Cmod z < 1 (same axioms)
   The stability theorems carry the property's guard "non-degenerate prediction error" (burg_nondegenerate: no stage
   denominator is zero) because at a degenerate stage the model's k is the totalised 0/0 = 0 while the code produces
   nan; their proofs (Proofs/BurgStable.v, *_thm) do not use it.
   NOT PROVED: nothing of the statement's clauses in exact arithmetic; rounding of the binary64 code is outside the
   theorems (correspondence with 1e-9*kappa tolerances + search, incl. numpy.roots of the returned polynomial). *)
Require Import Spectrum.Theory.Ops Spectrum.Theory.Sum Spectrum.Theory.Vec Spectrum.Model.Levinson Spectrum.Model.Burg
               Spectrum.Proofs.LevinsonTheory Spectrum.Proofs.BurgStage Spectrum.Proofs.BurgTheory Spectrum.Proofs.BurgDen
               Spectrum.Theory.Order Spectrum.Proofs.BurgOrder Spectrum.Proofs.YulePD Spectrum.Proofs.YuleExt
               Spectrum.Proofs.BurgStable Spectrum.Proofs.BurgStableExt
               Spectrum.Instances.QcC Spectrum.Instances.QcCOrd.
From Coq Require Import QArith Qcanon.

Section C13.
Context {F : Type} {OF : Ops F} {L : Laws OF}.
Local Open Scope F_scope.

Theorem arburg_shape (x : list F) p a rho ref :
  arburg x p no_stop = Some (a, rho, ref) ->
  length ref = p /\ a = stepup_all ref /\ rho = mean_power x * prodk ref /\ le0 rho = false.
Proof. exact (arburg_shape_thm x p a rho ref). Qed.

Theorem arburg_nested (x : list F) p q a rho ref : (1 <= q <= p)%nat ->
  arburg x p no_stop = Some (a, rho, ref) ->
  exists a' rho', arburg x q no_stop = Some (a', rho', firstn q ref).
Proof. exact (arburg_nested_thm x p q a rho ref). Qed.

Theorem arburg_criteria (x : list F) p stop res :
  arburg x p stop = Some res ->
  exists q st, (q <= p)%nat /\ burg_iter no_stop x q = BCont st /\ res = burg_result st.
Proof. exact (arburg_criteria_thm x p stop res). Qed.

Theorem burg_den_invariant (x : list F) m st :
  ofnat (length x) <> 0 -> (m < length x)%nat -> burg_nondegenerate x m ->
  burg_iter no_stop x m = BCont st ->
  burg_den (length x) st m
  = sumf (length x - m - 1) (fun j => nrm2 (nthF (b_ef st) (j + m + 1)) + nrm2 (nthF (b_eb st) (j + m))).
Proof. exact (burg_den_invariant_thm x m st). Qed.

Theorem burg_k_optimal (x : list F) m st q :
  ofnat (length x) <> 0 -> (m < length x)%nat -> burg_nondegenerate x (S m) ->
  burg_iter no_stop x m = BCont st ->
  let n := (length x - m - 1)%nat in
  let f := fun j => nthF (b_ef st) (j + m + 1) in
  let b := fun j => nthF (b_eb st) (j + m) in
  let E := fun k => sumf n (fun j => nrm2 (f j + k * b j) + nrm2 (b j + conj k * f j)) in
  E q - E (burg_kp (length x) st m) = burg_den (length x) st m * nrm2 (q - burg_kp (length x) st m).
Proof. exact (burg_k_optimal_thm x m st q). Qed.
End C13.

Section C13_order.
Context {F : Type} {OF : Ops F} {L : Laws OF} {OL : OrdLaws OF}.
Local Open Scope F_scope.

Theorem burg_k_le_1 (x : list F) m st :
  (m < length x)%nat -> burg_nondegenerate x (S m) -> burg_iter no_stop x m = BCont st ->
  le (nrm2 (burg_kp (length x) st m)) 1.
Proof. exact (burg_k_le_1_thm x m st). Qed.

Theorem burg_rho_monotone (x : list F) m st st' :
  (S m < length x)%nat -> burg_nondegenerate x (S m) ->
  burg_iter no_stop x m = BCont st -> burg_iter no_stop x (S m) = BCont st' ->
  nonneg (b_rho st) -> nonneg (b_rho st') /\ le (b_rho st') (b_rho st).
Proof. exact (burg_rho_monotone_thm x m st st'). Qed.

Theorem burg_rho_nonneg (x : list F) m st :
  (m < length x)%nat -> burg_nondegenerate x m -> burg_iter no_stop x m = BCont st -> nonneg (b_rho st).
Proof. exact (burg_rho_nonneg_thm x m st). Qed.

Theorem arburg_stable (x : list F) p a rho ref (z : F) :
  burg_nondegenerate x p ->
  arburg x p no_stop = Some (a, rho, ref) ->
  sumf (S p) (fun j => afun a j * fpow z (p - j)) = 0 -> lt (nrm2 z) 1.
Proof. intros _. exact (arburg_stable_thm x p a rho ref z). Qed.

Theorem arburg_stable_criteria (x : list F) p stop a rho ref (z : F) :
  burg_nondegenerate x p ->
  arburg x p stop = Some (a, rho, ref) ->
  sumf (S (length ref)) (fun j => afun a j * fpow z (length ref - j)) = 0 -> lt (nrm2 z) 1.
Proof. intros _. exact (arburg_stable_criteria_thm x p stop a rho ref z). Qed.

Theorem arburg_k_lt_1 (x : list F) p stop a rho ref :
  burg_nondegenerate x p ->
  arburg x p stop = Some (a, rho, ref) -> (1 <= length ref)%nat ->
  (forall q, (q <= length ref)%nat -> pos (mean_power x * prodk (firstn q ref)))
  /\ pos rho
  /\ forall j, (j < length ref)%nat -> lt (nrm2 (nthF ref j)) 1.
Proof. intros _. exact (arburg_k_lt_1_thm x p stop a rho ref). Qed.

Theorem stepup_stable (ks : list F) (z : F) :
  (forall j, (j < length ks)%nat -> lt (nrm2 (nthF ks j)) 1) ->
  sumf (S (length ks)) (fun j => afun (stepup_all ks) j * fpow z (length ks - j)) = 0 -> lt (nrm2 z) 1.
Proof. exact (refl_lt1_stable_thm ks z). Qed.
End C13_order.

(* data in F, roots in an ordered extension K *)
Section C13ext.
Context {F : Type} {OF : Ops F} {L : Laws OF} {OL : OrdLaws OF}.
Context {K : Type} {OK : Ops K} {LK : Laws OK} {OLK : OrdLaws OK}.
Local Open Scope F_scope.
Theorem arburg_stable_ext (phi : F -> K) (x : list F) p stop a rho ref (z : K) :
  phi 0 = 0 -> phi 1 = 1 -> (forall u v, phi (u + v) = phi u + phi v) -> (forall u v, phi (u * v) = phi u * phi v) ->
  (forall u, phi (conj u) = conj (phi u)) -> (forall u, nonneg u -> nonneg (phi u)) ->
  burg_nondegenerate x p ->
  arburg x p stop = Some (a, rho, ref) ->
  sumf (S (length ref)) (fun j => phi (afun a j) * fpow z (length ref - j)) = 0 -> lt (nrm2 z) 1.
Proof.
  intros h0 h1 ha hm hc ho _.
  exact (arburg_stable_ext_thm phi (mkHom phi h0 h1 ha hm hc) ho x p stop a rho ref z).
Qed.
End C13ext.

(* non-vacuity: a concrete complex sequence runs through three non-degenerate stages *)
Definition ex_x : list QcC := [cz (1,0) (0,0); cz (1,1) (1,0); cz (-1,0) (1,-1); cz (3,-1) (0,0); cz (1,0) (-1,0); cz (-1,-1) (1,-2)]%Z.
Example arburg_example : exists a rho ref, @arburg _ qcc_ops ex_x 3 no_stop = Some (a, rho, ref).
Proof. vm_compute. do 3 eexists. reflexivity. Qed.

Example burg_nondegenerate_example : @burg_nondegenerate _ qcc_ops ex_x 3.
Proof.
  intros q st Hq H. destruct q as [|[|[|q]]]; try lia; vm_compute in H; injection H as <-;
  vm_compute; intro E; inversion E.
Qed.

Lemma ex_nondegenerate_1 : @burg_nondegenerate _ qcc_ops ex_x 1.
Proof. intros q st Hq. apply burg_nondegenerate_example. lia. Qed.

(* non-vacuity of the stability clause: the order-1 polynomial z + a_1 has its root -a_1 in the field, and the theorem
   (instantiated at the executed instance, qcc_ord) puts it inside the unit circle *)
Example arburg_stable_example :
  exists a rho ref z, @arburg _ qcc_ops ex_x 1 no_stop = Some (a, rho, ref)
    /\ sumf (OF:=qcc_ops) 2 (fun j => mul (Ops:=qcc_ops) (afun (OF:=qcc_ops) a j) (fpow (OF:=qcc_ops) z (1 - j))) = zero (Ops:=qcc_ops)
    /\ lt (OF:=qcc_ops) (OL:=qcc_ord) (nrm2 (OF:=qcc_ops) z) (one (Ops:=qcc_ops)).
Proof.
  destruct (@arburg _ qcc_ops ex_x 1 no_stop) as [[[a rho] ref]|] eqn:E; [|vm_compute in E; discriminate].
  exists a, rho, ref, (opp (Ops:=qcc_ops) (nthF (OF:=qcc_ops) a 0)).
  assert (Hroot : sumf (OF:=qcc_ops) 2 (fun j => mul (Ops:=qcc_ops) (afun (OF:=qcc_ops) a j)
                    (fpow (OF:=qcc_ops) (opp (Ops:=qcc_ops) (nthF (OF:=qcc_ops) a 0)) (1 - j))) = zero (Ops:=qcc_ops)).
  { exact (polyval_order1 (L:=qcc_laws) a). }
  split; [reflexivity|]. split; [exact Hroot|].
  exact (arburg_stable (L:=qcc_laws) (OL:=qcc_ord) ex_x 1 a rho ref _ ex_nondegenerate_1 E Hroot).
Qed.

(* ---------- all complex roots (Coquelicot's C; standard-library real-number axioms) ---------- *)
Require Import Spectrum.Instances.Cplx_C12 Spectrum.Proofs.BurgComplex.
From Coq Require Import Reals.
From Coquelicot Require Import Complex.

Theorem arburg_stable_complex (x : list QcC) (p : nat) (stop : nat -> QcC -> QcC -> bool)
        (a : list QcC) (rho : QcC) (ref : list QcC) (z : C) :
  @burg_nondegenerate _ qcc_ops x p ->
  arburg (OF:=qcc_ops) x p stop = Some (a, rho, ref) ->
  sumf (OF:=c_ops) (S (length ref)) (fun j => Cmult (qcc_to_c (afun (OF:=qcc_ops) a j)) (fpow (OF:=c_ops) z (length ref - j))) = RtoC 0 ->
  (Cmod z < 1)%R.
Proof. intros _. exact (arburg_stable_complex_thm x p stop a rho ref z). Qed.

Theorem arburg_stable_C (x : list C) (p : nat) (stop : nat -> C -> C -> bool) (a : list C) (rho : C) (ref : list C) (z : C) :
  @burg_nondegenerate _ c_ops x p ->
  arburg (OF:=c_ops) x p stop = Some (a, rho, ref) ->
  sumf (OF:=c_ops) (S (length ref)) (fun j => Cmult (afun (OF:=c_ops) a j) (fpow (OF:=c_ops) z (length ref - j))) = RtoC 0 ->
  (Cmod z < 1)%R.
Proof. intros _. exact (arburg_stable_C_thm x p stop a rho ref z). Qed.

Print Assumptions arburg_shape.
Print Assumptions arburg_nested.
Print Assumptions arburg_criteria.
Print Assumptions burg_den_invariant.
Print Assumptions burg_k_optimal.
Print Assumptions burg_k_le_1.
Print Assumptions burg_rho_monotone.
Print Assumptions burg_rho_nonneg.
Print Assumptions arburg_stable.
Print Assumptions arburg_stable_criteria.
Print Assumptions arburg_k_lt_1.
Print Assumptions stepup_stable.
Print Assumptions arburg_stable_ext.
Print Assumptions arburg_stable_complex.
Print Assumptions arburg_stable_C.
