(* C13 — Burg models are stable, nested and minimise forward+backward error.
   Statements only.

   PROVED (abstract *-field, every data length, every order):
     arburg_shape        the AR vector is the step-up polynomial of the reflection coefficients,
                         rho = mean|x|^2 * prod(1-|k_i|^2), exactly p coefficients, rho not "<= 0"
     arburg_nested       order-q reflection coefficients = first q of the order-p ones
     arburg_criteria     with ANY order-selection rule the result is the plain Burg state of some order q <= p
     burg_den_invariant  the recursively updated denominator equals the summed forward+backward
                         error energy entering the stage (non-degenerate stages)
     burg_k_optimal      E_m(q) - E_m(k_m) = den_m * |q - k_m|^2 for every q: k_m minimises the stage energy
   PROVED (abstract ORDERED *-field, Theory/Order.v; Gaussian rationals and C are models):
     burg_k_le_1         |k_m|^2 <= 1 at every non-degenerate stage (Cauchy-Schwarz)
     burg_rho_monotone   rho >= 0 and rho_{m+1} <= rho_m
     burg_rho_nonneg     rho_m >= 0 at every order
   NOT PROVED: stability of the step-up polynomial (root location needs an algebraically closed
   field): search only.  Strict |k| < 1 is not claimed by the property (modulus <= 1). *)
Require Import Spectrum.Theory.Ops Spectrum.Theory.Sum Spectrum.Theory.Vec Spectrum.Model.Levinson Spectrum.Model.Burg
               Spectrum.Proofs.LevinsonTheory Spectrum.Proofs.BurgStage Spectrum.Proofs.BurgTheory Spectrum.Proofs.BurgDen
               Spectrum.Theory.Order Spectrum.Proofs.BurgOrder Spectrum.Instances.QcC Spectrum.Instances.QcCOrd.
From Coq Require Import QArith Qcanon.

Section C13.
Context {F : Type} {OF : Ops F} {L : Laws OF}.
Local Open Scope F_scope.

Theorem arburg_shape (x : list F) p a rho ref :
  arburg x p no_stop = Some (a, rho, ref) ->
  length ref = p /\ a = stepup_all ref /\ rho = mean_power x * prodk ref /\ le0 rho = false.
Proof. exact (arburg_shape_thm x p a rho ref). Qed.

Theorem arburg_nested (x : list F) p q a rho ref : (1 <= q <= p)%nat ->
  arburg x p no_stop = Some (a, rho, ref) ->
  exists a' rho', arburg x q no_stop = Some (a', rho', firstn q ref).
Proof. exact (arburg_nested_thm x p q a rho ref). Qed.

Theorem arburg_criteria (x : list F) p stop res :
  arburg x p stop = Some res ->
  exists q st, (q <= p)%nat /\ burg_iter no_stop x q = BCont st /\ res = burg_result st.
Proof. exact (arburg_criteria_thm x p stop res). Qed.

Theorem burg_den_invariant (x : list F) m st :
  ofnat (length x) <> 0 -> (m < length x)%nat -> burg_nondegenerate x m ->
  burg_iter no_stop x m = BCont st ->
  burg_den (length x) st m
  = sumf (length x - m - 1) (fun j => nrm2 (nthF (b_ef st) (j + m + 1)) + nrm2 (nthF (b_eb st) (j + m))).
Proof. exact (burg_den_invariant_thm x m st). Qed.

Theorem burg_k_optimal (x : list F) m st q :
  ofnat (length x) <> 0 -> (m < length x)%nat -> burg_nondegenerate x (S m) ->
  burg_iter no_stop x m = BCont st ->
  let n := (length x - m - 1)%nat in
  let f := fun j => nthF (b_ef st) (j + m + 1) in
  let b := fun j => nthF (b_eb st) (j + m) in
  let E := fun k => sumf n (fun j => nrm2 (f j + k * b j) + nrm2 (b j + conj k * f j)) in
  E q - E (burg_kp (length x) st m) = burg_den (length x) st m * nrm2 (q - burg_kp (length x) st m).
Proof. exact (burg_k_optimal_thm x m st q). Qed.
End C13.

Section C13_order.
Context {F : Type} {OF : Ops F} {L : Laws OF} {OL : OrdLaws OF}.
Local Open Scope F_scope.

Theorem burg_k_le_1 (x : list F) m st :
  (m < length x)%nat -> burg_nondegenerate x (S m) -> burg_iter no_stop x m = BCont st ->
  le (nrm2 (burg_kp (length x) st m)) 1.
Proof. exact (burg_k_le_1_thm x m st). Qed.

Theorem burg_rho_monotone (x : list F) m st st' :
  (S m < length x)%nat -> burg_nondegenerate x (S m) ->
  burg_iter no_stop x m = BCont st -> burg_iter no_stop x (S m) = BCont st' ->
  nonneg (b_rho st) -> nonneg (b_rho st') /\ le (b_rho st') (b_rho st).
Proof. exact (burg_rho_monotone_thm x m st st'). Qed.

Theorem burg_rho_nonneg (x : list F) m st :
  (m < length x)%nat -> burg_nondegenerate x m -> burg_iter no_stop x m = BCont st -> nonneg (b_rho st).
Proof. exact (burg_rho_nonneg_thm x m st). Qed.
End C13_order.

(* non-vacuity: a concrete complex sequence runs through three non-degenerate stages *)
Definition ex_x : list QcC := [cz (1,0) (0,0); cz (1,1) (1,0); cz (-1,0) (1,-1); cz (3,-1) (0,0); cz (1,0) (-1,0); cz (-1,-1) (1,-2)]%Z.
Example arburg_example : exists a rho ref, @arburg _ qcc_ops ex_x 3 no_stop = Some (a, rho, ref).
Proof. vm_compute. do 3 eexists. reflexivity. Qed.

Example burg_nondegenerate_example : @burg_nondegenerate _ qcc_ops ex_x 3.
Proof.
  intros q st Hq H. destruct q as [|[|[|q]]]; try lia; vm_compute in H; injection H as <-;
  vm_compute; intro E; inversion E.
Qed.

Print Assumptions arburg_shape.
Print Assumptions arburg_nested.
Print Assumptions arburg_criteria.
Print Assumptions burg_den_invariant.
Print Assumptions burg_k_optimal.
Print Assumptions burg_k_le_1.
Print Assumptions burg_rho_monotone.
Print Assumptions burg_rho_nonneg.
