(* C12 — Yule-Walker models are stable and match the data autocorrelation.
   Nothing but statements; each is closed by [exact] of a lemma proved in Proofs/YulePD.v,
   Proofs/YuleTheory.v.  All theorems hold in every ordered *-field (Laws + OrdLaws: the Gaussian
   rationals executed by the correspondence check, the complex numbers), for every data length,
   every order p < N, real or complex data, both values of allow_singularity.

   PROVED
     levinson_pd            Hermitian Toeplitz form of r positive definite on vectors of length p+1  =>
                            LEVINSON returns (never raises, whatever allow_singularity), P > 0 and the sign test
                            "P <= 0" is false, every |k_j|^2 < 1, T_p [1,a] = [P,0..0], P = r0 prod(1-|k|^2),
                            every lower order q <= p returns too with P_q > 0 and the first q reflection
                            coefficients, and r[0..p] is the only Hermitian lag sequence with these (a, P)
     biased_acorr_pd        data not identically zero => the biased autocorrelation of any order p < N has a
                            real r0 and a positive-definite form ( = (1/N) sum_n |(c*x)[n]|^2 )
     aryule_valid           non-zero data, p < N: aryule returns; the lags are the biased ones; P > 0;
                            |k_j|^2 < 1; the Yule-Walker equations built from the biased lags hold
     aryule_stages          every stage q <= p of that run has P_q > 0 (nesting)
     aryule_matches_acorr   the lag sequence implied by the returned model (any Hermitian sequence whose
                            Yule-Walker equations are solved by (a, P)) has lags 0..p equal to the biased
                            sample autocorrelation
     aryule_stable          every root z, in the field, of z^p + a_1 z^(p-1) + .. + a_p has |z|^2 < 1
     aryule_stable_ext      the same for every root in any ordered *-field K the data's field maps into by a
                            conj-compatible ring homomorphism (data in F, roots in K); axiom-free
     aryule_stable_complex  data in the Gaussian rationals (the instance the correspondence check executes):
                            EVERY complex root has Cmod z < 1   (K = Coquelicot's C; uses the standard-library
                            axioms of the real numbers, printed below)
     aryule_stable_C        data in C itself: every complex root has Cmod z < 1 (same axioms)
     aryule_is_ls           the least-squares normal equations on corrmtx(x, p, 'autocorrelation') are the
                            Yule-Walker equations: aryule's a solves them, is their only monic solution,
                            and attains the minimum residual energy, which equals N * P
     lpc_same_coefficients  real non-zero data, N >= 2, p <= N-1: lpc returns the same a and the error
                            P * N / (N-1)  (the code divides the lag sums by m-1)
     lpc_default            lpc(x) = lpc(x, len(x)-1)
     aryule_errors          norm not in {biased, unbiased}  or  order >= N  => AssertionError
   NOT PROVED
     - nothing of the statement's clauses in exact arithmetic; rounding of the binary64 code is outside the
       theorems (correspondence + search with 1e-9*kappa tolerances);
     - pyule's PSD (arma2psd: FFT) — only its .ar/.reflection are modelled; lpc for complex data takes
       real(R) and is outside the property; lpc's zero-padding branch (N > m-1) is modelled, not proved. *)
Require Import Spectrum.Theory.Ops Spectrum.Theory.Sum Spectrum.Theory.Vec Spectrum.Theory.Order
               Spectrum.Model.Levinson Spectrum.Model.Corr Spectrum.Model.Yule
               Spectrum.Proofs.LevinsonTheory Spectrum.Proofs.CorrTheory Spectrum.Proofs.YulePD Spectrum.Proofs.YuleTheory Spectrum.Proofs.YuleExt
               Spectrum.Instances.QcC Spectrum.Instances.QcCOrd.
From Coq Require Import QArith Qcanon.

Section C12.
Context {F : Type} {OF : Ops F} {L : Laws OF} {OL : OrdLaws OF}.
Local Open Scope F_scope.

Theorem levinson_pd (r : list F) (p : nat) (allow : bool) :
  isreal (nthF r O) -> (p <= length r - 1)%nat ->
  (forall c : nat -> F, (exists i, (i <= p)%nat /\ c i <> 0) ->
     pos (sumf (S p) (fun i => sumf (S p) (fun j => conj (c i) * rz r (Z.of_nat i - Z.of_nat j) * c j)))) ->
  exists a P k, levinson r p allow = Some (a, P, k)
    /\ length a = p /\ length k = p
    /\ pos P /\ le0 P = false
    /\ (forall j, (j < p)%nat -> lt (nrm2 (nthF k j)) 1)
    /\ (forall i, (i <= p)%nat ->
          sumf (S p) (fun j => afun a j * rz r (Z.of_nat i - Z.of_nat j)) = if (i =? 0)%nat then P else 0)
    /\ P = nthF r O * prodk k
    /\ (1 <= p -> nthF a (p - 1) = nthF k (p - 1))%nat
    /\ (forall q, (q <= p)%nat -> exists a' P', levinson r q allow = Some (a', P', firstn q k) /\ pos P')
    /\ (forall rho : list F, isreal (nthF rho O) ->
          (forall i, (i <= p)%nat ->
             sumf (S p) (fun j => afun a j * rz rho (Z.of_nat i - Z.of_nat j)) = if (i =? 0)%nat then P else 0) ->
          forall d, (d <= p)%nat -> nthF rho d = nthF r d).
Proof. exact (levinson_pd_thm r p allow). Qed.

Theorem biased_acorr_pd (x : list F) (p : nat) (r : list F) :
  (exists n, nthF x n <> 0) -> acorr x p Biased = Some r ->
  isreal (nthF r O) /\
  forall c : nat -> F, (exists i, (i <= p)%nat /\ c i <> 0) ->
    pos (sumf (S p) (fun i => sumf (S p) (fun j => conj (c i) * rz r (Z.of_nat i - Z.of_nat j) * c j))).
Proof. exact (biased_acorr_pd_thm x p r). Qed.

Theorem aryule_valid (x : list F) (p : nat) (allow : bool) :
  (exists n, nthF x n <> 0) -> (p < length x)%nat ->
  exists r a P k,
    acorr x p Biased = Some r
    /\ (forall d, (d <= p)%nat ->
          nthF r d = sumf (length x - d) (fun t => nthF x (t + d) * conj (nthF x t)) / ofnat (length x))
    /\ aryule x p Biased allow = inr (a, P, k)
    /\ length a = p /\ length k = p /\ pos P /\ le0 P = false
    /\ (forall j, (j < p)%nat -> lt (nrm2 (nthF k j)) 1)
    /\ (forall i, (i <= p)%nat ->
          sumf (S p) (fun j => afun a j * rz r (Z.of_nat i - Z.of_nat j)) = if (i =? 0)%nat then P else 0)
    /\ P = nthF r O * prodk k
    /\ (1 <= p -> nthF a (p - 1) = nthF k (p - 1))%nat.
Proof. exact (aryule_valid_thm x p allow). Qed.

Theorem aryule_stages (x : list F) (p : nat) (allow : bool) (r a : list F) (P : F) (k : list F) :
  (exists n, nthF x n <> 0) -> acorr x p Biased = Some r -> aryule x p Biased allow = inr (a, P, k) ->
  forall q, (q <= p)%nat -> exists a' P', levinson r q allow = Some (a', P', firstn q k) /\ pos P'.
Proof. exact (aryule_stages_thm x p allow r a P k). Qed.

Theorem aryule_matches_acorr (x : list F) (p : nat) (allow : bool) (a : list F) (P : F) (k rho : list F) :
  (exists n, nthF x n <> 0) -> aryule x p Biased allow = inr (a, P, k) ->
  isreal (nthF rho O) ->
  (forall i, (i <= p)%nat ->
     sumf (S p) (fun j => afun a j * rz rho (Z.of_nat i - Z.of_nat j)) = if (i =? 0)%nat then P else 0) ->
  forall d, (d <= p)%nat ->
    nthF rho d = sumf (length x - d) (fun t => nthF x (t + d) * conj (nthF x t)) / ofnat (length x).
Proof. exact (aryule_matches_acorr_thm x p allow a P k rho). Qed.

Theorem aryule_stable (x : list F) (p : nat) (allow : bool) (a : list F) (P : F) (k : list F) (z : F) :
  (exists n, nthF x n <> 0) -> aryule x p Biased allow = inr (a, P, k) ->
  sumf (S p) (fun j => afun a j * fpow z (p - j)) = 0 -> lt (nrm2 z) 1.
Proof. exact (aryule_stable_thm x p allow a P k z). Qed.

Theorem aryule_is_ls (x : list F) (p : nat) (allow : bool) (a : list F) (P : F) (k : list F) :
  (exists n, nthF x n <> 0) -> aryule x p Biased allow = inr (a, P, k) ->
  let X n j := nthF (nth n (corrmtx x p MAutocorrelation) []) j in            (* the data matrix, (N+p) x (p+1) *)
  let normal b i := sumf (length x + p) (fun n => conj (X n i) * sumf (S p) (fun j => X n j * b j)) in
  let resid b := sumf (length x + p) (fun n => nrm2 (sumf (S p) (fun j => X n j * b j))) in
  (forall i, (1 <= i <= p)%nat -> normal (afun a) i = 0)
  /\ (forall b : nat -> F, b O = 1 -> (forall i, (1 <= i <= p)%nat -> normal b i = 0) ->
        forall j, (j <= p)%nat -> b j = afun a j)
  /\ resid (afun a) = ofnat (length x) * P
  /\ (forall b : nat -> F, b O = 1 -> le (resid (afun a)) (resid b)).
Proof. exact (aryule_is_ls_thm x p allow a P k). Qed.

Theorem lpc_same_coefficients (x : list F) (p : nat) (allow : bool) :
  (forall j, isreal (nthF x j)) -> (exists n, nthF x n <> 0) -> (2 <= length x)%nat -> (p <= length x - 1)%nat ->
  exists a P k,
    aryule x p Biased allow = inr (a, P, k)
    /\ lpc x (Some p) = Some (a, P * ofnat (length x) / ofnat (length x - 1)).
Proof. exact (lpc_same_coefficients_thm x p allow). Qed.

Theorem lpc_default (x : list F) : lpc x None = lpc x (Some (length x - 1)%nat).
Proof. exact (lpc_default_thm x). Qed.

Theorem aryule_errors (x : list F) (p : nat) (nm : cnorm) (allow : bool) :
  ((nm = Coeff \/ nm = NoNorm) -> aryule x p nm allow = inl YAssert)
  /\ ((length x <= p)%nat -> aryule x p nm allow = inl YAssert).
Proof. exact (aryule_errors_thm x p nm allow). Qed.
End C12.

Section C12ext.
Context {F : Type} {OF : Ops F} {L : Laws OF} {OL : OrdLaws OF}.
Context {K : Type} {OK : Ops K} {LK : Laws OK} {OLK : OrdLaws OK}.
Local Open Scope F_scope.
Theorem aryule_stable_ext (phi : F -> K) (x : list F) (p : nat) (allow : bool) (a : list F) (P : F) (k : list F) (z : K) :
  phi 0 = 0 -> phi 1 = 1 -> (forall u v, phi (u + v) = phi u + phi v) -> (forall u v, phi (u * v) = phi u * phi v) ->
  (forall u, phi (conj u) = conj (phi u)) ->
  (exists n, nthF x n <> 0) -> aryule x p Biased allow = inr (a, P, k) ->
  sumf (S p) (fun j => phi (afun a j) * fpow z (p - j)) = 0 -> lt (nrm2 z) 1.
Proof. intros h0 h1 ha hm hc. exact (aryule_stable_ext_thm phi (mkHom phi h0 h1 ha hm hc) x p allow a P k z). Qed.
End C12ext.

(* non-vacuity on the executed instance (Gaussian rationals, qcc_ord : OrdLaws qcc_ops) *)
Definition ex_x : list QcC := [cz (1,0) (1,0); cz (2,0) (0,0); cz (-1,0) (1,-1); cz (0,0) (-3,0); cz (1,-1) (1,0)]%Z.
Definition ex_xr : list QcC := [cz (1,0) (0,0); cz (2,0) (0,0); cz (-1,0) (0,0); cz (3,0) (0,0); cz (1,-1) (0,0)]%Z.
Lemma ex_x_nonzero : exists n, nthF (OF:=qcc_ops) ex_x n <> zero (Ops:=qcc_ops).
Proof. exists O. vm_compute. discriminate. Qed.
Lemma ex_xr_nonzero : exists n, nthF (OF:=qcc_ops) ex_xr n <> zero (Ops:=qcc_ops).
Proof. exists O. vm_compute. discriminate. Qed.
Example aryule_example :
  exists a P k, @aryule _ qcc_ops ex_x 3 Biased true = inr (a, P, k) /\ length a = 3%nat.
Proof. vm_compute. do 3 eexists. split; reflexivity. Qed.
(* the theorems apply to the executed instance *)
Example aryule_valid_qcc := @aryule_valid QcC qcc_ops qcc_laws qcc_ord ex_x 3 false ex_x_nonzero ltac:(vm_compute; lia).
Example lpc_qcc := @lpc_same_coefficients QcC qcc_ops qcc_laws qcc_ord ex_xr 2 true
                     ltac:(intros j; do 6 (destruct j as [|j]; [vm_compute; reflexivity|]); vm_compute; reflexivity)
                     ex_xr_nonzero ltac:(vm_compute; lia) ltac:(vm_compute; lia).
Example lpc_example : exists a e, @lpc _ qcc_ops ex_xr (Some 2%nat) = Some (a, e) /\ length a = 2%nat.
Proof. vm_compute. do 2 eexists. split; reflexivity. Qed.
(* the unbiased estimate is not positive definite in general: x = [1,-1,1] gives r = [1,-1,1], k_1 = 1, P = 0 *)
Example aryule_unbiased_singular :
  @aryule _ qcc_ops [cz (1,0) (0,0); cz (-1,0) (0,0); cz (1,0) (0,0)]%Z 2 Unbiased false = inl YSingular.
Proof. vm_compute. reflexivity. Qed.
Example aryule_order_error : @aryule _ qcc_ops ex_x 5 Biased true = inl YAssert.
Proof. vm_compute. reflexivity. Qed.

(* ---------- all complex roots: instances at Coquelicot's C (standard-library real-number axioms) ---------- *)
Require Import Spectrum.Proofs.YuleExt Spectrum.Instances.Cplx_C12 Spectrum.Proofs.YuleComplex.
From Coq Require Import Reals.
From Coquelicot Require Import Complex.

Theorem aryule_stable_complex (x : list QcC) (p : nat) (allow : bool) (a : list QcC) (P : QcC) (k : list QcC) (z : C) :
  (exists n, nthF (OF:=qcc_ops) x n <> zero (Ops:=qcc_ops)) ->
  aryule (OF:=qcc_ops) x p Biased allow = inr (a, P, k) ->
  sumf (OF:=c_ops) (S p) (fun j => Cmult (qcc_to_c (afun (OF:=qcc_ops) a j)) (fpow (OF:=c_ops) z (p - j))) = RtoC 0 ->
  (Cmod z < 1)%R.
Proof. exact (aryule_stable_complex_thm x p allow a P k z). Qed.

Theorem aryule_stable_C (x : list C) (p : nat) (allow : bool) (a : list C) (P : C) (k : list C) (z : C) :
  (exists n, nthF (OF:=c_ops) x n <> RtoC 0) ->
  aryule (OF:=c_ops) x p Biased allow = inr (a, P, k) ->
  sumf (OF:=c_ops) (S p) (fun j => Cmult (afun (OF:=c_ops) a j) (fpow (OF:=c_ops) z (p - j))) = RtoC 0 ->
  (Cmod z < 1)%R.
Proof. exact (aryule_stable_C_thm x p allow a P k z). Qed.

Print Assumptions levinson_pd.
Print Assumptions biased_acorr_pd.
Print Assumptions aryule_valid.
Print Assumptions aryule_stages.
Print Assumptions aryule_matches_acorr.
Print Assumptions aryule_stable.
Print Assumptions aryule_is_ls.
Print Assumptions lpc_same_coefficients.
Print Assumptions lpc_default.
Print Assumptions aryule_errors.
Print Assumptions aryule_stable_ext.
Print Assumptions aryule_stable_complex.
Print Assumptions aryule_stable_C.
