(* C17 — MUSIC / EV resolve exact sinusoids and expose the data-matrix spectrum.
   Nothing but statements; each is closed by [exact] of a lemma proved in Proofs/Eigen{FB,Axis,Theory}.v.
   The model (Model/Eigen.v) is eigen()/_get_signal_space/pmusic/pev as the code is now (after D4, D21 and D22).
   numpy.linalg.svd is not modelled: (S, Vh) are universally quantified and constrained by [svd_spec] where needed.

   PROVED (abstract ordered *-field; every N, P, K, NFFT of both parities, real and complex data):
     fb_shape, fb_entries          2*NP rows of P entries, NP = min(N-P, 100); FB[I,K] = X[I-K+P-1], FB[I+NP,K] = conj X[I+K+1],
                                   all indices inside the data
     fb_rank_factorisation         noiseless unit-modulus data: FB = L * B with the K x P matrix B[i][k] = z_i^-k (rank FB <= K)
     noise_polynomial_vanishes     FB v = 0 on the forward block => sum_k v_k z_i^(P-1-k) = 0 and (z_i <> 0) sum_k v_k z_i^-k = 0
                                   at every pole (Vandermonde elimination; needs NP >= K, distinct poles, non-zero amplitudes; no
                                   unit-modulus hypothesis)
     noise_polynomial_vanishes_backward   the same from the backward block alone: sum_k v_k conj(z_i)^k = 0, which is the noise
                                   polynomial when z_i conj z_i = 1
     noise_polynomial_converse     unit-modulus poles: a vector whose noise polynomial vanishes at every pole is annihilated by FB
     singular_vector_null          FB^H FB v_I = S_I^2 v_I and S_I = 0  =>  FB v_I = 0
     rank_bounds_singular_values   FB = L * B with K rows in B, any (S, Vh) meeting svd_spec, K < P: S_K = 0 (homogeneous systems with more
                                   unknowns than equations have a non-trivial solution; orthonormal vectors are independent)
     singular_values_rank          noiseless unit-modulus data: S_I = 0 for every I >= K — at most K singular values are non-zero
     eigen_resolves                noiseless on-grid exponentials, NSIG = K, svd_spec: eigen returns S, S_I = 0 for I >= K, and each entry whose
                                   centred bin is a true bin is 1/0 — the MUSIC and the EV denominators vanish at the true frequencies
     pseudo_nonneg, pseudo_positive  denominators are >= 0 (EV with the floored weights 1/max(S_I, eps*S_0): needs only eps > 0, S_0 > 0 and
                                   S_I >= 0 — the noise singular values may be exactly 0, D22); they are 0 exactly when every
                                   noise vector is orthogonal to e(f); elsewhere the pseudo-spectrum is > 0
     music_at_least_1_over_P       MUSIC with a unitary V: denominator <= P
     signal_space_choice           complete inversion of the decision logic: what a successful call has chosen
     signal_space_rejects          every rejection (method, NSIG with threshold, threshold < 1, NSIG < 0, NSIG >= P, float NSIG,
                                   unknown criterion, N/P assertion) with its error
     signal_space_exclusive        an explicit NSIG / a threshold makes the criterion and the AIC/MDL index irrelevant
     threshold_keeps_noise         threshold >= 1 on non-negative singular values: 1 <= NSIG <= P-1
     music_axis_eigen / _complex / _real   entry j of eigen() / pmusic,pev (complex) / pmusic,pev (real) is the pseudo-spectrum at
                                   the bin frequencies() reports for j (centred / two-sided / one-sided), lengths NFFT / NFFT / NFFT/2+1
   D22 (EV divided by exactly-zero singular values) is repaired in the code (b2427b9) and in the model: Examples ev_floored_on_zero_singular_value,
     ev_floor_positive show the floored weight on that corner.
   NOT PROVED: that the binary64 values at the true bins dominate ("K largest local maxima within one bin"), that the first K
     singular values are non-zero / that the trailing ones are numerically negligible (in exact arithmetic they are 0: proved),
     anything about numpy's SVD itself,
     the AIC/MDL values (logarithms; only NSIG = argmin + 1 is modelled). *)
Require Import Spectrum.Theory.Ops Spectrum.Theory.Sum Spectrum.Theory.Vec Spectrum.Theory.Order Spectrum.Theory.Dft
               Spectrum.Model.Eigen Spectrum.Proofs.EigenFB Spectrum.Proofs.EigenAxis Spectrum.Proofs.EigenTheory Spectrum.Proofs.EigenRank
               Spectrum.Instances.QcC Spectrum.Instances.QcCOrd Spectrum.Instances.QcCTw.
From Coq Require Import QArith Qcanon.

Section C17.
Context {F : Type} {OF : Ops F} {L : Laws OF} {OL : OrdLaws OF}.
Local Open Scope F_scope.

Theorem fb_shape (x : list F) (P : nat) :
  let NP := np_of (length x) P in
  length (fb_matrix x P) = (2 * NP)%nat
  /\ (forall r, (r < 2 * NP)%nat -> length (mrow (fb_matrix x P) r) = P)
  /\ (NP <= 100 /\ NP <= length x - P /\ (length x - P <= 100 -> NP = length x - P) /\ (100 < length x - P -> NP = 100))%nat.
Proof. exact (Logic.conj (fb_rows x P) (Logic.conj (fb_cols x P) (np_of_spec (length x) P))). Qed.

Theorem fb_entries (x : list F) (P r k : nat) : (r < np_of (length x) P)%nat -> (k < P)%nat ->
  (mat (fb_matrix x P) r k = nthF x (r + P - 1 - k) /\ (r + P - 1 - k < length x)%nat)
  /\ (mat (fb_matrix x P) (np_of (length x) P + r) k = conj (nthF x (r + k + 1)) /\ (r + k + 1 < length x)%nat).
Proof. exact (fun Hr Hk => Logic.conj (fb_entry_fwd x P r k Hr Hk) (fb_entry_bwd x P r k Hr Hk)). Qed.

Theorem fb_rank_factorisation (x : list F) (P K : nat) (A z : nat -> F) (r k : nat) :
  (forall n, (n < length x)%nat -> nthF x n = expsig K A z n) ->
  (forall i, (i < K)%nat -> z i * conj (z i) = 1) -> (r < 2 * np_of (length x) P)%nat -> (k < P)%nat ->
  mat (fb_matrix x P) r k = sumf K (fun i => lfac x P A z r i * pow (inv (z i)) k).
Proof. exact (fun Hx => fb_rank_factor x P K A z Hx r k). Qed.

Theorem noise_polynomial_vanishes (x : list F) (P K : nat) (A z v : nat -> F) :
  (forall n, (n < length x)%nat -> nthF x n = expsig K A z n) ->
  (K <= np_of (length x) P)%nat -> distinct K z -> (forall i, (i < K)%nat -> A i <> 0) ->
  (forall r, (r < np_of (length x) P)%nat -> mv (fb_matrix x P) P v r = 0) ->
  forall i, (i < K)%nat ->
    sumf P (fun k => v k * pow (z i) (P - 1 - k)) = 0 /\ (z i <> 0 -> sumf P (fun k => v k * pow (inv (z i)) k) = 0).
Proof. exact (fun Hx => fwd_null_roots x P K A z Hx v). Qed.

Theorem noise_polynomial_vanishes_backward (x : list F) (P K : nat) (A z v : nat -> F) :
  (forall n, (n < length x)%nat -> nthF x n = expsig K A z n) ->
  (K <= np_of (length x) P)%nat -> distinct K z -> (forall i, (i < K)%nat -> A i <> 0) -> (forall i, (i < K)%nat -> z i <> 0) ->
  (forall r, (r < np_of (length x) P)%nat -> mv (fb_matrix x P) P v (np_of (length x) P + r) = 0) ->
  forall i, (i < K)%nat ->
    sumf P (fun k => v k * pow (conj (z i)) k) = 0 /\ (z i * conj (z i) = 1 -> sumf P (fun k => v k * pow (inv (z i)) k) = 0).
Proof. exact (fun Hx => bwd_null_roots x P K A z Hx v). Qed.

Theorem noise_polynomial_converse (x : list F) (P K : nat) (A z v : nat -> F) :
  (forall n, (n < length x)%nat -> nthF x n = expsig K A z n) ->
  (forall i, (i < K)%nat -> z i * conj (z i) = 1) ->
  (forall i, (i < K)%nat -> sumf P (fun k => v k * pow (inv (z i)) k) = 0) ->
  forall r, (r < 2 * np_of (length x) P)%nat -> mv (fb_matrix x P) P v r = 0.
Proof. exact (fun Hx => roots_null x P K A z Hx v). Qed.

Theorem singular_vector_null (FB : list (list F)) (rows P : nat) (S : list F) (Vh : list (list F)) (I : nat) :
  gram_eq FB rows P S Vh I -> nthF S I = 0 -> forall r, (r < rows)%nat -> mv FB P (rsv Vh I) r = 0.
Proof. exact (zero_sv_null FB rows P S Vh I). Qed.

Theorem rank_bounds_singular_values (FB : list (list F)) (rows P K : nat) (S : list F) (Vh : list (list F)) (Lf B : nat -> nat -> F) :
  svd_spec FB rows P S Vh -> (K < P)%nat ->
  (forall r k, (r < rows)%nat -> (k < P)%nat -> mat FB r k = sumf K (fun i => Lf r i * B i k)) ->
  nthF S K = 0.
Proof. exact (factor_singular_value_zero FB rows P K S Vh Lf B). Qed.

Theorem singular_values_rank (x : list F) (P K : nat) (A z : nat -> F) (S : list F) (Vh : list (list F)) :
  (forall n, (n < length x)%nat -> nthF x n = expsig K A z n) ->
  (forall i, (i < K)%nat -> z i * conj (z i) = 1) ->
  svd_spec (fb_matrix x P) (2 * np_of (length x) P) P S Vh ->
  forall I, (K <= I)%nat -> (I < P)%nat -> nthF S I = 0.
Proof. exact (noiseless_rank_thm x P K A z S Vh). Qed.

Theorem eigen_resolves (tw : Z -> F) (NFFT : nat) (T : Twiddle NFFT tw) (Hpos : (0 < NFFT)%nat)
        meth eps crit amin (x : list F) (P K : nat) (A z : nat -> F) (bin : nat -> Z) (S : list F) (Vh : list (list F)) psd ev :
  (forall n, (n < length x)%nat -> nthF x n = expsig K A z n) ->
  (forall i, (i < K)%nat -> z i = tw (- bin i)%Z) ->
  (K <= np_of (length x) P)%nat -> distinct K z -> (forall i, (i < K)%nat -> A i <> 0) ->
  svd_spec (fb_matrix x P) (2 * np_of (length x) P) P S Vh ->
  eigen meth eps (Some (NInt (Z.of_nat K))) None crit amin tw NFFT x P S Vh = inr (psd, ev) ->
  ev = S /\ length psd = NFFT /\ (K < P)%nat /\ (forall I, (K <= I)%nat -> (I < P)%nat -> nthF S I = 0) /\
  forall i j (c : Z), (i < K)%nat -> (j < NFFT)%nat -> centerdc_bin NFFT j = (bin i + c * Z.of_nat NFFT)%Z ->
    nthF psd j = 1 / dform meth eps tw P S Vh K (centerdc_bin NFFT j) /\ dform meth eps tw P S Vh K (centerdc_bin NFFT j) = 0.
Proof. exact (eigen_resolves_rank_thm tw NFFT Hpos meth eps crit amin x P K A z bin S Vh psd ev). Qed.

Theorem pseudo_nonneg (tw : Z -> F) meth eps (P : nat) (S : list F) (Vh : list (list F)) (ns : nat) (b : Z) :
  (meth = MEv -> pos eps /\ pos (nthF S 0) /\ forall I, (ns <= I)%nat -> (I < P)%nat -> nonneg (nthF S I)) ->
  nonneg (dform meth eps tw P S Vh ns b)
  /\ (dform meth eps tw P S Vh ns b = 0 <-> forall I, (ns <= I)%nat -> (I < P)%nat -> dftN tw P (rsv Vh I) b = 0).
Proof. exact (fun Hw => Logic.conj (dform_nonneg tw meth eps P S Vh ns Hw b) (dform_zero_iff tw meth eps P S Vh ns Hw b)). Qed.

Theorem pseudo_positive (tw : Z -> F) meth eps (P : nat) (S : list F) (Vh : list (list F)) (ns : nat) (b : Z) (I : nat) :
  (meth = MEv -> pos eps /\ pos (nthF S 0) /\ forall I, (ns <= I)%nat -> (I < P)%nat -> nonneg (nthF S I)) ->
  (ns <= I)%nat -> (I < P)%nat -> dftN tw P (rsv Vh I) b <> 0 ->
  pos (dform meth eps tw P S Vh ns b) /\ pos (1 / dform meth eps tw P S Vh ns b).
Proof. exact (fun Hw => pseudo_value_pos tw meth eps P S Vh ns Hw b I). Qed.

Theorem music_at_least_1_over_P (tw : Z -> F) (NFFT : nat) (T : Twiddle NFFT tw) (Hpos : (0 < NFFT)%nat)
        FB rows P S Vh ns eps (b : Z) :
  svd_spec FB rows P S Vh -> (ns <= P)%nat -> le (dform MMusic eps tw P S Vh ns b) (ofnat P).
Proof. exact (music_den_le_P_thm tw NFFT Hpos FB rows P S Vh ns eps b). Qed.

Theorem signal_space_choice meth nsig (thr : option F) crit amin N P NFFT S ns :
  eigen_nsig meth nsig thr crit amin N P NFFT S = inr ns ->
  meth <> MOther /\ assert_ok N P = true /\ (ns < P -> P <= NFFT)%nat /\ choice_spec nsig thr crit amin P S ns.
Proof. exact (signal_space_choice_thm meth nsig thr crit amin N P NFFT S ns). Qed.

Theorem signal_space_rejects meth nsig (thr : option F) crit amin N P NFFT S :
  (meth = MOther -> eigen_nsig meth nsig thr crit amin N P NFFT S = inl EMethod)
  /\ (meth <> MOther -> forall n t, nsig = Some n -> thr = Some t -> eigen_nsig meth nsig thr crit amin N P NFFT S = inl EExclusive)
  /\ (meth <> MOther -> forall t, nsig = None -> thr = Some t -> lt1 t = true -> eigen_nsig meth nsig thr crit amin N P NFFT S = inl EThreshold)
  /\ (meth <> MOther -> forall n, nsig = Some n -> thr = None -> (nsig_z n < 0)%Z -> eigen_nsig meth nsig thr crit amin N P NFFT S = inl ENsigNeg)
  /\ (meth <> MOther -> forall n, nsig = Some n -> thr = None -> (Z.of_nat P <= nsig_z n)%Z -> eigen_nsig meth nsig thr crit amin N P NFFT S = inl ENsigBig)
  /\ (meth <> MOther -> forall z b, nsig = Some (NFlt z b) -> thr = None -> (0 <= z < Z.of_nat P)%Z -> assert_ok N P = true ->
        eigen_nsig meth nsig thr crit amin N P NFFT S = inl ENsigType)
  /\ (meth <> MOther -> nsig = None -> thr = None -> assert_ok N P = true -> crit = COther -> eigen_nsig meth nsig thr crit amin N P NFFT S = inl ECritUnknown)
  /\ (meth <> MOther -> (forall n t, nsig = Some n -> thr = Some t -> False) -> (forall t, thr = Some t -> lt1 t = false) ->
        (forall n, nsig = Some n -> (0 <= nsig_z n < Z.of_nat P)%Z) -> assert_ok N P = false -> eigen_nsig meth nsig thr crit amin N P NFFT S = inl EAssert).
Proof. exact (signal_space_rejects_thm meth nsig thr crit amin N P NFFT S). Qed.

Theorem signal_space_exclusive meth n (t : F) crit crit' amin amin' N P NFFT S :
  eigen_nsig meth (Some n) None crit amin N P NFFT S = eigen_nsig meth (Some n) None crit' amin' N P NFFT S
  /\ eigen_nsig meth None (Some t) crit amin N P NFFT S = eigen_nsig meth None (Some t) crit' amin' N P NFFT S.
Proof. exact (signal_space_exclusive_thm meth n t crit crit' amin amin' N P NFFT S). Qed.

Theorem threshold_keeps_noise (S : list F) (t : F) :
  S <> [] -> (forall s, In s S -> nonneg s) -> conj t = t -> lt1 t = false ->
  (1 <= thr_nsig S t)%nat /\ (2 <= length S -> thr_nsig S t < length S)%nat.
Proof. exact (threshold_keeps_noise_thm S t). Qed.

Theorem music_axis_eigen (tw : Z -> F) (NFFT : nat) (T : Twiddle NFFT tw) (Hpos : (0 < NFFT)%nat)
        meth eps nsig thr crit amin (x : list F) (P : nat) (S : list F) (Vh : list (list F)) psd ev :
  (forall I, (I < P)%nat -> length (mrow Vh I) = P) ->
  eigen meth eps nsig thr crit amin tw NFFT x P S Vh = inr (psd, ev) ->
  exists ns, eigen_nsig meth nsig thr crit amin (length x) P NFFT S = inr ns /\ ev = S /\ length psd = NFFT /\
    forall j, (j < NFFT)%nat -> nthF psd j = 1 / dform meth eps tw P S Vh ns (centerdc_bin NFFT j).
Proof. exact (fun Hrows => music_axis_eigen_thm tw NFFT Hpos meth eps nsig thr crit amin x P S Vh Hrows psd ev). Qed.

Theorem music_axis_complex (tw : Z -> F) (NFFT : nat) (T : Twiddle NFFT tw) (Hpos : (0 < NFFT)%nat)
        meth eps nsig thr crit amin (x : list F) (P : nat) (S : list F) (Vh : list (list F)) scale psd ev :
  (forall I, (I < P)%nat -> length (mrow Vh I) = P) ->
  pclass meth eps false scale nsig thr crit amin tw NFFT x P S Vh = inr (psd, ev) ->
  exists ns, eigen_nsig meth nsig thr crit amin (length x) P NFFT S = inr ns /\ ev = S /\ length psd = NFFT /\
    forall j, (j < NFFT)%nat -> nthF psd j = scaled scale (1 / dform meth eps tw P S Vh ns (Z.of_nat j)).
Proof. exact (fun Hrows => music_axis_complex_thm tw NFFT Hpos meth eps nsig thr crit amin x P S Vh Hrows scale psd ev). Qed.

Theorem music_axis_real (tw : Z -> F) (NFFT : nat) (T : Twiddle NFFT tw) (Hpos : (0 < NFFT)%nat)
        meth eps nsig thr crit amin (x : list F) (P : nat) (S : list F) (Vh : list (list F)) scale psd ev :
  (forall I, (I < P)%nat -> length (mrow Vh I) = P) ->
  pclass meth eps true scale nsig thr crit amin tw NFFT x P S Vh = inr (psd, ev) ->
  exists ns, eigen_nsig meth nsig thr crit amin (length x) P NFFT S = inr ns /\ ev = S /\ length psd = (NFFT / 2 + 1)%nat /\
    forall j, (j <= NFFT / 2)%nat ->
      nthF psd j = scaled scale (1 / dform meth eps tw P S Vh ns (- Z.of_nat j)%Z * two)
      /\ ((forall I m, conj (mat Vh I m) = mat Vh I m) ->
          nthF psd j = scaled scale (1 / dform meth eps tw P S Vh ns (Z.of_nat j) * two)).
Proof. exact (fun Hrows => music_axis_real_thm tw NFFT Hpos meth eps nsig thr crit amin x P S Vh Hrows scale psd ev). Qed.
End C17.

(* ---------------- non-vacuity on concrete Gaussian-rational inputs ---------------- *)
Local Open Scope Z_scope.
(* the data matrix of 7 complex samples, order 3: 8 rows of 3 entries, forward then conjugated backward *)
Definition ex_x7 : list QcC :=
  [cz (1,0) (0,0); cz (2,0) (1,0); cz (3,0) (0,0); cz (4,0) (-1,0); cz (5,0) (0,0); cz (6,0) (1,0); cz (7,0) (0,0)].
Example fb_example :
  @fb_matrix _ qcc_ops ex_x7 3 =
  [[cz (3,0) (0,0); cz (2,0) (1,0); cz (1,0) (0,0)]; [cz (4,0) (-1,0); cz (3,0) (0,0); cz (2,0) (1,0)];
   [cz (5,0) (0,0); cz (4,0) (-1,0); cz (3,0) (0,0)]; [cz (6,0) (1,0); cz (5,0) (0,0); cz (4,0) (-1,0)];
   [cz (2,0) (-1,0); cz (3,0) (0,0); cz (4,0) (1,0)]; [cz (3,0) (0,0); cz (4,0) (1,0); cz (5,0) (0,0)];
   [cz (4,0) (1,0); cz (5,0) (0,0); cz (6,0) (-1,0)]; [cz (5,0) (0,0); cz (6,0) (-1,0); cz (7,0) (0,0)]].
Proof. vm_compute. reflexivity. Qed.

(* a noiseless input with an exact SVD in the Gaussian rationals: x_n = (1+i) * 1^n (K = 1, bin 0 of the 4-point grid), P = 2.
   FB^H FB = [[8,8],[8,8]], S = (4, 0), v_0 = ((1+i)/2, (1+i)/2), v_1 = ((1+i)/2, -(1+i)/2); Vh holds their conjugates *)
Definition ex_x : list QcC := [cz (1,0) (1,0); cz (1,0) (1,0); cz (1,0) (1,0); cz (1,0) (1,0)].
Definition ex_S : list QcC := [cz (4,0) (0,0); cz (0,0) (0,0)].
Definition ex_eps : QcC := cz (1,-52) (0,0).     (* numpy.finfo(float).eps = 2^-52 *)
Definition ex_Vh : list (list QcC) := [[cz (1,-1) (-1,-1); cz (1,-1) (-1,-1)]; [cz (1,-1) (-1,-1); cz (-1,-1) (1,-1)]].
Ltac qcc_eq := apply qcc_eq_canon; vm_compute; reflexivity.
(* [qcc_ord] is opaque: non-negativity of a concrete value is shown by exhibiting it as a squared modulus *)
Ltac qcc_nn r := apply (@nonneg_eq _ qcc_ops qcc_ord (@nrm2 _ qcc_ops r)); [qcc_eq|apply (@nn_nrm2 _ qcc_ops qcc_ord)].
Example svd_spec_example : @svd_spec _ qcc_ops qcc_ord (@fb_matrix _ qcc_ops ex_x 2) 4 2 ex_S ex_Vh.
Proof.
  constructor.
  - reflexivity.
  - intros I HI. destruct I as [|[|I]]; [reflexivity|reflexivity|lia].
  - intros I HI. destruct I as [|[|I]]; [qcc_nn (cz (2,0) (0,0))|qcc_nn (cz (0,0) (0,0))|lia].
  - intros I J HIJ HJ. assert (HI : ((I = 0 /\ J = 0) \/ (I = 0 /\ J = 1) \/ (I = 1 /\ J = 1))%nat) by lia.
    unfold le. destruct HI as [[-> ->]|[[-> ->]|[-> ->]]]; [qcc_nn (cz (0,0) (0,0))|qcc_nn (cz (2,0) (0,0))|qcc_nn (cz (0,0) (0,0))].
  - intros I J HI HJ. destruct I as [|[|I]]; [| |lia]; (destruct J as [|[|J]]; [| |lia]); qcc_eq.
  - intros m m' Hm Hm'. destruct m as [|[|m]]; [| |lia]; (destruct m' as [|[|m']]; [| |lia]); qcc_eq.
  - intros I HI k Hk. destruct I as [|[|I]]; [| |lia]; (destruct k as [|[|k]]; [| |lia]); qcc_eq.
Qed.
(* MUSIC on it (NSIG = 1, NFFT = 4): the model returns S and the denominator of the centred entry 2 (bin 0) is exactly 0 *)
Example eigen_resolves_example :
  exists psd, @eigen _ qcc_ops MMusic ex_eps (Some (NInt 1)) None CAic 0 tw4 4 ex_x 2 ex_S ex_Vh = inr (psd, ex_S)
    /\ @dform _ qcc_ops MMusic ex_eps tw4 2 ex_S ex_Vh 1 (@centerdc_bin 4 2) = @zero _ qcc_ops
    /\ @dform _ qcc_ops MMusic ex_eps tw4 2 ex_S ex_Vh 1 (@centerdc_bin 4 3) = cz (1,0) (0,0).
Proof. eexists. split; [vm_compute; reflexivity|]. split; qcc_eq. Qed.
(* the hypotheses of [eigen_resolves] are jointly satisfiable: the abstract theorem applied to this input *)
Example eigen_resolves_applies psd ev :
  @eigen _ qcc_ops MMusic ex_eps (Some (NInt 1)) None CAic 0 tw4 4 ex_x 2 ex_S ex_Vh = inr (psd, ev) ->
  @dform _ qcc_ops MMusic ex_eps tw4 2 ex_S ex_Vh 1 (@centerdc_bin 4 2) = @zero _ qcc_ops.
Proof.
  intros He.
  assert (Hpos : (0 < 4)%nat) by lia.
  destruct (@eigen_resolves _ qcc_ops qcc_laws qcc_ord tw4 4 tw4_twiddle Hpos MMusic ex_eps CAic 0%nat ex_x 2%nat 1%nat
              (fun _ => cz (1,0) (1,0)) (fun _ => cz (1,0) (0,0)) (fun _ => 0) ex_S ex_Vh psd ev) as (_ & _ & _ & _ & H).
  - intros n Hn. cbn [length ex_x] in Hn.
    destruct n as [|[|[|[|n]]]]; [qcc_eq|qcc_eq|qcc_eq|qcc_eq|lia].
  - intros i Hi. qcc_eq.
  - vm_compute. lia.
  - intros i j Hi Hj Hij. lia.
  - intros i Hi E. inversion E.
  - exact svd_spec_example.
  - exact He.
  - apply (H 0%nat 2%nat 0 ltac:(lia) ltac:(lia)). reflexivity.
Qed.
(* EV on the same input (D22): the noise singular value is exactly 0; the code floors it at eps*S_0 = 2^-50, so the weight is 2^50 and the
   pseudo-spectrum is positive at every bin that is not a true bin: centred entries (bins -2,-1,0,1) = 2^-51, 2^-50, 1/0, 2^-50
   (the entry at the true bin 0 is the reciprocal of an exact 0: "infinite"; it reads 0 in the totalised field) *)
Example ev_floored_on_zero_singular_value :
  @eigen _ qcc_ops MEv ex_eps (Some (NInt 1)) None CAic 0 tw4 4 ex_x 2 ex_S ex_Vh
  = inr ([cz (1,-51) (0,0); cz (1,-50) (0,0); @zero _ qcc_ops; cz (1,-50) (0,0)], ex_S).
Proof. vm_compute. reflexivity. Qed.
(* and the abstract theorem applies there: eps > 0, S_0 = 4 > 0, S_1 = 0 >= 0 suffice for positivity at bin 1 *)
Example ev_floor_positive :
  @pos _ qcc_ops qcc_ord (@div _ qcc_ops (@one _ qcc_ops) (@dform _ qcc_ops MEv ex_eps tw4 2 ex_S ex_Vh 1 (@centerdc_bin 4 3))).
Proof.
  apply (@pseudo_positive _ qcc_ops qcc_laws qcc_ord tw4 MEv ex_eps 2%nat ex_S ex_Vh 1%nat (@centerdc_bin 4 3) 1%nat).
  - intros _. split; [|split].
    + split; [qcc_nn (cz (1,-26) (0,0))|intro E; inversion E].
    + split; [qcc_nn (cz (2,0) (0,0))|intro E; inversion E].
    + intros I H1 H2. assert (I = 1%nat) by lia. subst I. qcc_nn (cz (0,0) (0,0)).
  - lia.
  - lia.
  - intro E. vm_compute in E. inversion E.
Qed.
(* decisions: the three rules and four rejections on concrete arguments *)
Example decisions_example :
  @eigen_nsig _ qcc_ops MEv (Some (NInt 2)) None COther 7 20 5 16 [] = inr 2%nat
  /\ @eigen_nsig _ qcc_ops MMusic None (Some (cz (2,0) (0,0))) CAic 0 20 5 16 [cz (9,0) (0,0); cz (5,0) (0,0); cz (3,0) (0,0); cz (2,0) (0,0); cz (1,0) (0,0)] = inr 3%nat
  /\ @eigen_nsig _ qcc_ops MMusic None None CMdl 1 20 5 16 [cz (9,0) (0,0); cz (5,0) (0,0); cz (3,0) (0,0); cz (2,0) (0,0); cz (1,0) (0,0)] = inr 2%nat
  /\ @eigen_nsig _ qcc_ops MMusic None (Some (cz (1,-1) (0,0))) CAic 0 20 5 16 [] = inl EThreshold
  /\ @eigen_nsig _ qcc_ops MMusic (Some (NInt 5)) None CAic 0 20 5 16 [] = inl ENsigBig
  /\ @eigen_nsig _ qcc_ops MMusic (Some (NFlt 2 true)) None CAic 0 20 5 16 [] = inl ENsigType
  /\ @eigen_nsig _ qcc_ops MEv (Some (NInt 1)) (Some (cz (2,0) (0,0))) CAic 0 20 5 16 [] = inl EExclusive.
Proof. vm_compute. repeat split; reflexivity. Qed.

Print Assumptions fb_shape.
Print Assumptions fb_entries.
Print Assumptions fb_rank_factorisation.
Print Assumptions noise_polynomial_vanishes.
Print Assumptions noise_polynomial_vanishes_backward.
Print Assumptions noise_polynomial_converse.
Print Assumptions singular_vector_null.
Print Assumptions rank_bounds_singular_values.
Print Assumptions singular_values_rank.
Print Assumptions eigen_resolves.
Print Assumptions pseudo_nonneg.
Print Assumptions pseudo_positive.
Print Assumptions music_at_least_1_over_P.
Print Assumptions signal_space_choice.
Print Assumptions signal_space_rejects.
Print Assumptions signal_space_exclusive.
Print Assumptions threshold_keeps_noise.
Print Assumptions music_axis_eigen.
Print Assumptions music_axis_complex.
Print Assumptions music_axis_real.
