(* C17 — preliminary *)
Require Import Spectrum.Theory.Ops Spectrum.Theory.Sum Spectrum.Theory.Vec Spectrum.Theory.Order Spectrum.Theory.Dft
               Spectrum.Model.Eigen Spectrum.Proofs.EigenFB Spectrum.Proofs.EigenAxis Spectrum.Proofs.EigenTheory.
Section C17.
Context {F : Type} {OF : Ops F} {L : Laws OF}.
Local Open Scope F_scope.
Theorem signal_space_choice meth nsig (thr : option F) crit amin N P NFFT S ns :
  eigen_nsig meth nsig thr crit amin N P NFFT S = inr ns ->
  meth <> MOther /\ assert_ok N P = true /\ (ns < P -> P <= NFFT)%nat /\ choice_spec nsig thr crit amin P S ns.
Proof. exact (signal_space_choice_thm meth nsig thr crit amin N P NFFT S ns). Qed.
End C17.
Print Assumptions signal_space_choice.
