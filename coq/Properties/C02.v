(* C02 — Every estimator puts spectral values on the frequency axis it reports.  Statements only.

   PROVED:
     axis_counts            the reported axis has NFFT/2+1 (NFFT even) or (NFFT+1)/2 (NFFT odd) entries for one-sided
                            (real-data) spectra and NFFT entries for two-sided / centred ones, for every NFFT
     twosided_axis          entry k of the two-sided axis is bin k (frequency k*sampling/NFFT); one-sided likewise;
                            the centred axis is bin k - NFFT/2
     unit_sum_bound         |sum_n w_n u_n|^2 <= (sum_n w_n)^2 for non-negative weights w and unimodular u
                            (abstract ordered *-field: the triangle inequality without square roots)
     tone_at_its_bin        the windowed DFT of the on-grid exponential A*exp(2 pi i k n/NFFT) at bin k is A * sum(w)
     tone_peak              ... and at every other bin j its squared modulus is no larger: for every window with
                            non-negative samples, every N <= NFFT, every amplitude, the periodogram of a pure on-grid
                            exponential attains its maximum at the entry of bin k (any k in Z, i.e. both signs)
   NOT PROVED (search on the implementation only): the same for a tone "in noise"; the correlogram (follows from
   Wiener-Khinchin for the rectangular/biased case), covariance / modified covariance / MUSIC / EV exactness (C14, C17);
   "within one bin" for Burg, Yule-Walker, ARMA, minimum variance and "within the taper bandwidth" for multitaper are
   statements about perturbed non-linear estimators with no closed form; the per-class length / real / finite clauses. *)
Require Import Spectrum.Theory.Ops Spectrum.Theory.Sum Spectrum.Theory.Vec Spectrum.Theory.Order Spectrum.Theory.Dft
               Spectrum.Model.Convert Spectrum.Proofs.PeakTheory
               Spectrum.Instances.QcC Spectrum.Instances.QcCOrd Spectrum.Instances.QcCTw.
From Coq Require Import QArith Qcanon.

Theorem axis_counts (n : nat) :
  length (freq_bins One n) = (if Nat.even n then n / 2 + 1 else (n + 1) / 2)%nat
  /\ length (freq_bins Two n) = n /\ length (freq_bins Center n) = n.
Proof. unfold freq_bins. rewrite !map_length, !seq_length. cbn [flen]. repeat split. Qed.

Theorem twosided_axis (n k : nat) :
  ((k < n)%nat -> nth k (freq_bins Two n) 0%Z = Z.of_nat k /\ nth k (freq_bins Center n) 0%Z = (Z.of_nat k - Z.of_nat (n / 2))%Z)
  /\ ((k < flen One n)%nat -> nth k (freq_bins One n) 0%Z = Z.of_nat k).
Proof.
  unfold freq_bins. split; intros Hk.
  - split.
    + rewrite (nth_indep _ 0%Z (Z.of_nat 0)) by (rewrite map_length, seq_length; exact Hk).
      rewrite (map_nth (fun a => Z.of_nat a)), seq_nth by exact Hk. reflexivity.
    + rewrite (nth_indep _ 0%Z ((fun a => (Z.of_nat a - Z.of_nat (n / 2))%Z) O)) by (rewrite map_length, seq_length; exact Hk).
      rewrite (map_nth (fun a => (Z.of_nat a - Z.of_nat (n / 2))%Z)), seq_nth by exact Hk. reflexivity.
  - rewrite (nth_indep _ 0%Z (Z.of_nat 0)) by (rewrite map_length, seq_length; exact Hk).
    rewrite (map_nth (fun a => Z.of_nat a)), seq_nth by exact Hk. reflexivity.
Qed.

Section C02.
Context {F : Type} {OF : Ops F} {L : Laws OF} {OL : OrdLaws OF}.
Local Open Scope F_scope.

Theorem unit_sum_bound N (w u : nat -> F) :
  (forall n, (n < N)%nat -> nonneg (w n)) -> (forall n, (n < N)%nat -> nrm2 (u n) = 1) ->
  le (nrm2 (sumf N (fun n => w n * u n))) (sumf N w * sumf N w).
Proof. exact (weighted_unit_sum_bound N w u). Qed.

Context (n : nat) (tw : Z -> F) {T : Twiddle n tw} (n_pos : (0 < n)%nat).

Theorem tone_at_its_bin N (w : nat -> F) A (k : Z) :
  dftN tw N (fun j => w j * tone tw A k j) k = A * sumf N w.
Proof. exact (tone_dft_at_bin n tw n_pos N w A k). Qed.

Theorem tone_peak N (w : nat -> F) A (k j : Z) : (forall i, (i < N)%nat -> nonneg (w i)) ->
  le (nrm2 (dftN tw N (fun i => w i * tone tw A k i) j)) (nrm2 (dftN tw N (fun i => w i * tone tw A k i) k)).
Proof. exact (PeakTheory.tone_peak n tw n_pos N w A k j). Qed.
End C02.

(* non-vacuity: Gaussian rationals are an ordered *-field with an exact character of period 4 *)
Example ordered_instance : OrdLaws qcc_ops. Proof. exact qcc_ord. Qed.
Local Open Scope Z_scope.
Example tone_example :
  @dftN _ qcc_ops tw4 3 (fun j => @mul _ qcc_ops (cz (1,0) (0,0)) (@tone _ qcc_ops tw4 (cz (3,0) (1,0)) 1 j)) 1
  = @mul _ qcc_ops (cz (3,0) (1,0)) (cz (3,0) (0,0)).
Proof. apply qcc_eq_canon; vm_compute; reflexivity. Qed.

Print Assumptions axis_counts.
Print Assumptions twosided_axis.
Print Assumptions unit_sum_bound.
Print Assumptions tone_at_its_bin.
Print Assumptions tone_peak.
