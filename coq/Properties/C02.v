(* C02 — Every estimator puts spectral values on the frequency axis it reports.  Statements only.

   PROVED (abstract [ordered] *-field, abstract twiddle character of exact period NFFT, every NFFT >= 1 of both parities):
   -- the axis
     axis_counts            the reported axis has NFFT/2+1 (NFFT even) or (NFFT+1)/2 (NFFT odd) entries for one-sided
                            (real-data) spectra and NFFT entries for two-sided / centred ones
     twosided_axis          entry k of the two-sided axis is bin k (frequency k*sampling/NFFT); one-sided likewise; centred: k - NFFT/2
   -- lengths and placement, for every pipeline table (the generated-table instances are listed below)
     functional_lengths     what each functional estimator returns: speriodogram NFFT/2+1 | NFFT values, CORRELOGRAMPSD / arma2psd / minvar /
                            eigen / multitaper mean NFFT values (models of C01, C08, C16, C17, C19)
     pipeline_entry         entry j of ANY stored PSD = (one coefficient for the whole array) * (positive integer weight) * (functional
                            result at src_index j); src_index and weight are explicit for the four stores of the vocabulary
     pipeline_axis_halfslice  rows storing "first half times 2" (real) / the array (complex): length = len(default axis), entry j = coef * c * S[j]
     arma_class_axis        ... with S[j] = rho |B(w^j)|^2/|A(w^j)|^2 for the AR / MA / ARMA classes (guard A(w^j) <> 0: the code divides by it)
     minvar_class_axis      ... with S[j] = 1 / sum_k |A_k(w^j)|^2/P_k for the minimum-variance class (NFFT >= 2*order-1)
     multitaper_class_axis  the multitaper class: len(default axis) entries, entry b = [2pi/df] [2] * weighted mean of the eigenspectra at bin b
     class_models_agree     the class models of C17 (Eigen.class_psd: pmusic / pev) and C19 (Mtm.mt_fold: MultiTapering) ARE the interpreter's do_store at
                            the stores the generated table gives those classes (generated theorem store_rows): one stored array, two descriptions
   -- tone location, exact
     unit_sum_bound, tone_at_its_bin, tone_peak   (phase 1) |sum w_n u_n|^2 <= (sum w_n)^2; the windowed DFT of an on-grid exponential peaks at its bin
     periodogram_peak       speriodogram (model of the code: flags failing, real- or complex-data storage, any N <= NFFT, any window with
                            non-negative samples) on x_i = A exp(2 pi i k i/NFFT): every returned bin <= the returned bin congruent to k,
                            whose value is |A|^2 (sum w)^2 / N
     periodogram_class_peak the same for the Periodogram class after any history of __call__ / psd reads / window changes
     real_sinusoid_bins     rectangular window, N = NFFT: the transform of A w^(-ki) + conj(A) w^(ki) is NFFT*A at bin k, NFFT*conj(A) at bin -k, 0 elsewhere
     real_sinusoid_peak     hence for 2k <> 0 (mod NFFT) the bins congruent to k and -k are the (equal) maxima |A|^2 NFFT of speriodogram, all
                            other returned bins are exactly 0: the one-sided result peaks at the entry of |f|
     correlogram_peak       CORRELOGRAMPSD, rectangular lag window / biased / lag N-1 / NFFT >= 2N-1 (either back end): same peak, value |A|^2 N
                            (through C01 wiener_khinchin)
     music_axis_eigen / _complex / _real   C17's axis theorems with the bin written as the entry of Range's axis (freq_bins Center / Two / One)
     music_tone_exact       pmusic / pev, complex and real data, noiseless on-grid exponentials, NSIG = K, any SVD meeting svd_spec: every entry
                            is [scale] [2] 1/D(bin of entry), D >= 0 everywhere, and D = 0 exactly computed at every entry whose bin is
                            congruent to a true bin -- the reciprocal of the minimum of the denominator: the "infinite" maximum
                            (the code gets inf; the model's 1/0 is the totalised field's)
     music_no_other_zero    ... and D(b) > 0 (so 1/D(b) is finite and > 0) at EVERY bin b not congruent to a true bin: K+1 exponentials with distinct
                            nodes cannot all lie in the K-dimensional signal space (completeness of V + dependence of K+1 vectors in a K-span +
                            transposed Vandermonde).  With music_tone_exact: the zero set of D on the grid is exactly the set of true bins
     covar_tone_exact / modcovar_tone_exact   p distinct on-grid exponentials, order p, N >= 2p, any lstsq meeting lstsq_spec: e = 0 and the
                            denominator polynomial of arma2psd satisfies A(w^b) = 0 <-> b congruent to a true bin (mod NFFT)
     covar_tone_returns     the executed models (Gaussian elimination) do return (a, 0) on such data
     arma2psd_rho_zero      what the classes then store: rho = e/(N-p) = 0, arma2psd returns the ALL-ZERO spectrum in the totalised field
                            (the code evaluates 0/0 = nan at the true bins and 0 elsewhere): in exact arithmetic the location is carried by
                            the zero set of the denominator only; the stored PSD has no maximum.  The tone-in-noise clause is search-only.
   -- real / non-negative
     psd_nonneg_stored      any store, any table: coefficient >= 0 and functional result >= 0 at the source entry => stored entry >= 0 and real
     psd_nonneg_periodogram speriodogram bins >= 0 (any flags; scale factor >= 0 when scale_by_freq is True)
     psd_real_correlogram   CORRELOGRAMPSD values are real (numpy.real) for every window / lag / NFFT
     psd_nonneg_arma, psd_nonneg_minvar, psd_nonneg_multitaper, psd_nonneg_subspace   C08 arma2psd_nonneg, C16 minvar_positive,
                            C19 class_real_nonneg, C17 pseudo_positive collected under their guards
   PROVED over the GENERATED table (tools/props/_pipelines.py + tools/props/_c02_theorems.v.in, recompiled from the snapshot on every
   run by tools/props/C02.py through ctx.check_generated; listed in the evidence under these names):
     c02_table_complete     every class has exactly one row
     store_rows             the real- / complex-data store of every row (SAsIs | twosided_2_onesided | first half * 2 [reversed] | centerdc_2_twosided)
     default_axis           frequencies() (default side) has NFFT/2+1 | (NFFT+1)/2 | NFFT entries = length (freq_bins ...), entry j = j*sampling/NFFT,
                            in every reachable object state (constructed, sampling reassigned any number of times)
     pipeline_length        every class of the statement (pdaniell is not one), every NFFT >= 1, real / complex, scale_by_freq on / off:
                            length psd = length frequencies() (also after the psd setter ran) = the stated count
     pipeline_axis          pburg pyule pcovar pmodcovar parma pma pminvar MultiTapering: entry j = coef * c * S[j], c = 2 real / 1 complex, and
                            frequencies()[j] = j*sampling/NFFT
     pipeline_axis_fourier  Periodogram: entry j = coef * S[j]; pcorrelogram: coef * w_j * S[j], w_j = 1 at DC / even-NFFT Nyquist, else 2 (real data)
     pipeline_axis_subspace pmusic pev: entry j = coef * c * (centred functional result at the entry whose bin is congruent to j (complex) / is -j (real))
     pipeline_axis_unscaled scale_by_freq off: coef = 1/sampling (AR/MA/ARMA), sampling (minimum variance), 1 (the others)
   NOT PROVED (search on the implementation only): a tone IN NOISE for any class (exact for periodogram / correlogram / covariance / modified
   covariance / MUSIC / EV; "within one bin" for Burg, Yule-Walker, ARMA, minimum variance; "within the taper bandwidth" for multitaper;
   real sinusoid within the main lobe for windows other than the rectangular one / N < NFFT) -- statements about perturbed non-linear
   estimators with no closed form; the correlogram peak for other windows / lags;
   "finite" is expressed by the guards (denominator <> 0) of the formulas, binary64 overflow is not modelled; that each functional
   estimator's model is the code is tied by the correspondence runs of C01 / C08 / C14 / C16 / C17 / C19, not proved. *)
Require Import Spectrum.Theory.Ops Spectrum.Theory.Sum Spectrum.Theory.Vec Spectrum.Theory.Order Spectrum.Theory.Dft
               Spectrum.Model.Convert Spectrum.Proofs.PeakTheory
               Spectrum.Model.PipelineLib Spectrum.Proofs.PipelineTheory Spectrum.Proofs.PipelineAxis_C02
               Spectrum.Model.Corr Spectrum.Model.Periodogram Spectrum.Proofs.PeriodogramTheory
               Spectrum.Model.Arma2psd Spectrum.Proofs.Arma2psdTheory
               Spectrum.Model.Levinson Spectrum.Model.Burg Spectrum.Model.Minvar Spectrum.Proofs.MinvarFinal
               Spectrum.Model.Mtm Spectrum.Proofs.MtmTheory Spectrum.Proofs.MtmOrder
               Spectrum.Model.Ls Spectrum.Proofs.CovarTheory
               Spectrum.Model.Eigen Spectrum.Proofs.EigenFB Spectrum.Proofs.EigenTheory
               Spectrum.Proofs.FunctionalLen_C02 Spectrum.Proofs.ClassAxis_C02 Spectrum.Proofs.PeakClass_C02
               Spectrum.Proofs.SubspaceTone_C02 Spectrum.Proofs.SubspaceStrict_C02 Spectrum.Proofs.ToneExact_C02 Spectrum.Proofs.ClassModels_C02
               Spectrum.Instances.QcC Spectrum.Instances.QcCOrd Spectrum.Instances.QcCTw.
From Coq Require Import QArith Qcanon.

Theorem axis_counts (n : nat) :
  length (freq_bins One n) = (if Nat.even n then n / 2 + 1 else (n + 1) / 2)%nat
  /\ length (freq_bins Two n) = n /\ length (freq_bins Center n) = n.
Proof. unfold freq_bins. rewrite !map_length, !seq_length. cbn [flen]. repeat split. Qed.

Theorem twosided_axis (n k : nat) :
  ((k < n)%nat -> nth k (freq_bins Two n) 0%Z = Z.of_nat k /\ nth k (freq_bins Center n) 0%Z = (Z.of_nat k - Z.of_nat (n / 2))%Z)
  /\ ((k < flen One n)%nat -> nth k (freq_bins One n) 0%Z = Z.of_nat k).
Proof.
  unfold freq_bins. split; intros Hk.
  - split.
    + rewrite (nth_indep _ 0%Z (Z.of_nat 0)) by (rewrite map_length, seq_length; exact Hk).
      rewrite (map_nth (fun a => Z.of_nat a)), seq_nth by exact Hk. reflexivity.
    + rewrite (nth_indep _ 0%Z ((fun a => (Z.of_nat a - Z.of_nat (n / 2))%Z) O)) by (rewrite map_length, seq_length; exact Hk).
      rewrite (map_nth (fun a => (Z.of_nat a - Z.of_nat (n / 2))%Z)), seq_nth by exact Hk. reflexivity.
  - rewrite (nth_indep _ 0%Z (Z.of_nat 0)) by (rewrite map_length, seq_length; exact Hk).
    rewrite (map_nth (fun a => Z.of_nat a)), seq_nth by exact Hk. reflexivity.
Qed.

Section C02.
Context {F : Type} {OF : Ops F} {L : Laws OF} {OL : OrdLaws OF}.
Local Open Scope F_scope.

Theorem unit_sum_bound N (w u : nat -> F) :
  (forall n, (n < N)%nat -> nonneg (w n)) -> (forall n, (n < N)%nat -> nrm2 (u n) = 1) ->
  le (nrm2 (sumf N (fun n => w n * u n))) (sumf N w * sumf N w).
Proof. exact (weighted_unit_sum_bound N w u). Qed.

Context (n : nat) (tw : Z -> F) {T : Twiddle n tw} (n_pos : (0 < n)%nat).

Theorem tone_at_its_bin N (w : nat -> F) A (k : Z) :
  dftN tw N (fun j => w j * tone tw A k j) k = A * sumf N w.
Proof. exact (tone_dft_at_bin n tw n_pos N w A k). Qed.

Theorem tone_peak N (w : nat -> F) A (k j : Z) : (forall i, (i < N)%nat -> nonneg (w i)) ->
  le (nrm2 (dftN tw N (fun i => w i * tone tw A k i) j)) (nrm2 (dftN tw N (fun i => w i * tone tw A k i) k)).
Proof. exact (PeakTheory.tone_peak n tw n_pos N w A k j). Qed.

(* ---- the tone clauses on the models of the code ---- *)
Theorem periodogram_peak twopi (x w : list F) isreal dt sbf fs A (k : Z) j jk :
  py_eq_true dt = false -> py_is_true sbf = false -> (1 <= length x <= n)%nat ->
  is_tone tw x A k -> (forall i, (i < length x)%nat -> nonneg (nthF w i)) ->
  (j < nbins isreal n)%nat -> (jk < nbins isreal n)%nat -> (exists c : Z, Z.of_nat jk = k + c * Z.of_nat n)%Z ->
  let P := speriodogram tw twopi x w (Some n) isreal dt sbf fs in
  le (nthF P j) (nthF P jk)
  /\ nthF P jk = nrm2 (A * sumf (length x) (nthF w)) / ofnat (length x).
Proof. exact (speriodogram_peak_thm n tw n_pos twopi x w isreal dt sbf fs A k j jk). Qed.

Theorem periodogram_class_peak twopi (data : list F) isreal wn w fs a dt sbf (ops : list pop) A (k : Z) j jk :
  py_eq_true dt = false -> py_is_true sbf = false ->
  init_nfft a (length data) = n -> (1 <= length data <= n)%nat -> is_tone tw data A k ->
  let s := p_read tw twopi (fold_left (p_step tw twopi) ops (p_init data isreal wn w fs a dt sbf)) in
  (forall i, (i < length data)%nat -> nonneg (nthF (p_window s) i)) ->
  (j < nbins isreal n)%nat -> (jk < nbins isreal n)%nat -> (exists c : Z, Z.of_nat jk = k + c * Z.of_nat n)%Z ->
  exists psd, p_psd s = Some psd /\ length psd = nbins isreal n /\ p_NFFT s = n /\ le (nthF psd j) (nthF psd jk).
Proof. exact (periodogram_class_peak_thm n tw n_pos twopi data isreal wn w fs a dt sbf ops A k j jk). Qed.

Theorem real_sinusoid_bins (A : F) (k j : Z) :
  dftN tw n (fun i => A * tw (- (k * Z.of_nat i))%Z + conj A * tw (k * Z.of_nat i)%Z) j
  = (if ((j - k) mod Z.of_nat n =? 0)%Z then ofnat n else 0) * A + (if ((j + k) mod Z.of_nat n =? 0)%Z then ofnat n else 0) * conj A.
Proof. exact (real_sinusoid_bins_thm n tw n_pos A k j). Qed.

Theorem real_sinusoid_peak twopi (x w : list F) isreal dt sbf fs (A : F) (k : Z) j jk :
  py_eq_true dt = false -> py_is_true sbf = false -> length x = n ->
  (forall i, (i < n)%nat -> nthF x i = A * tw (- (k * Z.of_nat i))%Z + conj A * tw (k * Z.of_nat i)%Z) ->
  (forall i, (i < n)%nat -> nthF w i = 1) ->
  ((2 * k) mod Z.of_nat n <> 0)%Z ->
  (j < nbins isreal n)%nat -> (jk < nbins isreal n)%nat ->
  (((Z.of_nat jk - k) mod Z.of_nat n = 0)%Z \/ ((Z.of_nat jk + k) mod Z.of_nat n = 0)%Z) ->
  let P := speriodogram tw twopi x w (Some n) isreal dt sbf fs in
  nthF P jk = nrm2 A * ofnat n
  /\ le (nthF P j) (nthF P jk)
  /\ (((Z.of_nat j - k) mod Z.of_nat n <> 0)%Z -> ((Z.of_nat j + k) mod Z.of_nat n <> 0)%Z -> nthF P j = 0).
Proof. exact (real_sinusoid_peak_thm n tw n_pos twopi x w isreal dt sbf fs A k j jk). Qed.

Theorem correlogram_peak rp (x wfull : list F) be A (k : Z) j jk :
  (1 <= length x)%nat -> (2 * length x - 1 <= n)%nat -> is_tone tw x A k ->
  (forall d, (d < length x - 1)%nat -> nthF wfull (length x + d) = 1) ->
  (j < n)%nat -> (jk < n)%nat -> (exists c : Z, Z.of_nat jk = k + c * Z.of_nat n)%Z ->
  exists psd, correlogram tw rp x None (length x - 1) wfull (Some n) Biased be = Some psd /\ length psd = n
    /\ le (nthF psd j) (nthF psd jk)
    /\ nthF psd jk = nrm2 A * ofnat (length x).
Proof. exact (correlogram_peak_thm n tw n_pos rp x wfull be A k j jk). Qed.

(* ---- MUSIC / EV and covariance / modified covariance: noiseless exact location ---- *)
Theorem music_tone_exact meth eps crit amin (x : list F) (P K : nat) (A z : nat -> F) (bin : nat -> Z)
        (S : list F) (Vh : list (list F)) isr scale psd ev :
  (forall i, (i < length x)%nat -> nthF x i = expsig K A z i) ->
  (forall i, (i < K)%nat -> z i = tw (- bin i)%Z) ->
  (K <= np_of (length x) P)%nat -> EigenFB.distinct K z -> (forall i, (i < K)%nat -> A i <> 0) ->
  svd_spec (fb_matrix x P) (2 * np_of (length x) P) P S Vh ->
  (meth = MEv -> pos eps /\ pos (nthF S 0)) ->
  pclass meth eps isr scale (Some (NInt (Z.of_nat K))) None crit amin tw n x P S Vh = inr (psd, ev) ->
  let D := dform meth eps tw P S Vh K in
  ev = S /\ length psd = (if isr then n / 2 + 1 else n)%nat /\ (K < P)%nat
  /\ (forall j, (j < length psd)%nat -> nthF psd j = entry_val isr scale (D (entry_bin isr j)) /\ nonneg (D (entry_bin isr j)))
  /\ (forall i j (c : Z), (i < K)%nat -> (j < length psd)%nat -> entry_bin isr j = (bin i + c * Z.of_nat n)%Z ->
        D (entry_bin isr j) = 0 /\ forall b : Z, le (D (entry_bin isr j)) (D b)).
Proof. exact (music_tone_exact_thm tw n n_pos meth eps crit amin x P K A z bin S Vh isr scale psd ev). Qed.

Theorem music_no_other_zero meth eps (x : list F) (P K : nat) (A z : nat -> F) (bin : nat -> Z) (S : list F) (Vh : list (list F)) (b : Z) :
  (forall i, (i < length x)%nat -> nthF x i = expsig K A z i) ->
  (forall i, (i < K)%nat -> z i = tw (- bin i)%Z) ->
  (K <= np_of (length x) P)%nat -> EigenFB.distinct K z -> (forall i, (i < K)%nat -> A i <> 0) ->
  svd_spec (fb_matrix x P) (2 * np_of (length x) P) P S Vh -> (K < P)%nat ->
  (meth = MEv -> pos eps /\ pos (nthF S 0)) ->
  (forall i, (i < K)%nat -> ((b - bin i) mod Z.of_nat n <> 0)%Z) ->
  pos (dform meth eps tw P S Vh K b) /\ pos (1 / dform meth eps tw P S Vh K b).
Proof. exact (fun Hx Hg HK Hd HA Hs HKP Hev => music_no_other_zero_thm tw n n_pos x P K A z bin S Vh meth eps Hx Hg HK Hd HA Hs HKP Hev b). Qed.

Theorem covar_tone_exact (x : list F) (p : nat) (amp : nat -> F) (bin : nat -> Z) lstsq tol a e :
  (forall t, (t < length x)%nat -> nthF x t = expsum p amp (fun i => tw (- bin i)%Z) t) ->
  (forall i j, (i < j < p)%nat -> ((bin i - bin j) mod Z.of_nat n <> 0)%Z) ->
  (forall i, (i < p)%nat -> amp i <> 0) -> (2 * p <= length x)%nat ->
  lstsq_spec lstsq -> arcovar_with lstsq tol x p = Some (a, e) ->
  e = 0 /\ length a = p
  /\ (forall i (c : Z), (i < p)%nat -> polyz tw a (bin i + c * Z.of_nat n)%Z = 0)
  /\ (forall b : Z, (forall i, (i < p)%nat -> ((b - bin i) mod Z.of_nat n <> 0)%Z) -> polyz tw a b <> 0).
Proof. exact (fun Hx Hb Ha HN => covar_tone_exact_thm n tw n_pos x p amp bin Hx Hb Ha HN lstsq tol a e). Qed.

Theorem modcovar_tone_exact (x : list F) (p : nat) (amp : nat -> F) (bin : nat -> Z) lstsq tol a e :
  (forall t, (t < length x)%nat -> nthF x t = expsum p amp (fun i => tw (- bin i)%Z) t) ->
  (forall i j, (i < j < p)%nat -> ((bin i - bin j) mod Z.of_nat n <> 0)%Z) ->
  (forall i, (i < p)%nat -> amp i <> 0) -> (2 * p <= length x)%nat ->
  lstsq_spec lstsq -> modcovar_with lstsq tol x p = Some (a, e) ->
  e = 0 /\ length a = p
  /\ (forall i (c : Z), (i < p)%nat -> polyz tw a (bin i + c * Z.of_nat n)%Z = 0)
  /\ (forall b : Z, (forall i, (i < p)%nat -> ((b - bin i) mod Z.of_nat n <> 0)%Z) -> polyz tw a b <> 0).
Proof. exact (fun Hx Hb Ha HN => modcovar_tone_exact_thm n tw n_pos x p amp bin Hx Hb Ha HN lstsq tol a e). Qed.

Theorem covar_tone_returns (x : list F) (p : nat) (amp : nat -> F) (bin : nat -> Z) tol :
  (forall t, (t < length x)%nat -> nthF x t = expsum p amp (fun i => tw (- bin i)%Z) t) ->
  (forall i j, (i < j < p)%nat -> ((bin i - bin j) mod Z.of_nat n <> 0)%Z) ->
  (forall i, (i < p)%nat -> amp i <> 0) -> (2 * p <= length x)%nat ->
  (exists a, arcovar tol x p = Some (a, 0) /\ length a = p) /\ (exists a, modcovar tol x p = Some (a, 0) /\ length a = p).
Proof.
  exact (fun Hx Hb Ha HN => Logic.conj (ToneExact_C02.covar_tone_returns n tw n_pos x p amp bin Hx Hb Ha HN tol)
                                       (ToneExact_C02.modcovar_tone_returns n tw n_pos x p amp bin Hx Hb Ha HN tol)).
Qed.
End C02.


(* ---- lengths and placement ---- *)
Section C02axis.
Context {F : Type} {OF : Ops F} {L : Laws OF}.
Local Open Scope F_scope.

Theorem functional_lengths (n : nat) : (1 <= n)%nat ->
  (forall tw twopi (x w : list F) isreal dt sbf fs,
     length (speriodogram tw twopi x w (Some n) isreal dt sbf fs) = fest_len Periodogram isreal n)
  /\ (forall tw rp (x : list F) y lag wfull nm be l real,
     correlogram tw rp x y lag wfull (Some n) nm be = Some l -> length l = fest_len Pcorrelogram real n)
  /\ (forall tw A B (rho T : F) sides norm psd real c,
     arma2psd tw A B rho T n sides norm = Some psd -> group_of c = GModel -> length psd = fest_len c real n)
  /\ (forall tw (x : list F) m s psd A ks real,
     minvar tw x m s n = Some (psd, A, ks) -> length psd = fest_len Pminvar real n)
  /\ (forall meth eps nsig thr crit amin tw (x : list F) P S Vh psd ev real c,
     eigen meth eps nsig thr crit amin tw n x P S Vh = inr (psd, ev) -> (c = Pmusic \/ c = Pev) -> length psd = fest_len c real n)
  /\ (forall m (Skc w : list (list F)) nwin real, length (mt_mean m Skc w nwin n) = fest_len MultiTapering real n).
Proof. exact (functional_lengths_thm n). Qed.

Theorem pipeline_entry (twopi : F) m p (real : bool) sbf (s : sstate) (Sp : list F) j :
  let st := if real then p_real p else p_cplx p in
  (j < length (stored twopi m p real sbf s Sp))%nat ->
  nthF (stored twopi m p real sbf s Sp) j
  = coef twopi m p real sbf s (length (PipelineLib.layout p real (st_NFFT s) Sp))
    * (src_weight st (length Sp) j * nthF Sp (src_index st (st_NFFT s) (length Sp) j)).
Proof. exact (stored_entry twopi m p real sbf s Sp j). Qed.

Theorem pipeline_axis_halfslice (twopi : F) m p real sbf (s : sstate) (Sp : list F) j :
  p_real p = SHalf HalfPlus1 HalfUp 2 false -> p_cplx p = SAsIs ->
  (1 <= st_NFFT s)%nat -> length Sp = st_NFFT s -> (j < axis_len real (st_NFFT s))%nat ->
  length (stored twopi m p real sbf s Sp) = axis_len real (st_NFFT s) /\
  nthF (stored twopi m p real sbf s Sp) j
  = coef twopi m p real sbf s (axis_len real (st_NFFT s)) * ((if real then ofnat 2 else 1) * nthF Sp j).
Proof. exact (stored_entry_halfslice twopi m p real sbf s Sp j). Qed.

Theorem arma_class_axis (twopi : F) (n : nat) (tw : Z -> F) (Tw : Twiddle n tw) m p real sbf (s : sstate) A B rho S1 j :
  p_real p = SHalf HalfPlus1 HalfUp 2 false -> p_cplx p = SAsIs ->
  st_NFFT s = n -> (1 <= n)%nat -> isreal rho ->
  arma2psd tw A B rho 1 n SidesDefault false = Some S1 ->
  (j < axis_len real n)%nat -> polyz_opt tw A (Z.of_nat j) <> 0 ->
  length (stored twopi m p real sbf s S1) = axis_len real n /\
  nthF (stored twopi m p real sbf s S1) j
  = coef twopi m p real sbf s (axis_len real n)
    * ((if real then ofnat 2 else 1) * (rho / 1 * nrm2 (polyz_opt tw B (Z.of_nat j)) / nrm2 (polyz_opt tw A (Z.of_nat j)))).
Proof. exact (arma_class_axis_thm twopi n tw m p real sbf s A B rho S1 j). Qed.

Theorem minvar_class_axis (twopi : F) (n : nat) (tw : Z -> F) (Tw : Twiddle n tw) m p real sbf (s : sstate) (x : list F) order S1 A ks j :
  p_real p = SHalf HalfPlus1 HalfUp 2 false -> p_cplx p = SAsIs ->
  st_NFFT s = n -> ofnat (length x) <> 0 -> (2 * order - 1 <= n)%nat ->
  minvar tw x order 1 n = Some (S1, A, ks) ->
  (j < axis_len real n)%nat ->
  length (stored twopi m p real sbf s S1) = axis_len real n /\
  nthF (stored twopi m p real sbf s S1) j
  = coef twopi m p real sbf s (axis_len real n)
    * ((if real then ofnat 2 else 1) * (1 / capon_sum tw (mean_power x) ks (Z.of_nat j))).
Proof. exact (minvar_class_axis_thm twopi n tw m p real sbf s x order S1 A ks j). Qed.

Theorem multitaper_class_axis {NWT : Type} (dpss : nat -> NWT -> option nat -> list (list F) * list F)
  fuel tw isr (x : list F) NW k nfft e v m sbf scale psd :
  mt_call dpss fuel tw isr x NW k nfft e v m sbf scale = Some psd ->
  let n := match nfft with Some n => n | None => length x end in
  (1 <= n)%nat ->
  exists Skc w ev,
    pmtm dpss fuel tw x NW k (Some n) e v m = Some (Skc, w, ev) /\
    length psd = axis_len isr n /\ length psd = length (freq_bins (if isr then One else Two) n) /\
    forall b, (b < axis_len isr n)%nat ->
      nthF psd b = (fun a => if sbf then a * scale else a)
                     ((fun a => if isr then a * two else a) (wmean m Skc w (length ev) b)).
Proof. exact (multitaper_class_axis_thm dpss fuel tw isr x NW k nfft e v m sbf scale psd). Qed.

Theorem music_axis_eigen (tw : Z -> F) (NFFT : nat) (T : Twiddle NFFT tw) (Hpos : (0 < NFFT)%nat)
        meth eps nsig thr crit amin (x : list F) (P : nat) (S : list F) (Vh : list (list F)) psd ev :
  (forall I, (I < P)%nat -> length (mrow Vh I) = P) ->
  eigen meth eps nsig thr crit amin tw NFFT x P S Vh = inr (psd, ev) ->
  exists ns, eigen_nsig meth nsig thr crit amin (length x) P NFFT S = inr ns /\ ev = S /\ length psd = length (freq_bins Center NFFT) /\
    forall j, (j < NFFT)%nat -> nthF psd j = 1 / dform meth eps tw P S Vh ns (nth j (freq_bins Center NFFT) 0%Z).
Proof. exact (fun Hrows => music_axis_eigen_c02 tw NFFT Hpos meth eps nsig thr crit amin x P S Vh Hrows psd ev). Qed.

Theorem music_axis_complex (tw : Z -> F) (NFFT : nat) (T : Twiddle NFFT tw) (Hpos : (0 < NFFT)%nat)
        meth eps nsig thr crit amin (x : list F) (P : nat) (S : list F) (Vh : list (list F)) scale psd ev :
  (forall I, (I < P)%nat -> length (mrow Vh I) = P) ->
  pclass meth eps false scale nsig thr crit amin tw NFFT x P S Vh = inr (psd, ev) ->
  exists ns, eigen_nsig meth nsig thr crit amin (length x) P NFFT S = inr ns /\ ev = S /\ length psd = length (freq_bins Two NFFT) /\
    forall j, (j < NFFT)%nat -> nthF psd j = scaled scale (1 / dform meth eps tw P S Vh ns (nth j (freq_bins Two NFFT) 0%Z)).
Proof. exact (fun Hrows => music_axis_complex_c02 tw NFFT Hpos meth eps nsig thr crit amin x P S Vh Hrows scale psd ev). Qed.

Theorem music_axis_real (tw : Z -> F) (NFFT : nat) (T : Twiddle NFFT tw) (Hpos : (0 < NFFT)%nat)
        meth eps nsig thr crit amin (x : list F) (P : nat) (S : list F) (Vh : list (list F)) scale psd ev :
  (forall I, (I < P)%nat -> length (mrow Vh I) = P) ->
  pclass meth eps true scale nsig thr crit amin tw NFFT x P S Vh = inr (psd, ev) ->
  exists ns, eigen_nsig meth nsig thr crit amin (length x) P NFFT S = inr ns /\ ev = S /\ length psd = length (freq_bins One NFFT) /\
    forall j, (j < length (freq_bins One NFFT))%nat ->
      nthF psd j = scaled scale (1 / dform meth eps tw P S Vh ns (- nth j (freq_bins One NFFT) 0%Z)%Z * two)
      /\ ((forall I m, conj (mat Vh I m) = mat Vh I m) ->
          nthF psd j = scaled scale (1 / dform meth eps tw P S Vh ns (nth j (freq_bins One NFFT) 0%Z) * two)).
Proof. exact (fun Hrows => music_axis_real_c02 tw NFFT Hpos meth eps nsig thr crit amin x P S Vh Hrows scale psd ev). Qed.

Theorem arma2psd_rho_zero (tw : Z -> F) A B T n : admissible A B n ->
  exists psd, arma2psd tw A B 0 T n SidesDefault false = Some psd /\ length psd = n /\ forall k, (k < n)%nat -> nthF psd k = 0.
Proof. exact (ToneExact_C02.arma2psd_rho_zero tw A B T n). Qed.

Theorem class_models_agree (isr : bool) NFFT (l : list F) :
  class_psd isr NFFT None l = do_store (if isr then SHalf HalfPlus1 HalfUp 2 true else SCenter2Two) NFFT l
  /\ mt_fold isr NFFT l = do_store (if isr then SHalf HalfPlus1 HalfUp 2 false else SAsIs) NFFT l.
Proof. exact (Logic.conj (eigen_class_is_store isr NFFT l) (mtm_fold_is_store isr NFFT l)). Qed.
End C02axis.

(* ---- real / non-negative ---- *)
Section C02nonneg.
Context {F : Type} {OF : Ops F} {L : Laws OF} {OL : OrdLaws OF}.
Local Open Scope F_scope.

Theorem psd_nonneg_stored (twopi : F) m p (real : bool) sbf (s : sstate) (Sp : list F) j :
  let st := if real then p_real p else p_cplx p in
  (j < length (stored twopi m p real sbf s Sp))%nat ->
  (match st with STwo2One => 1 <= length Sp | _ => True end)%nat ->
  nonneg (coef twopi m p real sbf s (length (PipelineLib.layout p real (st_NFFT s) Sp))) ->
  nonneg (nthF Sp (src_index st (st_NFFT s) (length Sp) j)) ->
  nonneg (nthF (stored twopi m p real sbf s Sp) j) /\ isreal (nthF (stored twopi m p real sbf s Sp) j).
Proof. exact (stored_nonneg_thm twopi m p real sbf s Sp j). Qed.

Theorem psd_nonneg_periodogram tw twopi (x w : list F) NFFT isreal dt sbf fs k :
  let n := resolve NFFT (length x) in
  (1 <= n)%nat -> (1 <= length x)%nat -> (k < nbins isreal n)%nat ->
  (py_is_true sbf = true -> nonneg (sbf_factor twopi fs n)) ->
  nonneg (nthF (speriodogram tw twopi x w NFFT isreal dt sbf fs) k).
Proof. exact (speriodogram_nonneg_thm tw twopi x w NFFT isreal dt sbf fs k). Qed.

Theorem psd_real_correlogram tw rp (x : list F) y lag wfull NFFT nm be l k :
  correlogram tw rp x y lag wfull NFFT nm be = Some l -> isreal (nthF l k).
Proof. exact (correlogram_real_thm tw rp x y lag wfull NFFT nm be l k). Qed.

Theorem psd_nonneg_arma (n : nat) (tw : Z -> F) (Tw : Twiddle n tw) A B rho T psd :
  pos rho -> pos T ->
  arma2psd tw A B rho T n SidesDefault false = Some psd ->
  forall k, (k < n)%nat -> polyz_opt tw A (Z.of_nat k) <> 0 -> nonneg (nthF psd k).
Proof. exact (arma2psd_nonneg_thm n tw A B rho T psd). Qed.

Theorem psd_nonneg_minvar nfft (tw : Z -> F) (T : Twiddle nfft tw) (x : list F) m s psd A ks :
  (2 * m - 1 <= nfft)%nat -> pos s ->
  minvar tw x m s nfft = Some (psd, A, ks) ->
  forall f, (f < nfft)%nat -> pos (nthF psd f) /\ conj (nthF psd f) = nthF psd f.
Proof. exact (fun Hn Hs H => proj2 (minvar_positive_thm nfft tw x m s psd A ks Hn Hs H)). Qed.

Theorem psd_nonneg_multitaper {NWT : Type} (dpss : nat -> NWT -> option nat -> list (list F) * list F)
  fuel tw isr (x : list F) NW k nfft e v m sbf scale psd Skc w ev :
  let n := match nfft with Some n => n | None => length x end in
  mt_call dpss fuel tw isr x NW k nfft e v m sbf scale = Some psd ->
  pmtm dpss fuel tw x NW k (Some n) e v m = Some (Skc, w, ev) ->
  (1 <= length ev)%nat ->
  (forall j b, (j < length ev)%nat -> (b < n)%nat -> nonneg (wt m w j b)) ->
  (sbf = true -> nonneg scale) ->
  forall b, (b < length psd)%nat -> nonneg (nthF psd b) /\ isreal (nthF psd b).
Proof. exact (class_real_nonneg_thm dpss fuel tw isr x NW k nfft e v m sbf scale psd Skc w ev). Qed.

Theorem psd_nonneg_subspace (tw : Z -> F) meth eps (P : nat) (S : list F) (Vh : list (list F)) (ns : nat) (b : Z) (I : nat) :
  (meth = MEv -> pos eps /\ pos (nthF S 0) /\ forall I, (ns <= I)%nat -> (I < P)%nat -> nonneg (nthF S I)) ->
  (ns <= I)%nat -> (I < P)%nat -> dftN tw P (rsv Vh I) b <> 0 ->
  pos (dform meth eps tw P S Vh ns b) /\ pos (1 / dform meth eps tw P S Vh ns b).
Proof. exact (fun Hw => pseudo_value_pos tw meth eps P S Vh ns Hw b I). Qed.
End C02nonneg.

(* non-vacuity: Gaussian rationals are an ordered *-field with an exact character of period 4 *)
Example ordered_instance : OrdLaws qcc_ops. Proof. exact qcc_ord. Qed.
Local Open Scope Z_scope.
Example tone_example :
  @dftN _ qcc_ops tw4 3 (fun j => @mul _ qcc_ops (cz (1,0) (0,0)) (@tone _ qcc_ops tw4 (cz (3,0) (1,0)) 1 j)) 1
  = @mul _ qcc_ops (cz (3,0) (1,0)) (cz (3,0) (0,0)).
Proof. apply qcc_eq_canon; vm_compute; reflexivity. Qed.


(* ---- the new theorems on concrete Gaussian-rational inputs (exact character of period 4: tw4 a = (-i)^a) ---- *)
Local Existing Instance qcc_ops.
Ltac qcc_eq := apply qcc_eq_canon; vm_compute; reflexivity.
Ltac qcc_nn r := apply (@nonneg_eq _ qcc_ops qcc_ord (@nrm2 _ qcc_ops r)); [qcc_eq|apply (@nn_nrm2 _ qcc_ops qcc_ord)].
Definition q1 : QcC := cz (1,0) (0,0).
Definition exA : QcC := cz (3,0) (1,0).                                     (* 3 + i *)
Definition ex_tone : list QcC := mk 3 (@tone _ qcc_ops tw4 exA 1).          (* A * i^t, t = 0,1,2: bin 1 of the 4-point grid, N = 3 < NFFT *)
Definition ex_win : list QcC := [cz (1,-1) (0,0); q1; cz (1,-1) (0,0)].     (* 1/2, 1, 1/2 *)
Definition ex_P : list QcC := @speriodogram _ qcc_ops tw4 q1 ex_tone ex_win (Some 4%nat) false PyFalse PyFalse q1.
(* by evaluation: the four bins are 0, |A|^2 2^2/3 = 40/3, 0 ... the maximum sits at entry 1 *)
Example periodogram_peak_values :
  forallb (fun j => Qcleb (fst (nthF ex_P j)) (fst (nthF ex_P 1))) (seq 0 4) = true
  /\ nthF ex_P 1 = @Ops.div _ qcc_ops (cz (40,0) (0,0)) (cz (3,0) (0,0)).
Proof. split; [vm_compute; reflexivity|qcc_eq]. Qed.
(* and the hypotheses of periodogram_peak are jointly satisfiable: the theorem applied to this input *)
Example periodogram_peak_applies (j : nat) : (j < 4)%nat -> @le _ qcc_ops qcc_ord (nthF ex_P j) (nthF ex_P 1).
Proof.
  intros Hj. assert (Hpos : (0 < 4)%nat) by lia.
  refine (proj1 (@periodogram_peak _ qcc_ops qcc_laws qcc_ord 4%nat tw4 tw4_twiddle Hpos q1 ex_tone ex_win false PyFalse PyFalse q1 exA 1 j 1%nat
                   eq_refl eq_refl _ _ _ _ _ _)).
  - cbn. lia.
  - intros i Hi. unfold ex_tone in *. rewrite mk_length in Hi. rewrite nth_mk by exact Hi. reflexivity.
  - intros i Hi. cbn in Hi. destruct i as [|[|[|i]]]; [qcc_nn (cz (1,-1) (1,-1))|qcc_nn q1|qcc_nn (cz (1,-1) (1,-1))|lia].
  - exact Hj.
  - cbn. lia.
  - exists 0. reflexivity.
Qed.
(* real sinusoid A i^t + conj(A) (-i)^t on the whole 4-point grid, rectangular window: bins 1 and 3 hold |A|^2 * 4 = 40, bins 0 and 2 are 0;
   the one-sided (real-data) result has its maximum at entry 1 *)
Definition ex_sin : list QcC := mk 4 (fun t => @add _ qcc_ops (@mul _ qcc_ops exA (tw4 (- (1 * Z.of_nat t)))) (@mul _ qcc_ops (@conj _ qcc_ops exA) (tw4 (1 * Z.of_nat t)))).
Example real_sinusoid_values :
  @speriodogram _ qcc_ops tw4 q1 ex_sin [q1; q1; q1; q1] (Some 4%nat) false PyFalse PyFalse q1
    = [@zero _ qcc_ops; cz (40,0) (0,0); @zero _ qcc_ops; cz (40,0) (0,0)]
  /\ @speriodogram _ qcc_ops tw4 q1 ex_sin [q1; q1; q1; q1] (Some 4%nat) true PyFalse PyFalse q1
    = [@zero _ qcc_ops; cz (40,0) (0,0); @zero _ qcc_ops].
Proof. split; vm_compute; reflexivity. Qed.
(* covariance method, order 1, on the noiseless exponential A i^t (N = 4 >= 2p): the executed model returns a = [-i], e = 0; the
   denominator polynomial 1 + a_0 w^b vanishes at bin 1 only; rho = 0 and arma2psd returns the all-zero spectrum *)
Definition ex_exp : list QcC := mk 4 (@tone _ qcc_ops tw4 exA 1).
Definition tol4 : QcC := (Q2Qc (1 # 10000), Q2Qc 0).
Example covar_tone_values :
  @arcovar _ qcc_ops tol4 ex_exp 1 = Some ([cz (0,0) (-1,0)], @zero _ qcc_ops)
  /\ @modcovar _ qcc_ops tol4 ex_exp 1 = Some ([cz (0,0) (-1,0)], @zero _ qcc_ops)
  /\ map (fun b => @polyz _ qcc_ops tw4 [cz (0,0) (-1,0)] (Z.of_nat b)) (seq 0 4)
     = [cz (1,0) (-1,0); @zero _ qcc_ops; cz (1,0) (1,0); cz (2,0) (0,0)]
  /\ @arma2psd _ qcc_ops tw4 (Some [cz (0,0) (-1,0)]) None (@zero _ qcc_ops) q1 4 SidesDefault false
     = Some [@zero _ qcc_ops; @zero _ qcc_ops; @zero _ qcc_ops; @zero _ qcc_ops].
Proof. repeat split; vm_compute; reflexivity. Qed.
(* pmusic on the noiseless constant (1+i) * 1^t (K = 1, true bin 0; exact SVD of its 4 x 2 data matrix as in Properties/C17.v): the complex-data
   class stores 1/D at the two-sided bins 0,1,2,3 with D = 0, 1, 2, 1 -- the entry of the true bin is the reciprocal of an exact zero (reads 0 in the
   totalised field of the model, inf in the code); real-data storage: twice the values at bins 0,-1,-2 *)
Definition ex_mx : list QcC := [cz (1,0) (1,0); cz (1,0) (1,0); cz (1,0) (1,0); cz (1,0) (1,0)].
Definition ex_mS : list QcC := [cz (4,0) (0,0); cz (0,0) (0,0)].
Definition ex_mVh : list (list QcC) := [[cz (1,-1) (-1,-1); cz (1,-1) (-1,-1)]; [cz (1,-1) (-1,-1); cz (-1,-1) (1,-1)]].
Example music_class_values :
  map (fun b => @dform _ qcc_ops MMusic (cz (1,-52) (0,0)) tw4 2 ex_mS ex_mVh 1 (Z.of_nat b)) (seq 0 4)
    = [@zero _ qcc_ops; cz (1,0) (0,0); cz (2,0) (0,0); cz (1,0) (0,0)]
  /\ @pclass _ qcc_ops MMusic (cz (1,-52) (0,0)) false None (Some (NInt 1)) None CAic 0 tw4 4 ex_mx 2 ex_mS ex_mVh
    = inr ([@zero _ qcc_ops; cz (1,0) (0,0); cz (1,-1) (0,0); cz (1,0) (0,0)], ex_mS)
  /\ @pclass _ qcc_ops MMusic (cz (1,-52) (0,0)) true None (Some (NInt 1)) None CAic 0 tw4 4 ex_mx 2 ex_mS ex_mVh
    = inr ([@zero _ qcc_ops; cz (2,0) (0,0); cz (1,0) (0,0)], ex_mS).
Proof. repeat split; vm_compute; reflexivity. Qed.
(* the store vocabulary: where the entries of a 4-point result land *)
Example store_indices :
  map (src_index SCenter2Two 4 4) (seq 0 4) = [2; 3; 0; 1]%nat
  /\ map (src_index (SHalf HalfPlus1 HalfUp 2 true) 4 4) (seq 0 3) = [2; 1; 0]%nat
  /\ map (src_index (SHalf HalfPlus1 HalfUp 2 true) 5 5) (seq 0 3) = [2; 1; 0]%nat
  /\ map (src_index (SHalf HalfPlus1 HalfUp 2 false) 5 5) (seq 0 3) = [0; 1; 2]%nat.
Proof. repeat split; reflexivity. Qed.

Print Assumptions axis_counts.
Print Assumptions twosided_axis.
Print Assumptions unit_sum_bound.
Print Assumptions tone_at_its_bin.
Print Assumptions tone_peak.
Print Assumptions periodogram_peak.
Print Assumptions periodogram_class_peak.
Print Assumptions real_sinusoid_bins.
Print Assumptions real_sinusoid_peak.
Print Assumptions correlogram_peak.
Print Assumptions music_tone_exact.
Print Assumptions music_no_other_zero.
Print Assumptions covar_tone_exact.
Print Assumptions modcovar_tone_exact.
Print Assumptions covar_tone_returns.
Print Assumptions functional_lengths.
Print Assumptions pipeline_entry.
Print Assumptions pipeline_axis_halfslice.
Print Assumptions arma_class_axis.
Print Assumptions minvar_class_axis.
Print Assumptions multitaper_class_axis.
Print Assumptions music_axis_eigen.
Print Assumptions music_axis_complex.
Print Assumptions music_axis_real.
Print Assumptions arma2psd_rho_zero.
Print Assumptions class_models_agree.
Print Assumptions psd_nonneg_stored.
Print Assumptions psd_nonneg_periodogram.
Print Assumptions psd_real_correlogram.
Print Assumptions psd_nonneg_arma.
Print Assumptions psd_nonneg_minvar.
Print Assumptions psd_nonneg_multitaper.
Print Assumptions psd_nonneg_subspace.
