(* Gaussian rationals Qc * Qc: the exact, vm_compute-able instance used by the
   correspondence check, the Examples and the refutation witnesses.  It satisfies
   [Laws], so every abstract theorem applies to the instance that is executed. *)
From Coq Require Import QArith Qcanon Qfield Psatz.
Require Import Spectrum.Theory.Ops.

Definition QcC := (Qc * Qc)%type.
Local Open Scope Qc_scope.

Definition qcc_inv (a : QcC) : QcC :=
  let d := fst a * fst a + snd a * snd a in (fst a / d, - snd a / d).
Definition qcc_mul (a b : QcC) : QcC :=
  (fst a * fst b - snd a * snd b, fst a * snd b + snd a * fst b).

Definition qcc_ops : Ops QcC := {|
  zero := (0, 0); one := (1, 0);
  add := fun a b => (fst a + fst b, snd a + snd b);
  mul := qcc_mul;
  sub := fun a b => (fst a - fst b, snd a - snd b);
  opp := fun a => (- fst a, - snd a);
  inv := qcc_inv;
  div := fun a b => qcc_mul a (qcc_inv b);
  conj := fun a => (fst a, - snd a);
  le0 := fun a => Qle_bool (fst a) 0 |}.

(* real rationals as a (trivially conjugated) instance too *)
Definition qc_ops : Ops Qc := {|
  zero := 0; one := 1; add := Qcplus; mul := Qcmult; sub := Qcminus; opp := Qcopp;
  div := Qcdiv; inv := Qcinv; conj := fun a => a; le0 := fun a => Qle_bool a 0 |}.

Lemma Qc_sq_nonneg (a : Qc) : 0 <= a * a.
Proof.
  unfold Qcle. change (this (a * a)) with (Qred (this a * this a)).
  setoid_rewrite Qred_correct. change (this 0) with 0%Q. nra.
Qed.
Lemma Qc_sq_sum_0 (a b : Qc) : a * a + b * b = 0 -> a = 0 /\ b = 0.
Proof.
  intros H.
  pose proof (Qc_sq_nonneg a) as Ha. pose proof (Qc_sq_nonneg b) as Hb.
  assert (Ea : a * a = 0).
  { apply Qcle_antisym; [|exact Ha]. rewrite <- H. rewrite <- (Qcplus_0_r (a * a)) at 1. apply Qcplus_le_compat; [apply Qcle_refl|exact Hb]. }
  assert (Eb : b * b = 0).
  { apply Qcle_antisym; [|exact Hb]. rewrite <- H. rewrite <- (Qcplus_0_l (b * b)) at 1. apply Qcplus_le_compat; [exact Ha|apply Qcle_refl]. }
  split; [destruct (Qcmult_integral _ _ Ea)|destruct (Qcmult_integral _ _ Eb)]; assumption.
Qed.

Lemma qcc_eq (a b : QcC) : fst a = fst b -> snd a = snd b -> a = b.
Proof. destruct a, b; cbn; intros -> ->; reflexivity. Qed.

Lemma qcc_laws : Laws qcc_ops.
Proof.
  constructor.
  - constructor.
    + constructor; intros; apply qcc_eq; cbn; ring.
    + intro H. inversion H.
    + intros; apply qcc_eq; cbn; reflexivity.
    + intros [a b] Hp. cbn.
      assert (D : a * a + b * b <> 0).
      { intro H. apply Qc_sq_sum_0 in H. destruct H as [-> ->]. apply Hp. reflexivity. }
      apply qcc_eq; cbn; field; exact D.
  - intros; apply qcc_eq; cbn; ring.
  - intros; apply qcc_eq; cbn; ring.
  - intros; apply qcc_eq; cbn; ring.
  - apply qcc_eq; cbn; ring.
  - apply qcc_eq; cbn; ring.
  - intro H. inversion H.
  - reflexivity.
Qed.

Lemma qc_laws : Laws qc_ops.
Proof.
  constructor; try (intros; reflexivity).
  - exact Qcft.
  - intro H. inversion H.
Qed.

(* ---------- literals and comparison helpers for generated case files ---------- *)
Local Open Scope Z_scope.
(* the dyadic rational num * 2^e *)
Definition dy (num e : Z) : Qc :=
  Q2Qc (if 0 <=? e then inject_Z (num * 2 ^ e) else (num # (Z.to_pos (2 ^ (- e))))).
Definition cz (a : Z * Z) (b : Z * Z) : QcC := (dy (fst a) (snd a), dy (fst b) (snd b)).
Definition Qcabs (x : Qc) : Qc := if Qle_bool x 0 then (- x)%Qc else x.
Definition Qcleb (x y : Qc) : bool := Qle_bool x y.
Definition qcc_close (tol : Qc) (a b : QcC) : bool :=
  Qcleb (Qcabs (fst a - fst b)%Qc) tol && Qcleb (Qcabs (snd a - snd b)%Qc) tol.
Definition qcc_close_list (tol : Qc) (l1 l2 : list QcC) : bool :=
  Nat.eqb (length l1) (length l2) && forallb (fun p => qcc_close tol (fst p) (snd p)) (combine l1 l2).
Definition qcc_maxabs (l : list QcC) : Qc :=
  fold_left (fun m a => let v := (Qcabs (fst a) + Qcabs (snd a))%Qc in if Qcleb m v then v else m) l 0%Qc.
(* relative comparison: |a-b| <= tol * max(1-norm scale of b, floor) *)
Definition qcc_close_rel (tol floor : Qc) (l1 l2 : list QcC) : bool :=
  let s := qcc_maxabs l2 in
  qcc_close_list (tol * (if Qcleb s floor then floor else s))%Qc l1 l2.
Definition bad_indices (cases : list bool) : list nat :=
  map fst (filter (fun p => negb (snd p)) (combine (seq 0 (length cases)) cases)).
