(* The rationals Qc with the identity as conjugation ([qc_ops] of Instances/QcC.v) are an
   ordered *-field: [OrdLaws] instance for the instance the C18 certificate checker is executed at.
   (New file of property C18; the Gaussian-rational analogue is Instances/QcCOrd.v.) *)
From Coq Require Import QArith Qcanon Qfield Psatz.
Require Import Spectrum.Theory.Ops Spectrum.Theory.Order Spectrum.Instances.QcC Spectrum.Instances.QcCOrd.
Local Open Scope Qc_scope.

Lemma qc_ord : OrdLaws qc_ops.
Proof.
  refine (mkOrd _ qc_ops (fun a : Qc => 0 <= a) _ _ _ _ _ _ _ _).
  - intros a _. reflexivity.
  - intros a. unfold nrm2. cbn. apply Qc_sq_nonneg.
  - intros a b Ha Hb. cbn. apply Qc_add_nonneg; assumption.
  - intros a b Ha Hb. cbn. apply Qc_mul_nonneg; assumption.
  - intros a Ha Hn. cbn in Hn. apply Qc_opp_nonneg in Hn. apply Qcle_antisym; assumption.
  - intros a _. cbn. destruct (Qclt_le_dec a 0) as [Hl|Hl]; [right|left; exact Hl].
    apply Qc_opp_nonneg. apply Qclt_le_weak. exact Hl.
  - intros a. cbn. destruct (Qc_eq_dec a 0) as [E|E]; [left|right]; exact E.
  - intros a _. cbn. rewrite Qle_bool_iff. change (this 0) with 0%Q. split.
    + intros H. apply Qc_opp_nonneg. exact H.
    + intros H. apply Qc_opp_nonneg in H. exact H.
Qed.

Lemma qc_real : forall a : Qc, @conj _ qc_ops a = a.
Proof. reflexivity. Qed.
