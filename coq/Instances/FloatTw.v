(* Table-driven twiddle for the binary64 runs: the harness supplies exp(-2 pi i j / n), j = 0..n-1,
   as hex float literals (computed by Python's cmath); [tw_table] reads entry (a mod n). *)
From Coq Require Import PrimFloat ZArith List.
Require Import Spectrum.Theory.Ops Spectrum.Instances.FloatC.
Definition tw_table (tbl : list FloatC) (a : Z) : FloatC :=
  nth (Z.to_nat (a mod Z.of_nat (length tbl))) tbl (1%float, 0%float).
