(* Gaussian rationals over Bignums' BigQ (machine-word bignums, reduced after every operation):
   an executable instance of [Ops] that is about an order of magnitude faster than Qc under
   vm_compute.  Used ONLY by the C15 correspondence run for the chained
   least-squares -> filter -> Levinson -> Levinson pipeline of arma_estimate, whose exact
   intermediate values reach several thousand bits.  It is not the instance the theorems are
   applied to (that is QcC, Instances/QcC.v + QcCOrd.v); BigQ's operations are proved correct
   with respect to Q in Bignums (BigQ.spec_add, spec_mul, spec_red, ...). *)
From Bignums Require Import BigQ BigZ BigN.
From Coq Require Import ZArith List.
Require Import Spectrum.Theory.Ops.
Import ListNotations.

Definition BQC := (bigQ * bigQ)%type.
Definition bq_add a b := BigQ.red (BigQ.add a b).
Definition bq_sub a b := BigQ.red (BigQ.sub a b).
Definition bq_mul a b := BigQ.red (BigQ.mul a b).
Definition bq_div a b := BigQ.red (BigQ.div a b).
Definition bqc_mul (a b : BQC) : BQC :=
  (bq_sub (bq_mul (fst a) (fst b)) (bq_mul (snd a) (snd b)), bq_add (bq_mul (fst a) (snd b)) (bq_mul (snd a) (fst b))).
Definition bqc_inv (a : BQC) : BQC :=
  let d := bq_add (bq_mul (fst a) (fst a)) (bq_mul (snd a) (snd a)) in (bq_div (fst a) d, bq_div (BigQ.opp (snd a)) d).
Definition bq_leb a b := match BigQ.compare a b with Gt => false | _ => true end.
Definition bqc_ops : Ops BQC := {|
  zero := (BigQ.zero, BigQ.zero); one := (BigQ.one, BigQ.zero);
  add := fun a b => (bq_add (fst a) (fst b), bq_add (snd a) (snd b));
  mul := bqc_mul;
  sub := fun a b => (bq_sub (fst a) (fst b), bq_sub (snd a) (snd b));
  opp := fun a => (BigQ.opp (fst a), BigQ.opp (snd a));
  inv := bqc_inv;
  div := fun a b => bqc_mul a (bqc_inv b);
  conj := fun a => (fst a, BigQ.opp (snd a));
  le0 := fun a => bq_leb (fst a) BigQ.zero |}.

(* literals and comparisons for generated case files (same shapes as in Instances/QcC.v) *)
Local Open Scope Z_scope.
Definition bdy (num e : Z) : bigQ :=
  BigQ.red (if 0 <=? e then BigQ.Qz (BigZ.of_Z (num * 2 ^ e)) else BigQ.Qq (BigZ.of_Z num) (BigN.of_N (Z.to_N (2 ^ (- e))))).
Definition bcz (a : Z * Z) (b : Z * Z) : BQC := (bdy (fst a) (snd a), bdy (fst b) (snd b)).
Definition bq_abs (x : bigQ) : bigQ := if bq_leb x BigQ.zero then BigQ.opp x else x.
Definition bqc_close (tol : bigQ) (a b : BQC) : bool :=
  bq_leb (bq_abs (bq_sub (fst a) (fst b))) tol && bq_leb (bq_abs (bq_sub (snd a) (snd b))) tol.
Definition bqc_close_list (tol : bigQ) (l1 l2 : list BQC) : bool :=
  Nat.eqb (length l1) (length l2) && forallb (fun p => bqc_close tol (fst p) (snd p)) (combine l1 l2).
Definition bqc_maxabs (l : list BQC) : bigQ :=
  fold_left (fun m a => let v := bq_add (bq_abs (fst a)) (bq_abs (snd a)) in if bq_leb m v then v else m) l BigQ.zero.
Definition bqc_close_rel (tol floor : bigQ) (l1 l2 : list BQC) : bool :=
  let s := bqc_maxabs l2 in bqc_close_list (bq_mul tol (if bq_leb s floor then floor else s)) l1 l2.
