(* The real numbers (stdlib Reals) as an instance of the window model's operations.
   conj = id, le0 = "x <= 0" decided by Rle_dec (not computable; only reasoned about).
   numpy.i0 and scipy's chebwin stay parameters: theorems quantify over them. *)
From Coq Require Import Reals Lra.
Require Import Spectrum.Theory.Ops Spectrum.Theory.Order Spectrum.Model.Window.
Local Open Scope R_scope.

Definition Rleb (a b : R) : bool := if Rle_dec a b then true else false.
Definition Rltb (a b : R) : bool := if Rlt_dec a b then true else false.
Definition Reqb (a b : R) : bool := if Req_EM_T a b then true else false.

Definition r_ops : Ops R := {|
  zero := 0; one := 1; add := Rplus; mul := Rmult; sub := Rminus; opp := Ropp; div := Rdiv; inv := Rinv;
  conj := fun x => x; le0 := fun x => Rleb x 0 |}.

Definition r_tops (I0 : R -> R) (cheb : nat -> R -> list R) : TOps R := {|
  tcos := cos; tsin := sin; texp := exp; tln := ln; tsqrt := sqrt; tabs := Rabs; tpi := PI; tI0 := I0;
  tltb := Rltb; tleb := Rleb; teqb := Reqb; tcheb := cheb |}.

Lemma Rleb_true a b : Rleb a b = true <-> a <= b.
Proof. unfold Rleb. destruct (Rle_dec a b); split; intros; try assumption; try reflexivity; try discriminate; contradiction. Qed.
Lemma Rltb_true a b : Rltb a b = true <-> a < b.
Proof. unfold Rltb. destruct (Rlt_dec a b); split; intros; try assumption; try reflexivity; try discriminate; contradiction. Qed.
Lemma Reqb_true a b : Reqb a b = true <-> a = b.
Proof. unfold Reqb. destruct (Req_EM_T a b); split; intros; try assumption; try reflexivity; try discriminate; contradiction. Qed.
Lemma Rleb_false a b : Rleb a b = false <-> b < a.
Proof. unfold Rleb. destruct (Rle_dec a b); split; intros; try discriminate; try reflexivity; lra. Qed.
Lemma Rltb_false a b : Rltb a b = false <-> b <= a.
Proof. unfold Rltb. destruct (Rlt_dec a b); split; intros; try discriminate; try reflexivity; lra. Qed.
Lemma Reqb_false a b : Reqb a b = false <-> a <> b.
Proof. unfold Reqb. destruct (Req_EM_T a b); split; intros; try discriminate; try reflexivity; try assumption; contradiction. Qed.

Lemma r_laws : Laws r_ops.
Proof.
  constructor; cbn; try (intros; reflexivity).
  - exact Rfield.
  - lra.
  - apply Rleb_true. lra.
Qed.

Definition r_ord : OrdLaws r_ops.
Proof.
  refine (@mkOrd R r_ops (fun a => 0 <= a) _ _ _ _ _ _ _ _); cbn.
  - intros; reflexivity.
  - intros a. unfold nrm2; cbn. nra.
  - intros; lra.
  - intros a b Ha Hb. apply Rmult_le_pos; assumption.
  - intros; lra.
  - intros a _. destruct (Rle_dec 0 a); [left; assumption|right; lra].
  - intros a. destruct (Req_EM_T a 0); [left|right]; assumption.
  - intros a _. rewrite Rleb_true. split; intros; lra.
Defined.
