(* Exact twiddle characters over the Gaussian rationals for n = 1, 2, 4 (1; 1,-1; 1,-i,-1,i):
   the DFT theorems are non-vacuous and the DFT-based models run exactly for those grids.
   Also the table-driven twiddle used for the binary64 correspondence runs. *)
From Coq Require Import QArith Qcanon.
Require Import Spectrum.Theory.Ops Spectrum.Theory.Dft Spectrum.Instances.QcC.
Local Open Scope Z_scope.

Definition qI : QcC := (0%Qc, 1%Qc).
Definition tw4 (a : Z) : QcC :=
  let r := a mod 4 in
  if r =? 0 then (1%Qc, 0%Qc) else if r =? 1 then (0%Qc, (- (1))%Qc) else if r =? 2 then ((- (1))%Qc, 0%Qc) else (0%Qc, 1%Qc).
Definition tw2 (a : Z) : QcC := if a mod 2 =? 0 then (1%Qc, 0%Qc) else ((- (1))%Qc, 0%Qc).
Definition tw1 (a : Z) : QcC := (1%Qc, 0%Qc).

Lemma qcc_eq_canon (a b : QcC) : (this (fst a) == this (fst b))%Q -> (this (snd a) == this (snd b))%Q -> a = b.
Proof. intros H1 H2. apply qcc_eq; apply Qc_is_canon; assumption. Qed.

Ltac cases4 r H := assert (H : r = 0 \/ r = 1 \/ r = 2 \/ r = 3) by lia; destruct H as [H|[H|[H|H]]]; rewrite H.
Ltac cases2 r H := assert (H : r = 0 \/ r = 1) by lia; destruct H as [H|H]; rewrite H.

Lemma tw4_twiddle : @Twiddle _ qcc_ops 4 tw4.
Proof.
  constructor.
  - intros a b. unfold tw4. rewrite (Zplus_mod a b 4).
    pose proof (Z.mod_pos_bound a 4 ltac:(lia)) as Ha. pose proof (Z.mod_pos_bound b 4 ltac:(lia)) as Hb.
    cases4 (a mod 4) Ea; cases4 (b mod 4) Eb; apply qcc_eq_canon; vm_compute; reflexivity.
  - reflexivity.
  - reflexivity.
  - intros a. unfold tw4. rewrite (Z.opp_eq_mul_m1 a), (Zmult_mod a (-1) 4).
    pose proof (Z.mod_pos_bound a 4 ltac:(lia)) as Ha.
    cases4 (a mod 4) Ea; apply qcc_eq_canon; vm_compute; reflexivity.
  - intros j Hj. unfold tw4. change (Z.of_nat 4) with 4 in Hj.
    rewrite Z.mod_small by lia.
    assert (E : j = 1 \/ j = 2 \/ j = 3) by lia. destruct E as [E|[E|E]]; rewrite E; intro H; inversion H.
Qed.
Lemma tw2_twiddle : @Twiddle _ qcc_ops 2 tw2.
Proof.
  constructor.
  - intros a b. unfold tw2. rewrite (Zplus_mod a b 2).
    pose proof (Z.mod_pos_bound a 2 ltac:(lia)) as Ha. pose proof (Z.mod_pos_bound b 2 ltac:(lia)) as Hb.
    cases2 (a mod 2) Ea; cases2 (b mod 2) Eb; apply qcc_eq_canon; vm_compute; reflexivity.
  - reflexivity.
  - reflexivity.
  - intros a. unfold tw2. rewrite (Z.opp_eq_mul_m1 a), (Zmult_mod a (-1) 2).
    pose proof (Z.mod_pos_bound a 2 ltac:(lia)) as Ha.
    cases2 (a mod 2) Ea; apply qcc_eq_canon; vm_compute; reflexivity.
  - intros j Hj. change (Z.of_nat 2) with 2 in Hj. assert (E : j = 1) by lia. rewrite E. intro H; inversion H.
Qed.
Lemma tw1_twiddle : @Twiddle _ qcc_ops 1 tw1.
Proof.
  constructor.
  - intros a b. apply qcc_eq_canon; vm_compute; reflexivity.
  - reflexivity.
  - reflexivity.
  - intros a. apply qcc_eq_canon; vm_compute; reflexivity.
  - intros j Hj. change (Z.of_nat 1) with 1 in Hj. lia.
Qed.
