(* The complex numbers (Coquelicot's C over the standard-library reals) are an ordered *-field,
   and the Gaussian rationals embed into them.  Used by C12 only, to state stability for ALL
   complex roots of the Yule-Walker polynomial.  Everything that depends on this file depends on
   the standard-library axioms of the real numbers (listed by Print Assumptions in Properties/C12.v). *)
From Coq Require Import Reals Lra Psatz QArith Qcanon Qreals.
From Coquelicot Require Import Complex.
Require Import Spectrum.Theory.Ops Spectrum.Theory.Order Spectrum.Instances.QcC.

Definition c_ops : Ops C := {|
  zero := RtoC 0; one := RtoC 1; add := Cplus; mul := Cmult; sub := Cminus; opp := Copp;
  div := Cdiv; inv := Cinv; conj := Cconj;
  le0 := fun z => if Rle_dec (fst z) 0 then true else false |}.

Lemma c_eq (a b : C) : fst a = fst b -> snd a = snd b -> a = b.
Proof. destruct a, b; simpl; intros -> ->; reflexivity. Qed.

Lemma c_laws : Laws c_ops.
Proof.
  constructor.
  - exact C_field_theory.
  - intros [a b] [c d]. apply c_eq; simpl; ring.
  - intros [a b] [c d]. apply c_eq; simpl; ring.
  - intros [a b]. apply c_eq; simpl; ring.
  - apply c_eq; simpl; ring.
  - apply c_eq; simpl; ring.
  - simpl. intros H. injection H as H1 _. lra.
  - simpl. destruct (Rle_dec 0 0); [reflexivity|lra].
Qed.

Definition c_nonneg (z : C) : Prop := snd z = 0%R /\ (0 <= fst z)%R.

Lemma c_conj_real (a : C) : Cconj a = a -> snd a = 0%R.
Proof. destruct a as [x y]. unfold Cconj. simpl. intros H. injection H as H. lra. Qed.

Lemma c_ord : OrdLaws c_ops.
Proof.
  refine (mkOrd _ c_ops c_nonneg _ _ _ _ _ _ _ _).
  - intros [a b] [Hb _]. simpl in *. subst b. apply c_eq; simpl; ring.
  - intros [a b]. unfold c_nonneg, nrm2. simpl. split; [ring|nra].
  - intros [a b] [c d] [Hb Ha] [Hd Hc]. simpl in *. subst. split; simpl; lra.
  - intros [a b] [c d] [Hb Ha] [Hd Hc]. simpl in *. subst. split; simpl; [ring|nra].
  - intros [a b] [Hb Ha] [_ Hn]. simpl in *. subst. apply c_eq; simpl; lra.
  - intros a Hr. pose proof (c_conj_real a Hr) as Hs. destruct a as [x y]. simpl in *. subst y.
    unfold c_nonneg. simpl. destruct (Rle_dec 0 x); [left|right]; split; lra.
  - intros a. destruct (Ceq_dec a (RtoC 0)); [left|right]; assumption.
  - intros a Hr. pose proof (c_conj_real a Hr) as Hs. destruct a as [x y]. simpl in *. subst y.
    unfold c_nonneg. simpl. destruct (Rle_dec x 0) as [Hle|Hgt].
    + split; [intros _; split; lra|intros _; reflexivity].
    + split; [intros Hd; discriminate|intros [_ Hx]; lra].
Defined.   (* transparent: [nonneg] must unfold to [c_nonneg] *)

(* |z|^2 < 1 in the sense of the abstract order is Cmod z < 1 *)
Lemma c_lt_nrm2_1 (z : C) : lt (OF:=c_ops) (OL:=c_ord) (nrm2 (OF:=c_ops) z) (RtoC 1) -> (Cmod z < 1)%R.
Proof.
  destruct z as [x y]. unfold lt, pos, nrm2. simpl. intros [[_ Hn] Hne]. simpl in Hn.
  assert (Hlt : (x * x + y * y < 1)%R).
  { destruct (Rle_lt_or_eq_dec _ _ Hn) as [Hl|He]; [nra|].
    exfalso. apply Hne. apply c_eq; simpl; nra. }
  unfold Cmod. simpl.
  assert (E : (sqrt (x * (x * 1) + y * (y * 1)) < sqrt 1)%R) by (apply sqrt_lt_1_alt; split; nra).
  rewrite sqrt_1 in E. exact E.
Qed.

(* ---------- the Gaussian rationals embed into C ---------- *)
Definition qcc_to_c (a : QcC) : C := (Q2R (this (fst a)), Q2R (this (snd a))).

Lemma Q2R_Qc_add (a b : Qc) : Q2R (this (a + b)%Qc) = (Q2R (this a) + Q2R (this b))%R.
Proof. rewrite <- Q2R_plus. apply Qeq_eqR. change (this (a + b)%Qc) with (Qred (this a + this b)). apply Qred_correct. Qed.
Lemma Q2R_Qc_mul (a b : Qc) : Q2R (this (a * b)%Qc) = (Q2R (this a) * Q2R (this b))%R.
Proof. rewrite <- Q2R_mult. apply Qeq_eqR. change (this (a * b)%Qc) with (Qred (this a * this b)). apply Qred_correct. Qed.
Lemma Q2R_Qc_opp (a : Qc) : Q2R (this (- a)%Qc) = (- Q2R (this a))%R.
Proof. rewrite <- Q2R_opp. apply Qeq_eqR. change (this (- a)%Qc) with (Qred (- this a)). apply Qred_correct. Qed.
Lemma Q2R_Qc_sub (a b : Qc) : Q2R (this (a - b)%Qc) = (Q2R (this a) - Q2R (this b))%R.
Proof. unfold Qcminus. rewrite Q2R_Qc_add, Q2R_Qc_opp. ring. Qed.
Lemma Q2R_Qc_0 : Q2R (this 0%Qc) = 0%R. Proof. simpl. apply RMicromega.Q2R_0. Qed.
Lemma Q2R_Qc_1 : Q2R (this 1%Qc) = 1%R. Proof. simpl. apply RMicromega.Q2R_1. Qed.
