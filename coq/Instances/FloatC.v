(* binary64 pairs: executable, NOT a field.  Used only by the correspondence check
   for model functions that need transcendental constants (twiddles, windows). *)
From Coq Require Import PrimFloat Uint63.
Require Import Spectrum.Theory.Ops.
Local Open Scope float_scope.

Definition FloatC := (float * float)%type.
Definition fc_mul (a b : FloatC) : FloatC :=
  (fst a * fst b - snd a * snd b, fst a * snd b + snd a * fst b).
Definition fc_inv (a : FloatC) : FloatC :=
  let d := fst a * fst a + snd a * snd a in (fst a / d, - snd a / d).
Definition fc_ops : Ops FloatC := {|
  zero := (0, 0); one := (1, 0);
  add := fun a b => (fst a + fst b, snd a + snd b);
  mul := fc_mul;
  sub := fun a b => (fst a - fst b, snd a - snd b);
  opp := fun a => (- fst a, - snd a);
  inv := fc_inv;
  div := fun a b => let d := fst b * fst b + snd b * snd b in
      ((fst a * fst b + snd a * snd b) / d, (snd a * fst b - fst a * snd b) / d);
  conj := fun a => (fst a, - snd a);
  le0 := fun a => PrimFloat.leb (fst a) 0 |}.
Definition f_ops : Ops float := {|
  zero := 0; one := 1; add := PrimFloat.add; mul := PrimFloat.mul; sub := PrimFloat.sub;
  opp := PrimFloat.opp; div := PrimFloat.div; inv := fun a => 1 / a; conj := fun a => a; le0 := fun a => PrimFloat.leb a 0 |}.

Definition fabs (x : float) : float := PrimFloat.abs x.
Definition fmax (a b : float) : float := if PrimFloat.ltb a b then b else a.
Definition fc_close (tol : float) (a b : FloatC) : bool :=
  PrimFloat.leb (fabs (fst a - fst b)) tol && PrimFloat.leb (fabs (snd a - snd b)) tol.
Definition fc_maxabs (l : list FloatC) : float :=
  fold_left (fun m a => fmax m (fmax (fabs (fst a)) (fabs (snd a)))) l 0.
Definition fc_close_list (tol : float) (l1 l2 : list FloatC) : bool :=
  Nat.eqb (length l1) (length l2) && forallb (fun p => fc_close tol (fst p) (snd p)) (combine l1 l2).
Definition fc_close_rel (tol floor : float) (l1 l2 : list FloatC) : bool :=
  fc_close_list (tol * fmax (fc_maxabs l2) floor) l1 l2.
Definition f_close_rel (tol floor : float) (l1 l2 : list float) : bool :=
  fc_close_rel tol floor (map (fun a => (a, 0)) l1) (map (fun a => (a, 0)) l2).
