(* binary64 instance of the window model's library functions (cos sin exp log I0 ...), used only by
   the correspondence run of C20.  Implemented by argument reduction + truncated series; NOT verified:
   their accuracy is measured against numpy on every run (cases "c20_transc") and is part of the
   correspondence tolerance, never of a theorem. *)
From Coq Require Import PrimFloat List.
Require Import Spectrum.Theory.Ops Spectrum.Instances.FloatC Spectrum.Model.Window.
Import ListNotations.
Local Open Scope float_scope.

Definition f_magic : float := 0x1.8p+52.
Definition fround (x : float) : float := (x + f_magic) - f_magic.       (* nearest integer, |x| < 2^51 *)

Definition f_pi : float := 0x1.921fb54442d18p+1.
Definition f_2_over_pi : float := 0x1.45f306dc9c883p-1.
Definition f_pio2_1 : float := 0x1.921fb54400000p+0.
Definition f_pio2_1t : float := 0x1.0b4611a626331p-34.

Definition sin_kernel (r z : float) : float :=
  r * (1 + z * (-(1/6) + z * (1/120 + z * (-(1/5040) + z * (1/362880 + z * (-(1/39916800) + z * (1/6227020800
      + z * (-(1/1307674368000) + z * (1/355687428096000 + z * (-(1/121645100408832000))))))))))).
Definition cos_kernel (z : float) : float :=
  1 + z * (-(1/2) + z * (1/24 + z * (-(1/720) + z * (1/40320 + z * (-(1/3628800) + z * (1/479001600
      + z * (-(1/87178291200) + z * (1/20922789888000 + z * (-(1/6402373705728000) + z * (1/2432902008176640000)))))))))).

Definition fsincos (x : float) : float * float :=
  let k := fround (x * f_2_over_pi) in
  let r := (x - k * f_pio2_1) - k * f_pio2_1t in
  let z := r * r in
  let s := sin_kernel r z in let c := cos_kernel z in
  let q := k - 4 * fround (k * 0.25) in
  if PrimFloat.eqb q 0 then (s, c)
  else if PrimFloat.eqb q 1 then (c, - s)
  else if PrimFloat.eqb q (-1) then (- c, s)
  else (- s, - c).
Definition fsin (x : float) : float := fst (fsincos x).
Definition fcos (x : float) : float := snd (fsincos x).

Definition f_ln2_hi : float := 0x1.62e42fee00000p-1.
Definition f_ln2_lo : float := 0x1.a39ef35793c76p-33.
Definition f_inv_ln2 : float := 0x1.71547652b82fep+0.
Fixpoint scale2 (fuel : nat) (p k : float) : float :=
  match fuel with
  | O => p
  | S f => if PrimFloat.leb 1 k then scale2 f (p * 2) (k - 1)
           else if PrimFloat.leb k (-1) then scale2 f (p * 0.5) (k + 1) else p
  end.
Definition fexp (x : float) : float :=
  let k := fround (x * f_inv_ln2) in
  let r := (x - k * f_ln2_hi) - k * f_ln2_lo in
  let p := 1 + r * (1 + r * (1/2 + r * (1/6 + r * (1/24 + r * (1/120 + r * (1/720 + r * (1/5040 + r * (1/40320
           + r * (1/362880 + r * (1/3628800 + r * (1/39916800 + r * (1/479001600 + r * (1/6227020800 + r * (1/87178291200)))))))))))))) in
  scale2 1200 p k.

Definition f_sqrt2 : float := 0x1.6a09e667f3bcdp+0.
Definition f_sqrth : float := 0x1.6a09e667f3bcdp-1.
Fixpoint ln_red (fuel : nat) (x k : float) : float * float :=
  match fuel with
  | O => (x, k)
  | S f => if PrimFloat.leb f_sqrt2 x then ln_red f (x * 0.5) (k + 1)
           else if PrimFloat.ltb x f_sqrth then ln_red f (x * 2) (k - 1) else (x, k)
  end.
Definition fln (x : float) : float :=
  let '(m, k) := ln_red 1200 x 0 in
  let s := (m - 1) / (m + 1) in let z := s * s in
  (k * f_ln2_hi + (2 * s * (1 + z * (1/3 + z * (1/5 + z * (1/7 + z * (1/9 + z * (1/11 + z * (1/13 + z * (1/15 + z * (1/17
     + z * (1/19 + z * (1/21 + z * (1/23 + z * (1/25))))))))))))) + k * f_ln2_lo)).

Fixpoint i0_loop (fuel : nat) (k t acc q : float) : float :=
  match fuel with
  | O => acc
  | S f => let t' := t * q / (k * k) in i0_loop f (k + 1) t' (acc + t') q
  end.
Definition fI0 (x : float) : float := i0_loop 150 1 1 1 (x * x * 0.25).

(* [cheb] is scipy's chebwin for the (N, attenuation) of the case at hand, supplied by the harness *)
Definition f_tops (cheb : list float) : TOps float := {|
  tcos := fcos; tsin := fsin; texp := fexp; tln := fln; tsqrt := PrimFloat.sqrt; tabs := PrimFloat.abs;
  tpi := f_pi; tI0 := fI0;
  tltb := PrimFloat.ltb; tleb := PrimFloat.leb; teqb := PrimFloat.eqb;
  tcheb := fun _ _ => cheb |}.
