(* The Gaussian rationals are a formally real *-field: [OrdLaws] instance for the
   executed model, so the order theorems (Theory/Order.v and what is built on it) apply to
   the very instance the correspondence check runs. *)
From Coq Require Import QArith Qcanon Qfield Psatz.
Require Import Spectrum.Theory.Ops Spectrum.Theory.Order Spectrum.Instances.QcC.
Local Open Scope Qc_scope.

Definition qcc_nonneg (a : QcC) : Prop := snd a = 0 /\ 0 <= fst a.

Lemma Qc_le_q (a b : Qc) : a <= b <-> (this a <= this b)%Q. Proof. reflexivity. Qed.
Lemma Qc_mul_nonneg (a b : Qc) : 0 <= a -> 0 <= b -> 0 <= a * b.
Proof.
  unfold Qcle. intros Ha Hb. change (this (a * b)) with (Qred (this a * this b)).
  setoid_rewrite Qred_correct. change (this 0) with 0%Q in *. nra.
Qed.
Lemma Qc_add_nonneg (a b : Qc) : 0 <= a -> 0 <= b -> 0 <= a + b.
Proof.
  intros Ha Hb. rewrite <- (Qcplus_0_l 0). apply Qcplus_le_compat; assumption.
Qed.
Lemma Qc_opp_nonneg (a : Qc) : 0 <= - a <-> a <= 0.
Proof.
  unfold Qcle. change (this (- a)) with (Qred (- this a)). setoid_rewrite Qred_correct. change (this 0) with 0%Q. lra.
Qed.
Lemma Qc_opp_0 (a : Qc) : - a = 0 -> a = 0.
Proof. intros H. rewrite <- (Qcopp_involutive a), H. reflexivity. Qed.

Lemma qcc_ord : OrdLaws qcc_ops.
Proof.
  refine (mkOrd _ qcc_ops qcc_nonneg _ _ _ _ _ _ _ _).
  - intros [a b] [Hb _]. cbn in *. subst b. reflexivity.
  - intros [a b]. unfold qcc_nonneg, nrm2. cbn. split; [ring|].
    replace (a * a - b * - b) with (a * a + b * b) by ring.
    apply Qc_add_nonneg; apply Qc_sq_nonneg.
  - intros [a b] [c d] [Hb Ha] [Hd Hc]. cbn in *. subst. split; cbn; [ring|apply Qc_add_nonneg; assumption].
  - intros [a b] [c d] [Hb Ha] [Hd Hc]. cbn in *. subst. split; cbn; [ring|].
    replace (a * c - 0 * 0) with (a * c) by ring. apply Qc_mul_nonneg; assumption.
  - intros [a b] [Hb Ha] [_ Hn]. cbn in *. subst. apply Qc_opp_nonneg in Hn.
    f_equal. apply Qcle_antisym; assumption.
  - intros [a b] H. cbn in H. injection H as H.
    assert (Eb : b = 0).
    { assert (E2 : b + b = 0) by (rewrite <- H at 1; ring).
      destruct (Qc_eq_dec b 0) as [E|E]; [exact E|]. exfalso. apply E.
      transitivity ((b + b) / (1 + 1)); [field; discriminate|rewrite E2; field; discriminate]. }
    subst b. unfold qcc_nonneg; cbn.
    destruct (Qclt_le_dec a 0) as [Hl|Hl]; [right|left]; (split; [ring|]); [|exact Hl].
    apply Qc_opp_nonneg. apply Qclt_le_weak. exact Hl.
  - intros [a b]. destruct (Qc_eq_dec a 0) as [Ea|Ea]; [destruct (Qc_eq_dec b 0) as [Eb|Eb]|].
    + left. subst. reflexivity.
    + right. intros H. apply Eb. injection H. auto.
    + right. intros H. apply Ea. injection H. auto.
  - intros [a b] H. cbn in H. injection H as H. unfold qcc_nonneg. cbn.
    rewrite Qle_bool_iff. change (this 0) with 0%Q. split.
    + intros Hle. split.
      * assert (E2 : b + b = 0) by (rewrite <- H at 1; ring).
        destruct (Qc_eq_dec b 0) as [E|E]; [rewrite E; reflexivity|]. exfalso. apply E.
        transitivity ((b + b) / (1 + 1)); [field; discriminate|rewrite E2; field; discriminate].
      * apply Qc_opp_nonneg. exact Hle.
    + intros [_ Hn]. apply Qc_opp_nonneg in Hn. exact Hn.
Qed.
