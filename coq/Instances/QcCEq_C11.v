(* Boolean equality on the Gaussian rationals: the instance of [Eqb] (the code's a[0] != 1,
   knxt == 1.0 tests) that the C11 correspondence executes, with its specification. *)
From Coq Require Import QArith Qcanon.
Require Import Spectrum.Theory.Ops Spectrum.Instances.QcC Spectrum.Model.LinPred.

Global Instance qcc_eqb : Eqb QcC :=
  fun a b => Qc_eq_bool (fst a) (fst b) && Qc_eq_bool (snd a) (snd b).

Lemma Qc_eq_bool_refl (x : Qc) : Qc_eq_bool x x = true.
Proof. unfold Qc_eq_bool. destruct (Qc_eq_dec x x) as [_|H]; [reflexivity|exfalso; apply H; reflexivity]. Qed.

Lemma qcc_eqb_spec (a b : QcC) : eqb a b = true <-> a = b.
Proof.
  unfold eqb, qcc_eqb. split.
  - intros H. apply andb_prop in H. destruct H as [H1 H2].
    apply qcc_eq; apply Qc_eq_bool_correct; assumption.
  - intros ->. rewrite !Qc_eq_bool_refl. reflexivity.
Qed.
