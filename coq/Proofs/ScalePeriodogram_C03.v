(* C03 — periodogram (function 1-D / 2-D, class object) and correlogram are homogeneous of degree 2:
   every bin of the estimate of c*x is |c|^2 times the bin of the estimate of x, for all flag values
   (detrend, scale_by_freq), every NFFT (cropping / padding), real and complex layouts. *)
Require Import Spectrum.Theory.Ops Spectrum.Theory.Sum Spectrum.Theory.Vec Spectrum.Theory.Dft
               Spectrum.Model.Corr Spectrum.Model.Periodogram Spectrum.Proofs.ScaleUtil_C03.

Section ScalePer.
Context {F : Type} {OF : Ops F} {L : Laws OF}.
Local Open Scope F_scope.
Add Field FFsp : (fth (O:=OF)).

Lemma mean_vscale c (x : list F) : mean (vscale c x) = c * mean x.
Proof. unfold mean. rewrite su_vscale_length, su_sumL_vscale. apply su_div_scale. Qed.
Lemma spectrum_of_vscale tw isreal n c (v : list F) :
  spectrum_of tw isreal n (vscale c v) = vscale c (spectrum_of tw isreal n v).
Proof. unfold spectrum_of. destruct isreal; [apply su_rdft_vscale|apply su_dft_vscale]. Qed.
Lemma bins_vscale c r (v : list F) :
  map (fun z => nrm2 z / ofnat r) (vscale c v) = vscale (nrm2 c) (map (fun z => nrm2 z / ofnat r) v).
Proof. apply su_map_vscale. intros a. rewrite nrm2_mul. apply su_div_scale. Qed.
Lemma psd_scale_vscale twopi sbf fs n s (l : list F) :
  psd_scale twopi sbf fs n (vscale s l) = vscale s (psd_scale twopi sbf fs n l).
Proof. unfold psd_scale. destruct (py_is_true sbf); [|reflexivity]. apply su_map_vscale. intros a. ring. Qed.

(* speriodogram(c*x) = |c|^2 speriodogram(x): every bin, every flag combination, no hypothesis on c *)
Theorem periodogram_scale_thm tw twopi c (x w : list F) NFFT isreal dt sbf fs :
  speriodogram tw twopi (vscale c x) w NFFT isreal dt sbf fs
  = vscale (nrm2 c) (speriodogram tw twopi x w NFFT isreal dt sbf fs).
Proof.
  unfold speriodogram. rewrite !su_vscale_length.
  rewrite <- psd_scale_vscale, <- bins_vscale, <- spectrum_of_vscale. do 3 f_equal.
  rewrite su_vscale_mk. apply mk_ext; intros i _. rewrite nthF_vscale.
  destruct (py_eq_true dt); [rewrite mean_vscale|]; ring.
Qed.

(* ---------- 2-D input: X is the list of rows, the scalar multiplies every entry ---------- *)
Lemma colL_vscale c (M : list (list F)) j : colL (map (vscale c) M) j = vscale c (colL M j).
Proof. unfold colL, vscale. rewrite !map_map. apply map_ext; intros row. apply (nthF_vscale c row j). Qed.
Lemma transposeL_vscale s r ncol (M : list (list F)) :
  transposeL r ncol (map (vscale s) M) = map (vscale s) (transposeL r ncol M).
Proof.
  unfold transposeL. rewrite map_map. apply map_ext; intros i. rewrite su_vscale_mk. apply mk_ext; intros j _.
  rewrite su_nth_map_vscale. apply nthF_vscale.
Qed.
Theorem periodogram2d_scale_thm tw twopi c (X : list (list F)) ncol (w : list F) NFFT isreal dt sbf fs :
  speriodogram2d tw twopi (map (vscale c) X) ncol w NFFT isreal dt sbf fs
  = map (vscale (nrm2 c)) (speriodogram2d tw twopi X ncol w NFFT isreal dt sbf fs).
Proof.
  unfold speriodogram2d. rewrite !map_length.
  set (r := length X). set (n := resolve NFFT r). set (W := transposeL r ncol (repeat w ncol)).
  set (Y := map (fun i => mk ncol (fun j => nthF (nth i X []) j * nthF (nth i W []) j
                                           - (if py_eq_true dt then mean (colL X j) else 0))) (seq 0 r)).
  assert (EY : map (fun i => mk ncol (fun j => nthF (nth i (map (vscale c) X) []) j * nthF (nth i W []) j
                                           - (if py_eq_true dt then mean (colL (map (vscale c) X) j) else 0))) (seq 0 r)
               = map (vscale c) Y).
  { unfold Y. rewrite map_map. apply map_ext; intros i. rewrite su_vscale_mk. apply mk_ext; intros j _.
    rewrite su_nth_map_vscale, nthF_vscale, colL_vscale. destruct (py_eq_true dt); [rewrite mean_vscale|]; ring. }
  rewrite EY.
  set (S := map (fun j => map (fun z => nrm2 z / ofnat r) (spectrum_of tw isreal n (colL Y j))) (seq 0 ncol)).
  assert (ES : map (fun j => map (fun z => nrm2 z / ofnat r) (spectrum_of tw isreal n (colL (map (vscale c) Y) j))) (seq 0 ncol)
               = map (vscale (nrm2 c)) S).
  { unfold S. rewrite map_map. apply map_ext; intros j. rewrite colL_vscale, spectrum_of_vscale. apply bins_vscale. }
  rewrite ES, transposeL_vscale.
  destruct (py_is_true sbf); [|reflexivity].
  rewrite !map_map. apply map_ext; intros row. apply su_map_vscale. intros a. ring.
Qed.

(* ---------- the Periodogram object: the same sequence of operations on the object built from c*x ---------- *)
Definition pstate_scale (c : F) (s : @pstate F) : @pstate F :=
  mkP (vscale c (p_data s)) (p_isreal s) (p_wname s) (p_window s) (p_sampling s) (p_NFFT s) (p_rangeN s)
      (p_detrend s) (p_sbf s) (option_map (vscale (nrm2 c)) (p_psd s)) (p_modified s).
Lemma p_store_scale c (s : pstate) psd :
  p_store (pstate_scale c s) (vscale (nrm2 c) psd) = pstate_scale c (p_store s psd).
Proof.
  unfold p_store, pstate_scale; cbn [p_data p_isreal p_wname p_window p_sampling p_NFFT p_rangeN p_detrend p_sbf p_psd p_modified].
  rewrite su_vscale_length. destruct (p_isreal s); reflexivity.
Qed.
Lemma p_call_scale tw twopi c (s : pstate) : p_call tw twopi (pstate_scale c s) = pstate_scale c (p_call tw twopi s).
Proof.
  unfold p_call. cbn [pstate_scale p_data p_isreal p_wname p_window p_sampling p_NFFT p_rangeN p_detrend p_sbf].
  rewrite periodogram_scale_thm. fold (pstate_scale c s). rewrite p_store_scale.
  set (psd := speriodogram tw twopi (p_data s) (p_window s) (Some (p_NFFT s)) (p_isreal s) (p_detrend s) PyFalse (p_sampling s)).
  assert (E1 : p_sbf (pstate_scale c (p_store s psd)) = p_sbf (p_store s psd)) by reflexivity.
  assert (E2 : p_sampling (pstate_scale c (p_store s psd)) = p_sampling (p_store s psd)) by reflexivity.
  assert (E3 : p_rangeN (pstate_scale c (p_store s psd)) = p_rangeN (p_store s psd)) by reflexivity.
  rewrite E1, E2, E3. destruct (py_is_true (p_sbf (p_store s psd))); [|reflexivity].
  rewrite (su_map_vscale _ (nrm2 c) (nrm2 c)) by (intros a; ring). apply p_store_scale.
Qed.
Theorem p_step_scale_thm tw twopi c (s : pstate) (o : pop) :
  p_step tw twopi (pstate_scale c s) o = pstate_scale c (p_step tw twopi s o).
Proof.
  destruct o as [| |nm w]; cbn [p_step].
  - apply p_call_scale.
  - unfold p_read. cbn [pstate_scale p_psd p_modified]. fold (pstate_scale c s).
    destruct (p_psd s); cbn [option_map]; [destruct (p_modified s); [apply p_call_scale|reflexivity]|apply p_call_scale].
  - unfold p_set_window. cbn [pstate_scale p_wname]. destruct (nm =? p_wname s)%nat; reflexivity.
Qed.
Theorem periodogram_class_scale_thm tw twopi c (data : list F) isreal wname w fs a dt sbf (ops : list pop) :
  fold_left (p_step tw twopi) ops (p_init (vscale c data) isreal wname w fs a dt sbf)
  = pstate_scale c (fold_left (p_step tw twopi) ops (p_init data isreal wname w fs a dt sbf)).
Proof.
  assert (E : p_init (vscale c data) isreal wname w fs a dt sbf = pstate_scale c (p_init data isreal wname w fs a dt sbf)).
  { unfold p_init, pstate_scale. cbn. rewrite su_vscale_length. reflexivity. }
  rewrite E. generalize (p_init data isreal wname w fs a dt sbf). induction ops as [|o ops IH]; intros s; [reflexivity|].
  cbn [fold_left]. rewrite p_step_scale_thm. apply IH.
Qed.

(* ---------- correlation with two arguments, xcorr ---------- *)
Lemma lag_sum_scale2 c N (x y : list F) k :
  lag_sum N (vscale c x) (vscale c y) k = nrm2 c * lag_sum N x y k.
Proof.
  unfold lag_sum. rewrite !sumL_mk, <- sumf_scale. apply sumf_ext; intros j _.
  rewrite !nthF_vscale, conj_mul. unfold nrm2. ring.
Qed.
Lemma xlag_scale c N (x y : list F) d : xlag N (vscale c x) (vscale c y) d = nrm2 c * xlag N x y d.
Proof.
  unfold xlag. destruct (0 <=? d)%Z; [apply lag_sum_scale2|].
  rewrite !sumL_mk, <- sumf_scale. apply sumf_ext; intros j _.
  rewrite !nthF_vscale, conj_mul. unfold nrm2. ring.
Qed.
(* the factor by which the correlation sequence is multiplied: |c|^2, except 'coeff' which is invariant *)
Definition cfac (nm : cnorm) (c : F) : F := match nm with Coeff => 1 | _ => nrm2 c end.
(* rp (= rms(x) rms(y), read by 'coeff' only) is multiplied by |c|^2 like every second-order quantity *)
Lemma correlation_scale c rp (x y : list F) ml nm : (nm = Coeff -> c <> 0 /\ rp <> 0) ->
  correlation (nrm2 c * rp) (vscale c x) (vscale c y) ml nm
  = option_map (vscale (cfac nm c)) (correlation rp x y ml nm).
Proof.
  intros Hco. unfold correlation. cbv zeta. rewrite !su_vscale_length.
  destruct (ml <? Nat.max (length x) (length y))%nat; [|reflexivity]. cbn [option_map]. f_equal.
  rewrite su_vscale_mk. apply mk_ext; intros k _. rewrite lag_sum_scale2.
  destruct nm; destruct k; cbn [cfac]; rewrite ?su_div_scale; try reflexivity; try ring.
  destruct (Hco eq_refl) as [Hc Hrp]. rewrite <- !su_div_scale. f_equal. field.
  split; [exact Hrp|apply su_nrm2_neq0; exact Hc].
Qed.
Lemma xcorr_scale c rp (x y : list F) ml nm : (nm = Coeff -> c <> 0 /\ rp <> 0) ->
  xcorr (nrm2 c * rp) (vscale c x) (vscale c y) ml nm
  = option_map (vscale (cfac nm c)) (xcorr rp x y ml nm).
Proof.
  intros Hco. unfold xcorr. cbv zeta. rewrite !su_vscale_length.
  destruct (negb (length y =? length x)%nat || (length x <? ml)%nat); [reflexivity|]. cbn [option_map]. f_equal.
  rewrite su_vscale_mk. apply mk_ext; intros i _. rewrite xlag_scale.
  destruct nm; cbn [cfac]; rewrite ?su_div_scale; try reflexivity.
  destruct (Hco eq_refl) as [Hc Hrp]. rewrite <- !su_div_scale. f_equal. field.
  split; [exact Hrp|apply su_nrm2_neq0; exact Hc].
Qed.
Lemma corr_pos_scale be c rp (x y : list F) lag nm : (nm = Coeff -> c <> 0 /\ rp <> 0) ->
  corr_pos be (nrm2 c * rp) (vscale c x) (vscale c y) lag nm
  = option_map (vscale (cfac nm c)) (corr_pos be rp x y lag nm).
Proof.
  intros Hco. unfold corr_pos. destruct be.
  - rewrite (xcorr_scale c rp x y lag nm Hco). destruct (xcorr rp x y lag nm); cbn [option_map]; [|reflexivity].
    rewrite su_vscale_skipn. reflexivity.
  - apply correlation_scale. exact Hco.
Qed.

(* slice assignments commute with the multiplication *)
Lemma set_nth_vscale s i (v : F) (l : list F) : set_nth i (s * v) (vscale s l) = vscale s (set_nth i v l).
Proof. revert i. induction l as [|a l IH]; intros i; [destruct i; reflexivity|]. destruct i; cbn; [reflexivity|]. f_equal. apply IH. Qed.
Lemma writes_vscale s n idx (v : nat -> F) (l : list F) :
  writes n idx (fun t => s * v t) (vscale s l) = vscale s (writes n idx v l).
Proof. induction n as [|n IH]; [reflexivity|]. cbn [writes]. rewrite IH. apply set_nth_vscale. Qed.
Lemma writes_ext n idx (v v' : nat -> F) (l : list F) : (forall t, v t = v' t) -> writes n idx v l = writes n idx v' l.
Proof. intros H. induction n as [|n IH]; [reflexivity|]. cbn [writes]. rewrite IH, H. reflexivity. Qed.

(* CORRELOGRAMPSD(c*X, c*Y) = |c|^2 CORRELOGRAMPSD(X, Y) for the biased / unbiased / unnormalised lags (every NFFT, lag,
   window, both correlation back ends, auto and cross spectrum, same error branches); invariant for norm='coeff' *)
Theorem correlogram_scale_thm tw c rp (x : list F) (y : option (list F)) lag (wfull : list F) NFFT nm be :
  (nm = Coeff -> c <> 0 /\ rp <> 0) ->
  correlogram tw (nrm2 c * rp) (vscale c x) (option_map (vscale c) y) lag wfull NFFT nm be
  = option_map (vscale (cfac nm c)) (correlogram tw rp x y lag wfull NFFT nm be).
Proof.
  intros Hco. unfold correlogram. cbv zeta. rewrite su_vscale_length.
  set (n := resolve NFFT (length x)).
  destruct (negb (lag <? length x)%nat); [reflexivity|].
  destruct (n =? 0)%nat; [reflexivity|].
  destruct ((n <? lag + 1)%nat && negb (lag =? 1)%nat); [reflexivity|].
  set (s := cfac nm c).
  assert (Hs : conj s = s) by (unfold s, cfac; destruct nm; first [apply nrm2_real|apply conj_1]).
  assert (E1 : corr_pos be (nrm2 c * rp) (vscale c x) match option_map (vscale c) y with None => vscale c x | Some v => v end lag nm
               = option_map (vscale s) (corr_pos be rp x match y with None => x | Some v => v end lag nm)).
  { destruct y; cbn [option_map]; apply corr_pos_scale; exact Hco. }
  rewrite E1. destruct (corr_pos be rp x match y with None => x | Some v => v end lag nm) as [rxy|]; [|reflexivity].
  cbn [option_map].
  assert (E2 : match option_map (vscale c) y with None => Some (vscale s rxy) | Some v => corr_pos be (nrm2 c * rp) v (vscale c x) lag nm end
               = option_map (vscale s) match y with None => Some rxy | Some v => corr_pos be rp v x lag nm end).
  { destruct y; cbn [option_map]; [apply corr_pos_scale; exact Hco|reflexivity]. }
  rewrite E2. destruct (match y with None => Some rxy | Some v => corr_pos be rp v x lag nm end) as [ryx|]; [|reflexivity].
  cbn [option_map]. f_equal.
  set (w := skipn (lag + 1) wfull).
  set (p0 := set_nth 0 (nthF rxy 0) (mk n (fun _ => 0))).
  assert (E0 : set_nth 0 (nthF (vscale s rxy) 0) (mk n (fun _ => 0)) = vscale s p0).
  { unfold p0. rewrite <- set_nth_vscale, nthF_vscale. f_equal. rewrite su_vscale_mk. apply mk_ext; intros; ring. }
  rewrite E0.
  set (p1 := writes lag (fun t => (1 + t)%nat) (fun t => nthF rxy (1 + t) * nthF w t) p0).
  assert (Ep1 : writes lag (fun t => (1 + t)%nat) (fun t => nthF (vscale s rxy) (1 + t) * nthF w t) (vscale s p0) = vscale s p1).
  { unfold p1. rewrite <- writes_vscale. apply writes_ext; intros t. rewrite nthF_vscale. ring. }
  rewrite Ep1.
  assert (Ep2 : writes lag (fun t => (n - 1 - t)%nat) (fun t => conj (nthF (vscale s ryx) (1 + t)) * nthF w t) (vscale s p1)
                = vscale s (writes lag (fun t => (n - 1 - t)%nat) (fun t => conj (nthF ryx (1 + t)) * nthF w t) p1)).
  { rewrite <- writes_vscale. apply writes_ext; intros t. rewrite nthF_vscale, conj_mul, Hs. ring. }
  rewrite Ep2.
  assert (Eif : (if (n <? lag + 1)%nat then vscale s p0
                 else vscale s (writes lag (fun t => (n - 1 - t)%nat) (fun t => conj (nthF ryx (1 + t)) * nthF w t) p1))
                = vscale s (if (n <? lag + 1)%nat then p0
                            else writes lag (fun t => (n - 1 - t)%nat) (fun t => conj (nthF ryx (1 + t)) * nthF w t) p1))
    by (destruct (n <? lag + 1)%nat; reflexivity).
  rewrite Eif, su_dft_vscale. apply su_map_vscale. intros a. apply su_re_scale. exact Hs.
Qed.
End ScalePer.
