(* arma.arma2psd: the IR program generated from the Python source computes the hand-written model Model.Arma2psd.arma2psd.

   [prog_arma2psd_ref] is the loop-IR program that tools/props/_loopir.py generates from spectrum.arma.arma2psd (with
   tools.twosided_2_centerdc embedded) at the commit this file was written for (kept verbatim below, between the BEGIN/END markers, as
   [prog_arma2psd_gen0]; the two are equal by reflexivity).  The check regenerates the program on every run and instantiates the
   theorems below only when the text is identical.

   PROVED (abstract field with conjugation [Laws]; every feq, stop; EVERY twiddle family tw - no Twiddle hypothesis is needed: the
   transform of the IR and of the model are the same term [dft (tw NFFT) NFFT]; any A, B (absent or arrays of any length and dtype tag),
   rho, T given or omitted, any NFFT (a natural number), sides omitted or ANY string, norm omitted / False / True):
     arma2psd_ir_run   run prog_arma2psd_ref (arma2psd_args tw A B rho T NFFT sides norm) = arma2psd_spec tw A B rho T NFFT sides norm
                       i.e.  A and B absent                 -> ValueError
                             NFFT <= len(A) or <= len(B)    -> IndexError      (den[k+1] / num[k+1], or den[0] when NFFT = 0)
                             sides not 'default'/'centerdc' -> AssertionError
                             otherwise                      -> ORet [the list of Model.Arma2psd.arma2psd (tw NFFT) A B rho T NFFT sides norm]
                       (tagged float after numpy.real; after psd /= max(psd) the IR's tag is complex: IR scalars carry no dtype)
     arma2psd_ir_tie   for a reflexive [feq]: tie_arma2psd feq tw prog_arma2psd_ref ... = true for EVERY input
   NOT PROVED / outside the statement: NFFT omitted or None (4096 points), a negative NFFT (numpy.zeros raises ValueError; NFFT is a
   natural number here), norm given as an int (1 == True in Python; the IR's EIsBool is a TypeError there). *)
From Coq Require Import String ZArith List Lia Bool.
Require Import Spectrum.Theory.Ops Spectrum.Theory.Sum Spectrum.Theory.Vec Spectrum.Theory.Dft Spectrum.Model.LoopIR Spectrum.Model.Arma2psd
               Spectrum.Model.LoopIRTie Spectrum.Model.LoopIRVec Spectrum.Proofs.LoopIRLevinson Spectrum.Proofs.LoopIRLevup
               Spectrum.Proofs.LoopIRMinvarPsi.
Import ListNotations.

(* slots 0=A 1=B 2=rho 3=T 4=NFFT 5=sides 6=norm 7=fft@tw 8=psd 9=ip 10=den 11=k 12=denf 13=iq 14=num 15=numf *)
(* the block  ip = len(A); den = zeros(NFFT); den[0] = 1.+0j; for k in range(0, ip): den[k+1] = A[k]; denf = fft(den, NFFT) *)
Definition a2_body (src arr : nat) : stmt := SStore arr (EBin BAdd (EVar 11) (EInt 1)) (EIndex (EVar src) (EVar 11)).
Definition a2_loop (src len arr : nat) : stmt := SFor 11 (EInt 0) (EVar len) (EInt 1) (a2_body src arr).
Definition a2_fill (src len arr out : nat) : stmt :=
  SSeq (SAssign len (ELen (EVar src)))
  (SSeq (SAssign arr (EZeros (EVar 4) false))
  (SSeq (SStore arr (EInt 0) (EBin BAdd (ELit 1 0) (ELit 0 0)))
  (SSeq (a2_loop src len arr)
        (SAssign out (EFft (EVar arr) (Some (EVar 4)) (EVar 7)))))).
Definition a2_combine : stmt :=
  SIf (EAnd (ENot (EIsNone (EVar 0))) (ENot (EIsNone (EVar 1))))
    (SAssign 8 (EBin BDiv (EBin BMul (EBin BDiv (EVar 2) (EVar 3)) (ENrm2 (EVar 15))) (ENrm2 (EVar 12))))
    (SIf (ENot (EIsNone (EVar 0)))
       (SAssign 8 (EBin BDiv (EBin BDiv (EVar 2) (EVar 3)) (ENrm2 (EVar 12))))
       (SIf (ENot (EIsNone (EVar 1)))
          (SAssign 8 (EBin BMul (EBin BDiv (EVar 2) (EVar 3)) (ENrm2 (EVar 15))))
          SSkip)).
Local Open Scope string_scope.
Definition a2_sides : stmt :=
  SIf (ECmp CNe (EVar 5) (EStr "default"))
    (SSeq (SAssert (ECmp CEq (EVar 5) (EStr "centerdc")))
          (SIf (ECmp CEq (EVar 5) (EStr "centerdc"))
             (SCall1 8 1 [None] 1 (SReturn [EFftShift (EVar 0)]) [Some (EVar 8)])
             SSkip))
    SSkip.
Definition a2_norm : stmt :=
  SIf (EIsBool true (EVar 6)) (SAssign 8 (EBin BDiv (EVar 8) (EMaxArr (EVar 8)))) SSkip.
Definition a2_tail : stmt :=
  SSeq a2_combine
  (SSeq (SAssign 8 (EReal (EVar 8)))
  (SSeq a2_sides
  (SSeq a2_norm
        (SReturn [EVar 8])))).
Definition a2_main : stmt :=
  SSeq (SIf (EIsNone (EVar 4)) (SAssign 4 (EInt 4096)) SSkip)
  (SSeq (SIf (EAnd (EIsNone (EVar 0)) (EIsNone (EVar 1))) (SRaise ValueError) SSkip)
  (SSeq (SAssign 8 (EZeros (EVar 4) false))
  (SSeq (SIf (ENot (EIsNone (EVar 0))) (a2_fill 0 9 10 12) SSkip)
  (SSeq (SIf (ENot (EIsNone (EVar 1))) (a2_fill 1 13 14 15) SSkip)
        a2_tail)))).
Definition prog_arma2psd_ref : program :=
  mkProgram "arma2psd" 8 [Some ENone; Some ENone; Some (ELit 1 0); Some (ELit 1 0); Some (EInt 4096); Some (EStr "default"); Some (EBool false); None] 16
            a2_main.
Local Close Scope string_scope.

Section A2.
Context {F : Type} {OF : Ops F} {L : Laws OF}.
Variable feq : F -> F -> bool.
Variable stop : Z -> F -> F -> bool.
Local Open Scope F_scope.
Local Open Scope list_scope.
Add Field FFira2 : (fth (O:=OF)).
Notation value := (@value F).
Notation store := (@store F).
Notation exec := (@exec F OF feq stop).

Definition ast (vA vB vrho vT vN vsd vnm vtw psd ip den k denf iq num numf : value) : store :=
  [vA; vB; vrho; vT; vN; vsd; vnm; vtw; psd; ip; den; k; denf; iq; num; numf].
Ltac ev := cbn [LoopIR.exec LoopIR.eval get set nth ast bind try asZ asArr asF ok err fst snd arith arithZ fop compare cmpF cmpZ eqne truthy
                eval_list eval_opt].

(* the coefficient array after i passes of the loop *)
Definition fill_upto (nfft : nat) (c : list F) (i : nat) : list F := pad nfft (1 :: firstn i c).
Lemma fill_upto_length nfft c i : length (fill_upto nfft c i) = nfft.
Proof. apply mk_length. Qed.
Lemma fill_upto_0 nfft c : (0 < nfft)%nat -> updF (zeros nfft) 0 (lit 1 0 + lit 0 0) = fill_upto nfft c 0.
Proof.
  intros Hn. rewrite lit_one_zero. apply list_eq_nth.
  - rewrite updF_length, zeros_length, fill_upto_length. reflexivity.
  - intros j Hj. rewrite updF_length, zeros_length in Hj.
    rewrite nthF_updF by (rewrite zeros_length; exact Hn). unfold fill_upto, pad. rewrite nth_mk by exact Hj.
    cbn [firstn]. destruct j as [|j]; cbn [Nat.eqb]; [reflexivity|].
    rewrite nthF_zeros. unfold nthF. cbn [nth]. destruct j; reflexivity.
Qed.
Lemma fill_upto_S nfft c i : (S i < nfft)%nat -> (i < length c)%nat ->
  updF (fill_upto nfft c i) (S i) (nthF c i) = fill_upto nfft c (S i).
Proof.
  intros Hn Hc. apply list_eq_nth.
  - rewrite updF_length, !fill_upto_length. reflexivity.
  - intros j Hj. rewrite updF_length, fill_upto_length in Hj.
    rewrite nthF_updF by (rewrite fill_upto_length; exact Hn). unfold fill_upto, pad. rewrite !nth_mk by exact Hj.
    destruct j as [|j]; [reflexivity|]. cbn [Nat.eqb]. unfold nthF at 2 3. cbn [nth]. fold (nthF (firstn (S i) c) j). fold (nthF (firstn i c) j).
    destruct (Nat.eqb_spec j i) as [->|Hne].
    + rewrite nthF_firstn by lia. reflexivity.
    + destruct (Nat.lt_ge_cases j i) as [Hlt|Hge].
      * rewrite !nthF_firstn by lia. reflexivity.
      * rewrite !nthF_overflow; [reflexivity| |]; rewrite firstn_length; lia.
Qed.
Lemma fill_upto_all nfft c : fill_upto nfft c (length c) = pad nfft (1 :: c).
Proof. unfold fill_upto. rewrite firstn_all. reflexivity. Qed.

(* the first n passes of the loop (n <= len(c), n + 1 <= NFFT): generic in the slots through [mkst] *)
Section Fill.
Variables (src len arr : nat).
Variable mkst : value -> value -> store.        (* the store as a function of (array being filled, loop variable) *)
Variable tc : bool.
Variable c : list F.
Variable nfft : nat.
Hypothesis get_src : forall a k, get (mkst a k) src = inl (VArr tc c).
Hypothesis get_k : forall a i, get (mkst a (VI i)) 11 = inl (VI i).
Hypothesis get_arr : forall r l k, get (mkst (VArr r l) k) arr = inl (VArr r l).
Hypothesis set_k : forall a k v, set (mkst a k) 11 v = mkst a v.
Hypothesis set_arr : forall a k v, set (mkst a k) arr v = mkst v k.

Lemma a2_pass_ok i vk : (i < length c)%nat ->
  exists s', exec (a2_body src arr) (set (mkst (VArr false (fill_upto nfft c i)) vk) 11 (VI (Z.of_nat i)))
             = (s', if (S i <? nfft)%nat then CNormal else CErr IndexError)
             /\ ((S i < nfft)%nat -> s' = mkst (VArr false (fill_upto nfft c (S i))) (VI (Z.of_nat i))).
Proof.
  intros Hi. rewrite set_k. unfold a2_body.
  cbn [LoopIR.exec LoopIR.eval]. rewrite get_arr, get_k, get_src.
  cbn [bind try asArr asZ ok fst snd arith arithZ].
  replace (Z.of_nat i + 1)%Z with (Z.of_nat (S i)) by lia.
  destruct (Nat.ltb_spec (S i) nfft) as [Hn|Hn].
  - rewrite norm_index_nat by (rewrite fill_upto_length; exact Hn). cbn [bind ok].
    rewrite norm_index_nat by exact Hi. cbn [bind ok asF try fst snd].
    rewrite fill_upto_S by assumption. rewrite set_arr. eexists. split; [reflexivity|]. intros _. reflexivity.
  - eexists. split; [|lia].
    unfold norm_index at 1. rewrite fill_upto_length.
    replace (Z.of_nat (S i) <? 0)%Z with false by (symmetry; apply Z.ltb_ge; lia).
    replace ((0 <=? Z.of_nat (S i))%Z && (Z.of_nat (S i) <? Z.of_nat nfft)%Z) with false
      by (symmetry; apply andb_false_iff; right; apply Z.ltb_ge; lia).
    cbn [bind err try]. reflexivity.
Qed.

Lemma a2_loop_upto n vk : (n <= length c)%nat -> (n < nfft)%nat ->
  exists vk', for_loop (exec (a2_body src arr)) 11 (range_from 0 1 n)
                (mkst (VArr false (fill_upto nfft c 0)) vk)
              = (mkst (VArr false (fill_upto nfft c n)) vk', CNormal).
Proof.
  intros Hn Hf.
  destruct (for_loop_inv (exec (a2_body src arr)) 11
              (fun i s => exists vk', s = mkst (VArr false (fill_upto nfft c i)) vk') n (mkst (VArr false (fill_upto nfft c 0)) vk))
    as [s' [E [vk' ->]]].
  - exists vk. reflexivity.
  - intros i s Hi [vk' ->].
    destruct (a2_pass_ok i vk' ltac:(lia)) as [s2 [E2 H2]].
    replace (S i <? nfft)%nat with true in E2 by (symmetry; apply Nat.ltb_lt; lia).
    exists s2. split; [exact E2|]. rewrite (H2 ltac:(lia)). eexists. reflexivity.
  - exists vk'. exact E.
Qed.
End Fill.

Definition specdft (tw : nat -> Z -> F) (nfft : nat) (c : list F) : list F := dft (tw nfft) nfft (pad nfft (1 :: c)).

(* the whole block, for the AR part (slots 0, 9, 10, 12) ... *)
Lemma fillA_ok tA (c : list F) vB vrho vT nfft vsd vnm tw psd ip den k denf iq num numf :
  exists s',
    exec (a2_fill 0 9 10 12) (ast (VArr tA c) vB vrho vT (VI (Z.of_nat nfft)) vsd vnm (VTw tw) psd ip den k denf iq num numf)
    = (s', if (length c <? nfft)%nat then CNormal else CErr IndexError)
    /\ ((length c < nfft)%nat -> exists k',
          s' = ast (VArr tA c) vB vrho vT (VI (Z.of_nat nfft)) vsd vnm (VTw tw) psd (VI (Z.of_nat (length c)))
                   (VArr false (pad nfft (1 :: c))) k' (VArr false (specdft tw nfft c)) iq num numf).
Proof.
  unfold a2_fill.
  erewrite exec_seq; [|ev; reflexivity].
  erewrite exec_seq.
  2:{ ev. replace (Z.of_nat nfft <? 0)%Z with false by (symmetry; apply Z.ltb_ge; lia). rewrite Nat2Z.id. reflexivity. }
  fold (zeros nfft).
  destruct nfft as [|n1].
  { (* NFFT = 0: den[0] raises *)
    eexists. split; [|cbn [Nat.ltb Nat.leb]; lia].
    replace (length c <? 0)%nat with false by (symmetry; apply Nat.ltb_ge; lia).
    apply exec_seq_stop; [|discriminate]. ev. reflexivity. }
  set (nfft := S n1). assert (Hpos : (0 < nfft)%nat) by (unfold nfft; lia).
  erewrite exec_seq.
  2:{ ev. rewrite zeros_length. rewrite (norm_index_ok nfft 0) by lia. change (Z.to_nat 0) with 0%nat. ev. rewrite (fill_upto_0 nfft c Hpos). reflexivity. }
  set (mk2 := fun a k2 : value => ast (VArr tA c) vB vrho vT (VI (Z.of_nat nfft)) vsd vnm (VTw tw) psd (VI (Z.of_nat (length c))) a k2 denf iq num numf).
  assert (G0 : forall a k2, get (mk2 a k2) 9 = inl (VI (Z.of_nat (length c)))) by reflexivity.
  assert (G1 : forall a k2, get (mk2 a k2) 0 = inl (VArr tA c)) by reflexivity.
  assert (G2 : forall a i, get (mk2 a (VI i)) 11 = inl (VI i)) by reflexivity.
  assert (G3 : forall r l k2, get (mk2 (VArr r l) k2) 10 = inl (VArr r l)) by reflexivity.
  assert (G4 : forall a k2 v, set (mk2 a k2) 11 v = mk2 a v) by reflexivity.
  assert (G5 : forall a k2 v, set (mk2 a k2) 10 v = mk2 v k2) by reflexivity.
  destruct (Nat.ltb_spec (length c) nfft) as [Hlt|Hge].
  - destruct (a2_loop_upto 0 10 mk2 tA c nfft G1 G2 G3 G4 G5 (length c) k (le_n _) Hlt) as [vk' E].
    eexists. split.
    + erewrite exec_seq.
      2:{ unfold a2_loop. ev. rewrite range_vals_nat. cbn [try]. unfold mk2, ast in E. rewrite E. reflexivity. }
      unfold mk2. ev. rewrite fill_upto_length.
      unfold fft_points. replace (Z.of_nat nfft <=? 0)%Z with false by (symmetry; apply Z.leb_gt; lia). cbn [bind ok]. rewrite Nat2Z.id.
      rewrite fill_upto_all. reflexivity.
    + intros _. exists vk'. reflexivity.
  - destruct (a2_loop_upto 0 10 mk2 tA c nfft G1 G2 G3 G4 G5 n1 k ltac:(unfold nfft in Hge; lia) ltac:(unfold nfft; lia)) as [vk' E].
    destruct (a2_pass_ok 0 10 mk2 tA c nfft G1 G2 G3 G4 G5 n1 vk' ltac:(unfold nfft in Hge; lia)) as [s2 [E2 _]].
    replace (S n1 <? nfft)%nat with false in E2 by (symmetry; apply Nat.ltb_irrefl).
    unfold mk2, ast in E, E2.
    exists s2. split; [|lia].
    apply exec_seq_stop; [|discriminate].
    unfold a2_loop. ev. rewrite range_vals_nat. cbn [try].
    assert (Er : range_from 0 1 (length c) = range_from 0 1 n1 ++ range_from (0 + Z.of_nat n1) 1 (length c - n1)).
    { rewrite <- range_from_app. f_equal. unfold nfft in Hge. lia. }
    rewrite Er, for_loop_app. rewrite E.
    destruct (length c - n1)%nat as [|d] eqn:Ed; [unfold nfft in Hge; lia|]. cbn [range_from for_loop]. rewrite Z.add_0_l.
    rewrite E2. reflexivity.
Qed.
(* ... and for the MA part (slots 1, 13, 14, 15) *)
Lemma fillB_ok tA (c : list F) vA vrho vT nfft vsd vnm tw psd ip den k denf iq num numf :
  exists s',
    exec (a2_fill 1 13 14 15) (ast vA (VArr tA c) vrho vT (VI (Z.of_nat nfft)) vsd vnm (VTw tw) psd ip den k denf iq num numf)
    = (s', if (length c <? nfft)%nat then CNormal else CErr IndexError)
    /\ ((length c < nfft)%nat -> exists k',
          s' = ast vA (VArr tA c) vrho vT (VI (Z.of_nat nfft)) vsd vnm (VTw tw) psd ip den k' denf (VI (Z.of_nat (length c)))
                   (VArr false (pad nfft (1 :: c))) (VArr false (specdft tw nfft c))).
Proof.
  unfold a2_fill.
  erewrite exec_seq; [|ev; reflexivity].
  erewrite exec_seq.
  2:{ ev. replace (Z.of_nat nfft <? 0)%Z with false by (symmetry; apply Z.ltb_ge; lia). rewrite Nat2Z.id. reflexivity. }
  fold (zeros nfft).
  destruct nfft as [|n1].
  { (* NFFT = 0: den[0] raises *)
    eexists. split; [|cbn [Nat.ltb Nat.leb]; lia].
    replace (length c <? 0)%nat with false by (symmetry; apply Nat.ltb_ge; lia).
    apply exec_seq_stop; [|discriminate]. ev. reflexivity. }
  set (nfft := S n1). assert (Hpos : (0 < nfft)%nat) by (unfold nfft; lia).
  erewrite exec_seq.
  2:{ ev. rewrite zeros_length. rewrite (norm_index_ok nfft 0) by lia. change (Z.to_nat 0) with 0%nat. ev. rewrite (fill_upto_0 nfft c Hpos). reflexivity. }
  set (mk2 := fun a k2 : value => ast vA (VArr tA c) vrho vT (VI (Z.of_nat nfft)) vsd vnm (VTw tw) psd ip den k2 denf (VI (Z.of_nat (length c))) a numf).
  assert (G0 : forall a k2, get (mk2 a k2) 13 = inl (VI (Z.of_nat (length c)))) by reflexivity.
  assert (G1 : forall a k2, get (mk2 a k2) 1 = inl (VArr tA c)) by reflexivity.
  assert (G2 : forall a i, get (mk2 a (VI i)) 11 = inl (VI i)) by reflexivity.
  assert (G3 : forall r l k2, get (mk2 (VArr r l) k2) 14 = inl (VArr r l)) by reflexivity.
  assert (G4 : forall a k2 v, set (mk2 a k2) 11 v = mk2 a v) by reflexivity.
  assert (G5 : forall a k2 v, set (mk2 a k2) 14 v = mk2 v k2) by reflexivity.
  destruct (Nat.ltb_spec (length c) nfft) as [Hlt|Hge].
  - destruct (a2_loop_upto 1 14 mk2 tA c nfft G1 G2 G3 G4 G5 (length c) k (le_n _) Hlt) as [vk' E].
    eexists. split.
    + erewrite exec_seq.
      2:{ unfold a2_loop. ev. rewrite range_vals_nat. cbn [try]. unfold mk2, ast in E. rewrite E. reflexivity. }
      unfold mk2. ev. rewrite fill_upto_length.
      unfold fft_points. replace (Z.of_nat nfft <=? 0)%Z with false by (symmetry; apply Z.leb_gt; lia). cbn [bind ok]. rewrite Nat2Z.id.
      rewrite fill_upto_all. reflexivity.
    + intros _. exists vk'. reflexivity.
  - destruct (a2_loop_upto 1 14 mk2 tA c nfft G1 G2 G3 G4 G5 n1 k ltac:(unfold nfft in Hge; lia) ltac:(unfold nfft; lia)) as [vk' E].
    destruct (a2_pass_ok 1 14 mk2 tA c nfft G1 G2 G3 G4 G5 n1 vk' ltac:(unfold nfft in Hge; lia)) as [s2 [E2 _]].
    replace (S n1 <? nfft)%nat with false in E2 by (symmetry; apply Nat.ltb_irrefl).
    unfold mk2, ast in E, E2.
    exists s2. split; [|lia].
    apply exec_seq_stop; [|discriminate].
    unfold a2_loop. ev. rewrite range_vals_nat. cbn [try].
    assert (Er : range_from 0 1 (length c) = range_from 0 1 n1 ++ range_from (0 + Z.of_nat n1) 1 (length c - n1)).
    { rewrite <- range_from_app. f_equal. unfold nfft in Hge. lia. }
    rewrite Er, for_loop_app. rewrite E.
    destruct (length c - n1)%nat as [|d] eqn:Ed; [unfold nfft in Hge; lia|]. cbn [range_from for_loop]. rewrite Z.add_0_l.
    rewrite E2. reflexivity.
Qed.

(* ---------------- numpy.real, sides, norm, return *)
Lemma maxL_vmax (l : list F) : l <> [] -> maxL l = inl (vmax l).
Proof. destruct l; [congruence|reflexivity]. Qed.
Lemma nonempty_of_length (l : list F) n : length l = n -> (0 < n)%nat -> l <> [].
Proof. intros H Hn ->. cbn in H. lia. Qed.
Lemma fftshiftL_length (l : list F) : length (fftshiftL l) = length l.
Proof. apply mk_length. Qed.

Definition a2_post : stmt := SSeq (SAssign 8 (EReal (EVar 8))) (SSeq a2_sides (SSeq a2_norm (SReturn [EVar 8]))).
Definition sides_of (sd : string) : option arma_sides := arma_sides_of (Some sd).

Lemma post_ok vA vB vrho vT vN (sd : string) (nm : bool) vtw tg (P : list F) ip den k denf iq num numf :
  P <> [] ->
  exists s',
    exec a2_post (ast vA vB vrho vT vN (VStr sd) (VB nm) vtw (VArr tg P) ip den k denf iq num numf)
    = (s', match sides_of sd with
           | None => CErr AssertionError
           | Some s => CRet [VArr (negb nm) (arma_post s nm (map re P))]
           end).
Proof.
  intros HP. unfold a2_post, sides_of, arma_sides_of.
  erewrite exec_seq; [|ev; reflexivity].
  assert (HR : map re P <> []) by (destruct P; [congruence|discriminate]).
  set (R := map re P) in *. clearbody R. clear HP P.
  (* after the sides block: the array is R or its fftshift *)
  assert (Hs : forall rest,
     exists s',
       exec (SSeq a2_sides rest) (ast vA vB vrho vT vN (VStr sd) (VB nm) vtw (VArr true R) ip den k denf iq num numf)
       = match (if String.eqb sd "default" then Some SidesDefault else if String.eqb sd "centerdc" then Some SidesCenterdc else None) with
         | None => (s', CErr AssertionError)
         | Some s => exec rest (ast vA vB vrho vT vN (VStr sd) (VB nm) vtw
                                    (VArr true (match s with SidesDefault => R | SidesCenterdc => fftshift R end)) ip den k denf iq num numf)
         end).
  { intros rest. unfold a2_sides.
    destruct (String.eqb sd "default") eqn:E1.
    - exists []. erewrite exec_seq; [reflexivity|]. ev. rewrite E1. reflexivity.
    - destruct (String.eqb sd "centerdc") eqn:E2.
      + exists []. erewrite exec_seq; [reflexivity|].
        ev. rewrite E1. cbn [negb bind ok truthy try]. ev. rewrite E2.
        cbn [LoopIR.exec eval_oargs LoopIR.eval get nth ast bind ok bind_args try app repeat Nat.sub set asArr fst snd truthy compare eqne]. rewrite E2.
        cbn [LoopIR.exec eval_oargs LoopIR.eval get nth ast bind ok bind_args try app repeat Nat.sub set asArr fst snd truthy compare eqne]. reflexivity.
      + eexists. apply exec_seq_stop; [|discriminate].
        ev. rewrite E1. cbn [negb bind ok truthy try]. ev. rewrite E2. reflexivity. }
  destruct (Hs (SSeq a2_norm (SReturn [EVar 8]))) as [s1 E]. clear Hs.
  destruct (if String.eqb sd "default" then Some SidesDefault else if String.eqb sd "centerdc" then Some SidesCenterdc else None) as [s|].
  2:{ exists s1. exact E. }
  unfold ast in E |- *. rewrite E. clear E s1.
  set (R2 := match s with SidesDefault => R | SidesCenterdc => fftshift R end).
  assert (HR2 : R2 <> []).
  { unfold R2. destruct s; [exact HR|]. apply (nonempty_of_length _ (length R)); [apply fftshiftL_length|]. destruct R; [congruence|cbn; lia]. }
  unfold a2_norm, arma_post. fold R2.
  destruct nm.
  - erewrite exec_seq.
    2:{ ev. cbn [Bool.eqb bind ok truthy try]. ev. rewrite (maxL_vmax R2 HR2). cbn [bind ok arith fop try]. reflexivity. }
    eexists. ev. reflexivity.
  - erewrite exec_seq; [|ev; reflexivity].
    eexists. ev. reflexivity.
Qed.

(* ---------------- the three formulas *)
Lemma vnrm2_mk n (g : nat -> F) : vnrm2 (mk n g) = mk n (fun j => nrm2 (g j)).
Proof. unfold vnrm2. apply map_mk. Qed.
Lemma raw_both a (X Y : list F) n : length X = n -> length Y = n ->
  map2 div (map (fun x => a * x) (map nrm2 X)) (map nrm2 Y) = mk n (fun k => (a * nthF (vnrm2 X) k) / nthF (vnrm2 Y) k).
Proof.
  intros HX HY. pose proof (list_eq_mk X) as EX. pose proof (list_eq_mk Y) as EY. rewrite HX in EX. rewrite HY in EY.
  set (gx := nthF X) in *. set (gy := nthF Y) in *. clearbody gx gy. subst X Y.
  change (map nrm2 (mk n gx)) with (vnrm2 (mk n gx)). change (map nrm2 (mk n gy)) with (vnrm2 (mk n gy)).
  rewrite !vnrm2_mk, map_mk, map2_mk. apply mk_ext. intros i Hi. rewrite !nth_mk by exact Hi. reflexivity.
Qed.
Lemma raw_ar a (Y : list F) n : length Y = n -> map (fun x => a / x) (map nrm2 Y) = mk n (fun k => a / nthF (vnrm2 Y) k).
Proof.
  intros HY. pose proof (list_eq_mk Y) as EY. rewrite HY in EY. set (gy := nthF Y) in *. clearbody gy. subst Y.
  change (map nrm2 (mk n gy)) with (vnrm2 (mk n gy)). rewrite !vnrm2_mk, map_mk. apply mk_ext. intros i Hi. rewrite !nth_mk by exact Hi. reflexivity.
Qed.
Lemma raw_ma a (X : list F) n : length X = n -> map (fun x => a * x) (map nrm2 X) = mk n (fun k => a * nthF (vnrm2 X) k).
Proof.
  intros HX. pose proof (list_eq_mk X) as EX. rewrite HX in EX. set (gx := nthF X) in *. clearbody gx. subst X.
  change (map nrm2 (mk n gx)) with (vnrm2 (mk n gx)). rewrite !vnrm2_mk, map_mk. apply mk_ext. intros i Hi. rewrite !nth_mk by exact Hi. reflexivity.
Qed.
Lemma specdft_length tw nfft c : length (specdft tw nfft c) = nfft.
Proof. apply dft_length. Qed.

Definition oval (A : option (bool * list F)) : value := match A with Some q => VArr (fst q) (snd q) | None => VNone end.
(* what the run must end with, in terms of the model *)
Definition a2_ctl (tw : nat -> Z -> F) (A B : option (bool * list F)) (rh tv : F) (nfft : nat) (sd : string) (nm : bool) : ctl :=
  match A, B with
  | None, None => CErr ValueError
  | _, _ =>
      if arma_long nfft A || arma_long nfft B then CErr IndexError
      else match sides_of sd with
           | None => CErr AssertionError
           | Some s =>
               match arma2psd (tw nfft) (option_map snd A) (option_map snd B) rh tv nfft s nm with
               | Some psd => CRet [VArr (negb nm) psd]
               | None => CErr IndexError
               end
           end
  end.

Lemma arma_coeffs_ok nfft (c : list F) : (length c < nfft)%nat -> arma_coeffs nfft c = Some (pad nfft (1 :: c)).
Proof. intros H. unfold arma_coeffs. replace (length c <? nfft)%nat with true by (symmetry; apply Nat.ltb_lt; exact H). reflexivity. Qed.

Lemma main_ok tw (A B : option (bool * list F)) rh tv nfft (sd : string) nm :
  exists s',
    exec a2_main (ast (oval A) (oval B) (VF rh) (VF tv) (VI (Z.of_nat nfft)) (VStr sd) (VB nm) (VTw tw)
                      VUnbound VUnbound VUnbound VUnbound VUnbound VUnbound VUnbound VUnbound)
    = (s', a2_ctl tw A B rh tv nfft sd nm).
Proof.
  unfold a2_main, a2_ctl.
  assert (Hz : (Z.of_nat nfft <? 0)%Z = false) by (apply Z.ltb_ge; lia).
  destruct A as [[tA a]|], B as [[tB b]|]; cbn [oval fst snd arma_long option_map].
  - (* ARMA *)
    erewrite exec_seq; [|ev; reflexivity]. erewrite exec_seq; [|ev; reflexivity].
    erewrite exec_seq; [|ev; rewrite Hz, Nat2Z.id; reflexivity].
    destruct (fillA_ok tA a (VArr tB b) (VF rh) (VF tv) nfft (VStr sd) (VB nm) tw (VArr false (mk nfft (fun _ => 0))) VUnbound VUnbound VUnbound VUnbound VUnbound VUnbound VUnbound)
      as [s1 [E1 H1]].
    destruct (Nat.ltb_spec (length a) nfft) as [Ha|Ha]; cbn [negb orb].
    2:{ exists s1. apply exec_seq_stop; [|discriminate]. ev. exact E1. }
    destruct (H1 Ha) as [k1 ->]. clear H1.
    erewrite exec_seq; [|ev; exact E1]. clear E1.
    destruct (fillB_ok tB b (VArr tA a) (VF rh) (VF tv) nfft (VStr sd) (VB nm) tw (VArr false (mk nfft (fun _ => 0))) (VI (Z.of_nat (length a)))
                       (VArr false (pad nfft (1 :: a))) k1 (VArr false (specdft tw nfft a)) VUnbound VUnbound VUnbound) as [s2 [E2 H2]].
    destruct (Nat.ltb_spec (length b) nfft) as [Hb|Hb]; cbn [negb orb].
    2:{ exists s2. apply exec_seq_stop; [|discriminate]. ev. exact E2. }
    destruct (H2 Hb) as [k2 ->]. clear H2.
    erewrite exec_seq; [|ev; exact E2]. clear E2.
    unfold a2_tail. erewrite exec_seq.
    2:{ unfold a2_combine. ev. cbn [negb]. ev. rewrite !map_length, !specdft_length, Nat.eqb_refl.
        rewrite (raw_both (rh / tv) (specdft tw nfft b) (specdft tw nfft a) nfft (specdft_length _ _ _) (specdft_length _ _ _)). reflexivity. }
    unfold arma2psd. rewrite !arma_coeffs_ok by assumption.
    apply post_ok. apply (nonempty_of_length _ nfft); [apply mk_length|lia].
  - (* AR *)
    erewrite exec_seq; [|ev; reflexivity]. erewrite exec_seq; [|ev; reflexivity].
    erewrite exec_seq; [|ev; rewrite Hz, Nat2Z.id; reflexivity].
    destruct (fillA_ok tA a VNone (VF rh) (VF tv) nfft (VStr sd) (VB nm) tw (VArr false (mk nfft (fun _ => 0))) VUnbound VUnbound VUnbound VUnbound VUnbound VUnbound VUnbound)
      as [s1 [E1 H1]].
    rewrite orb_false_r.
    destruct (Nat.ltb_spec (length a) nfft) as [Ha|Ha]; cbn [negb].
    2:{ exists s1. apply exec_seq_stop; [|discriminate]. ev. exact E1. }
    destruct (H1 Ha) as [k1 ->]. clear H1.
    erewrite exec_seq; [|ev; exact E1]. clear E1.
    erewrite exec_seq; [|ev; reflexivity].
    unfold a2_tail. erewrite exec_seq.
    2:{ unfold a2_combine. ev. cbn [negb]. ev.
        rewrite (raw_ar (rh / tv) (specdft tw nfft a) nfft (specdft_length _ _ _)). reflexivity. }
    unfold arma2psd. rewrite !arma_coeffs_ok by assumption.
    apply post_ok. apply (nonempty_of_length _ nfft); [apply mk_length|lia].
  - (* MA *)
    erewrite exec_seq; [|ev; reflexivity]. erewrite exec_seq; [|ev; reflexivity].
    erewrite exec_seq; [|ev; rewrite Hz, Nat2Z.id; reflexivity].
    erewrite exec_seq; [|ev; reflexivity].
    destruct (fillB_ok tB b VNone (VF rh) (VF tv) nfft (VStr sd) (VB nm) tw (VArr false (mk nfft (fun _ => 0))) VUnbound VUnbound VUnbound VUnbound VUnbound VUnbound VUnbound)
      as [s2 [E2 H2]].
    cbn [orb].
    destruct (Nat.ltb_spec (length b) nfft) as [Hb|Hb]; cbn [negb].
    2:{ exists s2. apply exec_seq_stop; [|discriminate]. ev. exact E2. }
    destruct (H2 Hb) as [k2 ->]. clear H2.
    erewrite exec_seq; [|ev; exact E2]. clear E2.
    unfold a2_tail. erewrite exec_seq.
    2:{ unfold a2_combine. ev. cbn [negb]. ev.
        rewrite (raw_ma (rh / tv) (specdft tw nfft b) nfft (specdft_length _ _ _)). reflexivity. }
    unfold arma2psd. rewrite !arma_coeffs_ok by assumption.
    apply post_ok. apply (nonempty_of_length _ nfft); [apply mk_length|lia].
  - (* neither: ValueError *)
    erewrite exec_seq; [|ev; reflexivity].
    eexists. apply exec_seq_stop; [|discriminate]. ev. reflexivity.
Qed.

Lemma bind_args_a2 tw (A B : option (bool * list F)) (rho T : option F) nfft (sides : option string) (norm : option bool) :
  bind_args feq (p_defaults prog_arma2psd_ref) (arma2psd_args tw A B rho T nfft sides norm)
  = inl [oval A; oval B; VF (match rho with Some z => z | None => one_lit end); VF (match T with Some z => z | None => one_lit end);
         VI (Z.of_nat nfft); VStr (match sides with Some s => s | None => "default"%string end);
         VB (match norm with Some b => b | None => false end); VTw tw].
Proof. destruct A as [[? ?]|], B as [[? ?]|], rho, T, sides, norm; reflexivity. Qed.

Theorem arma2psd_ir_run tw (A B : option (bool * list F)) (rho T : option F) (nfft : nat) (sides : option string) (norm : option bool) :
  run feq stop prog_arma2psd_ref (arma2psd_args tw A B rho T nfft sides norm) = arma2psd_spec tw A B rho T nfft sides norm.
Proof.
  unfold run. rewrite bind_args_a2.
  destruct (main_ok tw A B (match rho with Some z => z | None => one_lit end) (match T with Some z => z | None => one_lit end) nfft
                    (match sides with Some s => s | None => "default"%string end) (match norm with Some b => b | None => false end)) as [s' E].
  cbn [p_body p_nslots p_nparams prog_arma2psd_ref Nat.sub app repeat]. unfold ast in E. rewrite E. clear E.
  unfold a2_ctl, arma2psd_spec, sides_of.
  assert (Es : arma_sides_of (Some (match sides with Some s => s | None => "default"%string end)) = arma_sides_of sides) by (destruct sides; reflexivity).
  rewrite Es.
  destruct A as [[? ?]|], B as [[? ?]|]; try reflexivity;
    (destruct (arma_long _ _ || arma_long _ _); [reflexivity|]);
    (destruct (arma_sides_of sides); [|reflexivity]);
    match goal with |- context [arma2psd ?a ?b ?c ?d ?e ?f ?g ?h] => destruct (arma2psd a b c d e f g h); reflexivity end.
Qed.
End A2.

Section A2Tie.
Context {F : Type} {OF : Ops F} {L : Laws OF}.
Variable feq : F -> F -> bool.
Hypothesis feq_refl : forall a, feq a a = true.

Lemma leq_refl_a2 (l : list F) : leq feq l l = true.
Proof.
  unfold leq. rewrite Nat.eqb_refl. cbn [andb]. induction l as [|a l IH]; [reflexivity|].
  cbn [combine forallb fst snd]. rewrite feq_refl, IH. reflexivity.
Qed.
Lemma out_eq_refl_arr (o : @outcome F) : (forall vs, o = ORet vs -> exists r l, vs = [VArr r l]) -> out_eq feq o o = true.
Proof.
  intros H. destruct o as [vs|e]; cbn [out_eq]; [|apply Nat.eqb_refl].
  destruct (H vs eq_refl) as [r [l ->]]. cbn [vals_eq val_eq]. rewrite Bool.eqb_reflx, leq_refl_a2. reflexivity.
Qed.

Theorem arma2psd_ir_tie tw (A B : option (bool * list F)) (rho T : option F) (nfft : nat) (sides : option string) (norm : option bool) :
  tie_arma2psd feq tw prog_arma2psd_ref A B rho T nfft sides norm = true.
Proof.
  unfold tie_arma2psd. rewrite (arma2psd_ir_run feq (@nostop F)).
  apply out_eq_refl_arr. intros vs. unfold arma2psd_spec.
  destruct A as [[? ?]|], B as [[? ?]|]; try discriminate;
    (destruct (arma_long _ _ || arma_long _ _); [discriminate|]);
    (destruct (arma_sides_of sides); [|discriminate]);
    match goal with |- context [arma2psd ?a ?b ?c ?d ?e ?f ?g ?h] => destruct (arma2psd a b c d e f g h); [|discriminate] end;
    intros E; injection E as <-; eexists; eexists; reflexivity.
Qed.
End A2Tie.

(* BEGIN GENERATED arma2psd (verbatim output of tools/props/_loopir.py for spectrum.arma.arma2psd, tools.twosided_2_centerdc embedded) *)
(* arma2psd: slots 0=A 1=B 2=rho 3=T 4=NFFT 5=sides 6=norm 7=fft@tw 8=psd 9=ip 10=den 11=k 12=denf 13=iq 14=num 15=numf *)
Definition prog_arma2psd_gen0 : program := mkProgram "arma2psd" 8 [(Some ENone); (Some ENone); (Some (ELit 1 0)); (Some (ELit 1 0)); (Some (EInt 4096)); (Some (EStr "default")); (Some (EBool false)); None] 16
(SSeq (SIf (EIsNone (EVar 4))
(SAssign 4 (EInt 4096))
(SSkip))
(SSeq (SIf (EAnd (EIsNone (EVar 0)) (EIsNone (EVar 1)))
(SRaise ValueError)
(SSkip))
(SSeq (SAssign 8 (EZeros (EVar 4) false))
(SSeq (SIf (ENot (EIsNone (EVar 0)))
(SSeq (SAssign 9 (ELen (EVar 0)))
(SSeq (SAssign 10 (EZeros (EVar 4) false))
(SSeq (SStore 10 (EInt 0) (EBin BAdd (ELit 1 0) (ELit 0 0)))
(SSeq (SFor 11 (EInt 0) (EVar 9) (EInt 1)
(SStore 10 (EBin BAdd (EVar 11) (EInt 1)) (EIndex (EVar 0) (EVar 11))))
(SAssign 12 (EFft (EVar 10) (Some (EVar 4)) (EVar 7)))))))
(SSkip))
(SSeq (SIf (ENot (EIsNone (EVar 1)))
(SSeq (SAssign 13 (ELen (EVar 1)))
(SSeq (SAssign 14 (EZeros (EVar 4) false))
(SSeq (SStore 14 (EInt 0) (EBin BAdd (ELit 1 0) (ELit 0 0)))
(SSeq (SFor 11 (EInt 0) (EVar 13) (EInt 1)
(SStore 14 (EBin BAdd (EVar 11) (EInt 1)) (EIndex (EVar 1) (EVar 11))))
(SAssign 15 (EFft (EVar 14) (Some (EVar 4)) (EVar 7)))))))
(SSkip))
(SSeq (SIf (EAnd (ENot (EIsNone (EVar 0))) (ENot (EIsNone (EVar 1))))
(SAssign 8 (EBin BDiv (EBin BMul (EBin BDiv (EVar 2) (EVar 3)) (ENrm2 (EVar 15))) (ENrm2 (EVar 12))))
(SIf (ENot (EIsNone (EVar 0)))
(SAssign 8 (EBin BDiv (EBin BDiv (EVar 2) (EVar 3)) (ENrm2 (EVar 12))))
(SIf (ENot (EIsNone (EVar 1)))
(SAssign 8 (EBin BMul (EBin BDiv (EVar 2) (EVar 3)) (ENrm2 (EVar 15))))
(SSkip))))
(SSeq (SAssign 8 (EReal (EVar 8)))
(SSeq (SIf (ECmp CNe (EVar 5) (EStr "default"))
(SSeq (SAssert (ECmp CEq (EVar 5) (EStr "centerdc")))
(SIf (ECmp CEq (EVar 5) (EStr "centerdc"))
(SCall1 8 1 [None] 1
(SReturn [(EFftShift (EVar 0))])
[(Some (EVar 8))])
(SSkip)))
(SSkip))
(SSeq (SIf (EIsBool true (EVar 6))
(SAssign 8 (EBin BDiv (EVar 8) (EMaxArr (EVar 8))))
(SSkip))
(SReturn [(EVar 8)])))))))))).

(* END GENERATED arma2psd *)
Example prog_arma2psd_ref_is_generated : prog_arma2psd_ref = prog_arma2psd_gen0.
Proof. reflexivity. Qed.
