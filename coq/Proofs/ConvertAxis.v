(* C06: axis alignment and conservation of total power of the side conversions.
   entry j of [conv nfft s t p] = sum over the source entries i of [weight s t nfft i j * p[i]],
   where the weight is 1 (or 1/2 for an interior one-sided source value) exactly when the signed
   bins reported by Range agree (up to sign when one of the two sides is one-sided). *)
Require Import Spectrum.Theory.Ops Spectrum.Theory.Sum Spectrum.Theory.Vec Spectrum.Model.Convert
               Spectrum.Proofs.ConvertTheory.
From Coq Require Import ZifyNat.
Ltac Zify.zify_post_hook ::= Z.to_euclidean_division_equations.

(* ---------------------------------------------------------------- signed bins, explicitly *)
Lemma freq_bins_nth s n i : (i < flen s n)%nat ->
  nth i (freq_bins s n) 0%Z =
    match s with Center => (Z.of_nat i - Z.of_nat (n / 2))%Z | _ => Z.of_nat i end.
Proof.
  intros H. unfold freq_bins.
  set (f := fun a : nat => match s with Center => (Z.of_nat a - Z.of_nat (n / 2))%Z | _ => Z.of_nat a end).
  rewrite (nth_indep _ 0%Z (f O)) by (rewrite map_length, seq_length; exact H).
  rewrite map_nth, seq_nth by exact H. reflexivity.
Qed.

Ltac zbrk :=
  repeat match goal with
  | |- context [Z.ltb ?a ?b] => destruct (Z.ltb_spec a b)
  | |- context [Z.leb ?a ?b] => destruct (Z.leb_spec a b)
  | |- context [Z.eqb ?a ?b] => destruct (Z.eqb_spec a b)
  end.

Lemma sbin_One n i : (1 <= n)%nat -> (i <= n / 2)%nat -> sbin One n i = Z.of_nat i.
Proof.
  intros Hn Hi. unfold sbin. rewrite freq_bins_nth by (rewrite flen_one; lia).
  unfold canon. zbrk; lia.
Qed.
Lemma sbin_Two n i : (i < n)%nat ->
  sbin Two n i = if (n <? 2 * i)%nat then (Z.of_nat i - Z.of_nat n)%Z else Z.of_nat i.
Proof.
  intros Hi. unfold sbin. rewrite freq_bins_nth by exact Hi.
  unfold canon. brk; zbrk; lia.
Qed.
Lemma sbin_Center n i : (i < n)%nat ->
  sbin Center n i = if (Nat.even n && (i =? 0)%nat)%bool then Z.of_nat (n / 2)
                    else (Z.of_nat i - Z.of_nat (n / 2))%Z.
Proof.
  intros Hi. unfold sbin. rewrite freq_bins_nth by exact Hi.
  unfold canon. destruct (even_cases n) as [[E H]|[E H]]; rewrite E; cbn [andb]; brk; zbrk; lia.
Qed.

(* evaluate a weight between concrete sides once the indices are constrained by the context *)
Ltac wsolve :=
  unfold weight, bin_match, interior; cbn [is_one side_eqb orb andb negb];
  rewrite ?sbin_One, ?sbin_Two, ?sbin_Center by lia;
  repeat match goal with E : Nat.even _ = _ |- _ => rewrite E end; cbn [andb];
  brk; zbrk; cbn [andb negb]; try lia; try reflexivity.

Section ConvertAxis.
Context {F : Type} {OF : Ops F} {L : Laws OF}.
Local Open Scope F_scope.
Add Field FFaxis : (fth (O:=OF)).

Lemma wzero (w x : F) : w = 0 -> w * x = 0. Proof. intros ->. ring. Qed.
Lemma wone (w x : F) : w = 1 -> x = w * x. Proof. intros ->. ring. Qed.
Lemma whalf (w x : F) : w = 1 / two -> x / two = w * x. Proof. intros ->. field. apply two_ne. Qed.
Lemma wtwo (w1 w2 x y : F) : w1 = 1 -> w2 = 1 -> x = y -> x * two = w1 * x + w2 * y.
Proof. intros -> -> ->. unfold two. ring. Qed.

Lemma sumf_pick2 m (f : nat -> F) a b : (a < m)%nat -> (b < m)%nat -> a <> b ->
  (forall i, (i < m)%nat -> i <> a -> i <> b -> f i = 0) -> sumf m f = f a + f b.
Proof.
  intros Ha Hb Hab H.
  rewrite (sumf_ext m f (fun i => (if (i =? a)%nat then f a else 0) + (if (i =? b)%nat then f b else 0))).
  - rewrite sumf_add, !sumf_delta by assumption. reflexivity.
  - intros i Hi. destruct (Nat.eqb_spec i a) as [Ea|Na]; destruct (Nat.eqb_spec i b) as [Eb|Nb].
    + exfalso. apply Hab. rewrite <- Ea, <- Eb. reflexivity.
    + rewrite Ea. ring.
    + rewrite Eb. ring.
    + rewrite H by assumption. ring.
Qed.

(* the sum over the source entries collapses to entry [a] (resp. [a] and [b]) *)
Ltac pick a :=
  rewrite (sumf_single _ a); [ | lia | intros ? ? ?; apply wzero; wsolve ].
Ltac pick2 a b :=
  rewrite (sumf_pick2 _ _ a b); [ | lia | lia | lia | intros ? ? ? ?; apply wzero; wsolve ].

Theorem conv_axis_thm nfft s t (p : list F) j :
  (1 <= nfft)%nat -> length p = flen s nfft -> (t = One -> symS s p) -> (j < flen t nfft)%nat ->
  nthF (conv nfft s t p) j = sumf (flen s nfft) (fun i => weight s t nfft i j * nthF p i).
Proof.
  intros Hn Hp Hs Hj.
  destruct s, t; cbn [conv]; rewrite ?flen_one in *; cbn [flen] in *.
  - (* One -> One *)
    pick j. apply wone. wsolve.
  - (* One -> Two *)
    rewrite one2two_nth by (rewrite ?flen_one; lia).
    destruct (even_cases nfft) as [[E H]|[E H]]; rewrite E; cbn [andb]; brk.
    + pick 0%nat. subst j. apply wone. wsolve.
    + pick j. apply wone. wsolve.
    + pick j. apply whalf. wsolve.
    + pick (nfft - j)%nat. apply whalf. wsolve.
    + pick 0%nat. subst j. apply wone. wsolve.
    + pick j. apply whalf. wsolve.
    + pick (nfft - j)%nat. apply whalf. wsolve.
  - (* One -> Center *)
    pose proof (one2two_length nfft p Hn ltac:(rewrite flen_one; exact Hp)) as HL.
    rewrite two2center_nth by lia. rewrite HL.
    destruct (even_cases nfft) as [[E H]|[E H]]; brk;
      rewrite one2two_nth by (rewrite ?flen_one; lia); rewrite E; cbn [andb]; brk; try lia.
    + pick (nfft / 2)%nat. replace (j + (nfft - nfft / 2))%nat with (nfft / 2)%nat by lia. apply wone. wsolve.
    + pick (nfft - (j + (nfft - nfft / 2)))%nat. apply whalf. wsolve.
    + pick 0%nat. replace (j - nfft / 2)%nat with 0%nat by lia. apply wone. wsolve.
    + pick (j - nfft / 2)%nat. apply whalf. wsolve.
    + pick (nfft - (j + (nfft - nfft / 2)))%nat. apply whalf. wsolve.
    + pick 0%nat. replace (j - nfft / 2)%nat with 0%nat by lia. apply wone. wsolve.
    + pick (j - nfft / 2)%nat. apply whalf. wsolve.
  - (* Two -> One *)
    specialize (Hs eq_refl). cbn [symS] in Hs.
    rewrite two2one_nth by lia. rewrite Hp.
    destruct (even_cases nfft) as [[E H]|[E H]]; rewrite E; cbn [andb]; brk.
    + pick 0%nat. subst j. apply wone. wsolve.
    + pick j. apply wone. wsolve.
    + pick2 j (nfft - j)%nat. apply wtwo; [wsolve|wsolve|]. rewrite <- Hp. apply Hs. lia.
    + pick 0%nat. subst j. apply wone. wsolve.
    + pick2 j (nfft - j)%nat. apply wtwo; [wsolve|wsolve|]. rewrite <- Hp. apply Hs. lia.
  - (* Two -> Two *)
    pick j. apply wone. wsolve.
  - (* Two -> Center *)
    rewrite two2center_nth by lia. rewrite Hp.
    destruct (even_cases nfft) as [[E H]|[E H]]; brk.
    + pick (j + (nfft - nfft / 2))%nat. apply wone. wsolve.
    + pick (j - nfft / 2)%nat. apply wone. wsolve.
    + pick (j + (nfft - nfft / 2))%nat. apply wone. wsolve.
    + pick (j - nfft / 2)%nat. apply wone. wsolve.
  - (* Center -> One *)
    specialize (Hs eq_refl). cbn [symS] in Hs.
    assert (HL : length (center2two p) = nfft) by (rewrite center2two_length; exact Hp).
    rewrite two2one_nth by lia. rewrite HL.
    assert (Hsym : forall k, (1 <= k < nfft)%nat -> nthF (center2two p) k = nthF (center2two p) (nfft - k)).
    { intros k Hk. pose proof (Hs k) as Q. rewrite HL in Q. apply Q. lia. }
    destruct (even_cases nfft) as [[E H]|[E H]]; rewrite E; cbn [andb]; brk.
    + subst j. rewrite center2two_nth by lia. rewrite Hp. brk; try lia.
      pick (0 + nfft / 2)%nat. apply wone. wsolve.
    + rewrite center2two_nth by lia. rewrite Hp. brk; try lia.
      pick (j - (nfft - nfft / 2))%nat. apply wone. wsolve.
    + assert (Q : nthF (center2two p) j = nthF (center2two p) (nfft - j)) by (apply Hsym; lia).
      revert Q. rewrite !center2two_nth by lia. rewrite Hp. brk; try lia; intros Q.
      pick2 (j + nfft / 2)%nat (nfft - j - (nfft - nfft / 2))%nat.
      apply wtwo; [wsolve|wsolve|exact Q].
    + subst j. rewrite center2two_nth by lia. rewrite Hp. brk; try lia.
      pick (0 + nfft / 2)%nat. apply wone. wsolve.
    + assert (Q : nthF (center2two p) j = nthF (center2two p) (nfft - j)) by (apply Hsym; lia).
      revert Q. rewrite !center2two_nth by lia. rewrite Hp. brk; try lia; intros Q.
      pick2 (j + nfft / 2)%nat (nfft - j - (nfft - nfft / 2))%nat.
      apply wtwo; [wsolve|wsolve|exact Q].
  - (* Center -> Two *)
    rewrite center2two_nth by lia. rewrite Hp.
    destruct (even_cases nfft) as [[E H]|[E H]]; brk.
    + pick (j + nfft / 2)%nat. apply wone. wsolve.
    + pick (j - (nfft - nfft / 2))%nat. apply wone. wsolve.
    + pick (j + nfft / 2)%nat. apply wone. wsolve.
    + pick (j - (nfft - nfft / 2))%nat. apply wone. wsolve.
  - (* Center -> Center *)
    destruct (even_cases nfft) as [[E H]|[E H]]; (pick j; [apply wone; wsolve]).
Qed.
(* ---------------------------------------------------------------- conservation of power *)
Lemma half2 (w1 w2 : F) : w1 = 1 / two -> w2 = 1 / two -> w1 + w2 = 1.
Proof. intros -> ->. unfold two. field. apply two_neq_0. Qed.

Ltac pickc a :=
  rewrite (sumf_single _ a); [ wsolve | lia | intros ? ? ?; wsolve ].
Ltac pickc2 a b :=
  rewrite (sumf_pick2 _ _ a b); [ apply half2; wsolve | lia | lia | lia | intros ? ? ? ?; wsolve ].

(* every source entry is distributed with total weight one *)
Lemma weight_colsum nfft s t i : (1 <= nfft)%nat -> (i < flen s nfft)%nat ->
  sumf (flen t nfft) (fun j => weight (F:=F) s t nfft i j) = 1.
Proof.
  intros Hn Hi.
  destruct (even_cases nfft) as [[E H]|[E H]]; destruct s, t; rewrite ?flen_one in *; cbn [flen] in *.
  all: try (pickc i; fail).
  - destruct (Nat.eqb_spec i 0); [pickc 0%nat|]. destruct (Nat.eqb_spec (2 * i) nfft); [pickc i|pickc2 i (nfft - i)%nat].
  - destruct (Nat.eqb_spec i 0); [pickc (nfft / 2)%nat|].
    destruct (Nat.eqb_spec (2 * i) nfft); [pickc 0%nat|pickc2 (nfft / 2 + i)%nat (nfft / 2 - i)%nat].
  - destruct (Nat.ltb_spec nfft (2 * i)); [pickc (nfft - i)%nat|pickc i].
  - destruct (Nat.ltb_spec (i + nfft / 2) nfft); [pickc (i + nfft / 2)%nat|pickc (i + nfft / 2 - nfft)%nat].
  - destruct (Nat.ltb_spec i (nfft / 2)); [pickc (nfft / 2 - i)%nat|pickc (i - nfft / 2)%nat].
  - destruct (Nat.ltb_spec i (nfft / 2)); [pickc (i + nfft - nfft / 2)%nat|pickc (i - nfft / 2)%nat].
  - destruct (Nat.eqb_spec i 0); [pickc 0%nat|]. pickc2 i (nfft - i)%nat.
  - destruct (Nat.eqb_spec i 0); [pickc (nfft / 2)%nat|]. pickc2 (nfft / 2 + i)%nat (nfft / 2 - i)%nat.
  - destruct (Nat.ltb_spec nfft (2 * i)); [pickc (nfft - i)%nat|pickc i].
  - destruct (Nat.ltb_spec (i + nfft / 2) nfft); [pickc (i + nfft / 2)%nat|pickc (i + nfft / 2 - nfft)%nat].
  - destruct (Nat.ltb_spec i (nfft / 2)); [pickc (nfft / 2 - i)%nat|pickc (i - nfft / 2)%nat].
  - destruct (Nat.ltb_spec i (nfft / 2)); [pickc (i + nfft - nfft / 2)%nat|pickc (i - nfft / 2)%nat].
Qed.

Theorem conv_power_thm nfft s t (p : list F) :
  (1 <= nfft)%nat -> length p = flen s nfft -> (t = One -> symS s p) ->
  sumL (conv nfft s t p) = sumL p.
Proof.
  intros Hn Hp Hs.
  rewrite (sumL_sumf (conv nfft s t p)), conv_length_thm by assumption.
  rewrite (sumf_ext _ _ (fun j => sumf (flen s nfft) (fun i => weight s t nfft i j * nthF p i)))
    by (intros j Hj; apply conv_axis_thm; assumption).
  rewrite sumf_exch.
  rewrite (sumf_ext _ _ (nthF p)).
  - rewrite sumL_sumf, Hp. reflexivity.
  - intros i Hi. rewrite sumf_scale_r, weight_colsum by assumption. ring.
Qed.
End ConvertAxis.
