(* Closed forms: numpy 2.x's hanning/hamming/bartlett formulas equal the textbook ones; the cosine-sum
   generators use exactly the coefficients of Model.Window.model_coeffs (which the translator compares
   with the literals of the source on every run). *)
From Coq Require Import Reals Lra Lia String.
Require Import Spectrum.Theory.Ops Spectrum.Theory.Vec Spectrum.Model.Window Spectrum.Instances.RWin
               Spectrum.Proofs.WindowBridge Spectrum.Proofs.WindowReal.
Local Open Scope R_scope.

Section Coeffs.
Context {F : Type} {OF : Ops F} {TF : TOps F}.
Local Open Scope string_scope.
Lemma nuttall_coeffs N : window_nuttall N =
  coeff4 N (mcoef "window_nuttall" "a0") (mcoef "window_nuttall" "a1") (mcoef "window_nuttall" "a2") (mcoef "window_nuttall" "a3").
Proof. reflexivity. Qed.
Lemma blackman_nuttall_coeffs N : window_blackman_nuttall N =
  coeff4 N (mcoef "window_blackman_nuttall" "a0") (mcoef "window_blackman_nuttall" "a1")
           (mcoef "window_blackman_nuttall" "a2") (mcoef "window_blackman_nuttall" "a3").
Proof. reflexivity. Qed.
Lemma blackman_harris_coeffs N : window_blackman_harris N =
  coeff4 N (mcoef "window_blackman_harris" "a0") (mcoef "window_blackman_harris" "a1")
           (mcoef "window_blackman_harris" "a2") (mcoef "window_blackman_harris" "a3").
Proof. reflexivity. Qed.
Lemma flattop_coeffs :
  (ft_a0, ft_a1, ft_a2, ft_a3, ft_a4) =
  (mcoef "window_flattop" "a0", mcoef "window_flattop" "a1", mcoef "window_flattop" "a2",
   mcoef "window_flattop" "a3", mcoef "window_flattop" "a4").
Proof. reflexivity. Qed.
Lemma bartlett_hann_coeffs :
  (bh_a0, bh_a1, bh_a2) = (mcoef "window_bartlett_hann" "a0", mcoef "window_bartlett_hann" "a1", mcoef "window_bartlett_hann" "a2").
Proof. reflexivity. Qed.
End Coeffs.

Section Closed.
Variables (I0 : R -> R) (cheb : nat -> R -> list R).
#[local] Hint Extern 0 (TOps R) => exact (rT I0 cheb) : typeclass_instances.
Ltac tsimp := cbn [tcos tsin texp tln tsqrt tabs tpi tI0 tltb tleb teqb tcheb r_tops rT] in *; rsimp.

Lemma np_arg N n : (2 <= N)%nat ->
  PI * IZR (1 - Z.of_nat N + 2 * Z.of_nat n) / IZR (Z.of_nat N - 1) = 2 * PI * INR n / (INR N - 1) - PI.
Proof.
  intros HN. pose proof (IZR_pred_pos N HN) as Hm. rewrite !INR_IZR_INZ.
  rewrite minus_IZR in *. rewrite plus_IZR, minus_IZR, mult_IZR. field. simpl in Hm. lra.
Qed.
Lemma cos_minus_PI x : cos (x - PI) = - cos x.
Proof. rewrite cos_minus, cos_PI, sin_PI. ring. Qed.

Theorem hann_closed_form_thm N n : (2 <= N)%nat -> (n < N)%nat ->
  nthF (window_hann N) n = 1 / 2 - 1 / 2 * cos (2 * PI * INR n / (INR N - 1)).
Proof.
  intros HN Hn. unfold window_hann. cbv zeta. rewrite nth_unless1 by lia. unfold np_n.
  rewrite !ofZ_IZR, half_R. tsimp. rewrite np_arg by exact HN. rewrite cos_minus_PI. lra.
Qed.
Theorem hamming_closed_form_thm N n : (2 <= N)%nat -> (n < N)%nat ->
  nthF (window_hamming N) n = 54 / 100 - 46 / 100 * cos (2 * PI * INR n / (INR N - 1)).
Proof.
  intros HN Hn. unfold window_hamming. cbv zeta. rewrite nth_unless1 by lia. unfold np_n.
  rewrite !ofZ_IZR, !lit_IZR. tsimp. rewrite np_arg by exact HN. rewrite cos_minus_PI. lra.
Qed.
Theorem bartlett_closed_form_thm N n : (2 <= N)%nat -> (n < N)%nat ->
  nthF (window_bartlett N) n = 2 / (INR N - 1) * ((INR N - 1) / 2 - Rabs (INR n - (INR N - 1) / 2)).
Proof.
  intros HN Hn. unfold window_bartlett. cbv zeta. rewrite nth_unless1 by lia. unfold np_n.
  rewrite !ofZ_IZR. tsimp. pose proof (IZR_pred_pos N HN) as Hm. rewrite !INR_IZR_INZ.
  rewrite minus_IZR in *. rewrite plus_IZR, minus_IZR, mult_IZR. simpl in Hm.
  set (nn := IZR (Z.of_nat N)) in *. set (x := IZR (Z.of_nat n)).
  unfold Rleb. destruct (Rle_dec (1 - nn + 2 * x) 0) as [H|H].
  - rewrite Rabs_left1 by lra. field. lra.
  - rewrite Rabs_right by lra. field. lra.
Qed.
End Closed.
