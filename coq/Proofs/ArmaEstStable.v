(* Invertibility of the MA part and strict positivity / finiteness of the class PSDs.
   ma = aryule of the non-zero vector [1,a] at order Q, so C12's root-location theorem
   (Proofs/YuleTheory.v aryule_stable_thm, YuleExt.v for roots in an ordered extension) applies: every root
   of z^Q + b_1 z^(Q-1) + .. + b_Q lies strictly inside the unit circle.  A grid point w^k of the DFT has
   modulus one, hence B(w^k) <> 0 (and A(w^k) <> 0 for the AR polynomials of aryule / arburg), and with
   rho > 0 every stored PSD bin is > 0 and every division in it is by a non-zero number. *)
Require Import Spectrum.Theory.Ops Spectrum.Theory.Sum Spectrum.Theory.Vec Spectrum.Theory.Order Spectrum.Theory.Dft
               Spectrum.Model.Levinson Spectrum.Model.Corr Spectrum.Model.Yule Spectrum.Model.Burg Spectrum.Model.Arma2psd Spectrum.Model.ArmaEst
               Spectrum.Proofs.LevinsonTheory Spectrum.Proofs.CorrTheory Spectrum.Proofs.YulePD Spectrum.Proofs.YuleTheory
               Spectrum.Proofs.YuleExt Spectrum.Proofs.BurgTheory Spectrum.Proofs.MinvarFinal Spectrum.Proofs.BurgStable
               Spectrum.Proofs.ArmaEstTheory Spectrum.Proofs.ArmaEstPsd Spectrum.Proofs.ArmaEstPos.

Section Stable.
Context {F : Type} {OF : Ops F} {L : Laws OF} {OL : OrdLaws OF}.
Local Open Scope F_scope.
Add Field FFst : (fth (O:=OF)).

(* the two models of aryule (C15's option-valued one, C12's with an error enum) are the same function *)
Lemma aryule_bridge (x : list F) p st :
  Spectrum.Model.ArmaEst.aryule x p Biased = Some st <-> Spectrum.Model.Yule.aryule x p Biased true = inr st.
Proof.
  unfold Spectrum.Model.ArmaEst.aryule, Spectrum.Model.Yule.aryule.
  destruct (acorr x p Biased) as [r|]; [|split; discriminate].
  destruct (levinson r (length r - 1) true) as [s|]; split; intros H; try discriminate; injection H as <-; reflexivity.
Qed.

Lemma nonzero_weaken (x : list F) : (exists n, (n < length x)%nat /\ nthF x n <> 0) -> exists n, nthF x n <> 0.
Proof. intros (n & _ & H). eauto. Qed.
Lemma one_cons_nonzero (a : list F) : exists n, nthF (1 :: a) n <> 0.
Proof. exists O. cbn. apply one_neq_0. Qed.

(* ---------- invertibility: roots in the field ---------- *)
(* the guard "x not identically zero" is the property's non-degeneracy: for x = 0 the code returns nan while
   the totalised 0/0 of the model would make the claim true for the wrong reason *)
Theorem ma_invertible_thm (x : list F) Q M b rho (z : F) :
  (exists n, (n < length x)%nat /\ nthF x n <> 0) ->
  ma x Q M = inr (b, rho) ->
  sumf (S Q) (fun j => afun b j * fpow z (Q - j)) = 0 -> lt (nrm2 z) 1.
Proof.
  intros _ H Hz. unfold ma in H. destruct ((Q =? 0)%nat || (M <=? Q)%nat); [discriminate|].
  destruct (Spectrum.Model.ArmaEst.aryule x M Biased) as [[[a r0] k1]|]; [|discriminate].
  destruct (Spectrum.Model.ArmaEst.aryule (1 :: a) Q Biased) as [[[b' P2] k2]|] eqn:E2; [|discriminate].
  injection H as <- _. apply aryule_bridge in E2.
  exact (aryule_stable_thm (1 :: a) Q true b' P2 k2 z (one_cons_nonzero a) E2 Hz).
Qed.

Theorem arma_ma_invertible_thm (lsm lsq : list F -> nat -> list F) (x : list F) P Q lag a b rho (z : F) :
  arma_estimate lsm lsq x P Q lag = inr (a, b, rho) ->
  (exists t, (t < length x - P)%nat /\ nthF (arma_resid x a P) t <> 0) ->
  sumf (S Q) (fun j => afun b j * fpow z (Q - j)) = 0 -> lt (nrm2 z) 1.
Proof.
  intros H (t & Ht & Hne) Hz. destruct (arma_steps_thm _ _ _ _ _ _ _ _ _ H) as (r & _ & _ & Em).
  apply (ma_invertible_thm (arma_resid x a P) Q (2 * Q) b rho z); [|exact Em|exact Hz].
  exists t. split; [unfold arma_resid; rewrite mk_length; exact Ht|exact Hne].
Qed.

(* ---------- the DFT grid lies on the unit circle ---------- *)
Section Grid.
Context (n : nat) (tw : Z -> F) {Tw : Twiddle n tw}.
Hypothesis n_pos : (0 < n)%nat.

Lemma fpow_tw (k : Z) q : fpow (tw k) q = tw (Z.of_nat q * k)%Z.
Proof.
  induction q; [cbn [fpow Z.of_nat Z.mul]; symmetry; apply tw_0|].
  cbn [fpow]. rewrite IHq, <- tw_add. f_equal. rewrite Nat2Z.inj_succ. ring.
Qed.

(* numpy.roots polynomial at z = w^(-k) = w^(-pk) * (the FFT polynomial at bin k) *)
Lemma polyval_grid (c : list F) (k : nat) :
  Spectrum.Proofs.YulePD.polyval (afun c) (length c) (tw (- Z.of_nat k)%Z)
  = tw (- (Z.of_nat (length c) * Z.of_nat k))%Z * Spectrum.Proofs.ArmaEstPsd.polyval tw (Some c) k.
Proof.
  unfold Spectrum.Proofs.YulePD.polyval, Spectrum.Proofs.ArmaEstPsd.polyval, dftN.
  rewrite <- sumf_scale. apply sumf_ext. intros j Hj. rewrite fpow_tw.
  transitivity (afun c j * (tw (- (Z.of_nat (length c) * Z.of_nat k))%Z * tw (Z.of_nat j * Z.of_nat k)%Z)); [|ring].
  f_equal. rewrite <- tw_add. f_equal. rewrite Nat2Z.inj_sub by lia. ring.
Qed.

(* a polynomial all of whose roots (in the field) lie strictly inside the unit circle does not vanish on the grid *)
Lemma grid_nonzero (c : list F) (k : nat) :
  (forall z, Spectrum.Proofs.YulePD.polyval (afun c) (length c) z = 0 -> lt (nrm2 z) 1) ->
  Spectrum.Proofs.ArmaEstPsd.polyval tw (Some c) k <> 0.
Proof.
  intros Hst E. pose proof (polyval_grid c k) as G. rewrite E in G.
  assert (G0 : Spectrum.Proofs.YulePD.polyval (afun c) (length c) (tw (- Z.of_nat k)%Z) = 0) by (rewrite G; ring).
  pose proof (Hst _ G0) as [_ Hne]. apply Hne. rewrite (tw_nrm2 n tw n_pos). ring.
Qed.
(* the same fact in C08's notation (Model/Arma2psd.v polyz_opt): discharges the hypothesis
   "polyz_opt tw A k <> 0" of arma2psd_formula / arma2psd_nonneg *)
Lemma polyval_polyz (c : option (list F)) (k : nat) :
  Spectrum.Proofs.ArmaEstPsd.polyval tw c k = Spectrum.Model.Arma2psd.polyz_opt tw c (Z.of_nat k).
Proof.
  destruct c as [c|]; [|reflexivity]. cbn [Spectrum.Proofs.ArmaEstPsd.polyval Spectrum.Model.Arma2psd.polyz_opt].
  unfold dftN, Spectrum.Model.Arma2psd.polyz. rewrite sumf_shift. cbn [afun]. f_equal.
  - cbn [Z.of_nat Z.mul]. rewrite tw_0. ring.
  - apply sumf_ext. intros j _. f_equal. f_equal. lia.
Qed.
End Grid.

(* ---------- strictly positive, finite PSD bins ---------- *)
Lemma pos_two : pos (two : F).
Proof. unfold two. apply pos_add_nonneg; [apply pos_1|apply nonneg_1]. Qed.
Lemma pos_nrm2 (a : F) : a <> 0 -> pos (nrm2 a).
Proof. intros H. split; [apply nn_nrm2|apply nrm2_neq_0; exact H]. Qed.

(* generic: positive variance, sampling, 2 pi, and polynomials that do not vanish on the grid *)
Theorem class_psd_pos_thm tw (c : pclass) (ar ma : list F) (v : F) (N order : nat) (twopi sampling : F)
        (NFFT : nat) (real sbf : bool) (e : exposed) : (1 <= NFFT)%nat ->
  class_call tw c ar ma v N order twopi sampling NFFT real sbf = inr e ->
  pos (class_rho c v N order) -> pos sampling -> pos twopi ->
  (forall k, Spectrum.Proofs.ArmaEstPsd.polyval tw (x_ar e) k <> 0) ->
  (forall k, Spectrum.Proofs.ArmaEstPsd.polyval tw (x_ma e) k <> 0) ->
  forall k, (k < nbins real NFFT)%nat -> pos (nthF (x_psd e) k).
Proof.
  intros HN H Hrho Hs Ht HA HB k Hk.
  destruct (class_psd_thm tw c ar ma v N order twopi sampling NFFT real sbf e HN H) as (_ & _ & _ & _ & Hf).
  rewrite (Hf k Hk).
  apply pos_div; [|apply pos_nrm2, HA]. apply pos_mul; [|apply pos_nrm2, HB].
  apply pos_mul; [|apply pos_div; assumption].
  unfold class_const. apply pos_mul.
  - destruct real; [apply pos_two|apply pos_1].
  - destruct sbf; [|apply pos_1]. apply pos_div; [exact Ht|]. apply pos_div; [exact Hs|]. apply pos_ofnat. exact HN.
Qed.

Lemma class_call_exposed tw c ar ma v N order twopi sampling NFFT real sbf e :
  class_call tw c ar ma v N order twopi sampling NFFT real sbf = inr e ->
  x_ar e = class_A c ar /\ x_ma e = class_B c ma.
Proof.
  unfold class_call. destruct (arma2psd _ _ _ _ _ _); [discriminate|]. intros H. injection H as <-. split; reflexivity.
Qed.

Section Classes.
Context (tw : Z -> F) (NFFT : nat) {Tw : Twiddle NFFT tw}.
Hypothesis NFFT_pos : (1 <= NFFT)%nat.

Lemma polyval_none_nonzero k : Spectrum.Proofs.ArmaEstPsd.polyval tw None k <> 0.
Proof. cbn. apply one_neq_0. Qed.

(* pma: MA part of ma(), no AR part *)
Theorem pma_psd_pos_thm (x : list F) Q M b rho ar N order twopi sampling real sbf e :
  (exists n, (n < length x)%nat /\ nthF x n <> 0) ->
  ma x Q M = inr (b, rho) ->
  class_call tw Cpma ar b rho N order twopi sampling NFFT real sbf = inr e ->
  pos sampling -> pos twopi ->
  forall k, (k < nbins real NFFT)%nat ->
    pos (nthF (x_psd e) k) /\ Spectrum.Proofs.ArmaEstPsd.polyval tw (x_ma e) k <> 0.
Proof.
  intros Hx Hm Hc Hs Ht k Hk. destruct (class_call_exposed _ _ _ _ _ _ _ _ _ _ _ _ _ Hc) as [EA EB].
  cbn [class_A class_B] in EA, EB.
  destruct (ma_valid_thm x Q M b rho Hx Hm) as (Hb & Hrho & _).
  assert (HB : forall k, Spectrum.Proofs.ArmaEstPsd.polyval tw (x_ma e) k <> 0).
  { intros k0. rewrite EB. apply (grid_nonzero NFFT tw NFFT_pos). rewrite Hb. intros z Hz.
    exact (ma_invertible_thm x Q M b rho z Hx Hm Hz). }
  split; [|apply HB].
  apply (class_psd_pos_thm tw Cpma ar b rho N order twopi sampling NFFT real sbf e NFFT_pos Hc); try assumption.
  intros k0. rewrite EA. apply polyval_none_nonzero.
Qed.

(* B(w^k) <> 0 at every grid point, in this file's and in C08's (Model/Arma2psd.v) notation *)
Theorem ma_grid_nonzero_thm (x : list F) Q M b rho (k : nat) :
  (exists n, (n < length x)%nat /\ nthF x n <> 0) ->
  ma x Q M = inr (b, rho) ->
  Spectrum.Proofs.ArmaEstPsd.polyval tw (Some b) k <> 0
  /\ Spectrum.Model.Arma2psd.polyz_opt tw (Some b) (Z.of_nat k) <> 0.
Proof.
  intros Hx Hm.
  assert (HB : Spectrum.Proofs.ArmaEstPsd.polyval tw (Some b) k <> 0).
  { apply (grid_nonzero NFFT tw NFFT_pos). rewrite (proj1 (ma_lengths_thm _ _ _ _ _ Hm)). intros z Hz.
    exact (ma_invertible_thm x Q M b rho z Hx Hm Hz). }
  split; [exact HB|]. rewrite <- (polyval_polyz NFFT tw NFFT_pos (Some b) k). exact HB.
Qed.

(* pyule: AR part of the biased Yule-Walker fit *)
Theorem pyule_psd_pos_thm (x : list F) p a P ks ma N order twopi sampling real sbf e :
  (exists n, (n < length x)%nat /\ nthF x n <> 0) ->
  Spectrum.Model.ArmaEst.aryule x p Biased = Some (a, P, ks) ->
  class_call tw Cpyule a ma P N order twopi sampling NFFT real sbf = inr e ->
  pos sampling -> pos twopi ->
  forall k, (k < nbins real NFFT)%nat ->
    pos (nthF (x_psd e) k) /\ Spectrum.Proofs.ArmaEstPsd.polyval tw (x_ar e) k <> 0.
Proof.
  intros Hx Hy Hc Hs Ht k Hk. destruct (class_call_exposed _ _ _ _ _ _ _ _ _ _ _ _ _ Hc) as [EA EB].
  cbn [class_A class_B] in EA, EB.
  destruct (aryule_pos_thm x p a P ks Hx Hy) as (HP & Hla & _).
  assert (HA : forall k, Spectrum.Proofs.ArmaEstPsd.polyval tw (x_ar e) k <> 0).
  { intros k0. rewrite EA. apply (grid_nonzero NFFT tw NFFT_pos). rewrite Hla. intros z Hz.
    exact (aryule_stable_thm x p true a P ks z (nonzero_weaken x Hx) (proj1 (aryule_bridge x p _) Hy) Hz). }
  split; [|apply HA].
  apply (class_psd_pos_thm tw Cpyule a ma P N order twopi sampling NFFT real sbf e NFFT_pos Hc); try assumption.
  intros k0. rewrite EB. apply polyval_none_nonzero.
Qed.

(* pburg (no order-selection criterion, the class default) *)
Theorem pburg_psd_pos_thm (x : list F) p a rho ks ma N order twopi sampling real sbf e :
  arburg x p no_stop = Some (a, rho, ks) ->
  class_call tw Cpburg a ma rho N order twopi sampling NFFT real sbf = inr e ->
  pos sampling -> pos twopi ->
  forall k, (k < nbins real NFFT)%nat ->
    pos (nthF (x_psd e) k) /\ Spectrum.Proofs.ArmaEstPsd.polyval tw (x_ar e) k <> 0.
Proof.
  intros Hb Hc Hs Ht k Hk. destruct (class_call_exposed _ _ _ _ _ _ _ _ _ _ _ _ _ Hc) as [EA EB].
  cbn [class_A class_B] in EA, EB.
  destruct (arburg_shape_thm x p a rho ks Hb) as (Hl & Ha & _).
  pose proof (arburg_some_order x p no_stop _ Hb) as Hp.
  destruct (arburg_k_lt_1_thm x p no_stop a rho ks Hb ltac:(lia)) as (_ & Hrho & _).
  assert (Hla : length a = length ks) by (rewrite Ha; apply stepup_all_length).
  assert (HA : forall k, Spectrum.Proofs.ArmaEstPsd.polyval tw (x_ar e) k <> 0).
  { intros k0. rewrite EA. apply (grid_nonzero NFFT tw NFFT_pos). rewrite Hla. intros z Hz.
    exact (arburg_stable_criteria_thm x p no_stop a rho ks z Hb Hz). }
  split; [|apply HA].
  apply (class_psd_pos_thm tw Cpburg a ma rho N order twopi sampling NFFT real sbf e NFFT_pos Hc); try assumption.
  intros k0. rewrite EB. apply polyval_none_nonzero.
Qed.

(* parma: the MA part never vanishes on the grid and rho > 0; the AR part comes from the covariance method, which
   has no stability guarantee, so its non-vanishing on the grid stays a hypothesis (search only) *)
Theorem parma_psd_pos_thm (lsm lsq : list F -> nat -> list F) (x : list F) P Q lag a b rho N order twopi sampling real sbf e :
  arma_estimate lsm lsq x P Q lag = inr (a, b, rho) ->
  (exists t, (t < length x - P)%nat /\ nthF (arma_resid x a P) t <> 0) ->
  class_call tw Cparma a b rho N order twopi sampling NFFT real sbf = inr e ->
  pos sampling -> pos twopi ->
  (forall k, Spectrum.Proofs.ArmaEstPsd.polyval tw (Some b) k <> 0)
  /\ ((forall k, Spectrum.Proofs.ArmaEstPsd.polyval tw (Some a) k <> 0) ->
      forall k, (k < nbins real NFFT)%nat -> pos (nthF (x_psd e) k)).
Proof.
  intros H Hres Hc Hs Ht. destruct (class_call_exposed _ _ _ _ _ _ _ _ _ _ _ _ _ Hc) as [EA EB].
  cbn [class_A class_B] in EA, EB.
  destruct (arma_steps_thm _ _ _ _ _ _ _ _ _ H) as (r & _ & _ & Em). pose proof (proj1 (ma_lengths_thm _ _ _ _ _ Em)) as Hb.
  assert (HB : forall k, Spectrum.Proofs.ArmaEstPsd.polyval tw (Some b) k <> 0).
  { intros k0. apply (grid_nonzero NFFT tw NFFT_pos). rewrite Hb. intros z Hz.
    exact (arma_ma_invertible_thm lsm lsq x P Q lag a b rho z H Hres Hz). }
  split; [exact HB|]. intros HA k Hk.
  apply (class_psd_pos_thm tw Cparma a b rho N order twopi sampling NFFT real sbf e NFFT_pos Hc); try assumption.
  - exact (arma_rho_pos_thm lsm lsq x P Q lag a b rho H Hres).
  - intros k0. rewrite EA. apply HA.
  - intros k0. rewrite EB. apply HB.
Qed.
End Classes.
End Stable.

(* ---------- roots in an ordered extension (data in F, roots in K) ---------- *)
Section StableExt.
Context {F : Type} {OF : Ops F} {L : Laws OF} {OL : OrdLaws OF}.
Context {K : Type} {OK : Ops K} {LK : Laws OK} {OLK : OrdLaws OK}.
Local Open Scope F_scope.
Variable phi : F -> K.
Hypothesis H : StarHom phi.

Theorem ma_invertible_ext_thm (x : list F) Q M b rho (z : K) :
  (exists n, (n < length x)%nat /\ nthF x n <> 0) ->
  ma x Q M = inr (b, rho) ->
  sumf (S Q) (fun j => phi (afun b j) * fpow z (Q - j)) = 0 -> lt (nrm2 z) 1.
Proof.
  intros _ Hm Hz. unfold ma in Hm. destruct ((Q =? 0)%nat || (M <=? Q)%nat); [discriminate|].
  destruct (Spectrum.Model.ArmaEst.aryule x M Biased) as [[[a r0] k1]|]; [|discriminate].
  destruct (Spectrum.Model.ArmaEst.aryule (1 :: a) Q Biased) as [[[b' P2] k2]|] eqn:E2; [|discriminate].
  injection Hm as <- _. apply aryule_bridge in E2.
  exact (aryule_stable_ext_thm phi H (1 :: a) Q true b' P2 k2 z (one_cons_nonzero a) E2 Hz).
Qed.

Theorem arma_ma_invertible_ext_thm (lsm lsq : list F -> nat -> list F) (x : list F) P Q lag a b rho (z : K) :
  arma_estimate lsm lsq x P Q lag = inr (a, b, rho) ->
  (exists t, (t < length x - P)%nat /\ nthF (arma_resid x a P) t <> 0) ->
  sumf (S Q) (fun j => phi (afun b j) * fpow z (Q - j)) = 0 -> lt (nrm2 z) 1.
Proof.
  intros He (t & Ht & Hne) Hz. destruct (arma_steps_thm _ _ _ _ _ _ _ _ _ He) as (r & _ & _ & Em).
  apply (ma_invertible_ext_thm (arma_resid x a P) Q (2 * Q) b rho z); [|exact Em|exact Hz].
  exists t. split; [unfold arma_resid; rewrite mk_length; exact Ht|exact Hne].
Qed.
End StableExt.
