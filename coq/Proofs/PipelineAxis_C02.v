(* C02 — where the entries of a stored PSD come from, for EVERY store of the pipeline vocabulary (Model/PipelineLib.v):
   entry j of [do_store st NFFT Sp] is  (a positive integer weight) * Sp[src_index st NFFT (length Sp) j],
   and the source index is the entry of the functional result that belongs to the SAME frequency:
     SAsIs                       index j                                       weight 1
     SHalf he ho fac false       index j                                       weight fac      (first half times fac)
     SHalf he ho fac true        index hi-1-j  (centred input: bin -j)         weight fac      (pmusic / pev, real data)
     STwo2One                    index j                                       weight 1 at DC and (NFFT even) Nyquist, else 2
     SCenter2Two (ifftshift)     index j + n/2  or  j - (n - n/2): centred bin congruent to j mod n        weight 1
   Together with [stored_coef] (every step is a uniform scaling) this gives
     nthF (stored ...) j = coef * weight * Sp[index]      -- the value sits at the frequency frequencies()[j].
   The theorems over the GENERATED table (tools/props/C02.py, recompiled on every run) instantiate these lemmas row by row. *)
From Coq Require Import String Lia.
Require Import Spectrum.Theory.Ops Spectrum.Theory.Sum Spectrum.Theory.Vec Spectrum.Model.Convert
               Spectrum.Model.PipelineLib Spectrum.Proofs.PipelineTheory.

Section PipelineAxis.
Context {F : Type} {OF : Ops F} {L : Laws OF}.
Local Open Scope F_scope.
Add Field FFpax : (fth (O:=OF)).
Variable twopi : F.

(* ---------------- lengths ---------------- *)
(* number of entries the default axis of a data type has: Range.onesided for real data, Range.twosided for complex data *)
Definition default_side (real : bool) : sides := if real then Onesided else Twosided.
Definition axis_len (real : bool) (NFFT : nat) : nat := flen (if real then One else Two) NFFT.

Lemma hi_eval_flen he ho NFFT : he = HalfPlus1 -> ho = HalfUp ->
  (if Nat.even NFFT then hi_eval he NFFT else hi_eval ho NFFT) = flen One NFFT.
Proof. intros -> ->. reflexivity. Qed.

Lemma flen_One_le n : (1 <= n)%nat -> (flen One n <= n)%nat.
Proof.
  intros Hn. cbn [flen]. destruct (Nat.even n) eqn:E.
  - apply Nat.even_spec in E. destruct E as [k ->]. rewrite Nat.mul_comm, Nat.div_mul by lia. lia.
  - assert (Ho : Nat.odd n = true) by (unfold Nat.odd; rewrite E; reflexivity).
    apply Nat.odd_spec in Ho. destruct Ho as [k ->].
    replace (2 * k + 1 + 1)%nat with ((k + 1) * 2)%nat by lia. rewrite Nat.div_mul by lia. lia.
Qed.
Lemma flen_One_half n : (1 <= n)%nat -> flen One n = (n / 2 + 1)%nat.
Proof.
  intros Hn. cbn [flen]. destruct (Nat.even n) eqn:E; [reflexivity|].
  assert (Ho : Nat.odd n = true) by (unfold Nat.odd; rewrite E; reflexivity).
  apply Nat.odd_spec in Ho. destruct Ho as [k ->].
  replace (2 * k + 1 + 1)%nat with ((k + 1) * 2)%nat by lia. rewrite Nat.div_mul by lia.
  replace (2 * k + 1)%nat with (1 + k * 2)%nat by lia. rewrite Nat.div_add by lia. cbn. lia.
Qed.

(* ---------------- entries ---------------- *)
Lemma nthF_rev_lt (l : list F) i : (i < length l)%nat -> nthF (rev l) i = nthF l (length l - 1 - i).
Proof. intros Hi. unfold nthF. rewrite rev_nth by exact Hi. f_equal. lia. Qed.

Definition two2one_weight (n j : nat) : F :=
  let a := two in
  let a := if (j =? 0)%nat then a / two else a in
  if (Nat.even n && (j =? n / 2)%nat)%bool then a / two else a.

(* which entry of the functional result lands at entry j, and with which factor *)
Definition src_index (st : store) (NFFT len j : nat) : nat :=
  match st with
  | SAsIs | STwo2One => j
  | SHalf he ho _ flip =>
      let hi := Nat.min (if Nat.even NFFT then hi_eval he NFFT else hi_eval ho NFFT) len in
      if flip then (hi - 1 - j)%nat else j
  | SCenter2Two => if (j <? len - len / 2)%nat then (j + len / 2)%nat else (j - (len - len / 2))%nat
  end.
Definition src_weight (st : store) (len j : nat) : F :=
  match st with
  | SAsIs | SCenter2Two => 1
  | SHalf _ _ fac _ => ofnat fac
  | STwo2One => two2one_weight len j
  end.

Theorem do_store_entry st NFFT (Sp : list F) j : (j < length (do_store st NFFT Sp))%nat ->
  nthF (do_store st NFFT Sp) j = src_weight st (length Sp) j * nthF Sp (src_index st NFFT (length Sp) j).
Proof.
  intros Hj. rewrite do_store_length in Hj.
  destruct st as [|he ho fac flip| |]; cbn [do_store src_weight src_index].
  - ring.
  - set (hi := if Nat.even NFFT then hi_eval he NFFT else hi_eval ho NFFT) in *.
    assert (Hl : length (vscale (ofnat fac) (firstn hi Sp)) = Nat.min hi (length Sp))
      by (rewrite vscale_length, firstn_length; reflexivity).
    destruct flip.
    + rewrite nthF_rev_lt by (rewrite Hl; exact Hj). rewrite Hl, nthF_vscale, nthF_firstn by lia. reflexivity.
    + rewrite nthF_vscale, nthF_firstn by lia. reflexivity.
  - unfold two2one. cbv zeta. rewrite nth_mk by exact Hj. unfold two2one_weight.
    destruct (j =? 0)%nat; destruct (Nat.even (length Sp) && (j =? length Sp / 2)%nat)%bool; rewrite ?pdiv_mul_inv; ring.
  - unfold ifftshift. cbv zeta. rewrite nth_mk by exact Hj. destruct (j <? length Sp - length Sp / 2)%nat; ring.
Qed.

(* the weight of twosided_2_onesided in closed form: 1 at DC and at the Nyquist entry of an even grid, 2 elsewhere *)
Lemma two2one_weight_spec n j : (1 <= n)%nat ->
  two2one_weight n j = if ((j =? 0)%nat || (Nat.even n && (j =? n / 2)%nat))%bool then 1 else two.
Proof.
  intros Hn. unfold two2one_weight.
  destruct (j =? 0)%nat eqn:E0; destruct (Nat.even n && (j =? n / 2)%nat)%bool eqn:E1; cbn [orb].
  - (* both: j = 0 = n/2 with n even and >= 1 is impossible *)
    exfalso. apply Nat.eqb_eq in E0. apply andb_prop in E1. destruct E1 as [Ee Eh]. apply Nat.eqb_eq in Eh. subst j.
    apply Nat.even_spec in Ee. destruct Ee as [k ->]. rewrite Nat.mul_comm, Nat.div_mul in Eh by lia. lia.
  - field. apply two_neq_0.
  - field. apply two_neq_0.
  - reflexivity.
Qed.

(* the source index is inside the functional result *)
Lemma src_index_lt st NFFT (Sp : list F) j : (j < length (do_store st NFFT Sp))%nat ->
  (match st with STwo2One => 1 <= length Sp | _ => True end)%nat ->
  (src_index st NFFT (length Sp) j < length Sp)%nat.
Proof.
  intros Hj Hn. rewrite do_store_length in Hj.
  destruct st as [|he ho fac flip| |]; cbn [src_index].
  - exact Hj.
  - destruct flip; lia.
  - assert (length Sp / 2 < length Sp)%nat by (apply Nat.div_lt; lia). lia.
  - assert (length Sp / 2 <= length Sp)%nat by (apply Nat.div_le_upper_bound; lia).
    destruct (Nat.ltb_spec j (length Sp - length Sp / 2)); lia.
Qed.

(* ---------------- the frequency each source index belongs to ---------------- *)
(* a CENTRED functional result (eigen(): entry i is bin i - n/2) stored through ifftshift: entry j holds the bin congruent to j *)
Lemma center2two_bin n j : (j < n)%nat ->
  exists c : Z, (Z.of_nat (src_index SCenter2Two n n j) - Z.of_nat (n / 2) = Z.of_nat j + c * Z.of_nat n)%Z.
Proof.
  intros Hj. cbn [src_index].
  assert (n / 2 <= n)%nat by (apply Nat.div_le_upper_bound; lia).
  destruct (Nat.ltb_spec j (n - n / 2)).
  - exists 0%Z. lia.
  - exists (-1)%Z. lia.
Qed.
(* ... and through "first half, reversed": entry j holds bin -j *)
Lemma halfflip_bin n j : (1 <= n)%nat -> (j < flen One n)%nat ->
  (Z.of_nat (src_index (SHalf HalfPlus1 HalfUp 2%nat true) n n j) - Z.of_nat (n / 2) = - Z.of_nat j)%Z.
Proof.
  intros Hn Hj. cbn [src_index]. rewrite (hi_eval_flen HalfPlus1 HalfUp n eq_refl eq_refl).
  pose proof (flen_One_le n Hn) as Hle. rewrite Nat.min_l by exact Hle.
  rewrite (flen_One_half n Hn) in *. lia.
Qed.

(* ---------------- stored = coefficient * weight * functional result at the same frequency ---------------- *)
Theorem stored_entry m p (real : bool) sbf (s : sstate) (Sp : list F) j :
  let st := if real then p_real p else p_cplx p in
  (j < length (stored twopi m p real sbf s Sp))%nat ->
  nthF (stored twopi m p real sbf s Sp) j
  = coef twopi m p real sbf s (length (layout p real (st_NFFT s) Sp))
    * (src_weight st (length Sp) j * nthF Sp (src_index st (st_NFFT s) (length Sp) j)).
Proof.
  cbv zeta. intros Hj. rewrite stored_length in Hj. rewrite stored_coef, nthF_vscale. f_equal.
  unfold layout in *. apply do_store_entry. exact Hj.
Qed.

(* the two layouts used by the eight classes built on a two-sided spectrum (and by Periodogram / pdaniell for SAsIs) *)
Theorem stored_entry_halfslice m p real sbf (s : sstate) (Sp : list F) j :
  p_real p = SHalf HalfPlus1 HalfUp 2 false -> p_cplx p = SAsIs ->
  (1 <= st_NFFT s)%nat -> length Sp = st_NFFT s -> (j < axis_len real (st_NFFT s))%nat ->
  length (stored twopi m p real sbf s Sp) = axis_len real (st_NFFT s) /\
  nthF (stored twopi m p real sbf s Sp) j
  = coef twopi m p real sbf s (axis_len real (st_NFFT s)) * ((if real then ofnat 2 else 1) * nthF Sp j).
Proof.
  intros Hr Hc Hn HS Hj.
  assert (Hlen : length (layout p real (st_NFFT s) Sp) = axis_len real (st_NFFT s)).
  { unfold layout, axis_len. destruct real; [rewrite Hr|rewrite Hc]; rewrite do_store_length.
    - rewrite (hi_eval_flen HalfPlus1 HalfUp _ eq_refl eq_refl), HS. apply Nat.min_l, flen_One_le, Hn.
    - exact HS. }
  split; [rewrite stored_length; exact Hlen|].
  rewrite stored_entry by (rewrite stored_length, Hlen; exact Hj). rewrite Hlen.
  destruct real; [rewrite Hr|rewrite Hc]; reflexivity.
Qed.

(* ---------------- length of the stored PSD = length of the default axis ---------------- *)
(* SPECIFICATION of what the functional estimator of a class returns (sampling-free part Sp): speriodogram returns the rfft / fft
   bins (already one-sided for real data); CORRELOGRAMPSD, arma2psd, minvar, eigen and the weighted multitaper mean return NFFT
   values.  (Each is a theorem about the estimator's model: Properties/C02.v functional_lengths.)  pdaniell is not one of the
   twelve classes of the statement. *)
Definition fest_len (c : cls) (real : bool) (NFFT : nat) : nat :=
  match c with Periodogram => axis_len real NFFT | _ => NFFT end.
(* the input length a store expects, and the stores that make sense for a data type *)
Definition src_len (st : store) (real : bool) (NFFT : nat) : nat :=
  match st with SAsIs => axis_len real NFFT | _ => NFFT end.
Definition store_shape (st : store) (real : bool) : bool :=
  match st with
  | SAsIs => true
  | SHalf HalfPlus1 HalfUp _ _ => real
  | SHalf _ _ _ _ => false
  | STwo2One => real
  | SCenter2Two => negb real
  end.
Lemma do_store_axis_length st real NFFT (Sp : list F) : (1 <= NFFT)%nat ->
  store_shape st real = true -> length Sp = src_len st real NFFT ->
  length (do_store st NFFT Sp) = axis_len real NFFT.
Proof.
  intros Hn Hs HS. rewrite do_store_length.
  destruct st as [|he ho fac flip| |]; cbn [store_shape src_len] in *.
  - exact HS.
  - destruct he; try discriminate Hs. destruct ho; try discriminate Hs. subst real.
    rewrite (hi_eval_flen HalfPlus1 HalfUp _ eq_refl eq_refl), HS. apply Nat.min_l, flen_One_le, Hn.
  - subst real. rewrite HS. symmetry. apply flen_One_half, Hn.
  - destruct real; [discriminate Hs|]. exact HS.
Qed.

(* the psd setter (psd.py _setPSD): real data leaves NFFT and the Range alone; complex data sets NFFT := len(psd), range.N := NFFT *)
Definition st_psdset (m : psdmodel) (real : bool) (len : nat) (s : @sstate F) : @sstate F :=
  if real then s else
  if m_psdset_cplx_nfft_len m
  then {| st_sampling := st_sampling s; st_range_sampling := st_range_sampling s; st_NFFT := len; st_range_N := len |}
  else s.
Lemma st_psdset_same m real (s : @sstate F) : st_range_N s = st_NFFT s -> st_psdset m real (st_NFFT s) s = s.
Proof.
  intros E. unfold st_psdset. destruct real; [reflexivity|]. destruct (m_psdset_cplx_nfft_len m); [|reflexivity].
  destruct s as [a b c d]. cbn in *. subst d. reflexivity.
Qed.
End PipelineAxis.
