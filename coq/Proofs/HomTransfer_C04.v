(* C04 — "real data => the functional estimator returns the same parameters as for the complexified data".

   The real code path is the model at a *-field R (for real data: conj = id), the complex path the same model at F;
   [phi : R -> F] is a *-homomorphism (the inclusion of the reals) that agrees with the sign test [le0].
   CORRELATION, LEVINSON, aryule and arburg commute with phi: running the estimator on the complexified samples gives
   the complexified parameters.  Hypotheses: the quantities the code divides by are nonzero (N, N-k, mean power
   for 'coeff', the error powers / Burg denominators of the executed stages).
   Corollaries inside one field: real data => real AR / reflection coefficients (from the conjugation theorems). *)
Require Import Spectrum.Theory.Ops Spectrum.Theory.Sum Spectrum.Theory.Vec Spectrum.Theory.Dft
               Spectrum.Model.Levinson Spectrum.Model.Corr Spectrum.Model.Burg Spectrum.Model.Yule Spectrum.Model.Arma2psd
               Spectrum.Proofs.CorrTheory Spectrum.Proofs.LevinsonTheory Spectrum.Proofs.BurgTheory Spectrum.Proofs.YuleExt
               Spectrum.Proofs.Arma2psdTheory Spectrum.Proofs.ShiftTheory
               Spectrum.Proofs.ShiftDft_C04 Spectrum.Proofs.ShiftPeriodogram_C04 Spectrum.Proofs.ShiftArma_C04 Spectrum.Proofs.ShiftBurg_C04.

Section Hom.
Context {R : Type} {OR : Ops R} {LR : Laws OR}.
Context {F : Type} {OF : Ops F} {L : Laws OF}.
Local Open Scope F_scope.
Add Field RRh : (fth (O:=OR)).
Add Field FFh : (fth (O:=OF)).
Variable phi : R -> F.
Hypothesis H : StarHom phi.
Hypothesis Hle : forall a : R, le0 (phi a) = le0 a.

Let h0 := hom_0 _ H. Let h1 := hom_1 _ H. Let hadd := hom_add _ H. Let hmul := hom_mul _ H. Let hconj := hom_conj _ H.

Lemma hom_nrm2 a : phi (nrm2 a) = nrm2 (phi a).
Proof. unfold nrm2. rewrite hmul, hconj. reflexivity. Qed.
Lemma hom_two : phi two = two.
Proof. unfold two. rewrite hadd, h1. reflexivity. Qed.
Lemma hom_re a : phi (re a) = re (phi a).
Proof. unfold re. rewrite (hom_div phi H) by apply two_neq_0. rewrite hadd, hconj, hom_two. reflexivity. Qed.
Lemma hom_mk n (f : nat -> R) : map phi (mk n f) = mk n (fun j => phi (f j)).
Proof. unfold mk. rewrite map_map. reflexivity. Qed.
Lemma hom_sumL_nrm2 (x : list R) : sumL (map nrm2 (map phi x)) = phi (sumL (map nrm2 x)).
Proof. induction x as [|a x IH]; cbn; [symmetry; exact h0|]. rewrite hadd, hom_nrm2, IH. reflexivity. Qed.
Lemma hom_mean_pow (x : list R) : ofnat (length x) <> (0 : R) -> mean_pow (map phi x) = phi (mean_pow x).
Proof.
  intros HN. unfold mean_pow. rewrite map_length, (hom_div phi H) by exact HN. rewrite (hom_ofnat phi H), hom_sumL_nrm2. reflexivity.
Qed.
Lemma hom_lag_sum N (x y : list R) k : lag_sum N (map phi x) (map phi y) k = phi (lag_sum N x y k).
Proof.
  rewrite !lag_sum_sumf, (hom_sumf phi H). apply sumf_ext; intros j _.
  rewrite !(hom_nth phi H), hmul, hconj. reflexivity.
Qed.

(* ---------------- CORRELATION ---------------- *)
Theorem acorr_hom_thm (x : list R) ml nm : (forall k, (1 <= k)%nat -> ofnat k <> (0 : R)) ->
  (nm = Coeff -> mean_pow x <> 0) ->
  acorr (map phi x) ml nm = option_map (map phi) (acorr x ml nm).
Proof.
  intros Hch Hmp. unfold acorr, correlation. cbv zeta. rewrite map_length, Nat.max_id.
  destruct (Nat.ltb_spec ml (length x)) as [Hl|Hl]; [|reflexivity]. cbn [option_map]. f_equal.
  rewrite hom_mk. apply mk_ext; intros k Hk. rewrite hom_lag_sum.
  assert (HN : ofnat (length x) <> (0 : R)) by (apply Hch; lia).
  assert (HNk : ofnat (length x - k) <> (0 : R)) by (apply Hch; lia).
  rewrite hom_mean_pow by exact HN.
  destruct k, nm; rewrite ?(hom_div phi H), ?(hom_ofnat phi H) by (try assumption; apply Hmp; reflexivity);
    try reflexivity; symmetry; exact h1.
Qed.

(* ---------------- LEVINSON ---------------- *)
Definition homst (st : @lev_state R) : @lev_state F := let '(A, P, ks) := st in (map phi A, phi P, map phi ks).
Lemma lev_delta_hom (Tl A : list R) m : lev_delta (map phi Tl) (map phi A) m = phi (lev_delta Tl A m).
Proof.
  unfold lev_delta. rewrite !sumL_mk, hadd, (hom_sumf phi H), (hom_nth phi H). f_equal.
  apply sumf_ext; intros j _. rewrite !(hom_nth phi H), hmul. reflexivity.
Qed.
Lemma stepup_hom (A : list R) k : stepup (map phi A) (phi k) = map phi (stepup A k).
Proof.
  unfold stepup. rewrite map_app, map_length, hom_mk. cbn [map]. f_equal.
  apply mk_ext; intros j _. rewrite !(hom_nth phi H), hadd, hmul, hconj. reflexivity.
Qed.
Lemma lev_step_hom Tl allow A P ks m : P <> 0 ->
  lev_step (map phi Tl) allow (homst (A, P, ks)) m = option_map homst (lev_step Tl allow (A, P, ks) m).
Proof.
  intros HP0. unfold homst, lev_step. rewrite lev_delta_hom.
  set (k := - lev_delta Tl A m / P).
  assert (Ek : - phi (lev_delta Tl A m) / phi P = phi k).
  { unfold k. rewrite (hom_div phi H), (hom_opp phi H) by exact HP0. reflexivity. }
  rewrite Ek.
  assert (EP : phi P * (1 - phi k * conj (phi k)) = phi (P * (1 - k * conj k))).
  { rewrite hmul, (hom_sub phi H), hmul, hconj, h1. reflexivity. }
  rewrite EP, Hle. destruct (le0 (P * (1 - k * conj k)) && negb allow); [reflexivity|]. cbn [option_map].
  rewrite stepup_hom, map_app. reflexivity.
Qed.
Lemma lev_iter_hom Tl allow P0 m :
  (forall q A P ks, (q < m)%nat -> lev_iter Tl allow P0 q = Some (A, P, ks) -> P <> 0) ->
  lev_iter (map phi Tl) allow (phi P0) m = option_map homst (lev_iter Tl allow P0 m).
Proof.
  induction m; intros Hok; [reflexivity|].
  cbn [lev_iter]. rewrite IHm by (intros q A P ks Hq; apply Hok; lia).
  destruct (lev_iter Tl allow P0 m) as [[[A P] ks]|] eqn:E; [|reflexivity]. cbn [option_map].
  apply lev_step_hom. apply (Hok m A P ks); [lia|exact E].
Qed.
Lemma tl_map (r : list R) : tl (map phi r) = map phi (tl r).
Proof. destruct r; reflexivity. Qed.
Theorem levinson_hom_thm (r : list R) p allow :
  (forall q A P ks, (q < p)%nat -> levinson r q allow = Some (A, P, ks) -> P <> 0) ->
  levinson (map phi r) p allow = option_map homst (levinson r p allow).
Proof.
  intros Hok. unfold levinson. rewrite map_length.
  destruct (Nat.leb_spec p (length r - 1)) as [Hp|Hp]; [|reflexivity].
  rewrite tl_map, (hom_nth phi H), <- hom_re. apply lev_iter_hom.
  intros q A P ks Hq E. apply (Hok q A P ks Hq). unfold levinson.
  destruct (Nat.leb_spec q (length r - 1)); [exact E|lia].
Qed.

(* ---------------- aryule ---------------- *)
Definition hom_yw (r : @yw_result R) : @yw_result F := match r with inl e => inl e | inr st => inr (homst st) end.
Theorem aryule_hom_thm (x : list R) order nm allow : (forall k, (1 <= k)%nat -> ofnat k <> (0 : R)) ->
  (forall r q A P ks, acorr x order nm = Some r -> (q < length r - 1)%nat -> levinson r q allow = Some (A, P, ks) -> P <> 0) ->
  aryule (map phi x) order nm allow = hom_yw (aryule x order nm allow).
Proof.
  intros Hch Hok. unfold aryule. destruct nm; try reflexivity;
    (rewrite acorr_hom_thm by (try exact Hch; discriminate));
    (destruct (acorr x order _) as [r|] eqn:E; [|reflexivity]); cbn [option_map];
    rewrite map_length, levinson_hom_thm by (intros q A P ks Hq; apply (Hok r q A P ks eq_refl Hq));
    (destruct (levinson r (length r - 1) allow); reflexivity).
Qed.

(* ---------------- arburg ---------------- *)
Definition homburg (st : @burg_st R) : @burg_st F :=
  {| b_a := map phi (b_a st); b_rho := phi (b_rho st); b_ref := map phi (b_ref st);
     b_ef := map phi (b_ef st); b_eb := map phi (b_eb st); b_den := phi (b_den st); b_temp := phi (b_temp st) |}.
Definition hom_out (o : @burg_out R) : @burg_out F :=
  match o with BCont s => BCont (homburg s) | BStop s => BStop (homburg s) | BRaise => BRaise end.
Variable stopR : nat -> R -> R -> bool.
Variable stopF : nat -> F -> F -> bool.
Hypothesis Hstop : forall k a b, stopF k (phi a) (phi b) = stopR k a b.

Lemma burg_num_hom N k st : burg_num N (b_ef (homburg st)) (b_eb (homburg st)) k = phi (burg_num N (b_ef st) (b_eb st) k).
Proof.
  rewrite !burg_num_sumf, (hom_sumf phi H). apply sumf_ext; intros i _. cbn [homburg b_ef b_eb].
  rewrite !(hom_nth phi H), hmul, hconj. reflexivity.
Qed.
Lemma burg_den_hom N k st : burg_den N (homburg st) k = phi (burg_den N st k).
Proof.
  unfold burg_den. cbn [homburg b_ef b_eb b_den b_temp].
  rewrite !(hom_nth phi H), !(hom_sub phi H), hmul, !hom_nrm2. reflexivity.
Qed.
Lemma burg_step_hom N k st : burg_den N st k <> 0 ->
  burg_step stopF N (homburg st) k = hom_out (burg_step stopR N st k).
Proof.
  intros Hd0. unfold burg_step.
  assert (Ek : burg_kp N (homburg st) k = phi (burg_kp N st k)).
  { unfold burg_kp. rewrite burg_num_hom, burg_den_hom, (hom_div phi H), (hom_opp phi H), hmul, hom_two by exact Hd0. reflexivity. }
  rewrite Ek, burg_den_hom. cbn [homburg b_rho]. set (kp := burg_kp N st k).
  assert (Er : (1 - nrm2 (phi kp)) * phi (b_rho st) = phi ((1 - nrm2 kp) * b_rho st)).
  { rewrite hmul, (hom_sub phi H), hom_nrm2, h1. reflexivity. }
  rewrite Er, Hstop, Hle.
  destruct (stopR (S k) (b_rho st) ((1 - nrm2 kp) * b_rho st)); [reflexivity|].
  destruct (le0 ((1 - nrm2 kp) * b_rho st)); [reflexivity|]. cbn [hom_out]. f_equal.
  unfold homburg. cbn [b_a b_rho b_ref b_ef b_eb b_den b_temp]. f_equal.
  - apply stepup_hom.
  - rewrite map_app. reflexivity.
  - rewrite hom_mk. apply mk_ext; intros j _. rewrite !(hom_nth phi H).
    destruct (k <? j)%nat; [rewrite hadd, hmul|]; reflexivity.
  - rewrite hom_mk. apply mk_ext; intros j _. rewrite !(hom_nth phi H).
    destruct (k <? j)%nat; [rewrite hadd, hmul, hconj|]; reflexivity.
  - rewrite (hom_sub phi H), hom_nrm2, h1. reflexivity.
Qed.
Lemma burg_iter_hom (x : list R) m : ofnat (length x) <> (0 : R) ->
  (forall q st, (q < m)%nat -> burg_iter stopR x q = BCont st -> burg_den (length x) st q <> 0) ->
  burg_iter stopF (map phi x) m = hom_out (burg_iter stopR x m).
Proof.
  intros HN. induction m; intros Hok.
  - cbn [burg_iter hom_out]. f_equal. unfold burg_init, homburg. cbn [b_a b_rho b_ref b_ef b_eb b_den b_temp].
    change (mean_power (map phi x)) with (mean_pow (map phi x)). rewrite hom_mean_pow by exact HN.
    change (mean_pow x) with (mean_power x). rewrite map_length, !hmul, hom_two, (hom_ofnat phi H), h1. reflexivity.
  - cbn [burg_iter]. rewrite IHm by (intros q st Hq; apply Hok; lia). rewrite map_length.
    destruct (burg_iter stopR x m) as [st|st|] eqn:E; cbn [hom_out]; try reflexivity.
    apply burg_step_hom. apply (Hok m st); [lia|exact E].
Qed.
Definition homres (r : list R * R * list R) : list F * F * list F := let '(a, rho, k) := r in (map phi a, phi rho, map phi k).
Theorem arburg_hom_thm (x : list R) order : ofnat (length x) <> (0 : R) ->
  (forall q st, (q < order)%nat -> burg_iter stopR x q = BCont st -> burg_den (length x) st q <> 0) ->
  arburg (map phi x) order stopF = option_map homres (arburg x order stopR).
Proof.
  intros HN Hok. unfold arburg. rewrite map_length. destruct ((order =? 0)%nat || (length x <? order)%nat); [reflexivity|].
  rewrite burg_iter_hom by assumption. destruct (burg_iter stopR x order); reflexivity.
Qed.
End Hom.

(* ---------------- inside one field: real data => real parameters ---------------- *)
Section RealOut.
Context {F : Type} {OF : Ops F} {L : Laws OF}.
Local Open Scope F_scope.
Definition allreal (l : list F) : Prop := forall j, isreal (nthF l j).
Lemma vconj_allreal (l : list F) : allreal l -> vconj l = l.
Proof. intros Hl. apply vconj_real. intros j _. apply Hl. Qed.
Lemma allreal_of_vconj (l : list F) : vconj l = l -> allreal l.
Proof. intros E j. unfold isreal. rewrite <- nthF_vconj, E. reflexivity. Qed.

Theorem arburg_real_thm (x : list F) order stop a rho k : allreal x -> ofnat (length x) <> 0 ->
  (forall q st, (q < order)%nat -> burg_iter stop x q = BCont st -> burg_den (length x) st q <> 0) ->
  arburg x order stop = Some (a, rho, k) -> allreal a /\ allreal k.
Proof.
  intros Hx HN Hok E. pose proof (arburg_conj_thm x order stop HN Hok) as C.
  rewrite (vconj_allreal x Hx), E in C. cbn [option_map conjst] in C. injection C as Ea Ek.
  split; apply allreal_of_vconj; congruence.
Qed.
Theorem aryule_real_thm (x : list F) order nm allow a P k : allreal x -> (forall j, (1 <= j)%nat -> ofnat j <> 0) ->
  (forall r q A P ks, acorr x order nm = Some r -> (q < length r - 1)%nat -> levinson r q allow = Some (A, P, ks) -> P <> 0) ->
  aryule x order nm allow = inr (a, P, k) -> allreal a /\ allreal k.
Proof.
  intros Hx Hch Hok E. pose proof (aryule_conj_thm x order nm allow Hch Hok) as C.
  rewrite (vconj_allreal x Hx), E in C. cbn [map_yw conjst] in C. injection C as Ea Ek.
  split; apply allreal_of_vconj; congruence.
Qed.
End RealOut.
