(* C04 — arcovar / modcovar (corrmtx + the executable least-squares solver [ls_solve] = Gaussian elimination on the
   normal equations + the post-processing of covar.py / modcovar.py) under modulation, conjugation and, for the
   modified covariance method, conjugated time reversal.

   1. [ar_ls ls_solve tol X p] reads the data matrix only through its full Gram function FG X i j = <col i, col j>, i,j <= p.
   2. Gaussian elimination without row exchanges is equivariant under  G'(i,j) = u_i f(G(i,j)) v_j,  u_i v_i = 1
      (f = id with diagonal unitary scalings: modulation; f = conj with u = v = 1: conjugation): same pivot tests, the
      solution is scaled by u.
   3. The Gram function of the covariance / modified data matrix of the modulated (conjugated, reversed) data. *)
Require Import Spectrum.Theory.Ops Spectrum.Theory.Sum Spectrum.Theory.Vec Spectrum.Theory.Dft
               Spectrum.Model.Levinson Spectrum.Model.Corr Spectrum.Model.Ls Spectrum.Model.Arma2psd
               Spectrum.Proofs.LevinsonTheory Spectrum.Proofs.CovarTheory Spectrum.Proofs.ShiftTheory Spectrum.Proofs.Arma2psdTheory
               Spectrum.Proofs.ShiftDft_C04 Spectrum.Proofs.ShiftPeriodogram_C04 Spectrum.Proofs.ShiftArma_C04.

Section LsGram.
Context {F : Type} {OF : Ops F} {L : Laws OF}.
Local Open Scope F_scope.
Add Field FFsls : (fth (O:=OF)).

(* ---------------- 1. ar_ls through the Gram function ---------------- *)
Definition FG (X : matrix) (i j : nat) : F := dotc (mcol X i) (mcol X j).
Definition sysrows (G : nat -> nat -> F) (p : nat) : matrix :=
  map (fun i => mk p (fun j => G (S i) (S j)) ++ [- G (S i) O]) (seq 0 p).
Definition ne_ok (G : nat -> nat -> F) (p : nat) (a : list F) : bool :=
  forallb (fun i => is_zero (sumf p (fun j => G (S i) (S j) * nthF a j) - (- G (S i) O))) (seq 0 p).
Definition ar_ls_G (G : nat -> nat -> F) (tol : F) (p : nat) : option (list F * F) :=
  match gauss p (sysrows G p) with
  | Some a =>
      if (length a =? p)%nat && ne_ok G p a then
        let s := G O O in
        let e := s + sumf p (fun j => G O (S j) * nthF a j) in
        if le0 (nrm2 (e - conj e) - nrm2 (two * tol * re s)) then Some (a, re e) else None
      else None
  | None => None
  end.

Lemma mcol_cols1 (X : matrix) j : mcol (cols1 X) j = mcol X (S j).
Proof. unfold mcol, cols1. rewrite map_map. apply map_ext. intros r. apply nth_tl. Qed.
Lemma mcol_mneg (A : matrix) j : mcol (mneg A) j = map opp (mcol A j).
Proof. unfold mcol, mneg. rewrite !map_map. apply map_ext. intros r. apply nthF_map. ring. Qed.
Lemma nthF_opp (u : list F) n : nthF (map opp u) n = - nthF u n.
Proof. apply nthF_map. ring. Qed.
Lemma dotc_opp_opp (u w : list F) : dotc (map opp u) (map opp w) = dotc u w.
Proof. rewrite !dotc_sumf, map_length. apply sumf_ext; intros n _. rewrite !nthF_opp, conj_opp. ring. Qed.
Lemma dotc_opp_l (u w : list F) : dotc (map opp u) w = - dotc u w.
Proof. rewrite !dotc_sumf, map_length, <- sumf_opp. apply sumf_ext; intros n _. rewrite nthF_opp, conj_opp. ring. Qed.
Lemma forallb_ext_in {A} (g h : A -> bool) (l : list A) : (forall a, In a l -> g a = h a) -> forallb g l = forallb h l.
Proof.
  induction l as [|a l IH]; intros H; [reflexivity|]. cbn [forallb]. rewrite (H a) by (left; reflexivity).
  rewrite IH by (intros b Hb; apply H; right; exact Hb). reflexivity.
Qed.

Lemma ar_ls_is_G tol (X : matrix) p : ar_ls ls_solve tol X p = ar_ls_G (FG X) tol p.
Proof.
  unfold ar_ls, ls_solve, ar_ls_G. cbv zeta.
  assert (EG : forall i j, dotc (mcol (mneg (cols1 X)) i) (mcol (mneg (cols1 X)) j) = FG X (S i) (S j)).
  { intros i j. rewrite !mcol_mneg, !mcol_cols1, dotc_opp_opp. reflexivity. }
  assert (ER : forall i, dotc (mcol (mneg (cols1 X)) i) (col0 X) = - FG X (S i) O).
  { intros i. rewrite mcol_mneg, mcol_cols1, dotc_opp_l. reflexivity. }
  assert (Erows : map (fun i => nth i (gram_ls p (mneg (cols1 X))) [] ++ [nthF (rhs_ls p (mneg (cols1 X)) (col0 X)) i]) (seq 0 p)
                  = sysrows (FG X) p).
  { unfold sysrows. apply map_ext_in. intros i Hi. apply in_seq in Hi. f_equal.
    - unfold gram_ls. rewrite (nth_map_seq _ [] 0 p i) by lia. apply mk_ext; intros j _. apply EG.
    - f_equal. unfold rhs_ls. rewrite nth_mk by lia. apply ER. }
  rewrite Erows. destruct (gauss p (sysrows (FG X) p)) as [a|]; [|reflexivity].
  assert (Ene : normal_eqs_b p (mneg (cols1 X)) (col0 X) a = ne_ok (FG X) p a).
  { unfold normal_eqs_b, ne_ok. apply forallb_ext_in. intros i _. f_equal. unfold normal_lhs. rewrite sumL_mk, ER. f_equal.
    apply sumf_ext; intros j _. rewrite EG. reflexivity. }
  rewrite Ene. destruct ((length a =? p)%nat && ne_ok (FG X) p a); [|reflexivity].
  assert (Es : dotc (col0 X) (col0 X) = FG X O O) by reflexivity.
  assert (Ee : sumL (mk p (fun j => nthF (mk p (fun j0 => dotc (col0 X) (mcol (cols1 X) j0))) j * nthF a j))
               = sumf p (fun j => FG X O (S j) * nthF a j)).
  { rewrite sumL_mk. apply sumf_ext; intros j Hj. rewrite nth_mk by exact Hj. rewrite mcol_cols1. reflexivity. }
  rewrite Es, Ee. reflexivity.
Qed.

(* ---------------- 2. equivariance of the elimination ---------------- *)
Section GaussEq.
Variable f : F -> F.
Hypothesis f_0 : f 0 = 0.
Hypothesis f_add : forall a b, f (a + b) = f a + f b.
Hypothesis f_mul : forall a b, f (a * b) = f a * f b.
Hypothesis f_opp : forall a, f (- a) = - f a.
Hypothesis f_div : forall a b, b <> 0 -> f (a / b) = f a / f b.
Hypothesis f_zero : forall z, is_zero (f z) = is_zero z.
Variables u v : nat -> F.
Hypothesis uv : forall i, u i * v i = 1.
Hypothesis u_unit : forall i, nrm2 (u i) = 1.

Lemma f_sub a b : f (a - b) = f a - f b.
Proof. replace (a - b) with (a + - b) by ring. rewrite f_add, f_opp. ring. Qed.
Lemma f_sumf n g : f (sumf n g) = sumf n (fun i => f (g i)).
Proof. induction n; cbn; [exact f_0|]. rewrite f_add, IHn. reflexivity. Qed.
Lemma is_zero_u i z : is_zero (u i * f z) = is_zero z.
Proof. unfold is_zero. rewrite nrm2_mul, u_unit. replace (1 * nrm2 (f z)) with (nrm2 (f z)) by ring. apply f_zero. Qed.
Lemma is_zero_neq z : is_zero z = false -> z <> 0.
Proof. unfold is_zero. intros H E. rewrite E in H. unfold nrm2 in H. replace (0 * conj 0) with (0 : F) in H by ring. rewrite le0_zero in H. discriminate. Qed.

Definition wcol (off q j : nat) : F := if (j <? q)%nat then v (off + j) else 1.
Definition RowsRel (off q : nat) (rows rows' : matrix) : Prop :=
  length rows' = length rows /\
  forall i j, (j <= q)%nat -> ent rows' i j = u (off + i) * f (ent rows i j) * wcol off q j.
Definition ssol (off : nat) (sol : list F) : list F := mk (length sol) (fun j => u (off + j) * f (nthF sol j)).
Lemma ssol_length off sol : length (ssol off sol) = length sol. Proof. apply mk_length. Qed.
Lemma nthF_ssol off sol j : nthF (ssol off sol) j = u (off + j) * f (nthF sol j).
Proof.
  unfold ssol. destruct (Nat.lt_ge_cases j (length sol)) as [H|H].
  - rewrite nth_mk by exact H. reflexivity.
  - rewrite nth_mk_ge by exact H. rewrite nthF_overflow by exact H. rewrite f_0. ring.
Qed.
Lemma wcol_0 off q : wcol off (S q) 0 = v off.
Proof. unfold wcol. cbn. rewrite Nat.add_0_r. reflexivity. Qed.
Lemma wcol_S off q j : wcol off (S q) (S j) = wcol (S off) q j.
Proof. unfold wcol. replace (S j <? S q)%nat with (j <? q)%nat by reflexivity. replace (off + S j)%nat with (S off + j)%nat by lia. reflexivity. Qed.
Lemma wcol_last off q : wcol off q q = 1.
Proof. unfold wcol. rewrite Nat.ltb_irrefl. reflexivity. Qed.
Lemma wcol_lt off q j : (j < q)%nat -> wcol off q j = v (off + j).
Proof. intros H. unfold wcol. destruct (Nat.ltb_spec j q); [reflexivity|lia]. Qed.
Lemma mk_S_cons n (g : nat -> F) : mk (S n) g = g O :: mk n (fun j => g (S j)).
Proof. unfold mk. cbn [seq map]. f_equal. rewrite <- seq_shift, map_map. reflexivity. Qed.
Lemma ssol_cons off a sol : ssol off (a :: sol) = u off * f a :: ssol (S off) sol.
Proof.
  unfold ssol. cbn [length]. rewrite mk_S_cons. rewrite nthF_cons0, Nat.add_0_r. f_equal.
  apply mk_ext; intros j _. rewrite nthF_consS. do 2 f_equal. lia.
Qed.
Lemma ent_cons0 (r : list F) rest j : ent (r :: rest) O j = nthF r j. Proof. reflexivity. Qed.
Lemma ent_consS (r : list F) rest i j : ent (r :: rest) (S i) j = ent rest i j. Proof. reflexivity. Qed.
Lemma ent_map_rows (g : list F -> list F) (rest : matrix) i j : nthF (g []) j = 0 ->
  ent (map g rest) i j = nthF (g (nth i rest [])) j.
Proof.
  intros Hg. unfold ent. destruct (Nat.lt_ge_cases i (length rest)) as [H|H].
  - rewrite (nth_indep _ [] (g [])) by (rewrite map_length; exact H). rewrite map_nth. reflexivity.
  - rewrite !nth_overflow by (rewrite ?map_length; exact H). rewrite Hg. apply nthF_nil.
Qed.
Lemma div0 (b : F) : 0 / b = 0.
Proof. rewrite (Fdiv_def (fth (O:=OF))). ring. Qed.

Lemma gauss_equiv q : forall off rows rows', RowsRel off q rows rows' ->
  gauss q rows' = option_map (ssol off) (gauss q rows).
Proof.
  induction q as [|q IH]; intros off rows rows' [Hlen Hent]; [reflexivity|].
  destruct rows as [|r rest], rows' as [|r' rest']; cbn [length] in Hlen; try discriminate; [reflexivity|].
  cbn [gauss].
  assert (Hr : forall j, (j <= S q)%nat -> nthF r' j = u off * f (nthF r j) * wcol off (S q) j).
  { intros j Hj. pose proof (Hent O j Hj) as E. rewrite !ent_cons0, Nat.add_0_r in E. exact E. }
  assert (Epiv : nthF r' 0 = f (nthF r 0)).
  { rewrite Hr by lia. rewrite wcol_0.
    transitivity (f (nthF r 0) * (u off * v off)); [ring|]. rewrite uv. ring. }
  rewrite Epiv, f_zero. destruct (is_zero (nthF r 0)) eqn:Ez; [reflexivity|].
  pose proof (is_zero_neq _ Ez) as Hp0. set (piv := nthF r 0) in *.
  set (rn := map (fun w => w / piv) (tl r)). set (rn' := map (fun w => w / f piv) (tl r')).
  assert (Ern : forall j, nthF rn j = nthF r (S j) / piv).
  { intros j. unfold rn. rewrite nthF_map by apply div0. rewrite nth_tl. reflexivity. }
  assert (Ern' : forall j, (j <= q)%nat -> nthF rn' j = u off * f (nthF rn j) * wcol (S off) q j).
  { intros j Hj. unfold rn'. rewrite nthF_map by apply div0. rewrite nth_tl, Hr by lia. rewrite Ern, f_div by exact Hp0.
    rewrite wcol_S. rewrite !(Fdiv_def (fth (O:=OF))). ring. }
  set (rest2 := map (fun s => mk (S q) (fun j => nthF s (S j) - nthF s 0 * nthF rn j)) rest).
  set (rest2' := map (fun s => mk (S q) (fun j => nthF s (S j) - nthF s 0 * nthF rn' j)) rest').
  assert (R2 : RowsRel (S off) q rest2 rest2').
  { split; [unfold rest2, rest2'; rewrite !map_length; lia|].
    intros i j Hj. unfold rest2, rest2'.
    assert (Hg0 : forall (rr : list F), nthF ((fun s : list F => mk (S q) (fun j0 => nthF s (S j0) - nthF s 0 * nthF rr j0)) []) j = 0).
    { intros rr. cbv beta. rewrite nth_mk by lia. rewrite !nthF_nil. ring. }
    rewrite (ent_map_rows _ rest i j (Hg0 rn)), (ent_map_rows _ rest' i j (Hg0 rn')).
    rewrite !nth_mk by lia.
    pose proof (Hent (S i) (S j) ltac:(lia)) as E1. pose proof (Hent (S i) O ltac:(lia)) as E0.
    rewrite !ent_consS in E1, E0. unfold ent in E1, E0. rewrite E1, E0, Ern' by exact Hj.
    rewrite f_sub, f_mul, wcol_S, wcol_0. replace (off + S i)%nat with (S off + i)%nat by lia.
    set (W := wcol (S off) q j).
    transitivity (u (S off + i) * f (nthF (nth i rest []) (S j)) * W
                  - u (S off + i) * f (nthF (nth i rest []) 0) * f (nthF rn j) * W * (u off * v off)); [ring|].
    rewrite uv. ring. }
  rewrite (IH (S off) rest2 rest2' R2).
  destruct (gauss q rest2) as [sol|]; [|reflexivity]. cbn [option_map]. f_equal.
  rewrite ssol_cons. f_equal.
  rewrite !sumL_mk, Ern' by lia. rewrite wcol_last.
  rewrite (sumf_ext q (fun j => nthF rn' j * nthF (ssol (S off) sol) j) (fun j => u off * f (nthF rn j * nthF sol j))).
  2:{ intros j Hj. rewrite Ern' by lia. rewrite nthF_ssol, f_mul. rewrite wcol_lt by exact Hj.
      transitivity (u off * (f (nthF rn j) * f (nthF sol j)) * (u (S off + j) * v (S off + j))); [ring|]. rewrite uv. ring. }
  rewrite sumf_scale, f_sub, f_sumf. ring.
Qed.

(* ---------------- the post-processing ---------------- *)
Hypothesis f_im : forall e, nrm2 (f e - conj (f e)) = nrm2 (e - conj e).
Hypothesis f_re : forall s, re (f s) = re s.
Hypothesis u0 : u O = 1.
Hypothesis v0 : v O = 1.

Lemma ar_ls_G_equiv (G G' : nat -> nat -> F) tol p :
  (forall i j, (i <= p)%nat -> (j <= p)%nat -> G' i j = u i * f (G i j) * v j) ->
  ar_ls_G G' tol p = option_map (fun r => (ssol 1 (fst r), snd r)) (ar_ls_G G tol p).
Proof.
  intros HG. unfold ar_ls_G.
  assert (R : RowsRel 1 p (sysrows G p) (sysrows G' p)).
  { split; [unfold sysrows; rewrite !map_length; reflexivity|].
    intros i j Hj. unfold sysrows, ent.
    destruct (Nat.lt_ge_cases i p) as [Hi|Hi].
    - rewrite !(nth_map_seq _ [] 0 p i) by exact Hi. cbn [Nat.add].
      destruct (Nat.lt_ge_cases j p) as [Hjp|Hjp].
      + rewrite wcol_lt by exact Hjp. rewrite !nthF_app_l by (rewrite mk_length; exact Hjp). rewrite !nth_mk by exact Hjp. rewrite HG by lia. reflexivity.
      + replace j with p by lia. rewrite wcol_last. rewrite !nthF_app_last' by apply mk_length. rewrite HG by lia. rewrite v0, f_opp. ring.
    - rewrite !nth_overflow by (rewrite map_length, seq_length; exact Hi). rewrite !nthF_nil, f_0. ring. }
  rewrite (gauss_equiv p 1 _ _ R).
  destruct (gauss p (sysrows G p)) as [a|]; [|reflexivity]. cbn [option_map]. rewrite ssol_length.
  assert (Ene : ne_ok G' p (ssol 1 a) = ne_ok G p a).
  { unfold ne_ok. apply forallb_ext_in. intros i Hi. apply in_seq in Hi.
    rewrite <- (is_zero_u (1 + i) (sumf p (fun j => G (S i) (S j) * nthF a j) - - G (S i) O)). f_equal.
    rewrite f_sub, f_opp, f_sumf.
    rewrite (sumf_ext p (fun j => G' (S i) (S j) * nthF (ssol 1 a) j) (fun j => u (1 + i) * f (G (S i) (S j) * nthF a j))).
    2:{ intros j Hj. rewrite HG by lia. rewrite nthF_ssol, f_mul. cbn [Nat.add].
        transitivity (u (S i) * (f (G (S i) (S j)) * f (nthF a j)) * (u (S j) * v (S j))); [ring|]. rewrite uv. ring. }
    rewrite sumf_scale, HG by lia. rewrite v0. cbn [Nat.add]. ring. }
  rewrite Ene. destruct ((length a =? p)%nat && ne_ok G p a); [|reflexivity]. cbv zeta.
  assert (Es : G' O O = f (G O O)) by (rewrite HG by lia; rewrite u0, v0; ring).
  assert (Ee : G' O O + sumf p (fun j => G' O (S j) * nthF (ssol 1 a) j) = f (G O O + sumf p (fun j => G O (S j) * nthF a j))).
  { rewrite f_add, f_sumf, Es. f_equal. apply sumf_ext; intros j Hj. rewrite HG by lia. rewrite nthF_ssol, f_mul, u0. cbn [Nat.add].
    transitivity (f (G O (S j)) * f (nthF a j) * (u (S j) * v (S j))); [ring|]. rewrite uv. ring. }
  rewrite Ee, Es, f_im, !f_re. cbn [fst snd].
  destruct (le0 _); reflexivity.
Qed.
End GaussEq.

(* ---------------- 3. Gram functions of the two data matrices ---------------- *)
Definition gfwd (x : list F) (p i j : nat) : F := sumf (length x - p) (fun n => conj (nthF x (p + n - i)) * nthF x (p + n - j)).
Definition gbwd (x : list F) (p i j : nat) : F := sumf (length x - p) (fun n => nthF x (n + i) * conj (nthF x (n + j))).
Lemma FG_covariance (x : list F) p i j : (i <= p)%nat -> (j <= p)%nat -> FG (corrmtx x p MCovariance) i j = gfwd x p i j.
Proof.
  intros Hi Hj. destruct (corrmtx_covariance_shape_thm x p) as [Hl Hr]. unfold FG. rewrite dotc_mcol by reflexivity. rewrite Hl.
  apply sumf_ext; intros n Hn. destruct (Hr n Hn) as [_ He]. rewrite !He by assumption. reflexivity.
Qed.
Lemma FG_modified (x : list F) p i j : (i <= p)%nat -> (j <= p)%nat ->
  FG (corrmtx x p MModified) i j = gfwd x p i j + gbwd x p i j.
Proof.
  intros Hi Hj. destruct (corrmtx_modified_shape_thm x p) as [Hl Hr]. unfold FG. rewrite dotc_mcol by reflexivity. rewrite Hl.
  replace (2 * (length x - p))%nat with ((length x - p) + (length x - p))%nat by lia. rewrite sumf_split. f_equal.
  - apply sumf_ext; intros n Hn. destruct (Hr n Hn) as (_ & _ & He). destruct (He i Hi) as [E1 _]. destruct (He j Hj) as [E2 _].
    rewrite E1, E2. reflexivity.
  - apply sumf_ext; intros n Hn. destruct (Hr n Hn) as (_ & _ & He). destruct (He i Hi) as [_ E1]. destruct (He j Hj) as [_ E2].
    rewrite E1, E2, conj_conj. reflexivity.
Qed.

Section Mod.
Variable phi : Z -> F.
Hypothesis phi_add : forall a b : Z, phi (a + b)%Z = phi a * phi b.
Hypothesis phi_0 : phi 0%Z = 1.
Hypothesis phi_cj : forall a : Z, conj (phi a) = phi (- a)%Z.
Definition um (i : nat) : F := phi (Z.of_nat i).
Definition vm (j : nat) : F := conj (phi (Z.of_nat j)).
Lemma um_vm i : um i * vm i = 1. Proof. apply (phi_unit phi phi_add phi_0 phi_cj). Qed.
Lemma um_unit i : nrm2 (um i) = 1. Proof. apply (phi_unit phi phi_add phi_0 phi_cj). Qed.
Lemma phase_pair (a b : Z) (i j : nat) : (b - a = Z.of_nat i - Z.of_nat j)%Z -> conj (phi a) * phi b = um i * vm j.
Proof.
  intros E. unfold um, vm. rewrite !phi_cj, <- !phi_add. f_equal. lia.
Qed.
Lemma gfwd_mod (x : list F) p i j : (i <= p)%nat -> (j <= p)%nat ->
  gfwd (vmod phi 0 x) p i j = um i * gfwd x p i j * vm j.
Proof.
  intros Hi Hj. unfold gfwd. rewrite vmod_length, <- sumf_scale, <- sumf_scale_r. apply sumf_ext; intros n Hn.
  rewrite !nthF_vmod, conj_mul.
  transitivity (conj (nthF x (p + n - i)) * nthF x (p + n - j) * (conj (phi (Z.of_nat (p + n - i) + 0)) * phi (Z.of_nat (p + n - j) + 0))); [ring|].
  rewrite (phase_pair _ _ i j) by lia. ring.
Qed.
Lemma gbwd_mod (x : list F) p i j : gbwd (vmod phi 0 x) p i j = um i * gbwd x p i j * vm j.
Proof.
  unfold gbwd. rewrite vmod_length, <- sumf_scale, <- sumf_scale_r. apply sumf_ext; intros n Hn.
  rewrite !nthF_vmod, conj_mul.
  transitivity (nthF x (n + i) * conj (nthF x (n + j)) * (conj (phi (Z.of_nat (n + j) + 0)) * phi (Z.of_nat (n + i) + 0))); [ring|].
  rewrite (phase_pair _ _ i j) by lia. ring.
Qed.
End Mod.

Lemma gfwd_conj (x : list F) p i j : gfwd (vconj x) p i j = conj (gfwd x p i j).
Proof. unfold gfwd. rewrite vconj_length, sumf_conj. apply sumf_ext; intros n _. rewrite !nthF_vconj, conj_mul. reflexivity. Qed.
Lemma gbwd_conj (x : list F) p i j : gbwd (vconj x) p i j = conj (gbwd x p i j).
Proof. unfold gbwd. rewrite vconj_length, sumf_conj. apply sumf_ext; intros n _. rewrite !nthF_vconj, conj_mul. reflexivity. Qed.
Lemma gfwd_rev (x : list F) p i j : (i <= p)%nat -> (j <= p)%nat -> gfwd (vrevconj x) p i j = gbwd x p i j.
Proof.
  intros Hi Hj. unfold gfwd, gbwd. rewrite vrevconj_length. rewrite (sumf_rev (length x - p)). apply sumf_ext; intros n Hn.
  unfold vrevconj. rewrite !nth_mk by lia. rewrite conj_conj. f_equal; [f_equal; lia|f_equal; f_equal; lia].
Qed.
Lemma gbwd_rev (x : list F) p i j : (i <= p)%nat -> (j <= p)%nat -> gbwd (vrevconj x) p i j = gfwd x p i j.
Proof.
  intros Hi Hj. unfold gfwd, gbwd. rewrite vrevconj_length. rewrite (sumf_rev (length x - p)). apply sumf_ext; intros n Hn.
  unfold vrevconj. rewrite !nth_mk by lia. rewrite conj_conj.
  f_equal; [f_equal; f_equal; lia|f_equal; lia].
Qed.

(* ---------------- the estimators ---------------- *)
Definition map_ae (g : list F -> list F) (r : option (list F * F)) : option (list F * F) :=
  option_map (fun ae => (g (fst ae), snd ae)) r.

Lemma ssol_id_is (a : list F) : ssol (fun z => z) (fun _ => 1) 1 a = a.
Proof. unfold ssol. apply list_eq_nth; [apply mk_length|]. intros j Hj. rewrite mk_length in Hj. rewrite nth_mk by exact Hj. ring. Qed.
Lemma ar_ls_G_ext (G G' : nat -> nat -> F) tol p :
  (forall i j, (i <= p)%nat -> (j <= p)%nat -> G' i j = G i j) -> ar_ls_G G' tol p = ar_ls_G G tol p.
Proof.
  intros HG.
  rewrite (ar_ls_G_equiv (fun z => z) eq_refl (fun _ _ => eq_refl) (fun _ _ => eq_refl) (fun _ => eq_refl)
             (fun _ _ _ => eq_refl) (fun _ => eq_refl) (fun _ => 1) (fun _ => 1)) with (G := G).
  - destruct (ar_ls_G G tol p) as [[a e]|]; [|reflexivity]. cbn [option_map fst snd]. rewrite ssol_id_is. reflexivity.
  - intros i. ring.
  - intros i. unfold nrm2. rewrite conj_1. ring.
  - intros e. reflexivity.
  - intros s. reflexivity.
  - reflexivity.
  - reflexivity.
  - intros i j Hi Hj. rewrite HG by assumption. ring.
Qed.

Section ModEst.
Variable phi : Z -> F.
Hypothesis phi_add : forall a b : Z, phi (a + b)%Z = phi a * phi b.
Hypothesis phi_0 : phi 0%Z = 1.
Hypothesis phi_cj : forall a : Z, conj (phi a) = phi (- a)%Z.

Lemma ssol_mod_is (a : list F) : ssol (fun z => z) (um phi) 1 a = modA phi a.
Proof.
  unfold ssol, modA, vmod. apply mk_ext; intros j _. unfold um. replace (Z.of_nat (1 + j)) with (Z.of_nat j + 1)%Z by lia. ring.
Qed.
Lemma ar_ls_G_mod (G G' : nat -> nat -> F) tol p :
  (forall i j, (i <= p)%nat -> (j <= p)%nat -> G' i j = um phi i * G i j * vm phi j) ->
  ar_ls_G G' tol p = map_ae (modA phi) (ar_ls_G G tol p).
Proof.
  intros HG.
  rewrite (ar_ls_G_equiv (fun z => z) eq_refl (fun _ _ => eq_refl) (fun _ _ => eq_refl) (fun _ => eq_refl)
             (fun _ _ _ => eq_refl) (fun _ => eq_refl) (um phi) (vm phi)) with (G := G).
  - unfold map_ae. destruct (ar_ls_G G tol p) as [[a e]|]; [|reflexivity]. cbn [option_map fst snd]. rewrite ssol_mod_is. reflexivity.
  - apply (um_vm phi phi_add phi_0 phi_cj).
  - apply (um_unit phi phi_add phi_0 phi_cj).
  - intros e. reflexivity.
  - intros s. reflexivity.
  - unfold um. cbn [Z.of_nat]. exact phi_0.
  - unfold vm. cbn [Z.of_nat]. rewrite phi_0. apply conj_1.
  - exact HG.
Qed.
Theorem arcovar_modulation_thm tol (x : list F) p :
  arcovar tol (vmod phi 0 x) p = map_ae (modA phi) (arcovar tol x p).
Proof.
  unfold arcovar, arcovar_with. rewrite !ar_ls_is_G. apply ar_ls_G_mod. intros i j Hi Hj.
  rewrite !FG_covariance by assumption. apply (gfwd_mod phi phi_add phi_cj); assumption.
Qed.
Theorem modcovar_modulation_thm tol (x : list F) p :
  modcovar tol (vmod phi 0 x) p = map_ae (modA phi) (modcovar tol x p).
Proof.
  unfold modcovar, modcovar_with. rewrite !ar_ls_is_G. apply ar_ls_G_mod. intros i j Hi Hj.
  rewrite !FG_modified by assumption. rewrite (gfwd_mod phi phi_add phi_cj) by assumption. rewrite (gbwd_mod phi phi_add phi_cj). ring.
Qed.
End ModEst.

Lemma ssol_conj_is (a : list F) : ssol conj (fun _ => 1) 1 a = vconj a.
Proof.
  unfold ssol. apply list_eq_nth; [rewrite mk_length, vconj_length; reflexivity|]. intros j Hj. rewrite mk_length in Hj.
  rewrite nth_mk by exact Hj. rewrite nthF_vconj. ring.
Qed.
Lemma nrm2_swap (a b : F) : nrm2 (a - b) = nrm2 (b - a).
Proof. unfold nrm2. rewrite !conj_sub. ring. Qed.
Lemma ar_ls_G_conj (G G' : nat -> nat -> F) tol p :
  (forall i j, (i <= p)%nat -> (j <= p)%nat -> G' i j = conj (G i j)) ->
  ar_ls_G G' tol p = map_ae vconj (ar_ls_G G tol p).
Proof.
  intros HG.
  rewrite (ar_ls_G_equiv conj conj_0 conj_add conj_mul conj_opp conj_div) with (u := fun _ => 1) (v := fun _ => 1) (G := G).
  - unfold map_ae. destruct (ar_ls_G G tol p) as [[a e]|]; [|reflexivity]. cbn [option_map fst snd]. rewrite ssol_conj_is. reflexivity.
  - intros z. unfold is_zero. rewrite nrm2_conj'. reflexivity.
  - intros i. ring.
  - intros i. unfold nrm2. rewrite conj_1. ring.
  - intros e. rewrite conj_conj. apply nrm2_swap.
  - intros s. apply re_conj'.
  - reflexivity.
  - reflexivity.
  - intros i j Hi Hj. rewrite HG by assumption. ring.
Qed.
Theorem arcovar_conj_thm tol (x : list F) p : arcovar tol (vconj x) p = map_ae vconj (arcovar tol x p).
Proof.
  unfold arcovar, arcovar_with. rewrite !ar_ls_is_G. apply ar_ls_G_conj. intros i j Hi Hj.
  rewrite !FG_covariance by assumption. apply gfwd_conj.
Qed.
Theorem modcovar_conj_thm tol (x : list F) p : modcovar tol (vconj x) p = map_ae vconj (modcovar tol x p).
Proof.
  unfold modcovar, modcovar_with. rewrite !ar_ls_is_G. apply ar_ls_G_conj. intros i j Hi Hj.
  rewrite !FG_modified by assumption. rewrite gfwd_conj, gbwd_conj, conj_add. reflexivity.
Qed.
(* the modified covariance method treats forward and backward prediction alike *)
Theorem modcovar_time_reversal_thm tol (x : list F) p : modcovar tol (vrevconj x) p = modcovar tol x p.
Proof.
  unfold modcovar, modcovar_with. rewrite !ar_ls_is_G. apply ar_ls_G_ext. intros i j Hi Hj.
  rewrite !FG_modified by assumption. rewrite gfwd_rev, gbwd_rev by assumption. ring.
Qed.

(* ---------------- pcovar / pmodcovar: rho and the class spectrum ---------------- *)
Definition pcovar_S (tw : Z -> F) (tol : F) (x : list F) (p n : nat) : option (list F) :=
  match pcovar_rho tol x p with Some (a, rho) => arma2psd tw (Some a) None rho 1 n SidesDefault false | None => None end.
Definition pmodcovar_S (tw : Z -> F) (tol : F) (x : list F) (p n : nat) : option (list F) :=
  match pmodcovar_rho tol x p with Some (a, rho) => arma2psd tw (Some a) None rho 1 n SidesDefault false | None => None end.

Section Grid.
Context (n : nat) (tw : Z -> F) {Tw : Twiddle n tw} (n_pos : (0 < n)%nat).
Theorem pcovar_S_shift tol (x : list F) p (m : Z) :
  pcovar_S tw tol (vmod (sphase tw m) 0 x) p n = option_map (rot m) (pcovar_S tw tol x p n).
Proof.
  unfold pcovar_S, pcovar_rho.
  rewrite (arcovar_modulation_thm (sphase tw m) (sphase_add n tw n_pos m) (sphase_0 n tw m) (sphase_cj n tw n_pos m)), vmod_length.
  destruct (arcovar tol x p) as [[a e]|]; [|reflexivity]. cbn [map_ae option_map fst snd].
  apply (arma2psd_rotation_thm n tw n_pos m (Some a) None _ 1 SidesDefault).
Qed.
Theorem pcovar_S_mirror tol (x : list F) p : pcovar_S tw tol (vconj x) p n = option_map mirror (pcovar_S tw tol x p n).
Proof.
  unfold pcovar_S, pcovar_rho. rewrite arcovar_conj_thm, vconj_length.
  destruct (arcovar tol x p) as [[a e]|]; [|reflexivity]. cbn [map_ae option_map fst snd].
  apply (arma2psd_mirror_thm n tw n_pos (Some a) None _ 1).
Qed.
Theorem pmodcovar_S_shift tol (x : list F) p (m : Z) :
  pmodcovar_S tw tol (vmod (sphase tw m) 0 x) p n = option_map (rot m) (pmodcovar_S tw tol x p n).
Proof.
  unfold pmodcovar_S, pmodcovar_rho.
  rewrite (modcovar_modulation_thm (sphase tw m) (sphase_add n tw n_pos m) (sphase_0 n tw m) (sphase_cj n tw n_pos m)), vmod_length.
  destruct (modcovar tol x p) as [[a e]|]; [|reflexivity]. cbn [map_ae option_map fst snd].
  apply (arma2psd_rotation_thm n tw n_pos m (Some a) None _ 1 SidesDefault).
Qed.
Theorem pmodcovar_S_mirror tol (x : list F) p : pmodcovar_S tw tol (vconj x) p n = option_map mirror (pmodcovar_S tw tol x p n).
Proof.
  unfold pmodcovar_S, pmodcovar_rho. rewrite modcovar_conj_thm, vconj_length.
  destruct (modcovar tol x p) as [[a e]|]; [|reflexivity]. cbn [map_ae option_map fst snd].
  apply (arma2psd_mirror_thm n tw n_pos (Some a) None _ 1).
Qed.
Theorem pmodcovar_S_reversal tol (x : list F) p : pmodcovar_S tw tol (vrevconj x) p n = pmodcovar_S tw tol x p n.
Proof. unfold pmodcovar_S, pmodcovar_rho. rewrite modcovar_time_reversal_thm, vrevconj_length. reflexivity. Qed.
End Grid.
End LsGram.
