(* C03 — MUSIC / EV under x -> c*x, over the SVD specification.
   * the forward-backward matrix of c*x has its forward rows multiplied by c and its backward rows by conj c;
   * hence FB'^H FB' = |c|^2 FB^H FB: if (S, Vh) meets the specification of numpy.linalg.svd for FB(x) then
     (m*S, Vh) meets it for FB(c*x), for the positive m with m*m = |c|^2 (m stands for |c|);
   * every decision taken on the singular values (threshold rule, argument checks, error branches) is unchanged,
     the floored singular value max(S_I, eps S_0) is multiplied by m;
   * the MUSIC pseudo-spectrum does not read S: unchanged; the EV denominators are divided by m, the EV
     pseudo-spectrum is multiplied by m; the returned singular values are multiplied by m.
   The AIC/MDL rule enters the model through the oracle argument [amin] (argmin of a logarithmic criterion): the
   theorems hold for equal [amin] on both sides; the invariance of that argmin is not proved here. *)
Require Import Spectrum.Theory.Ops Spectrum.Theory.Sum Spectrum.Theory.Vec Spectrum.Theory.Dft Spectrum.Theory.Order
               Spectrum.Model.Eigen Spectrum.Proofs.EigenFB Spectrum.Proofs.EigenAxis Spectrum.Proofs.EigenTheory
               Spectrum.Proofs.ScaleUtil_C03.

Section ScaleEigen.
Context {F : Type} {OF : Ops F} {L : Laws OF} {OL : OrdLaws OF}.
Local Open Scope F_scope.
Add Field FFse : (fth (O:=OF)).

(* ---------- the data matrix ---------- *)
Lemma fb_fwd_vscale c (x : list F) P i : fb_fwd (vscale c x) P i = vscale c (fb_fwd x P i).
Proof. unfold fb_fwd. rewrite su_vscale_mk. apply mk_ext; intros k _. apply nthF_vscale. Qed.
Lemma fb_bwd_vscale c (x : list F) P i : fb_bwd (vscale c x) P i = vscale (conj c) (fb_bwd x P i).
Proof. unfold fb_bwd. rewrite su_vscale_mk. apply mk_ext; intros k _. rewrite nthF_vscale. apply conj_mul. Qed.
Lemma mat_map_vscale a (M : list (list F)) r k : mat (map (vscale a) M) r k = a * mat M r k.
Proof. unfold mat, mrow. rewrite su_nth_map_vscale. apply nthF_vscale. Qed.
(* row r of FB(c*x) is d r times row r of FB(x), |d r|^2 = |c|^2 *)
Definition fb_fac (c : F) (x : list F) (P r : nat) : F := if (r <? np_of (length x) P)%nat then c else conj c.
Theorem fb_matrix_scale_thm c (x : list F) P r k :
  mat (fb_matrix (vscale c x) P) r k = fb_fac c x P r * mat (fb_matrix x P) r k.
Proof.
  unfold fb_matrix, fb_fac. rewrite su_vscale_length. set (NP := np_of (length x) P).
  assert (EA : map (fb_fwd (vscale c x) P) (seq 0 NP) = map (vscale c) (map (fb_fwd x P) (seq 0 NP)))
    by (rewrite map_map; apply map_ext; intros i; apply fb_fwd_vscale).
  assert (EB : map (fb_bwd (vscale c x) P) (seq 0 NP) = map (vscale (conj c)) (map (fb_bwd x P) (seq 0 NP)))
    by (rewrite map_map; apply map_ext; intros i; apply fb_bwd_vscale).
  rewrite EA, EB. unfold mat, mrow.
  assert (LA : length (map (fb_fwd x P) (seq 0 NP)) = NP) by (rewrite map_length, seq_length; reflexivity).
  destruct (Nat.ltb_spec r NP) as [H|H].
  - rewrite !app_nth1 by (rewrite ?map_length, ?seq_length; exact H). apply (mat_map_vscale c).
  - rewrite !app_nth2 by (rewrite ?map_length, ?seq_length; exact H). rewrite !map_length, !seq_length.
    apply (mat_map_vscale (conj c)).
Qed.
Lemma fb_fac_nrm2 c (x : list F) P r : nrm2 (fb_fac c x P r) = nrm2 c.
Proof. unfold fb_fac. destruct (r <? _)%nat; [reflexivity|]. unfold nrm2. rewrite conj_conj. ring. Qed.

(* ---------- the SVD specification ---------- *)
Theorem svd_spec_rowscaled (FB FB' : list (list F)) (d : nat -> F) s m rows P S Vh :
  (forall r, nrm2 (d r) = s) -> (forall r k, mat FB' r k = d r * mat FB r k) ->
  pos m -> m * m = s ->
  svd_spec FB rows P S Vh -> svd_spec FB' rows P (vscale m S) Vh.
Proof.
  intros Hd HFB Hm Hmm [H1 H2 H3 H4 H5 H6 H7]. constructor.
  - rewrite su_vscale_length. exact H1.
  - exact H2.
  - intros I HI. rewrite nthF_vscale. apply nn_mul; [apply Hm|apply H3; exact HI].
  - intros I J HIJ HJ. unfold le. rewrite !nthF_vscale.
    apply (nonneg_eq (m * (nthF S I - nthF S J))); [ring|]. apply nn_mul; [apply Hm|apply (H4 I J HIJ HJ)].
  - exact H5.
  - exact H6.
  - intros I HI k Hk. rewrite nthF_vscale.
    transitivity (s * sumf rows (fun r => conj (mat FB r k) * mv FB P (rsv Vh I) r)).
    + rewrite <- sumf_scale. apply sumf_ext; intros r _. unfold mv. rewrite HFB, conj_mul, <- (Hd r).
      rewrite (sumf_ext P _ (fun k0 => d r * (mat FB r k0 * rsv Vh I k0))) by (intros k0 _; rewrite HFB; ring).
      rewrite sumf_scale. unfold nrm2. ring.
    + rewrite (H7 I HI k Hk), <- Hmm. ring.
Qed.
(* if (S, Vh) is what svd may return for FB(x) then (|c| S, Vh) is what it may return for FB(c*x) *)
Theorem svd_spec_scale_thm c m (x : list F) rows P S Vh : pos m -> m * m = nrm2 c ->
  svd_spec (fb_matrix x P) rows P S Vh -> svd_spec (fb_matrix (vscale c x) P) rows P (vscale m S) Vh.
Proof.
  intros Hm Hmm. apply (svd_spec_rowscaled _ _ (fb_fac c x P) (nrm2 c) m); [apply fb_fac_nrm2|apply fb_matrix_scale_thm|exact Hm|exact Hmm].
Qed.
Lemma svd_spec_real FB rows P S Vh : svd_spec FB rows P S Vh -> forall I, conj (nthF S I) = nthF S I.
Proof.
  intros Hs I. destruct (Nat.ltb_spec I P) as [H|H].
  - apply nn_real. apply (svd_nonneg _ _ _ _ _ Hs). exact H.
  - rewrite nthF_overflow by (rewrite (svd_len _ _ _ _ _ Hs); exact H). apply conj_0.
Qed.

(* ---------- comparisons are invariant under a positive factor ---------- *)
Lemma gtb_scale m a b : pos m -> conj a = a -> conj b = b -> gtb (m * a) (m * b) = gtb a b.
Proof.
  intros Hm Ha Hb. unfold gtb. f_equal. replace (m * a - m * b) with (m * (a - b)) by ring.
  apply su_le0_pos_scale; [exact Hm|rewrite conj_sub, Ha, Hb; reflexivity].
Qed.
Lemma fmax2_scale m a b : pos m -> conj a = a -> conj b = b -> fmax2 (m * a) (m * b) = m * fmax2 a b.
Proof. intros Hm Ha Hb. unfold fmax2. rewrite gtb_scale by assumption. destruct (gtb b a); reflexivity. Qed.
Definition all_real (l : list F) : Prop := forall a, In a l -> conj a = a.
Lemma all_real_of_nth (S : list F) : (forall I, conj (nthF S I) = nthF S I) -> all_real S.
Proof. intros H a Ha. apply (In_nth _ _ 0) in Ha. destruct Ha as (i & _ & <-). apply H. Qed.
Lemma minL_fold_scale m : pos m -> forall (t : list F) a, conj a = a -> all_real t ->
  fold_left (fun mm b => if gtb mm b then b else mm) (vscale m t) (m * a)
  = m * fold_left (fun mm b => if gtb mm b then b else mm) t a
  /\ conj (fold_left (fun mm b => if gtb mm b then b else mm) t a) = fold_left (fun mm b => if gtb mm b then b else mm) t a.
Proof.
  intros Hm. induction t as [|b t IH]; intros a Ha Ht; [split; [reflexivity|exact Ha]|].
  cbn [vscale map fold_left]. fold (vscale m t).
  assert (Hb : conj b = b) by (apply Ht; left; reflexivity).
  rewrite gtb_scale by assumption.
  assert (E : (if gtb a b then m * b else m * a) = m * (if gtb a b then b else a)) by (destruct (gtb a b); reflexivity).
  rewrite E. apply IH; [destruct (gtb a b); assumption|intros z Hz; apply Ht; right; exact Hz].
Qed.
Lemma minL_scale m (S : list F) : pos m -> all_real S -> minL (vscale m S) = m * minL S /\ conj (minL S) = minL S.
Proof.
  intros Hm HS. destruct S as [|a t]; [split; [cbn; ring|apply conj_0]|].
  cbn [minL vscale map]. fold (vscale m t).
  apply (minL_fold_scale m Hm t a); [apply HS; left; reflexivity|intros z Hz; apply HS; right; exact Hz].
Qed.
Lemma count_gt_scale m (S : list F) M : pos m -> all_real S -> conj M = M ->
  count_gt (vscale m S) (m * M) = count_gt S M.
Proof.
  intros Hm HS HM. unfold count_gt. induction S as [|a t IH]; [reflexivity|].
  cbn [vscale map filter]. fold (vscale m t).
  rewrite gtb_scale by (try assumption; apply HS; left; reflexivity).
  assert (IH' : length (filter (fun s => gtb s (m * M)) (vscale m t)) = length (filter (fun s => gtb s M) t))
    by (apply IH; intros z Hz; apply HS; right; exact Hz).
  destruct (gtb a M); cbn [length]; rewrite IH'; reflexivity.
Qed.

Definition thr_real (thr : option F) : Prop := match thr with Some t => conj t = t | None => True end.
(* the subspace dimension and every error branch: unchanged *)
Theorem eigen_nsig_scale_thm m meth nsig thr crit amin N P NFFT (S : list F) : pos m ->
  (forall I, conj (nthF S I) = nthF S I) -> thr_real thr ->
  eigen_nsig meth nsig thr crit amin N P NFFT (vscale m S) = eigen_nsig meth nsig thr crit amin N P NFFT S.
Proof.
  intros Hm HS Ht. pose proof (all_real_of_nth S HS) as HA.
  assert (E : get_signal_space (vscale m S) nsig thr crit amin = get_signal_space S nsig thr crit amin).
  { unfold get_signal_space. destruct nsig; [reflexivity|]. destruct thr as [t|].
    - destruct (minL_scale m S Hm HA) as [E1 E2]. rewrite E1.
      replace (t * (m * minL S)) with (m * (t * minL S)) by ring.
      rewrite count_gt_scale; [reflexivity|exact Hm|exact HA|]. cbn in Ht. rewrite conj_mul, Ht, E2. reflexivity.
    - rewrite su_vscale_length. reflexivity. }
  unfold eigen_nsig. rewrite E. reflexivity.
Qed.

(* ---------- the pseudo-spectrum ---------- *)
(* MUSIC does not read the singular values at all *)
Lemma music_acc_indep eps tw NFFT (S S' : list F) Vh acc I :
  acc_step MMusic eps tw NFFT S' Vh acc I = acc_step MMusic eps tw NFFT S Vh acc I.
Proof. reflexivity. Qed.
Theorem music_pseudo_indep_thm eps tw NFFT P (S S' : list F) Vh ns :
  pseudo MMusic eps tw NFFT P S' Vh ns = pseudo MMusic eps tw NFFT P S Vh ns.
Proof.
  unfold pseudo. apply f_equal. unfold pseudo_den. generalize (mk NFFT (fun _ : nat => (0 : F))). generalize (seq ns (P - ns)).
  induction l as [|I l IH]; intros acc; [reflexivity|]. cbn [fold_left]. rewrite (music_acc_indep eps tw NFFT S S'). apply IH.
Qed.

Lemma sfloor_scale m eps (S : list F) I : pos m -> (forall J, conj (nthF S J) = nthF S J) -> conj eps = eps ->
  sfloor eps (vscale m S) I = m * sfloor eps S I.
Proof.
  intros Hm HS He. unfold sfloor. rewrite !nthF_vscale.
  replace (eps * (m * nthF S 0)) with (m * (eps * nthF S 0)) by ring.
  apply fmax2_scale; [exact Hm|apply HS|rewrite conj_mul, He, HS; reflexivity].
Qed.
Lemma sfloor_pos eps (S : list F) I : (forall J, conj (nthF S J) = nthF S J) -> pos eps -> pos (nthF S 0) -> pos (sfloor eps S I).
Proof. intros HS He H0. unfold sfloor. apply fmax2_pos; [apply HS|apply pos_mul; assumption]. Qed.

(* EV: the denominators are divided by m *)
Theorem ev_den_scale_thm m eps tw NFFT P (S : list F) Vh ns : pos m ->
  (forall J, conj (nthF S J) = nthF S J) -> pos eps -> pos (nthF S 0) ->
  pseudo_den MEv eps tw NFFT P (vscale m S) Vh ns = vscale (inv m) (pseudo_den MEv eps tw NFFT P S Vh ns).
Proof.
  intros Hm HS He H0. unfold pseudo_den.
  assert (E0 : mk NFFT (fun _ : nat => (0 : F)) = vscale (inv m) (mk NFFT (fun _ : nat => 0)))
    by (rewrite su_vscale_mk; apply mk_ext; intros; ring).
  rewrite E0 at 1. generalize (mk NFFT (fun _ : nat => (0 : F))). generalize (seq ns (P - ns)).
  induction l as [|I l IH]; intros acc; [reflexivity|]. cbn [fold_left].
  assert (Es : acc_step MEv eps tw NFFT (vscale m S) Vh (vscale (inv m) acc) I
               = vscale (inv m) (acc_step MEv eps tw NFFT S Vh acc I)).
  { unfold acc_step. cbv zeta. rewrite su_vscale_mk. apply mk_ext; intros k _.
    rewrite nthF_vscale, (sfloor_scale m eps S I Hm HS (pos_real _ He)).
    pose proof (sfloor_pos eps S I HS He H0) as [_ Hsf]. field. split; [exact Hsf|apply Hm]. }
  rewrite Es. apply IH.
Qed.
(* no bin of the EV denominator vanishes (the code computes 1./PSD) *)
Definition ev_regular (eps : F) (tw : Z -> F) (NFFT P : nat) (S : list F) (Vh : list (list F)) (ns : nat) : Prop :=
  forall d, In d (pseudo_den MEv eps tw NFFT P S Vh ns) -> d <> 0.
Theorem ev_pseudo_scale_thm m eps tw NFFT P (S : list F) Vh ns : pos m ->
  (forall J, conj (nthF S J) = nthF S J) -> pos eps -> pos (nthF S 0) -> ev_regular eps tw NFFT P S Vh ns ->
  pseudo MEv eps tw NFFT P (vscale m S) Vh ns = vscale m (pseudo MEv eps tw NFFT P S Vh ns).
Proof.
  intros Hm HS He H0 Hreg. unfold pseudo. rewrite ev_den_scale_thm by assumption.
  unfold vscale. rewrite !map_map. apply map_ext_in. intros d Hd. field. split; [apply Hreg; exact Hd|apply Hm].
Qed.
(* bin by bin without the regularity hypothesis *)
Theorem ev_pseudo_scale_bin_thm m eps tw NFFT P (S : list F) Vh ns k : pos m ->
  (forall J, conj (nthF S J) = nthF S J) -> pos eps -> pos (nthF S 0) -> (k < NFFT)%nat ->
  nthF (pseudo_den MEv eps tw NFFT P S Vh ns) k <> 0 ->
  nthF (pseudo MEv eps tw NFFT P (vscale m S) Vh ns) k = m * nthF (pseudo MEv eps tw NFFT P S Vh ns) k.
Proof.
  intros Hm HS He H0 Hk Hd. unfold pseudo. rewrite ev_den_scale_thm by assumption.
  rewrite !nthF_map_lt by (rewrite ?su_vscale_length, pseudo_den_length; exact Hk).
  rewrite nthF_vscale. field. split; [exact Hd|apply Hm].
Qed.

Lemma eigen_reorder_vscale s NFFT (l : list F) : eigen_reorder NFFT (vscale s l) = vscale s (eigen_reorder NFFT l).
Proof.
  unfold eigen_reorder. cbv zeta. rewrite su_vscale_firstn, su_vscale_skipn, !su_vscale_rev. symmetry. apply su_vscale_app.
Qed.

(* ---------- eigen(), music(), ev() ---------- *)
(* by how much the pseudo-spectrum is multiplied *)
Definition psd_fac (meth : method_arg) (m : F) : F := match meth with MEv => m | _ => 1 end.
Definition eig_scale (meth : method_arg) (m : F) (r : eig_err + (list F * list F)) : eig_err + (list F * list F) :=
  match r with inl e => inl e | inr (psd, ev) => inr (vscale (psd_fac meth m) psd, vscale m ev) end.
Definition eig_regular (meth : method_arg) (eps : F) nsig thr crit amin (tw : Z -> F) (NFFT N P : nat) (S : list F) Vh : Prop :=
  match meth with
  | MEv => pos eps /\ pos (nthF S 0) /\
           forall ns, eigen_nsig meth nsig thr crit amin N P NFFT S = inr ns -> ev_regular eps tw NFFT P S Vh ns
  | _ => True
  end.
Theorem eigen_scale_thm meth eps nsig thr crit amin tw NFFT c m (x : list F) P S Vh : pos m ->
  (forall I, conj (nthF S I) = nthF S I) -> thr_real thr ->
  eig_regular meth eps nsig thr crit amin tw NFFT (length x) P S Vh ->
  eigen meth eps nsig thr crit amin tw NFFT (vscale c x) P (vscale m S) Vh
  = eig_scale meth m (eigen meth eps nsig thr crit amin tw NFFT x P S Vh).
Proof.
  intros Hm HS Ht Hreg. unfold eigen. rewrite su_vscale_length, (eigen_nsig_scale_thm m) by assumption.
  destruct (eigen_nsig meth nsig thr crit amin (length x) P NFFT S) as [e|ns] eqn:E; [reflexivity|].
  cbn [eig_scale]. f_equal. f_equal. rewrite <- eigen_reorder_vscale. f_equal.
  destruct meth; cbn [psd_fac].
  - rewrite su_vscale_1. apply music_pseudo_indep_thm.
  - destruct Hreg as (He & H0 & Hr). apply ev_pseudo_scale_thm; try assumption. apply Hr. exact E.
  - (* method rejected before: eigen_nsig returns an error *) unfold eigen_nsig in E. discriminate.
Qed.

(* MUSIC: pseudo-spectrum unchanged; decisions unchanged *)
Theorem music_invariant_thm eps nsig thr crit amin tw NFFT c m (x : list F) P S Vh : pos m ->
  (forall I, conj (nthF S I) = nthF S I) -> thr_real thr ->
  music eps nsig thr crit amin tw NFFT (vscale c x) P (vscale m S) Vh
  = match music eps nsig thr crit amin tw NFFT x P S Vh with inl e => inl e | inr (psd, ev) => inr (psd, vscale m ev) end.
Proof.
  intros Hm HS Ht. unfold music. rewrite (eigen_scale_thm MMusic eps nsig thr crit amin tw NFFT c m x P S Vh Hm HS Ht I).
  destruct (eigen MMusic eps nsig thr crit amin tw NFFT x P S Vh) as [e|[psd ev]]; [reflexivity|].
  cbn [eig_scale psd_fac]. rewrite su_vscale_1. reflexivity.
Qed.
Theorem ev_scales_thm eps nsig thr crit amin tw NFFT c m (x : list F) P S Vh : pos m ->
  (forall I, conj (nthF S I) = nthF S I) -> thr_real thr ->
  eig_regular MEv eps nsig thr crit amin tw NFFT (length x) P S Vh ->
  ev eps nsig thr crit amin tw NFFT (vscale c x) P (vscale m S) Vh
  = match ev eps nsig thr crit amin tw NFFT x P S Vh with inl e => inl e | inr (psd, sv) => inr (vscale m psd, vscale m sv) end.
Proof. intros Hm HS Ht Hr. unfold ev. apply (eigen_scale_thm MEv eps nsig thr crit amin tw NFFT c m x P S Vh Hm HS Ht Hr). Qed.

(* ---------- pmusic / pev ---------- *)
Lemma ifftshift_vscale s (l : list F) : ifftshift (vscale s l) = vscale s (ifftshift l).
Proof. unfold ifftshift. cbv zeta. rewrite su_vscale_length, su_vscale_skipn, su_vscale_firstn. symmetry. apply su_vscale_app. Qed.
Lemma class_psd_vscale s isr NFFT scale (psd : list F) :
  class_psd isr NFFT scale (vscale s psd) = vscale s (class_psd isr NFFT scale psd).
Proof.
  unfold class_psd. cbv zeta.
  assert (E : (if isr then rev (map (fun a => a * two) (firstn (if Nat.even NFFT then (NFFT / 2 + 1)%nat else ((NFFT + 1) / 2)%nat) (vscale s psd)))
               else ifftshift (vscale s psd))
              = vscale s (if isr then rev (map (fun a => a * two) (firstn (if Nat.even NFFT then (NFFT / 2 + 1)%nat else ((NFFT + 1) / 2)%nat) psd))
                          else ifftshift psd)).
  { destruct isr; [|apply ifftshift_vscale]. rewrite su_vscale_firstn, (su_map_vscale _ s s) by (intros a; ring). apply su_vscale_rev. }
  rewrite E. destruct scale as [sc|]; [|reflexivity]. apply su_map_vscale. intros a. ring.
Qed.
Theorem pclass_scale_thm meth eps isr scale nsig thr crit amin tw NFFT c m (x : list F) P S Vh : pos m ->
  (forall I, conj (nthF S I) = nthF S I) -> thr_real thr ->
  eig_regular meth eps nsig thr crit amin tw NFFT (length x) P S Vh ->
  pclass meth eps isr scale nsig thr crit amin tw NFFT (vscale c x) P (vscale m S) Vh
  = eig_scale meth m (pclass meth eps isr scale nsig thr crit amin tw NFFT x P S Vh).
Proof.
  intros Hm HS Ht Hr. unfold pclass. rewrite (eigen_scale_thm meth eps nsig thr crit amin tw NFFT c m x P S Vh Hm HS Ht Hr).
  destruct (eigen meth eps nsig thr crit amin tw NFFT x P S Vh) as [e|[psd sv]]; [reflexivity|].
  cbn [eig_scale]. rewrite class_psd_vscale. reflexivity.
Qed.
End ScaleEigen.
