(* LEVINSON: the IR program generated from levinson.py computes the hand-written model, for ALL inputs.

   [prog_LEVINSON_ref] is the loop-IR program that tools/props/_loopir.py generates from the source of
   spectrum.levinson.LEVINSON at the commit this file was written for (kept verbatim below as
   [prog_LEVINSON_gen0], between the BEGIN/END markers, and proved equal to the decomposed definition by
   reflexivity).  On every run the check regenerates the program; if its text is the one below, the generated file
   proves [prog_LEVINSON = prog_LEVINSON_ref] by reflexivity and instantiates the theorems of this file, so the tie
   of LEVINSON is then: translator + interpreter semantics + THEOREM (no sampling).  If the text differs, the
   theorems say nothing about the new program and the check falls back to the exact evaluation tie.

   PROVED (abstract field with conjugation [Laws], any list r <> [], any order, any allow_singularity flag,
   argument given or omitted):
     levinson_ir_run      run prog_LEVINSON_ref on an array declared complex (c = true) or float (c = false) returns /
                          raises exactly as [glevinson c]: the model in which [conj] is replaced by [cj c]
                          (c = true: conj itself; c = false: identity, what the float-dtype branch computes)
     levinson_ir_complex  complex dtype: run = Model.Levinson.levinson (same outcome: the three results, ValueError
                          exactly when the model returns None at an admissible order, AssertionError when order > len(r)-1)
     levinson_ir_real     float dtype: run = Model.Levinson.levinson for real-valued r (conj r_j = r_j) with
                          le0 (re r_0) = false (positive zero lag) and allow_singularity = False
   NOT PROVED: float dtype with allow_singularity = True or r_0 <= 0 (there the code divides by a P that may be 0 and
   the abstract field does not determine conj (x/0)); these stay with the exact evaluation tie. *)
From Coq Require Import String ZArith List Lia Bool.
Require Import Spectrum.Theory.Ops Spectrum.Theory.Sum Spectrum.Theory.Vec Spectrum.Model.LoopIR Spectrum.Model.Levinson.
Import ListNotations.


Section Generic.
Context {F : Type} {OF : Ops F}.
Variable feq : F -> F -> bool.
Variable stop : Z -> F -> F -> bool.
Local Open Scope F_scope.

Notation value := (@value F).
Notation store := (@store F).

Lemma norm_index_ok n z : (0 <= z < Z.of_nat n)%Z -> norm_index n z = inl (Z.to_nat z).
Proof.
  intros H. unfold norm_index.
  replace (z <? 0)%Z with false by (symmetry; apply Z.ltb_ge; lia).
  replace ((0 <=? z)%Z && (z <? Z.of_nat n)%Z) with true; [reflexivity|].
  symmetry. apply andb_true_iff. split; [apply Z.leb_le|apply Z.ltb_lt]; lia.
Qed.
Lemma norm_index_nat n j : (j < n)%nat -> norm_index n (Z.of_nat j) = inl j.
Proof. intros H. rewrite norm_index_ok by lia. rewrite Nat2Z.id. reflexivity. Qed.

Lemma range_len_up (a b : Z) : (a <= b)%Z -> range_len a b 1 = Z.to_nat (b - a).
Proof. intros H. unfold range_len. change (0 <? 1)%Z with true. cbv iota. rewrite Z.div_1_r. f_equal. lia. Qed.
Lemma range_vals_nat n : range_vals 0 (Z.of_nat n) 1 = inl (range_from 0 1 n).
Proof. unfold range_vals. change (1 =? 0)%Z with false. cbv iota. rewrite range_len_up by lia. rewrite Z.sub_0_r, Nat2Z.id. reflexivity. Qed.
Lemma range_from_app lo n m : range_from lo 1 (n + m) = range_from lo 1 n ++ range_from (lo + Z.of_nat n) 1 m.
Proof.
  revert lo. induction n; intros lo.
  - cbn. f_equal. lia.
  - cbn [plus range_from app]. f_equal. rewrite IHn. do 2 f_equal. lia.
Qed.
Lemma range_from_S n : range_from 0 1 (S n) = range_from 0 1 n ++ [Z.of_nat n].
Proof. replace (S n) with (n + 1)%nat by lia. rewrite range_from_app. reflexivity. Qed.

Lemma for_loop_app (f : store -> store * ctl) x l1 l2 st :
  for_loop f x (l1 ++ l2) st =
  match for_loop f x l1 st with (s, CNormal) => for_loop f x l2 s | other => other end.
Proof.
  revert st. induction l1 as [|v t IH]; intros st; [reflexivity|].
  cbn [app for_loop]. destruct (f (set st x (VI v))) as [s c]. destruct c; try reflexivity; apply IH.
Qed.

(* invariant rule for a loop whose body always completes normally *)
Lemma for_loop_inv (f : store -> store * ctl) x (I : nat -> store -> Prop) n st :
  I O st ->
  (forall i s, (i < n)%nat -> I i s -> exists s', f (set s x (VI (Z.of_nat i))) = (s', CNormal) /\ I (S i) s') ->
  exists s', for_loop f x (range_from 0 1 n) st = (s', CNormal) /\ I n s'.
Proof.
  intros H0 Hs. induction n.
  - exists st. split; [reflexivity|exact H0].
  - destruct IHn as [s1 [E1 I1]]. { intros i s Hi. apply Hs. lia. }
    destruct (Hs n s1 (Nat.lt_succ_diag_r n) I1) as [s2 [E2 I2]].
    exists s2. split; [|exact I2].
    rewrite range_from_S, for_loop_app, E1. cbn [for_loop]. rewrite E2. reflexivity.
Qed.

(* arrays *)
Lemma updF_length (l : list F) i v : length (updF l i v) = length l.
Proof. revert i; induction l; intros [|i]; cbn; auto. Qed.
Lemma nthF_updF (l : list F) i v j : (i < length l)%nat -> nthF (updF l i v) j = if Nat.eqb j i then v else nthF l j.
Proof.
  revert i j; induction l as [|a l IH]; intros i j H; [cbn in H; lia|].
  destruct i, j; cbn [updF]; try reflexivity.
  - rewrite !nthF_consS. cbn [Nat.eqb]. apply IH. cbn in H; lia.
Qed.
End Generic.


Definition lev_inner1 : stmt :=
  SFor 13 (EInt 0) (EVar 10) (EInt 1)
    (SAssign 11 (EBin BAdd (EVar 11) (EBin BMul (EIndex (EVar 7) (EVar 13)) (EIndex (EVar 4) (EBin BSub (EBin BSub (EVar 10) (EVar 13)) (EInt 1)))))).

(* the in-place symmetric update; [c] = the complex branch (with conjugates) *)
Definition cjw (c : bool) (e : expr) : expr := if c then EConj e else e.
Definition lev_inner2 (c : bool) : stmt :=
  SFor 13 (EInt 0) (EVar 14) (EInt 1)
    (SSeq (SAssign 15 (EBin BSub (EBin BSub (EVar 10) (EVar 13)) (EInt 1)))
    (SSeq (SAssign 11 (EIndex (EVar 7) (EVar 13)))
    (SSeq (SStore 7 (EVar 13) (EBin BAdd (EVar 11) (EBin BMul (EVar 12) (cjw c (EIndex (EVar 7) (EVar 15))))))
    (SIf (ECmp CNe (EVar 13) (EVar 15))
       (SStore 7 (EVar 15) (EBin BAdd (EIndex (EVar 7) (EVar 15)) (EBin BMul (EVar 12) (cjw c (EVar 11)))))
       SSkip)))).

Section Lev.
Context {F : Type} {OF : Ops F} {L : Laws OF}.
Variable feq : F -> F -> bool.
Variable stop : Z -> F -> F -> bool.
Local Open Scope F_scope.
Add Field FFir : (fth (O:=OF)).
Notation value := (@value F).
Notation store := (@store F).
Notation exec := (@exec F OF feq stop).

Definition mkst (r order allow T0 T M rd A ref P k save temp j khalf kj : value) : store :=
  [r; order; allow; T0; T; M; rd; A; ref; P; k; save; temp; j; khalf; kj].

Fixpoint lsum (n : nat) (f : nat -> F) (s0 : F) : F := match n with O => s0 | S n' => lsum n' f s0 + f n' end.
Lemma lsum_sumf n f s0 : lsum n f s0 = s0 + sumf n f.
Proof. induction n; cbn; [ring|]. rewrite IHn. ring. Qed.

Lemma inner1_ok vr vo va vT0 tT T vM vrd tA A vref vP m s0 vtemp vj vkh vkj :
  (m <= length A)%nat -> (m <= length T)%nat ->
  exists vj',
    exec lev_inner1 (mkst vr vo va vT0 (VArr tT T) vM vrd (VArr tA A) vref vP (VI (Z.of_nat m)) (VF s0) vtemp vj vkh vkj)
    = (mkst vr vo va vT0 (VArr tT T) vM vrd (VArr tA A) vref vP (VI (Z.of_nat m))
         (VF (lsum m (fun j => nthF A j * nthF T (m - j - 1)) s0)) vtemp vj' vkh vkj, CNormal).
Proof.
  intros HA HT. unfold lev_inner1.
  cbn [LoopIR.exec eval get nth mkst bind try asZ ok].
  rewrite range_vals_nat. cbn [try].
  match goal with |- exists vj', (let (st', c) := for_loop ?f ?x _ ?st in _) = _ =>
    destruct (for_loop_inv f x
      (fun i s => exists vj', s = mkst vr vo va vT0 (VArr tT T) vM vrd (VArr tA A) vref vP (VI (Z.of_nat m))
                                  (VF (lsum i (fun j => nthF A j * nthF T (m - j - 1)) s0)) vtemp vj' vkh vkj) m st)
      as [s' [E [vj' I']]]
  end.
  - exists vj. reflexivity.
  - intros i s Hi [vj' ->].
    cbn [mkst set get nth bind try asZ asArr asF ok arith arithZ fop fst snd].
    rewrite norm_index_nat by lia. cbn [bind].
    rewrite norm_index_ok by lia. cbn [bind ok arith asF fop].
    eexists. split; [reflexivity|]. exists (VI (Z.of_nat i)). cbn [lsum].
    replace (Z.to_nat (Z.of_nat m - Z.of_nat i - 1)) with (m - i - 1)%nat by lia. reflexivity.
  - exists vj'. rewrite E, I'. reflexivity.
Qed.

Definition cj (c : bool) (z : F) : F := if c then conj z else z.
Definition upd2 (c : bool) (B : list F) (t : F) (m : nat) (q : nat) : F := nthF B q + t * cj c (nthF B (m - 1 - q)).
Definition done2 (m i q : nat) : bool := (q <? i)%nat || ((m - 1 - i <? q)%nat && (q <? m)%nat).

Lemma inner2_ok c vr vo va vT0 vT vM vrd tA B vref vP m vsave t vj h vkj :
  (m <= length B)%nat -> (2 * h <= m + 1)%nat ->
  exists arr vsave' vj' vkj',
    exec (lev_inner2 c) (mkst vr vo va vT0 vT vM vrd (VArr tA B) vref vP (VI (Z.of_nat m)) vsave (VF t) vj (VI (Z.of_nat h)) vkj)
    = (mkst vr vo va vT0 vT vM vrd (VArr tA arr) vref vP (VI (Z.of_nat m)) vsave' (VF t) vj' (VI (Z.of_nat h)) vkj', CNormal)
    /\ length arr = length B
    /\ forall q, nthF arr q = if done2 m h q then upd2 c B t m q else nthF B q.
Proof.
  intros HB Hh. unfold lev_inner2.
  cbn [LoopIR.exec eval get nth mkst bind try asZ ok].
  rewrite range_vals_nat. cbn [try].
  match goal with |- exists arr vsave' vj' vkj', (let (st', c) := for_loop ?f ?x _ ?st in _) = _ /\ _ =>
    destruct (for_loop_inv f x
      (fun i s => exists arr vsave' vj' vkj',
           s = mkst vr vo va vT0 vT vM vrd (VArr tA arr) vref vP (VI (Z.of_nat m)) vsave' (VF t) vj' (VI (Z.of_nat h)) vkj'
           /\ length arr = length B
           /\ forall q, nthF arr q = if done2 m i q then upd2 c B t m q else nthF B q) h st)
      as [s' [E [arr [vs' [vj' [vkj' [I1 [I2 I3]]]]]]]]
  end.
  - exists B, vsave, vj, vkj. split; [reflexivity|]. split; [reflexivity|].
    intros q. unfold done2. replace (q <? 0)%nat with false by reflexivity. cbn [orb].
    destruct (Nat.ltb_spec (m - 1 - 0) q); destruct (Nat.ltb_spec q m); cbn [andb]; try reflexivity. lia.
  - intros i s Hi [arr [vs' [vj' [vkj' [-> [Hl Hn]]]]]].
    assert (Hi2 : (2 * i + 1 <= m)%nat) by lia.
    assert (Eold : forall q, (i <= q <= m - 1 - i)%nat -> nthF arr q = nthF B q).
    { intros q Hq. rewrite Hn. unfold done2.
      destruct (Nat.ltb_spec q i); [lia|]. destruct (Nat.ltb_spec (m - 1 - i) q); [lia|]. reflexivity. }
    cbn [mkst set get nth bind try asZ asArr asF ok arith arithZ fop fst snd].
    rewrite norm_index_nat by lia. cbn [bind try ok set mkst get nth asArr asZ asF fst snd].
    rewrite norm_index_nat by lia. cbn [bind].
    assert (Ekj : (Z.of_nat m - Z.of_nat i - 1)%Z = Z.of_nat (m - 1 - i)) by lia.
    rewrite Ekj.
    destruct c; cbn [cjw eval get nth bind asArr asZ fst snd ok].
    all: rewrite norm_index_nat by lia; cbn [bind ok arith asF fop try set mkst get nth compare cmpZ truthy LoopIR.exec eval asArr asZ fst snd].
    all: rewrite !Eold by lia.
    all: destruct (Z.eqb_spec (Z.of_nat i) (Z.of_nat (m - 1 - i))) as [Eq|Ne]; cbn [negb LoopIR.exec try bind eval get nth set mkst asArr asZ ok fst snd].
    all: rewrite ?updF_length; rewrite ?norm_index_nat by lia;
         cbn [bind ok arith asF fop try set mkst get nth asArr asZ fst snd eval]; rewrite ?updF_length.
    all: eexists; (split; [reflexivity|]); do 4 eexists; (split; [reflexivity|]); (split; [rewrite ?updF_length; exact Hl|]).
    all: intros q; rewrite ?nthF_updF by (rewrite ?updF_length; lia).
    all: rewrite ?Hn; unfold done2, upd2, cj.
    all: repeat match goal with
           | |- context [Nat.eqb ?a ?b] => destruct (Nat.eqb_spec a b)
           | |- context [Nat.ltb ?a ?b] => destruct (Nat.ltb_spec a b)
           end; cbn [orb andb]; try lia; subst; try reflexivity.
    all: repeat (f_equal; try lia).
  - exists arr, vs', vj', vkj'. rewrite E, I1. split; [reflexivity|]. split; assumption.
Qed.
End Lev.


Section Lists.
Context {F : Type} {OF : Ops F}.
Local Open Scope F_scope.
Definition zeros (n : nat) : list F := mk n (fun _ => 0).
Lemma zeros_length n : length (zeros n) = n. Proof. apply mk_length. Qed.
Lemma nthF_zeros n j : nthF (zeros n) j = 0.
Proof. unfold zeros. destruct (Nat.lt_ge_cases j n); [rewrite nth_mk by assumption|rewrite nth_mk_ge by assumption]; reflexivity. Qed.
Lemma nthF_app_zeros (A : list F) n j : nthF (A ++ zeros n) j = nthF A j.
Proof.
  destruct (Nat.lt_ge_cases j (length A)) as [H|H].
  - apply nthF_app_l; exact H.
  - rewrite nthF_app_r by exact H. rewrite nthF_zeros. symmetry. apply nthF_overflow. exact H.
Qed.
Lemma updF_app (A B : list F) i v : (length A <= i)%nat -> updF (A ++ B) i v = A ++ updF B (i - length A) v.
Proof.
  revert i; induction A as [|a A IH]; intros i H; cbn [app length] in *.
  - rewrite Nat.sub_0_r. reflexivity.
  - destruct i; [lia|]. cbn [updF]. f_equal. apply IH. lia.
Qed.
Lemma zeros_S n : zeros (S n) = 0 :: zeros n.
Proof. unfold zeros, mk. cbn [seq map]. f_equal. rewrite <- seq_shift, map_map. reflexivity. Qed.
Lemma updF_app_zeros (A : list F) n v : updF (A ++ zeros (S n)) (length A) v = (A ++ [v]) ++ zeros n.
Proof. rewrite updF_app by lia. rewrite Nat.sub_diag, zeros_S. cbn [updF]. rewrite <- app_assoc. reflexivity. Qed.
Lemma nthF_tail_indep (X Y Z : list F) k q : length X = length Y -> (length X <= q)%nat ->
  nthF ((X ++ [k]) ++ Z) q = nthF ((Y ++ [k]) ++ Z) q.
Proof.
  intros Hl Hq. rewrite <- !app_assoc. rewrite (nthF_app_r X) by lia. rewrite (nthF_app_r Y) by lia. rewrite Hl. reflexivity.
Qed.
Lemma mk_S n (f : nat -> F) : mk (S n) f = f O :: mk n (fun i => f (S i)).
Proof. unfold mk. cbn [seq map]. f_equal. rewrite <- seq_shift, map_map. reflexivity. Qed.
Lemma map_range_from (g : nat -> F) k n :
  map (fun p => g (Z.to_nat p)) (range_from (Z.of_nat k) 1 n) = mk n (fun i => g (k + i)%nat).
Proof.
  revert k; induction n; intros k; [reflexivity|].
  cbn [range_from map]. rewrite mk_S, Nat2Z.id, Nat.add_0_r. f_equal.
  replace (Z.of_nat k + 1)%Z with (Z.of_nat (S k)) by lia. rewrite IHn. apply mk_ext. intros i _. f_equal. lia.
Qed.
Lemma tl_slice (l : list F) : l <> [] ->
  map (fun p => nthF l (Z.to_nat p)) (slice_positions (length l) (Some 1%Z) None 1) = tl l.
Proof.
  destruct l as [|a l]; [congruence|intros _]. unfold slice_positions. change (0 <? 1)%Z with true. cbv iota.
  change (1 <? 0)%Z with false. cbv iota.
  assert (E : Z.max 0 (Z.min 1 (Z.of_nat (length (a :: l)))) = 1%Z) by (cbn [length]; lia). rewrite E.
  rewrite range_len_up by (cbn [length]; lia).
  replace (Z.to_nat (Z.of_nat (length (a :: l)) - 1)) with (length l) by (cbn [length]; lia).
  cbn [tl]. change 1%Z with (Z.of_nat 1). rewrite (map_range_from (nthF (a :: l)) 1 (length l)).
  transitivity (mk (length l) (nthF l)); [apply mk_ext; intros i _; reflexivity|symmetry; apply list_eq_mk].
Qed.
End Lists.


Definition lev_Pupd (rd : bool) : stmt :=
  if rd then SAssign 9 (EBin BMul (EVar 9) (EBin BSub (ELit 1 0) (EBin BMul (EVar 12) (EVar 12))))
  else SAssign 9 (EBin BMul (EVar 9) (EBin BSub (ELit 1 0) (EBin BAdd (EBin BMul (EReal (EVar 12)) (EReal (EVar 12))) (EImagSq (EVar 12))))).

Definition lev_body : stmt :=
  SSeq (SAssign 11 (EIndex (EVar 4) (EVar 10)))
  (SSeq (SIf (ECmp CEq (EVar 10) (EInt 0))
           (SAssign 12 (EBin BDiv (ENeg (EVar 11)) (EVar 9)))
           (SSeq lev_inner1 (SAssign 12 (EBin BDiv (ENeg (EVar 11)) (EVar 9)))))
  (SSeq (SIf (EVar 6) (lev_Pupd true) (lev_Pupd false))
  (SSeq (SIf (EAnd (ELe0 (EVar 9)) (EIsBool false (EVar 2))) (SRaise ValueError) SSkip)
  (SSeq (SStore 7 (EVar 10) (EVar 12))
  (SSeq (SStore 8 (EVar 10) (EVar 12))
  (SSeq (SIf (ECmp CEq (EVar 10) (EInt 0)) SContinue SSkip)
  (SSeq (SAssign 14 (EBin BFloorDiv (EBin BAdd (EVar 10) (EInt 1)) (EInt 2)))
        (SIf (EIsBool true (EVar 6)) (lev_inner2 false) (lev_inner2 true))))))))).

Section Body.
Context {F : Type} {OF : Ops F} {L : Laws OF}.
Variable feq : F -> F -> bool.
Variable stop : Z -> F -> F -> bool.
Local Open Scope F_scope.
Add Field FFir4 : (fth (O:=OF)).
Notation value := (@value F).
Notation store := (@store F).
Notation exec := (@exec F OF feq stop).

(* the model step with [cj c] in place of [conj]: c = true is lev_step itself, c = false is what the float-dtype branch computes *)
Definition gstepup (c : bool) (A : list F) (k : F) : list F :=
  mk (length A) (fun j => nthF A j + k * cj c (nthF A (length A - 1 - j))) ++ [k].
Definition glev_step (c : bool) (T : list F) (allow : bool) (st : lev_state) (m : nat) : option lev_state :=
  let '(A, P, ks) := st in
  let k := (- lev_delta T A m) / P in
  let P' := P * (1 - k * cj c k) in
  if le0 P' && negb allow then None else Some (gstepup c A k, P', ks ++ [k]).

Lemma exec_seq a b (st st' : store) : exec a st = (st', CNormal) -> exec (SSeq a b) st = exec b st'.
Proof. intros H. cbn [LoopIR.exec]. rewrite H. reflexivity. Qed.
Lemma exec_seq_stop a b (st st' : store) c : exec a st = (st', c) -> c <> CNormal -> exec (SSeq a b) st = (st', c).
Proof. intros H Hc. cbn [LoopIR.exec]. rewrite H. destruct c; try reflexivity. congruence. Qed.
Ltac ev := cbn [LoopIR.exec eval get set nth mkst bind try asZ asArr asF ok err fst snd arith arithZ fop compare cmpF cmpZ eqne truthy eval_list].

Lemma updF_app_zeros' (X : list F) M m v : length X = m -> (m < M)%nat ->
  updF (X ++ zeros (M - m)) m v = (X ++ [v]) ++ zeros (M - S m).
Proof. intros <- H. replace (M - length X)%nat with (S (M - S (length X))) by lia. apply updF_app_zeros. Qed.
Lemma lit_1 : @lit F OF 1 0 = 1.
Proof. unfold lit, ofZ. change (Pos.to_nat 1) with 1%nat. cbn [ofnat]. ring. Qed.
Lemma nrm2_parts (t : F) : re t * re t + imagsq t = t * conj t.
Proof. unfold re, imagsq, two. field. apply two_neq_0. Qed.

Lemma inner2_result c (A : list F) k M m (arr : list F) h :
  length A = m -> (m < M)%nat -> h = ((m + 1) / 2)%nat ->
  length arr = length ((A ++ [k]) ++ zeros (M - S m)) ->
  (forall q, nthF arr q = if done2 m h q then upd2 c ((A ++ [k]) ++ zeros (M - S m)) k m q else nthF ((A ++ [k]) ++ zeros (M - S m)) q) ->
  arr = gstepup c A k ++ zeros (M - S m).
Proof.
  intros HA Hm Hh Hl Hn.
  assert (H2 : (m <= 2 * h)%nat). { pose proof (Nat.mul_succ_div_gt (m + 1) 2). lia. }
  assert (H3 : (h <= m)%nat). { pose proof (Nat.mul_div_le (m + 1) 2). lia. }
  assert (EB : forall q, (q < m)%nat -> nthF ((A ++ [k]) ++ zeros (M - S m)) q = nthF A q).
  { intros q Hq. rewrite <- app_assoc. apply nthF_app_l. lia. }
  apply list_eq_nth.
  - rewrite Hl. unfold gstepup. rewrite !app_length, mk_length. reflexivity.
  - intros q _. rewrite Hn. unfold done2, upd2.
    destruct (Nat.lt_ge_cases q m) as [Hq|Hq].
    + replace ((q <? h)%nat || ((m - 1 - h <? q)%nat && (q <? m)%nat)) with true.
      2:{ symmetry. destruct (Nat.ltb_spec q h); [reflexivity|]. cbn [orb]. apply andb_true_iff. split; apply Nat.ltb_lt; lia. }
      rewrite !EB by lia. unfold gstepup. rewrite <- app_assoc, nthF_app_l by (rewrite mk_length; lia).
      rewrite nth_mk by lia. rewrite HA. reflexivity.
    + replace ((q <? h)%nat || ((m - 1 - h <? q)%nat && (q <? m)%nat)) with false.
      2:{ symmetry. apply orb_false_iff. split; [apply Nat.ltb_ge; lia|]. apply andb_false_iff. right. apply Nat.ltb_ge; lia. }
      unfold gstepup. apply nthF_tail_indep; [rewrite mk_length; reflexivity|lia].
Qed.

Lemma body_ok c vr vo allow vT0 tT T M tA A tR ks P m vk vsave vtemp vj vkh vkj :
  (m < M)%nat -> (M <= length T)%nat -> length A = m -> length ks = m ->
  match glev_step c T allow (A, P, ks) m with
  | None => exists s',
      exec lev_body (set (mkst vr vo (VB allow) vT0 (VArr tT T) (VI (Z.of_nat M)) (VB (negb c)) (VArr tA (A ++ zeros (M - m)))
                              (VArr tR (ks ++ zeros (M - m))) (VF P) vk vsave vtemp vj vkh vkj) 10 (VI (Z.of_nat m)))
      = (s', CErr ValueError)
  | Some (A', P', ks') => exists vsave' vtemp' vj' vkh' vkj' ctl',
      exec lev_body (set (mkst vr vo (VB allow) vT0 (VArr tT T) (VI (Z.of_nat M)) (VB (negb c)) (VArr tA (A ++ zeros (M - m)))
                              (VArr tR (ks ++ zeros (M - m))) (VF P) vk vsave vtemp vj vkh vkj) 10 (VI (Z.of_nat m)))
      = (mkst vr vo (VB allow) vT0 (VArr tT T) (VI (Z.of_nat M)) (VB (negb c)) (VArr tA (A' ++ zeros (M - S m)))
              (VArr tR (ks' ++ zeros (M - S m))) (VF P') (VI (Z.of_nat m)) vsave' vtemp' vj' vkh' vkj', ctl')
      /\ (ctl' = CNormal \/ ctl' = CContinue)
  end.
Proof.
  intros Hm HM HA Hk.
  unfold glev_step.
  set (k := (- lev_delta T A m) / P). set (P' := P * (1 - k * cj c k)).
  pose (ST := fun (a r : list F) (p : F) (sv tmp j kh kj : value) =>
     [vr; vo; VB allow; vT0; VArr tT T; VI (Z.of_nat M); VB (negb c); VArr tA a; VArr tR r; VF p; VI (Z.of_nat m); sv; tmp; j; kh; kj]).
  unfold lev_body, mkst. cbn [set].
  (* save = T[m] *)
  erewrite exec_seq; [|ev; rewrite norm_index_nat by lia; ev; reflexivity].
  (* temp = -save/P, after the accumulation loop when m > 0 *)
  assert (Esave : lsum m (fun j => nthF (A ++ zeros (M - m)) j * nthF T (m - j - 1)) (nthF T m) = lev_delta T A m).
  { rewrite lsum_sumf. unfold lev_delta. rewrite sumL_mk. f_equal. apply sumf_ext. intros j _. rewrite nthF_app_zeros. reflexivity. }
  assert (E2 : exists vj1,
     exec (SIf (ECmp CEq (EVar 10) (EInt 0))
                (SAssign 12 (EBin BDiv (ENeg (EVar 11)) (EVar 9)))
                (SSeq lev_inner1 (SAssign 12 (EBin BDiv (ENeg (EVar 11)) (EVar 9)))))
          (ST (A ++ zeros (M - m)) (ks ++ zeros (M - m)) P (VF (nthF T m)) vtemp vj vkh vkj)
     = (ST (A ++ zeros (M - m)) (ks ++ zeros (M - m)) P (VF (lev_delta T A m)) (VF k) vj1 vkh vkj, CNormal)).
  { unfold ST. destruct (Nat.eq_dec m 0) as [E0|N0].
    - exists vj. ev. replace (Z.of_nat m =? 0)%Z with true by (symmetry; apply Z.eqb_eq; lia). ev. unfold k. rewrite <- Esave. rewrite E0. reflexivity.
    - ev. replace (Z.of_nat m =? 0)%Z with false by (symmetry; apply Z.eqb_neq; lia). ev.
      destruct (inner1_ok feq stop vr vo (VB allow) vT0 tT T (VI (Z.of_nat M)) (VB (negb c)) tA (A ++ zeros (M - m))
                  (VArr tR (ks ++ zeros (M - m))) (VF P) m (nthF T m) vtemp vj vkh vkj) as [vj1 E1].
      { rewrite app_length. lia. } { lia. }
      unfold mkst in E1. rewrite E1. ev. rewrite Esave. exists vj1. reflexivity. }
  destruct E2 as [vj1 E2]. unfold ST in E2. erewrite exec_seq by exact E2. clear E2.
  (* P = P * (1 - |temp|^2) *)
  assert (E3 : exec (SIf (EVar 6) (lev_Pupd true) (lev_Pupd false))
                 (ST (A ++ zeros (M - m)) (ks ++ zeros (M - m)) P (VF (lev_delta T A m)) (VF k) vj1 vkh vkj)
               = (ST (A ++ zeros (M - m)) (ks ++ zeros (M - m)) P' (VF (lev_delta T A m)) (VF k) vj1 vkh vkj, CNormal)).
  { unfold ST, P'. ev. destruct c; cbn [negb lev_Pupd]; ev; rewrite lit_1, ?nrm2_parts; reflexivity. }
  unfold ST in E3. erewrite exec_seq by exact E3. clear E3.
  (* the singularity test *)
  assert (E4 : exec (SIf (EAnd (ELe0 (EVar 9)) (EIsBool false (EVar 2))) (SRaise ValueError) SSkip)
                 (ST (A ++ zeros (M - m)) (ks ++ zeros (M - m)) P' (VF (lev_delta T A m)) (VF k) vj1 vkh vkj)
               = (ST (A ++ zeros (M - m)) (ks ++ zeros (M - m)) P' (VF (lev_delta T A m)) (VF k) vj1 vkh vkj,
                  if le0 P' && negb allow then CErr ValueError else CNormal)).
  { unfold ST. ev. destruct (le0 P'); ev; destruct allow; reflexivity. }
  unfold ST in E4.
  destruct (le0 P' && negb allow) eqn:Hs.
  { eexists. apply exec_seq_stop; [exact E4|discriminate]. }
  erewrite exec_seq by exact E4. clear E4.
  (* A[m] = temp; ref[m] = temp *)
  assert (E5 : exec (SStore 7 (EVar 10) (EVar 12))
                 (ST (A ++ zeros (M - m)) (ks ++ zeros (M - m)) P' (VF (lev_delta T A m)) (VF k) vj1 vkh vkj)
               = (ST ((A ++ [k]) ++ zeros (M - S m)) (ks ++ zeros (M - m)) P' (VF (lev_delta T A m)) (VF k) vj1 vkh vkj, CNormal)).
  { unfold ST. ev. rewrite norm_index_nat by (rewrite app_length, zeros_length; lia). ev.
    rewrite (updF_app_zeros' A M m k HA Hm). reflexivity. }
  unfold ST in E5. erewrite exec_seq by exact E5. clear E5.
  assert (E6 : exec (SStore 8 (EVar 10) (EVar 12))
                 (ST ((A ++ [k]) ++ zeros (M - S m)) (ks ++ zeros (M - m)) P' (VF (lev_delta T A m)) (VF k) vj1 vkh vkj)
               = (ST ((A ++ [k]) ++ zeros (M - S m)) ((ks ++ [k]) ++ zeros (M - S m)) P' (VF (lev_delta T A m)) (VF k) vj1 vkh vkj, CNormal)).
  { unfold ST. ev. rewrite norm_index_nat by (rewrite app_length, zeros_length; lia). ev.
    rewrite (updF_app_zeros' ks M m k Hk Hm). reflexivity. }
  unfold ST in E6. erewrite exec_seq by exact E6. clear E6.
  destruct (Nat.eq_dec m 0) as [E0|N0].
  { (* order 1: continue *)
    exists (VF (lev_delta T A m)), (VF k), vj1, vkh, vkj, CContinue. split; [|right; reflexivity].
    erewrite exec_seq_stop; [| ev; replace (Z.of_nat m =? 0)%Z with true by (symmetry; apply Z.eqb_eq; lia); ev; reflexivity | discriminate].
    destruct A; [|cbn [length] in HA; lia]. reflexivity. }
  erewrite exec_seq; [|ev; replace (Z.of_nat m =? 0)%Z with false by (symmetry; apply Z.eqb_neq; lia); ev; reflexivity].
  (* khalf = (m+1)//2 *)
  erewrite exec_seq; [|ev; change (2 =? 0)%Z with false; cbv iota;
                       replace ((Z.of_nat m + 1) / 2)%Z with (Z.of_nat ((m + 1) / 2)) by (rewrite Nat2Z.inj_div, Nat2Z.inj_add; reflexivity);
                       ev; reflexivity].
  (* the in-place symmetric update *)
  assert (Ein : forall st0 : store, nth 6 st0 VUnbound = VB (negb c) ->
                exec (SIf (EIsBool true (EVar 6)) (lev_inner2 false) (lev_inner2 true)) st0 = exec (lev_inner2 c) st0).
  { intros st0 H6. cbn [LoopIR.exec eval]. unfold get. rewrite H6. destruct c; reflexivity. }
  rewrite Ein by reflexivity. clear Ein.
  destruct (inner2_ok feq stop c vr vo (VB allow) vT0 (VArr tT T) (VI (Z.of_nat M)) (VB (negb c)) tA ((A ++ [k]) ++ zeros (M - S m))
              (VArr tR ((ks ++ [k]) ++ zeros (M - S m))) (VF P') m (VF (lev_delta T A m)) k vj1 ((m + 1) / 2) vkj)
    as [arr [vs' [vj' [vkj' [E [Hl Hn]]]]]].
  { rewrite !app_length. cbn [length]. lia. }
  { pose proof (Nat.mul_div_le (m + 1) 2). lia. }
  unfold mkst in E. rewrite E.
  exists vs', (VF k), vj', (VI (Z.of_nat ((m + 1) / 2))), vkj', CNormal. split; [|left; reflexivity].
  rewrite (inner2_result c A k M m arr ((m + 1) / 2) HA Hm eq_refl Hl Hn). reflexivity.
Qed.
End Body.

Local Open Scope string_scope.

Definition lev_main : stmt :=
  SSeq (SAssign 3 (EReal (EIndex (EVar 0) (EInt 0))))
  (SSeq (SAssign 4 (ESlice (EVar 0) (Some (EInt 1)) None None))
  (SSeq (SAssign 5 (ELen (EVar 4)))
  (SSeq (SIf (EIsNone (EVar 1))
           (SAssign 5 (ELen (EVar 4)))
           (SSeq (SAssert (ECmp CLe (EVar 1) (EVar 5))) (SAssign 5 (EVar 1))))
  (SSeq (SAssign 6 (EIsRealObj (EVar 0)))
  (SSeq (SIf (EIsBool true (EVar 6))
           (SSeq (SAssign 7 (EZeros (EVar 5) true)) (SAssign 8 (EZeros (EVar 5) true)))
           (SSeq (SAssign 7 (EZeros (EVar 5) false)) (SAssign 8 (EZeros (EVar 5) false))))
  (SSeq (SAssign 9 (EVar 3))
  (SSeq (SFor 10 (EInt 0) (EVar 5) (EInt 1) lev_body)
        (SReturn [(EVar 7); (EVar 9); (EVar 8)])))))))).
Definition prog_LEVINSON_ref : program :=
  mkProgram "LEVINSON" 3 [None; (Some ENone); (Some (EBool false))] 16 lev_main.

Section Main.
Context {F : Type} {OF : Ops F} {L : Laws OF}.
Variable feq : F -> F -> bool.
Variable stop : Z -> F -> F -> bool.
Local Open Scope F_scope.
Add Field FFir5 : (fth (O:=OF)).
Notation value := (@value F).
Notation store := (@store F).
Notation exec := (@exec F OF feq stop).
Ltac ev := cbn [LoopIR.exec eval get set nth mkst bind try asZ asArr asF ok err fst snd arith arithZ fop compare cmpF cmpZ eqne truthy eval_list].

Fixpoint glev_iter (c : bool) (T : list F) (allow : bool) (P0 : F) (m : nat) : option lev_state :=
  match m with
  | O => Some ([], P0, [])
  | S m' => match glev_iter c T allow P0 m' with None => None | Some st => glev_step c T allow st m' end
  end.
Definition glevinson (c : bool) (r : list F) (order : nat) (allow : bool) : option lev_state :=
  if (order <=? length r - 1)%nat then glev_iter c (tl r) allow (re (nthF r 0)) order else None.

Lemma glev_step_true T allow st m : glev_step true T allow st m = lev_step T allow st m.
Proof. destruct st as [[A P] ks]. reflexivity. Qed.
Lemma glev_iter_true T allow P0 m : glev_iter true T allow P0 m = lev_iter T allow P0 m.
Proof. induction m; [reflexivity|]. cbn [glev_iter lev_iter]. rewrite IHm. destruct (lev_iter T allow P0 m); [apply glev_step_true|reflexivity]. Qed.
Lemma glevinson_true r order allow : glevinson true r order allow = levinson r order allow.
Proof. unfold glevinson, levinson. rewrite glev_iter_true. reflexivity. Qed.

Lemma glev_step_length c T allow A P ks m A' P' ks' :
  glev_step c T allow (A, P, ks) m = Some (A', P', ks') -> length A' = S (length A) /\ length ks' = S (length ks).
Proof.
  unfold glev_step. destruct (le0 _ && negb allow); [discriminate|]. intros H; inversion H; subst.
  unfold gstepup. rewrite !app_length, mk_length. cbn [length]. lia.
Qed.

Lemma outer_ok c vr vo allow vT0 tT T M tA tR T0 vk vsave vtemp vj vkh vkj :
  (M <= length T)%nat -> forall m, (m <= M)%nat ->
  match glev_iter c T allow T0 m with
  | Some (A, P, ks) => exists vk' vsave' vtemp' vj' vkh' vkj',
      for_loop (exec lev_body) 10 (range_from 0 1 m)
        (mkst vr vo (VB allow) vT0 (VArr tT T) (VI (Z.of_nat M)) (VB (negb c)) (VArr tA (zeros M)) (VArr tR (zeros M)) (VF T0) vk vsave vtemp vj vkh vkj)
      = (mkst vr vo (VB allow) vT0 (VArr tT T) (VI (Z.of_nat M)) (VB (negb c)) (VArr tA (A ++ zeros (M - m))) (VArr tR (ks ++ zeros (M - m))) (VF P)
              vk' vsave' vtemp' vj' vkh' vkj', CNormal)
      /\ length A = m /\ length ks = m
  | None => exists s',
      for_loop (exec lev_body) 10 (range_from 0 1 m)
        (mkst vr vo (VB allow) vT0 (VArr tT T) (VI (Z.of_nat M)) (VB (negb c)) (VArr tA (zeros M)) (VArr tR (zeros M)) (VF T0) vk vsave vtemp vj vkh vkj)
      = (s', CErr ValueError)
  end.
Proof.
  intros HM m. induction m as [|m IH]; intros Hm.
  - cbn [glev_iter range_from for_loop]. exists vk, vsave, vtemp, vj, vkh, vkj. rewrite Nat.sub_0_r. cbn [app]. repeat split.
  - rewrite range_from_S, for_loop_app. cbn [glev_iter].
    specialize (IH ltac:(lia)). destruct (glev_iter c T allow T0 m) as [[[A P] ks]|].
    + destruct IH as [vk' [vs' [vt' [vj' [vkh' [vkj' [E [HA Hk]]]]]]]]. rewrite E. cbn [for_loop].
      pose proof (body_ok feq stop c vr vo allow vT0 tT T M tA A tR ks P m vk' vs' vt' vj' vkh' vkj' ltac:(lia) HM HA Hk) as B.
      destruct (glev_step c T allow (A, P, ks) m) as [[[A' P'] ks']|] eqn:Es.
      * destruct B as [vs2 [vt2 [vj2 [vkh2 [vkj2 [ctl2 [E2 Hc]]]]]]]. rewrite E2.
        destruct (glev_step_length _ _ _ _ _ _ _ _ _ _ Es) as [LA Lk].
        exists (VI (Z.of_nat m)), vs2, vt2, vj2, vkh2, vkj2.
        split; [destruct Hc as [-> | ->]; reflexivity|]. lia.
      * destruct B as [s' E2]. rewrite E2. exists s'. reflexivity.
    + destruct IH as [s' E]. rewrite E. exists s'. reflexivity.
Qed.

Definition vorder (order : option nat) : value := match order with Some o => VI (Z.of_nat o) | None => VNone end.

Lemma main_ok c (r : list F) (order : option nat) (al : bool) :
  r <> [] ->
  let ord := match order with Some o => o | None => (length r - 1)%nat end in
  exists s',
  exec lev_main (VArr (negb c) r :: vorder order :: VB al :: repeat VUnbound 13) =
  (s', match glevinson c r ord al with
       | Some (A, P, ks) => CRet [VArr (negb c) A; VF P; VArr (negb c) ks]
       | None => CErr (if (ord <=? length r - 1)%nat then ValueError else AssertionError)
       end).
Proof.
  intros Hr ord. cbn [repeat]. unfold lev_main.
  assert (Hlen : (0 < length r)%nat) by (destruct r; [congruence|cbn [length]; lia]).
  assert (Htl : length (tl r) = (length r - 1)%nat) by (destruct r; [congruence|cbn [length tl]; lia]).
  erewrite exec_seq; [|ev; rewrite norm_index_ok by lia; ev; reflexivity].
  erewrite exec_seq; [|ev; unfold eval_opt; ev; change (1 =? 0)%Z with false; cbv iota; rewrite (tl_slice r Hr); reflexivity].
  erewrite exec_seq; [|ev; reflexivity].
  change (Z.to_nat 0) with 0%nat.
  unfold glevinson.
  destruct (Nat.leb_spec ord (length r - 1)) as [Ho|Ho].
  2:{ (* the assertion order <= M fails *)
      destruct order as [o|]; [|unfold ord in Ho; lia]. unfold ord in Ho.
      eexists. apply exec_seq_stop; [|discriminate].
      cbn [vorder]. ev. replace (Z.of_nat o <=? Z.of_nat (length (tl r)))%Z with false by (symmetry; apply Z.leb_gt; lia). reflexivity. }
  erewrite exec_seq.
  2:{ instantiate (1 := [VArr (negb c) r; vorder order; VB al; VF (re (nthF r 0)); VArr (negb c) (tl r); VI (Z.of_nat ord);
                          VUnbound; VUnbound; VUnbound; VUnbound; VUnbound; VUnbound; VUnbound; VUnbound; VUnbound; VUnbound]).
      destruct order as [o|]; unfold ord, vorder.
      - ev. replace (Z.of_nat o <=? Z.of_nat (length (tl r)))%Z with true by (symmetry; apply Z.leb_le; unfold ord in Ho; lia). reflexivity.
      - ev. rewrite Htl. reflexivity. }
  erewrite exec_seq; [|ev; reflexivity].
  erewrite exec_seq.
  2:{ instantiate (1 := [VArr (negb c) r; vorder order; VB al; VF (re (nthF r 0)); VArr (negb c) (tl r); VI (Z.of_nat ord);
                          VB (negb c); VArr (negb c) (zeros ord); VArr (negb c) (zeros ord); VUnbound; VUnbound; VUnbound; VUnbound; VUnbound; VUnbound; VUnbound]).
      ev. replace (Z.of_nat ord <? 0)%Z with false by (symmetry; apply Z.ltb_ge; lia).
      destruct c; cbn [negb Bool.eqb]; ev; replace (Z.of_nat ord <? 0)%Z with false by (symmetry; apply Z.ltb_ge; lia);
        rewrite Nat2Z.id; reflexivity. }
  erewrite exec_seq; [|ev; reflexivity].
  (* the main loop *)
  pose proof (outer_ok c (VArr (negb c) r) (vorder order) al (VF (re (nthF r 0))) (negb c) (tl r) ord (negb c) (negb c) (re (nthF r 0))
                VUnbound VUnbound VUnbound VUnbound VUnbound VUnbound ltac:(lia) ord (le_n ord)) as O.
  unfold mkst in O.
  destruct (glev_iter c (tl r) al (re (nthF r 0)) ord) as [[[A P] ks]|].
  - destruct O as [vk' [vs' [vt' [vj' [vkh' [vkj' [E [HA Hk]]]]]]]].
    erewrite exec_seq; [|ev; rewrite range_vals_nat; cbn [try]; rewrite E; reflexivity].
    eexists. ev. rewrite Nat.sub_diag. unfold zeros at 1 2. cbn [mk seq map]. rewrite !app_nil_r. reflexivity.
  - destruct O as [s' E]. exists s'. apply exec_seq_stop; [|discriminate].
    ev. rewrite range_vals_nat. cbn [try]. rewrite E. reflexivity.
Qed.

Theorem levinson_ir_run c (r : list F) (order : option nat) (allow : option bool) :
  r <> [] ->
  let ord := match order with Some o => o | None => (length r - 1)%nat end in
  let al := match allow with Some b => b | None => false end in
  run feq stop prog_LEVINSON_ref [Some (VArr (negb c) r); option_map (fun o => VI (Z.of_nat o)) order; option_map VB allow] =
  match glevinson c r ord al with
  | Some (A, P, ks) => ORet [VArr (negb c) A; VF P; VArr (negb c) ks]
  | None => OErr (if (ord <=? length r - 1)%nat then ValueError else AssertionError)
  end.
Proof.
  intros Hr ord al.
  destruct (main_ok c r order al Hr) as [s' E]. fold ord in E.
  unfold run, prog_LEVINSON_ref. cbn [p_defaults p_body p_nslots p_nparams Nat.sub].
  assert (B : bind_args feq [None; Some ENone; Some (EBool false)]
                [Some (VArr (negb c) r); option_map (fun o => VI (Z.of_nat o)) order; option_map VB allow]
              = inl [VArr (negb c) r; vorder order; VB al]).
  { unfold al. destruct order, allow; reflexivity. }
  rewrite B. cbn [app]. rewrite E.
  destruct (glevinson c r ord al) as [[[A P] ks]|]; reflexivity.
Qed.

(* complex dtype: the hand-written model itself *)
Theorem levinson_ir_complex (r : list F) (order : option nat) (allow : option bool) :
  r <> [] ->
  let ord := match order with Some o => o | None => (length r - 1)%nat end in
  let al := match allow with Some b => b | None => false end in
  run feq stop prog_LEVINSON_ref [Some (VArr false r); option_map (fun o => VI (Z.of_nat o)) order; option_map VB allow] =
  match levinson r ord al with
  | Some (A, P, ks) => ORet [VArr false A; VF P; VArr false ks]
  | None => OErr (if (ord <=? length r - 1)%nat then ValueError else AssertionError)
  end.
Proof. intros Hr ord al. rewrite <- glevinson_true. exact (levinson_ir_run true r order allow Hr). Qed.

(* float dtype: what the float branch computes ([cj false] = identity) is the model on real-valued sequences *)
Definition isrealL (l : list F) : Prop := forall j, conj (nthF l j) = nthF l j.

Lemma lev_delta_real T A m : isrealL T -> isrealL A -> conj (lev_delta T A m) = lev_delta T A m.
Proof.
  intros HT HA. unfold lev_delta. rewrite sumL_mk, conj_add, sumf_conj, HT. f_equal.
  apply sumf_ext. intros j _. rewrite conj_mul, HA, HT. reflexivity.
Qed.
Lemma stepup_real A k : isrealL A -> conj k = k -> isrealL (stepup A k).
Proof.
  intros HA Hk j. unfold stepup.
  destruct (Nat.lt_ge_cases j (length A)) as [H|H].
  - rewrite nthF_app_l by (rewrite mk_length; exact H). rewrite nth_mk by exact H.
    rewrite conj_add, conj_mul, conj_conj, Hk, !HA. reflexivity.
  - rewrite nthF_app_r by (rewrite mk_length; exact H). rewrite mk_length.
    destruct (j - length A)%nat as [|[|q]]; unfold nthF; cbn [nth]; [exact Hk|apply conj_0|apply conj_0].
Qed.
Lemma glev_iter_real T P0 m : isrealL T -> conj P0 = P0 -> le0 P0 = false ->
  glev_iter false T false P0 m = lev_iter T false P0 m /\
  (forall A P ks, lev_iter T false P0 m = Some (A, P, ks) -> isrealL A /\ conj P = P /\ le0 P = false).
Proof.
  intros HT HP0 Hpos. induction m as [|m [IH1 IH2]].
  - split; [reflexivity|]. cbn [lev_iter]. intros A P ks H; inversion H; subst. repeat split; try assumption.
    intros j. unfold nthF. destruct j; cbn [nth]; apply conj_0.
  - cbn [glev_iter lev_iter]. rewrite IH1. destruct (lev_iter T false P0 m) as [[[A P] ks]|]; [|split; [reflexivity|discriminate]].
    destruct (IH2 A P ks eq_refl) as [RA [RP PP]].
    assert (Pn : P <> 0) by (apply le0_false_neq; exact PP).
    assert (Rk : conj ((- lev_delta T A m) / P) = (- lev_delta T A m) / P).
    { rewrite conj_div by exact Pn. rewrite conj_opp, lev_delta_real, RP by assumption. reflexivity. }
    assert (Es : glev_step false T false (A, P, ks) m = lev_step T false (A, P, ks) m).
    { unfold glev_step, lev_step. cbn [cj]. rewrite Rk.
      replace (gstepup false A (- lev_delta T A m / P)) with (stepup A (- lev_delta T A m / P)); [reflexivity|].
      unfold gstepup, stepup. f_equal. apply mk_ext. intros j _. cbn [cj]. rewrite RA. reflexivity. }
    split; [exact Es|].
    intros A' P' ks' H. unfold lev_step in H.
    destruct (le0 (P * (1 - - lev_delta T A m / P * conj (- lev_delta T A m / P))) && negb false) eqn:Hs; [discriminate|].
    inversion H; subst. rewrite andb_true_r in Hs.
    split; [apply stepup_real; assumption|]. split; [|exact Hs].
    rewrite conj_mul, conj_sub, conj_1, conj_mul, conj_conj, Rk, RP. reflexivity.
Qed.

Theorem levinson_ir_real (r : list F) (order : option nat) (allow : option bool) :
  r <> [] -> isrealL r -> le0 (re (nthF r 0)) = false ->
  match allow with Some b => b | None => false end = false ->
  let ord := match order with Some o => o | None => (length r - 1)%nat end in
  run feq stop prog_LEVINSON_ref [Some (VArr true r); option_map (fun o => VI (Z.of_nat o)) order; option_map VB allow] =
  match levinson r ord false with
  | Some (A, P, ks) => ORet [VArr true A; VF P; VArr true ks]
  | None => OErr (if (ord <=? length r - 1)%nat then ValueError else AssertionError)
  end.
Proof.
  intros Hr Rr Hpos Hal ord.
  pose proof (levinson_ir_run false r order allow Hr) as H. cbv zeta in H. rewrite Hal in H. fold ord in H.
  cbn [negb] in H. rewrite H. clear H.
  assert (E : glevinson false r ord false = levinson r ord false).
  { unfold glevinson, levinson. destruct (ord <=? length r - 1)%nat; [|reflexivity].
    apply glev_iter_real; [intros j; rewrite !nth_tl; apply Rr| |exact Hpos].
    unfold re. rewrite conj_div by (apply two_neq_0). rewrite conj_add, conj_conj. unfold two. rewrite conj_add, conj_1.
    f_equal. ring. }
  rewrite E. reflexivity.
Qed.
End Main.

(* BEGIN GENERATED LEVINSON (verbatim output of tools/props/_loopir.py for spectrum.levinson.LEVINSON) *)
(* LEVINSON: slots 0=r 1=order 2=allow_singularity 3=T0 4=T 5=M 6=realdata 7=A 8=ref 9=P 10=k 11=save 12=temp 13=j 14=khalf 15=kj *)
Definition prog_LEVINSON_gen0 : program := mkProgram "LEVINSON" 3 [None; (Some ENone); (Some (EBool false))] 16
(SSeq (SAssign 3 (EReal (EIndex (EVar 0) (EInt 0))))
(SSeq (SAssign 4 (ESlice (EVar 0) (Some (EInt 1)) None None))
(SSeq (SAssign 5 (ELen (EVar 4)))
(SSeq (SIf (EIsNone (EVar 1))
(SAssign 5 (ELen (EVar 4)))
(SSeq (SAssert (ECmp CLe (EVar 1) (EVar 5)))
(SAssign 5 (EVar 1))))
(SSeq (SAssign 6 (EIsRealObj (EVar 0)))
(SSeq (SIf (EIsBool true (EVar 6))
(SSeq (SAssign 7 (EZeros (EVar 5) true))
(SAssign 8 (EZeros (EVar 5) true)))
(SSeq (SAssign 7 (EZeros (EVar 5) false))
(SAssign 8 (EZeros (EVar 5) false))))
(SSeq (SAssign 9 (EVar 3))
(SSeq (SFor 10 (EInt 0) (EVar 5) (EInt 1)
(SSeq (SAssign 11 (EIndex (EVar 4) (EVar 10)))
(SSeq (SIf (ECmp CEq (EVar 10) (EInt 0))
(SAssign 12 (EBin BDiv (ENeg (EVar 11)) (EVar 9)))
(SSeq (SFor 13 (EInt 0) (EVar 10) (EInt 1)
(SAssign 11 (EBin BAdd (EVar 11) (EBin BMul (EIndex (EVar 7) (EVar 13)) (EIndex (EVar 4) (EBin BSub (EBin BSub (EVar 10) (EVar 13)) (EInt 1)))))))
(SAssign 12 (EBin BDiv (ENeg (EVar 11)) (EVar 9)))))
(SSeq (SIf (EVar 6)
(SAssign 9 (EBin BMul (EVar 9) (EBin BSub (ELit 1 0) (EBin BMul (EVar 12) (EVar 12)))))
(SAssign 9 (EBin BMul (EVar 9) (EBin BSub (ELit 1 0) (EBin BAdd (EBin BMul (EReal (EVar 12)) (EReal (EVar 12))) (EImagSq (EVar 12)))))))
(SSeq (SIf (EAnd (ELe0 (EVar 9)) (EIsBool false (EVar 2)))
(SRaise ValueError)
(SSkip))
(SSeq (SStore 7 (EVar 10) (EVar 12))
(SSeq (SStore 8 (EVar 10) (EVar 12))
(SSeq (SIf (ECmp CEq (EVar 10) (EInt 0))
(SContinue)
(SSkip))
(SSeq (SAssign 14 (EBin BFloorDiv (EBin BAdd (EVar 10) (EInt 1)) (EInt 2)))
(SIf (EIsBool true (EVar 6))
(SFor 13 (EInt 0) (EVar 14) (EInt 1)
(SSeq (SAssign 15 (EBin BSub (EBin BSub (EVar 10) (EVar 13)) (EInt 1)))
(SSeq (SAssign 11 (EIndex (EVar 7) (EVar 13)))
(SSeq (SStore 7 (EVar 13) (EBin BAdd (EVar 11) (EBin BMul (EVar 12) (EIndex (EVar 7) (EVar 15)))))
(SIf (ECmp CNe (EVar 13) (EVar 15))
(SStore 7 (EVar 15) (EBin BAdd (EIndex (EVar 7) (EVar 15)) (EBin BMul (EVar 12) (EVar 11))))
(SSkip))))))
(SFor 13 (EInt 0) (EVar 14) (EInt 1)
(SSeq (SAssign 15 (EBin BSub (EBin BSub (EVar 10) (EVar 13)) (EInt 1)))
(SSeq (SAssign 11 (EIndex (EVar 7) (EVar 13)))
(SSeq (SStore 7 (EVar 13) (EBin BAdd (EVar 11) (EBin BMul (EVar 12) (EConj (EIndex (EVar 7) (EVar 15))))))
(SIf (ECmp CNe (EVar 13) (EVar 15))
(SStore 7 (EVar 15) (EBin BAdd (EIndex (EVar 7) (EVar 15)) (EBin BMul (EVar 12) (EConj (EVar 11)))))
(SSkip))))))))))))))))
(SReturn [(EVar 7); (EVar 9); (EVar 8)]))))))))).

(* END GENERATED LEVINSON *)
Example prog_LEVINSON_ref_is_generated : prog_LEVINSON_ref = prog_LEVINSON_gen0.
Proof. reflexivity. Qed.
