(* C05 — NFFT only chooses the sampling grid: pmtm / MultiTapering.
   'unity' and 'eigen': exact at every common frequency.  'adapt': one pass at a frequency reads only the
   eigenspectra at that frequency, the eigenvalues and sigma^2, so after the SAME number of passes the two grids
   agree exactly at common frequencies (estimate and weights); NFFT enters only through the stopping test
   (tol = 0.0005 sig2/NFFT against the grid mean of |S - S1|), which decides the number of passes. *)
Require Import Spectrum.Theory.Ops Spectrum.Theory.Sum Spectrum.Theory.Vec Spectrum.Theory.Dft
               Spectrum.Model.Mtm Spectrum.Proofs.GridTheory Spectrum.Proofs.MtmTheory Spectrum.Proofs.GridFourier_C05.

Section GridMtm.
Context {F : Type} {OF : Ops F} {L : Laws OF}.
Local Open Scope F_scope.
Add Field FFgm : (fth (O:=OF)).

(* two families of per-taper spectra on the two grids agree at common frequencies *)
Definition col_rel (n c : nat) (SC SF : list (list F)) : Prop :=
  forall j k, (k < n)%nat -> at2 SF j (c * k) = at2 SC j k.

Lemma mt_keep_is_keep nfft : mt_keep nfft = keep nfft. Proof. reflexivity. Qed.

Lemma nthF_nil k : nthF (@nil F) k = 0. Proof. destruct k; reflexivity. Qed.
Lemma row_overflow (M : list (list F)) j : (length M <= j)%nat -> row j M = [].
Proof. intros H. unfold row. apply nth_overflow. exact H. Qed.

(* ---------------- eigenspectra: fft(taper * x, NFFT), N <= NFFT ---------------- *)
Lemma eigenspectra_grid (n c : nat) (tw' : Z -> F) tapers (x : list F) :
  (0 < c)%nat -> (length x <= n)%nat -> col_rel n c (eigenspectra (coarsen c tw') tapers x n) (eigenspectra tw' tapers x (c * n)).
Proof.
  intros Hc HN j k Hk.
  destruct (Nat.lt_ge_cases j (length tapers)) as [Hj|Hj].
  - rewrite !eigenspectra_bin by (try assumption; nia). rewrite <- dft_grid_thm.
    replace (Z.of_nat c * Z.of_nat k)%Z with (Z.of_nat (c * k)) by lia. reflexivity.
  - unfold at2. rewrite !row_overflow by (rewrite eigenspectra_length; exact Hj). rewrite !nthF_nil. reflexivity.
Qed.
Lemma powspec_grid (n c : nat) (SC SF : list (list F)) : length SC = length SF ->
  col_rel n c SC SF -> col_rel n c (powspec SC) (powspec SF).
Proof.
  intros Hl H j k Hk. destruct (Nat.lt_ge_cases j (length SC)) as [Hj|Hj].
  - rewrite !at2_powspec by lia. rewrite H by exact Hk. reflexivity.
  - unfold at2, powspec. rewrite !row_overflow by (rewrite map_length; lia). rewrite !nthF_nil. reflexivity.
Qed.

(* ---------------- the weighted mean of the class ---------------- *)
Lemma mt_mean_grid (n c : nat) m (SC SF wC wF : list (list F)) nwin (k : nat) :
  (0 < c)%nat -> (k < n)%nat -> col_rel n c SC SF ->
  (forall j, (j < nwin)%nat -> wt m wF j (c * k) = wt m wC j k) ->
  nthF (mt_mean m SF wF nwin (c * n)) (c * k) = nthF (mt_mean m SC wC nwin n) k.
Proof.
  intros Hc Hk HS Hw. unfold mt_mean. rewrite !nth_mk by nia. f_equal.
  apply sumf_ext; intros j Hj. rewrite HS by exact Hk. rewrite Hw by exact Hj. reflexivity.
Qed.

Lemma fold_len_grid (isr : bool) (n c b : nat) : (0 < c)%nat -> (1 <= n)%nat ->
  (b < (if isr then Nat.min (mt_keep n) n else n))%nat ->
  (b < n)%nat /\ (c * b < (if isr then Nat.min (mt_keep (c * n)) (c * n) else (c * n)%nat))%nat.
Proof.
  intros Hc Hn Hb. destruct isr.
  - rewrite mt_keep_is_keep in *. pose proof (keep_le n Hn). pose proof (keep_le (c * n) ltac:(nia)).
    rewrite Nat.min_l in * by assumption. pose proof (keep_grid n c b Hc Hn Hb). split; lia.
  - split; [exact Hb|nia].
Qed.

(* from agreement of the mean over tapers to agreement of the stored PSD (one-sided fold for real data; scale_by_freq off) *)
Lemma class_tail_grid (isr : bool) (n c : nat) (scale : F) (MC MF : list F) :
  (0 < c)%nat -> (1 <= n)%nat -> length MC = n -> length MF = (c * n)%nat ->
  (forall k, (k < n)%nat -> nthF MF (c * k) = nthF MC k) ->
  let pc := mt_scale false scale (mt_fold isr n MC) in
  let pf := mt_scale false scale (mt_fold isr (c * n) MF) in
  length pc = (if isr then Nat.min (mt_keep n) n else n) /\
  length pf = (if isr then Nat.min (mt_keep (c * n)) (c * n) else (c * n)%nat) /\
  forall b, (b < length pc)%nat -> (c * b < length pf)%nat /\ nthF pf (c * b) = nthF pc b.
Proof.
  intros Hc Hn LC LF H pc pf.
  assert (Lc : length pc = (if isr then Nat.min (mt_keep n) n else n)).
  { unfold pc. rewrite mt_scale_length. apply mt_fold_length. exact LC. }
  assert (Lf : length pf = (if isr then Nat.min (mt_keep (c * n)) (c * n) else (c * n)%nat)).
  { unfold pf. rewrite mt_scale_length. apply mt_fold_length. exact LF. }
  split; [exact Lc|]. split; [exact Lf|]. intros b Hb. rewrite Lc in Hb. rewrite Lf.
  destruct (fold_len_grid isr n c b Hc Hn Hb) as [Hbn Hb']. split; [exact Hb'|].
  unfold pc, pf. rewrite !nth_mt_scale. rewrite !nth_mt_fold by assumption.
  rewrite H by exact Hbn. reflexivity.
Qed.

(* ---------------- 'unity' / 'eigen' ---------------- *)
Definition fixed_weights (m : mt_method) (ev : list F) : list (list F) :=
  match m with Unity => w_unity (length ev) | Eigen => w_eigen ev | Adapt => [] end.

Lemma pmtm_core_fixed fuel tw tapers (ev x : list F) nfft m : m <> Adapt ->
  pmtm_core fuel tw tapers ev x nfft m = (eigenspectra tw tapers x nfft, fixed_weights m ev, ev).
Proof. intros Hm. unfold pmtm_core, fixed_weights. destruct m; try reflexivity. congruence. Qed.

(* what pmtm returns: the eigenvalues and (unity/eigen) the weights do not depend on NFFT, the tapers are dpss(N, NW, k)
   whatever NFFT is, and the complex eigenspectra agree at common frequencies *)
Theorem pmtm_grid_thm {NWT : Type} (dpss : nat -> NWT -> option nat -> list (list F) * list F)
  fuel (n c : nat) (tw' : Z -> F) (x : list F) NW k e v m :
  (0 < c)%nat -> (length x <= n)%nat ->
  match pmtm dpss fuel (coarsen c tw') x NW k (Some n) e v m, pmtm dpss fuel tw' x NW k (Some (c * n)%nat) e v m with
  | Some (SC, wC, evC), Some (SF, wF, evF) =>
      evC = evF /\ (m <> Adapt -> wC = wF) /\ length SC = length SF /\ col_rel n c SC SF /\
      exists tv, pmtm_inputs dpss (length x) NW k e v = Some tv /\ evC = snd tv /\ length SC = length (fst tv)
  | None, None => True
  | _, _ => False
  end.
Proof.
  intros Hc HN. rewrite !pmtm_unfold.
  destruct (pmtm_inputs dpss (length x) NW k e v) as [tv|]; [|exact I].
  unfold pmtm_core. split; [reflexivity|]. split; [intros Hm; destruct m; try reflexivity; congruence|].
  split; [rewrite !eigenspectra_length; reflexivity|]. split; [apply eigenspectra_grid; assumption|].
  exists tv. split; [reflexivity|]. split; [reflexivity|apply eigenspectra_length].
Qed.

Theorem mtm_grid_thm {NWT : Type} (dpss : nat -> NWT -> option nat -> list (list F) * list F)
  fuel (n c : nat) (tw' : Z -> F) isr (x : list F) NW k e v m (scale : F) :
  (0 < c)%nat -> (1 <= n)%nat -> (length x <= n)%nat -> m <> Adapt ->
  match mt_call dpss fuel (coarsen c tw') isr x NW k (Some n) e v m false scale,
        mt_call dpss fuel tw' isr x NW k (Some (c * n)%nat) e v m false scale with
  | Some pc, Some pf =>
      length pc = (if isr then Nat.min (mt_keep n) n else n) /\
      length pf = (if isr then Nat.min (mt_keep (c * n)) (c * n) else (c * n)%nat) /\
      forall b, (b < length pc)%nat -> (c * b < length pf)%nat /\ nthF pf (c * b)%nat = nthF pc b
  | None, None => True
  | _, _ => False
  end.
Proof.
  intros Hc Hn HN Hm. unfold mt_call. rewrite !pmtm_unfold.
  destruct (pmtm_inputs dpss (length x) NW k e v) as [tv|]; [|exact I].
  rewrite !pmtm_core_fixed by exact Hm.
  apply class_tail_grid; try assumption; try apply mt_mean_length.
  intros b Hb. apply mt_mean_grid; try assumption.
  - apply eigenspectra_grid; assumption.
  - intros j Hj. destruct m; try congruence; reflexivity.
Qed.

(* ---------------- 'adapt': the pointwise statement ---------------- *)
Section Adapt.
Variables (n c : nat) (SC SF : list (list F)) (ev : list F) (s2 : F).
Hypothesis Hc : (0 < c)%nat.
Hypothesis HS : col_rel n c SC SF.

(* states of the iteration on the two grids that agree at common frequencies *)
Definition st_rel (stC stF : ad_st) : Prop :=
  (forall k, (k < n)%nat -> nthF (ad_S stF) (c * k) = nthF (ad_S stC) k) /\
  (forall k, (k < n)%nat -> nthF (ad_S1 stF) (c * k) = nthF (ad_S1 stC) k) /\
  (forall k j, (k < n)%nat -> (j < length ev)%nat -> at2 (ad_wk stF) (c * k) j = at2 (ad_wk stC) k j) /\
  ad_i stF = ad_i stC.

Lemma init_rel : st_rel (ad_init SC ev n) (ad_init SF ev (c * n)).
Proof.
  unfold st_rel, ad_init. cbn [ad_S ad_S1 ad_wk ad_i]. repeat split.
  - intros k Hk. unfold ad_S0. rewrite !nth_mk by nia. f_equal. apply sumf_ext; intros j _. apply HS. exact Hk.
  - intros k Hk. rewrite !nth_mk by nia. reflexivity.
  - intros k j Hk Hj. rewrite !at2_mkr by nia. reflexivity.
Qed.
(* ONE PASS at a common frequency reads only: the eigenspectra at that frequency, the eigenvalues, sigma^2 and the
   current estimate at that frequency *)
Lemma step_rel stC stF : st_rel stC stF -> st_rel (ad_step SC ev s2 n stC) (ad_step SF ev s2 (c * n) stF).
Proof.
  intros (H1 & H2 & H3 & H4).
  assert (Hw : forall k j, (k < n)%nat -> (j < length ev)%nat ->
               at2 (ad_wk (ad_step SF ev s2 (c * n) stF)) (c * k) j = at2 (ad_wk (ad_step SC ev s2 n stC)) k j).
  { intros k j Hk Hj. rewrite !ad_step_wk by (try assumption; nia). rewrite H1 by exact Hk. reflexivity. }
  unfold st_rel. repeat split.
  - intros k Hk. rewrite !ad_step_S by nia. f_equal.
    + apply sumf_ext; intros j Hj. rewrite Hw by assumption. rewrite HS by exact Hk. reflexivity.
    + apply sumf_ext; intros j Hj. apply Hw; assumption.
  - intros k Hk. rewrite !ad_step_S1. apply H1. exact Hk.
  - exact Hw.
  - unfold ad_step. cbn [ad_i]. rewrite H4. reflexivity.
Qed.
Lemma iter_rel t : st_rel (ad_iter t SC ev s2 n) (ad_iter t SF ev s2 (c * n)).
Proof. induction t; cbn [ad_iter]; [apply init_rel|apply step_rel; exact IHt]. Qed.

(* whatever the two stopping tests decide, if they stop after the same number of passes the final states agree *)
Lemma loop_rel fuel tolC tolF :
  ad_i (ad_loop fuel SC ev s2 tolC n (ad_init SC ev n)) = ad_i (ad_loop fuel SF ev s2 tolF (c * n) (ad_init SF ev (c * n))) ->
  st_rel (ad_loop fuel SC ev s2 tolC n (ad_init SC ev n)) (ad_loop fuel SF ev s2 tolF (c * n) (ad_init SF ev (c * n))).
Proof.
  destruct (ad_loop_is_iter SC ev s2 tolC n fuel) as (tC & _ & EC & _).
  destruct (ad_loop_is_iter SF ev s2 tolF (c * n) fuel) as (tF & _ & EF & _).
  rewrite EC, EF, !ad_iter_count. intros ->. apply iter_rel.
Qed.
End Adapt.

(* after t passes, for every t: estimate, previous estimate and weights agree at the common frequencies *)
Theorem mtm_adapt_pointwise_thm (n c : nat) (tw' : Z -> F) tapers (ev x : list F) (t : nat) :
  (0 < c)%nat -> (length x <= n)%nat ->
  let SC := powspec (eigenspectra (coarsen c tw') tapers x n) in
  let SF := powspec (eigenspectra tw' tapers x (c * n)) in
  let stC := ad_iter t SC ev (sig2 x) n in
  let stF := ad_iter t SF ev (sig2 x) (c * n) in
  forall k, (k < n)%nat ->
    nthF (ad_S stF) (c * k) = nthF (ad_S stC) k /\
    forall j, (j < length ev)%nat -> at2 (ad_wk stF) (c * k) j = at2 (ad_wk stC) k j.
Proof.
  intros Hc HN SC SF stC stF k Hk.
  assert (HS : col_rel n c SC SF).
  { apply powspec_grid; [rewrite !eigenspectra_length; reflexivity|apply eigenspectra_grid; assumption]. }
  destruct (iter_rel n c SC SF ev (sig2 x) Hc HS t) as (H1 & _ & H3 & _).
  split; [apply H1; exact Hk|]. intros j Hj. apply H3; assumption.
Qed.

(* the class with method='adapt': exact agreement at common frequencies whenever the two runs made the same number of passes *)
Theorem mtm_adapt_grid_thm {NWT : Type} (dpss : nat -> NWT -> option nat -> list (list F) * list F)
  fuel (n c : nat) (tw' : Z -> F) isr (x : list F) NW k e v (scale : F) :
  (0 < c)%nat -> (1 <= n)%nat -> (length x <= n)%nat ->
  (forall tv, pmtm_inputs dpss (length x) NW k e v = Some tv ->
     ad_i (adapt_run fuel (eigenspectra (coarsen c tw') (fst tv) x n) (snd tv) x n)
     = ad_i (adapt_run fuel (eigenspectra tw' (fst tv) x (c * n)) (snd tv) x (c * n))) ->
  match mt_call dpss fuel (coarsen c tw') isr x NW k (Some n) e v Adapt false scale,
        mt_call dpss fuel tw' isr x NW k (Some (c * n)%nat) e v Adapt false scale with
  | Some pc, Some pf =>
      length pc = (if isr then Nat.min (mt_keep n) n else n) /\
      length pf = (if isr then Nat.min (mt_keep (c * n)) (c * n) else (c * n)%nat) /\
      forall b, (b < length pc)%nat -> (c * b < length pf)%nat /\ nthF pf (c * b)%nat = nthF pc b
  | None, None => True
  | _, _ => False
  end.
Proof.
  intros Hc Hn HN Hpass. unfold mt_call. rewrite !pmtm_unfold.
  destruct (pmtm_inputs dpss (length x) NW k e v) as [tv|] eqn:Etv; [|exact I].
  specialize (Hpass tv eq_refl). unfold pmtm_core.
  apply class_tail_grid; try assumption; try apply mt_mean_length.
  intros b Hb. apply mt_mean_grid; try assumption.
  - apply eigenspectra_grid; assumption.
  - intros j Hj. cbn [wt]. unfold adapt_run in *.
    assert (HS : col_rel n c (powspec (eigenspectra (coarsen c tw') (fst tv) x n)) (powspec (eigenspectra tw' (fst tv) x (c * n)))).
    { apply powspec_grid; [rewrite !eigenspectra_length; reflexivity|apply eigenspectra_grid; assumption]. }
    destruct (loop_rel n c _ _ (snd tv) (sig2 x) Hc HS fuel _ _ Hpass) as (_ & _ & H3 & _).
    apply H3; assumption.
Qed.
End GridMtm.
