(* periodogram.speriodogram, the 1-D path: the IR program generated from the Python source computes the hand-written model
   Model.Periodogram.speriodogram, for ALL inputs of the stated domain and ALL flag combinations the translator accepts.

   [prog_speriodogram_ref] is the loop-IR program that tools/props/_loopir.py generates from spectrum.periodogram.speriodogram (the bodies
   of the 2-D branches replaced by SUnsupported) at the commit this file was written for (kept verbatim below, between the BEGIN/END markers,
   as [prog_speriodogram_gen0]; the two are equal by reflexivity).  The check regenerates the program on every run and instantiates the
   theorems below only when the text is identical.

   PROVED (abstract field with conjugation [Laws]; every feq, stop; EVERY twiddle family tw; ANY value in the numpy.pi slot; ANY window
   samples w with len(w) = len(x) (Window(r, window).data has r samples); x of any length (the empty record included) with either dtype tag
   (float: the rfft path, complex: the fft path); NFFT omitted (= len(x)) or any natural number (zero padding, cropping NFFT < len(x), NFFT = 0);
   detrend and scale_by_freq each omitted / True / False / None / a string; sampling omitted or given):
     speriodogram_ir_run   run prog_speriodogram_ref (speriodogram_args tw pi isreal x w NFFT detrend scale_by_freq sampling)
                           = speriodogram_spec ..., i.e.
                               resolved NFFT = 0 -> ValueError (numpy.fft: invalid number of data points)
                               otherwise -> ORet [Model.Periodogram.speriodogram (tw n) (2*pi) x w NFFT isreal detrend scale_by_freq sampling]
                           (tagged float; complex after res *= 2*pi/df: IR scalars carry no dtype)
     speriodogram_ir_tie   for a reflexive [feq]: tie_speriodogram ... = true on the same domain
   Hypotheses, stated in the theorems: [length w = length x] (otherwise the program raises numpy's broadcast ValueError at x * w while the
   model reads the window with default 0); the two flags are not Python INTEGERS ([flag_ok]: the IR's EIsBool is a TypeError on an int, the
   model has 1 == True) - the comparator's documented domain.
   NOT PROVED / outside the statement: 2-D input (SUnsupported), integer flags, a negative NFFT. *)
From Coq Require Import String ZArith List Lia Bool.
Require Import Spectrum.Theory.Ops Spectrum.Theory.Sum Spectrum.Theory.Vec Spectrum.Theory.Dft Spectrum.Model.LoopIR Spectrum.Model.Periodogram
               Spectrum.Model.LoopIRTie Spectrum.Model.LoopIRVec Spectrum.Proofs.LoopIRLevinson Spectrum.Proofs.LoopIRLevup
               Spectrum.Proofs.LoopIRMinvarPsi.
Import ListNotations.
Local Open Scope string_scope.

(* slots 0=x 1=NFFT 2=detrend 3=sampling 4=scale_by_freq 5=window 6=axis 7=Window(r, window).data 8=numpy.pi 9=fft@tw 10=r 11=w 12=isreal 13=m 14=res 15=df *)
Definition sp_dims : stmt :=
  SIf (ECmp CEq (ENdim (EVar 0)) (EInt 1))
    (SSeq (SAssign 6 (EInt 0)) (SSeq (SAssign 10 (ELen (EVar 0))) (SSeq (SAssign 11 (EVar 7)) (SAssign 11 (EVar 11)))))
    (SIf (ECmp CEq (ENdim (EVar 0)) (EInt 2)) SUnsupported SSkip).
Definition sp_nfft : stmt := SIf (EIsNone (EVar 1)) (SAssign 1 (ELen (EVar 0))) SSkip.
Definition sp_mean : stmt := SIf (EIsBool true (EVar 2)) (SAssign 13 (EMean (EVar 0) (Some (EVar 6)))) (SAssign 13 (EInt 0)).
Definition sp_xw : expr := EBin BSub (EBin BMul (EVar 0) (EVar 11)) (EVar 13).
Definition sp_fft : stmt :=
  SIf (EIsBool true (EVar 12))
    (SIf (ECmp CEq (ENdim (EVar 0)) (EInt 2)) SUnsupported
       (SAssign 14 (EBin BDiv (ENrm2 (ERfft sp_xw (Some (EVar 1)) (EVar 9))) (EVar 10))))
    (SIf (ECmp CEq (ENdim (EVar 0)) (EInt 2)) SUnsupported
       (SAssign 14 (EBin BDiv (ENrm2 (EFft sp_xw (Some (EVar 1)) (EVar 9))) (EVar 10)))).
Definition sp_scale : stmt :=
  SIf (EIsBool true (EVar 4))
    (SSeq (SAssign 15 (EBin BDiv (EVar 3) (EFloat (EVar 1))))
          (SAssign 14 (EBin BMul (EVar 14) (EBin BDiv (EBin BMul (EInt 2) (EVar 8)) (EVar 15)))))
    SSkip.
Definition sp_ret : stmt := SIf (ECmp CEq (ENdim (EVar 0)) (EInt 1)) (SReturn [EVar 14]) (SReturn [EVar 14]).
Definition sp_main : stmt :=
  SSeq (SAssign 0 (ECopy (EVar 0)))
  (SSeq sp_dims
  (SSeq sp_nfft
  (SSeq (SAssign 12 (EIsRealObj (EVar 0)))
  (SSeq sp_mean
  (SSeq sp_fft
  (SSeq sp_scale sp_ret)))))).
Definition prog_speriodogram_ref : program :=
  mkProgram "speriodogram" 10 [None; Some ENone; Some (EBool true); Some (ELit 1 0); Some (EBool true); Some (EStr "hamming"); Some (EInt 0); None; None; None] 16
            sp_main.

(* the domain of the two flags: any Python value of Model.Periodogram.pyval except an integer *)
Definition flag_ok (v : pyval) : Prop := match v with PyInt _ => False | _ => True end.
Definition oflag_ok (v : option pyval) : Prop := match v with Some p => flag_ok p | None => True end.

Section Sp.
Context {F : Type} {OF : Ops F} {L : Laws OF}.
Variable feq : F -> F -> bool.
Variable stop : Z -> F -> F -> bool.
Local Open Scope F_scope.
Local Open Scope list_scope.
Add Field FFirsp : (fth (O:=OF)).
Notation value := (@value F).
Notation store := (@store F).
Notation exec := (@exec F OF feq stop).
Notation eval := (@LoopIR.eval F OF feq).

Definition sst (vx vN vdt vfs vsbf vwin vax vw vpi vtw vr w isr m res df : value) : store :=
  [vx; vN; vdt; vfs; vsbf; vwin; vax; vw; vpi; vtw; vr; w; isr; m; res; df].
Ltac ev := cbn [LoopIR.exec LoopIR.eval get set nth sst bind try asZ asArr asF ok err fst snd arith arithZ fop compare cmpF cmpZ eqne truthy eval_list eval_opt].

Definition vnf (nf : option nat) : value := match nf with Some k => VI (Z.of_nat k) | None => VNone end.
Definition vmean (d : pyval) (x : list F) : value := if py_eq_true d then VF (mean x) else VI 0.
Definition mval (d : pyval) (x : list F) : F := if py_eq_true d then mean x else 0.
Definition xwl (d : pyval) (x w : list F) : list F := mk (length x) (fun i => nthF x i * nthF w i - mval d x).

Lemma flag_is_true (d : pyval) : flag_ok d -> py_eq_true d = py_is_true d.
Proof. destruct d; [reflexivity..|contradiction]. Qed.

(* x * w - m *)
Lemma sp_sub_mk (x w : list F) (m : F) : length w = length x ->
  map (fun a => a - m) (map2 mul x w) = mk (length x) (fun i => nthF x i * nthF w i - m).
Proof.
  intros Hw. pose proof (list_eq_mk x) as Ex. pose proof (list_eq_mk w) as Ew. rewrite Hw in Ew.
  rewrite Ex at 1. rewrite Ew at 1. rewrite map2_mk, map_mk. reflexivity.
Qed.

Lemma sp_xw_eval t (x w : list F) d vN vdt vfs vsbf vwin vax vw vpi vtw vr isr res df : length w = length x ->
  exists tg, eval (sst (VArr t x) vN vdt vfs vsbf vwin vax vw vpi vtw vr (VArr true w) isr (vmean d x) res df) sp_xw = inl (VArr tg (xwl d x w)).
Proof.
  intros Hw. unfold sp_xw, vmean, xwl, mval. ev. rewrite Hw, Nat.eqb_refl.
  destruct (py_eq_true d); ev; eexists; rewrite sp_sub_mk by exact Hw; reflexivity.
Qed.

(* abs((r)fft(x*w - m, NFFT))**2 / r *)
Definition sp_res (tw : nat -> Z -> F) (t : bool) (n : nat) (d : pyval) (x w : list F) : list F :=
  map (fun z => nrm2 z / ofnat (length x)) (spectrum_of (tw n) t n (xwl d x w)).

Lemma sp_fft_ok t (x w : list F) d n vdt vfs vsbf vwin vax vw vpi tw res df : length w = length x ->
  exec sp_fft (sst (VArr t x) (VI (Z.of_nat n)) vdt vfs vsbf vwin vax vw vpi (VTw tw) (VI (Z.of_nat (length x))) (VArr true w) (VB t) (vmean d x) res df)
  = if (n =? 0)%nat
    then (sst (VArr t x) (VI (Z.of_nat n)) vdt vfs vsbf vwin vax vw vpi (VTw tw) (VI (Z.of_nat (length x))) (VArr true w) (VB t) (vmean d x) res df, CErr ValueError)
    else (sst (VArr t x) (VI (Z.of_nat n)) vdt vfs vsbf vwin vax vw vpi (VTw tw) (VI (Z.of_nat (length x))) (VArr true w) (VB t) (vmean d x)
              (VArr true (sp_res tw t n d x w)) df, CNormal).
Proof.
  intros Hw.
  destruct (sp_xw_eval t x w d (VI (Z.of_nat n)) vdt vfs vsbf vwin vax vw vpi (VTw tw) (VI (Z.of_nat (length x))) (VB t) res df Hw) as [tg Hx].
  unfold sp_fft, sp_res, spectrum_of.
  destruct t; ev; cbn [Bool.eqb Z.eqb Pos.eqb]; rewrite Hx; ev; unfold fft_points;
    (destruct n as [|n1]; [reflexivity|]);
    replace (Z.of_nat (S n1) <=? 0)%Z with false by (symmetry; apply Z.leb_gt; lia);
    cbn [bind ok Nat.eqb]; rewrite Nat2Z.id; ev; rewrite !map_map, ofZ_nat; reflexivity.
Qed.

(* res *= 2*pi/df under [scale_by_freq is True] *)
Lemma sp_scale_ok vx n vdt f (s : pyval) vwin vax vw pi vtw vr w isr m (res : list F) df : flag_ok s ->
  exists df',
  exec sp_scale (sst vx (VI (Z.of_nat n)) vdt (VF f) (pyval_value s) vwin vax vw (VF pi) vtw vr w isr m (VArr true res) df)
  = (sst vx (VI (Z.of_nat n)) vdt (VF f) (pyval_value s) vwin vax vw (VF pi) vtw vr w isr m
         (VArr (negb (py_is_true s)) (psd_scale (ofZ 2 * pi) s f n res)) df', CNormal).
Proof.
  intros Hs. unfold sp_scale, psd_scale, sbf_factor.
  destruct s; try contradiction; cbn [pyval_value py_is_true negb].
  - eexists. ev. cbn [Bool.eqb]. ev. rewrite ofZ_nat. reflexivity.
  - eexists. ev. reflexivity.
  - eexists. ev. reflexivity.
  - eexists. ev. reflexivity.
Qed.

Lemma sp_mean_ok t (x : list F) vN (d : pyval) vfs vsbf vwin vw vpi vtw vr w isr m res df : flag_ok d ->
  exec sp_mean (sst (VArr t x) vN (pyval_value d) vfs vsbf vwin (VI 0) vw vpi vtw vr w isr m res df)
  = (sst (VArr t x) vN (pyval_value d) vfs vsbf vwin (VI 0) vw vpi vtw vr w isr (vmean d x) res df, CNormal).
Proof.
  intros Hd. unfold sp_mean, vmean. destruct d; try contradiction; cbn [pyval_value py_eq_true]; ev; reflexivity.
Qed.

Lemma sp_main_ok t (x w : list F) (nf : option nat) (d s : pyval) f pi tw :
  length w = length x -> flag_ok d -> flag_ok s ->
  exists s',
    exec sp_main (sst (VArr t x) (vnf nf) (pyval_value d) (VF f) (pyval_value s) (VStr "hamming") (VI 0) (VArr true w) (VF pi) (VTw tw)
                      VUnbound VUnbound VUnbound VUnbound VUnbound VUnbound)
    = (s', if (resolve nf (length x) =? 0)%nat then CErr ValueError
           else CRet [VArr (negb (py_is_true s)) (speriodogram (tw (resolve nf (length x))) (ofZ 2 * pi) x w nf t d s f)]).
Proof.
  intros Hw Hd Hs. unfold sp_main.
  erewrite exec_seq; [|ev; reflexivity].
  erewrite exec_seq; [|unfold sp_dims; ev; reflexivity].
  set (n := resolve nf (length x)).
  erewrite exec_seq.
  2:{ instantiate (1 := sst (VArr t x) (VI (Z.of_nat n)) (pyval_value d) (VF f) (pyval_value s) (VStr "hamming") (VI 0) (VArr true w) (VF pi) (VTw tw)
                            (VI (Z.of_nat (length x))) (VArr true w) VUnbound VUnbound VUnbound VUnbound).
      unfold sp_nfft, n. destruct nf; ev; reflexivity. }
  erewrite exec_seq; [|ev; reflexivity].
  cbn [set sst].
  erewrite exec_seq by (apply (sp_mean_ok t x _ d); exact Hd).
  pose proof (sp_fft_ok t x w d n (pyval_value d) (VF f) (pyval_value s) (VStr "hamming") (VI 0) (VArr true w) (VF pi) tw VUnbound VUnbound Hw) as HF.
  destruct (n =? 0)%nat.
  { eexists. apply exec_seq_stop; [exact HF|discriminate]. }
  erewrite exec_seq by exact HF. clear HF.
  destruct (sp_scale_ok (VArr t x) n (pyval_value d) f s (VStr "hamming") (VI 0) (VArr true w) pi (VTw tw) (VI (Z.of_nat (length x))) (VArr true w) (VB t)
                        (vmean d x) (sp_res tw t n d x w) VUnbound Hs) as [df' HS].
  erewrite exec_seq by exact HS. clear HS.
  eexists. unfold sp_ret. ev. reflexivity.
Qed.

Lemma bind_args_sp tw pi t (x w : list F) (nf : option nat) (dt sbf : option pyval) (fs : option F) :
  bind_args feq (p_defaults prog_speriodogram_ref) (speriodogram_args tw pi t x w nf dt sbf fs)
  = inl [VArr t x; vnf nf; pyval_value (match dt with Some v => v | None => PyTrue end);
         VF (match fs with Some z => z | None => one_lit end); pyval_value (match sbf with Some v => v | None => PyTrue end);
         VStr "hamming"; VI 0; VArr true w; VF pi; VTw tw].
Proof. destruct nf, dt, sbf, fs; reflexivity. Qed.

Theorem speriodogram_ir_run tw pi (t : bool) (x w : list F) (nf : option nat) (dt sbf : option pyval) (fs : option F) :
  length w = length x -> oflag_ok dt -> oflag_ok sbf ->
  run feq stop prog_speriodogram_ref (speriodogram_args tw pi t x w nf dt sbf fs) = speriodogram_spec tw pi t x w nf dt sbf fs.
Proof.
  intros Hw Hd Hs. unfold run. rewrite bind_args_sp.
  destruct (sp_main_ok t x w nf (match dt with Some v => v | None => PyTrue end) (match sbf with Some v => v | None => PyTrue end)
                       (match fs with Some z => z | None => one_lit end) pi tw Hw
                       ltac:(destruct dt; [exact Hd|exact Logic.I]) ltac:(destruct sbf; [exact Hs|exact Logic.I])) as [s' E].
  cbn [p_body p_nslots p_nparams prog_speriodogram_ref Nat.sub app repeat]. unfold sst in E. rewrite E. clear E.
  unfold speriodogram_spec. destruct (resolve nf (length x) =? 0)%nat; reflexivity.
Qed.
End Sp.

Section SpTie.
Context {F : Type} {OF : Ops F} {L : Laws OF}.
Variable feq : F -> F -> bool.
Hypothesis feq_refl : forall a, feq a a = true.

Lemma leq_refl_sp (l : list F) : leq feq l l = true.
Proof.
  unfold leq. rewrite Nat.eqb_refl. cbn [andb]. induction l as [|a l IH]; [reflexivity|].
  cbn [combine forallb fst snd]. rewrite feq_refl, IH. reflexivity.
Qed.

Theorem speriodogram_ir_tie tw pi (t : bool) (x w : list F) (nf : option nat) (dt sbf : option pyval) (fs : option F) :
  length w = length x -> oflag_ok dt -> oflag_ok sbf ->
  tie_speriodogram feq tw pi prog_speriodogram_ref t x w nf dt sbf fs = true.
Proof.
  intros Hw Hd Hs. unfold tie_speriodogram. rewrite (speriodogram_ir_run feq (@nostop F)) by assumption.
  unfold speriodogram_spec. destruct (resolve nf (length x) =? 0)%nat; [reflexivity|].
  cbn [out_eq vals_eq val_eq]. rewrite Bool.eqb_reflx, leq_refl_sp. reflexivity.
Qed.
End SpTie.

(* BEGIN GENERATED speriodogram (verbatim output of tools/props/_loopir.py for spectrum.periodogram.speriodogram, 1-D path) *)
(* speriodogram: slots 0=x 1=NFFT 2=detrend 3=sampling 4=scale_by_freq 5=window 6=axis 7=Window(r, window).data@0 8=numpy.pi@1 9=fft@tw 10=r 11=w 12=isreal 13=m 14=res 15=df *)
Definition prog_speriodogram_gen0 : program := mkProgram "speriodogram" 10 [None; (Some ENone); (Some (EBool true)); (Some (ELit 1 0)); (Some (EBool true)); (Some (EStr "hamming")); (Some (EInt 0)); None; None; None] 16
(SSeq (SAssign 0 (ECopy (EVar 0)))
(SSeq (SIf (ECmp CEq (ENdim (EVar 0)) (EInt 1))
(SSeq (SAssign 6 (EInt 0))
(SSeq (SAssign 10 (ELen (EVar 0)))
(SSeq (SAssign 11 (EVar 7))
(SAssign 11 (EVar 11)))))
(SIf (ECmp CEq (ENdim (EVar 0)) (EInt 2))
(SUnsupported)
(SSkip)))
(SSeq (SIf (EIsNone (EVar 1))
(SAssign 1 (ELen (EVar 0)))
(SSkip))
(SSeq (SAssign 12 (EIsRealObj (EVar 0)))
(SSeq (SIf (EIsBool true (EVar 2))
(SAssign 13 (EMean (EVar 0) (Some (EVar 6))))
(SAssign 13 (EInt 0)))
(SSeq (SIf (EIsBool true (EVar 12))
(SIf (ECmp CEq (ENdim (EVar 0)) (EInt 2))
(SUnsupported)
(SAssign 14 (EBin BDiv (ENrm2 (ERfft (EBin BSub (EBin BMul (EVar 0) (EVar 11)) (EVar 13)) (Some (EVar 1)) (EVar 9))) (EVar 10))))
(SIf (ECmp CEq (ENdim (EVar 0)) (EInt 2))
(SUnsupported)
(SAssign 14 (EBin BDiv (ENrm2 (EFft (EBin BSub (EBin BMul (EVar 0) (EVar 11)) (EVar 13)) (Some (EVar 1)) (EVar 9))) (EVar 10)))))
(SSeq (SIf (EIsBool true (EVar 4))
(SSeq (SAssign 15 (EBin BDiv (EVar 3) (EFloat (EVar 1))))
(SAssign 14 (EBin BMul (EVar 14) (EBin BDiv (EBin BMul (EInt 2) (EVar 8)) (EVar 15)))))
(SSkip))
(SIf (ECmp CEq (ENdim (EVar 0)) (EInt 1))
(SReturn [(EVar 14)])
(SReturn [(EVar 14)]))))))))).

(* END GENERATED speriodogram *)
Example prog_speriodogram_ref_is_generated : prog_speriodogram_ref = prog_speriodogram_gen0.
Proof. reflexivity. Qed.

Print Assumptions speriodogram_ir_run.
Print Assumptions speriodogram_ir_tie.
