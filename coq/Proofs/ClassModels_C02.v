(* C02 — the hand-written class models agree with the pipeline interpreter on the stores the GENERATED table gives the classes
   (generated theorem store_rows):  Eigen.class_psd (pmusic / pev, C17) and Mtm.mt_fold (MultiTapering, C19) are [do_store] at
   SHalf HalfPlus1 HalfUp 2 true / SCenter2Two  resp.  SHalf HalfPlus1 HalfUp 2 false / SAsIs.
   So the class-level theorems of C17 / C19 and the table-level theorems of C02 / C08 speak about the same stored array. *)
From Coq Require Import String Lia.
Require Import Spectrum.Theory.Ops Spectrum.Theory.Sum Spectrum.Theory.Vec Spectrum.Theory.Dft
               Spectrum.Model.PipelineLib Spectrum.Proofs.PipelineTheory Spectrum.Model.Eigen Spectrum.Proofs.EigenAxis Spectrum.Model.Mtm.

Section ClassModels.
Context {F : Type} {OF : Ops F} {L : Laws OF}.
Local Open Scope F_scope.
Add Field FFcm : (fth (O:=OF)).

Lemma times_two (l : list F) : map (fun a => a * two) l = vscale (ofnat 2) l.
Proof. unfold vscale. apply map_ext. intros a. cbn [ofnat]. unfold two. ring. Qed.

Theorem eigen_class_is_store (isr : bool) NFFT (psd : list F) :
  class_psd isr NFFT None psd = do_store (if isr then SHalf HalfPlus1 HalfUp 2 true else SCenter2Two) NFFT psd.
Proof.
  unfold class_psd. destruct isr; cbn [do_store hi_eval].
  - rewrite times_two. reflexivity.
  - apply list_eq_nth.
    + rewrite ifftshift_length. unfold PipelineLib.ifftshift. rewrite mk_length. reflexivity.
    + intros j Hj. rewrite ifftshift_length in Hj. rewrite nth_ifftshift by exact Hj.
      unfold PipelineLib.ifftshift. cbv zeta. rewrite nth_mk by exact Hj.
      destruct (j <? length psd - length psd / 2)%nat; [f_equal; lia|reflexivity].
Qed.

Theorem mtm_fold_is_store (isr : bool) n (S : list F) :
  mt_fold isr n S = do_store (if isr then SHalf HalfPlus1 HalfUp 2 false else SAsIs) n S.
Proof.
  unfold mt_fold, mt_keep. destruct isr; cbn [do_store hi_eval]; [apply times_two|reflexivity].
Qed.
End ClassModels.
