(* The converse of levinson_pd (Proofs/YulePD.v): positive stage errors force positive definiteness.
   LDL^H reading of the recursion with the BACKWARD predictor b_m (reversed conjugate of the forward one,
   T_m b_m = P_m e_last): for c = (c', g) write c = (c' - g b', 0) + g (b', 1); then
       c^H T_m c = c''^H T_(m-1) c'' + |g|^2 P_m
   (tform_split) — by induction on the order a sum of a positive-definite form and nrm2 g * P_m.
     chain_pd                     every order m <= p has a monic solution of its normal equations with error
                                  P_m > 0   =>   the Hermitian Toeplitz form of order p is positive definite
     levinson_pd_converse_thm     LEVINSON returned (a, P, k) and every stage error r0 * prod_(i<q)(1-|k_i|^2),
                                  q = 0..p, is positive  =>  PD r p
     levinson_pd_iff_thm          ... <=> PD r p
     levinson_returns_iff_pd_thm  r0 > 0:  LEVINSON(r, p) with allow_singularity=False returns  <=>  PD r p
     levinson_not_pd_raises_thm   r0 > 0 and r not positive definite  =>  "singular matrix" is raised
     levinson_allow_returns_thm   allow_singularity=True: the recursion returns for every r and every admissible order
   Abstract ordered *-field, axiom-free. *)
Require Import Spectrum.Theory.Ops Spectrum.Theory.Sum Spectrum.Theory.Vec Spectrum.Theory.Order
               Spectrum.Model.Levinson Spectrum.Proofs.LevinsonTheory Spectrum.Proofs.HermtoepTheory Spectrum.Proofs.YulePD.

Section Conv.
Context {F : Type} {OF : Ops F} {L : Laws OF} {OL : OrdLaws OF}.
Local Open Scope F_scope.
Add Field FFpc : (fth (O:=OF)).

Lemma all_zero_dec (n : nat) (f : nat -> F) :
  (forall i, (i <= n)%nat -> f i = 0) \/ (exists i, (i <= n)%nat /\ f i <> 0).
Proof.
  induction n as [|n IH].
  - destruct (eq0_dec (f O)) as [E|E].
    + left. intros i Hi. replace i with O by lia. exact E.
    + right. exists O. split; [lia|exact E].
  - destruct IH as [Hz|(i & Hi & Hne)].
    + destruct (eq0_dec (f (S n))) as [E|E].
      * left. intros i Hi. destruct (Nat.eq_dec i (S n)) as [->|Hne]; [exact E|apply Hz; lia].
      * right. exists (S n). split; [lia|exact E].
    + right. exists i. split; [lia|exact Hne].
Qed.

Section Fixed_r.
Variable r : list F.
Hypothesis r0_real : isreal (nthF r O).

(* the backward predictor of order p *)
Definition bwd (p : nat) (a : nat -> F) : nat -> F := fun j => conj (a (p - j)%nat).

(* u^H T_p b = conj(u_p) P : every vector whose last entry vanishes is orthogonal to b *)
Lemma herm_backward p a P u : Inv r p a P -> herm r p u (bwd p a) = conj (u p) * P.
Proof.
  intros HI. rewrite (herm_row r).
  rewrite (sumf_ext (S p) _ (fun i => conj (u i) * (if (i =? p)%nat then P else 0))).
  2:{ intros i Hi. f_equal. unfold row, bwd. apply (backward_row r r0_real p a P i HI). lia. }
  rewrite sumf_S. rewrite Nat.eqb_refl.
  rewrite sumf_zero_ext. { ring. }
  intros i Hi. destruct (Nat.eqb_spec i p); [lia|ring].
Qed.

Lemma tform_real p c : conj (tform r p c) = tform r p c.
Proof. unfold tform. symmetry. apply (herm_sym r r0_real). Qed.

(* one step of the LDL^H decomposition *)
Lemma tform_split p a P c : Inv r (S p) a P ->
  tform r (S p) c = tform r p (fun j => c j - c (S p) * bwd (S p) a j) + nrm2 (c (S p)) * P.
Proof.
  intros HI. set (g := c (S p)). set (b := bwd (S p) a). set (c2 := fun j => c j - g * b j).
  assert (HPr : conj P = P) by apply HI.
  assert (Hb1 : b (S p) = 1).
  { unfold b, bwd. rewrite Nat.sub_diag. destruct HI as (Ha & _). rewrite Ha. apply conj_1. }
  assert (Hc2 : c2 (S p) = 0). { unfold c2. fold g. rewrite Hb1. ring. }
  assert (E1 : herm r (S p) c2 c2 = herm r (S p) c2 c).
  { unfold c2 at 2. rewrite (herm_lin_r r). fold b. unfold b. rewrite (herm_backward (S p) a P c2 HI).
    rewrite Hc2, conj_0. ring. }
  assert (E2 : herm r (S p) c c2 = herm r (S p) c c - g * (conj g * P)).
  { unfold c2. rewrite (herm_lin_r r). fold b. unfold b. rewrite (herm_backward (S p) a P c HI). reflexivity. }
  assert (E3 : herm r (S p) c2 c2 = herm r (S p) c c - nrm2 g * P).
  { rewrite E1, (herm_sym r r0_real), E2. rewrite conj_sub, !conj_mul, conj_conj, HPr.
    change (herm r (S p) c c) with (tform r (S p) c). rewrite tform_real. unfold nrm2. ring. }
  assert (E4 : herm r (S p) c2 c2 = tform r p c2).
  { unfold tform. rewrite <- (herm_pad r p (S p) c2 c2) by lia.
    apply (herm_ext r); intros i Hi; unfold padf; destruct (Nat.leb_spec i p) as [Hle|Hgt]; try reflexivity;
      replace i with (S p) by lia; exact Hc2. }
  fold g. fold b. fold c2. rewrite <- E4, E3. unfold tform. ring.
Qed.

(* every order m <= p has a monic solution of the normal equations with positive error *)
Definition PosChain (p : nat) : Prop := forall m, (m <= p)%nat -> exists a P, Inv r m a P /\ pos P.

Theorem chain_pd p : PosChain p -> PD r p.
Proof.
  induction p as [|p IH]; intros HC c (i & Hi & Hci).
  - destruct (HC O (Nat.le_refl _)) as (a & P & (Ha & _ & Hrow & _) & HP).
    replace i with O in Hci by lia.
    assert (E : tform r O c = nrm2 (c O) * P).
    { unfold tform, herm. cbn [sumf]. rewrite <- Hrow. unfold row. cbn [sumf]. rewrite Ha. unfold nrm2. ring. }
    rewrite E. apply pos_mul; [|exact HP]. split; [apply nn_nrm2|apply nrm2_neq_0; exact Hci].
  - assert (HCp : PosChain p) by (intros m Hm; apply HC; lia).
    pose proof (IH HCp) as HPD.
    destruct (HC (S p) (Nat.le_refl _)) as (a & P & HI & HP).
    rewrite (tform_split p a P c HI).
    set (g := c (S p)). set (c2 := fun j => c j - g * bwd (S p) a j).
    destruct (eq0_dec g) as [Hg|Hg].
    + (* last entry zero: the non-zero entry is among the first p+1 *)
      assert (Hi' : (i <= p)%nat).
      { destruct (Nat.eq_dec i (S p)) as [->|Hne]; [exfalso; apply Hci; exact Hg|lia]. }
      apply (pos_eq (tform r p c2)); [rewrite Hg; unfold nrm2; ring|].
      apply HPD. exists i. split; [exact Hi'|]. unfold c2. rewrite Hg.
      intros E. apply Hci. rewrite <- E. ring.
    + assert (Hgp : pos (nrm2 g * P)).
      { apply pos_mul; [|exact HP]. split; [apply nn_nrm2|apply nrm2_neq_0; exact Hg]. }
      destruct (all_zero_dec p c2) as [Hz|Hnz].
      * apply (pos_eq (nrm2 g * P)); [|exact Hgp].
        assert (E0 : tform r p c2 = 0).
        { unfold tform, herm. apply sumf_zero_ext; intros i0 Hi0. apply sumf_zero_ext; intros j Hj.
          rewrite (Hz j) by lia. ring. }
        rewrite E0. ring.
      * apply (pos_eq (nrm2 g * P + tform r p c2)); [ring|].
        apply pos_add_nonneg; [exact Hgp|]. apply HPD. exact Hnz.
Qed.

(* ---------- the executable recursion, any value of allow_singularity ---------- *)
Lemma lev_step_inv_any allow m A P ks A' P' ks' :
  length A = m -> Inv r m (afun A) P -> P <> 0 ->
  lev_step (tl r) allow (A, P, ks) m = Some (A', P', ks') ->
  length A' = S m /\ Inv r (S m) (afun A') P'.
Proof.
  intros HA HI HP0 Hs. unfold lev_step in Hs.
  set (k := - lev_delta (tl r) A m / P) in *.
  destruct (le0 (P * (1 - k * conj k)) && negb allow); [discriminate|].
  injection Hs as <- <- _.
  assert (Hk : k * P = - row r m (afun A) (S m)).
  { unfold k. rewrite (delta_is_row r) by exact HA. field. exact HP0. }
  pose proof (levinson_step r r0_real m (afun A) P k HI Hk) as (Ha & Hc & Hr & Hz).
  split; [rewrite stepup_length; lia|].
  unfold Inv. split; [reflexivity|]. split; [exact Hc|]. split.
  - rewrite <- Hr. apply row_ext. intros j Hj. apply afun_stepup; [exact HA|lia].
  - intros i Hi. rewrite <- (Hz i Hi). apply row_ext. intros j Hj. apply afun_stepup; [exact HA|lia].
Qed.

Lemma lev_iter_P allow P0 m A P ks : lev_iter (tl r) allow P0 m = Some (A, P, ks) -> P = P0 * prodk ks.
Proof.
  revert A P ks. induction m as [|m IH]; intros A P ks H.
  - cbn in H. injection H as _ <- <-. cbn. ring.
  - cbn [lev_iter] in H. destruct (lev_iter (tl r) allow P0 m) as [[[A0 P1] ks0]|] eqn:E; [|discriminate].
    pose proof (IH _ _ _ eq_refl) as HP1. unfold lev_step in H.
    destruct (le0 _ && negb allow); [discriminate|]. injection H as _ <- <-.
    rewrite prodk_app, HP1. ring.
Qed.

Lemma lev_iter_chain allow p :
  (forall m, (m <= p)%nat -> exists A P ks, lev_iter (tl r) allow (nthF r O) m = Some (A, P, ks) /\ pos P) ->
  forall m, (m <= p)%nat -> exists A P ks, lev_iter (tl r) allow (nthF r O) m = Some (A, P, ks) /\ pos P
                                          /\ length A = m /\ Inv r m (afun A) P.
Proof.
  intros Hrun. induction m as [|m IH]; intros Hm.
  - destruct (Hrun O Hm) as (A & P & ks & E & HP). exists A, P, ks. split; [exact E|]. split; [exact HP|].
    cbn in E. injection E as <- <- <-. split; [reflexivity|].
    unfold Inv. split; [reflexivity|]. split; [exact r0_real|]. split; [|intros; lia].
    unfold row. cbn. unfold rr, rz. cbn. ring.
  - destruct (IH ltac:(lia)) as (A & P & ks & E & HP & HA & HI).
    destruct (Hrun (S m) Hm) as (A' & P' & ks' & E' & HP').
    exists A', P', ks'. split; [exact E'|]. split; [exact HP'|].
    cbn [lev_iter] in E'. rewrite E in E'.
    apply (lev_step_inv_any allow m A P ks A' P' ks' HA HI (proj2 HP) E').
Qed.
End Fixed_r.

(* ---------- statements about the executable [levinson] ---------- *)
Lemma levinson_is_iter (r : list F) q allow : isreal (nthF r O) -> (q <= length r - 1)%nat ->
  levinson r q allow = lev_iter (tl r) allow (nthF r O) q.
Proof.
  intros Hr Hq. unfold levinson. destruct (Nat.leb_spec q (length r - 1)); [|lia]. rewrite (re_real _ Hr). reflexivity.
Qed.

(* the stage errors of a returned run are r0 * prod_{i<q} (1-|k_i|^2) *)
Lemma levinson_stage_error (r : list F) p q allow a P k : isreal (nthF r O) -> (q <= p)%nat ->
  levinson r p allow = Some (a, P, k) ->
  exists a', levinson r q allow = Some (a', nthF r O * prodk (firstn q k), firstn q k).
Proof.
  intros Hr Hq H.
  assert (Hp : (p <= length r - 1)%nat).
  { unfold levinson in H. destruct (Nat.leb_spec p (length r - 1)); [assumption|discriminate]. }
  rewrite (levinson_is_iter r p allow Hr Hp) in H. rewrite (levinson_is_iter r q allow Hr ltac:(lia)).
  destruct (lev_iter_prefix r _ _ p q _ Hq H) as [[[a' P'] k'] H'].
  pose proof (lev_iter_nested r _ _ p q _ _ _ _ _ _ Hq H H') as Hk. subst k'.
  pose proof (lev_iter_P r allow _ q _ _ _ H') as HP'. subst P'.
  exists a'. exact H'.
Qed.

Theorem levinson_pd_converse_thm (r : list F) (p : nat) (allow : bool) a P k :
  isreal (nthF r O) ->
  levinson r p allow = Some (a, P, k) ->
  (forall q, (q <= p)%nat -> pos (nthF r O * prodk (firstn q k))) ->
  PD r p.
Proof.
  intros Hr H Hpos.
  assert (Hp : (p <= length r - 1)%nat).
  { unfold levinson in H. destruct (Nat.leb_spec p (length r - 1)); [assumption|discriminate]. }
  apply (chain_pd r Hr p). intros m Hm.
  destruct (lev_iter_chain r Hr allow p) with (m := m) as (A & Pm & ks & E & HPm & HA & HI); [|exact Hm|].
  - intros q Hq. destruct (levinson_stage_error r p q allow a P k Hr Hq H) as (a' & E').
    rewrite (levinson_is_iter r q allow Hr ltac:(lia)) in E'.
    exists a', (nthF r O * prodk (firstn q k)), (firstn q k). split; [exact E'|apply Hpos; exact Hq].
  - exists (afun A), Pm. split; assumption.
Qed.

(* LEVINSON returns with every stage error > 0  <=>  r is positive definite (order p) *)
Theorem levinson_pd_iff_thm (r : list F) (p : nat) (allow : bool) :
  isreal (nthF r O) -> (p <= length r - 1)%nat ->
  ((exists a P k, levinson r p allow = Some (a, P, k)
                  /\ forall q, (q <= p)%nat -> pos (nthF r O * prodk (firstn q k)))
   <-> PD r p).
Proof.
  intros Hr Hp. split.
  - intros (a & P & k & H & Hpos). exact (levinson_pd_converse_thm r p allow a P k Hr H Hpos).
  - intros HPD.
    destruct (levinson_pd_thm r p allow Hr Hp HPD) as (a & P & k & E & _ & _ & _ & _ & _ & _ & _ & _ & Hq & _).
    exists a, P, k. split; [exact E|]. intros q Hq'.
    destruct (Hq q Hq') as (a' & P' & E' & HP').
    destruct (levinson_stage_error r p q allow a P k Hr Hq' E) as (a'' & E'').
    rewrite E' in E''. injection E'' as _ HPe. rewrite <- HPe. exact HP'.
Qed.

Lemma prodk_conj (ks : list F) : conj (prodk ks) = prodk ks.
Proof. induction ks as [|x l IH]; cbn [prodk]; [apply conj_1|]. rewrite conj_mul, IH, (conj_1mkk x). reflexivity. Qed.

(* with allow_singularity=False the code's own sign tests make every stage error positive *)
Lemma levinson_false_stage_pos (r : list F) (p : nat) a P k :
  isreal (nthF r O) -> pos (nthF r O) -> levinson r p false = Some (a, P, k) ->
  forall q, (q <= p)%nat -> pos (nthF r O * prodk (firstn q k)).
Proof.
  intros Hr H0 H q Hq. destruct q as [|q].
  - cbn [firstn prodk]. apply (pos_eq (nthF r O)); [ring|exact H0].
  - destruct (levinson_stage_error r p q false a P k Hr ltac:(lia) H) as (a1 & E1).
    destruct (levinson_stage_error r p (S q) false a P k Hr Hq H) as (a2 & E2).
    pose proof (levinson_no_raise_thm r q _ _ _ _ _ _ E1 E2) as Hle.
    apply le0_false_pos; [|exact Hle].
    rewrite conj_mul, Hr, prodk_conj. reflexivity.
Qed.

Theorem levinson_returns_iff_pd_thm (r : list F) (p : nat) :
  isreal (nthF r O) -> (p <= length r - 1)%nat -> pos (nthF r O) ->
  ((exists a P k, levinson r p false = Some (a, P, k)) <-> PD r p).
Proof.
  intros Hr Hp H0. split.
  - intros (a & P & k & H).
    exact (levinson_pd_converse_thm r p false a P k Hr H (levinson_false_stage_pos r p a P k Hr H0 H)).
  - intros HPD. destruct (levinson_pd_thm r p false Hr Hp HPD) as (a & P & k & E & _). exists a, P, k. exact E.
Qed.

(* the property's clause "for a non-positive-definite r it raises unless singularity is allowed" *)
Theorem levinson_not_pd_raises_thm (r : list F) (p : nat) :
  isreal (nthF r O) -> (p <= length r - 1)%nat -> pos (nthF r O) ->
  ~ PD r p -> levinson r p false = None.
Proof.
  intros Hr Hp H0 HN. destruct (levinson r p false) as [[[a P] k]|] eqn:E; [|reflexivity].
  exfalso. apply HN. apply (levinson_returns_iff_pd_thm r p Hr Hp H0). exists a, P, k. exact E.
Qed.

(* ... "unless singularity is allowed": with allow_singularity=True the only failure is the order assertion *)
Lemma lev_iter_allow (T : list F) P0 m : exists st, lev_iter T true P0 m = Some st.
Proof.
  induction m as [|m [st IH]]; [eexists; reflexivity|].
  cbn [lev_iter]. rewrite IH. destruct st as [[A P] ks]. unfold lev_step. cbn [negb]. rewrite Bool.andb_false_r. eexists; reflexivity.
Qed.
Theorem levinson_allow_returns_thm (r : list F) (p : nat) : (p <= length r - 1)%nat ->
  exists a P k, levinson r p true = Some (a, P, k).
Proof.
  intros Hp. unfold levinson. destruct (Nat.leb_spec p (length r - 1)); [|lia].
  destruct (lev_iter_allow (tl r) (re (nthF r O)) p) as [[[a P] k] E]. exists a, P, k. exact E.
Qed.
End Conv.
