(* C04 — class level: the stored PSD of a class (PipelineLib.stored: functional estimator -> store -> scale() calls)
   commutes with rotation / mirror of the two-sided spectrum for complex data, and for real data the stored one-sided
   PSD of a "slice and double" class is twice the first bins of the stored two-sided PSD of the same spectrum.
   The per-class spectra S (what the functional estimator computes at sampling 1) are the compositions
   aryule -> arma2psd, arburg -> arma2psd, minvar, pmtm of the merged models. *)
From Coq Require Import String.
Require Import Spectrum.Theory.Ops Spectrum.Theory.Sum Spectrum.Theory.Vec Spectrum.Theory.Dft
               Spectrum.Model.Levinson Spectrum.Model.Corr Spectrum.Model.Burg Spectrum.Model.Yule Spectrum.Model.Arma2psd
               Spectrum.Model.Minvar Spectrum.Model.PipelineLib
               Spectrum.Proofs.PipelineTheory Spectrum.Proofs.ShiftTheory Spectrum.Proofs.Arma2psdTheory
               Spectrum.Proofs.ShiftDft_C04 Spectrum.Proofs.ShiftPeriodogram_C04 Spectrum.Proofs.ShiftArma_C04
               Spectrum.Proofs.ShiftBurg_C04 Spectrum.Proofs.ShiftMinvar_C04.

Section PipeShift.
Context {F : Type} {OF : Ops F} {L : Laws OF}.
Local Open Scope F_scope.
Add Field FFspl : (fth (O:=OF)).
Variable twopi : F.

Lemma stored_cplx_rot m p sbf (s : sstate) (Sp : list F) (mm : Z) : p_cplx p = SAsIs ->
  stored twopi m p false sbf s (rot mm Sp) = rot mm (stored twopi m p false sbf s Sp).
Proof.
  intros Hc. rewrite !stored_coef. unfold layout. rewrite Hc. cbn [do_store]. rewrite rot_length. symmetry. apply rot_vscale.
Qed.
Lemma stored_cplx_mirror m p sbf (s : sstate) (Sp : list F) : p_cplx p = SAsIs ->
  stored twopi m p false sbf s (mirror Sp) = mirror (stored twopi m p false sbf s Sp).
Proof.
  intros Hc. rewrite !stored_coef. unfold layout. rewrite Hc. cbn [do_store]. rewrite mirror_length. symmetry. apply mirror_vscale.
Qed.

(* number of one-sided bins the classes keep *)
Definition onesided_len (NFFT : nat) : nat := if Nat.even NFFT then (NFFT / 2 + 1)%nat else ((NFFT + 1) / 2)%nat.

Lemma stored_half m p sbf (s : sstate) (Sp : list F) :
  p_real p = SHalf HalfPlus1 HalfUp 2 false -> p_cplx p = SAsIs -> p_scale_real p = p_scale_cplx p ->
  st_range_N s = st_NFFT s -> length Sp = st_NFFT s ->
  stored twopi m p true sbf s Sp
  = vscale (ofnat 2) (firstn (onesided_len (st_NFFT s)) (stored twopi m p false sbf s Sp)).
Proof.
  intros Hr Hc Hs HN Hl. unfold stored. rewrite Hr, Hc, Hs. cbn [do_store].
  assert (El : length (fresult twopi p sbf (st_sampling s) (st_NFFT s) Sp) = st_range_N s).
  { rewrite fresult_coef, vscale_length, Hl, HN. reflexivity. }
  rewrite El. replace (if m_psdset_cplx_nfft_len m then st_range_N s else st_range_N s) with (st_range_N s) by (destruct (m_psdset_cplx_nfft_len m); reflexivity).
  rewrite !run_scales_coef, vscale_firstn, !vscale_vscale.
  unfold onesided_len, hi_eval. destruct (Nat.even (st_NFFT s)); apply vscale_ext; ring.
Qed.

(* ---------------- the spectra S of the composed classes (complex data, sampling 1) ---------------- *)
Definition pyule_S (tw : Z -> F) (x : list F) (order : nat) (nm : cnorm) (n : nat) : option (list F) :=
  match aryule x order nm true with
  | inr (a, rho, _) => arma2psd tw (Some a) None rho 1 n SidesDefault false
  | inl _ => None
  end.
Definition pburg_S (tw : Z -> F) (x : list F) (order : nat) (stop : nat -> F -> F -> bool) (n : nat) : option (list F) :=
  match arburg x order stop with
  | Some (a, rho, _) => arma2psd tw (Some a) None rho 1 n SidesDefault false
  | None => None
  end.
Definition pminvar_S (tw : Z -> F) (x : list F) (order : nat) (n : nat) : option (list F) :=
  option_map (fun r => fst (fst r)) (minvar tw x order 1 n).

Section Grid.
Context (n : nat) (tw : Z -> F) {Tw : Twiddle n tw} (n_pos : (0 < n)%nat).

Theorem pyule_S_shift (x : list F) order nm (m : Z) :
  pyule_S tw (vmod (sphase tw m) 0 x) order nm n = option_map (rot m) (pyule_S tw x order nm n).
Proof.
  unfold pyule_S.
  rewrite (aryule_modulation_thm (sphase tw m) (sphase_add n tw n_pos m) (sphase_0 n tw m) (sphase_cj n tw n_pos m)).
  destruct (aryule x order nm true) as [e|[[a rho] k]]; [reflexivity|]. cbn [map_yw modst].
  apply (arma2psd_rotation_thm n tw n_pos m (Some a) None rho 1 SidesDefault).
Qed.
Theorem pyule_S_mirror (x : list F) order nm : (forall k, (1 <= k)%nat -> ofnat k <> 0) ->
  (forall r q A P ks, acorr x order nm = Some r -> (q < length r - 1)%nat -> levinson r q true = Some (A, P, ks) -> P <> 0) ->
  pyule_S tw (vconj x) order nm n = option_map mirror (pyule_S tw x order nm n).
Proof.
  intros Hch Hok. unfold pyule_S. rewrite aryule_conj_thm by assumption.
  destruct (aryule x order nm true) as [e|[[a rho] k]]; [reflexivity|]. cbn [map_yw conjst].
  apply (arma2psd_mirror_thm n tw n_pos (Some a) None rho 1).
Qed.
Theorem pyule_S_reversal (x : list F) order nm : pyule_S tw (vrevconj x) order nm n = pyule_S tw x order nm n.
Proof. unfold pyule_S. rewrite aryule_time_reversal_thm. reflexivity. Qed.

Theorem pburg_S_shift (x : list F) order stop (m : Z) :
  pburg_S tw (vmod (sphase tw m) 0 x) order stop n = option_map (rot m) (pburg_S tw x order stop n).
Proof.
  unfold pburg_S.
  rewrite (arburg_modulation_thm (sphase tw m) (sphase_add n tw n_pos m) (sphase_0 n tw m) (sphase_cj n tw n_pos m)).
  destruct (arburg x order stop) as [[[a rho] k]|]; [|reflexivity]. cbn [option_map modst].
  apply (arma2psd_rotation_thm n tw n_pos m (Some a) None rho 1 SidesDefault).
Qed.
Theorem pburg_S_mirror (x : list F) order stop : ofnat (length x) <> 0 ->
  (forall q st, (q < order)%nat -> burg_iter stop x q = BCont st -> burg_den (length x) st q <> 0) ->
  pburg_S tw (vconj x) order stop n = option_map mirror (pburg_S tw x order stop n).
Proof.
  intros HN Hok. unfold pburg_S. rewrite arburg_conj_thm by assumption.
  destruct (arburg x order stop) as [[[a rho] k]|]; [|reflexivity]. cbn [option_map conjst].
  apply (arma2psd_mirror_thm n tw n_pos (Some a) None rho 1).
Qed.
Theorem pburg_S_reversal (x : list F) order stop : pburg_S tw (vrevconj x) order stop n = pburg_S tw x order stop n.
Proof. unfold pburg_S. rewrite arburg_time_reversal_thm. reflexivity. Qed.

Theorem pminvar_S_shift (x : list F) order (m : Z) :
  pminvar_S tw (vmod (sphase tw m) 0 x) order n = option_map (rot m) (pminvar_S tw x order n).
Proof.
  unfold pminvar_S. rewrite (minvar_shift_thm n tw n_pos).
  destruct (minvar tw x order 1 n) as [[[psd A] k]|]; reflexivity.
Qed.
Theorem pminvar_S_mirror (x : list F) order : ofnat (length x) <> 0 ->
  (forall q st, (q < order - 1)%nat -> burg_iter no_stop x q = BCont st -> burg_den (length x) st q <> 0) ->
  pminvar_S tw (vconj x) order n = option_map mirror (pminvar_S tw x order n).
Proof.
  intros HN Hok. unfold pminvar_S. rewrite (minvar_mirror_thm n tw n_pos) by assumption.
  destruct (minvar tw x order 1 n) as [[[psd A] k]|]; reflexivity.
Qed.
Theorem pminvar_S_reversal (x : list F) order : pminvar_S tw (vrevconj x) order n = pminvar_S tw x order n.
Proof. unfold pminvar_S. rewrite minvar_time_reversal_thm. reflexivity. Qed.
End Grid.

(* what the class stores for complex data, given the spectrum of its functional estimator *)
Definition class_psd m p sbf (s : sstate) (S : option (list F)) : option (list F) :=
  option_map (stored twopi m p false sbf s) S.
Lemma class_psd_rot m p sbf s S S' (mm : Z) : p_cplx p = SAsIs -> S' = option_map (rot mm) S ->
  class_psd m p sbf s S' = option_map (rot mm) (class_psd m p sbf s S).
Proof. intros Hc ->. destruct S; [|reflexivity]. cbn. f_equal. apply stored_cplx_rot. exact Hc. Qed.
Lemma class_psd_mirror m p sbf s S S' : p_cplx p = SAsIs -> S' = option_map mirror S ->
  class_psd m p sbf s S' = option_map mirror (class_psd m p sbf s S).
Proof. intros Hc ->. destruct S; [|reflexivity]. cbn. f_equal. apply stored_cplx_mirror. exact Hc. Qed.
End PipeShift.
