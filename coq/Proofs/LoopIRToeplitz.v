(* TOEPLITZ: the IR program generated from toeplitz.py computes the hand-written model, for ALL inputs of its domain.

   [prog_TOEPLITZ_ref] is the loop-IR program that tools/props/_loopir.py generates from the source of
   spectrum.toeplitz.TOEPLITZ at the commit this file was written for (kept verbatim below, between the BEGIN/END
   markers, as [prog_TOEPLITZ_gen0]; the two are equal by reflexivity).  The check regenerates the program on every run
   and instantiates the theorems below only when the text is identical.

   PROVED (abstract field with conjugation [Laws]; any T0, any arrays TC, TR, Z with any dtype tags):
     toeplitz_ir_run   run prog_TOEPLITZ_ref [T0; TC; TR; Z] =
                         TC = []  or  len(TC) <> len(TR)          -> AssertionError   (the two asserts)
                         feq T0 0 = true                          -> ValueError       (P == 0, tested twice by the code)
                         otherwise, for len(Z) >= len(TC) + 1:
                            Model.Levinson.toeplitz T0 TC TR Z = None -> ValueError   (P <= 0 at some stage)
                            = Some X                                  -> ORet [complex array X]
     toeplitz_ir_tie   for a reflexive [feq]: tie_toeplitz = true whenever len(Z) >= len(TC) + 1
   The sign test [P <= 0] is the interpreter's [le0] (the model's too); for a COMPLEX P numpy orders lexicographically,
   which differs from [le0] iff Re P = 0 and Im P > 0 (known infidelity of interpreter AND model, T1 note).
   NOT PROVED: a right-hand side Z shorter than len(TC)+1 (the code raises IndexError at Z[0] or at the stage that
   reads Z[k+1], unless a ValueError comes first; the model reads 0 there): outside the model's domain, exact
   evaluation only. *)
From Coq Require Import String ZArith List Lia Bool.
Require Import Spectrum.Theory.Ops Spectrum.Theory.Sum Spectrum.Theory.Vec Spectrum.Model.LoopIR Spectrum.Model.Levinson
               Spectrum.Model.LoopIRTie Spectrum.Proofs.LoopIRLevinson.
Import ListNotations.

(* slots 0=T0 1=TC 2=TR 3=Z 4=M 5=X 6=A 7=B 8=P 9=k 10=save1 11=save2 12=beta 13=temp1 14=temp2 15=j 16=alpha 17=kj *)
Definition toe_acc : stmt :=
  SFor 15 (EInt 0) (EVar 9) (EInt 1)
    (SSeq (SAssign 10 (EBin BAdd (EVar 10) (EBin BMul (EIndex (EVar 6) (EVar 15)) (EIndex (EVar 1) (EBin BSub (EBin BSub (EVar 9) (EVar 15)) (EInt 1))))))
    (SSeq (SAssign 11 (EBin BAdd (EVar 11) (EBin BMul (EIndex (EVar 7) (EVar 15)) (EIndex (EVar 2) (EBin BSub (EBin BSub (EVar 9) (EVar 15)) (EInt 1))))))
          (SAssign 12 (EBin BAdd (EVar 12) (EBin BMul (EIndex (EVar 5) (EBin BAdd (EVar 15) (EInt 1))) (EIndex (EVar 1) (EBin BSub (EBin BSub (EVar 9) (EVar 15)) (EInt 1)))))))).

Definition toe_temps : stmt :=
  SSeq (SAssign 13 (EBin BDiv (ENeg (EVar 10)) (EVar 8))) (SAssign 14 (EBin BDiv (ENeg (EVar 11)) (EVar 8))).

Definition toe_temp : stmt := SIf (ECmp CEq (EVar 9) (EInt 0)) toe_temps (SSeq toe_acc toe_temps).

Definition toe_Pupd : stmt := SAssign 8 (EBin BMul (EVar 8) (EBin BSub (ELit 1 0) (EBin BMul (EVar 13) (EVar 14)))).

(* X[j] = X[j] + alpha * B[k-j] for j = 0..k *)
Definition toe_xupd : stmt :=
  SFor 15 (EInt 0) (EBin BAdd (EVar 9) (EInt 1)) (EInt 1)
    (SStore 5 (EVar 15) (EBin BAdd (EIndex (EVar 5) (EVar 15)) (EBin BMul (EVar 16) (EIndex (EVar 7) (EBin BSub (EVar 9) (EVar 15)))))).

Definition toe_first_then : stmt := SSeq (SStore 5 (EBin BAdd (EVar 9) (EInt 1)) (EVar 16)) (SSeq toe_xupd SContinue).
Definition toe_first : stmt := SIf (ECmp CEq (EVar 9) (EInt 0)) toe_first_then SSkip.

(* the in-place update of A (ascending) and B (descending) *)
Definition toe_ab : stmt :=
  SFor 15 (EInt 0) (EVar 9) (EInt 1)
    (SSeq (SAssign 17 (EBin BSub (EBin BSub (EVar 9) (EVar 15)) (EInt 1)))
    (SSeq (SAssign 10 (EIndex (EVar 6) (EVar 15)))
    (SSeq (SStore 6 (EVar 15) (EBin BAdd (EVar 10) (EBin BMul (EVar 13) (EIndex (EVar 7) (EVar 17)))))
          (SStore 7 (EVar 17) (EBin BAdd (EIndex (EVar 7) (EVar 17)) (EBin BMul (EVar 14) (EVar 10))))))).

Definition toe_body : stmt :=
  SSeq (SAssign 10 (EIndex (EVar 1) (EVar 9)))
  (SSeq (SAssign 11 (EIndex (EVar 2) (EVar 9)))
  (SSeq (SAssign 12 (EBin BMul (EIndex (EVar 5) (EInt 0)) (EIndex (EVar 1) (EVar 9))))
  (SSeq toe_temp
  (SSeq toe_Pupd
  (SSeq (SIf (ELe0 (EVar 8)) (SRaise ValueError) SSkip)
  (SSeq (SStore 6 (EVar 9) (EVar 13))
  (SSeq (SStore 7 (EVar 9) (EVar 14))
  (SSeq (SAssign 16 (EBin BDiv (EBin BSub (EIndex (EVar 3) (EBin BAdd (EVar 9) (EInt 1))) (EVar 12)) (EVar 8)))
  (SSeq toe_first
  (SSeq toe_ab
  (SSeq (SStore 5 (EBin BAdd (EVar 9) (EInt 1)) (EVar 16))
        toe_xupd))))))))))).

Local Open Scope string_scope.
Definition toe_main : stmt :=
  SSeq (SAssert (ECmp CGt (ELen (EVar 1)) (EInt 0)))
  (SSeq (SAssert (ECmp CEq (ELen (EVar 1)) (ELen (EVar 2))))
  (SSeq (SAssign 4 (ELen (EVar 1)))
  (SSeq (SAssign 5 (EZeros (EBin BAdd (EVar 4) (EInt 1)) false))
  (SSeq (SAssign 6 (EZeros (EVar 4) false))
  (SSeq (SAssign 7 (EZeros (EVar 4) false))
  (SSeq (SAssign 8 (EVar 0))
  (SSeq (SIf (ECmp CEq (EVar 8) (EInt 0)) (SRaise ValueError) SSkip)
  (SSeq (SIf (ECmp CEq (EVar 8) (EInt 0)) (SRaise ValueError) SSkip)
  (SSeq (SStore 5 (EInt 0) (EBin BDiv (EIndex (EVar 3) (EInt 0)) (EVar 0)))
  (SSeq (SFor 9 (EInt 0) (EVar 4) (EInt 1) toe_body)
        (SReturn [(EVar 5)]))))))))))).
Definition prog_TOEPLITZ_ref : program := mkProgram "TOEPLITZ" 4 [None; None; None; None] 18 toe_main.

Section Toe.
Context {F : Type} {OF : Ops F} {L : Laws OF}.
Variable feq : F -> F -> bool.
Variable stop : Z -> F -> F -> bool.
Local Open Scope F_scope.
Local Open Scope list_scope.
Add Field FFirt : (fth (O:=OF)).
Notation value := (@value F).
Notation store := (@store F).
Notation exec := (@exec F OF feq stop).

Definition tst (T0 TC TR Z M X A B P k save1 save2 beta temp1 temp2 j alpha kj : value) : store :=
  [T0; TC; TR; Z; M; X; A; B; P; k; save1; save2; beta; temp1; temp2; j; alpha; kj].

Ltac ev := cbn [LoopIR.exec LoopIR.eval get set nth tst bind try asZ asArr asF ok err fst snd arith arithZ fop compare cmpF cmpZ eqne truthy eval_list].

(* the three accumulations of one pass *)
Lemma toe_acc_ok vT0 tC TC tR TR vZ vM tX X tA A tB B vP m s1 s2 b0 vt1 vt2 vj valpha vkj :
  (m <= length A)%nat -> (m <= length B)%nat -> (m <= length TC)%nat -> (m <= length TR)%nat -> (m + 1 <= length X)%nat ->
  exists vj',
    exec toe_acc (tst vT0 (VArr tC TC) (VArr tR TR) vZ vM (VArr tX X) (VArr tA A) (VArr tB B) vP (VI (Z.of_nat m))
                      (VF s1) (VF s2) (VF b0) vt1 vt2 vj valpha vkj)
    = (tst vT0 (VArr tC TC) (VArr tR TR) vZ vM (VArr tX X) (VArr tA A) (VArr tB B) vP (VI (Z.of_nat m))
           (VF (lsum m (fun j => nthF A j * nthF TC (m - j - 1)) s1))
           (VF (lsum m (fun j => nthF B j * nthF TR (m - j - 1)) s2))
           (VF (lsum m (fun j => nthF X (j + 1) * nthF TC (m - j - 1)) b0)) vt1 vt2 vj' valpha vkj, CNormal).
Proof.
  intros HA HB HC HR HX. unfold toe_acc.
  cbn [LoopIR.exec LoopIR.eval get nth tst bind try asZ ok].
  rewrite range_vals_nat. cbn [try].
  match goal with |- exists vj', (let (st', c) := for_loop ?f ?x _ ?st in _) = _ =>
    destruct (for_loop_inv f x
      (fun i s => exists vj', s = tst vT0 (VArr tC TC) (VArr tR TR) vZ vM (VArr tX X) (VArr tA A) (VArr tB B) vP (VI (Z.of_nat m))
                                  (VF (lsum i (fun j => nthF A j * nthF TC (m - j - 1)) s1))
                                  (VF (lsum i (fun j => nthF B j * nthF TR (m - j - 1)) s2))
                                  (VF (lsum i (fun j => nthF X (j + 1) * nthF TC (m - j - 1)) b0)) vt1 vt2 vj' valpha vkj) m st)
      as [s' [E [vj' I']]]
  end.
  - exists vj. reflexivity.
  - intros i s Hi [vj' ->].
    cbn [tst set]. ev.
    rewrite norm_index_nat by lia. ev.
    rewrite norm_index_ok by lia. ev.
    rewrite norm_index_nat by lia. ev.
    rewrite norm_index_ok by lia. ev.
    rewrite (norm_index_ok (length X) (Z.of_nat i + 1)) by lia. ev.
    rewrite norm_index_ok by lia. ev.
    eexists. split; [reflexivity|]. exists (VI (Z.of_nat i)). cbn [lsum].
    replace (Z.to_nat (Z.of_nat m - Z.of_nat i - 1)) with (m - i - 1)%nat by lia.
    replace (Z.to_nat (Z.of_nat i + 1)) with (i + 1)%nat by lia. reflexivity.
  - exists vj'. rewrite E, I'. reflexivity.
Qed.

(* which entries the in-place loop has rewritten after i passes: A[q] for q < i, B[q] for m-1-i < q < m *)
Definition doneB (m i q : nat) : bool := (m <=? q + i)%nat && (q <? m)%nat.

Lemma toe_ab_ok vT0 vTC vTR vZ vM vX tA A tB B vP m vs1 vs2 vbeta t1 t2 vj valpha vkj :
  (m <= length A)%nat -> (m <= length B)%nat ->
  exists arrA arrB vs1' vj' vkj',
    exec toe_ab (tst vT0 vTC vTR vZ vM vX (VArr tA A) (VArr tB B) vP (VI (Z.of_nat m)) vs1 vs2 vbeta (VF t1) (VF t2) vj valpha vkj)
    = (tst vT0 vTC vTR vZ vM vX (VArr tA arrA) (VArr tB arrB) vP (VI (Z.of_nat m)) vs1' vs2 vbeta (VF t1) (VF t2) vj' valpha vkj', CNormal)
    /\ length arrA = length A /\ length arrB = length B
    /\ (forall q, nthF arrA q = if (q <? m)%nat then nthF A q + t1 * nthF B (m - 1 - q) else nthF A q)
    /\ (forall q, nthF arrB q = if (q <? m)%nat then nthF B q + t2 * nthF A (m - 1 - q) else nthF B q).
Proof.
  intros HA HB. unfold toe_ab.
  cbn [LoopIR.exec LoopIR.eval get nth tst bind try asZ ok].
  rewrite range_vals_nat. cbn [try].
  match goal with |- exists arrA arrB vs1' vj' vkj', (let (st', c) := for_loop ?f ?x _ ?st in _) = _ /\ _ =>
    destruct (for_loop_inv f x
      (fun i s => exists arrA arrB vs1' vj' vkj',
           s = tst vT0 vTC vTR vZ vM vX (VArr tA arrA) (VArr tB arrB) vP (VI (Z.of_nat m)) vs1' vs2 vbeta (VF t1) (VF t2) vj' valpha vkj'
           /\ length arrA = length A /\ length arrB = length B
           /\ (forall q, nthF arrA q = if (q <? i)%nat then nthF A q + t1 * nthF B (m - 1 - q) else nthF A q)
           /\ (forall q, nthF arrB q = if doneB m i q then nthF B q + t2 * nthF A (m - 1 - q) else nthF B q)) m st)
      as [s' [E [arrA [arrB [vs' [vj' [vkj' [I1 [I2 [I3 [I4 I5]]]]]]]]]]]
  end.
  - exists A, B, vs1, vj, vkj. split; [reflexivity|]. split; [reflexivity|]. split; [reflexivity|]. split.
    + intros q. reflexivity.
    + intros q. unfold doneB. rewrite Nat.add_0_r.
      destruct (Nat.leb_spec m q); destruct (Nat.ltb_spec q m); cbn [andb]; try reflexivity. lia.
  - intros i s Hi [arrA [arrB [vs' [vj' [vkj' [-> [HlA [HlB [HnA HnB]]]]]]]]].
    assert (EA : nthF arrA i = nthF A i).
    { rewrite HnA. replace (i <? i)%nat with false by (symmetry; apply Nat.ltb_irrefl). reflexivity. }
    assert (EB : nthF arrB (m - 1 - i) = nthF B (m - 1 - i)).
    { rewrite HnB. unfold doneB. replace (m <=? m - 1 - i + i)%nat with false by (symmetry; apply Nat.leb_gt; lia). reflexivity. }
    assert (Ekj : (Z.of_nat m - Z.of_nat i - 1)%Z = Z.of_nat (m - 1 - i)) by lia.
    cbn [tst set]. ev. rewrite Ekj.
    rewrite norm_index_nat by lia. ev.
    rewrite norm_index_nat by lia. ev.
    rewrite norm_index_nat by lia. ev.
    rewrite norm_index_nat by lia. ev.
    eexists. split; [reflexivity|]. do 5 eexists. split; [reflexivity|].
    split; [rewrite updF_length; exact HlA|]. split; [rewrite updF_length; exact HlB|].
    rewrite EA, EB. split.
    + intros q. rewrite nthF_updF by lia. rewrite HnA.
      destruct (Nat.eqb_spec q i) as [->|Nq].
      * replace (i <? S i)%nat with true by (symmetry; apply Nat.ltb_lt; lia). reflexivity.
      * destruct (Nat.ltb_spec q i); destruct (Nat.ltb_spec q (S i)); try lia; reflexivity.
    + intros q. rewrite nthF_updF by lia. rewrite HnB. unfold doneB.
      destruct (Nat.eqb_spec q (m - 1 - i)) as [->|Nq].
      * replace (m <=? m - 1 - i + S i)%nat with true by (symmetry; apply Nat.leb_le; lia).
        replace (m - 1 - i <? m)%nat with true by (symmetry; apply Nat.ltb_lt; lia). cbn [andb].
        replace (m - 1 - (m - 1 - i))%nat with i by lia. reflexivity.
      * destruct (Nat.leb_spec m (q + i)); destruct (Nat.leb_spec m (q + S i)); destruct (Nat.ltb_spec q m); cbn [andb]; try lia; reflexivity.
  - exists arrA, arrB, vs', vj', vkj'. rewrite E, I1. split; [reflexivity|]. split; [assumption|]. split; [assumption|]. split; [assumption|].
    intros q. rewrite I5. unfold doneB.
    destruct (Nat.leb_spec m (q + m)); [|lia]. reflexivity.
Qed.

(* X[j] += alpha * B[k-j] for j = 0..k *)
Lemma toe_xupd_ok vT0 vTC vTR vZ vM tX X vA tB B vP m vs1 vs2 vbeta vt1 vt2 vj alpha vkj :
  (m + 1 <= length X)%nat -> (m + 1 <= length B)%nat ->
  exists arr vj',
    exec toe_xupd (tst vT0 vTC vTR vZ vM (VArr tX X) vA (VArr tB B) vP (VI (Z.of_nat m)) vs1 vs2 vbeta vt1 vt2 vj (VF alpha) vkj)
    = (tst vT0 vTC vTR vZ vM (VArr tX arr) vA (VArr tB B) vP (VI (Z.of_nat m)) vs1 vs2 vbeta vt1 vt2 vj' (VF alpha) vkj, CNormal)
    /\ length arr = length X
    /\ forall q, nthF arr q = if (q <? m + 1)%nat then nthF X q + alpha * nthF B (m - q) else nthF X q.
Proof.
  intros HX HB. unfold toe_xupd.
  cbn [LoopIR.exec LoopIR.eval get nth tst bind try asZ ok arith arithZ].
  replace (Z.of_nat m + 1)%Z with (Z.of_nat (m + 1)) by lia. rewrite range_vals_nat. cbn [try].
  match goal with |- exists arr vj', (let (st', c) := for_loop ?f ?x _ ?st in _) = _ /\ _ =>
    destruct (for_loop_inv f x
      (fun i s => exists arr vj',
           s = tst vT0 vTC vTR vZ vM (VArr tX arr) vA (VArr tB B) vP (VI (Z.of_nat m)) vs1 vs2 vbeta vt1 vt2 vj' (VF alpha) vkj
           /\ length arr = length X
           /\ forall q, nthF arr q = if (q <? i)%nat then nthF X q + alpha * nthF B (m - q) else nthF X q) (m + 1)%nat st)
      as [s' [E [arr [vj' [I1 [I2 I3]]]]]]
  end.
  - exists X, vj. split; [reflexivity|]. split; [reflexivity|]. intros q. reflexivity.
  - intros i s Hi [arr [vj' [-> [Hl Hn]]]].
    cbn [tst set]. ev.
    rewrite norm_index_nat by lia. ev.
    rewrite norm_index_ok by lia. ev.
    eexists. split; [reflexivity|]. do 2 eexists. split; [reflexivity|]. split; [rewrite updF_length; exact Hl|].
    intros q. rewrite nthF_updF by lia. rewrite !Hn.
    replace (Z.to_nat (Z.of_nat m - Z.of_nat i)) with (m - i)%nat by lia.
    replace (i <? i)%nat with false by (symmetry; apply Nat.ltb_irrefl).
    destruct (Nat.eqb_spec q i) as [->|Nq].
    + replace (i <? S i)%nat with true by (symmetry; apply Nat.ltb_lt; lia). reflexivity.
    + destruct (Nat.ltb_spec q i); destruct (Nat.ltb_spec q (S i)); try lia; reflexivity.
  - exists arr, vj'. rewrite E, I1. split; [reflexivity|]. split; assumption.
Qed.

Lemma tbeta_sum (X T : list F) m :
  lsum m (fun j => nthF X (j + 1) * nthF T (m - j - 1)) (nthF X 0 * nthF T m) = sumL (mk (S m) (fun j => nthF X j * nthF T (m - j))).
Proof.
  rewrite lsum_sumf, sumL_mk, sumf_shift, Nat.sub_0_r. f_equal. apply sumf_ext. intros j _.
  rewrite Nat.add_1_r. do 2 f_equal. lia.
Qed.

Lemma txupd_result (Xm B' : list F) alpha M m (arr : list F) :
  length Xm = (m + 1)%nat -> length B' = S m -> (m < M)%nat ->
  length arr = length ((Xm ++ [alpha]) ++ zeros (M - S m)) ->
  (forall q, nthF arr q = if (q <? m + 1)%nat
                          then nthF ((Xm ++ [alpha]) ++ zeros (M - S m)) q + alpha * nthF (B' ++ zeros (M - S m)) (m - q)
                          else nthF ((Xm ++ [alpha]) ++ zeros (M - S m)) q) ->
  arr = (mk (S m) (fun j => nthF Xm j + alpha * nthF B' (m - j)) ++ [alpha]) ++ zeros (M - S m).
Proof.
  intros HX HB Hm Hl Hn. apply list_eq_nth.
  - rewrite Hl, !app_length, mk_length. cbn [length]. lia.
  - intros q _. rewrite Hn. destruct (Nat.ltb_spec q (m + 1)) as [Hq|Hq].
    + rewrite <- !app_assoc. rewrite nthF_app_l by lia. rewrite nthF_app_zeros.
      rewrite nthF_app_l by (rewrite mk_length; lia). rewrite nth_mk by lia. reflexivity.
    + apply nthF_tail_indep; [rewrite mk_length; lia|lia].
Qed.

(* the arrays after the in-place loop are the model's new A and B, padded *)
Lemma tab_result (A B : list F) t1 t2 M m (arrA : list F) :
  length A = m -> length B = m -> (m < M)%nat ->
  length arrA = length ((A ++ [t1]) ++ zeros (M - S m)) ->
  (forall q, nthF arrA q = if (q <? m)%nat
                           then nthF ((A ++ [t1]) ++ zeros (M - S m)) q + t1 * nthF ((B ++ [t2]) ++ zeros (M - S m)) (m - 1 - q)
                           else nthF ((A ++ [t1]) ++ zeros (M - S m)) q) ->
  arrA = (mk m (fun j => nthF A j + t1 * nthF B (m - 1 - j)) ++ [t1]) ++ zeros (M - S m).
Proof.
  intros HA HB Hm Hl Hn. apply list_eq_nth.
  - rewrite Hl, !app_length, mk_length. cbn [length]. lia.
  - intros q _. rewrite Hn. destruct (Nat.ltb_spec q m) as [Hq|Hq].
    + rewrite <- !app_assoc. rewrite !nthF_app_l by (rewrite ?mk_length; lia). rewrite nth_mk by lia. reflexivity.
    + apply nthF_tail_indep; [rewrite mk_length; lia|lia].
Qed.

Lemma toe_body_ok vT0 tC TC tR TR tZ Z M tX Xm tA A tB B P m vk vs1 vs2 vbeta vt1 vt2 vj valpha vkj :
  (m < M)%nat -> (M <= length TC)%nat -> (M <= length TR)%nat -> (M + 1 <= length Z)%nat ->
  length A = m -> length B = m -> length Xm = (m + 1)%nat ->
  match toep_step TC TR Z (A, B, P, Xm) m with
  | None => exists s',
      exec toe_body (set (tst vT0 (VArr tC TC) (VArr tR TR) (VArr tZ Z) (VI (Z.of_nat M)) (VArr tX (Xm ++ zeros (M - m)))
                              (VArr tA (A ++ zeros (M - m))) (VArr tB (B ++ zeros (M - m)))
                              (VF P) vk vs1 vs2 vbeta vt1 vt2 vj valpha vkj) 9 (VI (Z.of_nat m)))
      = (s', CErr ValueError)
  | Some (A', B', P', X') => exists vs1' vs2' vbeta' vt1' vt2' vj' valpha' vkj' ctl',
      exec toe_body (set (tst vT0 (VArr tC TC) (VArr tR TR) (VArr tZ Z) (VI (Z.of_nat M)) (VArr tX (Xm ++ zeros (M - m)))
                              (VArr tA (A ++ zeros (M - m))) (VArr tB (B ++ zeros (M - m)))
                              (VF P) vk vs1 vs2 vbeta vt1 vt2 vj valpha vkj) 9 (VI (Z.of_nat m)))
      = (tst vT0 (VArr tC TC) (VArr tR TR) (VArr tZ Z) (VI (Z.of_nat M)) (VArr tX (X' ++ zeros (M - S m)))
             (VArr tA (A' ++ zeros (M - S m))) (VArr tB (B' ++ zeros (M - S m)))
             (VF P') (VI (Z.of_nat m)) vs1' vs2' vbeta' vt1' vt2' vj' valpha' vkj', ctl')
      /\ (ctl' = CNormal \/ ctl' = CContinue) /\ length A' = S m /\ length B' = S m /\ length X' = (S m + 1)%nat
  end.
Proof.
  intros Hm HC HR HZ HA HB HX.
  unfold toep_step.
  set (beta := sumL (mk (S m) (fun j => nthF Xm j * nthF TC (m - j)))).
  set (t1 := (- lev_delta TC A m) / P). set (t2 := (- lev_delta TR B m) / P).
  set (P' := P * (1 - t1 * t2)).
  set (alpha := (nthF Z (S m) - beta) / P').
  pose (ST := fun (x a b : list F) (p : F) (s1 s2 bt tm1 tm2 j al kj : value) =>
     [vT0; VArr tC TC; VArr tR TR; VArr tZ Z; VI (Z.of_nat M); VArr tX x; VArr tA a; VArr tB b; VF p; VI (Z.of_nat m);
      s1; s2; bt; tm1; tm2; j; al; kj]).
  unfold toe_body, tst. cbn [set].
  (* save1 = TC[m]; save2 = TR[m]; beta = X[0]*TC[m] *)
  erewrite exec_seq; [|ev; rewrite norm_index_nat by lia; ev; reflexivity].
  erewrite exec_seq; [|ev; rewrite norm_index_nat by lia; ev; reflexivity].
  erewrite exec_seq.
  2:{ ev. rewrite norm_index_ok by (rewrite app_length; lia). ev. rewrite norm_index_nat by lia. ev.
      change (Z.to_nat 0) with 0%nat. rewrite nthF_app_zeros. reflexivity. }
  (* the accumulations, temp1 = -save1/P, temp2 = -save2/P *)
  assert (Es1 : lsum m (fun j => nthF (A ++ zeros (M - m)) j * nthF TC (m - j - 1)) (nthF TC m) = lev_delta TC A m).
  { rewrite lsum_sumf. unfold lev_delta. rewrite sumL_mk. f_equal. apply sumf_ext. intros j _. rewrite nthF_app_zeros. reflexivity. }
  assert (Es2 : lsum m (fun j => nthF (B ++ zeros (M - m)) j * nthF TR (m - j - 1)) (nthF TR m) = lev_delta TR B m).
  { rewrite lsum_sumf. unfold lev_delta. rewrite sumL_mk. f_equal. apply sumf_ext. intros j _. rewrite nthF_app_zeros. reflexivity. }
  assert (Ebeta : lsum m (fun j => nthF (Xm ++ zeros (M - m)) (j + 1) * nthF TC (m - j - 1)) (nthF Xm 0 * nthF TC m) = beta).
  { unfold beta. rewrite <- tbeta_sum. rewrite !lsum_sumf. f_equal. apply sumf_ext. intros j _. rewrite nthF_app_zeros. reflexivity. }
  assert (E2 : exists vj1,
     exec toe_temp (ST (Xm ++ zeros (M - m)) (A ++ zeros (M - m)) (B ++ zeros (M - m)) P (VF (nthF TC m)) (VF (nthF TR m))
                       (VF (nthF Xm 0 * nthF TC m)) vt1 vt2 vj valpha vkj)
     = (ST (Xm ++ zeros (M - m)) (A ++ zeros (M - m)) (B ++ zeros (M - m)) P (VF (lev_delta TC A m)) (VF (lev_delta TR B m)) (VF beta)
           (VF t1) (VF t2) vj1 valpha vkj, CNormal)).
  { unfold ST, toe_temp, toe_temps. destruct (Nat.eq_dec m 0) as [E0|N0].
    - exists vj. ev. replace (Z.of_nat m =? 0)%Z with true by (symmetry; apply Z.eqb_eq; lia). ev.
      unfold t1, t2. rewrite <- Es1, <- Es2, <- Ebeta. rewrite E0. reflexivity.
    - ev. replace (Z.of_nat m =? 0)%Z with false by (symmetry; apply Z.eqb_neq; lia). ev.
      destruct (toe_acc_ok vT0 tC TC tR TR (VArr tZ Z) (VI (Z.of_nat M)) tX (Xm ++ zeros (M - m)) tA (A ++ zeros (M - m))
                  tB (B ++ zeros (M - m)) (VF P) m (nthF TC m) (nthF TR m) (nthF Xm 0 * nthF TC m) vt1 vt2 vj valpha vkj) as [vj1 E1].
      { rewrite app_length. lia. } { rewrite app_length. lia. } { lia. } { lia. } { rewrite app_length. lia. }
      unfold tst in E1. rewrite E1. ev. rewrite Es1, Es2, Ebeta. exists vj1. reflexivity. }
  destruct E2 as [vj1 E2]. unfold ST in E2. erewrite exec_seq by exact E2. clear E2.
  (* P = P * (1 - temp1*temp2) *)
  erewrite exec_seq; [|unfold toe_Pupd; ev; rewrite lit_1; reflexivity].
  fold P'.
  (* the singularity test *)
  assert (E4 : exec (SIf (ELe0 (EVar 8)) (SRaise ValueError) SSkip)
                 (ST (Xm ++ zeros (M - m)) (A ++ zeros (M - m)) (B ++ zeros (M - m)) P' (VF (lev_delta TC A m)) (VF (lev_delta TR B m))
                     (VF beta) (VF t1) (VF t2) vj1 valpha vkj)
               = (ST (Xm ++ zeros (M - m)) (A ++ zeros (M - m)) (B ++ zeros (M - m)) P' (VF (lev_delta TC A m)) (VF (lev_delta TR B m))
                     (VF beta) (VF t1) (VF t2) vj1 valpha vkj,
                  if le0 P' then CErr ValueError else CNormal)).
  { unfold ST. ev. destruct (le0 P'); ev; reflexivity. }
  unfold ST in E4.
  destruct (le0 P') eqn:Hs.
  { eexists. apply exec_seq_stop; [exact E4|discriminate]. }
  erewrite exec_seq by exact E4. clear E4.
  (* A[m] = temp1; B[m] = temp2 *)
  erewrite exec_seq.
  2:{ ev. rewrite norm_index_nat by (rewrite app_length, zeros_length; lia). ev.
      rewrite (updF_app_zeros' A M m t1 HA Hm). reflexivity. }
  erewrite exec_seq.
  2:{ ev. rewrite norm_index_nat by (rewrite app_length, zeros_length; lia). ev.
      rewrite (updF_app_zeros' B M m t2 HB Hm). reflexivity. }
  (* alpha = (Z[m+1] - beta)/P *)
  erewrite exec_seq.
  2:{ ev. rewrite norm_index_ok by lia. ev. replace (Z.to_nat (Z.of_nat m + 1)) with (S m) by lia. reflexivity. }
  fold alpha.
  assert (EX1 : forall (a b : list F) s1 s2 bt tm1 tm2 j kj,
            exec (SStore 5 (EBin BAdd (EVar 9) (EInt 1)) (EVar 16)) (ST (Xm ++ zeros (M - m)) a b P' s1 s2 bt tm1 tm2 j (VF alpha) kj)
            = (ST ((Xm ++ [alpha]) ++ zeros (M - S m)) a b P' s1 s2 bt tm1 tm2 j (VF alpha) kj, CNormal)).
  { intros. unfold ST. ev. rewrite norm_index_ok by (rewrite app_length, zeros_length; lia). ev.
    replace (Z.to_nat (Z.of_nat m + 1)) with (m + 1)%nat by lia.
    pose proof (updF_app_zeros' Xm (M + 1) (m + 1) alpha HX ltac:(lia)) as EU.
    replace (M + 1 - (m + 1))%nat with (M - m)%nat in EU by lia.
    replace (M + 1 - S (m + 1))%nat with (M - S m)%nat in EU by lia. rewrite EU. reflexivity. }
  set (A' := mk m (fun j => nthF A j + t1 * nthF B (m - 1 - j)) ++ [t1]).
  set (B' := mk m (fun j => nthF B j + t2 * nthF A (m - 1 - j)) ++ [t2]).
  assert (HA' : length A' = S m) by (unfold A'; rewrite app_length, mk_length; cbn [length]; lia).
  assert (HB' : length B' = S m) by (unfold B'; rewrite app_length, mk_length; cbn [length]; lia).
  assert (HX' : length (mk (S m) (fun j => nthF Xm j + alpha * nthF B' (m - j)) ++ [alpha]) = (S m + 1)%nat)
    by (rewrite app_length, mk_length; reflexivity).
  destruct (Nat.eq_dec m 0) as [E0|N0].
  { (* order 1: X[1] = alpha, update of X[0], continue *)
    assert (EA0 : A = []) by (destruct A; [reflexivity|cbn [length] in HA; lia]).
    assert (EB0 : B = []) by (destruct B; [reflexivity|cbn [length] in HB; lia]).
    unfold toe_first.
    destruct (toe_xupd_ok vT0 (VArr tC TC) (VArr tR TR) (VArr tZ Z) (VI (Z.of_nat M)) tX ((Xm ++ [alpha]) ++ zeros (M - S m))
                (VArr tA ((A ++ [t1]) ++ zeros (M - S m))) tB ((B ++ [t2]) ++ zeros (M - S m)) (VF P') m
                (VF (lev_delta TC A m)) (VF (lev_delta TR B m)) (VF beta) (VF t1) (VF t2) vj1 alpha vkj)
      as [arr [vj2 [E [Hl Hn]]]].
    { rewrite !app_length. cbn [length]. lia. } { rewrite !app_length. cbn [length]. lia. }
    exists (VF (lev_delta TC A m)), (VF (lev_delta TR B m)), (VF beta), (VF t1), (VF t2), vj2, (VF alpha), vkj, CContinue.
    split; [|split; [right; reflexivity|split; [assumption|split; assumption]]].
    erewrite exec_seq_stop; [| ev; replace (Z.of_nat m =? 0)%Z with true by (symmetry; apply Z.eqb_eq; lia); ev; unfold toe_first_then;
                               (erewrite exec_seq; [|apply (EX1 ((A ++ [t1]) ++ zeros (M - S m)) ((B ++ [t2]) ++ zeros (M - S m)))]);
                               unfold ST; unfold tst in E; (erewrite exec_seq by exact E); reflexivity | discriminate].
    rewrite (txupd_result Xm B' alpha M m arr HX); try assumption.
    - unfold A', B'. rewrite EA0, EB0, E0. reflexivity.
    - intros q. rewrite Hn. unfold B'. rewrite EB0, E0. reflexivity. }
  erewrite exec_seq; [|unfold toe_first; ev; replace (Z.of_nat m =? 0)%Z with false by (symmetry; apply Z.eqb_neq; lia); ev; reflexivity].
  (* the in-place update of A and B *)
  destruct (toe_ab_ok vT0 (VArr tC TC) (VArr tR TR) (VArr tZ Z) (VI (Z.of_nat M)) (VArr tX (Xm ++ zeros (M - m)))
              tA ((A ++ [t1]) ++ zeros (M - S m)) tB ((B ++ [t2]) ++ zeros (M - S m))
              (VF P') m (VF (lev_delta TC A m)) (VF (lev_delta TR B m)) (VF beta) t1 t2 vj1 (VF alpha) vkj)
    as [arrA [arrB [vs' [vj' [vkj' [E [HlA [HlB [HnA HnB]]]]]]]]].
  { rewrite !app_length. cbn [length]. lia. } { rewrite !app_length. cbn [length]. lia. }
  unfold tst in E. erewrite exec_seq by exact E. clear E.
  rewrite (tab_result A B t1 t2 M m arrA HA HB Hm HlA HnA).
  rewrite (tab_result B A t2 t1 M m arrB HB HA Hm HlB HnB).
  fold A'. fold B'.
  (* X[m+1] = alpha; X[j] += alpha*B[m-j] *)
  erewrite exec_seq; [|apply (EX1 (A' ++ zeros (M - S m)) (B' ++ zeros (M - S m)))].
  destruct (toe_xupd_ok vT0 (VArr tC TC) (VArr tR TR) (VArr tZ Z) (VI (Z.of_nat M)) tX ((Xm ++ [alpha]) ++ zeros (M - S m))
              (VArr tA (A' ++ zeros (M - S m))) tB (B' ++ zeros (M - S m)) (VF P') m vs' (VF (lev_delta TR B m)) (VF beta) (VF t1) (VF t2)
              vj' alpha vkj')
    as [arr [vj2 [E [Hl2 Hn2]]]].
  { rewrite !app_length. cbn [length]. lia. } { rewrite app_length. lia. }
  unfold ST. unfold tst in E. rewrite E.
  exists vs', (VF (lev_delta TR B m)), (VF beta), (VF t1), (VF t2), vj2, (VF alpha), vkj', CNormal.
  split; [|split; [left; reflexivity|split; [assumption|split; assumption]]].
  rewrite (txupd_result Xm B' alpha M m arr HX HB' Hm Hl2 Hn2). reflexivity.
Qed.
End Toe.

Section ToeMain.
Context {F : Type} {OF : Ops F} {L : Laws OF}.
Variable feq : F -> F -> bool.
Variable stop : Z -> F -> F -> bool.
Local Open Scope F_scope.
Local Open Scope list_scope.
Notation value := (@value F).
Notation store := (@store F).
Notation exec := (@exec F OF feq stop).
Ltac ev := cbn [LoopIR.exec LoopIR.eval get set nth tst bind try asZ asArr asF ok err fst snd arith arithZ fop compare cmpF cmpZ eqne truthy eval_list].

Lemma toe_outer_ok vT0 tC TC tR TR tZ Z M tX tA tB T0 vk vs1 vs2 vbeta vt1 vt2 vj valpha vkj :
  (M <= length TC)%nat -> (M <= length TR)%nat -> (M + 1 <= length Z)%nat -> forall m, (m <= M)%nat ->
  match toep_iter TC TR Z T0 m with
  | Some (A, B, P, Xm) => exists vk' vs1' vs2' vbeta' vt1' vt2' vj' valpha' vkj',
      for_loop (exec toe_body) 9 (range_from 0 1 m)
        (tst vT0 (VArr tC TC) (VArr tR TR) (VArr tZ Z) (VI (Z.of_nat M)) (VArr tX ([nthF Z 0 / T0] ++ zeros M)) (VArr tA (zeros M))
             (VArr tB (zeros M)) (VF T0) vk vs1 vs2 vbeta vt1 vt2 vj valpha vkj)
      = (tst vT0 (VArr tC TC) (VArr tR TR) (VArr tZ Z) (VI (Z.of_nat M)) (VArr tX (Xm ++ zeros (M - m))) (VArr tA (A ++ zeros (M - m)))
             (VArr tB (B ++ zeros (M - m))) (VF P) vk' vs1' vs2' vbeta' vt1' vt2' vj' valpha' vkj', CNormal)
      /\ length A = m /\ length B = m /\ length Xm = (m + 1)%nat
  | None => exists s',
      for_loop (exec toe_body) 9 (range_from 0 1 m)
        (tst vT0 (VArr tC TC) (VArr tR TR) (VArr tZ Z) (VI (Z.of_nat M)) (VArr tX ([nthF Z 0 / T0] ++ zeros M)) (VArr tA (zeros M))
             (VArr tB (zeros M)) (VF T0) vk vs1 vs2 vbeta vt1 vt2 vj valpha vkj)
      = (s', CErr ValueError)
  end.
Proof.
  intros HC HR HZ m. induction m as [|m IH]; intros Hm.
  - cbn [toep_iter range_from for_loop]. exists vk, vs1, vs2, vbeta, vt1, vt2, vj, valpha, vkj. rewrite Nat.sub_0_r. cbn [app]. repeat split.
  - rewrite range_from_S, for_loop_app. cbn [toep_iter].
    specialize (IH ltac:(lia)). destruct (toep_iter TC TR Z T0 m) as [[[[A B] P] Xm]|].
    + destruct IH as [vk' [vs1' [vs2' [vb' [vt1' [vt2' [vj' [va' [vkj' [E [HA [HB HX]]]]]]]]]]]]. rewrite E. cbn [for_loop].
      pose proof (toe_body_ok feq stop vT0 tC TC tR TR tZ Z M tX Xm tA A tB B P m vk' vs1' vs2' vb' vt1' vt2' vj' va' vkj'
                    ltac:(lia) HC HR HZ HA HB HX) as Bd.
      destruct (toep_step TC TR Z (A, B, P, Xm) m) as [[[[A' B'] P'] X']|] eqn:Es.
      * destruct Bd as [vs12 [vs22 [vb2 [vt12 [vt22 [vj2 [va2 [vkj2 [ctl2 [E2 [Hc [LA [LB LX]]]]]]]]]]]]]. rewrite E2.
        exists (VI (Z.of_nat m)), vs12, vs22, vb2, vt12, vt22, vj2, va2, vkj2.
        split; [destruct Hc as [-> | ->]; reflexivity|]. lia.
      * destruct Bd as [s' E2]. rewrite E2. exists s'. reflexivity.
    + destruct IH as [s' E]. rewrite E. exists s'. reflexivity.
Qed.

Definition toe_dom_err (TC TR : list F) : bool := Nat.eqb (length TC) 0 || negb (Nat.eqb (length TC) (length TR)).

Lemma toe_main_ok (t0 : F) tC (TC : list F) tR (TR : list F) tZ (Z : list F) :
  (toe_dom_err TC TR = true \/ feq t0 0 = true \/ (length TC + 1 <= length Z)%nat) ->
  exists s',
    exec toe_main [VF t0; VArr tC TC; VArr tR TR; VArr tZ Z; VUnbound; VUnbound; VUnbound; VUnbound; VUnbound; VUnbound; VUnbound;
                   VUnbound; VUnbound; VUnbound; VUnbound; VUnbound; VUnbound; VUnbound]
    = (s', if toe_dom_err TC TR then CErr AssertionError
           else if feq t0 0 then CErr ValueError
           else match toeplitz t0 TC TR Z with
                | Some X => CRet [VArr false X]
                | None => CErr ValueError
                end).
Proof.
  intros Hdom. unfold toe_main, toe_dom_err in *.
  destruct (Nat.eqb_spec (length TC) 0) as [E0|N0].
  { cbn [orb]. eexists. apply exec_seq_stop; [|discriminate]. ev. rewrite E0. reflexivity. }
  cbn [orb] in *.
  erewrite exec_seq; [|ev; replace (0 <? Z.of_nat (length TC))%Z with true by (symmetry; apply Z.ltb_lt; lia); reflexivity].
  destruct (Nat.eqb_spec (length TC) (length TR)) as [ER|NR]; cbn [negb] in *.
  2:{ eexists. apply exec_seq_stop; [|discriminate]. ev.
      replace (Z.of_nat (length TC) =? Z.of_nat (length TR))%Z with false by (symmetry; apply Z.eqb_neq; lia). reflexivity. }
  erewrite exec_seq; [|ev; rewrite ER, Z.eqb_refl; reflexivity].
  erewrite exec_seq; [|ev; reflexivity].
  set (M := length TC) in *.
  erewrite exec_seq.
  2:{ ev. replace (Z.of_nat M + 1 <? 0)%Z with false by (symmetry; apply Z.ltb_ge; lia).
      replace (Z.to_nat (Z.of_nat M + 1)) with (S M) by lia. reflexivity. }
  erewrite exec_seq.
  2:{ ev. replace (Z.of_nat M <? 0)%Z with false by (symmetry; apply Z.ltb_ge; lia). rewrite Nat2Z.id. reflexivity. }
  erewrite exec_seq.
  2:{ ev. replace (Z.of_nat M <? 0)%Z with false by (symmetry; apply Z.ltb_ge; lia). rewrite Nat2Z.id. reflexivity. }
  erewrite exec_seq; [|ev; reflexivity].
  destruct (feq t0 0) eqn:Et0.
  { eexists. apply exec_seq_stop; [|discriminate]. ev. change (@ofZ F OF 0) with (@zero F OF). rewrite Et0. reflexivity. }
  erewrite exec_seq; [|ev; change (@ofZ F OF 0) with (@zero F OF); rewrite Et0; reflexivity].
  erewrite exec_seq; [|ev; change (@ofZ F OF 0) with (@zero F OF); rewrite Et0; reflexivity].
  assert (HZ : (M + 1 <= length Z)%nat).
  { destruct Hdom as [H|[H|H]]; [discriminate|discriminate|exact H]. }
  erewrite exec_seq.
  2:{ ev. rewrite norm_index_ok by (rewrite mk_length; lia). ev. rewrite norm_index_ok by lia. ev.
      change (Z.to_nat 0) with 0%nat. fold (zeros (S M)). rewrite zeros_S. cbn [updF]. reflexivity. }
  pose proof (toe_outer_ok (VF t0) tC TC tR TR tZ Z M false false false t0 VUnbound VUnbound VUnbound VUnbound VUnbound VUnbound
                VUnbound VUnbound VUnbound (le_n M) ltac:(lia) HZ M (le_n M)) as O.
  unfold tst in O. cbn [app] in O. fold (zeros M).
  unfold toeplitz. fold M.
  destruct (toep_iter TC TR Z t0 M) as [[[[A B] P] Xm]|].
  - destruct O as [vk' [vs1' [vs2' [vb' [vt1' [vt2' [vj' [va' [vkj' [E [HA [HB HX]]]]]]]]]]]].
    erewrite exec_seq; [|ev; rewrite range_vals_nat; cbn [try]; rewrite E; reflexivity].
    eexists. ev. rewrite Nat.sub_diag. change (@zeros F OF 0) with (@nil F). rewrite !app_nil_r. reflexivity.
  - destruct O as [s' E]. exists s'. apply exec_seq_stop; [|discriminate].
    ev. rewrite range_vals_nat. cbn [try]. rewrite E. reflexivity.
Qed.

Theorem toeplitz_ir_run (t0 : F) tC (TC : list F) tR (TR : list F) tZ (Z : list F) :
  (TC = [] \/ length TC <> length TR \/ feq t0 0 = true \/ (length TC + 1 <= length Z)%nat) ->
  run feq stop prog_TOEPLITZ_ref [Some (VF t0); Some (VArr tC TC); Some (VArr tR TR); Some (VArr tZ Z)] =
  if Nat.eqb (length TC) 0 || negb (Nat.eqb (length TC) (length TR)) then OErr AssertionError
  else if feq t0 0 then OErr ValueError
  else match toeplitz t0 TC TR Z with
       | Some X => ORet [VArr false X]
       | None => OErr ValueError
       end.
Proof.
  intros Hdom.
  assert (Hd : toe_dom_err TC TR = true \/ feq t0 0 = true \/ (length TC + 1 <= length Z)%nat).
  { unfold toe_dom_err. destruct Hdom as [H|[H|[H|H]]].
    - left. rewrite H. reflexivity.
    - left. apply orb_true_iff. right. apply negb_true_iff. apply Nat.eqb_neq. exact H.
    - right. left. exact H.
    - right. right. exact H. }
  destruct (toe_main_ok t0 tC TC tR TR tZ Z Hd) as [s' E].
  unfold run, prog_TOEPLITZ_ref. cbn [p_defaults p_body p_nslots p_nparams Nat.sub bind_args bind ok app repeat].
  rewrite E. unfold toe_dom_err.
  destruct (Nat.eqb (length TC) 0 || negb (Nat.eqb (length TC) (length TR))); [reflexivity|]. destruct (feq t0 0); [reflexivity|].
  destruct (toeplitz t0 TC TR Z); reflexivity.
Qed.
End ToeMain.

Section ToeTie.
Context {F : Type} {OF : Ops F} {L : Laws OF}.
Variable feq : F -> F -> bool.
Hypothesis feq_refl : forall a, feq a a = true.
Local Open Scope F_scope.
Local Open Scope list_scope.

Lemma leq_refl_t (l : list F) : leq feq l l = true.
Proof.
  unfold leq. rewrite Nat.eqb_refl. cbn [andb]. induction l as [|a l IH]; [reflexivity|].
  cbn [combine forallb fst snd]. rewrite feq_refl, IH. reflexivity.
Qed.

Theorem toeplitz_ir_tie (t0 : F) (TC TR Z : list F) :
  (length TC + 1 <= length Z)%nat -> tie_toeplitz feq prog_TOEPLITZ_ref t0 TC TR Z = true.
Proof.
  intros HZ. unfold tie_toeplitz.
  rewrite (toeplitz_ir_run feq (@nostop F) t0 false TC false TR false Z) by (right; right; right; exact HZ).
  destruct (Nat.eqb (length TC) 0 || negb (Nat.eqb (length TC) (length TR))); [reflexivity|]. destruct (feq t0 0); [reflexivity|].
  destruct (toeplitz t0 TC TR Z) as [X|]; [apply leq_refl_t|reflexivity].
Qed.
End ToeTie.

(* BEGIN GENERATED TOEPLITZ (verbatim output of tools/props/_loopir.py for spectrum.toeplitz.TOEPLITZ) *)
(* TOEPLITZ: slots 0=T0 1=TC 2=TR 3=Z 4=M 5=X 6=A 7=B 8=P 9=k 10=save1 11=save2 12=beta 13=temp1 14=temp2 15=j 16=alpha 17=kj *)
Definition prog_TOEPLITZ_gen0 : program := mkProgram "TOEPLITZ" 4 [None; None; None; None] 18
(SSeq (SAssert (ECmp CGt (ELen (EVar 1)) (EInt 0)))
(SSeq (SAssert (ECmp CEq (ELen (EVar 1)) (ELen (EVar 2))))
(SSeq (SAssign 4 (ELen (EVar 1)))
(SSeq (SAssign 5 (EZeros (EBin BAdd (EVar 4) (EInt 1)) false))
(SSeq (SAssign 6 (EZeros (EVar 4) false))
(SSeq (SAssign 7 (EZeros (EVar 4) false))
(SSeq (SAssign 8 (EVar 0))
(SSeq (SIf (ECmp CEq (EVar 8) (EInt 0))
(SRaise ValueError)
(SSkip))
(SSeq (SIf (ECmp CEq (EVar 8) (EInt 0))
(SRaise ValueError)
(SSkip))
(SSeq (SStore 5 (EInt 0) (EBin BDiv (EIndex (EVar 3) (EInt 0)) (EVar 0)))
(SSeq (SFor 9 (EInt 0) (EVar 4) (EInt 1)
(SSeq (SAssign 10 (EIndex (EVar 1) (EVar 9)))
(SSeq (SAssign 11 (EIndex (EVar 2) (EVar 9)))
(SSeq (SAssign 12 (EBin BMul (EIndex (EVar 5) (EInt 0)) (EIndex (EVar 1) (EVar 9))))
(SSeq (SIf (ECmp CEq (EVar 9) (EInt 0))
(SSeq (SAssign 13 (EBin BDiv (ENeg (EVar 10)) (EVar 8)))
(SAssign 14 (EBin BDiv (ENeg (EVar 11)) (EVar 8))))
(SSeq (SFor 15 (EInt 0) (EVar 9) (EInt 1)
(SSeq (SAssign 10 (EBin BAdd (EVar 10) (EBin BMul (EIndex (EVar 6) (EVar 15)) (EIndex (EVar 1) (EBin BSub (EBin BSub (EVar 9) (EVar 15)) (EInt 1))))))
(SSeq (SAssign 11 (EBin BAdd (EVar 11) (EBin BMul (EIndex (EVar 7) (EVar 15)) (EIndex (EVar 2) (EBin BSub (EBin BSub (EVar 9) (EVar 15)) (EInt 1))))))
(SAssign 12 (EBin BAdd (EVar 12) (EBin BMul (EIndex (EVar 5) (EBin BAdd (EVar 15) (EInt 1))) (EIndex (EVar 1) (EBin BSub (EBin BSub (EVar 9) (EVar 15)) (EInt 1)))))))))
(SSeq (SAssign 13 (EBin BDiv (ENeg (EVar 10)) (EVar 8)))
(SAssign 14 (EBin BDiv (ENeg (EVar 11)) (EVar 8))))))
(SSeq (SAssign 8 (EBin BMul (EVar 8) (EBin BSub (ELit 1 0) (EBin BMul (EVar 13) (EVar 14)))))
(SSeq (SIf (ELe0 (EVar 8))
(SRaise ValueError)
(SSkip))
(SSeq (SStore 6 (EVar 9) (EVar 13))
(SSeq (SStore 7 (EVar 9) (EVar 14))
(SSeq (SAssign 16 (EBin BDiv (EBin BSub (EIndex (EVar 3) (EBin BAdd (EVar 9) (EInt 1))) (EVar 12)) (EVar 8)))
(SSeq (SIf (ECmp CEq (EVar 9) (EInt 0))
(SSeq (SStore 5 (EBin BAdd (EVar 9) (EInt 1)) (EVar 16))
(SSeq (SFor 15 (EInt 0) (EBin BAdd (EVar 9) (EInt 1)) (EInt 1)
(SStore 5 (EVar 15) (EBin BAdd (EIndex (EVar 5) (EVar 15)) (EBin BMul (EVar 16) (EIndex (EVar 7) (EBin BSub (EVar 9) (EVar 15)))))))
(SContinue)))
(SSkip))
(SSeq (SFor 15 (EInt 0) (EVar 9) (EInt 1)
(SSeq (SAssign 17 (EBin BSub (EBin BSub (EVar 9) (EVar 15)) (EInt 1)))
(SSeq (SAssign 10 (EIndex (EVar 6) (EVar 15)))
(SSeq (SStore 6 (EVar 15) (EBin BAdd (EVar 10) (EBin BMul (EVar 13) (EIndex (EVar 7) (EVar 17)))))
(SStore 7 (EVar 17) (EBin BAdd (EIndex (EVar 7) (EVar 17)) (EBin BMul (EVar 14) (EVar 10))))))))
(SSeq (SStore 5 (EBin BAdd (EVar 9) (EInt 1)) (EVar 16))
(SFor 15 (EInt 0) (EBin BAdd (EVar 9) (EInt 1)) (EInt 1)
(SStore 5 (EVar 15) (EBin BAdd (EIndex (EVar 5) (EVar 15)) (EBin BMul (EVar 16) (EIndex (EVar 7) (EBin BSub (EVar 9) (EVar 15))))))))))))))))))))
(SReturn [(EVar 5)])))))))))))).

(* END GENERATED TOEPLITZ *)
Example prog_TOEPLITZ_ref_is_generated : prog_TOEPLITZ_ref = prog_TOEPLITZ_gen0.
Proof. reflexivity. Qed.
