(* Order facts about the pmtm / MultiTapering model, in the abstract ordered *-field (Theory/Order.v):
   Thomson's weight lies in [0, 1/lambda]; the adaptive estimate stays positive and the weights stay in
   range after every number of passes; the class result is non-negative. *)
Require Import Spectrum.Theory.Ops Spectrum.Theory.Sum Spectrum.Theory.Vec Spectrum.Theory.Order Spectrum.Theory.Dft
               Spectrum.Model.Mtm Spectrum.Proofs.MtmTheory.

Section MtmOrder.
Context {F : Type} {OF : Ops F} {L : Laws OF} {OL : OrdLaws OF}.
Local Open Scope F_scope.
Add Field FFmto : (fth (O:=OF)).

(* ---------------- sums of non-negative / positive terms ---------------- *)
Lemma pos_sumf_one n (f : nat -> F) j : (forall i, (i < n)%nat -> nonneg (f i)) -> (j < n)%nat -> pos (f j) -> pos (sumf n f).
Proof.
  intros Hf Hj [_ Hj0]. split; [apply nonneg_sumf; exact Hf|].
  intros E. apply Hj0. apply (sumf_nonneg_zero n f Hf E j Hj).
Qed.
Lemma pos_sumf n (f : nat -> F) : (1 <= n)%nat -> (forall i, (i < n)%nat -> pos (f i)) -> pos (sumf n f).
Proof.
  intros Hn Hf. apply (pos_sumf_one n f O); [intros i Hi; apply Hf; exact Hi|lia|apply Hf; lia].
Qed.
Lemma sumf_neq0_ex n (f : nat -> F) : sumf n f <> 0 -> exists j, (j < n)%nat /\ f j <> 0.
Proof.
  induction n; cbn [sumf]; intros H; [exfalso; apply H; reflexivity|].
  destruct (eq0_dec (f n)) as [E|E].
  - destruct IHn as [j [Hj Hfj]].
    + intros E'. apply H. rewrite E', E. ring.
    + exists j. split; [lia|exact Hfj].
  - exists n. split; [lia|exact E].
Qed.
Lemma le_1_sub lam : le lam 1 -> nonneg (1 - lam). Proof. intros H; exact H. Qed.
Lemma div_neq0_num a b : a / b <> 0 -> a <> 0.
Proof.
  intros H E. apply H. rewrite E. rewrite (Fdiv_def (fth (O:=OF))). ring.
Qed.

(* ---------------- one weight ---------------- *)
(* S >= 0, sigma^2 > 0, 0 < lambda <= 1, and the denominator the code divides by is not 0
   ==> the weight b^2 lambda is real and 0 <= b^2 lambda <= 1/lambda *)
Theorem thomson_weight_bounds_thm (lam s2 S : F) :
  nonneg S -> pos s2 -> pos lam -> le lam 1 -> S * lam + s2 * (1 - lam) <> 0 ->
  nonneg (thomson lam s2 S) /\ le (thomson lam s2 S) (1 / lam) /\ isreal (thomson lam s2 S).
Proof.
  intros HS Hs2 Hlam Hle Hd0.
  set (d := S * lam + s2 * (1 - lam)) in *.
  assert (Hdn : nonneg d).
  { apply nn_add; [apply nn_mul; [exact HS|apply Hlam]|apply nn_mul; [apply Hs2|apply le_1_sub; exact Hle]]. }
  assert (Hd : pos d) by (split; assumption).
  assert (Hb : nonneg (S / d)) by (apply nonneg_div; assumption).
  assert (Hw : nonneg (thomson lam s2 S)).
  { unfold thomson. fold d. apply nn_mul; [apply nn_mul; exact Hb|apply Hlam]. }
  split; [exact Hw|]. split; [|apply nn_real; exact Hw].
  unfold le.
  apply (nonneg_eq ((s2 * (1 - lam)) * (d + S * lam) / (lam * (d * d)))).
  - unfold thomson. fold d. unfold d. field. split; [exact Hd0|apply Hlam].
  - apply nonneg_div.
    + apply nn_mul; [apply nn_mul; [apply Hs2|apply le_1_sub; exact Hle]|].
      apply nn_add; [exact Hdn|apply nn_mul; [exact HS|apply Hlam]].
    + apply pos_mul; [exact Hlam|apply pos_mul; exact Hd].
Qed.
(* a positive estimate needs no side condition: the denominator is positive, and so is the weight *)
Lemma thomson_den_pos (lam s2 S : F) : pos S -> pos s2 -> pos lam -> le lam 1 -> pos (S * lam + s2 * (1 - lam)).
Proof.
  intros HS Hs2 Hlam Hle. apply pos_add_nonneg; [apply pos_mul; assumption|].
  apply nn_mul; [apply Hs2|apply le_1_sub; exact Hle].
Qed.
Lemma thomson_pos (lam s2 S : F) : pos S -> pos s2 -> pos lam -> le lam 1 -> pos (thomson lam s2 S).
Proof.
  intros HS Hs2 Hlam Hle. pose proof (thomson_den_pos lam s2 S HS Hs2 Hlam Hle) as Hd.
  unfold thomson. apply pos_mul; [apply pos_mul; apply pos_div; assumption|exact Hlam].
Qed.
(* the initial weights (the eigenvalues, returned when no pass is made) are in range too *)
Lemma lam_le_inv (lam : F) : pos lam -> le lam 1 -> le lam (1 / lam).
Proof.
  intros Hlam Hle. unfold le.
  apply (nonneg_eq ((1 - lam) * (1 + lam) / lam)); [field; apply Hlam|].
  apply nonneg_div; [|exact Hlam].
  apply nn_mul; [apply le_1_sub; exact Hle|apply nn_add; [apply nonneg_1|apply Hlam]].
Qed.

(* ---------------- the iteration ---------------- *)
Section Iter.
Variables (Sk : list (list F)) (ev : list F) (s2 : F) (nfft : nat).
Let nwin := length ev.
Hypothesis Hn : (1 <= nwin)%nat.
Hypothesis Hs2 : pos s2.
Hypothesis Hlam : forall j, (j < nwin)%nat -> pos (nthF ev j) /\ le (nthF ev j) 1.
Hypothesis HSk : forall j k, (j < nwin)%nat -> (k < nfft)%nat -> nonneg (at2 Sk j k).
(* the initial estimate (mean of the first two eigenspectra, or the only one) is non-zero at every bin;
   otherwise the code computes 0/0 at that bin *)
Hypothesis HS0 : forall k, (k < nfft)%nat -> nthF (ad_S0 Sk nwin nfft) k <> 0.

Definition good (Sv : list F) : Prop := forall k, (k < nfft)%nat -> pos (nthF Sv k).

Lemma some_eigenspectrum_pos k : (k < nfft)%nat -> exists j, (j < nwin)%nat /\ pos (at2 Sk j k).
Proof.
  intros Hk. pose proof (HS0 k Hk) as H. unfold ad_S0 in H. rewrite nth_mk in H by exact Hk.
  apply div_neq0_num in H. apply sumf_neq0_ex in H. destruct H as [j [Hj Hne]].
  assert (Hjn : (j < nwin)%nat) by lia.
  exists j. split; [exact Hjn|]. split; [apply HSk; assumption|exact Hne].
Qed.
Lemma S0_good : good (ad_S0 Sk nwin nfft).
Proof.
  intros k Hk. destruct (some_eigenspectrum_pos k Hk) as [j0 [Hj0 Hp0]].
  pose proof (HS0 k Hk) as Hne. unfold ad_S0 in *. rewrite nth_mk in * by exact Hk.
  split; [|exact Hne]. apply nonneg_div.
  - apply nonneg_sumf. intros j Hj. apply HSk; [lia|exact Hk].
  - apply pos_ofnat. lia.
Qed.

(* one pass: positive estimate in ==> weights positive and <= 1/lambda, next estimate positive and a convex
   combination of the eigenspectra *)
Lemma step_invariant st : good (ad_S st) ->
  let st' := ad_step Sk ev s2 nfft st in
  good (ad_S st') /\ good (ad_S1 st') /\
  forall k, (k < nfft)%nat ->
    (forall j, (j < nwin)%nat -> pos (at2 (ad_wk st') k j) /\ le (at2 (ad_wk st') k j) (1 / nthF ev j)) /\
    exists c : nat -> F, (forall j, (j < nwin)%nat -> nonneg (c j)) /\ sumf nwin c = 1 /\
                         nthF (ad_S st') k = sumf nwin (fun j => c j * at2 Sk j k).
Proof.
  intros Hg. cbv zeta.
  assert (Hw : forall k j, (k < nfft)%nat -> (j < nwin)%nat ->
               pos (at2 (ad_wk (ad_step Sk ev s2 nfft st)) k j) /\ le (at2 (ad_wk (ad_step Sk ev s2 nfft st)) k j) (1 / nthF ev j)).
  { intros k j Hk Hj. rewrite ad_step_wk by assumption.
    destruct (Hlam j Hj) as [Hl1 Hl2]. split.
    - apply thomson_pos; [apply Hg; exact Hk|assumption..].
    - apply thomson_weight_bounds_thm; [apply Hg; exact Hk|assumption..|].
      apply (thomson_den_pos (nthF ev j) s2 (nthF (ad_S st) k)); [apply Hg; exact Hk|assumption..]. }
  assert (Hden : forall k, (k < nfft)%nat -> pos (sumf nwin (fun j => at2 (ad_wk (ad_step Sk ev s2 nfft st)) k j))).
  { intros k Hk. apply pos_sumf; [exact Hn|]. intros j Hj. apply Hw; assumption. }
  split; [|split].
  - intros k Hk. rewrite ad_step_S by exact Hk. fold nwin. apply pos_div; [|apply Hden; exact Hk].
    destruct (some_eigenspectrum_pos k Hk) as [j0 [Hj0 Hp0]].
    apply (pos_sumf_one nwin _ j0).
    + intros j Hj. apply nn_mul; [apply Hw; assumption|apply HSk; assumption].
    + exact Hj0.
    + apply pos_mul; [apply Hw; assumption|exact Hp0].
  - rewrite ad_step_S1. exact Hg.
  - intros k Hk. split; [intros j Hj; apply Hw; assumption|].
    set (D := sumf nwin (fun j => at2 (ad_wk (ad_step Sk ev s2 nfft st)) k j)).
    assert (HD : pos D) by (apply Hden; exact Hk).
    exists (fun j => at2 (ad_wk (ad_step Sk ev s2 nfft st)) k j / D). split; [|split].
    + intros j Hj. apply nonneg_div; [apply Hw; assumption|exact HD].
    + rewrite (sumf_ext nwin _ (fun j => at2 (ad_wk (ad_step Sk ev s2 nfft st)) k j * inv D)).
      2:{ intros j _. field. apply HD. }
      rewrite sumf_scale_r. change (D * inv D = 1). field. apply HD.
    + rewrite ad_step_S by exact Hk. fold nwin. fold D.
      rewrite (sumf_ext nwin (fun j => at2 (ad_wk (ad_step Sk ev s2 nfft st)) k j / D * at2 Sk j k)
                             (fun j => inv D * (at2 (ad_wk (ad_step Sk ev s2 nfft st)) k j * at2 Sk j k))).
      2:{ intros j _. field. apply HD. }
      rewrite sumf_scale. set (N0 := sumf nwin _). field. apply HD.
Qed.

(* after EVERY number of passes *)
Lemma iter_good n : good (ad_S (ad_iter n Sk ev s2 nfft)).
Proof.
  induction n; [exact S0_good|]. rewrite ad_iter_S. exact (proj1 (step_invariant _ IHn)).
Qed.
Lemma iter_weights n k j : (k < nfft)%nat -> (j < nwin)%nat ->
  let w := at2 (ad_wk (ad_iter n Sk ev s2 nfft)) k j in
  pos w /\ le w (1 / nthF ev j) /\ isreal w.
Proof.
  intros Hk Hj. cbv zeta. destruct (Hlam j Hj) as [Hl1 Hl2].
  assert (H : pos (at2 (ad_wk (ad_iter n Sk ev s2 nfft)) k j) /\ le (at2 (ad_wk (ad_iter n Sk ev s2 nfft)) k j) (1 / nthF ev j)).
  { destruct n.
    - cbn [ad_iter]. rewrite ad_init_wk by assumption. split; [exact Hl1|apply lam_le_inv; assumption].
    - rewrite ad_iter_S. destruct (step_invariant (ad_iter n Sk ev s2 nfft) (iter_good n)) as [_ [_ H]].
      destruct (H k Hk) as [H' _]. apply H'. exact Hj. }
  destruct H as [H1 H2]. split; [exact H1|]. split; [exact H2|apply pos_real; exact H1].
Qed.
Lemma iter_convex n k : (k < nfft)%nat ->
  exists c : nat -> F, (forall j, (j < nwin)%nat -> nonneg (c j)) /\ sumf nwin c = 1 /\
     nthF (ad_S (ad_iter (S n) Sk ev s2 nfft)) k = sumf nwin (fun j => c j * at2 Sk j k).
Proof.
  intros Hk. rewrite ad_iter_S. destruct (step_invariant (ad_iter n Sk ev s2 nfft) (iter_good n)) as [_ [_ H]].
  destruct (H k Hk) as [_ H']. exact H'.
Qed.

(* realness of the quantities of the stopping test, and what a failed test means *)
Lemma isreal_absF a : isreal a -> isreal (absF a).
Proof. unfold isreal, absF. intros H. destruct (le0 a); [rewrite conj_opp, H; reflexivity|exact H]. Qed.
Lemma isreal_sumf n (f : nat -> F) : (forall i, (i < n)%nat -> isreal (f i)) -> isreal (sumf n f).
Proof. unfold isreal. intros H. rewrite sumf_conj. apply sumf_ext. exact H. Qed.
Lemma isreal_div a b : isreal a -> isreal b -> b <> 0 -> isreal (a / b).
Proof. unfold isreal. intros Ha Hb Hb0. rewrite conj_div, Ha, Hb by exact Hb0. reflexivity. Qed.
Lemma isreal_ofnat n : isreal (ofnat n : F). Proof. apply conj_ofnat. Qed.
Lemma ofnat_neq0 n : (1 <= n)%nat -> (ofnat n : F) <> 0. Proof. intros H. apply (pos_ofnat n H). Qed.
Lemma isreal_tol : (1 <= nfft)%nat -> isreal (ad_tol s2 nfft).
Proof.
  intros H. unfold ad_tol, tolcoef, ten.
  apply isreal_div; [|apply isreal_ofnat|apply ofnat_neq0; exact H].
  apply isreal_mul; [|apply pos_real; exact Hs2].
  assert (H10 : pos (ofnat 10 : F)) by (apply pos_ofnat; lia).
  apply isreal_div; [apply isreal_ofnat|repeat apply isreal_mul; apply isreal_ofnat|].
  apply (pos_mul _ _ (pos_mul _ _ (pos_mul _ _ H10 H10) H10) H10).
Qed.
Lemma stop_meets_tol n : (1 <= nfft)%nat ->
  ad_continue nfft (ad_tol s2 nfft) (ad_iter n Sk ev s2 nfft) = false ->
  le (ad_err nfft (ad_iter n Sk ev s2 nfft)) (ad_tol s2 nfft).
Proof.
  intros Hnf Hc. unfold ad_continue in Hc. apply Bool.negb_false_iff in Hc.
  set (st := ad_iter n Sk ev s2 nfft) in *.
  assert (HrS : forall k, (k < nfft)%nat -> isreal (nthF (ad_S st) k)).
  { intros k Hk. apply pos_real. apply iter_good. exact Hk. }
  assert (HrS1 : forall k, (k < nfft)%nat -> isreal (nthF (ad_S1 st) k)).
  { intros k Hk. unfold st. destruct n.
    - cbn [ad_iter ad_init ad_S1]. rewrite nth_mk by exact Hk. apply conj_0.
    - rewrite ad_iter_S, ad_step_S1. apply pos_real. apply iter_good. exact Hk. }
  assert (Hre : isreal (ad_err nfft st - ad_tol s2 nfft)).
  { apply isreal_sub; [|apply isreal_tol; exact Hnf]. unfold ad_err.
    apply isreal_div; [|apply isreal_ofnat|apply ofnat_neq0; exact Hnf].
    apply isreal_sumf. intros k Hk. apply isreal_absF. apply isreal_sub; [apply HrS|apply HrS1]; exact Hk. }
  apply le0_true_nonpos in Hc; [|exact Hre]. unfold le.
  apply (nonneg_eq (- (ad_err nfft st - ad_tol s2 nfft))); [ring|exact Hc].
Qed.
End Iter.

(* ---------------- pmtm(method='adapt'): the returned weights, for every pass bound ---------------- *)
Theorem adaptive_step_bounds_thm fuel tw tapers (ev x : list F) nfft Skc w ev' :
  pmtm_core fuel tw tapers ev x nfft Adapt = (Skc, w, ev') ->
  length tapers = length ev -> (1 <= length ev)%nat ->
  pos (sig2 x) ->
  (forall j, (j < length ev)%nat -> pos (nthF ev j) /\ le (nthF ev j) 1) ->
  (forall k, (k < nfft)%nat -> nthF (ad_S0 (powspec Skc) (length ev) nfft) k <> 0) ->
  forall k j, (k < nfft)%nat -> (j < length ev)%nat ->
    nonneg (at2 w k j) /\ le (at2 w k j) (1 / nthF ev j) /\ isreal (at2 w k j).
Proof.
  intros E Hlen Hn Hs2 Hlam HS0 k j Hk Hj.
  destruct (adaptive_is_thomson_at_last_S_thm fuel tw tapers ev x nfft Skc w ev' E) as [n [_ [Ew _]]].
  cbv zeta in Ew. rewrite Ew.
  assert (HSk : forall j k, (j < length ev)%nat -> (k < nfft)%nat -> nonneg (at2 (powspec Skc) j k)).
  { intros j' k' Hj' Hk'. rewrite at2_powspec.
    - apply nn_nrm2.
    - destruct (pmtm_eigenspectra_thm fuel tw tapers ev x nfft Adapt Skc w ev' E) as [_ [HL _]]. lia. }
  destruct (iter_weights (powspec Skc) ev (sig2 x) nfft Hn Hs2 Hlam HSk HS0 n k j Hk Hj) as [[H1 _] [H2 H3]].
  split; [exact H1|]. split; assumption.
Qed.

(* every intermediate state: estimate positive, weights in range, estimate = convex combination *)
Theorem adaptive_invariant_thm (Sk : list (list F)) (ev : list F) (s2 : F) nfft :
  (1 <= length ev)%nat -> pos s2 ->
  (forall j, (j < length ev)%nat -> pos (nthF ev j) /\ le (nthF ev j) 1) ->
  (forall j k, (j < length ev)%nat -> (k < nfft)%nat -> nonneg (at2 Sk j k)) ->
  (forall k, (k < nfft)%nat -> nthF (ad_S0 Sk (length ev) nfft) k <> 0) ->
  forall n k, (k < nfft)%nat ->
    let st := ad_iter n Sk ev s2 nfft in
    pos (nthF (ad_S st) k) /\
    (forall j, (j < length ev)%nat -> nonneg (at2 (ad_wk st) k j) /\ le (at2 (ad_wk st) k j) (1 / nthF ev j) /\ isreal (at2 (ad_wk st) k j)) /\
    ((1 <= n)%nat -> exists c : nat -> F, (forall j, (j < length ev)%nat -> nonneg (c j)) /\ sumf (length ev) c = 1 /\
                        nthF (ad_S st) k = sumf (length ev) (fun j => c j * at2 Sk j k)).
Proof.
  intros Hn Hs2 Hlam HSk HS0 n k Hk. cbv zeta. split; [|split].
  - apply (iter_good Sk ev s2 nfft Hn Hs2 Hlam HSk HS0 n k Hk).
  - intros j Hj. destruct (iter_weights Sk ev s2 nfft Hn Hs2 Hlam HSk HS0 n k j Hk Hj) as [[H1 _] [H2 H3]].
    split; [exact H1|]. split; assumption.
  - intros H1. destruct n as [|n]; [lia|]. apply (iter_convex Sk ev s2 nfft Hn Hs2 Hlam HSk HS0 n k Hk).
Qed.

(* when the loop ends before the pass bound, the mean absolute change of the estimate is within the tolerance *)
Theorem adaptive_stop_meets_tol_thm (Sk : list (list F)) (ev : list F) (s2 : F) nfft n :
  (1 <= length ev)%nat -> pos s2 ->
  (forall j, (j < length ev)%nat -> pos (nthF ev j) /\ le (nthF ev j) 1) ->
  (forall j k, (j < length ev)%nat -> (k < nfft)%nat -> nonneg (at2 Sk j k)) ->
  (forall k, (k < nfft)%nat -> nthF (ad_S0 Sk (length ev) nfft) k <> 0) ->
  (1 <= nfft)%nat ->
  ad_continue nfft (ad_tol s2 nfft) (ad_iter n Sk ev s2 nfft) = false ->
  le (ad_err nfft (ad_iter n Sk ev s2 nfft)) (ad_tol s2 nfft).
Proof.
  intros Hn Hs2 Hlam HSk HS0 Hnf Hc. apply (stop_meets_tol Sk ev s2 nfft Hn Hs2 Hlam HSk HS0 n Hnf Hc).
Qed.

(* ---------------- the class result is real and non-negative ---------------- *)
Theorem class_real_nonneg_thm {NWT : Type} (dpss : nat -> NWT -> option nat -> list (list F) * list F)
  fuel tw isr (x : list F) NW k nfft e v m sbf scale psd Skc w ev :
  let n := match nfft with Some n => n | None => length x end in
  mt_call dpss fuel tw isr x NW k nfft e v m sbf scale = Some psd ->
  pmtm dpss fuel tw x NW k (Some n) e v m = Some (Skc, w, ev) ->
  (1 <= length ev)%nat ->
  (forall j b, (j < length ev)%nat -> (b < n)%nat -> nonneg (wt m w j b)) ->
  (sbf = true -> nonneg scale) ->
  forall b, (b < length psd)%nat -> nonneg (nthF psd b) /\ isreal (nthF psd b).
Proof.
  cbv zeta. intros Hc Hp Hn Hw Hsc b Hb.
  destruct (class_is_weighted_mean_thm dpss fuel tw isr x NW k nfft e v m sbf scale psd Hc) as [Skc' [w' [ev' [Hp' [HL Hv]]]]].
  cbv zeta in Hp'. rewrite Hp in Hp'. injection Hp' as <- <- <-.
  assert (Hbn : (b < match nfft with Some n => n | None => length x end)%nat) by (rewrite HL in Hb; destruct isr; lia).
  assert (Hm : nonneg (wmean m Skc w (length ev) b)).
  { unfold wmean. apply nonneg_div; [|apply pos_ofnat; exact Hn].
    apply nonneg_sumf. intros j Hj. apply nn_mul; [apply nn_nrm2|apply Hw; assumption]. }
  assert (H2 : nonneg (two : F)) by (unfold two; apply nn_add; apply nonneg_1).
  assert (Hres : nonneg (nthF psd b)).
  { rewrite (Hv b Hb). destruct sbf, isr.
    - apply nn_mul; [apply nn_mul; assumption|apply Hsc; reflexivity].
    - apply nn_mul; [assumption|apply Hsc; reflexivity].
    - apply nn_mul; assumption.
    - exact Hm. }
  split; [exact Hres|apply nn_real; exact Hres].
Qed.
(* the same with the hypotheses spelled out per method: 'unity' needs nothing, 'eigen' non-negative eigenvalues,
   'adapt' the hypotheses of the adaptive bounds *)
Definition method_hyp (tw : Z -> F) (tapers : list (list F)) (ev x : list F) (n : nat) (m : mt_method) : Prop :=
  match m with
  | Unity => True
  | Eigen => forall j, (j < length ev)%nat -> nonneg (nthF ev j)
  | Adapt => pos (sig2 x) /\ (forall j, (j < length ev)%nat -> pos (nthF ev j) /\ le (nthF ev j) 1) /\
             (forall k, (k < n)%nat -> nthF (ad_S0 (powspec (eigenspectra tw tapers x n)) (length ev) n) k <> 0)
  end.
Theorem class_nonneg_methods_thm {NWT : Type} (dpss : nat -> NWT -> option nat -> list (list F) * list F)
  fuel tw isr (x : list F) NW k nfft e v m sbf scale psd tv :
  let n := match nfft with Some n => n | None => length x end in
  mt_call dpss fuel tw isr x NW k nfft e v m sbf scale = Some psd ->
  pmtm_inputs dpss (length x) NW k e v = Some tv ->
  length (fst tv) = length (snd tv) -> (1 <= length (snd tv))%nat ->
  method_hyp tw (fst tv) (snd tv) x n m ->
  (sbf = true -> nonneg scale) ->
  forall b, (b < length psd)%nat -> nonneg (nthF psd b) /\ isreal (nthF psd b).
Proof.
  cbv zeta. set (n := match nfft with Some n => n | None => length x end).
  intros Hc Hin Hlen Hn Hm Hsc.
  assert (Hp : pmtm dpss fuel tw x NW k (Some n) e v m = Some (pmtm_core fuel tw (fst tv) (snd tv) x n m)).
  { rewrite pmtm_unfold, Hin. reflexivity. }
  destruct (pmtm_core fuel tw (fst tv) (snd tv) x n m) as [[Skc w] ev'] eqn:E.
  assert (Eev : ev' = snd tv) by (unfold pmtm_core in E; injection E as _ _ <-; reflexivity).
  assert (ESk : Skc = eigenspectra tw (fst tv) x n) by (unfold pmtm_core in E; injection E as <- _ _; reflexivity).
  apply (class_real_nonneg_thm dpss fuel tw isr x NW k nfft e v m sbf scale psd Skc w ev' Hc Hp); [rewrite Eev; exact Hn| |exact Hsc].
  rewrite Eev. intros j b Hj Hb. destruct m.
  - destruct (weights_unity_thm fuel tw (fst tv) (snd tv) x n Skc w ev' E) as [_ H]. destruct (H j Hj) as [_ H1].
    rewrite H1. apply nonneg_1.
  - destruct (weights_eigen_thm fuel tw (fst tv) (snd tv) x n Skc w ev' E) as [_ H]. destruct (H j Hj) as [_ H1].
    rewrite H1. apply nonneg_div; [apply Hm; exact Hj|apply pos_ofnat; lia].
  - destruct Hm as [Hs2 [Hlam HS0]]. rewrite <- ESk in HS0. unfold wt.
    apply (adaptive_step_bounds_thm fuel tw (fst tv) (snd tv) x n Skc w ev' E Hlen Hn Hs2 Hlam HS0 b j Hb Hj).
Qed.
End MtmOrder.
