(* C04 — minvar (Musicus' procedure on top of arburg): modulated data => PSD rotated by m bins, A and the reflection
   coefficients modulated; conjugated data => PSD mirrored; conj(reversed) data => identical result.
   Every order / NFFT the code accepts (aliased grids NFFT < 2*order-1 included). *)
Require Import Spectrum.Theory.Ops Spectrum.Theory.Sum Spectrum.Theory.Vec Spectrum.Theory.Dft
               Spectrum.Model.Levinson Spectrum.Model.Corr Spectrum.Model.Burg Spectrum.Model.Minvar Spectrum.Model.Periodogram
               Spectrum.Proofs.CorrTheory Spectrum.Proofs.LevinsonTheory Spectrum.Proofs.BurgTheory Spectrum.Proofs.MinvarTheory
               Spectrum.Proofs.ShiftTheory Spectrum.Proofs.CorrelogramTheory
               Spectrum.Proofs.ShiftDft_C04 Spectrum.Proofs.ShiftPeriodogram_C04 Spectrum.Proofs.ShiftCorrelogram_C04
               Spectrum.Proofs.ShiftArma_C04 Spectrum.Proofs.ShiftBurg_C04.

Section MinvarShift.
Context {F : Type} {OF : Ops F} {L : Laws OF}.
Local Open Scope F_scope.
Add Field FFsmv : (fth (O:=OF)).

Lemma upd_set_nth (l : list F) i v : upd l i v = set_nth i v l.
Proof. revert i; induction l; intros [|i]; cbn; try reflexivity. rewrite IHl. reflexivity. Qed.
Lemma mv_sum_sumf m (A : list F) K :
  mv_sum m A K = sumf (m - K) (fun I => ofdiff (m - K) (2 * I) * conj (nthF A I) * nthF A (I + K)).
Proof. unfold mv_sum. apply sumL_mk. Qed.
Lemma ofdiff_real a b : conj (ofdiff a b : F) = ofdiff a b.
Proof. rewrite ofdiff_sub, conj_sub, !conj_ofnat. reflexivity. Qed.

Lemma prodk_real' (ks : list F) : conj (prodk ks) = prodk ks.
Proof. induction ks as [|k ks IH]; cbn; [apply conj_1|]. rewrite conj_mul, conj_1mkk, IH. reflexivity. Qed.

Definition res3 := (list F * list F * list F)%type.

Section Mod.
Variable phi : Z -> F.
Hypothesis phi_add : forall a b : Z, phi (a + b)%Z = phi a * phi b.
Hypothesis phi_0 : phi 0%Z = 1.
Hypothesis phi_cj : forall a : Z, conj (phi a) = phi (- a)%Z.

Lemma cons1_modA (a : list F) : 1 :: modA phi a = vmod phi 0 (1 :: a).
Proof.
  apply list_eq_nth; [cbn [length]; unfold modA; rewrite !vmod_length; reflexivity|].
  intros j Hj. rewrite nthF_vmod. destruct j; [rewrite !nthF_cons0; cbn [Z.of_nat Z.add]; rewrite phi_0; ring|].
  rewrite !nthF_consS. unfold modA. rewrite nthF_vmod. do 2 f_equal. lia.
Qed.
Lemma mv_sum_mod m (A : list F) K : mv_sum m (vmod phi 0 A) K = phi (Z.of_nat K) * mv_sum m A K.
Proof.
  rewrite !mv_sum_sumf, <- sumf_scale. apply sumf_ext; intros I _. rewrite !nthF_vmod, conj_mul.
  replace (Z.of_nat (I + K) + 0)%Z with ((Z.of_nat I + 0) + Z.of_nat K)%Z by lia.
  transitivity (ofdiff (m - K) (2 * I) * conj (nthF A I) * nthF A (I + K)
                * (phi (Z.of_nat I + 0 + Z.of_nat K) * conj (phi (Z.of_nat I + 0)))); [ring|].
  rewrite (phi_shift phi phi_add phi_cj). ring.
Qed.
Lemma psi_step_mod m nfft (A : list F) P psi K : (forall a, phi (a + Z.of_nat nfft)%Z = phi a) -> (K <= nfft)%nat ->
  psi_step m nfft (vmod phi 0 A) P (vmod phi 0 psi) K = vmod phi 0 (psi_step m nfft A P psi K).
Proof.
  intros Hper HK. unfold psi_step. rewrite mv_sum_mod. set (s := mv_sum m A K / P).
  assert (Es : phi (Z.of_nat K) * mv_sum m A K / P = s * phi (Z.of_nat K + 0)).
  { unfold s. rewrite Z.add_0_r, !(Fdiv_def (fth (O:=OF))). ring. }
  rewrite Es, !upd_set_nth.
  destruct (Nat.eqb_spec K 0) as [->|HK0]; [apply set_nth_vmod|].
  rewrite <- set_nth_vmod. f_equal. rewrite <- set_nth_vmod. f_equal.
  rewrite conj_mul, phi_cj.
  replace (Z.of_nat (nfft - K) + 0)%Z with (- (Z.of_nat K + 0) + Z.of_nat nfft)%Z by lia. rewrite Hper. reflexivity.
Qed.
Lemma psi_fold_mod m nfft (A : list F) P (Ks : list nat) psi : (forall a, phi (a + Z.of_nat nfft)%Z = phi a) ->
  (forall K, In K Ks -> (K <= nfft)%nat) ->
  fold_left (psi_step m nfft (vmod phi 0 A) P) Ks (vmod phi 0 psi) = vmod phi 0 (fold_left (psi_step m nfft A P) Ks psi).
Proof.
  intros Hper. revert psi. induction Ks as [|K Ks IH]; intros psi HK; [reflexivity|].
  cbn [fold_left]. rewrite psi_step_mod by (try exact Hper; apply HK; left; reflexivity).
  apply IH. intros K' H'. apply HK. right. exact H'.
Qed.
Lemma psi_loop_mod m nfft (A : list F) P : (forall a, phi (a + Z.of_nat nfft)%Z = phi a) -> (m <= nfft)%nat ->
  psi_loop m nfft (vmod phi 0 A) P = vmod phi 0 (psi_loop m nfft A P).
Proof.
  intros Hper Hm. unfold psi_loop. rewrite (zeros_vmod phi nfft) at 1.
  apply psi_fold_mod; [exact Hper|]. intros K HK. apply in_seq in HK. lia.
Qed.
End Mod.

Section Grid.
Context (n : nat) (tw : Z -> F) {Tw : Twiddle n tw} (n_pos : (0 < n)%nat).

Definition mod3 (m : Z) (r : res3) : res3 :=
  let '(psd, A, k) := r in (rot m psd, vmod (sphase tw m) 0 A, modA (sphase tw m) k).

Theorem minvar_shift_thm (x : list F) order fs (m : Z) :
  minvar tw (vmod (sphase tw m) 0 x) order fs n = option_map (mod3 m) (minvar tw x order fs n).
Proof.
  set (phi := sphase tw m). unfold minvar.
  rewrite (arburg_modulation_thm phi (sphase_add n tw n_pos m) (sphase_0 n tw m) (sphase_cj n tw n_pos m)).
  destruct (arburg x (order - 1) no_stop) as [[[a P] k]|]; [|reflexivity]. cbn [option_map modst].
  destruct (Nat.ltb_spec n order) as [H|H]; [reflexivity|]. cbn [option_map mod3]. fold phi.
  rewrite (cons1_modA phi (sphase_0 n tw m)).
  rewrite (psi_loop_mod phi (sphase_add n tw n_pos m) (sphase_cj n tw n_pos m)) by (try exact H; apply (sphase_per n tw n_pos)).
  unfold phi. rewrite (dft_list_shift n tw n_pos), rot_map. reflexivity.
Qed.

Lemma mv_sum_conj order (A : list F) K : mv_sum order (vconj A) K = conj (mv_sum order A K).
Proof.
  rewrite !mv_sum_sumf, sumf_conj. apply sumf_ext; intros I _.
  rewrite !nthF_vconj, !conj_mul, ofdiff_real. reflexivity.
Qed.
Lemma psi_fold_conj order (A : list F) P (Ks : list nat) psi : isreal P -> P <> 0 ->
  fold_left (psi_step order n (vconj A) P) Ks (vconj psi) = vconj (fold_left (psi_step order n A P) Ks psi).
Proof.
  intros HP HP0. revert psi. induction Ks as [|K Ks IH]; intros psi; [reflexivity|].
  cbn [fold_left]. rewrite <- IH. f_equal. unfold psi_step. rewrite mv_sum_conj.
  replace (conj (mv_sum order A K) / P) with (conj (mv_sum order A K / P)) by (rewrite conj_div, HP by exact HP0; reflexivity).
  rewrite !upd_set_nth. unfold vconj.
  destruct (K =? 0)%nat; [apply set_nth_map|]. rewrite <- !set_nth_map. reflexivity.
Qed.
Definition conj3 (r : res3) : res3 := let '(psd, A, k) := r in (mirror psd, vconj A, vconj k).

Theorem minvar_mirror_thm (x : list F) order fs : ofnat (length x) <> 0 ->
  (forall q st, (q < order - 1)%nat -> burg_iter no_stop x q = BCont st -> burg_den (length x) st q <> 0) ->
  minvar tw (vconj x) order fs n = option_map conj3 (minvar tw x order fs n).
Proof.
  intros HN Hok. unfold minvar. rewrite arburg_conj_thm by assumption.
  destruct (arburg x (order - 1) no_stop) as [[[a P] k]|] eqn:E; [|reflexivity]. cbn [option_map conjst].
  destruct (Nat.ltb_spec n order) as [H|H]; [reflexivity|]. cbn [option_map conj3].
  destruct (arburg_shape_thm x (order - 1) a P k E) as (_ & _ & HP & HP0).
  assert (HPr : isreal P).
  { unfold isreal. rewrite HP, conj_mul. f_equal; [apply (mean_pow_real x HN)|apply prodk_real']. }
  apply le0_false_neq in HP0.
  assert (Ea : 1 :: vconj a = vconj (1 :: a)) by (unfold vconj; cbn [map]; rewrite conj_1; reflexivity).
  rewrite Ea. f_equal. f_equal. f_equal.
  unfold psi_loop.
  assert (Ez : mk n (fun _ => (0 : F)) = vconj (mk n (fun _ => 0))).
  { apply list_eq_nth; [rewrite vconj_length; reflexivity|]. intros j Hj. rewrite mk_length in Hj.
    rewrite nthF_vconj, !nth_mk by exact Hj. symmetry. apply conj_0. }
  rewrite Ez at 1. rewrite psi_fold_conj by assumption.
  rewrite (dft_list_conj n tw n_pos). unfold vconj. rewrite map_map, mirror_map.
  apply map_ext. intros z. rewrite re_conj'. reflexivity.
Qed.
End Grid.

Theorem minvar_time_reversal_thm tw (x : list F) order fs nfft :
  minvar tw (vrevconj x) order fs nfft = minvar tw x order fs nfft.
Proof. unfold minvar. rewrite arburg_time_reversal_thm. reflexivity. Qed.
End MinvarShift.
