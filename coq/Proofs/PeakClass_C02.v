(* C02 — the tone clauses lifted to the models of the code (Model/Periodogram.v):
     speriodogram / the Periodogram class : a pure on-grid complex exponential at bin k, any window with non-negative samples,
        any N <= NFFT, real-data or complex-data storage: every returned bin <= the returned bin congruent to k (PeakTheory.tone_peak)
     real sinusoid x_i = A w^(-ki) + conj(A) w^(ki), rectangular window, N = NFFT (whole periods): the two-sided transform is
        n*A at bin k, n*conj(A) at bin -k and 0 elsewhere (orthogonality), so bins k and NFFT-k are the two maxima and the
        one-sided result peaks at the bin of |f|
     CORRELOGRAMPSD, rectangular / biased / lag N-1 / NFFT >= 2N-1: same peak through Wiener-Khinchin (C01). *)
Require Import Spectrum.Theory.Ops Spectrum.Theory.Sum Spectrum.Theory.Vec Spectrum.Theory.Order Spectrum.Theory.Dft
               Spectrum.Model.Corr Spectrum.Model.Periodogram
               Spectrum.Proofs.PeakTheory Spectrum.Proofs.PeriodogramTheory Spectrum.Proofs.PeriodogramClassTheory
               Spectrum.Proofs.CorrelogramTheory.
From Coq Require Import Lia.

Section PeakClass.
Context {F : Type} {OF : Ops F} {L : Laws OF} {OL : OrdLaws OF}.
Local Open Scope F_scope.
Add Field FFpc : (fth (O:=OF)).
Context (n : nat) (tw : Z -> F) {T : Twiddle n tw}.
Hypothesis n_pos : (0 < n)%nat.

Lemma ofnat_neq_0 N : (1 <= N)%nat -> ofnat N <> (0 : F).
Proof. intros H. exact (proj2 (pos_ofnat N H)). Qed.
Lemma le_div_ofnat (a b : F) N : (1 <= N)%nat -> le a b -> le (a / ofnat N) (b / ofnat N).
Proof.
  intros HN H. unfold le in *. apply (nonneg_eq ((b - a) / ofnat N)); [field; apply ofnat_neq_0, HN|].
  apply nonneg_div; [exact H|apply pos_ofnat, HN].
Qed.

(* the data: x_i = A * exp(+2 pi i k i / n) for i < N *)
Definition is_tone (x : list F) (A : F) (k : Z) : Prop := forall i, (i < length x)%nat -> nthF x i = tone tw A k i.

Lemma tone_dft_ext (x w : list F) A k (b : Z) : is_tone x A k ->
  dftN tw (length x) (fun i => nthF x i * nthF w i) b = dftN tw (length x) (fun i => nthF w i * tone tw A k i) b.
Proof. intros Hx. unfold dftN. apply sumf_ext; intros i Hi. rewrite (Hx i Hi). ring. Qed.

Theorem speriodogram_peak_thm twopi (x w : list F) isreal dt sbf fs A (k : Z) j jk :
  py_eq_true dt = false -> py_is_true sbf = false -> (1 <= length x <= n)%nat ->
  is_tone x A k -> (forall i, (i < length x)%nat -> nonneg (nthF w i)) ->
  (j < nbins isreal n)%nat -> (jk < nbins isreal n)%nat -> (exists c : Z, Z.of_nat jk = k + c * Z.of_nat n)%Z ->
  let P := speriodogram tw twopi x w (Some n) isreal dt sbf fs in
  le (nthF P j) (nthF P jk)
  /\ nthF P jk = nrm2 (A * sumf (length x) (nthF w)) / ofnat (length x).
Proof.
  intros Hdt Hsbf HN Hx Hw Hj Hjk [c Hc]. cbv zeta.
  rewrite !(periodogram_def_thm tw twopi x w (Some n) isreal dt sbf fs) by (cbn [resolve]; assumption).
  rewrite !(tone_dft_ext x w A k) by exact Hx. rewrite Hc.
  rewrite (dft_periodic n tw n_pos). split.
  - apply le_div_ofnat; [lia|]. apply (PeakTheory.tone_peak n tw n_pos); exact Hw.
  - rewrite (tone_dft_at_bin n tw n_pos). reflexivity.
Qed.

(* the class: after any history of __call__ / psd reads / window changes *)
Theorem periodogram_class_peak_thm twopi (data : list F) isreal wn w fs a dt sbf (ops : list pop) A (k : Z) j jk :
  py_eq_true dt = false -> py_is_true sbf = false ->
  init_nfft a (length data) = n -> (1 <= length data <= n)%nat -> is_tone data A k ->
  let s := p_read tw twopi (fold_left (p_step tw twopi) ops (p_init data isreal wn w fs a dt sbf)) in
  (forall i, (i < length data)%nat -> nonneg (nthF (p_window s) i)) ->
  (j < nbins isreal n)%nat -> (jk < nbins isreal n)%nat -> (exists c : Z, Z.of_nat jk = k + c * Z.of_nat n)%Z ->
  exists psd, p_psd s = Some psd /\ length psd = nbins isreal n /\ p_NFFT s = n /\ le (nthF psd j) (nthF psd jk).
Proof.
  intros Hdt Hsbf Hn HN Hx s Hw Hj Hjk Hc.
  destruct (periodogram_class_thm tw twopi data isreal wn w fs a dt sbf ops) as (E1 & _ & E3). fold s in E1, E3.
  rewrite Hn in E1, E3.
  eexists. split; [exact E3|]. split; [apply periodogram_length_thm; cbn [resolve]; lia|]. split; [exact E1|].
  apply (speriodogram_peak_thm twopi data (p_window s) isreal dt sbf fs A k j jk); assumption.
Qed.

(* ---------------- real sinusoid, rectangular window, whole grid ---------------- *)
Definition dlt (d : Z) : F := if (d mod Z.of_nat n =? 0)%Z then ofnat n else 0.

Theorem real_sinusoid_bins_thm (A : F) (k j : Z) :
  dftN tw n (fun i => A * tw (- (k * Z.of_nat i))%Z + conj A * tw (k * Z.of_nat i)%Z) j
  = dlt (j - k) * A + dlt (j + k) * conj A.
Proof.
  unfold dftN, dlt. rewrite <- !(orth n tw n_pos).
  rewrite <- !sumf_scale_r, <- sumf_add. apply sumf_ext; intros m _.
  transitivity (A * (tw (- (k * Z.of_nat m))%Z * tw (Z.of_nat m * j)%Z) + conj A * (tw (k * Z.of_nat m)%Z * tw (Z.of_nat m * j)%Z)); [ring|].
  rewrite <- !tw_add.
  replace (- (k * Z.of_nat m) + Z.of_nat m * j)%Z with ((j - k) * Z.of_nat m)%Z by ring.
  replace (k * Z.of_nat m + Z.of_nat m * j)%Z with ((j + k) * Z.of_nat m)%Z by ring. ring.
Qed.

Lemma nrm2_ofnat_mul N (A : F) : (1 <= N)%nat -> nrm2 (ofnat N * A) / ofnat N = nrm2 A * ofnat N.
Proof.
  intros HN. rewrite nrm2_mul. unfold nrm2 at 1. rewrite conj_ofnat. field. apply ofnat_neq_0, HN.
Qed.
Lemma nrm2_conj_eq (a : F) : nrm2 (conj a) = nrm2 a.
Proof. unfold nrm2. rewrite conj_conj. ring. Qed.

Theorem real_sinusoid_peak_thm twopi (x w : list F) isreal dt sbf fs (A : F) (k : Z) j jk :
  py_eq_true dt = false -> py_is_true sbf = false -> length x = n ->
  (forall i, (i < n)%nat -> nthF x i = A * tw (- (k * Z.of_nat i))%Z + conj A * tw (k * Z.of_nat i)%Z) ->
  (forall i, (i < n)%nat -> nthF w i = 1) ->
  ((2 * k) mod Z.of_nat n <> 0)%Z ->
  (j < nbins isreal n)%nat -> (jk < nbins isreal n)%nat ->
  (((Z.of_nat jk - k) mod Z.of_nat n = 0)%Z \/ ((Z.of_nat jk + k) mod Z.of_nat n = 0)%Z) ->
  let P := speriodogram tw twopi x w (Some n) isreal dt sbf fs in
  nthF P jk = nrm2 A * ofnat n
  /\ le (nthF P j) (nthF P jk)
  /\ (((Z.of_nat j - k) mod Z.of_nat n <> 0)%Z -> ((Z.of_nat j + k) mod Z.of_nat n <> 0)%Z -> nthF P j = 0).
Proof.
  intros Hdt Hsbf Hl Hx Hw H2k Hj Hjk Hpk. cbv zeta.
  assert (Hval : forall b, (b < nbins isreal n)%nat ->
            nthF (speriodogram tw twopi x w (Some n) isreal dt sbf fs) b
            = nrm2 (dlt (Z.of_nat b - k) * A + dlt (Z.of_nat b + k) * conj A) / ofnat n).
  { intros b Hb. rewrite (periodogram_def_thm tw twopi x w (Some n) isreal dt sbf fs) by (cbn [resolve]; try assumption; lia).
    rewrite Hl. rewrite <- real_sinusoid_bins_thm. do 2 f_equal.
    unfold dftN. apply sumf_ext; intros i Hi. rewrite (Hx i Hi), (Hw i Hi). ring. }
  assert (Hexcl : forall b : Z, ((b - k) mod Z.of_nat n = 0)%Z -> ((b + k) mod Z.of_nat n = 0)%Z -> False).
  { intros b H1 H2. apply H2k. apply Z.mod_divide in H1; [|lia]. apply Z.mod_divide in H2; [|lia].
    apply Z.mod_divide; [lia|]. replace (2 * k)%Z with ((b + k) - (b - k))%Z by lia. apply Z.divide_sub_r; assumption. }
  assert (Hn1 : (1 <= n)%nat) by lia.
  assert (Hpeak : nthF (speriodogram tw twopi x w (Some n) isreal dt sbf fs) jk = nrm2 A * ofnat n).
  { rewrite (Hval jk Hjk). unfold dlt. destruct Hpk as [H1|H2].
    - rewrite H1. cbn [Z.eqb]. destruct (Z.eqb_spec ((Z.of_nat jk + k) mod Z.of_nat n) 0) as [H2|_]; [exfalso; exact (Hexcl _ H1 H2)|].
      rewrite <- (nrm2_ofnat_mul n A Hn1). do 2 f_equal. ring.
    - rewrite H2. cbn [Z.eqb]. destruct (Z.eqb_spec ((Z.of_nat jk - k) mod Z.of_nat n) 0) as [H1|_]; [exfalso; exact (Hexcl _ H1 H2)|].
      rewrite <- (nrm2_conj_eq A), <- (nrm2_ofnat_mul n (conj A) Hn1). do 2 f_equal. ring. }
  assert (Hnn : nonneg (nrm2 A * ofnat n)) by (apply nn_mul; [apply nn_nrm2|apply nonneg_ofnat]).
  assert (Hzero : ((Z.of_nat j - k) mod Z.of_nat n <> 0)%Z -> ((Z.of_nat j + k) mod Z.of_nat n <> 0)%Z ->
                  nthF (speriodogram tw twopi x w (Some n) isreal dt sbf fs) j = 0).
  { intros H1 H2. rewrite (Hval j Hj). unfold dlt.
    destruct (Z.eqb_spec ((Z.of_nat j - k) mod Z.of_nat n) 0) as [E|_]; [contradiction|].
    destruct (Z.eqb_spec ((Z.of_nat j + k) mod Z.of_nat n) 0) as [E|_]; [contradiction|].
    replace (0 * A + 0 * conj A) with (0 : F) by ring. unfold nrm2. field. apply ofnat_neq_0, Hn1. }
  split; [exact Hpeak|]. split; [|exact Hzero].
  rewrite Hpeak.
  destruct (Z.eq_dec ((Z.of_nat j - k) mod Z.of_nat n) 0) as [H1|H1].
  - assert (E : nthF (speriodogram tw twopi x w (Some n) isreal dt sbf fs) j = nrm2 A * ofnat n).
    { rewrite (Hval j Hj). unfold dlt. rewrite H1. cbn [Z.eqb].
      destruct (Z.eqb_spec ((Z.of_nat j + k) mod Z.of_nat n) 0) as [H2|_]; [exfalso; exact (Hexcl _ H1 H2)|].
      rewrite <- (nrm2_ofnat_mul n A Hn1). do 2 f_equal. ring. }
    rewrite E. apply le_refl.
  - destruct (Z.eq_dec ((Z.of_nat j + k) mod Z.of_nat n) 0) as [H2|H2].
    + assert (E : nthF (speriodogram tw twopi x w (Some n) isreal dt sbf fs) j = nrm2 A * ofnat n).
      { rewrite (Hval j Hj). unfold dlt. rewrite H2. cbn [Z.eqb].
        destruct (Z.eqb_spec ((Z.of_nat j - k) mod Z.of_nat n) 0) as [E|_]; [contradiction|].
        rewrite <- (nrm2_conj_eq A), <- (nrm2_ofnat_mul n (conj A) Hn1). do 2 f_equal. ring. }
      rewrite E. apply le_refl.
    + rewrite (Hzero H1 H2). unfold le. apply (nonneg_eq (nrm2 A * ofnat n)); [ring|exact Hnn].
Qed.

(* ---------------- correlogram: rectangular lag window, biased, lag N-1, NFFT >= 2N-1 ---------------- *)
Theorem correlogram_peak_thm rp (x wfull : list F) be A (k : Z) j jk :
  (1 <= length x)%nat -> (2 * length x - 1 <= n)%nat -> is_tone x A k ->
  (forall d, (d < length x - 1)%nat -> nthF wfull (length x + d) = 1) ->
  (j < n)%nat -> (jk < n)%nat -> (exists c : Z, Z.of_nat jk = k + c * Z.of_nat n)%Z ->
  exists psd, correlogram tw rp x None (length x - 1) wfull (Some n) Biased be = Some psd /\ length psd = n
    /\ le (nthF psd j) (nthF psd jk)
    /\ nthF psd jk = nrm2 A * ofnat (length x).
Proof.
  intros HN Hn Hx Hw Hj Hjk Hc.
  eexists. split; [apply (wiener_khinchin_ord_thm n tw rp 1 1 x wfull be); assumption|].
  split; [apply periodogram_length_thm; cbn [resolve]; lia|].
  destruct (speriodogram_peak_thm 1 x (mk (length x) (fun _ => 1)) false PyFalse PyFalse 1 A k j jk) as [H1 H2];
    try reflexivity; try assumption; try (cbn [nbins]; assumption).
  - lia.
  - intros i Hi. rewrite nth_mk by exact Hi. apply nonneg_1.
  - split; [exact H1|]. rewrite H2.
    rewrite (sumf_ext (length x) _ (fun _ => 1)) by (intros i Hi; rewrite nth_mk by exact Hi; reflexivity).
    rewrite sumf_const. replace (A * (ofnat (length x) * 1)) with (ofnat (length x) * A) by ring.
    apply nrm2_ofnat_mul. exact HN.
Qed.
End PeakClass.
