(* Slepian's observation, for every N: the tridiagonal matrix T(c) commutes with the sinc kernel K,
   PROVIDED the two library sequences are consistent, i.e. g(d) = d * sinc(2Wd) (= sin(2 pi W d) / (2 pi W))
   satisfies the Chebyshev recurrence g(d+2) + g(d) = 2 c g(d+1) with c = cos(2 pi W)
   (the addition theorem sin((d+2)x) + sin(dx) = 2 cos(x) sin((d+1)x), a hypothesis on the oracles).
   Consequence (eigenvalues of T are simple): every eigenvector of T is an eigenvector of K. *)
Require Import Spectrum.Theory.Ops Spectrum.Theory.Sum Spectrum.Theory.Vec Spectrum.Theory.Order
               Spectrum.Model.Dpss Spectrum.Proofs.DpssTheory Spectrum.Proofs.DpssCertTheory.

Section Commute.
Context {F : Type} {OF : Ops F} {L : Laws OF}.
Local Open Scope F_scope.
Add Field FFcm : (fth (O:=OF)).

Lemma ofnat_sub N i : (i <= N)%nat -> ofnat (N - i) = ofnat N - ofnat i.
Proof.
  intros H. assert (E : ofnat N = ofnat (N - i) + ofnat i) by (rewrite <- ofnat_add; f_equal; lia).
  rewrite E. ring.
Qed.
Lemma sl_off_0 N : sl_off N 0 = 0.
Proof. unfold sl_off. cbn [ofnat]. field. apply two_neq_0. Qed.
Lemma sl_off_N N : sl_off N N = 0.
Proof. unfold sl_off. replace (N - N)%nat with O by lia. cbn [ofnat]. field. apply two_neq_0. Qed.
Lemma tmul_noguard N c (v : nat -> F) i : (i < N)%nat ->
  tmul N c v i = sl_off N i * v (i - 1)%nat + sl_diag N c i * v i + sl_off N (i + 1) * v (i + 1)%nat.
Proof.
  intros Hi. unfold tmul.
  destruct (Nat.ltb_spec 0 i) as [H0|H0]; destruct (Nat.ltb_spec (i + 1) N) as [H1|H1].
  - reflexivity.
  - assert (E : (i + 1)%nat = N) by lia. rewrite E, sl_off_N. ring.
  - assert (E : i = O) by lia. subst i. rewrite sl_off_0. ring.
  - assert (E : i = O) by lia. subst i. assert (E : (0 + 1)%nat = N) by lia. rewrite E, sl_off_N, sl_off_0. ring.
Qed.
Lemma tmul_scale_r N c (f : nat -> F) a i : tmul N c (fun j => f j * a) i = tmul N c f i * a.
Proof. unfold tmul. destruct (0 <? i)%nat, (i + 1 <? N)%nat; ring. Qed.
Lemma tmul_sum N c M (f : nat -> nat -> F) i :
  tmul N c (fun j => sumf M (fun m => f j m)) i = sumf M (fun m => tmul N c (fun j => f j m) i).
Proof.
  induction M as [|M IH].
  - unfold tmul. cbn [sumf]. destruct (0 <? i)%nat, (i + 1 <? N)%nat; ring.
  - rewrite sumf_S, <- IH. unfold tmul. rewrite !sumf_S. destruct (0 <? i)%nat, (i + 1 <? N)%nat; ring.
Qed.

Variables (W c : F) (snc : nat -> F).
Hypothesis cheb : forall e : nat,
  ofnat (e + 2) * snc (e + 2)%nat + ofnat e * snc e = two * c * (ofnat (e + 1) * snc (e + 1)%nat).

(* entry (i, j) of T K and of K T, for j <= i *)
Lemma commute_entry_le N i j : (j <= i)%nat -> (i < N)%nat ->
  tmul N c (fun m => kern W snc m j) i = tmul N c (fun m => kern W snc i m) j.
Proof.
  intros Hji Hi. rewrite !tmul_noguard by lia.
  destruct (Nat.eq_dec i j) as [->|Hne].
  { rewrite (kern_sym W snc (j - 1) j), (kern_sym W snc (j + 1) j). reflexivity. }
  assert (Hd : exists e, i = (j + e + 1)%nat) by (exists (i - j - 1)%nat; lia).
  destruct Hd as [e ->].
  assert (E1 : kern W snc (j + e + 1 - 1) j = two * W * snc e) by (unfold kern; f_equal; f_equal; unfold absdiff; lia).
  assert (E2 : kern W snc (j + e + 1) j = two * W * snc (e + 1)%nat) by (unfold kern; f_equal; f_equal; unfold absdiff; lia).
  assert (E3 : kern W snc (j + e + 1 + 1) j = two * W * snc (e + 2)%nat) by (unfold kern; f_equal; f_equal; unfold absdiff; lia).
  assert (E4 : sl_off N j * kern W snc (j + e + 1) (j - 1) = sl_off N j * (two * W * snc (e + 2)%nat)).
  { destruct j as [|j]; [rewrite sl_off_0; ring|]. f_equal. unfold kern. f_equal. f_equal. unfold absdiff. lia. }
  assert (E5 : kern W snc (j + e + 1) (j + 1) = two * W * snc e) by (unfold kern; f_equal; f_equal; unfold absdiff; lia).
  rewrite E1, E2, E3, E4, E5.
  pose proof (cheb e) as Hc.
  unfold sl_off, sl_diag.
  rewrite (ofnat_sub N (j + e + 1)), (ofnat_sub N (j + e + 1 + 1)), (ofnat_sub N j), (ofnat_sub N (j + 1)), (ofnat_sub N 1) by lia.
  rewrite !ofnat_add in *. cbn [ofnat] in *.
  set (J := ofnat j) in *. set (E := ofnat e) in *. set (n := ofnat N) in *.
  set (a := snc e) in *. set (b := snc (e + 1)%nat) in *. set (c2 := snc (e + 2)%nat) in *.
  match goal with |- ?lhs = ?rhs =>
    transitivity (rhs + W * (n - (0 + 1) - (J + E + (0 + 1)) - J)
                        * ((E + (0 + 1 + 1)) * c2 + E * a - two * c * ((E + (0 + 1)) * b))) end.
  - unfold two. field. apply two_neq_0.
  - rewrite Hc. ring.
Qed.
Lemma commute_entry N i j : (i < N)%nat -> (j < N)%nat ->
  tmul N c (fun m => kern W snc m j) i = tmul N c (fun m => kern W snc i m) j.
Proof.
  intros Hi Hj. destruct (Nat.le_ge_cases j i) as [H|H]; [apply commute_entry_le; assumption|].
  symmetry.
  rewrite (tmul_ext N c (fun m => kern W snc i m) (fun m => kern W snc m i) j Hj) by (intros; apply kern_sym).
  rewrite (tmul_ext N c (fun m => kern W snc m j) (fun m => kern W snc j m) i Hi) by (intros; apply kern_sym).
  apply commute_entry_le; assumption.
Qed.

(* K (T v) = T (K v) *)
Theorem slepian_commutes_thm N (v : nat -> F) i : (i < N)%nat ->
  matvec N (kern W snc) (tmul N c v) i = tmul N c (matvec N (kern W snc) v) i.
Proof.
  intros Hi.
  transitivity (sumf N (fun m => tmul N c (fun j => kern W snc i j) m * v m)).
  - change (dot N (fun j => kern W snc i j) (tmul N c v) = dot N (tmul N c (fun j => kern W snc i j)) v).
    apply tmul_sym.
  - unfold matvec. rewrite tmul_sum. apply sumf_ext; intros m Hm.
    rewrite tmul_scale_r. f_equal. symmetry. apply commute_entry; assumption.
Qed.

Context {OL : OrdLaws OF}.

(* every eigenvector of T(c) is an eigenvector of the sinc kernel *)
Theorem tridiag_eigvec_is_kernel_eigvec_thm N (theta : F) (v : nat -> F) :
  (forall i, (i < N)%nat -> tmul N c v i = theta * v i) ->
  (exists i, (i < N)%nat /\ v i <> 0) ->
  exists lam, forall i, (i < N)%nat -> matvec N (kern W snc) v i = lam * v i.
Proof.
  intros He [i0 [Hi0 Hv0]].
  assert (H0 : v O <> 0).
  { destruct (eq0_dec (v O)) as [E|E]; [|exact E]. exfalso. apply Hv0.
    apply (eigvec_first_zero N c theta v He E i0 Hi0). }
  set (w := matvec N (kern W snc) v).
  assert (Hw : forall i, (i < N)%nat -> tmul N c w i = theta * w i).
  { intros i Hi. unfold w. rewrite <- slepian_commutes_thm by exact Hi.
    unfold matvec. rewrite <- sumf_scale. apply sumf_ext; intros j Hj. rewrite (He j Hj). ring. }
  exists (w O / v O). intros i Hi.
  assert (Hu : w i - (w O / v O) * v i = 0).
  { apply (eigvec_first_zero N c theta (fun m => w m - (w O / v O) * v m)).
    - intros m Hm. rewrite tmul_lin, (Hw m Hm), (He m Hm). ring.
    - field. exact H0.
    - exact Hi. }
  transitivity (w i - (w O / v O) * v i + (w O / v O) * v i); [ring|]. rewrite Hu. ring.
Qed.
(* a unit eigenvector of T(c): the number dpss() returns for it (autocovariance formula) is its
   eigenvalue under the sinc kernel, i.e. its concentration ratio v^T K v / v^T v *)
Theorem tridiag_eigvec_concentration_thm N (theta : F) (v : nat -> F) : snc O = 1 ->
  (forall i, (i < N)%nat -> tmul N c v i = theta * v i) -> dot N v v = 1 ->
  exists lam, (forall i, (i < N)%nat -> matvec N (kern W snc) v i = lam * v i)
              /\ eig N W snc v = lam /\ quad N (kern W snc) v = lam * dot N v v.
Proof.
  intros H0 He H1.
  assert (Hnz : exists i, (i < N)%nat /\ v i <> 0).
  { destruct (exists_or_all N (fun m => v m <> 0) (fun m => v m = 0)) as [Hex|Hall].
    - intros m _. destruct (eq0_dec (v m)); [right|left]; assumption.
    - exact Hex.
    - exfalso. apply (one_neq_0 (OF:=OF)). rewrite <- H1. unfold dot. apply sumf_zero_ext.
      intros i Hi. rewrite (Hall i Hi). ring. }
  destruct (tridiag_eigvec_is_kernel_eigvec_thm N theta v He Hnz) as [lam Hl].
  exists lam. split; [exact Hl|]. split.
  - apply eig_of_unit_eigvec_thm; assumption.
  - apply quad_of_eigvec_thm. exact Hl.
Qed.
End Commute.
