(* C03 — Yule-Walker (aryule = LEVINSON o CORRELATION, pyule's coefficient part) and lpc are homogeneous:
   same AR vector, same reflection coefficients, error power multiplied by |c|^2, same error branch. *)
Require Import Spectrum.Theory.Ops Spectrum.Theory.Sum Spectrum.Theory.Vec Spectrum.Theory.Order
               Spectrum.Model.Levinson Spectrum.Model.Corr Spectrum.Model.Yule
               Spectrum.Proofs.LevinsonTheory Spectrum.Proofs.CorrTheory Spectrum.Proofs.ScaleTheory
               Spectrum.Proofs.ScaleUtil_C03.

Section ScaleYule.
Context {F : Type} {OF : Ops F} {L : Laws OF} {OL : OrdLaws OF}.
Local Open Scope F_scope.
Add Field FFsy : (fth (O:=OF)).

(* no stage of the recursion on the lags of x divides by zero (the guard of levinson_scale) *)
Definition yule_nondeg (x : list F) (order : nat) (nm : cnorm) (allow : bool) : Prop :=
  forall r, acorr x order nm = Some r -> lev_nonsingular (tl r) allow (re (nthF r O)) (length r - 1).
Definition yw_scale (s : F) (res : @yw_result F) : @yw_result F :=
  match res with inl e => inl e | inr st => inr (scaleP s st) end.

Theorem aryule_scale_thm c (x : list F) order nm allow : c <> 0 -> yule_nondeg x order nm allow ->
  aryule (vscale c x) order nm allow = yw_scale (nrm2 c) (aryule x order nm allow).
Proof.
  intros Hc Hnd. unfold aryule.
  destruct nm; try reflexivity.
  - rewrite (acorr_scale_thm c x order Biased Hc) by discriminate.
    pose proof (Hnd) as Hn. unfold yule_nondeg in Hn.
    destruct (acorr x order Biased) as [r|]; [|reflexivity].
    rewrite vscale_length, (levinson_scale_thm (nrm2 c) r (length r - 1) allow (pos_nrm2 c Hc) (Hn r eq_refl)).
    destruct (levinson r (length r - 1) allow); reflexivity.
  - rewrite (acorr_scale_thm c x order Unbiased Hc) by discriminate.
    pose proof (Hnd) as Hn. unfold yule_nondeg in Hn.
    destruct (acorr x order Unbiased) as [r|]; [|reflexivity].
    rewrite vscale_length, (levinson_scale_thm (nrm2 c) r (length r - 1) allow (pos_nrm2 c Hc) (Hn r eq_refl)).
    destruct (levinson r (length r - 1) allow); reflexivity.
Qed.
Theorem pyule_ar_scale_thm c (x : list F) order nm : c <> 0 -> yule_nondeg x order nm true ->
  pyule_ar (vscale c x) order nm = yw_scale (nrm2 c) (pyule_ar x order nm).
Proof. apply aryule_scale_thm. Qed.

(* ---------- lpc ---------- *)
Lemma lag_sum_vscale c N (x : list F) k : lag_sum N (vscale c x) (vscale c x) k = nrm2 c * lag_sum N x x k.
Proof. apply lag_sum_scale. Qed.
Lemma lpc_R_scale c (x : list F) Ln m : lpc_R (vscale c x) Ln m = vscale (nrm2 c) (lpc_R x Ln m).
Proof.
  unfold lpc_R. cbv zeta. rewrite su_vscale_mk. apply mk_ext; intros k _.
  rewrite <- su_div_scale. f_equal. rewrite <- su_re_scale by apply nrm2_real. f_equal.
  destruct (k <? Ln)%nat; [apply lag_sum_vscale|].
  destruct (pow2_ge (2 * Ln - 1) - k <? Ln)%nat; [|ring].
  rewrite lag_sum_vscale, !conj_mul, nrm2_real. reflexivity.
Qed.
Definition lpc_len (x : list F) (N : option nat) : nat :=
  match N with None => length x | Some n => if (length x - 1 <? n)%nat then (n + 1)%nat else length x end.
Definition lpc_order (x : list F) (N : option nat) : nat := match N with None => (length x - 1)%nat | Some n => n end.
Definition lpc_nondeg (x : list F) (N : option nat) : Prop :=
  let R := lpc_R x (lpc_len x N) (length x) in lev_nonsingular (tl R) false (re (nthF R O)) (lpc_order x N).
Theorem lpc_scale_thm c (x : list F) N : c <> 0 -> lpc_nondeg x N ->
  lpc (vscale c x) N = option_map (fun ae => (fst ae, nrm2 c * snd ae)) (lpc x N).
Proof.
  intros Hc Hnd. unfold lpc. cbv zeta. rewrite su_vscale_length, lpc_R_scale.
  fold (lpc_len x N). fold (lpc_order x N).
  rewrite (levinson_scale_thm (nrm2 c) _ (lpc_order x N) false (pos_nrm2 c Hc) Hnd).
  destruct (levinson (lpc_R x (lpc_len x N) (length x)) (lpc_order x N) false) as [[[a e] k]|]; reflexivity.
Qed.
End ScaleYule.
