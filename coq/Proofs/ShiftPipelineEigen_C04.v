(* C04 — class level for pmusic / pev: the complex store of a class whose __call__ converts the centred output of eigen() with
   tools.centerdc_2_twosided (PipelineLib's SCenter2Two = numpy.fft.ifftshift) commutes with the roll, and turns the centred mirror
   of eigen() into the mirror of the two-sided layout.  Used over the GENERATED pipeline table (tools/props/_c04_theorems.v.in). *)
From Coq Require Import String.
Require Import Spectrum.Theory.Ops Spectrum.Theory.Sum Spectrum.Theory.Vec Spectrum.Theory.Dft
               Spectrum.Model.Eigen Spectrum.Model.PipelineLib Spectrum.Proofs.PipelineTheory
               Spectrum.Proofs.ShiftDft_C04 Spectrum.Proofs.ShiftEigen_C04.

Section PipeEigen.
Context {F : Type} {OF : Ops F} {L : Laws OF}.
Local Open Scope F_scope.
Add Field FFspe : (fth (O:=OF)).
Variable twopi : F.

(* PipelineLib's ifftshift is the rotation by -(n/2) *)
Lemma pl_ifftshift_rot (l : list F) : PipelineLib.ifftshift l = rot (- Z.of_nat (length l / 2)) l.
Proof.
  unfold PipelineLib.ifftshift, rot. cbv zeta. apply mk_ext; intros j Hj. set (n := length l) in *.
  assert (Hh : (n / 2 < n)%nat) by (apply Nat.div_lt; lia).
  destruct (Nat.ltb_spec j (n - n / 2)) as [Hlt|Hge]; f_equal; symmetry.
  - replace (Z.of_nat j - - Z.of_nat (n / 2))%Z with (Z.of_nat (j + n / 2)) by lia. apply ridx_small. lia.
  - transitivity (ridx n (Z.of_nat (j - (n - n / 2)))); [|apply ridx_small; lia].
    apply ridx_mod. replace (Z.of_nat j - - Z.of_nat (n / 2))%Z with (Z.of_nat (j - (n - n / 2)) + 1 * Z.of_nat n)%Z by lia.
    apply Z_mod_plus_full.
Qed.

Lemma stored_center_rot m p sbf (s : sstate) (Sp : list F) (mm : Z) : p_cplx p = SCenter2Two ->
  stored twopi m p false sbf s (rot mm Sp) = rot mm (stored twopi m p false sbf s Sp).
Proof.
  intros Hc. rewrite !(stored_coef twopi). unfold layout. rewrite Hc. cbn [do_store].
  rewrite !pl_ifftshift_rot, !rot_length, !rot_rot.
  replace (- Z.of_nat (length Sp / 2) + mm)%Z with (mm + - Z.of_nat (length Sp / 2))%Z by lia.
  rewrite <- rot_rot. symmetry. apply rot_vscale.
Qed.
Lemma stored_center_cmirror m p sbf (s : sstate) (Sp : list F) n : p_cplx p = SCenter2Two -> length Sp = n ->
  stored twopi m p false sbf s (cmirror n Sp) = mirror (stored twopi m p false sbf s Sp).
Proof.
  intros Hc Hl. rewrite !(stored_coef twopi). unfold layout. rewrite Hc. cbn [do_store]. unfold cmirror.
  rewrite !pl_ifftshift_rot, !rot_length, mirror_length, Hl, !rot_rot.
  rewrite mirror_vscale, mirror_rot. f_equal. f_equal. lia.
Qed.
End PipeEigen.
