(* CHOLESKY returns a solution of A x = B for every method it accepts, given what the library documents of its
   back ends (hypotheses on the oracles); every other method string raises ValueError. *)
From Coq Require Import String List Lia.
Require Import Spectrum.Theory.Ops Spectrum.Theory.Sum Spectrum.Model.Cholesky.

Section Chol.
Context {F : Type} {OF : Ops F} {L : Laws OF}.
Local Open Scope F_scope.
Add Field FFchol : (fth (O:=OF)).

Definition solves (n : nat) (A : matrix) (x B : vector) : Prop := forall i, (i < n)%nat -> mvmul n A x i = B i.
(* A = M M^H on the n x n block *)
Definition factor_lower (n : nat) (A M : matrix) : Prop :=
  forall i j, (i < n)%nat -> (j < n)%nat -> A i j = sumf n (fun k => M i k * conj (M j k)).
(* A = U^H U *)
Definition factor_upper (n : nat) (A U : matrix) : Prop :=
  forall i j, (i < n)%nat -> (j < n)%nat -> A i j = sumf n (fun k => conj (U k i) * U k j).

Variable O : @oracles F.
(* what the library documents *)
Definition solve_spec : Prop := forall n M b x, np_solve O n M b = Some x -> solves n M x b.
Definition np_chol_spec : Prop := forall n A M, np_cholesky O n A = Some M -> factor_lower n A M.
Definition sp_chol_spec : Prop := forall n A U, sp_cholesky O n A = Some U -> factor_upper n A U.
Definition cho_solve_spec : Prop :=
  forall n U b x, sp_cho_solve O n U b = Some x -> solves n (fun i j => sumf n (fun k => conj (U k i) * U k j)) x b.

Lemma solves_ext n A A' x B : (forall i j, (i < n)%nat -> (j < n)%nat -> A i j = A' i j) -> solves n A' x B -> solves n A x B.
Proof.
  intros HA H i Hi. rewrite <- (H i Hi). unfold mvmul. apply sumf_ext; intros j Hj. rewrite HA by assumption. reflexivity.
Qed.

(* forward then backward substitution solves the factored system *)
Lemma two_solves n A M y x B :
  factor_lower n A M -> solves n M y B -> solves n (herm M) x y -> solves n A x B.
Proof.
  intros HA Hy Hx i Hi. unfold mvmul.
  rewrite <- (Hy i Hi). unfold mvmul.
  transitivity (sumf n (fun j => sumf n (fun k => M i k * (conj (M j k) * x j)))).
  { apply sumf_ext; intros j Hj. rewrite (HA i j Hi Hj). rewrite <- sumf_scale_r.
    apply sumf_ext; intros k Hk. ring. }
  rewrite sumf_exch. apply sumf_ext; intros k Hk.
  rewrite <- (Hx k Hk). unfold mvmul, herm. rewrite <- sumf_scale. reflexivity.
Qed.

Theorem cholesky_solves_thm n A B method x :
  solve_spec -> np_chol_spec -> sp_chol_spec -> cho_solve_spec ->
  CHOLESKY O n A B method = inr x -> solves n A x B.
Proof.
  intros Hs Hn Hsp Hc. unfold CHOLESKY.
  destruct (parse_method method) as [[| |]|]; [| | |discriminate].
  - unfold lift. destruct (np_solve O n A B) as [x'|] eqn:E; [|discriminate]. intros [= <-]. exact (Hs _ _ _ _ E).
  - unfold numpy_cholesky. destruct (np_cholesky O n A) as [M|] eqn:EM; [|discriminate].
    destruct (np_solve O n M B) as [y|] eqn:Ey; [|discriminate].
    unfold lift. destruct (np_solve O n (herm M) y) as [x'|] eqn:Ex; [|discriminate]. intros [= <-].
    exact (two_solves n A M y x' B (Hn _ _ _ EM) (Hs _ _ _ _ Ey) (Hs _ _ _ _ Ex)).
  - destruct (sp_cholesky O n A) as [U|] eqn:EU; [|discriminate].
    unfold lift. destruct (sp_cho_solve O n U B) as [x'|] eqn:Ex; [|discriminate]. intros [= <-].
    apply (solves_ext n A _ x' B (Hsp _ _ _ EU)). exact (Hc _ _ _ _ Ex).
Qed.

(* the method strings: exactly three are accepted, everything else is a ValueError whatever the data *)
Theorem cholesky_method_thm n A B method :
  (method <> "numpy_solver" /\ method <> "numpy" /\ method <> "scipy")%string <-> CHOLESKY O n A B method = inl ValueError.
Proof.
  unfold CHOLESKY, parse_method.
  destruct (String.eqb_spec method "numpy_solver") as [->|H1].
  { split; [intros (H & _); congruence|]. unfold lift. destruct (np_solve O n A B); discriminate. }
  destruct (String.eqb_spec method "numpy") as [->|H2].
  { split; [intros (_ & H & _); congruence|]. unfold numpy_cholesky, lift.
    destruct (np_cholesky O n A); [|discriminate]. destruct (np_solve O n _ B); [|discriminate].
    destruct (np_solve O n _ _); discriminate. }
  destruct (String.eqb_spec method "scipy") as [->|H3].
  { split; [intros (_ & _ & H); congruence|]. unfold lift. destruct (sp_cholesky O n A); [|discriminate].
    destruct (sp_cho_solve O n _ B); discriminate. }
  split; [reflexivity|intros _; auto].
Qed.

(* the solution is the one of A x = B: when A is nonsingular in the sense that A x = 0 has only x = 0 on the block, all
   accepted methods return the same vector *)
Theorem cholesky_methods_agree_thm n A B m1 m2 x1 x2 :
  solve_spec -> np_chol_spec -> sp_chol_spec -> cho_solve_spec ->
  (forall d, solves n A d (fun _ => 0) -> forall i, (i < n)%nat -> d i = 0) ->
  CHOLESKY O n A B m1 = inr x1 -> CHOLESKY O n A B m2 = inr x2 -> forall i, (i < n)%nat -> x1 i = x2 i.
Proof.
  intros Hs Hn Hsp Hc Hinj E1 E2 i Hi.
  pose proof (cholesky_solves_thm n A B m1 x1 Hs Hn Hsp Hc E1) as S1.
  pose proof (cholesky_solves_thm n A B m2 x2 Hs Hn Hsp Hc E2) as S2.
  assert (D : solves n A (fun j => x1 j - x2 j) (fun _ => 0)).
  { intros k Hk. unfold mvmul. transitivity (mvmul n A x1 k - mvmul n A x2 k).
    - unfold mvmul. rewrite <- sumf_sub. apply sumf_ext; intros j Hj. ring.
    - rewrite (S1 k Hk), (S2 k Hk). ring. }
  pose proof (Hinj _ D i Hi) as Z. cbv beta in Z.
  transitivity (x1 i - x2 i + x2 i); [ring|]. rewrite Z. ring.
Qed.

End Chol.
