(* Least squares in the abstract (ordered) *-field, on nat-indexed families:
   normal equations <-> residual orthogonal to every column, Pythagoras, minimum,
   "e = b^H b + (b^H A) a" is the minimal energy, uniqueness under full column rank. *)
Require Import Spectrum.Theory.Ops Spectrum.Theory.Sum Spectrum.Theory.Vec Spectrum.Theory.Order.

Section LsF.
Context {F : Type} {OF : Ops F} {L : Laws OF}.
Local Open Scope F_scope.
Add Field FFls : (fth (O:=OF)).

(* M rows, p columns; the model is  b + A a ~ 0  (the code solves lstsq(-A, b)) *)
Variables (M p : nat) (A : nat -> nat -> F) (b : nat -> F).

Definition lin (c : nat -> F) (n : nat) : F := sumf p (fun j => A n j * c j).
Definition res (a : nat -> F) (n : nat) : F := b n + lin a n.
Definition energy (a : nat -> F) : F := sumf M (fun n => nrm2 (res a n)).
Definition gramf (i j : nat) : F := sumf M (fun n => conj (A n i) * A n j).
(* (A^H A) a = (-A)^H b : the normal equations of lstsq(-A, b) *)
Definition NE (a : nat -> F) : Prop :=
  forall i, (i < p)%nat -> sumf p (fun j => gramf i j * a j) = - sumf M (fun n => conj (A n i) * b n).
Definition orth (a : nat -> F) : Prop :=
  forall i, (i < p)%nat -> sumf M (fun n => conj (A n i) * res a n) = 0.
(* e = b^H b + (b^H A) a *)
Definition evalue (a : nat -> F) : F :=
  sumf M (fun n => conj (b n) * b n) + sumf p (fun j => sumf M (fun n => conj (b n) * A n j) * a j).

Lemma col_res_split a i :
  sumf M (fun n => conj (A n i) * res a n)
  = sumf M (fun n => conj (A n i) * b n) + sumf p (fun j => gramf i j * a j).
Proof.
  unfold res, lin, gramf.
  rewrite (sumf_ext M _ (fun n => conj (A n i) * b n + sumf p (fun j => conj (A n i) * A n j * a j))).
  2:{ intros n _.
      transitivity (conj (A n i) * b n + conj (A n i) * sumf p (fun j => A n j * a j)); [ring|].
      f_equal. rewrite <- sumf_scale. apply sumf_ext; intros j _. ring. }
  rewrite sumf_add. f_equal. rewrite sumf_exch. apply sumf_ext; intros j _.
  rewrite sumf_scale_r. reflexivity.
Qed.

Lemma NE_orth a : NE a <-> orth a.
Proof.
  unfold NE, orth. split; intros H i Hi; specialize (H i Hi).
  - rewrite col_res_split, H. ring.
  - rewrite col_res_split in H.
    transitivity (sumf M (fun n => conj (A n i) * b n) + sumf p (fun j => gramf i j * a j)
                  - sumf M (fun n => conj (A n i) * b n)); [ring|rewrite H; ring].
Qed.

(* the residual of an orthogonal a is orthogonal to the whole column space *)
Lemma cross a d : orth a -> sumf M (fun n => conj (res a n) * lin d n) = 0.
Proof.
  intros H. unfold lin.
  rewrite (sumf_ext M _ (fun n => sumf p (fun j => d j * conj (conj (A n j) * res a n)))).
  2:{ intros n _. rewrite <- sumf_scale. apply sumf_ext; intros j _. rewrite conj_mul, conj_conj. ring. }
  rewrite sumf_exch. apply sumf_zero_ext; intros j Hj.
  rewrite sumf_scale, <- sumf_conj, (H j Hj), conj_0. ring.
Qed.
Lemma cross' a d : orth a -> sumf M (fun n => res a n * conj (lin d n)) = 0.
Proof.
  intros H. rewrite <- (conj_conj (sumf M _)), sumf_conj.
  rewrite (sumf_ext M _ (fun n => conj (res a n) * lin d n)).
  2:{ intros n _. rewrite conj_mul, conj_conj. reflexivity. }
  rewrite cross by exact H. apply conj_0.
Qed.

Lemma res_shift a a' n : res a' n = res a n + lin (fun j => a' j - a j) n.
Proof.
  unfold res, lin. rewrite (sumf_ext p (fun j => A n j * (a' j - a j)) (fun j => A n j * a' j - A n j * a j)).
  2:{ intros; ring. }
  rewrite sumf_sub. ring.
Qed.

Theorem ls_pythagoras_f a a' : orth a ->
  energy a' - energy a = sumf M (fun n => nrm2 (lin (fun j => a' j - a j) n)).
Proof.
  intros H. unfold energy. set (d := fun j => a' j - a j).
  rewrite (sumf_ext M (fun n => nrm2 (res a' n))
             (fun n => nrm2 (res a n) + nrm2 (lin d n) + (res a n * conj (lin d n) + conj (res a n) * lin d n))).
  2:{ intros n _. rewrite (res_shift a a' n). fold d. unfold nrm2. rewrite conj_add. ring. }
  rewrite !sumf_add, (cross a d H), (cross' a d H). ring.
Qed.

Theorem ls_e_is_energy_f a : orth a -> evalue a = energy a.
Proof.
  intros H. unfold evalue, energy.
  transitivity (sumf M (fun n => conj (b n) * res a n)).
  { unfold res, lin.
    rewrite (sumf_ext M (fun n => conj (b n) * (b n + sumf p (fun j => A n j * a j)))
               (fun n => conj (b n) * b n + sumf p (fun j => conj (b n) * A n j * a j))).
    2:{ intros n _.
        transitivity (conj (b n) * b n + conj (b n) * sumf p (fun j => A n j * a j)); [ring|].
        f_equal. rewrite <- sumf_scale. apply sumf_ext; intros; ring. }
    rewrite sumf_add. f_equal. rewrite sumf_exch. apply sumf_ext; intros j _. rewrite sumf_scale_r. reflexivity. }
  transitivity (sumf M (fun n => conj (b n) * res a n) + sumf M (fun n => res a n * conj (lin a n))).
  { rewrite (cross' a a H). ring. }
  rewrite <- sumf_add. apply sumf_ext; intros n _. unfold nrm2.
  unfold res at 4. rewrite conj_add. ring.
Qed.

Context {OL : OrdLaws OF}.

Theorem ls_minimum_f a a' : orth a -> le (energy a) (energy a').
Proof. intros H. unfold le. rewrite (ls_pythagoras_f a a' H). apply nonneg_sum_nrm2. Qed.
Lemma energy_nonneg a : nonneg (energy a).
Proof. apply nonneg_sum_nrm2. Qed.
Lemma energy_zero_res a : energy a = 0 -> forall n, (n < M)%nat -> res a n = 0.
Proof. intros E. apply sum_nrm2_zero. exact E. Qed.
Lemma res_zero_orth a : (forall n, (n < M)%nat -> res a n = 0) -> orth a.
Proof. intros H i _. apply sumf_zero_ext; intros n Hn. rewrite (H n Hn). ring. Qed.

(* if some coefficient vector has zero residual, every solution of the normal equations has *)
Theorem ls_zero_min_f a c : orth a -> (forall n, (n < M)%nat -> res c n = 0) ->
  energy a = 0 /\ forall n, (n < M)%nat -> res a n = 0.
Proof.
  intros H Hc.
  assert (Ec : energy c = 0).
  { unfold energy. apply sumf_zero_ext; intros n Hn. rewrite (Hc n Hn). unfold nrm2; ring. }
  assert (E : energy a = 0).
  { apply le_antisym; [rewrite <- Ec; apply ls_minimum_f; exact H|].
    unfold le. apply (nonneg_eq (energy a)); [ring|apply energy_nonneg]. }
  split; [exact E|apply energy_zero_res; exact E].
Qed.

(* full column rank: A c = 0 only for c = 0 *)
Definition full_rank : Prop :=
  forall c : nat -> F, (forall n, (n < M)%nat -> lin c n = 0) -> forall j, (j < p)%nat -> c j = 0.

Theorem ls_unique_min_f a a' : full_rank -> orth a -> energy a' = energy a ->
  forall j, (j < p)%nat -> a' j = a j.
Proof.
  intros Hr H E j Hj.
  assert (Z : sumf M (fun n => nrm2 (lin (fun j => a' j - a j) n)) = 0).
  { rewrite <- (ls_pythagoras_f a a' H), E. ring. }
  assert (D : a' j - a j = 0).
  { apply (Hr (fun j => a' j - a j)); [|exact Hj]. apply sum_nrm2_zero. exact Z. }
  transitivity (a' j - a j + a j); [ring|rewrite D; ring].
Qed.
Theorem ls_unique_f a a' : full_rank -> orth a -> orth a' -> forall j, (j < p)%nat -> a' j = a j.
Proof.
  intros Hr H H'. apply ls_unique_min_f; [exact Hr|exact H|].
  apply le_antisym; apply ls_minimum_f; assumption.
Qed.
End LsF.
