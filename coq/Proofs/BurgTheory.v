(* Burg: what the returned triple is (step-up polynomial, rho product, nesting, criteria = some order). *)
Require Import Spectrum.Theory.Ops Spectrum.Theory.Sum Spectrum.Theory.Vec Spectrum.Model.Levinson
               Spectrum.Model.Burg Spectrum.Proofs.LevinsonTheory.

Section BurgT.
Context {F : Type} {OF : Ops F} {L : Laws OF}.
Local Open Scope F_scope.
Add Field FFbt : (fth (O:=OF)).

(* the step-up (rc2poly) polynomial of a list of reflection coefficients, without the leading 1 *)
Definition stepup_all (ks : list F) : list F := fold_left stepup ks [].
Lemma stepup_all_app ks k : stepup_all (ks ++ [k]) = stepup (stepup_all ks) k.
Proof. unfold stepup_all. rewrite fold_left_app. reflexivity. Qed.

Definition BInv (x : list F) (m : nat) (st : burg_st) : Prop :=
  length (b_ref st) = m /\ b_a st = stepup_all (b_ref st) /\ b_rho st = mean_power x * prodk (b_ref st)
  /\ length (b_ef st) = length x /\ length (b_eb st) = length x.

Lemma nrm2_unfold k : 1 - nrm2 k = 1 - k * conj k. Proof. reflexivity. Qed.

Lemma burg_step_inv stop x m st st' : BInv x m st ->
  burg_step stop (length x) st m = BCont st' -> BInv x (S m) st'.
Proof.
  intros (Hl & Ha & Hr & He & Hb). unfold burg_step.
  destruct (stop _ _ _); [discriminate|]. destruct (le0 _); [discriminate|].
  intros H. injection H as <-. unfold BInv. cbn [b_ref b_a b_rho b_ef b_eb].
  split; [rewrite app_length; cbn; lia|].
  split; [rewrite stepup_all_app, Ha; reflexivity|].
  split; [rewrite prodk_app, Hr; unfold nrm2; ring|].
  split; apply mk_length.
Qed.
Lemma burg_step_stop stop N st m st' : burg_step stop N st m = BStop st' -> st' = st.
Proof.
  unfold burg_step. destruct (stop _ _ _); [|destruct (le0 _); discriminate].
  intros H; injection H as <-; reflexivity.
Qed.
Lemma burg_init_inv x : BInv x O (burg_init x).
Proof. unfold BInv, burg_init; cbn. repeat split; auto. ring. Qed.

Lemma burg_iter_cont_inv stop x m st : burg_iter stop x m = BCont st -> BInv x m st.
Proof.
  revert st; induction m; intros st H.
  - cbn in H. injection H as <-. apply burg_init_inv.
  - cbn [burg_iter] in H. destruct (burg_iter stop x m) as [s0| |] eqn:E; try discriminate.
    eapply burg_step_inv; [apply IHm; reflexivity|exact H].
Qed.

(* a stopped run returns a state reached by the plain recursion at some earlier order *)
Lemma burg_iter_stop stop x m st : burg_iter stop x m = BStop st ->
  exists q, (q < m)%nat /\ burg_iter stop x q = BCont st.
Proof.
  induction m; intros H; [discriminate|].
  cbn [burg_iter] in H. destruct (burg_iter stop x m) as [s0|s0|] eqn:E; try discriminate.
  - apply burg_step_stop in H. subst. exists m. split; [lia|exact E].
  - injection H as ->. destruct (IHm eq_refl) as (q & Hq & Hc). exists q. split; [lia|exact Hc].
Qed.

(* as long as the criterion does not fire, the run with a criterion IS the plain run *)
Lemma burg_step_nostop stop N st m st' : burg_step stop N st m = BCont st' -> burg_step no_stop N st m = BCont st'.
Proof.
  unfold burg_step, no_stop. destruct (stop _ _ _); [discriminate|]. auto.
Qed.
Lemma burg_iter_nostop stop x m st : burg_iter stop x m = BCont st -> burg_iter no_stop x m = BCont st.
Proof.
  revert st; induction m; intros st H; [exact H|].
  cbn [burg_iter] in *. destruct (burg_iter stop x m) as [s0| |] eqn:E; try discriminate.
  rewrite (IHm s0 eq_refl). eapply burg_step_nostop; exact H.
Qed.

Lemma burg_iter_prefix stop x p q st : (q <= p)%nat -> burg_iter stop x p = BCont st ->
  exists st', burg_iter stop x q = BCont st' /\ b_ref st' = firstn q (b_ref st).
Proof.
  intros Hq. revert st. induction p; intros st H.
  - replace q with O by lia. exists st. split; [exact H|]. cbn in H. injection H as <-. reflexivity.
  - destruct (Nat.eq_dec q (S p)) as [->|Hne].
    + exists st. split; [exact H|]. pose proof (burg_iter_cont_inv _ _ _ _ H) as (Hl & _).
      rewrite <- Hl. symmetry. apply firstn_all.
    + cbn [burg_iter] in H. destruct (burg_iter stop x p) as [s0| |] eqn:E; try discriminate.
      destruct (IHp ltac:(lia) s0 eq_refl) as (st' & Hc & Hf). exists st'. split; [exact Hc|].
      pose proof (burg_iter_cont_inv _ _ _ _ E) as (Hl & _).
      unfold burg_step in H. destruct (stop _ _ _); [discriminate|]. destruct (le0 _); [discriminate|].
      injection H as <-. cbn. rewrite firstn_app, Hl. replace (q - p)%nat with O by lia. cbn. rewrite app_nil_r. exact Hf.
Qed.

Lemma no_stop_never_stops x m st : burg_iter no_stop x m <> BStop st.
Proof.
  revert st; induction m; intros st H; [discriminate|].
  cbn [burg_iter] in H. destruct (burg_iter no_stop x m) as [s0|s0|] eqn:E; try discriminate.
  - unfold burg_step, no_stop in H. destruct (le0 _); discriminate.
  - exact (IHm s0 eq_refl).
Qed.

(* ---------- statements about [arburg] ---------- *)
Theorem arburg_shape_thm x p a rho ref :
  arburg x p no_stop = Some (a, rho, ref) ->
  length ref = p /\ a = stepup_all ref /\ rho = mean_power x * prodk ref /\ le0 rho = false.
Proof.
  unfold arburg. destruct ((p =? 0)%nat || (length x <? p)%nat) eqn:G; [discriminate|].
  destruct (burg_iter no_stop x p) as [st|st|] eqn:E; try discriminate.
  - intros H. injection H as <- <- <-. destruct (burg_iter_cont_inv _ _ _ _ E) as (Hl & Ha & Hr & _).
    repeat split; auto.
    destruct p; [cbn in G; discriminate|]. cbn [burg_iter] in E.
    destruct (burg_iter no_stop x p) as [s0| |]; try discriminate.
    unfold burg_step, no_stop in E. destruct (le0 _) eqn:Hle; [discriminate|]. injection E as <-. exact Hle.
  - exfalso. exact (no_stop_never_stops _ _ _ E).
Qed.

Theorem arburg_nested_thm x p q a rho ref : (1 <= q <= p)%nat ->
  arburg x p no_stop = Some (a, rho, ref) ->
  exists a' rho', arburg x q no_stop = Some (a', rho', firstn q ref).
Proof.
  intros Hq. unfold arburg.
  destruct ((p =? 0)%nat || (length x <? p)%nat) eqn:G; [discriminate|].
  apply orb_false_iff in G. destruct G as [G1 G2]. apply Nat.ltb_ge in G2.
  destruct (burg_iter no_stop x p) as [st|st|] eqn:E; try discriminate.
  2:{ exfalso. exact (no_stop_never_stops _ _ _ E). }
  intros H. injection H as <- <- <-.
  destruct (burg_iter_prefix _ _ p q _ ltac:(lia) E) as (st' & Hc & Hf).
  exists (b_a st'), (b_rho st').
  replace ((q =? 0)%nat || (length x <? q)%nat) with false.
  2:{ symmetry. apply orb_false_iff. split; [apply Nat.eqb_neq; lia|apply Nat.ltb_ge; lia]. }
  rewrite Hc. unfold burg_result. rewrite Hf. reflexivity.
Qed.

(* with an order-selection criterion the triple returned is exactly the plain Burg state of
   some order q <= p (q = 0 is the empty model: a = [], rho = mean power, no reflection coefficient) *)
Theorem arburg_criteria_thm x p stop res :
  arburg x p stop = Some res ->
  exists q st, (q <= p)%nat /\ burg_iter no_stop x q = BCont st /\ res = burg_result st.
Proof.
  unfold arburg. destruct ((p =? 0)%nat || (length x <? p)%nat); [discriminate|].
  destruct (burg_iter stop x p) as [st|st|] eqn:E; try discriminate; intros H; injection H as <-.
  - exists p, st. split; [lia|]. split; [|reflexivity]. eapply burg_iter_nostop; exact E.
  - apply burg_iter_stop in E. destruct E as (q & Hq & E). exists q, st. split; [lia|].
    split; [|reflexivity]. eapply burg_iter_nostop; exact E.
Qed.
End BurgT.
