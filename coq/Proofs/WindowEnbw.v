(* ENBW >= 1 for every real vector (Cauchy-Schwarz against the all-ones vector), in the abstract
   ordered *-field: axiom-free, and applicable to R and to the Gaussian rationals alike. *)
Require Import Spectrum.Theory.Ops Spectrum.Theory.Sum Spectrum.Theory.Vec Spectrum.Theory.Order Spectrum.Model.Window.

Section Embed.
Context {F : Type} {OF : Ops F} {L : Laws OF}.
Local Open Scope F_scope.
Add Field FFwe : (fth (O:=OF)).

Lemma ofpos_succ p : ofpos (Pos.succ p) = ofpos p + 1.
Proof. induction p; cbn [ofpos Pos.succ]; unfold two; [rewrite IHp; ring|ring|ring]. Qed.
Lemma ofn_S n : ofn (S n) = ofn n + 1.
Proof.
  unfold ofn. rewrite Nat2Z.inj_succ. destruct (Z.of_nat n) eqn:E; cbn [Z.succ Z.add ofZ].
  - cbn. ring.
  - rewrite Pos.add_1_r. apply ofpos_succ.
  - exfalso. pose proof (Nat2Z.is_nonneg n). rewrite E in H. apply H. reflexivity.
Qed.
Lemma ofn_ofnat n : ofn n = ofnat n.
Proof. induction n; [reflexivity|]. rewrite ofn_S, IHn. reflexivity. Qed.
Lemma ofn_0 : ofn 0 = 0. Proof. reflexivity. Qed.
End Embed.

Section Enbw.
Context {F : Type} {OF : Ops F} {L : Laws OF} {OL : OrdLaws OF}.
Local Open Scope F_scope.
Add Field FFwn : (fth (O:=OF)).

Lemma cs_ones n (w : nat -> F) : (forall i, (i < n)%nat -> isreal (w i)) ->
  le (sq (sumf n w)) (ofnat n * sumf n (fun i => sq (w i))).
Proof.
  intros Hr. pose proof (cauchy_schwarz n w (fun _ => 1)) as H. unfold le in *.
  assert (Es : isreal (sumf n w)).
  { unfold isreal. rewrite sumf_conj. apply sumf_ext. intros i Hi. apply Hr; exact Hi. }
  apply (nonneg_eq _ _) with (2 := H).
  assert (E1 : sumf n (fun i => w i * conj 1) = sumf n w) by (apply sumf_ext; intros i _; rewrite conj_1; ring).
  assert (E2 : sumf n (fun i => nrm2 (w i)) = sumf n (fun i => sq (w i))).
  { apply sumf_ext. intros i Hi. unfold nrm2, sq. rewrite (Hr i Hi). reflexivity. }
  assert (E3 : sumf n (fun _ : nat => nrm2 1) = ofnat n).
  { unfold nrm2. rewrite conj_1. rewrite sumf_const. ring. }
  rewrite E1, E2, E3. unfold nrm2, sq. rewrite Es. ring.
Qed.

Lemma sumL_map_sq (w : list F) : sumL (map sq w) = sumf (length w) (fun i => sq (nthF w i)).
Proof.
  rewrite sumL_sumf, map_length. apply sumf_ext. intros i _. apply nthF_map. unfold sq. ring.
Qed.

Theorem enbw_cs_thm (w : list F) : (forall i, (i < length w)%nat -> isreal (nthF w i)) ->
  le (sq (sumL w)) (ofn (length w) * sumL (map sq w)).
Proof.
  intros Hr. rewrite sumL_map_sq, (sumL_sumf w), ofn_ofnat. apply cs_ones. exact Hr.
Qed.

Theorem enbw_ge_1_thm (w : list F) : (forall i, (i < length w)%nat -> isreal (nthF w i)) ->
  sumL w <> 0 -> le 1 (enbw w).
Proof.
  intros Hr Hs. pose proof (enbw_cs_thm w Hr) as H. unfold le in *. unfold enbw.
  assert (Es : isreal (sumL w)).
  { rewrite sumL_sumf. unfold isreal. rewrite sumf_conj. apply sumf_ext. intros i Hi. apply Hr; exact Hi. }
  assert (Hp : pos (sq (sumL w))).
  { split.
    - apply (nonneg_eq (nrm2 (sumL w))); [unfold nrm2, sq; rewrite Es; reflexivity|apply nn_nrm2].
    - unfold sq. intros E. apply Hs. apply (mul_cancel_l (sumL w) (sumL w)); assumption. }
  apply (nonneg_eq ((ofn (length w) * sumL (map sq w) - sq (sumL w)) / sq (sumL w))).
  - field. apply Hp.
  - apply nonneg_div; assumption.
Qed.
End Enbw.
