(* C04 — arma2psd under rotation of the coefficients (coefficient j times tw(-m(j+1)) => spectrum rotated by m bins),
   under conjugation (=> mirrored); conjugation laws of the correlation / LEVINSON pair; aryule under modulation and
   conjugation. *)
Require Import Spectrum.Theory.Ops Spectrum.Theory.Sum Spectrum.Theory.Vec Spectrum.Theory.Dft
               Spectrum.Model.Levinson Spectrum.Model.Corr Spectrum.Model.Arma2psd Spectrum.Model.Yule
               Spectrum.Proofs.CorrTheory Spectrum.Proofs.LevinsonTheory Spectrum.Proofs.ShiftTheory
               Spectrum.Proofs.Arma2psdTheory Spectrum.Proofs.ShiftDft_C04 Spectrum.Proofs.ShiftPeriodogram_C04.

Section ArmaShift.
Context {F : Type} {OF : Ops F} {L : Laws OF}.
Context (n : nat) (tw : Z -> F) {Tw : Twiddle n tw} (n_pos : (0 < n)%nat).
Local Open Scope F_scope.
Add Field FFsa : (fth (O:=OF)).

Definition omap (g : list F -> list F) (c : option (list F)) : option (list F) := option_map g c.
Lemma olen_omap g c : (forall l, length (g l) = length l) -> olen (omap g c) = olen c.
Proof. intros H. destruct c; cbn; [rewrite H|]; reflexivity. Qed.
Lemma admissible_omap g A B : (forall l, length (g l) = length l) -> admissible A B n -> admissible (omap g A) (omap g B) n.
Proof.
  intros H [Hab [HA HB]]. unfold admissible. rewrite !olen_omap by exact H. repeat split; try assumption.
  destruct Hab as [Ha|Hb]; [left; destruct A; [discriminate|congruence]|right; destruct B; [discriminate|congruence]].
Qed.
Lemma arma2psd_none_iff A B A' B' rho T sides norm : olen A' = olen A -> olen B' = olen B ->
  (A = None <-> A' = None) -> (B = None <-> B' = None) ->
  arma2psd tw A B rho T n sides norm = None -> arma2psd tw A' B' rho T n sides norm = None.
Proof.
  intros EA EB HA HB H. apply arma2psd_raises_thm in H. apply arma2psd_raises_thm. rewrite EA, EB.
  destruct H as [[H1 H2]|[H|H]]; [left; split; [apply HA; exact H1|apply HB; exact H2]|right; left; exact H|right; right; exact H].
Qed.

Lemma pad_vmod m (c : list F) : (length c < n)%nat ->
  pad n (1 :: vmod (sphase tw m) 1 c) = vmod (sphase tw m) 0 (pad n (1 :: c)).
Proof.
  intros Hc. apply list_eq_nth; [rewrite vmod_length; unfold pad; rewrite !mk_length; reflexivity|].
  intros j Hj. unfold pad in Hj. rewrite mk_length in Hj. rewrite nthF_vmod. unfold pad. rewrite !nth_mk by exact Hj.
  destruct j; [rewrite !nthF_cons0; cbn [Z.of_nat Z.add]; rewrite (sphase_0 n tw); ring|].
  rewrite !nthF_consS, nthF_vmod. do 2 f_equal. lia.
Qed.
Lemma pad_vconj (c : list F) : pad n (1 :: vconj c) = vconj (pad n (1 :: c)).
Proof.
  apply list_eq_nth; [rewrite vconj_length; unfold pad; rewrite !mk_length; reflexivity|].
  intros j Hj. unfold pad in Hj. rewrite mk_length in Hj. rewrite nthF_vconj. unfold pad. rewrite !nth_mk by exact Hj.
  destruct j; [rewrite !nthF_cons0; symmetry; apply conj_1|]. rewrite !nthF_consS. apply nthF_vconj.
Qed.

Lemma rawbin_rot m A B rho Tt k : admissible A B n -> (k < n)%nat ->
  rawbin tw (omap (vmod (sphase tw m) 1) A) (omap (vmod (sphase tw m) 1) B) rho Tt n k
  = rawbin tw A B rho Tt n (ridx n (Z.of_nat k - m)).
Proof.
  intros [_ [HA HB]] Hk. unfold rawbin.
  destruct A as [a|], B as [b|]; cbn [omap option_map olen] in *; try reflexivity;
    rewrite ?pad_vmod by lia; rewrite ?(dft_list_shift n tw n_pos);
    rewrite ?nth_rot by (rewrite dft_length; exact Hk); rewrite ?dft_length; reflexivity.
Qed.
Lemma nrm2_conj' (a : F) : nrm2 (conj a) = nrm2 a.
Proof. unfold nrm2. rewrite conj_conj. ring. Qed.
Lemma rawbin_mirror A B rho Tt k : (k < n)%nat ->
  rawbin tw (omap vconj A) (omap vconj B) rho Tt n k = rawbin tw A B rho Tt n (ridx n (- Z.of_nat k)).
Proof.
  intros Hk. unfold rawbin.
  destruct A as [a|], B as [b|]; cbn [omap option_map] in *; try reflexivity;
    rewrite ?pad_vconj; rewrite ?(dft_list_conj n tw n_pos); rewrite ?nthF_vconj, ?nrm2_conj';
    rewrite ?nth_mirror by (rewrite dft_length; exact Hk); rewrite ?dft_length; reflexivity.
Qed.

(* numpy.fft.fftshift is the rotation by NFFT/2 *)
Lemma fftshift_rot (l : list F) : fftshift l = rot (Z.of_nat (length l / 2)) l.
Proof.
  unfold fftshift, rot. apply mk_ext; intros j Hj. set (N := length l) in *.
  assert (Hh : (N / 2 <= N)%nat) by (apply Nat.div_le_upper_bound; lia).
  destruct (Nat.ltb_spec j (N / 2)) as [H|H]; f_equal; unfold ridx.
  - replace (Z.of_nat j - Z.of_nat (N / 2))%Z with (Z.of_nat (j + (N - N / 2)) + (-1) * Z.of_nat N)%Z by lia.
    rewrite Z_mod_plus_full, Z.mod_small by lia. symmetry. apply Nat2Z.id.
  - rewrite Z.mod_small by lia. lia.
Qed.
Lemma post_rot sides m (l : list F) : arma_post sides false (rot m l) = rot m (arma_post sides false l).
Proof.
  unfold arma_post. destruct sides; [reflexivity|]. rewrite !fftshift_rot, rot_length, !rot_rot. f_equal. lia.
Qed.

(* AR / MA coefficient j multiplied by tw(-m(j+1)): the spectrum is rotated by m bins; same raise behaviour *)
Theorem arma2psd_rotation_thm (m : Z) A B rho Tt sides :
  arma2psd tw (omap (vmod (sphase tw m) 1) A) (omap (vmod (sphase tw m) 1) B) rho Tt n sides false
  = option_map (rot m) (arma2psd tw A B rho Tt n sides false).
Proof.
  destruct (arma2psd tw A B rho Tt n sides false) as [psd|] eqn:E.
  - pose proof (arma2psd_some_adm _ _ _ _ _ _ _ _ _ E) as Hadm.
    rewrite arma2psd_unfold in E by exact Hadm. injection E as <-.
    rewrite arma2psd_unfold by (apply admissible_omap; [apply vmod_length|exact Hadm]).
    cbn [option_map]. apply f_equal.
    transitivity (arma_post sides false (rot m (mk n (fun k => re (rawbin tw A B rho Tt n k))))); [|apply post_rot].
    f_equal. rewrite rot_mk. apply mk_ext; intros k Hk.
    f_equal. apply rawbin_rot; assumption.
  - cbn [option_map]. revert E. apply arma2psd_none_iff; try (apply olen_omap; apply vmod_length);
      [destruct A|destruct B]; cbn; split; congruence.
Qed.

(* the mirror of a centred spectrum is not the centred mirror for even NFFT: default sides only *)
Theorem arma2psd_mirror_thm A B rho Tt :
  arma2psd tw (omap vconj A) (omap vconj B) rho Tt n SidesDefault false
  = option_map mirror (arma2psd tw A B rho Tt n SidesDefault false).
Proof.
  destruct (arma2psd tw A B rho Tt n SidesDefault false) as [psd|] eqn:E.
  - pose proof (arma2psd_some_adm _ _ _ _ _ _ _ _ _ E) as Hadm.
    rewrite arma2psd_unfold in E by exact Hadm. injection E as <-.
    rewrite arma2psd_unfold by (apply admissible_omap; [apply vconj_length|exact Hadm]).
    cbn [option_map arma_post]. f_equal. rewrite mirror_mk. apply mk_ext; intros k Hk.
    f_equal. apply rawbin_mirror; assumption.
  - cbn [option_map]. revert E. apply arma2psd_none_iff; try (apply olen_omap; apply vconj_length);
      [destruct A|destruct B]; cbn; split; congruence.
Qed.
End ArmaShift.

(* ---------------- conjugation of the correlation / LEVINSON pair ---------------- *)
Section ConjLev.
Context {F : Type} {OF : Ops F} {L : Laws OF}.
Local Open Scope F_scope.
Add Field FFsa2 : (fth (O:=OF)).

Lemma mean_pow_conj (x : list F) : mean_pow (vconj x) = mean_pow x.
Proof.
  unfold mean_pow. rewrite vconj_length. f_equal. rewrite !sumL_map_nrm2', vconj_length.
  apply sumf_ext; intros j _. rewrite nthF_vconj. apply nrm2_conj'.
Qed.
Lemma lag_sum_conj N (x y : list F) k : lag_sum N (vconj x) (vconj y) k = conj (lag_sum N x y k).
Proof. rewrite !lag_sum_sumf, sumf_conj. apply sumf_ext; intros j _. rewrite !nthF_vconj, conj_mul. reflexivity. Qed.
Lemma mean_pow_real (x : list F) : ofnat (length x) <> 0 -> isreal (mean_pow x).
Proof.
  intros H. unfold isreal, mean_pow. rewrite conj_div, conj_ofnat by exact H. f_equal.
  rewrite sumL_map_nrm2', sumf_conj. apply sumf_ext; intros j _. apply nrm2_real.
Qed.

(* autocorrelation of the conjugated data: conjugated lags (characteristic 0; 'coeff': mean power nonzero) *)
Theorem acorr_conj_thm (x : list F) ml nm : (forall k, (1 <= k)%nat -> ofnat k <> 0) ->
  (nm = Coeff -> mean_pow x <> 0) ->
  acorr (vconj x) ml nm = option_map vconj (acorr x ml nm).
Proof.
  intros Hch Hmp. unfold acorr, correlation. cbv zeta. rewrite vconj_length, mean_pow_conj, Nat.max_id.
  destruct (Nat.ltb_spec ml (length x)) as [Hl|Hl]; [|reflexivity]. cbn [option_map]. f_equal.
  apply list_eq_nth; [rewrite vconj_length, !mk_length; reflexivity|].
  intros k Hk. rewrite mk_length in Hk. rewrite nthF_vconj, !nth_mk by exact Hk. rewrite lag_sum_conj.
  assert (HN : ofnat (length x) <> 0) by (apply Hch; lia).
  assert (HNk : ofnat (length x - k) <> 0) by (apply Hch; lia).
  destruct k, nm; rewrite ?conj_div, ?conj_ofnat, ?conj_1 by (try assumption; apply Hmp; reflexivity);
    try reflexivity.
  rewrite (mean_pow_real x HN). reflexivity.
Qed.

Definition conjst (st : @lev_state F) : lev_state := let '(A, P, ks) := st in (vconj A, P, vconj ks).

Lemma lev_delta_conj (Tl A : list F) m : lev_delta (vconj Tl) (vconj A) m = conj (lev_delta Tl A m).
Proof.
  unfold lev_delta. rewrite !sumL_mk, conj_add, sumf_conj, nthF_vconj. f_equal.
  apply sumf_ext; intros j _. rewrite !nthF_vconj, conj_mul. reflexivity.
Qed.
Lemma stepup_conj (A : list F) k : stepup (vconj A) (conj k) = vconj (stepup A k).
Proof.
  unfold stepup, vconj. rewrite map_app, map_length. cbn [map]. f_equal.
  fold (vconj A). apply list_eq_nth; [rewrite map_length, !mk_length; reflexivity|].
  intros j Hj. rewrite mk_length in Hj. fold (vconj (mk (length A) (fun j0 => nthF A j0 + k * conj (nthF A (length A - 1 - j0))))).
  rewrite nthF_vconj, !nth_mk by exact Hj. rewrite !nthF_vconj, conj_add, conj_mul. reflexivity.
Qed.
Lemma vconj_app (a b : list F) : vconj (a ++ b) = vconj a ++ vconj b.
Proof. apply map_app. Qed.
Lemma lev_step_conj Tl allow A P ks m : isreal P -> P <> 0 ->
  lev_step (vconj Tl) allow (conjst (A, P, ks)) m = option_map conjst (lev_step Tl allow (A, P, ks) m).
Proof.
  intros HP HP0. unfold conjst, lev_step. rewrite lev_delta_conj.
  set (k := - lev_delta Tl A m / P).
  assert (Ek : - conj (lev_delta Tl A m) / P = conj k).
  { unfold k. rewrite conj_div, conj_opp, HP by exact HP0. reflexivity. }
  rewrite Ek, conj_conj. replace (conj k * k) with (k * conj k) by ring.
  destruct (le0 (P * (1 - k * conj k)) && negb allow); [reflexivity|]. cbn [option_map].
  rewrite stepup_conj, vconj_app. reflexivity.
Qed.
Lemma lev_step_real Tl allow A P ks m A' P' ks' : isreal P ->
  lev_step Tl allow (A, P, ks) m = Some (A', P', ks') -> isreal P'.
Proof.
  intros HP H. unfold lev_step in H. destruct (le0 _ && negb allow); [discriminate|]. injection H as _ <- _.
  apply isreal_mul; [exact HP|]. apply conj_1mkk.
Qed.
(* [ok q P] : the error power the recursion divides by at stage q is nonzero *)
Lemma lev_iter_conj Tl allow P0 m : isreal P0 ->
  (forall q A P ks, (q < m)%nat -> lev_iter Tl allow P0 q = Some (A, P, ks) -> P <> 0) ->
  lev_iter (vconj Tl) allow P0 m = option_map conjst (lev_iter Tl allow P0 m)
  /\ (forall A P ks, lev_iter Tl allow P0 m = Some (A, P, ks) -> isreal P).
Proof.
  intros HP0. induction m; intros Hok.
  - split; [reflexivity|]. intros A P ks H. cbn in H. injection H as _ <- _. exact HP0.
  - destruct IHm as [IH1 IH2]; [intros q A P ks Hq; apply Hok; lia|].
    cbn [lev_iter]. rewrite IH1.
    destruct (lev_iter Tl allow P0 m) as [[[A P] ks]|] eqn:E; [|split; [reflexivity|discriminate]].
    cbn [option_map]. split.
    + apply lev_step_conj; [apply (IH2 A P ks eq_refl)|apply (Hok m A P ks); [lia|exact E]].
    + intros A' P' ks' H. apply (lev_step_real Tl allow A P ks m A' P' ks'); [apply (IH2 A P ks eq_refl)|exact H].
Qed.
Lemma re_conj' (z : F) : re (conj z) = re z.
Proof. unfold re. rewrite conj_conj. f_equal. ring. Qed.
Lemma re_isreal (z : F) : isreal (re z).
Proof.
  unfold isreal, re. rewrite conj_div by apply two_neq_0. unfold two. rewrite !conj_add, conj_conj, conj_1. f_equal. ring.
Qed.
Lemma tl_vconj (r : list F) : tl (vconj r) = vconj (tl r).
Proof. destruct r; reflexivity. Qed.

(* LEVINSON on conjugated lags: conjugated AR / reflection coefficients, same error power, same raise decision;
   hypothesis: every error power the recursion divides by is nonzero (the code would produce inf/nan there) *)
Theorem levinson_conj_thm (r : list F) p allow :
  (forall q A P ks, (q < p)%nat -> levinson r q allow = Some (A, P, ks) -> P <> 0) ->
  levinson (vconj r) p allow = option_map conjst (levinson r p allow).
Proof.
  intros Hok. unfold levinson. rewrite vconj_length.
  destruct (Nat.leb_spec p (length r - 1)) as [Hp|Hp]; [|reflexivity].
  rewrite tl_vconj, nthF_vconj, re_conj'.
  apply lev_iter_conj; [apply re_isreal|].
  intros q A P ks Hq H. apply (Hok q A P ks Hq). unfold levinson.
  destruct (Nat.leb_spec q (length r - 1)); [exact H|lia].
Qed.
End ConjLev.

(* ---------------- aryule ---------------- *)
Section YuleShift.
Context {F : Type} {OF : Ops F} {L : Laws OF}.
Local Open Scope F_scope.

Definition map_yw (g : @lev_state F -> @lev_state F) (r : @yw_result F) : @yw_result F :=
  match r with inl e => inl e | inr st => inr (g st) end.

Section Mod.
Variable phi : Z -> F.
Hypothesis phi_add : forall a b : Z, phi (a + b)%Z = phi a * phi b.
Hypothesis phi_0 : phi 0%Z = 1.
Hypothesis phi_cj : forall a : Z, conj (phi a) = phi (- a)%Z.
(* aryule of the modulated data: coefficient j times phi(j+1), same error power, same error branch *)
Theorem aryule_modulation_thm (x : list F) order nm allow :
  aryule (vmod phi 0 x) order nm allow = map_yw (modst phi) (aryule x order nm allow).
Proof.
  unfold aryule. destruct nm; try reflexivity;
    rewrite (acorr_modulation_thm phi phi_add phi_0 phi_cj);
    (destruct (acorr x order _) as [r|]; [|reflexivity]); cbn [option_map];
    rewrite vmod_length, (levinson_modulation_thm phi phi_add phi_0 phi_cj);
    (destruct (levinson r (length r - 1) allow); reflexivity).
Qed.
End Mod.

Theorem aryule_conj_thm (x : list F) order nm allow : (forall k, (1 <= k)%nat -> ofnat k <> 0) ->
  (forall r q A P ks, acorr x order nm = Some r -> (q < length r - 1)%nat -> levinson r q allow = Some (A, P, ks) -> P <> 0) ->
  aryule (vconj x) order nm allow = map_yw conjst (aryule x order nm allow).
Proof.
  intros Hch Hok. unfold aryule. destruct nm; try reflexivity;
    (rewrite acorr_conj_thm by (try exact Hch; discriminate));
    (destruct (acorr x order _) as [r|] eqn:E; [|reflexivity]); cbn [option_map];
    rewrite vconj_length, levinson_conj_thm by (intros q A P ks Hq; apply (Hok r q A P ks eq_refl Hq));
    (destruct (levinson r (length r - 1) allow); reflexivity).
Qed.

(* time reversal with conjugation: aryule reads the data through the autocorrelation only *)
Theorem aryule_time_reversal_thm (x : list F) order nm allow : aryule (vrevconj x) order nm allow = aryule x order nm allow.
Proof. unfold aryule. rewrite !acorr_time_reversal_thm. reflexivity. Qed.
End YuleShift.
