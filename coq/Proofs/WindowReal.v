(* Real-number facts used by the window theorems: the model's number embeddings at R, trigonometric
   reflections and multiple angles, sinc, linspace. *)
From Coq Require Import Reals Lra Lia.
Require Import Spectrum.Theory.Ops Spectrum.Theory.Vec Spectrum.Model.Window Spectrum.Instances.RWin
               Spectrum.Proofs.WindowBridge.
Local Open Scope R_scope.

#[export] Existing Instance r_ops.

Ltac rsimp := cbn [zero one add mul sub opp div inv conj le0 r_ops
                   tcos tsin texp tln tsqrt tabs tpi tI0 tltb tleb teqb tcheb r_tops] in *.

Lemma two_R : @two R r_ops = 2. Proof. unfold two; rsimp; lra. Qed.
Lemma ofpos_IZR p : @ofpos R r_ops p = IZR (Zpos p).
Proof.
  induction p; cbn [ofpos]; rewrite ?two_R; rsimp.
  - rewrite IHp, (Pos2Z.inj_xI p), plus_IZR, mult_IZR. reflexivity.
  - rewrite IHp, (Pos2Z.inj_xO p), mult_IZR. reflexivity.
  - reflexivity.
Qed.
Lemma ofZ_IZR z : @ofZ R r_ops z = IZR z.
Proof.
  destruct z; cbn [ofZ]; rsimp; [reflexivity|apply ofpos_IZR|].
  rewrite ofpos_IZR. change (Zneg p) with (- Zpos p)%Z. rewrite opp_IZR. reflexivity.
Qed.
Lemma ofn_INR n : @ofn R r_ops n = INR n.
Proof. unfold ofn. rewrite ofZ_IZR, INR_IZR_INZ. reflexivity. Qed.
Lemma lit_IZR n d : @lit R r_ops n d = IZR n / IZR (Zpos d).
Proof. unfold lit. rewrite ofZ_IZR, ofpos_IZR. reflexivity. Qed.
Lemma half_R : @half R r_ops = / 2.
Proof. unfold half. rewrite lit_IZR. lra. Qed.
Lemma sq_R (x : R) : @sq R r_ops x = x * x. Proof. reflexivity. Qed.

(* ---- trigonometry *)
Lemma cos_2kPI_minus (k : nat) y : cos (2 * INR k * PI - y) = cos y.
Proof. replace (2 * INR k * PI - y) with (- y + 2 * INR k * PI) by ring. rewrite cos_period. apply cos_neg. Qed.
Lemma cos_2PI_minus y : cos (2 * PI - y) = cos y.
Proof. replace (2 * PI - y) with (2 * INR 1 * PI - y) by (simpl; ring). apply cos_2kPI_minus. Qed.
Lemma cos_4PI_minus y : cos (4 * PI - y) = cos y.
Proof. replace (4 * PI - y) with (2 * INR 2 * PI - y) by (simpl; ring). apply cos_2kPI_minus. Qed.
Lemma cos_6PI_minus y : cos (6 * PI - y) = cos y.
Proof. replace (6 * PI - y) with (2 * INR 3 * PI - y) by (simpl; ring). apply cos_2kPI_minus. Qed.
Lemma cos_8PI_minus y : cos (8 * PI - y) = cos y.
Proof. replace (8 * PI - y) with (2 * INR 4 * PI - y) by (simpl; ring). apply cos_2kPI_minus. Qed.
Lemma cos_2kPI (k : nat) : cos (2 * INR k * PI) = 1.
Proof. replace (2 * INR k * PI) with (0 + 2 * INR k * PI) by ring. rewrite cos_period. apply cos_0. Qed.
Lemma cos_odd_PI (k : nat) : cos (PI + 2 * INR k * PI) = -1.
Proof. rewrite cos_period. apply cos_PI. Qed.
Lemma cos_3PI : cos (3 * PI) = -1.
Proof. replace (3 * PI) with (PI + 2 * INR 1 * PI) by (simpl; ring). apply cos_odd_PI. Qed.
Lemma cos_4PI : cos (4 * PI) = 1.
Proof. replace (4 * PI) with (2 * INR 2 * PI) by (simpl; ring). apply cos_2kPI. Qed.

Lemma cos_3a x : cos (3 * x) = 4 * cos x * cos x * cos x - 3 * cos x.
Proof.
  replace (3 * x) with (2 * x + x) by ring. rewrite cos_plus, cos_2a_cos, sin_2a.
  pose proof (sin2_cos2 x) as H. unfold Rsqr in H.
  replace (2 * sin x * cos x * sin x) with (2 * cos x * (sin x * sin x)) by ring.
  replace (sin x * sin x) with (1 - cos x * cos x) by lra. ring.
Qed.
Lemma cos_4a x : cos (4 * x) = 8 * (cos x * cos x) * (cos x * cos x) - 8 * (cos x * cos x) + 1.
Proof. replace (4 * x) with (2 * (2 * x)) by ring. rewrite cos_2a_cos, cos_2a_cos. ring. Qed.

Lemma sin_le_x x : 0 <= x -> sin x <= x.
Proof. intros [H| <-]; [left; apply sin_lt_x; exact H|rewrite sin_0; lra]. Qed.
Lemma exp_le_1 x : x <= 0 -> exp x <= 1.
Proof. intros [H| ->]; [left; rewrite <- exp_0; apply exp_increasing; exact H|rewrite exp_0; lra]. Qed.

(* ---- sinc *)
Section WithOracles.
Variables (I0 : R -> R) (cheb : nat -> R -> list R).
#[local] Instance rT : TOps R := r_tops I0 cheb.
Ltac tsimp := cbn [tcos tsin texp tln tsqrt tabs tpi tI0 tltb tleb teqb tcheb r_tops rT] in *; rsimp.

Lemma sinc_0 : sinc 0 = 1.
Proof. unfold sinc; tsimp. destruct (Reqb_true 0 0) as [_ H]. rewrite H; reflexivity. Qed.
Lemma sinc_nz x : x <> 0 -> sinc x = sin (PI * x) / (PI * x).
Proof. intros H. unfold sinc; tsimp. apply Reqb_false in H. rewrite H. reflexivity. Qed.
Lemma sinc_even x : sinc (- x) = sinc x.
Proof.
  destruct (Req_EM_T x 0) as [->|Hx]; [rewrite Ropp_0; reflexivity|].
  rewrite !sinc_nz by lra. replace (PI * - x) with (- (PI * x)) by ring. rewrite sin_neg.
  field. split; [exact Hx|apply PI_neq0].
Qed.
Lemma sinc_le_1 x : sinc x <= 1.
Proof.
  destruct (Req_EM_T x 0) as [->|Hx]; [rewrite sinc_0; lra|]. rewrite sinc_nz by exact Hx.
  assert (HP := PI_RGT_0).
  destruct (Rlt_le_dec 0 x) as [Hp|Hn].
  - assert (Hy : 0 < PI * x) by (apply Rmult_lt_0_compat; lra).
    apply (Rmult_le_reg_r (PI * x)); [exact Hy|]. unfold Rdiv. rewrite Rmult_assoc, Rinv_l by lra.
    rewrite Rmult_1_r, Rmult_1_l. apply sin_le_x. lra.
  - assert (Hy : 0 < PI * - x) by (apply Rmult_lt_0_compat; lra).
    replace (sin (PI * x) / (PI * x)) with (sin (PI * - x) / (PI * - x)).
    2:{ replace (PI * - x) with (- (PI * x)) by ring. rewrite sin_neg. field. split; lra. }
    apply (Rmult_le_reg_r (PI * - x)); [exact Hy|]. unfold Rdiv. rewrite Rmult_assoc, Rinv_l by lra.
    rewrite Rmult_1_r, Rmult_1_l. apply sin_le_x. lra.
Qed.

(* ---- linspace at R *)
Lemma IZR_pred_pos N : (2 <= N)%nat -> 0 < IZR (Z.of_nat N - 1).
Proof. intros H. apply IZR_lt. lia. Qed.
Lemma linspace_R a b N i : (2 <= N)%nat -> (0 <= i < Z.of_nat N)%Z ->
  linspace a b (Z.of_nat N) i = IZR i * ((b - a) / IZR (Z.of_nat N - 1)) + a.
Proof.
  intros HN Hi. assert (Hm := IZR_pred_pos N HN). unfold linspace.
  destruct (Z.eqb_spec (Z.of_nat N) 1); [lia|].
  rewrite !ofZ_IZR. rsimp.
  destruct (Z.eqb_spec i (Z.of_nat N - 1)) as [->|_]; [field; lra|reflexivity].
Qed.
Lemma linspace_1 a b i : linspace a b 1 i = a.
Proof. reflexivity. Qed.
Lemma linspace_refl b N i : (2 <= N)%nat -> (0 <= i < Z.of_nat N)%Z ->
  linspace (- b) b (Z.of_nat N) (Z.of_nat N - 1 - i) = - linspace (- b) b (Z.of_nat N) i.
Proof.
  intros HN Hi. assert (Hm := IZR_pred_pos N HN). rewrite !linspace_R by lia.
  rewrite !minus_IZR in *. rsimp. field. lra.
Qed.
(* the centre sample of a symmetric linspace is 0 *)
Lemma linspace_centre b m : (1 <= m)%nat ->
  linspace (- b) b (Z.of_nat (2 * m + 1)) (Z.of_nat m) = 0.
Proof.
  intros Hm. rewrite linspace_R by lia.
  replace (Z.of_nat (2 * m + 1) - 1)%Z with (2 * Z.of_nat m)%Z by lia. rewrite mult_IZR.
  assert (0 < IZR (Z.of_nat m)) by (apply IZR_lt; lia). rsimp. field. lra.
Qed.
End WithOracles.
