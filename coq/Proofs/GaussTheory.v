(* The executable solver of Model/Ls.v: Gaussian elimination is sound (what it returns solves the
   system) and, on a Hermitian non-degenerate ("definite") system, complete (no zero pivot: the
   Schur complement of a definite matrix is definite).  The Gram matrix of a full-column-rank
   matrix is definite, hence ls_solve — and therefore the executed arcovar/modcovar model —
   returns on every full-rank input. *)
Require Import Spectrum.Theory.Ops Spectrum.Theory.Sum Spectrum.Theory.Vec Spectrum.Theory.Order
               Spectrum.Model.Corr Spectrum.Model.Ls Spectrum.Proofs.LsTheory Spectrum.Proofs.CovarTheory
               Spectrum.Proofs.CovarOpt.

Section GaussT.
Context {F : Type} {OF : Ops F} {L : Laws OF}.
Local Open Scope F_scope.
Add Field FFga : (fth (O:=OF)).

Lemma is_zero_0 : is_zero 0 = true.
Proof. unfold is_zero. replace (nrm2 0) with 0 by (unfold nrm2; ring). apply le0_zero. Qed.
Lemma is_zero_false z : is_zero z = false -> z <> 0.
Proof. intros H E. rewrite E, is_zero_0 in H. discriminate. Qed.

Lemma nth_map_lt {B : Type} (f : list F -> B) (d : B) (A : list (list F)) n : (n < length A)%nat ->
  nth n (map f A) d = f (nth n A []).
Proof. intros H. rewrite (nth_indep _ d (f [])) by (rewrite map_length; exact H). apply map_nth. Qed.

(* entries of the two derived objects of one elimination step *)
Lemma rprime_nth (r : list F) piv j : piv <> 0 -> nthF (map (fun v => v / piv) (tl r)) j = nthF r (S j) / piv.
Proof. intros Hp. rewrite nthF_map by (field; exact Hp). rewrite nth_tl. reflexivity. Qed.

Lemma rest_ent (rest : list (list F)) (r' : list F) q i j : (j <= q)%nat ->
  ent (map (fun s => mk (S q) (fun j => nthF s (S j) - nthF s 0 * nthF r' j)) rest) i j
  = ent rest i (S j) - ent rest i 0 * nthF r' j.
Proof.
  intros Hj. unfold ent. destruct (Nat.lt_ge_cases i (length rest)) as [Hi|Hi].
  - rewrite (nth_map_lt _ [] rest i Hi). rewrite nth_mk by lia. reflexivity.
  - rewrite !(nth_overflow _ []) by (rewrite ?map_length; exact Hi). rewrite !nthF_nil. ring.
Qed.

Theorem gauss_sound p : forall (rows : list (list F)) sol, gauss p rows = Some sol ->
  length sol = p /\ forall i, (i < p)%nat -> sumf p (fun j => ent rows i j * nthF sol j) = ent rows i p.
Proof.
  induction p as [|q IH]; intros rows sol H.
  - cbn in H. injection H as <-. split; [reflexivity|]. intros i Hi; lia.
  - destruct rows as [|r rest]; [discriminate|]. cbn [gauss] in H.
    destruct (is_zero (nthF r 0)) eqn:Ez; [discriminate|]. apply is_zero_false in Ez.
    set (piv := nthF r 0) in *. set (r' := map (fun v => v / piv) (tl r)) in *.
    set (rest' := map (fun s => mk (S q) (fun j => nthF s (S j) - nthF s 0 * nthF r' j)) rest) in *.
    destruct (gauss q rest') as [sol'|] eqn:Eg; [|discriminate]. injection H as <-.
    destruct (IH rest' sol' Eg) as [Hl Hs]. split; [cbn [length]; rewrite Hl; reflexivity|].
    set (x0 := nthF r' q - sumL (mk q (fun j => nthF r' j * nthF sol' j))).
    assert (Ex0 : x0 = nthF r' q - sumf q (fun j => nthF r' j * nthF sol' j)) by (unfold x0; rewrite sumL_mk; reflexivity).
    assert (Er : forall j, nthF r (S j) = piv * nthF r' j).
    { intros j. unfold r'. rewrite rprime_nth by exact Ez. field. exact Ez. }
    intros i Hi. rewrite sumf_shift. rewrite nthF_cons0.
    rewrite (sumf_ext q (fun j => ent (r :: rest) i (S j) * nthF (x0 :: sol') (S j))
               (fun j => ent (r :: rest) i (S j) * nthF sol' j)) by (intros; rewrite nthF_consS; reflexivity).
    destruct i as [|i].
    + unfold ent. cbn [nth]. fold piv.
      rewrite (sumf_ext q _ (fun j => piv * (nthF r' j * nthF sol' j))) by (intros j _; rewrite Er; ring).
      rewrite sumf_scale, Er, Ex0. ring.
    + assert (E : forall j, ent (r :: rest) (S i) j = ent rest i j) by reflexivity.
      rewrite !E. rewrite (sumf_ext q _ (fun j => ent rest i (S j) * nthF sol' j)) by (intros; rewrite E; reflexivity).
      pose proof (Hs i ltac:(lia)) as Hi'.
      rewrite (sumf_ext q _ (fun j => ent rest i (S j) * nthF sol' j - ent rest i 0 * (nthF r' j * nthF sol' j))) in Hi'.
      2:{ intros j Hj. unfold rest'. rewrite rest_ent by lia. ring. }
      unfold rest' in Hi'. rewrite rest_ent in Hi' by lia. rewrite sumf_sub, sumf_scale in Hi'.
      rewrite Ex0.
      transitivity ((sumf q (fun j => ent rest i (S j) * nthF sol' j) - ent rest i 0 * sumf q (fun j => nthF r' j * nthF sol' j))
                    + ent rest i 0 * nthF r' q); [ring|rewrite Hi'; ring].
Qed.

(* ---------- definite systems ---------- *)
Definition qform (p : nat) (H : nat -> nat -> F) (c : nat -> F) : F :=
  sumf p (fun i => sumf p (fun j => conj (c i) * H i j * c j)).
Definition herm (p : nat) (H : nat -> nat -> F) : Prop := forall i j, (i < p)%nat -> (j < p)%nat -> H j i = conj (H i j).
Definition nondeg (p : nat) (H : nat -> nat -> F) : Prop := forall c, qform p H c = 0 -> forall i, (i < p)%nat -> c i = 0.
Definition schur (H : nat -> nat -> F) : nat -> nat -> F :=
  fun i j => H (S i) (S j) - H (S i) O * (H O (S j) / H O O).

Lemma qform_ext p H H' c : (forall i j, (i < p)%nat -> (j < p)%nat -> H i j = H' i j) -> qform p H c = qform p H' c.
Proof. intros E. unfold qform. apply sumf_ext; intros i Hi. apply sumf_ext; intros j Hj. rewrite E by assumption. reflexivity. Qed.

Lemma pivot_neq_0 q H : nondeg (S q) H -> H O O <> 0.
Proof.
  intros Hn E.
  assert (Z : qform (S q) H (fun i => if (i =? 0)%nat then 1 else 0) = 0).
  { unfold qform. rewrite sumf_shift. rewrite (sumf_zero_ext q).
    2:{ intros i _. apply sumf_zero_ext; intros j _. cbn [Nat.eqb]. rewrite conj_0. ring. }
    rewrite sumf_shift. rewrite (sumf_zero_ext q) by (intros j _; cbn [Nat.eqb]; ring).
    cbn [Nat.eqb]. rewrite E. ring. }
  specialize (Hn _ Z O ltac:(lia)). cbn in Hn. exact (F_1_neq_0 (fth (O:=OF)) Hn).
Qed.

Lemma qform_schur q H (c' : nat -> F) : herm (S q) H -> H O O <> 0 ->
  let t := sumf q (fun j => H O (S j) * c' j) in
  let c := fun i => match i with O => - t / H O O | S i' => c' i' end in
  qform (S q) H c = qform q (schur H) c'.
Proof.
  intros Hh H00 t c.
  assert (Hr : conj (H O O) = H O O) by (symmetry; apply Hh; lia).
  assert (Hct : sumf q (fun i => conj (c' i) * H (S i) O) = conj t).
  { unfold t. rewrite sumf_conj. apply sumf_ext; intros i Hi. rewrite conj_mul, (Hh O (S i)) by lia. ring. }
  (* right-hand side *)
  assert (R : qform q (schur H) c'
              = sumf q (fun i => sumf q (fun j => conj (c' i) * H (S i) (S j) * c' j)) - conj t * t / H O O).
  { unfold qform, schur.
    rewrite (sumf_ext q _ (fun i => sumf q (fun j => conj (c' i) * H (S i) (S j) * c' j)
                                    - (conj (c' i) * H (S i) O) * (t / H O O))).
    2:{ intros i _.
        transitivity (sumf q (fun j => conj (c' i) * H (S i) (S j) * c' j)
                      - sumf q (fun j => (conj (c' i) * H (S i) O / H O O) * (H O (S j) * c' j))).
        { rewrite <- sumf_sub. apply sumf_ext; intros j _. field. exact H00. }
        f_equal. rewrite sumf_scale. fold t. field. exact H00. }
    rewrite sumf_sub, sumf_scale_r, Hct. field. exact H00. }
  rewrite R. unfold qform. rewrite sumf_shift.
  (* row 0 *)
  assert (R0 : sumf (S q) (fun j => conj (c O) * H O j * c j) = 0).
  { rewrite sumf_shift.
    rewrite (sumf_ext q _ (fun j => conj (c O) * (H O (S j) * c' j))) by (intros; cbn; ring).
    rewrite sumf_scale. fold t. cbn. field. exact H00. }
  rewrite R0.
  rewrite (sumf_ext q (fun i => sumf (S q) (fun j => conj (c (S i)) * H (S i) j * c j))
             (fun i => (conj (c' i) * H (S i) O) * c O + sumf q (fun j => conj (c' i) * H (S i) (S j) * c' j))).
  2:{ intros i _. rewrite sumf_shift. cbn. reflexivity. }
  rewrite sumf_add, sumf_scale_r, Hct. cbn. field. exact H00.
Qed.

Lemma schur_definite q H : herm (S q) H -> nondeg (S q) H -> herm q (schur H) /\ nondeg q (schur H).
Proof.
  intros Hh Hn. pose proof (pivot_neq_0 q H Hn) as H00.
  assert (Hr : conj (H O O) = H O O) by (symmetry; apply Hh; lia).
  split.
  - intros i j Hi Hj. unfold schur.
    rewrite conj_sub, conj_mul, conj_div, Hr by exact H00.
    rewrite <- (Hh (S i) (S j)), <- (Hh (S i) O), <- (Hh O (S j)) by lia. field. exact H00.
  - intros c' Z i Hi.
    pose proof (qform_schur q H c' Hh H00) as E. cbv zeta in E. rewrite Z in E.
    exact (Hn _ E (S i) ltac:(lia)).
Qed.

Context {OL : OrdLaws OF}.

Lemma is_zero_true_iff z : is_zero z = true <-> z = 0.
Proof. split; [apply is_zero_spec|intros ->; apply is_zero_0]. Qed.

Theorem gauss_complete p : forall rows : list (list F),
  herm p (ent rows) -> nondeg p (ent rows) -> exists sol, gauss p rows = Some sol.
Proof.
  induction p as [|q IH]; intros rows Hh Hn; [exists []; reflexivity|].
  pose proof (pivot_neq_0 q _ Hn) as H00.
  destruct rows as [|r rest]; [exfalso; apply H00; unfold ent; destruct O; reflexivity|].
  cbn [gauss]. change (ent (r :: rest) 0 0) with (nthF r 0) in H00.
  destruct (is_zero (nthF r 0)) eqn:Ez; [exfalso; apply H00, is_zero_spec; exact Ez|].
  set (piv := nthF r 0) in *. set (r' := map (fun v => v / piv) (tl r)).
  set (rest' := map (fun s => mk (S q) (fun j => nthF s (S j) - nthF s 0 * nthF r' j)) rest).
  destruct (schur_definite q _ Hh Hn) as [Hsh Hsn].
  assert (E : forall i j, (i < q)%nat -> (j < q)%nat -> ent rest' i j = schur (ent (r :: rest)) i j).
  { intros i j _ Hj. unfold rest'. rewrite rest_ent by lia. unfold schur, r'. rewrite rprime_nth by exact H00.
    reflexivity. }
  destruct (IH rest') as [sol' Es].
  - intros i j Hi Hj. rewrite !E by assumption. apply Hsh; assumption.
  - intros c Z. apply Hsn. rewrite <- Z. symmetry. apply qform_ext. exact E.
  - rewrite Es. eexists; reflexivity.
Qed.

(* ---------- the Gram matrix of a full-column-rank family is definite ---------- *)
Lemma gram_qform M p (A : nat -> nat -> F) c :
  qform p (gramf M A) c = sumf M (fun n => nrm2 (lin p A c n)).
Proof.
  unfold qform, gramf, nrm2, lin.
  transitivity (sumf p (fun i => sumf p (fun j => sumf M (fun n => (A n j * c j) * conj (A n i * c i))))).
  { apply sumf_ext; intros i _. apply sumf_ext; intros j _.
    rewrite <- sumf_scale, <- sumf_scale_r. apply sumf_ext; intros n _. rewrite conj_mul. ring. }
  rewrite (sumf_ext p _ (fun i => sumf M (fun n => sumf p (fun j => A n j * c j * conj (A n i * c i))))).
  2:{ intros i _. apply sumf_exch. }
  rewrite sumf_exch. apply sumf_ext; intros n _.
  rewrite sumf_conj, <- sumf_scale. apply sumf_ext; intros i _. rewrite sumf_scale_r. reflexivity.
Qed.
Lemma gram_herm M p (A : nat -> nat -> F) : herm p (gramf M A).
Proof. intros i j _ _. unfold gramf. rewrite sumf_conj. apply sumf_ext; intros n _. rewrite conj_mul, conj_conj. ring. Qed.
Lemma gram_nondeg M p (A : nat -> nat -> F) : full_rank M p A -> nondeg p (gramf M A).
Proof. intros Hr c Z. apply Hr. apply sum_nrm2_zero. rewrite <- gram_qform. exact Z. Qed.

(* ---------- ls_solve returns on full-column-rank matrices ---------- *)
Theorem ls_solve_complete_thm p (A : list (list F)) (b : list F) :
  full_rank (length A) p (ent A) -> exists a, ls_solve p A b = Some a.
Proof.
  intros Hr. unfold ls_solve. cbv zeta.
  set (rows := map (fun i => nth i (gram_ls p A) [] ++ [nthF (rhs_ls p A b) i]) (seq 0 p)).
  assert (Erow : forall i, (i < p)%nat -> nth i rows [] = mk p (fun j => dotc (mcol A i) (mcol A j)) ++ [dotc (mcol A i) b]).
  { intros i Hi. unfold rows. rewrite (nth_map_seq _ [] 0 p i Hi). cbn [Nat.add].
    unfold gram_ls. rewrite (nth_map_seq _ [] 0 p i Hi). cbn [Nat.add].
    unfold rhs_ls. rewrite nth_mk by exact Hi. reflexivity. }
  assert (Eg : forall i j, (i < p)%nat -> (j < p)%nat -> ent rows i j = gramf (length A) (ent A) i j).
  { intros i j Hi Hj. unfold ent at 1. rewrite Erow by exact Hi.
    rewrite nthF_app_l by (rewrite mk_length; exact Hj). rewrite nth_mk by exact Hj.
    rewrite dotc_mcol by reflexivity. reflexivity. }
  assert (Er : forall i, (i < p)%nat -> ent rows i p = dotc (mcol A i) b).
  { intros i Hi. unfold ent. rewrite Erow by exact Hi.
    rewrite <- (mk_length p (fun j => dotc (mcol A i) (mcol A j))) at 2. apply nthF_app_last. }
  destruct (gauss_complete p rows) as [a Ea].
  - intros i j Hi Hj. rewrite !Eg by assumption. apply (gram_herm (length A) p (ent A)); assumption.
  - intros c Z. apply (gram_nondeg (length A) p (ent A) Hr). rewrite <- Z. symmetry. apply qform_ext. exact Eg.
  - rewrite Ea. destruct (gauss_sound p rows a Ea) as [Hl Hs].
    rewrite Hl, Nat.eqb_refl. cbn [andb].
    assert (Hb : normal_eqs_b p A b a = true).
    { unfold normal_eqs_b. apply forallb_forall. intros i Hi. apply in_seq in Hi.
      apply is_zero_true_iff. unfold normal_lhs. rewrite sumL_mk.
      rewrite (sumf_ext p _ (fun j => ent rows i j * nthF a j)).
      2:{ intros j Hj. rewrite Eg by lia. rewrite dotc_mcol by reflexivity. reflexivity. }
      rewrite Hs by lia. rewrite Er by lia. ring. }
    rewrite Hb. eexists; reflexivity.
Qed.

(* full column rank is insensitive to the sign and survives the cols1 / mneg wrappers *)
Lemma full_rank_ext M p (A A' : nat -> nat -> F) :
  (forall n j, (n < M)%nat -> (j < p)%nat -> A' n j = - A n j) -> full_rank M p A -> full_rank M p A'.
Proof.
  intros E Hr c Hc. apply Hr. intros n Hn. specialize (Hc n Hn). unfold lin in *.
  rewrite (sumf_ext p _ (fun j => - (A n j * c j))) in Hc by (intros j Hj; rewrite E by assumption; ring).
  rewrite sumf_opp in Hc. transitivity (- - sumf p (fun j => A n j * c j)); [ring|rewrite Hc; ring].
Qed.

Theorem arcovar_model_returns_thm tol (x : list F) p : cov_full_rank x p -> exists a e, arcovar tol x p = Some (a, e).
Proof.
  intros Hr. destruct (arcovar tol x p) as [[a e]|] eqn:E; [eexists; eexists; reflexivity|exfalso].
  apply (arcovar_raises_thm ls_solve tol x p ls_solve_spec_thm) in E.
  destruct (ls_solve_complete_thm p (mneg (cols1 (corrmtx x p MCovariance))) (col0 (corrmtx x p MCovariance))) as [a Ea];
    [|rewrite Ea in E; discriminate].
  destruct (corrmtx_covariance_shape_thm x p) as [HM Hrow].
  rewrite mneg_length, cols1_length, HM.
  apply (full_rank_ext _ _ (cov_A x p)); [|exact Hr].
  intros n j Hn Hj. rewrite ent_mneg, ent_cols1. destruct (Hrow n Hn) as [_ He]. rewrite He by lia.
  unfold cov_A. do 2 f_equal. lia.
Qed.

Theorem modcovar_model_returns_thm tol (x : list F) p : mod_full_rank x p -> exists a e, modcovar tol x p = Some (a, e).
Proof.
  intros Hr. destruct (modcovar tol x p) as [[a e]|] eqn:E; [eexists; eexists; reflexivity|exfalso].
  apply (modcovar_raises_thm ls_solve tol x p ls_solve_spec_thm) in E.
  destruct (ls_solve_complete_thm p (mneg (cols1 (corrmtx x p MModified))) (col0 (corrmtx x p MModified))) as [a Ea];
    [|rewrite Ea in E; discriminate].
  destruct (corrmtx_modified_shape_thm x p) as [HM Hrow].
  rewrite mneg_length, cols1_length, HM.
  apply (full_rank_ext _ _ (mod_A x p)).
  - intros n j Hn Hj. rewrite ent_mneg, ent_cols1. f_equal. unfold mod_A. cbv zeta.
    destruct (Nat.ltb_spec n (length x - p)) as [Hlt|Hge].
    + destruct (Hrow n Hlt) as (_ & _ & He). destruct (He (S j)) as [E1 _]; [lia|]. rewrite E1. f_equal. lia.
    + destruct (Hrow (n - (length x - p))%nat) as (_ & _ & He); [lia|]. destruct (He (S j)) as [_ E1]; [lia|].
      replace (length x - p + (n - (length x - p)))%nat with n in E1 by lia. rewrite E1. do 2 f_equal. lia.
  - intros c Hc. apply Hr.
    + intros n Hn. specialize (Hc n). unfold lin in Hc. rewrite <- Hc by lia.
      apply sumf_ext; intros j _. f_equal. unfold mod_A. cbv zeta.
      destruct (Nat.ltb_spec n (length x - p)); [reflexivity|lia].
    + intros n Hn. specialize (Hc (length x - p + n)%nat). unfold lin in Hc. rewrite <- Hc by lia.
      apply sumf_ext; intros j _. f_equal. unfold mod_A. cbv zeta.
      destruct (Nat.ltb_spec (length x - p + n) (length x - p)); [lia|]. do 2 f_equal. lia.
Qed.
End GaussT.
