(* The Python half of dpss (Model/Dpss.v): default k, normalisation, sign convention, and the
   autocovariance formula for the eigenvalues is the quadratic form of the sinc kernel. *)
Require Import Spectrum.Theory.Ops Spectrum.Theory.Sum Spectrum.Theory.Vec Spectrum.Theory.Order
               Spectrum.Theory.Dft Spectrum.Model.Dpss.

(* ---------------- default k ---------------- *)
Lemma round_half_even_near a b : (0 < b)%Z -> (2 * Z.abs (round_half_even a b * b - a) <= b)%Z.
Proof.
  intros Hb. unfold round_half_even.
  pose proof (Z.div_mod a b ltac:(lia)) as E. pose proof (Z.mod_pos_bound a b Hb) as Hr.
  set (q := (a / b)%Z) in *. set (r := (a mod b)%Z) in *.
  destruct (Z.ltb_spec (2 * r) b); [nia|].
  destruct (Z.ltb_spec b (2 * r)); [nia|].
  destruct (Z.even q); nia.
Qed.
Lemma round_half_even_int m : round_half_even m 1 = m.
Proof.
  unfold round_half_even. rewrite Z.div_1_r, Z.mod_1_r. reflexivity.
Qed.
(* a tie goes to the even neighbour: 2*NW = q + 1/2 *)
Lemma round_half_even_tie q : round_half_even (2 * q + 1) 2 = if Z.even q then q else (q + 1)%Z.
Proof.
  unfold round_half_even.
  assert (E1 : ((2 * q + 1) / 2 = q)%Z) by (symmetry; apply (Z.div_unique _ _ q 1); lia).
  assert (E2 : ((2 * q + 1) mod 2 = 1)%Z) by (symmetry; apply (Z.mod_unique _ _ q 1); lia).
  rewrite E1, E2. reflexivity.
Qed.
Theorem default_k_range_thm N a b :
  (1 <= default_k N a b)%nat /\ ((1 <= N)%nat -> (default_k N a b <= N)%nat).
Proof. unfold default_k. split; [|intros HN]; lia. Qed.
Theorem default_k_half_integer_thm N m : (1 <= m)%Z -> (1 <= N)%nat ->
  default_k N m 1 = Nat.min (Z.to_nat m) N.
Proof. intros Hm HN. unfold default_k. rewrite round_half_even_int. lia. Qed.
Theorem default_k_near_thm N a b : (0 < b)%Z -> (b <= a)%Z -> (a <= 2 * Z.of_nat N * b)%Z -> (1 <= N)%nat ->
  let k := Z.of_nat (default_k N a b) in
  (k = round_half_even a b \/ k = Z.of_nat N) /\ (2 * (k * b - a) <= b)%Z.
Proof.
  intros Hb Ha HaN HN. cbv zeta. unfold default_k.
  pose proof (round_half_even_near a b Hb) as Hn.
  set (r := round_half_even a b) in *.
  assert (Hr1 : (1 <= r)%Z) by nia.
  rewrite Z2Nat.id by lia. split; [lia|].
  destruct (Z.le_ge_cases r (Z.of_nat N)) as [H|H].
  - rewrite Z.min_l, Z.max_l by lia. lia.
  - rewrite Z.min_r, Z.max_l by lia. nia.
Qed.

Section DpssT.
Context {F : Type} {OF : Ops F} {L : Laws OF}.
Local Open Scope F_scope.
Add Field FFdp : (fth (O:=OF)).

(* ---------------- normalisation ---------------- *)
Lemma sN_neq_0 (sN : F) N : sN * sN = ofnat N -> ofnat N <> 0 -> sN <> 0.
Proof. intros E HN H. apply HN. rewrite <- E, H. ring. Qed.

Theorem dpss_normalisation_gen (sN : F) N raw j l : sN * sN = ofnat N -> ofnat N <> 0 ->
  dot N (scaled sN N raw j) (scaled sN N raw l) = dot N (rawcol N raw j) (rawcol N raw l) / ofnat N.
Proof.
  intros E HN. pose proof (sN_neq_0 sN N E HN) as Hs. unfold dot, scaled.
  transitivity (sumf N (fun i => inv (ofnat N) * (rawcol N raw j i * rawcol N raw l i))).
  - apply sumf_ext; intros i _. rewrite <- E. field. exact Hs.
  - rewrite sumf_scale. field. exact HN.
Qed.
(* columns of squared norm N, mutually orthogonal -> orthonormal after the division by sqrt(N) *)
Theorem dpss_normalisation_thm (sN : F) N k raw : sN * sN = ofnat N -> ofnat N <> 0 ->
  (forall j l, (j < k)%nat -> (l < k)%nat ->
     dot N (rawcol N raw j) (rawcol N raw l) = if (j =? l)%nat then ofnat N else 0) ->
  forall j l, (j < k)%nat -> (l < k)%nat -> dot N (scaled sN N raw j) (scaled sN N raw l) = delta j l.
Proof.
  intros E HN H j l Hj Hl. rewrite dpss_normalisation_gen by assumption. rewrite (H j l Hj Hl). unfold delta.
  destruct (j =? l)%nat; field; exact HN.
Qed.

(* ---------------- sign loop: every column is +- the scaled column ---------------- *)
Definition sgn (sN : F) N raw tapsum j : F := if flip sN N raw tapsum j then - (1) else 1.
Lemma sgn_sq sN N raw tapsum j : sgn sN N raw tapsum j * sgn sN N raw tapsum j = 1.
Proof. unfold sgn. destruct (flip sN N raw tapsum j); ring. Qed.
Lemma taper_sgn sN N raw tapsum j i : taper sN N raw tapsum j i = sgn sN N raw tapsum j * scaled sN N raw j i.
Proof. unfold taper, sgn. destruct (flip sN N raw tapsum j); ring. Qed.
Lemma tapsum_out_sgn sN N raw tapsum j : tapsum_out sN N raw tapsum j = sgn sN N raw tapsum j * nthF tapsum j.
Proof. unfold tapsum_out, sgn. destruct (flip sN N raw tapsum j); ring. Qed.

Theorem flip_gram_thm sN N raw tapsum j l :
  dot N (taper sN N raw tapsum j) (taper sN N raw tapsum l)
  = sgn sN N raw tapsum j * sgn sN N raw tapsum l * dot N (scaled sN N raw j) (scaled sN N raw l).
Proof.
  unfold dot. rewrite <- sumf_scale. apply sumf_ext; intros i _. rewrite !taper_sgn. ring.
Qed.
(* orthonormal before the loop -> orthonormal after it *)
Theorem flip_orthonormal_thm sN N k raw tapsum :
  (forall j l, (j < k)%nat -> (l < k)%nat -> dot N (scaled sN N raw j) (scaled sN N raw l) = delta j l) ->
  forall j l, (j < k)%nat -> (l < k)%nat -> dot N (taper sN N raw tapsum j) (taper sN N raw tapsum l) = delta j l.
Proof.
  intros H j l Hj Hl. rewrite flip_gram_thm, (H j l Hj Hl). unfold delta.
  destruct (Nat.eqb_spec j l) as [->|_]; [rewrite sgn_sq|]; ring.
Qed.
Theorem flip_quad_thm sN N raw tapsum (K : nat -> nat -> F) j :
  quad N K (taper sN N raw tapsum j) = quad N K (scaled sN N raw j).
Proof.
  unfold quad.
  transitivity (sumf N (fun i => sumf N (fun m =>
      (sgn sN N raw tapsum j * sgn sN N raw tapsum j) * (scaled sN N raw j i * K i m * scaled sN N raw j m)))).
  - apply sumf_ext; intros i _. apply sumf_ext; intros m _. rewrite !taper_sgn. ring.
  - apply sumf_ext; intros i _. apply sumf_ext; intros m _. rewrite sgn_sq. ring.
Qed.
Theorem flip_eigvec_thm sN N raw tapsum (K : nat -> nat -> F) lam j :
  (forall i, (i < N)%nat -> matvec N K (scaled sN N raw j) i = lam * scaled sN N raw j i) ->
  forall i, (i < N)%nat -> matvec N K (taper sN N raw tapsum j) i = lam * taper sN N raw tapsum j i.
Proof.
  intros H i Hi. unfold matvec in *.
  rewrite (sumf_ext N _ (fun m => sgn sN N raw tapsum j * (K i m * scaled sN N raw j m))).
  2:{ intros m _. rewrite taper_sgn. ring. }
  rewrite sumf_scale, (H i Hi), taper_sgn. ring.
Qed.
(* the (internal) tapsum keeps being  sqrt(N) * (sum of the returned column) *)
Theorem tapsum_out_thm sN N raw tapsum j : sN <> 0 ->
  nthF tapsum j = sumf N (rawcol N raw j) ->
  tapsum_out sN N raw tapsum j = sN * sumf N (taper sN N raw tapsum j).
Proof.
  intros Hs Ht. rewrite tapsum_out_sgn, Ht.
  rewrite (sumf_ext N (taper sN N raw tapsum j) (fun i => (sgn sN N raw tapsum j * inv sN) * rawcol N raw j i)).
  2:{ intros i _. rewrite taper_sgn. unfold scaled. field. exact Hs. }
  rewrite sumf_scale. field. exact Hs.
Qed.

(* ---------------- eigenvalue formula = quadratic form of the sinc kernel ---------------- *)
Lemma absdiff_ge i j : (j <= i)%nat -> absdiff i j = (i - j)%nat. Proof. unfold absdiff. lia. Qed.
Lemma absdiff_le i j : (i <= j)%nat -> absdiff i j = (j - i)%nat. Proof. unfold absdiff. lia. Qed.
Lemma kern_sym W snc i j : kern W snc i j = kern W snc j i.
Proof. unfold kern, absdiff. f_equal. f_equal. lia. Qed.
Lemma kern_toeplitz W snc i j : kern W snc (S i) (S j) = kern W snc i j.
Proof. unfold kern, absdiff. f_equal. Qed.

Theorem eig_is_rayleigh_thm N (W : F) (snc : nat -> F) (t : nat -> F) : snc O = 1 ->
  eig N W snc t = quad N (kern W snc) t.
Proof.
  intros H0. unfold quad. rewrite square_split.
  (* lower triangle with the diagonal: lags d = 0..N-1 *)
  rewrite (sumf_ext N (fun m => sumf (S m) (fun m' => t m * kern W snc m m' * t m'))
                      (fun m => sumf (S m) (fun d => t m * kern W snc m (m - d)%nat * t (m - d)%nat))).
  2:{ intros m _. rewrite (sumf_rev (S m)). apply sumf_ext; intros d Hd. repeat f_equal; lia. }
  rewrite (tri_exch N (fun m d => t m * kern W snc m (m - d)%nat * t (m - d)%nat)).
  rewrite upper_diag.
  destruct N as [|N].
  { cbn. ring. }
  unfold eig. rewrite (sumf_shift N (fun d => acv (S N) t d * rseq W snc d)).
  rewrite (sumf_shift N (fun d => sumf (S N - d) (fun j => t (j + d)%nat * kern W snc (j + d)%nat (j + d - d)%nat * t (j + d - d)%nat))).
  replace (S N - 1)%nat with N by lia.
  transitivity ((acv (S N) t 0 * rseq W snc 0)
                + (sumf N (fun d => acv (S N) t (S d) * (two * W * snc (S d)))
                   + sumf N (fun d => acv (S N) t (S d) * (two * W * snc (S d))))).
  { rewrite <- sumf_add. f_equal. apply sumf_ext; intros d _. unfold rseq, two. ring. }
  match goal with |- ?a + (?b + ?c) = ?a' + ?b' + ?c' =>
    assert (Ea : a = a'); [|assert (Eb : b = b'); [|assert (Ec : c = c'); [|rewrite <- Ea, <- Eb, <- Ec; ring]]] end.
  - unfold acv, rseq. rewrite <- sumf_scale_r. replace (S N - 0)%nat with (S N) by lia. apply sumf_ext; intros j _.
    unfold kern. replace (j + 0 - 0)%nat with j by lia. replace (j + 0)%nat with j by lia.
    rewrite absdiff_ge by lia. replace (j - j)%nat with O by lia. rewrite H0. ring.
  - apply sumf_ext; intros d Hd. unfold acv. rewrite <- sumf_scale_r.
    apply sumf_ext; intros j Hj. unfold kern.
    replace (j + S d - S d)%nat with j by lia. rewrite absdiff_ge by lia.
    replace (j + S d - j)%nat with (S d) by lia. ring.
  - apply sumf_ext; intros d Hd. unfold acv. rewrite <- sumf_scale_r.
    replace (S N - S d)%nat with (N - d)%nat by lia.
    apply sumf_ext; intros j Hj. unfold kern. rewrite absdiff_le by lia.
    replace (j + d + 1 - j)%nat with (S d) by lia. replace (j + d + 1)%nat with (j + S d)%nat by lia. ring.
Qed.

(* Rayleigh quotient of an eigenvector *)
Theorem quad_of_eigvec_thm N (K : nat -> nat -> F) (t : nat -> F) lam :
  (forall i, (i < N)%nat -> matvec N K t i = lam * t i) -> quad N K t = lam * dot N t t.
Proof.
  intros H. unfold quad, dot. rewrite <- sumf_scale. apply sumf_ext; intros i Hi.
  rewrite (sumf_ext N _ (fun j => t i * (K i j * t j))) by (intros; ring).
  rewrite sumf_scale. fold (matvec N K t i). rewrite (H i Hi). ring.
Qed.
(* hence: for a unit eigenvector of the sinc kernel the code's number IS the eigenvalue *)
Theorem eig_of_unit_eigvec_thm N (W : F) snc t lam : snc O = 1 ->
  (forall i, (i < N)%nat -> matvec N (kern W snc) t i = lam * t i) -> dot N t t = 1 ->
  eig N W snc t = lam.
Proof.
  intros H0 H H1. rewrite eig_is_rayleigh_thm by exact H0. rewrite (quad_of_eigvec_thm N _ t lam H), H1. ring.
Qed.
(* the eigenvalue number does not see the sign loop *)
Theorem eig_flip_thm sN N raw tapsum W snc j : snc O = 1 ->
  eig N W snc (taper sN N raw tapsum j) = eig N W snc (scaled sN N raw j).
Proof. intros H0. rewrite !eig_is_rayleigh_thm by exact H0. apply flip_quad_thm. Qed.

(* the list-level function returns what the families describe *)
Lemma nth_map_seq {A : Type} (f : nat -> A) k j d : (j < k)%nat -> nth j (map f (seq 0 k)) d = f j.
Proof.
  intros Hj. rewrite (nth_indep _ d (f O)) by (rewrite map_length, seq_length; exact Hj).
  rewrite (map_nth f (seq 0 k) O j), seq_nth by exact Hj. reflexivity.
Qed.
Theorem dpss_post_shape_thm sN W sncl N k raw tapsum :
  let '(cols, ev) := dpss_post sN W sncl N k raw tapsum in
  length cols = k /\ length ev = k /\
  forall j, (j < k)%nat -> length (nth j cols []) = N /\
     (forall i, (i < N)%nat -> nthF (nth j cols []) i = taper sN N raw tapsum j i) /\
     nthF ev j = eig N W (nthF sncl) (taper sN N raw tapsum j).
Proof.
  unfold dpss_post. rewrite !map_length, seq_length. split; [reflexivity|]. split; [reflexivity|].
  intros j Hj. unfold nthF at 2. rewrite !nth_map_seq by exact Hj. split; [apply mk_length|]. split; [|reflexivity].
  intros i Hi. apply nth_mk. exact Hi.
Qed.
(* packaged statements for Properties/C18.v *)
Theorem dpss_normalisation_both_thm (sN : F) N k raw : sN * sN = ofnat N -> ofnat N <> 0 ->
  (forall j l, dot N (scaled sN N raw j) (scaled sN N raw l) = dot N (rawcol N raw j) (rawcol N raw l) / ofnat N)
  /\ ((forall j l, (j < k)%nat -> (l < k)%nat ->
         dot N (rawcol N raw j) (rawcol N raw l) = if (j =? l)%nat then ofnat N else 0) ->
      forall j l, (j < k)%nat -> (l < k)%nat -> dot N (scaled sN N raw j) (scaled sN N raw l) = delta j l).
Proof.
  intros E HN. split; [intros j l; apply dpss_normalisation_gen; assumption|apply dpss_normalisation_thm; assumption].
Qed.
Theorem dpss_sign_preserves_thm (sN : F) N k raw tapsum :
  (forall j i, taper sN N raw tapsum j i = scaled sN N raw j i \/ taper sN N raw tapsum j i = - scaled sN N raw j i)
  /\ ((forall j l, (j < k)%nat -> (l < k)%nat -> dot N (scaled sN N raw j) (scaled sN N raw l) = delta j l) ->
      forall j l, (j < k)%nat -> (l < k)%nat -> dot N (taper sN N raw tapsum j) (taper sN N raw tapsum l) = delta j l)
  /\ (forall K j, quad N K (taper sN N raw tapsum j) = quad N K (scaled sN N raw j))
  /\ (forall K lam j, (forall i, (i < N)%nat -> matvec N K (scaled sN N raw j) i = lam * scaled sN N raw j i) ->
        forall i, (i < N)%nat -> matvec N K (taper sN N raw tapsum j) i = lam * taper sN N raw tapsum j i).
Proof.
  split; [|split; [|split]].
  - intros j i. unfold taper. destruct (flip sN N raw tapsum j); [right; ring|left; reflexivity].
  - apply flip_orthonormal_thm.
  - intros K j. apply flip_quad_thm.
  - intros K lam j. apply flip_eigvec_thm.
Qed.
Theorem eig_of_unit_eigvec_flip_thm (sN : F) N raw tapsum W snc lam j : snc O = 1 ->
  (forall i, (i < N)%nat -> matvec N (kern W snc) (scaled sN N raw j) i = lam * scaled sN N raw j i) ->
  dot N (scaled sN N raw j) (scaled sN N raw j) = 1 ->
  eig N W snc (taper sN N raw tapsum j) = lam.
Proof.
  intros H0 H H1. rewrite eig_flip_thm by exact H0. apply eig_of_unit_eigvec_thm; assumption.
Qed.
End DpssT.

(* ---------------- order clauses of the sign convention ---------------- *)
Section DpssOrd.
Context {F : Type} {OF : Ops F} {L : Laws OF} {OL : OrdLaws OF}.
Local Open Scope F_scope.
Add Field FFdo : (fth (O:=OF)).

Lemma real_opp (a : F) : conj a = a -> conj (- a) = - a.
Proof. intros H. rewrite conj_opp, H. reflexivity. Qed.
(* the two outcomes of "x < 0" on a real x *)
Lemma lt0_true (x : F) : conj x = x -> lt0 x = true -> pos (- x).
Proof.
  intros Hr H. unfold lt0 in H. apply le0_false_pos; [apply real_opp; exact Hr|].
  destruct (le0 (- x)); [discriminate|reflexivity].
Qed.
Lemma lt0_false (x : F) : conj x = x -> lt0 x = false -> nonneg x.
Proof.
  intros Hr H. unfold lt0 in H.
  assert (E : le0 (- x) = true) by (destruct (le0 (- x)); [reflexivity|discriminate]).
  apply le0_true_nonpos in E; [|apply real_opp; exact Hr].
  apply (nonneg_eq (- - x)); [ring|exact E].
Qed.
(* after the test, sgn * x is non-negative *)
Lemma flip_test_nonneg (x : F) : conj x = x -> nonneg ((if lt0 x then - (1) else 1) * x).
Proof.
  intros Hr. destruct (lt0 x) eqn:E.
  - apply lt0_true in E; [|exact Hr]. apply (nonneg_eq (- x)); [ring|apply E].
  - apply lt0_false in E; [|exact Hr]. apply (nonneg_eq x); [ring|exact E].
Qed.

(* even index: the returned column has a non-negative sum (positive unless the sum vanishes) *)
Theorem sign_even_thm (sN : F) N raw tapsum j : pos sN -> conj (nthF tapsum j) = nthF tapsum j ->
  nthF tapsum j = sumf N (rawcol N raw j) -> Nat.even j = true ->
  nonneg (sumf N (taper sN N raw tapsum j))
  /\ (nthF tapsum j <> 0 -> pos (sumf N (taper sN N raw tapsum j))).
Proof.
  intros Hs Hr Ht Hev.
  assert (Hs0 : sN <> 0) by apply Hs.
  assert (E : sumf N (taper sN N raw tapsum j) = (sgn sN N raw tapsum j * nthF tapsum j) / sN).
  { rewrite <- tapsum_out_sgn, (tapsum_out_thm sN N raw tapsum j Hs0 Ht). field. exact Hs0. }
  assert (Hn : nonneg (sgn sN N raw tapsum j * nthF tapsum j)).
  { unfold sgn, flip. rewrite Hev. apply flip_test_nonneg. exact Hr. }
  rewrite E. split.
  - apply nonneg_div; assumption.
  - intros Hne. apply pos_div; [|exact Hs]. split; [exact Hn|].
    intros H0. apply Hne. apply (mul_cancel_l (sgn sN N raw tapsum j)); [exact H0|].
    unfold sgn. destruct (flip sN N raw tapsum j); intros H1.
    + apply (one_neq_0 (OF:=OF)). transitivity (- - (1)); [ring|]. rewrite H1. ring.
    + apply (one_neq_0 (OF:=OF)). exact H1.
Qed.
(* odd index: the returned column has a non-negative first sample (as coded) *)
Theorem sign_odd_thm (sN : F) N raw tapsum j : pos sN -> conj (rawcol N raw j 0) = rawcol N raw j 0 ->
  Nat.even j = false ->
  nonneg (taper sN N raw tapsum j 0)
  /\ (rawcol N raw j 0 <> 0 -> pos (taper sN N raw tapsum j 0)).
Proof.
  intros Hs Hr Hod.
  assert (Hs0 : sN <> 0) by apply Hs.
  assert (Hsr : conj sN = sN) by (apply pos_real; exact Hs).
  assert (Hx : conj (scaled sN N raw j 0) = scaled sN N raw j 0).
  { unfold scaled. rewrite conj_div by exact Hs0. rewrite Hr, Hsr. reflexivity. }
  assert (Hn : nonneg (taper sN N raw tapsum j 0)).
  { rewrite taper_sgn. unfold sgn, flip. rewrite Hod. apply flip_test_nonneg. exact Hx. }
  split; [exact Hn|]. intros Hne. split; [exact Hn|].
  rewrite taper_sgn. intros H0.
  assert (Hsc : scaled sN N raw j 0 = 0).
  { apply (mul_cancel_l (sgn sN N raw tapsum j)); [exact H0|].
    unfold sgn. destruct (flip sN N raw tapsum j); intros H1.
    + apply (one_neq_0 (OF:=OF)). transitivity (- - (1)); [ring|]. rewrite H1. ring.
    + apply (one_neq_0 (OF:=OF)). exact H1. }
  apply Hne. unfold scaled in Hsc. transitivity (sN * (rawcol N raw j 0 / sN)); [field; exact Hs0|]. rewrite Hsc. ring.
Qed.
End DpssOrd.
