(* minvar.minvar, the WHOLE function: the IR program generated from the Python source - with errors.is_positive_integer (twice) and
   burg.arburg embedded as calls - computes the hand-written model Model.Minvar.minvar, for ALL inputs: a theorem obtained by COMPOSING
   [arburg_ir_nocrit] (Proofs/LoopIRArburg.v) through the semantics of [SCall] ([scall_run] of Proofs/LoopIRAryule.v) with the psi loop
   (the invariant of Proofs/LoopIRMinvarPsi.v redone on the slots of the whole function), numpy.fft.fft through the hidden twiddle
   parameter, and sampling / numpy.real(psi).

   [prog_minvar_ref] is the loop-IR program that tools/props/_loopir.py generates from spectrum.minvar.minvar at the commit this file was
   written for (kept verbatim below, between the BEGIN/END markers, as [prog_minvar_gen0]; the two are equal by reflexivity: the embedded
   callee body IS [p_body prog_arburg_ref]).  The check regenerates the program on every run and instantiates the theorems below only when
   the text is identical.  The text contains the texts of arburg and is_positive_integer: an edit of either makes the theorems inapplicable.

   PROVED (abstract field with conjugation [Laws]; every feq, stop; EVERY twiddle family tw; any X (any length, both dtype tags), ANY integer
   order, sampling given or omitted, NFFT a natural number or omitted (= 4096)):
     minvar_ir_run     run prog_minvar_ref (minvar_args tw isreal X order sampling NFFT) = minvar_spec tw X order sampling NFFT, i.e.
                           order < 0                                   -> SpectrumError    (errors.is_positive_integer(order))
                           arburg(X, order-1) raises                   -> ValueError       (order <= 1, order-1 > len(X), rho <= 0 at a stage)
                           NFFT < order                                -> IndexError       (psi[K] at K = NFFT; all earlier passes complete)
                           otherwise -> ORet [sampling / re(dft (tw NFFT) NFFT (psi_loop order NFFT (1 :: a) P)); 1 :: a; k]
                                        = the three results of Model.Minvar.minvar (aliased grids NFFT < 2*order-1 included)
                       NO hypothesis is needed: the guard  order <= len(A)  of the region theorem minvar_psi_ir_run is DISCHARGED here
                       (arburg without a criterion returns exactly order-1 coefficients: [arburg_nostop_length]).
     minvar_ir_run_default   the same with NFFT omitted: the Python default 4096 applies
     minvar_ir_tie     for a reflexive [feq]: tie_minvar feq tw prog_minvar_ref ... = true for EVERY input
   NOT PROVED / outside the statement: a negative NFFT (SpectrumError; NFFT is a natural number here), order / NFFT of another Python type
   (a float: TypeError). *)
From Coq Require Import String ZArith List Lia Bool.
Require Import Spectrum.Theory.Ops Spectrum.Theory.Sum Spectrum.Theory.Vec Spectrum.Theory.Dft Spectrum.Model.LoopIR Spectrum.Model.Levinson
               Spectrum.Model.Burg Spectrum.Model.Minvar Spectrum.Model.LoopIRTie Spectrum.Model.LoopIRVec Spectrum.Proofs.LoopIRLevinson
               Spectrum.Proofs.LoopIRMinvarPsi Spectrum.Proofs.LoopIRArburg Spectrum.Proofs.LoopIRAryule.
Import ListNotations.
Local Open Scope string_scope.

(* ---------------------------------------------------------------- the program, decomposed *)
(* slots 0=X 1=order 2=sampling 3=NFFT 4=fft@tw 5,6=discarded results of is_positive_integer 7=psi 8,9,10=results of arburg
   11=A 12=P 13=k 14=K 15=SUM 16=MK 17=I 18=PSD *)
Definition prog_ispos : program :=
  mkProgram "is_positive_integer" 2 [None; Some (EStr "wrong argument. ")] 2
    (SSeq (SIf (ECmp CLt (EVar 0) (EInt 0)) (SRaise SpectrumError) SSkip)
    (SSeq (SIf (ENot (EIsInt (EVar 0))) (SRaise TypeError) SSkip)
          (SReturn [EBool true]))).
Definition mw_check (dst arg : nat) : stmt :=
  SCall1 dst (p_nparams prog_ispos) (p_defaults prog_ispos) (p_nslots prog_ispos) (p_body prog_ispos) [Some (EVar arg); None].
Definition mw_burg : stmt :=
  SCall [8%nat; 9%nat; 10%nat] (p_nparams prog_arburg_ref) (p_defaults prog_arburg_ref) (p_nslots prog_arburg_ref) (p_body prog_arburg_ref)
        [Some (EVar 0); Some (EBin BSub (EVar 1) (EInt 1)); None].
Definition mw_bind : stmt := SSeq (SAssign 11 (EVar 8)) (SSeq (SAssign 12 (EVar 9)) (SAssign 13 (EVar 10))).
Definition mw_inner : stmt :=
  SFor 17 (EInt 0) (EBin BSub (EVar 1) (EVar 14)) (EInt 1)
    (SAssign 15 (EBin BAdd (EVar 15) (EBin BMul (EBin BMul (EFloat (EBin BSub (EVar 16) (EBin BMul (EInt 2) (EVar 17)))) (EConj (EIndex (EVar 11) (EVar 17))))
                                                (EIndex (EVar 11) (EBin BAdd (EVar 17) (EVar 14)))))).
Definition mw_stores : stmt :=
  SSeq (SIf (ECmp CNe (EVar 14) (EInt 0)) (SStore 7 (EBin BSub (EVar 3) (EVar 14)) (EConj (EVar 15))) SSkip)
       (SStore 7 (EVar 14) (EVar 15)).
Definition mw_body : stmt :=
  SSeq (SAssign 15 (ELit 0 0))
  (SSeq (SAssign 16 (EBin BSub (EVar 1) (EVar 14)))
  (SSeq mw_inner
  (SSeq (SAssign 15 (EBin BDiv (EVar 15) (EVar 12)))
        mw_stores))).
Definition mw_loop : stmt := SFor 14 (EInt 0) (EVar 1) (EInt 1) mw_body.
Definition mw_insert : stmt := SAssign 11 (EInsert (EVar 11) (EInt 0) (EBin BAdd (ELit 1 0) (ELit 0 0))).
Definition mw_tail : stmt :=
  SSeq (SAssign 7 (EFft (EVar 7) (Some (EVar 3)) (EVar 4)))
  (SSeq (SAssign 18 (EBin BDiv (EVar 2) (EReal (EVar 7))))
        (SReturn [EVar 18; EVar 11; EVar 13])).
Definition mw_main : stmt :=
  SSeq (mw_check 5 1)
  (SSeq (mw_check 6 3)
  (SSeq (SAssign 7 (EZeros (EVar 3) false))
  (SSeq (SSeq mw_burg mw_bind)
  (SSeq mw_insert
  (SSeq mw_loop mw_tail))))).
Definition prog_minvar_ref : program :=
  mkProgram "minvar" 5 [None; None; Some (ELit 1 0); Some (EInt 4096); None] 19 mw_main.
Local Close Scope string_scope.

(* ---------------------------------------------------------------- arburg without a criterion returns [order] coefficients *)
Section BurgLen.
Context {F : Type} {OF : Ops F}.
Lemma burg_iter_nostop_length (x : list F) m :
  match burg_iter no_stop x m with BCont st => length (b_a st) = m | BStop _ => False | BRaise => True end.
Proof.
  induction m as [|m IH]; cbn [burg_iter]; [reflexivity|].
  destruct (burg_iter no_stop x m) as [st|st|]; [|contradiction|exact Logic.I].
  destruct (burg_step no_stop (length x) st m) as [st'|st'|] eqn:E; [| |exact Logic.I].
  - destruct (burg_step_length _ _ _ _ _ E) as [H _]. lia.
  - unfold burg_step, no_stop in E. destruct (le0 _); discriminate.
Qed.
Lemma arburg_nostop_length (x : list F) n a P k : arburg x n no_stop = Some (a, P, k) -> length a = n /\ (1 <= n)%nat.
Proof.
  unfold arburg. destruct (n =? 0)%nat eqn:E0; [discriminate|]. apply Nat.eqb_neq in E0. cbn [orb].
  destruct (length x <? n)%nat; [discriminate|].
  pose proof (burg_iter_nostop_length x n) as H.
  destruct (burg_iter no_stop x n) as [st|st|]; [|contradiction|discriminate].
  unfold burg_result. intros E. injection E as <- _ _. split; [exact H|lia].
Qed.
End BurgLen.

Section Mw.
Context {F : Type} {OF : Ops F} {L : Laws OF}.
Variable feq : F -> F -> bool.
Variable stop : Z -> F -> F -> bool.
Local Open Scope F_scope.
Local Open Scope list_scope.
Add Field FFirmw : (fth (O:=OF)).
Notation value := (@value F).
Notation store := (@store F).
Notation exec := (@exec F OF feq stop).

(* ---------------------------------------------------------------- errors.is_positive_integer *)
Lemma ispos_run (n : Z) :
  run feq stop prog_ispos [Some (VI n); None] = if (n <? 0)%Z then OErr SpectrumError else ORet [VB true].
Proof.
  unfold run, prog_ispos.
  cbn [p_defaults p_body p_nslots p_nparams bind_args bind ok LoopIR.eval Nat.sub app repeat LoopIR.exec get nth try compare cmpZ truthy].
  destruct (n <? 0)%Z; reflexivity.
Qed.

Lemma mw_check_ok dst arg (st : store) n :
  get st arg = inl (VI n) ->
  exec (mw_check dst arg) st = if (n <? 0)%Z then (st, CErr SpectrumError) else (set st dst (VB true), CNormal).
Proof.
  intros G. unfold mw_check. rewrite (scall1_run feq stop dst prog_ispos _ st [Some (VI n); None]).
  - rewrite ispos_run. destruct (n <? 0)%Z; reflexivity.
  - cbn [eval_oargs LoopIR.eval]. rewrite G. reflexivity.
Qed.

(* ---------------------------------------------------------------- the psi loop on the 19 slots of the whole function *)
Section Psi.
Variables (vX vs vtw d5 d6 r8 r9 r10 vk vPSD : value).
Definition pst (m nfft : nat) (psi A P K SUM MK I : value) : store :=
  [vX; VI (Z.of_nat m); vs; VI (Z.of_nat nfft); vtw; d5; d6; psi; r8; r9; r10; A; P; vk; K; SUM; MK; I; vPSD].
Ltac ev := cbn [LoopIR.exec LoopIR.eval get set nth pst bind try asZ asArr asF ok err fst snd arith arithZ fop compare cmpF cmpZ eqne truthy eval_list].

Lemma mw_inner_ok m nfft vpsi tA A vP K s0 vi :
  (K < m)%nat -> (m <= length A)%nat ->
  exists vi',
    exec mw_inner (pst m nfft vpsi (VArr tA A) vP (VI (Z.of_nat K)) (VF s0) (VI (Z.of_nat m - Z.of_nat K)) vi)
    = (pst m nfft vpsi (VArr tA A) vP (VI (Z.of_nat K))
           (VF (lsum (m - K) (fun I => ofdiff (m - K) (2 * I) * conj (nthF A I) * nthF A (I + K)) s0)) (VI (Z.of_nat m - Z.of_nat K)) vi', CNormal).
Proof.
  intros HK HA. unfold mw_inner.
  cbn [LoopIR.exec LoopIR.eval get nth pst bind try asZ ok arith arithZ].
  replace (Z.of_nat m - Z.of_nat K)%Z with (Z.of_nat (m - K)) by lia. rewrite range_vals_nat. cbn [try].
  match goal with |- exists vi', (let (st', c) := for_loop ?f ?x _ ?st in _) = _ =>
    destruct (for_loop_inv f x
      (fun i s => exists vi', s = pst m nfft vpsi (VArr tA A) vP (VI (Z.of_nat K))
                                  (VF (lsum i (fun I => ofdiff (m - K) (2 * I) * conj (nthF A I) * nthF A (I + K)) s0))
                                  (VI (Z.of_nat (m - K))) vi') (m - K)%nat st)
      as [s' [E [vi' I']]]
  end.
  - exists vi. reflexivity.
  - intros i s Hi [vi' ->].
    cbn [pst set]. cbn [LoopIR.exec LoopIR.eval get nth bind try asZ asArr asF ok arith arithZ fop fst snd].
    rewrite norm_index_nat by lia. cbn [bind ok arith arithZ asF fop].
    rewrite <- Nat2Z.inj_add, norm_index_nat by lia. cbn [bind ok arith asF fop try set].
    eexists. split; [reflexivity|]. exists (VI (Z.of_nat i)). cbn [lsum].
    replace (2 * Z.of_nat i)%Z with (Z.of_nat (2 * i)) by lia. rewrite ofZ_diff. reflexivity.
  - exists vi'. rewrite E, I'. reflexivity.
Qed.

(* one pass of the K loop: the model's [psi_step] while K < NFFT, IndexError at K = NFFT *)
Lemma mw_body_ok m nfft tA A P tP psi K vK vsm vmk vi :
  (K < m)%nat -> (m <= length A)%nat -> length psi = nfft -> (K <= nfft)%nat ->
  exists s' ,
    exec mw_body (set (pst m nfft (VArr tP psi) (VArr tA A) (VF P) vK vsm vmk vi) 14 (VI (Z.of_nat K)))
    = (s', if (K <? nfft)%nat then CNormal else CErr IndexError)
    /\ ((K < nfft)%nat -> exists vsm' vmk' vi',
          s' = pst m nfft (VArr tP (psi_step m nfft A P psi K)) (VArr tA A) (VF P) (VI (Z.of_nat K)) vsm' vmk' vi').
Proof.
  intros HK HA Hpsi HKn. unfold mw_body. cbn [pst set].
  erewrite exec_seq; [|ev; reflexivity].
  erewrite exec_seq; [|ev; reflexivity].
  destruct (mw_inner_ok m nfft (VArr tP psi) tA A (VF P) K (lit 0 0) vi HK HA) as [vi' E].
  unfold pst in E. erewrite exec_seq by exact E. clear E. rewrite mv_sum_eq.
  erewrite exec_seq; [|ev; reflexivity].
  set (s := mv_sum m A K / P).
  unfold mw_stores, psi_step. fold s.
  destruct (Nat.eq_dec K 0) as [E0|N0].
  - (* K = 0: only psi[0] = SUM *)
    subst K. cbn [Nat.eqb].
    erewrite exec_seq; [|ev; reflexivity].
    destruct (Nat.ltb_spec 0 nfft) as [Hn|Hn].
    + eexists. split.
      * ev. rewrite norm_index_nat by lia. ev. rewrite updF_upd. reflexivity.
      * intros _. do 3 eexists. reflexivity.
    + eexists. split; [|lia].
      ev. unfold norm_index. cbn [Z.of_nat Z.ltb Z.compare].
      replace ((0 <=? 0)%Z && (0 <? Z.of_nat (length psi))%Z) with false
        by (symmetry; apply andb_false_iff; right; apply Z.ltb_ge; lia). reflexivity.
  - replace (K =? 0)%nat with false by (symmetry; apply Nat.eqb_neq; exact N0).
    erewrite exec_seq.
    2:{ ev. replace (Z.of_nat K =? 0)%Z with false by (symmetry; apply Z.eqb_neq; lia). cbn [negb]. ev.
        rewrite norm_index_ok by lia. ev. rewrite updF_upd. replace (Z.to_nat (Z.of_nat nfft - Z.of_nat K)) with (nfft - K)%nat by lia.
        reflexivity. }
    destruct (Nat.ltb_spec K nfft) as [Hn|Hn].
    + eexists. split.
      * ev. rewrite norm_index_nat by (rewrite upd_length; lia). ev. rewrite updF_upd. reflexivity.
      * intros _. do 3 eexists. reflexivity.
    + eexists. split; [|lia].
      ev. unfold norm_index. replace (Z.of_nat K <? 0)%Z with false by (symmetry; apply Z.ltb_ge; lia).
      replace ((0 <=? Z.of_nat K)%Z && (Z.of_nat K <? Z.of_nat (length (upd psi (nfft - K) (conj s))))%Z) with false
        by (symmetry; apply andb_false_iff; right; apply Z.ltb_ge; rewrite upd_length; lia). reflexivity.
Qed.

Lemma mw_loop_upto m nfft tA A P tP vK vsm vmk vi n :
  (m <= length A)%nat -> (n <= m)%nat -> (n <= nfft)%nat ->
  exists vK' vsm' vmk' vi',
    for_loop (exec mw_body) 14 (range_from 0 1 n)
      (pst m nfft (VArr tP (zeros nfft)) (VArr tA A) (VF P) vK vsm vmk vi)
    = (pst m nfft (VArr tP (psi_upto m nfft A P n)) (VArr tA A) (VF P) vK' vsm' vmk' vi', CNormal).
Proof.
  intros HA Hn Hnf.
  destruct (for_loop_inv (exec mw_body) 14
    (fun i s => exists vK' vsm' vmk' vi',
       s = pst m nfft (VArr tP (psi_upto m nfft A P i)) (VArr tA A) (VF P) vK' vsm' vmk' vi') n
    (pst m nfft (VArr tP (zeros nfft)) (VArr tA A) (VF P) vK vsm vmk vi))
    as [s' [E [vK' [vsm' [vmk' [vi' I']]]]]].
  - exists vK, vsm, vmk, vi. reflexivity.
  - intros i s Hi [vK' [vsm' [vmk' [vi' ->]]]].
    destruct (mw_body_ok m nfft tA A P tP (psi_upto m nfft A P i) i vK' vsm' vmk' vi' ltac:(lia) HA (psi_upto_length _ _ _ _ _) ltac:(lia))
      as [s2 [E2 H2]].
    replace (i <? nfft)%nat with true in E2 by (symmetry; apply Nat.ltb_lt; lia).
    exists s2. split; [exact E2|]. destruct (H2 ltac:(lia)) as [a [b [c ->]]].
    exists (VI (Z.of_nat i)), a, b, c. rewrite psi_upto_S. reflexivity.
  - exists vK', vsm', vmk', vi'. rewrite E, I'. reflexivity.
Qed.

(* the whole K loop: IndexError when NFFT < order, else psi holds the model's [psi_loop] *)
Lemma mw_loop_ok m nfft tA A P tP vK vsm vmk vi :
  (m <= length A)%nat ->
  exists s',
    exec mw_loop (pst m nfft (VArr tP (zeros nfft)) (VArr tA A) (VF P) vK vsm vmk vi)
    = (s', if (nfft <? m)%nat then CErr IndexError else CNormal)
    /\ ((m <= nfft)%nat -> exists vK' vsm' vmk' vi',
          s' = pst m nfft (VArr tP (psi_loop m nfft A P)) (VArr tA A) (VF P) vK' vsm' vmk' vi').
Proof.
  intros HA. unfold mw_loop.
  destruct (Nat.ltb_spec nfft m) as [Hlt|Hge].
  - destruct (mw_loop_upto m nfft tA A P tP vK vsm vmk vi nfft HA ltac:(lia) (le_n _)) as [vK' [vsm' [vmk' [vi' E]]]].
    destruct (mw_body_ok m nfft tA A P tP (psi_upto m nfft A P nfft) nfft vK' vsm' vmk' vi' Hlt HA (psi_upto_length _ _ _ _ _) (le_n _))
      as [s2 [E2 _]].
    replace (nfft <? nfft)%nat with false in E2 by (symmetry; apply Nat.ltb_irrefl).
    exists s2. split; [|lia].
    ev. rewrite range_vals_nat. cbn [try].
    assert (Er : range_from 0 1 m = range_from 0 1 nfft ++ range_from (0 + Z.of_nat nfft) 1 (m - nfft)).
    { rewrite <- range_from_app. f_equal. lia. }
    rewrite Er, for_loop_app. rewrite E.
    destruct (m - nfft)%nat as [|d] eqn:Ed; [lia|]. cbn [range_from for_loop]. rewrite Z.add_0_l. rewrite E2. reflexivity.
  - destruct (mw_loop_upto m nfft tA A P tP vK vsm vmk vi m HA (le_n _) Hge) as [vK' [vsm' [vmk' [vi' E]]]].
    eexists. split.
    + ev. rewrite range_vals_nat. cbn [try]. rewrite E. reflexivity.
    + intros _. exists vK', vsm', vmk', vi'. reflexivity.
Qed.
End Psi.

(* ---------------------------------------------------------------- the whole function *)
Ltac ev := cbn [LoopIR.exec LoopIR.eval get set nth bind try asZ asArr asF ok err fst snd arith arithZ fop compare cmpF cmpZ eqne truthy eval_list eval_opt].

Definition w0 (t : bool) (x : list F) (order : Z) (sv : F) (nfft : nat) (tw : nat -> Z -> F) : store :=
  [VArr t x; VI order; VF sv; VI (Z.of_nat nfft); VTw tw;
   VUnbound; VUnbound; VUnbound; VUnbound; VUnbound; VUnbound; VUnbound; VUnbound; VUnbound; VUnbound; VUnbound; VUnbound; VUnbound; VUnbound].

(* what the run must end with, in terms of the models of arburg and of the psi loop *)
Definition mw_ctl (tw : nat -> Z -> F) (x : list F) (order : Z) (sv : F) (nfft : nat) : ctl :=
  if (order <? 0)%Z then CErr SpectrumError
  else
    let m := Z.to_nat order in
    match arburg x (m - 1) no_stop with
    | None => CErr ValueError
    | Some (a, P, k) =>
        if (nfft <? m)%nat then CErr IndexError
        else CRet [VArr false (map (fun z => sv / re z) (dft (tw nfft) nfft (psi_loop m nfft (1 :: a) P))); VArr false (1 :: a); VArr false k]
    end.

(* the call of arburg(X, order - 1) and the three assignments *)
Lemma mw_burg_ok t (x : list F) (m : nat) sv nfft tw d5 d6 psi :
  let st := [VArr t x; VI (Z.of_nat m); VF sv; VI (Z.of_nat nfft); VTw tw; d5; d6; psi;
             VUnbound; VUnbound; VUnbound; VUnbound; VUnbound; VUnbound; VUnbound; VUnbound; VUnbound; VUnbound; VUnbound] in
  exec (SSeq mw_burg mw_bind) st =
  match arburg x (m - 1) no_stop with
  | Some (a, P, k) =>
      ([VArr t x; VI (Z.of_nat m); VF sv; VI (Z.of_nat nfft); VTw tw; d5; d6; psi;
        VArr false a; VF P; VArr false k; VArr false a; VF P; VArr false k; VUnbound; VUnbound; VUnbound; VUnbound; VUnbound], CNormal)
  | None => (st, CErr ValueError)
  end.
Proof.
  intros st.
  pose proof (scall_run feq stop [8%nat; 9%nat; 10%nat] prog_arburg_ref [Some (EVar 0); Some (EBin BSub (EVar 1) (EInt 1)); None] st
                [Some (VArr t x); Some (VI (Z.of_nat m - 1)); None] eq_refl (le_S _ _ (le_n 2))) as H.
  rewrite (arburg_ir_nocrit feq stop t x (Z.of_nat m - 1) None (or_introl eq_refl)) in H.
  replace (Z.to_nat (Z.of_nat m - 1)) with (m - 1)%nat in H by lia. fold mw_burg in H.
  destruct (arburg x (m - 1) no_stop) as [[[a P] k]|].
  - specialize (H eq_refl). erewrite exec_seq by exact H. reflexivity.
  - apply exec_seq_stop; [exact H|discriminate].
Qed.

Lemma mw_main_ok t (x : list F) (order : Z) sv nfft tw :
  exists s', exec mw_main (w0 t x order sv nfft tw) = (s', mw_ctl tw x order sv nfft).
Proof.
  unfold mw_main, mw_ctl, w0.
  destruct (Z.ltb_spec order 0) as [Hneg|Hpos].
  - eexists. apply exec_seq_stop; [|discriminate].
    rewrite (mw_check_ok 5 1 _ order) by reflexivity. replace (order <? 0)%Z with true by (symmetry; apply Z.ltb_lt; exact Hneg). reflexivity.
  - set (m := Z.to_nat order). assert (Eo : order = Z.of_nat m) by (unfold m; lia). rewrite Eo. clear Eo Hpos. clearbody m. clear order.
    assert (Hz : forall n : nat, (Z.of_nat n <? 0)%Z = false) by (intros n; apply Z.ltb_ge; lia).
    erewrite exec_seq; [|rewrite (mw_check_ok 5 1 _ (Z.of_nat m)) by reflexivity; rewrite Hz; reflexivity].
    cbn [set].
    erewrite exec_seq; [|rewrite (mw_check_ok 6 3 _ (Z.of_nat nfft)) by reflexivity; rewrite Hz; reflexivity].
    cbn [set].
    erewrite exec_seq; [|ev; rewrite Hz, Nat2Z.id; reflexivity].
    cbn [set]. fold (zeros nfft).
    pose proof (mw_burg_ok t x m sv nfft tw (VB true) (VB true) (VArr false (zeros nfft))) as HB. cbv zeta in HB.
    destruct (arburg x (m - 1) no_stop) as [[[a P] k]|] eqn:Ea.
    2:{ eexists. apply exec_seq_stop; [exact HB|discriminate]. }
    destruct (arburg_nostop_length x (m - 1) a P k Ea) as [La Lm].
    erewrite exec_seq by exact HB. clear HB.
    erewrite exec_seq.
    2:{ unfold mw_insert. ev. change (0 <? 0)%Z with false. cbv iota. change (0 <=? 0)%Z with true. cbn [andb].
        replace (0 <=? Z.of_nat (length a))%Z with true by (symmetry; apply Z.leb_le; lia).
        change (Z.to_nat 0) with 0%nat. cbn [firstn skipn app]. rewrite lit_one_zero. reflexivity. }
    cbn [set].
    destruct (mw_loop_ok (VArr t x) (VF sv) (VTw tw) (VB true) (VB true) (VArr false a) (VF P) (VArr false k) (VArr false k) VUnbound
                m nfft false (1 :: a) P false VUnbound VUnbound VUnbound VUnbound ltac:(cbn [length]; lia)) as [s1 [E1 H1]].
    unfold pst in E1.
    destruct (Nat.ltb_spec nfft m) as [Hlt|Hge].
    { exists s1. apply exec_seq_stop; [exact E1|discriminate]. }
    destruct (H1 Hge) as [vK' [vsm' [vmk' [vi' ->]]]]. clear H1.
    erewrite exec_seq by exact E1. clear E1.
    unfold mw_tail, pst.
    erewrite exec_seq.
    2:{ ev. unfold fft_points. replace (Z.of_nat nfft <=? 0)%Z with false by (symmetry; apply Z.leb_gt; lia). cbn [bind ok]. rewrite Nat2Z.id. reflexivity. }
    cbn [set].
    erewrite exec_seq; [|ev; rewrite map_map; reflexivity].
    cbn [set]. eexists. ev. reflexivity.
Qed.

Lemma bind_args_mw tw t (x : list F) order (s : option F) (nf : option nat) :
  bind_args feq (p_defaults prog_minvar_ref) (minvar_args tw t x order s nf)
  = inl [VArr t x; VI order; VF (match s with Some z => z | None => one_lit end);
         VI (Z.of_nat (match nf with Some n => n | None => 4096%nat end)); VTw tw].
Proof. destruct s, nf; reflexivity. Qed.

Lemma mw_ctl_spec tw (x : list F) order (s : option F) nfft :
  match mw_ctl tw x order (match s with Some z => z | None => one_lit end) nfft with
  | CRet vs => ORet vs | CErr e => OErr e | CNormal => ORet [VNone] | _ => OErr TypeError
  end = minvar_spec tw x order s nfft.
Proof.
  unfold mw_ctl, minvar_spec, minvar.
  destruct (order <? 0)%Z; [reflexivity|].
  destruct (arburg x (Z.to_nat order - 1) no_stop) as [[[a P] k]|]; [|reflexivity].
  destruct (nfft <? Z.to_nat order)%nat; reflexivity.
Qed.

Theorem minvar_ir_run_opt tw (t : bool) (x : list F) (order : Z) (s : option F) (nf : option nat) :
  run feq stop prog_minvar_ref (minvar_args tw t x order s nf) = minvar_spec tw x order s (match nf with Some n => n | None => 4096%nat end).
Proof.
  unfold run. rewrite bind_args_mw.
  destruct (mw_main_ok t x order (match s with Some z => z | None => one_lit end) (match nf with Some n => n | None => 4096%nat end) tw) as [s' E].
  cbn [p_body p_nslots p_nparams prog_minvar_ref Nat.sub app repeat]. unfold w0 in E. rewrite E. clear E.
  rewrite <- mw_ctl_spec.
  destruct (mw_ctl tw x order _ _); reflexivity.
Qed.

(* NFFT given: the shape [tie_minvar] compares *)
Theorem minvar_ir_run tw (t : bool) (x : list F) (order : Z) (s : option F) (nfft : nat) :
  run feq stop prog_minvar_ref (minvar_args tw t x order s (Some nfft)) = minvar_spec tw x order s nfft.
Proof. apply (minvar_ir_run_opt tw t x order s (Some nfft)). Qed.

(* NFFT omitted: the Python default default_NFFT = 4096 *)
Theorem minvar_ir_run_default tw (t : bool) (x : list F) (order : Z) (s : option F) :
  run feq stop prog_minvar_ref (minvar_args tw t x order s None) = minvar_spec tw x order s 4096.
Proof. apply (minvar_ir_run_opt tw t x order s None). Qed.
End Mw.

Section MwTie.
Context {F : Type} {OF : Ops F} {L : Laws OF}.
Variable feq : F -> F -> bool.
Hypothesis feq_refl : forall a, feq a a = true.

Lemma leq_refl_mw (l : list F) : leq feq l l = true.
Proof.
  unfold leq. rewrite Nat.eqb_refl. cbn [andb]. induction l as [|a l IH]; [reflexivity|].
  cbn [combine forallb fst snd]. rewrite feq_refl, IH. reflexivity.
Qed.

Theorem minvar_ir_tie tw (isreal : bool) (x : list F) (order : Z) (s : option F) (nfft : nat) :
  tie_minvar feq tw prog_minvar_ref isreal x order s nfft = true.
Proof.
  unfold tie_minvar. rewrite (minvar_ir_run feq (@nostop F)).
  unfold minvar_spec. destruct (order <? 0)%Z; [reflexivity|].
  destruct (arburg x (Z.to_nat order - 1) no_stop); [|reflexivity].
  destruct (minvar _ _ _ _ _) as [[[psd A] k]|]; [|reflexivity].
  cbn [out_eq vals_eq val_eq Bool.eqb andb]. rewrite !leq_refl_mw. reflexivity.
Qed.
End MwTie.

(* BEGIN GENERATED minvar (verbatim output of tools/props/_loopir.py for spectrum.minvar.minvar, errors.is_positive_integer and burg.arburg embedded) *)
(* minvar: slots 0=X 1=order 2=sampling 3=NFFT 4=fft@tw 5=is_positive_integer@discard#5 6=is_positive_integer@discard#6 7=psi 8=arburg@ret0#8 9=arburg@ret1#9 10=arburg@ret2#10 11=A 12=P 13=k 14=K 15=SUM 16=MK 17=I 18=PSD *)
Definition prog_minvar_gen0 : program := mkProgram "minvar" 5 [None; None; (Some (ELit 1 0)); (Some (EInt 4096)); None] 19
(SSeq (SCall1 5 2 [None; (Some (EStr "wrong argument. "))] 2
(SSeq (SIf (ECmp CLt (EVar 0) (EInt 0))
(SRaise SpectrumError)
(SSkip))
(SSeq (SIf (ENot (EIsInt (EVar 0)))
(SRaise TypeError)
(SSkip))
(SReturn [(EBool true)])))
[(Some (EVar 1)); None])
(SSeq (SCall1 6 2 [None; (Some (EStr "wrong argument. "))] 2
(SSeq (SIf (ECmp CLt (EVar 0) (EInt 0))
(SRaise SpectrumError)
(SSkip))
(SSeq (SIf (ENot (EIsInt (EVar 0)))
(SRaise TypeError)
(SSkip))
(SReturn [(EBool true)])))
[(Some (EVar 3)); None])
(SSeq (SAssign 7 (EZeros (EVar 3) false))
(SSeq (SSeq (SCall [8%nat; 9%nat; 10%nat] 3 [None; None; (Some ENone)] 23
(SSeq (SIf (ELe0 (EVar 1))
(SRaise ValueError)
(SSkip))
(SSeq (SIf (ECmp CGt (EVar 1) (ELen (EVar 0)))
(SRaise ValueError)
(SSkip))
(SSeq (SAssign 3 (ECopy (EVar 0)))
(SSeq (SAssign 4 (ELen (EVar 3)))
(SSeq (SAssign 5 (EBin BDiv (ESum (ENrm2 (EVar 3))) (EFloat (EVar 4))))
(SSeq (SAssign 6 (EBin BMul (EBin BMul (EVar 5) (ELit 2 0)) (EVar 4)))
(SSeq (SIf (EVar 2)
(SSeq (SAssign 7 ENewCrit)
(SCritCall None 7 (EVar 5) (EInt 0)))
(SSkip))
(SSeq (SAssign 8 (EZeros (EInt 0) false))
(SSeq (SAssign 9 (EZeros (EInt 0) false))
(SSeq (SAssign 10 (EAsComplex (EVar 3)))
(SSeq (SAssign 11 (EAsComplex (EVar 3)))
(SSeq (SAssign 12 (ELit 1 0))
(SSeq (SFor 13 (EInt 0) (EVar 1) (EInt 1)
(SSeq (SAssign 15 (ESum (EComp 14 (EBin BAdd (EVar 13) (EInt 1)) (EVar 4) (EBin BMul (EIndex (EVar 10) (EVar 14)) (EConj (EIndex (EVar 11) (EBin BSub (EVar 14) (EInt 1))))))))
(SSeq (SAssign 6 (EBin BSub (EBin BSub (EBin BMul (EVar 12) (EVar 6)) (ENrm2 (EIndex (EVar 10) (EVar 13)))) (ENrm2 (EIndex (EVar 11) (EBin BSub (EVar 4) (EInt 1))))))
(SSeq (SAssign 16 (EBin BDiv (EBin BMul (ENeg (ELit 2 0)) (EVar 15)) (EVar 6)))
(SSeq (SAssign 12 (EBin BSub (ELit 1 0) (ENrm2 (EVar 16))))
(SSeq (SAssign 17 (EBin BMul (EVar 12) (EVar 5)))
(SSeq (SIf (EVar 2)
(SSeq (SCritCall (Some 18%nat) 7 (EBin BMul (EVar 12) (EVar 5)) (EBin BAdd (EVar 13) (EInt 1)))
(SIf (EIsBool false (EVar 18))
(SBreak)
(SSkip)))
(SSkip))
(SSeq (SAssign 5 (EVar 17))
(SSeq (SIf (ELe0 (EVar 5))
(SRaise ValueError)
(SSkip))
(SSeq (SResize 8 (EBin BAdd (ELen (EVar 8)) (EInt 1)))
(SSeq (SStore 8 (EVar 13) (EVar 16))
(SSeq (SIf (ECmp CEq (EVar 13) (EInt 0))
(SFor 19 (EBin BSub (EVar 4) (EInt 1)) (EVar 13) (ENeg (EInt 1))
(SSeq (SAssign 20 (EIndex (EVar 10) (EVar 19)))
(SSeq (SStore 10 (EVar 19) (EBin BAdd (EVar 20) (EBin BMul (EVar 16) (EIndex (EVar 11) (EBin BSub (EVar 19) (EInt 1))))))
(SStore 11 (EVar 19) (EBin BAdd (EIndex (EVar 11) (EBin BSub (EVar 19) (EInt 1))) (EBin BMul (EConj (EVar 16)) (EVar 20)))))))
(SSeq (SAssign 21 (EBin BFloorDiv (EBin BAdd (EVar 13) (EInt 1)) (EInt 2)))
(SSeq (SFor 19 (EInt 0) (EVar 21) (EInt 1)
(SSeq (SAssign 22 (EIndex (EVar 8) (EVar 19)))
(SSeq (SStore 8 (EVar 19) (EBin BAdd (EVar 22) (EBin BMul (EVar 16) (EConj (EIndex (EVar 8) (EBin BSub (EBin BSub (EVar 13) (EVar 19)) (EInt 1)))))))
(SIf (ECmp CNe (EVar 19) (EBin BSub (EBin BSub (EVar 13) (EVar 19)) (EInt 1)))
(SStore 8 (EBin BSub (EBin BSub (EVar 13) (EVar 19)) (EInt 1)) (EBin BAdd (EIndex (EVar 8) (EBin BSub (EBin BSub (EVar 13) (EVar 19)) (EInt 1))) (EBin BMul (EVar 16) (EConj (EVar 22)))))
(SSkip)))))
(SFor 19 (EBin BSub (EVar 4) (EInt 1)) (EVar 13) (ENeg (EInt 1))
(SSeq (SAssign 20 (EIndex (EVar 10) (EVar 19)))
(SSeq (SStore 10 (EVar 19) (EBin BAdd (EVar 20) (EBin BMul (EVar 16) (EIndex (EVar 11) (EBin BSub (EVar 19) (EInt 1))))))
(SStore 11 (EVar 19) (EBin BAdd (EIndex (EVar 11) (EBin BSub (EVar 19) (EInt 1))) (EBin BMul (EConj (EVar 16)) (EVar 20))))))))))
(SSeq (SResize 9 (EBin BAdd (ELen (EVar 9)) (EInt 1)))
(SStore 9 (EVar 13) (EVar 16)))))))))))))))
(SReturn [(EVar 8); (EVar 5); (EVar 9)]))))))))))))))
[(Some (EVar 0)); (Some (EBin BSub (EVar 1) (EInt 1))); None])
(SSeq (SAssign 11 (EVar 8))
(SSeq (SAssign 12 (EVar 9))
(SAssign 13 (EVar 10)))))
(SSeq (SAssign 11 (EInsert (EVar 11) (EInt 0) (EBin BAdd (ELit 1 0) (ELit 0 0))))
(SSeq (SFor 14 (EInt 0) (EVar 1) (EInt 1)
(SSeq (SAssign 15 (ELit 0 0))
(SSeq (SAssign 16 (EBin BSub (EVar 1) (EVar 14)))
(SSeq (SFor 17 (EInt 0) (EBin BSub (EVar 1) (EVar 14)) (EInt 1)
(SAssign 15 (EBin BAdd (EVar 15) (EBin BMul (EBin BMul (EFloat (EBin BSub (EVar 16) (EBin BMul (EInt 2) (EVar 17)))) (EConj (EIndex (EVar 11) (EVar 17)))) (EIndex (EVar 11) (EBin BAdd (EVar 17) (EVar 14)))))))
(SSeq (SAssign 15 (EBin BDiv (EVar 15) (EVar 12)))
(SSeq (SIf (ECmp CNe (EVar 14) (EInt 0))
(SStore 7 (EBin BSub (EVar 3) (EVar 14)) (EConj (EVar 15)))
(SSkip))
(SStore 7 (EVar 14) (EVar 15))))))))
(SSeq (SAssign 7 (EFft (EVar 7) (Some (EVar 3)) (EVar 4)))
(SSeq (SAssign 18 (EBin BDiv (EVar 2) (EReal (EVar 7))))
(SReturn [(EVar 18); (EVar 11); (EVar 13)]))))))))).

(* END GENERATED minvar *)
Example prog_minvar_ref_is_generated : prog_minvar_ref = prog_minvar_gen0.
Proof. reflexivity. Qed.

Print Assumptions minvar_ir_run.
Print Assumptions minvar_ir_run_default.
Print Assumptions minvar_ir_tie.
