(* The executed model on noiseless exponentials, with no hypothesis left besides the data:
   it returns, e = 0, and the coefficients are those of the root polynomial. *)
Require Import Spectrum.Theory.Ops Spectrum.Theory.Sum Spectrum.Theory.Vec Spectrum.Theory.Order
               Spectrum.Model.Corr Spectrum.Model.Ls Spectrum.Proofs.LsTheory Spectrum.Proofs.CovarTheory
               Spectrum.Proofs.CovarOpt Spectrum.Proofs.CovarExp Spectrum.Proofs.CovarVdm Spectrum.Proofs.GaussTheory.

Section CovarFinal.
Context {F : Type} {OF : Ops F} {L : Laws OF} {OL : OrdLaws OF}.
Local Open Scope F_scope.

Theorem arcovar_model_recovers_thm tol (x : list F) p amp z c :
  (forall t, (t < length x)%nat -> nthF x t = expsum p amp z t) ->
  distinct p z -> (forall i, (i < p)%nat -> amp i <> 0) -> (2 * p <= length x)%nat ->
  (forall i, (i < p)%nat -> monic_eval p c (z i) = 0) ->
  exists a, arcovar tol x p = Some (a, 0) /\ length a = p /\ forall j, (j < p)%nat -> nthF a j = c j.
Proof.
  intros Hx Hd Ha HN Hr.
  destruct (arcovar_model_returns_thm tol x p (exp_full_rank_thm x p amp z Hx Hd Ha HN)) as (a & e & E).
  destruct (covar_exact_recovery_thm ls_solve tol x p amp z c a e ls_solve_spec_thm Hx Hd Ha HN Hr E) as (E0 & Hac & _).
  destruct (covar_residual_orthogonal_thm ls_solve tol x p a e ls_solve_spec_thm E) as [Hl _].
  exists a. rewrite <- E0. split; [exact E|]. split; [exact Hl|exact Hac].
Qed.

Theorem modcovar_model_recovers_thm tol (x : list F) p amp z c :
  (forall t, (t < length x)%nat -> nthF x t = expsum p amp z t) ->
  distinct p z -> (forall i, (i < p)%nat -> amp i <> 0) -> (2 * p <= length x)%nat ->
  (forall i, (i < p)%nat -> monic_eval p c (z i) = 0) ->
  (forall i, (i < p)%nat -> z i * conj (z i) = 1) ->
  exists a, modcovar tol x p = Some (a, 0) /\ length a = p /\ forall j, (j < p)%nat -> nthF a j = c j.
Proof.
  intros Hx Hd Ha HN Hr Hu.
  destruct (modcovar_model_returns_thm tol x p (cov_mod_full_rank x p (exp_full_rank_thm x p amp z Hx Hd Ha HN))) as (a & e & E).
  destruct (modcovar_exact_recovery_thm ls_solve tol x p amp z c a e ls_solve_spec_thm Hx Hd Ha HN Hr Hu E) as (E0 & Hac & _).
  destruct (modcovar_residual_orthogonal_thm ls_solve tol x p a e ls_solve_spec_thm E) as [Hl _].
  exists a. rewrite <- E0. split; [exact E|]. split; [exact Hl|exact Hac].
Qed.
End CovarFinal.
