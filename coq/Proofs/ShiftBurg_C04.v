(* C04 — arburg (recursive denominator, order-selection break) under modulation, conjugation and
   conjugated time reversal of the data.

   modulation  x[j] phi(j):  ef[j] carries phi(j), eb[j] carries phi(j - min(j, stage)) (the stale entries below the
                stage keep the phase they had when they were last written), kp of stage k carries phi(k+1);
                rho, den, temp are unchanged, hence the same stop / raise decisions;
   conjugation: everything conjugated, rho / den / temp unchanged (needs the denominators nonzero: conj(a/0) is
                not determined in the abstract field; the code would produce inf/nan there);
   reversal    conj(x[N-1-j]):  on the entries that are read (j >= stage) ef'[j] = conj(eb[N-1-j+stage]) and
                eb'[j] = conj(ef[N-1-j+stage]); a, rho, ref, den, temp are equal. *)
Require Import Spectrum.Theory.Ops Spectrum.Theory.Sum Spectrum.Theory.Vec Spectrum.Theory.Dft
               Spectrum.Model.Levinson Spectrum.Model.Corr Spectrum.Model.Burg
               Spectrum.Proofs.CorrTheory Spectrum.Proofs.LevinsonTheory Spectrum.Proofs.BurgTheory Spectrum.Proofs.ShiftTheory
               Spectrum.Proofs.ShiftDft_C04 Spectrum.Proofs.ShiftPeriodogram_C04 Spectrum.Proofs.ShiftArma_C04.

Section BurgShift.
Context {F : Type} {OF : Ops F} {L : Laws OF}.
Local Open Scope F_scope.
Add Field FFsbg : (fth (O:=OF)).

Lemma burg_iter_lengths stop (x : list F) m st : burg_iter stop x m = BCont st ->
  length (b_a st) = m /\ length (b_ref st) = m /\ length (b_ef st) = length x /\ length (b_eb st) = length x.
Proof.
  revert st; induction m; intros st H.
  - cbn in H. injection H as <-. cbn. repeat split; reflexivity.
  - cbn [burg_iter] in H. destruct (burg_iter stop x m) as [s0| |] eqn:E; try discriminate.
    destruct (IHm s0 eq_refl) as (Ha & Hr & _). unfold burg_step in H.
    destruct (stop _ _ _); [discriminate|]. destruct (le0 _); [discriminate|]. injection H as <-.
    cbn [b_a b_ref b_ef b_eb]. rewrite stepup_length, app_length, !mk_length. cbn. repeat split; lia.
Qed.
Lemma burg_num_sumf N (ef eb : list F) k :
  burg_num N ef eb k = sumf (N - k - 1) (fun i => nthF ef (i + k + 1) * conj (nthF eb (i + k))).
Proof. unfold burg_num. apply sumL_mk. Qed.

Definition map_out (g h : @burg_st F -> @burg_st F) (o : @burg_out F) : @burg_out F :=
  match o with BCont s => BCont (g s) | BStop s => BStop (h s) | BRaise => BRaise end.

(* ================= modulation ================= *)
Section Mod.
Variable phi : Z -> F.
Hypothesis phi_add : forall a b : Z, phi (a + b)%Z = phi a * phi b.
Hypothesis phi_0 : phi 0%Z = 1.
Hypothesis phi_cj : forall a : Z, conj (phi a) = phi (- a)%Z.

Definition modeb (k : nat) (eb : list F) : list F :=
  mk (length eb) (fun j => nthF eb j * phi (Z.of_nat j - Z.of_nat (Nat.min j k))%Z).
Lemma nthF_modeb k eb j : nthF (modeb k eb) j = nthF eb j * phi (Z.of_nat j - Z.of_nat (Nat.min j k))%Z.
Proof.
  unfold modeb. destruct (Nat.lt_ge_cases j (length eb)) as [H|H].
  - rewrite nth_mk by exact H. reflexivity.
  - rewrite nth_mk_ge by exact H. rewrite nthF_overflow by exact H. ring.
Qed.
Definition modburg (k : nat) (st : burg_st) : burg_st :=
  {| b_a := modA phi (b_a st); b_rho := b_rho st; b_ref := modA phi (b_ref st);
     b_ef := vmod phi 0 (b_ef st); b_eb := modeb k (b_eb st); b_den := b_den st; b_temp := b_temp st |}.

Lemma nrm2_phi_mul a z : nrm2 (z * phi a) = nrm2 z.
Proof.
  unfold nrm2. rewrite conj_mul. transitivity (z * conj z * (phi a * conj (phi a))); [ring|].
  rewrite (phi_unit phi phi_add phi_0 phi_cj). ring.
Qed.
Lemma burg_num_mod N k st : burg_num N (b_ef (modburg k st)) (b_eb (modburg k st)) k
  = phi (Z.of_nat k + 1) * burg_num N (b_ef st) (b_eb st) k.
Proof.
  rewrite !burg_num_sumf, <- sumf_scale. apply sumf_ext; intros i _. cbn [modburg b_ef b_eb].
  rewrite nthF_vmod, nthF_modeb, conj_mul. rewrite Nat.min_r by lia.
  replace (Z.of_nat (i + k + 1) + 0)%Z with ((Z.of_nat (i + k) - Z.of_nat k) + (Z.of_nat k + 1))%Z by lia.
  transitivity (nthF (b_ef st) (i + k + 1) * conj (nthF (b_eb st) (i + k))
                * (phi (Z.of_nat (i + k) - Z.of_nat k + (Z.of_nat k + 1)) * conj (phi (Z.of_nat (i + k) - Z.of_nat k)))); [ring|].
  rewrite (phi_shift phi phi_add phi_cj). ring.
Qed.
Lemma burg_den_mod N k st : burg_den N (modburg k st) k = burg_den N st k.
Proof.
  unfold burg_den. cbn [modburg b_ef b_eb b_den b_temp]. rewrite nthF_vmod, nthF_modeb, !nrm2_phi_mul. reflexivity.
Qed.
Lemma burg_kp_mod N k st : burg_kp N (modburg k st) k = phi (Z.of_nat k + 1) * burg_kp N st k.
Proof.
  unfold burg_kp. rewrite burg_num_mod, burg_den_mod. rewrite !(Fdiv_def (fth (O:=OF))). ring.
Qed.

Lemma burg_step_mod stop N k st : length (b_a st) = k -> length (b_ref st) = k ->
  burg_step stop N (modburg k st) k = map_out (modburg (S k)) (modburg k) (burg_step stop N st k).
Proof.
  intros Ha Hr. unfold burg_step. rewrite burg_kp_mod, burg_den_mod.
  set (kp := burg_kp N st k). set (ph := phi (Z.of_nat k + 1)).
  assert (En : nrm2 (ph * kp) = nrm2 kp).
  { replace (ph * kp) with (kp * ph) by ring. apply nrm2_phi_mul. }
  rewrite En. cbn [modburg b_rho].
  destruct (stop (S k) (b_rho st) ((1 - nrm2 kp) * b_rho st)); [reflexivity|].
  destruct (le0 ((1 - nrm2 kp) * b_rho st)); [reflexivity|]. cbn [map_out]. f_equal.
  unfold modburg. cbn [b_a b_rho b_ref b_ef b_eb b_den b_temp]. f_equal.
  - unfold ph. apply (stepup_mod phi phi_add phi_cj). exact Ha.
  - rewrite (modA_app phi), Hr. f_equal. f_equal. unfold ph. ring.
  - apply list_eq_nth; [rewrite vmod_length, !mk_length; reflexivity|]. intros j Hj. rewrite mk_length in Hj.
    rewrite nthF_vmod, !nth_mk by exact Hj. rewrite nthF_vmod, nthF_modeb.
    destruct (Nat.ltb_spec k j) as [H|H]; [|reflexivity].
    rewrite Nat.min_r by lia. unfold ph.
    replace (Z.of_nat j + 0)%Z with ((Z.of_nat k + 1) + (Z.of_nat (j - 1) - Z.of_nat k))%Z by lia.
    rewrite (phi_add (Z.of_nat k + 1)). ring.
  - apply list_eq_nth; [unfold modeb; rewrite !mk_length; reflexivity|]. intros j Hj. rewrite mk_length in Hj.
    rewrite nthF_modeb, !nth_mk by exact Hj. rewrite nthF_vmod, !nthF_modeb.
    destruct (Nat.ltb_spec k j) as [H|H].
    + rewrite Nat.min_r by lia. rewrite (Nat.min_r j (S k)) by lia. rewrite conj_mul. unfold ph.
      replace (Z.of_nat (j - 1) - Z.of_nat k)%Z with (Z.of_nat j - Z.of_nat (S k))%Z by lia.
      assert (E : conj (phi (Z.of_nat k + 1)) * phi (Z.of_nat j + 0) = phi (Z.of_nat j - Z.of_nat (S k))).
      { replace (Z.of_nat j + 0)%Z with ((Z.of_nat k + 1) + (Z.of_nat j - Z.of_nat (S k)))%Z by lia.
        rewrite <- (phi_shift phi phi_add phi_cj (Z.of_nat k + 1) (Z.of_nat j - Z.of_nat (S k))). ring. }
      transitivity (nthF (b_eb st) (j - 1) * phi (Z.of_nat j - Z.of_nat (S k))
                    + conj kp * nthF (b_ef st) j * (conj (phi (Z.of_nat k + 1)) * phi (Z.of_nat j + 0))); [ring|].
      rewrite E. ring.
    + rewrite !Nat.min_l by lia. reflexivity.
Qed.

Lemma burg_init_mod (x : list F) : burg_init (vmod phi 0 x) = modburg 0 (burg_init x).
Proof.
  unfold burg_init, modburg. cbn [b_a b_rho b_ref b_ef b_eb b_den b_temp].
  change (mean_power (vmod phi 0 x)) with (mean_pow (vmod phi 0 x)).
  rewrite (mean_pow_mod phi phi_add phi_0 phi_cj), vmod_length. change (mean_pow x) with (mean_power x).
  f_equal. unfold modeb, vmod. apply mk_ext; intros j _. rewrite Nat.min_r by lia. do 2 f_equal; try lia.
Qed.

Definition stage_of (st : @burg_st F) : nat := length (b_ref st).
Lemma burg_iter_mod stop (x : list F) m :
  burg_iter stop (vmod phi 0 x) m = map_out (modburg m) (fun s => modburg (stage_of s) s) (burg_iter stop x m).
Proof.
  induction m; [cbn [burg_iter map_out]; f_equal; apply burg_init_mod|].
  cbn [burg_iter]. rewrite IHm, vmod_length.
  destruct (burg_iter stop x m) as [st|st|] eqn:E; cbn [map_out]; try reflexivity.
  destruct (burg_iter_lengths _ _ _ _ E) as (Ha & Hr & _).
  rewrite burg_step_mod by assumption.
  destruct (burg_step stop (length x) st m) as [s|s|] eqn:E2; cbn [map_out]; try reflexivity.
  apply burg_step_stop in E2. subst s. unfold stage_of. rewrite Hr. reflexivity.
Qed.

(* arburg of the modulated data: AR and reflection coefficient j multiplied by phi(j+1), rho unchanged,
   same ValueError branch, same order selected by a criterion that reads (order, rho) only *)
Theorem arburg_modulation_thm (x : list F) order stop :
  arburg (vmod phi 0 x) order stop = option_map (modst phi) (arburg x order stop).
Proof.
  unfold arburg. rewrite vmod_length. destruct ((order =? 0)%nat || (length x <? order)%nat); [reflexivity|].
  rewrite burg_iter_mod. destruct (burg_iter stop x order); reflexivity.
Qed.
End Mod.

(* ================= conjugation ================= *)
Definition conjburg (st : @burg_st F) : burg_st :=
  {| b_a := vconj (b_a st); b_rho := b_rho st; b_ref := vconj (b_ref st);
     b_ef := vconj (b_ef st); b_eb := vconj (b_eb st); b_den := b_den st; b_temp := b_temp st |}.
Lemma conj_two : conj (two : F) = two.
Proof. unfold two. rewrite conj_add, conj_1. reflexivity. Qed.
Lemma burg_den_conj N k st : burg_den N (conjburg st) k = burg_den N st k.
Proof. unfold burg_den. cbn [conjburg b_ef b_eb b_den b_temp]. rewrite !nthF_vconj, !nrm2_conj'. reflexivity. Qed.
Lemma burg_num_conj N k st : burg_num N (b_ef (conjburg st)) (b_eb (conjburg st)) k = conj (burg_num N (b_ef st) (b_eb st) k).
Proof.
  rewrite !burg_num_sumf, sumf_conj. apply sumf_ext; intros i _. cbn [conjburg b_ef b_eb].
  rewrite !nthF_vconj, conj_mul. reflexivity.
Qed.
Lemma burg_step_conj stop N k st : isreal (b_den st) -> isreal (b_temp st) -> burg_den N st k <> 0 ->
  burg_step stop N (conjburg st) k = map_out conjburg conjburg (burg_step stop N st k).
Proof.
  intros Hd Ht Hd0. unfold burg_step.
  assert (Ek : burg_kp N (conjburg st) k = conj (burg_kp N st k)).
  { unfold burg_kp. rewrite burg_num_conj, burg_den_conj, conj_div, conj_opp, conj_mul, conj_two by exact Hd0. f_equal.
    unfold burg_den. rewrite !conj_sub, conj_mul, Ht, Hd, !nrm2_real. reflexivity. }
  rewrite Ek, burg_den_conj, nrm2_conj'. cbn [conjburg b_rho]. set (kp := burg_kp N st k).
  destruct (stop (S k) (b_rho st) ((1 - nrm2 kp) * b_rho st)); [reflexivity|].
  destruct (le0 ((1 - nrm2 kp) * b_rho st)); [reflexivity|]. cbn [map_out]. f_equal.
  unfold conjburg. cbn [b_a b_rho b_ref b_ef b_eb b_den b_temp]. f_equal.
  - apply stepup_conj.
  - rewrite vconj_app. reflexivity.
  - apply list_eq_nth; [rewrite vconj_length, !mk_length; reflexivity|]. intros j Hj. rewrite mk_length in Hj.
    rewrite nthF_vconj, !nth_mk by exact Hj. rewrite !nthF_vconj.
    destruct (k <? j)%nat; [rewrite conj_add, conj_mul|]; reflexivity.
  - apply list_eq_nth; [rewrite vconj_length, !mk_length; reflexivity|]. intros j Hj. rewrite mk_length in Hj.
    rewrite nthF_vconj, !nth_mk by exact Hj. rewrite !nthF_vconj.
    destruct (k <? j)%nat; [rewrite conj_add, conj_mul|]; reflexivity.
Qed.
Lemma burg_step_real stop N k st st' : isreal (b_den st) -> isreal (b_temp st) ->
  burg_step stop N st k = BCont st' -> isreal (b_den st') /\ isreal (b_temp st').
Proof.
  intros Hd Ht H. unfold burg_step in H. destruct (stop _ _ _); [discriminate|]. destruct (le0 _); [discriminate|].
  injection H as <-. cbn [b_den b_temp]. split.
  - unfold burg_den, isreal. rewrite !conj_sub, conj_mul, Ht, Hd, !nrm2_real. reflexivity.
  - apply isreal_sub; [apply isreal_1|apply isreal_nrm2].
Qed.
Lemma mean_power_conj (x : list F) : mean_power (vconj x) = mean_power x.
Proof. apply mean_pow_conj. Qed.
Lemma burg_iter_conj stop (x : list F) m : ofnat (length x) <> 0 ->
  (forall q st, (q < m)%nat -> burg_iter stop x q = BCont st -> burg_den (length x) st q <> 0) ->
  burg_iter stop (vconj x) m = map_out conjburg conjburg (burg_iter stop x m)
  /\ (forall st, burg_iter stop x m = BCont st -> isreal (b_den st) /\ isreal (b_temp st)).
Proof.
  intros HN. induction m; intros Hok.
  - split.
    + cbn [burg_iter map_out]. f_equal. unfold burg_init, conjburg. cbn [b_a b_rho b_ref b_ef b_eb b_den b_temp].
      rewrite mean_power_conj, vconj_length. reflexivity.
    + intros st H. cbn in H. injection H as <-. cbn [burg_init b_den b_temp]. split; [|apply isreal_1].
      apply isreal_mul; [apply isreal_mul; [apply (mean_pow_real x HN)|apply conj_two]|apply conj_ofnat].
  - destruct IHm as [IH1 IH2]; [intros q st Hq; apply Hok; lia|].
    cbn [burg_iter]. rewrite IH1, vconj_length.
    destruct (burg_iter stop x m) as [st|st|] eqn:E; cbn [map_out]; try (split; [reflexivity|discriminate]).
    destruct (IH2 st eq_refl) as [Hd Ht]. split.
    + apply burg_step_conj; [exact Hd|exact Ht|apply (Hok m st); [lia|exact E]].
    + intros st' H. apply (burg_step_real stop (length x) m st st' Hd Ht H).
Qed.
Theorem arburg_conj_thm (x : list F) order stop : ofnat (length x) <> 0 ->
  (forall q st, (q < order)%nat -> burg_iter stop x q = BCont st -> burg_den (length x) st q <> 0) ->
  arburg (vconj x) order stop = option_map (@conjst F OF) (arburg x order stop).
Proof.
  intros HN Hok. unfold arburg. rewrite vconj_length. destruct ((order =? 0)%nat || (length x <? order)%nat); [reflexivity|].
  destruct (burg_iter_conj stop x order HN Hok) as [-> _]. destruct (burg_iter stop x order); reflexivity.
Qed.

(* ================= conjugated time reversal ================= *)
Definition RevRel (N k : nat) (st st' : @burg_st F) : Prop :=
  b_a st' = b_a st /\ b_rho st' = b_rho st /\ b_ref st' = b_ref st /\ b_den st' = b_den st /\ b_temp st' = b_temp st
  /\ (forall j, (k <= j < N)%nat -> nthF (b_ef st') j = conj (nthF (b_eb st) (N - 1 - j + k)))
  /\ (forall j, (k <= j < N)%nat -> nthF (b_eb st') j = conj (nthF (b_ef st) (N - 1 - j + k))).
Definition OutRev (N m : nat) (o o' : @burg_out F) : Prop :=
  match o, o' with
  | BCont s, BCont s' => RevRel N m s s'
  | BStop s, BStop s' => burg_result s' = burg_result s
  | BRaise, BRaise => True
  | _, _ => False
  end.
Lemma burg_step_rev stop N k st st' : (k < N)%nat -> RevRel N k st st' ->
  OutRev N (S k) (burg_step stop N st k) (burg_step stop N st' k).
Proof.
  intros Hk (Ha & Hrho & Hr & Hd & Ht & Hef & Heb). unfold burg_step.
  assert (Eden : burg_den N st' k = burg_den N st k).
  { unfold burg_den. rewrite Hd, Ht, Hef, Heb by lia. rewrite !nrm2_conj'.
    replace (N - 1 - k + k)%nat with (N - 1)%nat by lia. replace (N - 1 - (N - 1) + k)%nat with k by lia. ring. }
  assert (Enum : burg_num N (b_ef st') (b_eb st') k = burg_num N (b_ef st) (b_eb st) k).
  { rewrite !burg_num_sumf. rewrite (sumf_rev (N - k - 1)). apply sumf_ext; intros i Hi.
    rewrite Hef, Heb by lia. rewrite conj_conj. rewrite (Rmul_comm (F_R (fth (O:=OF)))).
    f_equal; [f_equal; lia|f_equal; f_equal; lia]. }
  assert (Ek : burg_kp N st' k = burg_kp N st k) by (unfold burg_kp; rewrite Enum, Eden; reflexivity).
  rewrite Ek, Eden, Hrho. set (kp := burg_kp N st k).
  destruct (stop (S k) (b_rho st) ((1 - nrm2 kp) * b_rho st)).
  { cbn [OutRev]. unfold burg_result. rewrite Ha, Hrho, Hr. reflexivity. }
  destruct (le0 ((1 - nrm2 kp) * b_rho st)); [exact I|].
  cbn [OutRev]. unfold RevRel. cbn [b_a b_rho b_ref b_ef b_eb b_den b_temp].
  rewrite Ha, Hr. repeat split.
  - intros j Hj. rewrite !nth_mk by lia.
    destruct (Nat.ltb_spec k j); [|lia]. destruct (Nat.ltb_spec k (N - 1 - j + S k)); [|lia].
    rewrite Hef, Heb by lia. rewrite conj_add, conj_mul, conj_conj.
    replace (N - 1 - j + S k - 1)%nat with (N - 1 - j + k)%nat by lia.
    replace (N - 1 - (j - 1) + k)%nat with (N - 1 - j + S k)%nat by lia. reflexivity.
  - intros j Hj. rewrite !nth_mk by lia.
    destruct (Nat.ltb_spec k j); [|lia]. destruct (Nat.ltb_spec k (N - 1 - j + S k)); [|lia].
    rewrite Hef, Heb by lia. rewrite conj_add, conj_mul.
    replace (N - 1 - j + S k - 1)%nat with (N - 1 - j + k)%nat by lia.
    replace (N - 1 - (j - 1) + k)%nat with (N - 1 - j + S k)%nat by lia. reflexivity.
Qed.
Lemma mean_power_revconj (x : list F) : mean_power (vrevconj x) = mean_power x.
Proof.
  unfold mean_power, vrevconj. rewrite mk_length. f_equal. rewrite !sumL_map_nrm2', mk_length.
  rewrite (sumf_rev (length x)). apply sumf_ext; intros j Hj. rewrite nth_mk by lia.
  rewrite nrm2_conj'. f_equal. f_equal. lia.
Qed.
Lemma burg_iter_rev stop (x : list F) m : (m <= length x)%nat ->
  OutRev (length x) m (burg_iter stop x m) (burg_iter stop (vrevconj x) m).
Proof.
  induction m; intros Hm.
  - cbn [burg_iter OutRev]. unfold RevRel, burg_init. cbn [b_a b_rho b_ref b_ef b_eb b_den b_temp].
    rewrite mean_power_revconj, vrevconj_length. repeat split;
      intros j Hj; unfold vrevconj; rewrite nth_mk by lia; do 2 f_equal; lia.
  - specialize (IHm ltac:(lia)). cbn [burg_iter]. rewrite vrevconj_length.
    destruct (burg_iter stop x m) as [s|s|], (burg_iter stop (vrevconj x) m) as [s'|s'|]; cbn [OutRev] in IHm; try contradiction.
    + apply burg_step_rev; [lia|exact IHm].
    + cbn [OutRev]. exact IHm.
    + exact I.
Qed.
(* arburg(conj(x[::-1])) = arburg(x): same AR coefficients, error power, reflection coefficients, same branch *)
Theorem arburg_time_reversal_thm (x : list F) order stop : arburg (vrevconj x) order stop = arburg x order stop.
Proof.
  unfold arburg. rewrite vrevconj_length.
  destruct (order =? 0)%nat; [reflexivity|]. destruct (Nat.ltb_spec (length x) order) as [H|H]; [reflexivity|]. cbn [orb].
  pose proof (burg_iter_rev stop x order H) as R.
  destruct (burg_iter stop x order) as [s|s|], (burg_iter stop (vrevconj x) order) as [s'|s'|]; cbn [OutRev] in R; try contradiction.
  - destruct R as (Ha & Hrho & Hr & _). unfold burg_result. rewrite Ha, Hrho, Hr. reflexivity.
  - rewrite R. reflexivity.
  - reflexivity.
Qed.
End BurgShift.
